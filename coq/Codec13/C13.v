(* C13 - Loading a document adds exactly its triples, whatever its size or prior content.
   Only the property theorems; each is closed by `exact <lemma>` and followed by Print Assumptions.

   Vocabulary (definitions, no proofs: Str.v Model.v Spec.v Wf.v Classes.v Inv.v Witness.v)
     doc : list item            a document of the line-oriented subset as abstract syntax, one item per line
     render_doc doc             its concrete text (list of lines)                         (Spec.v)
     triples_of doc             the lexical quads the document says                        (Spec.v)
     load_nt / load_nq / load_n3 / load_ttl   the model of the loaders                    (Model.v)
     load_nt_n n                parse_ntriples_and_add with chunks of n lines (the code: n = 1000)
     den x                      the lexical quad set of a database (decode_any over all quads)
     db_ok x                    the dictionary invariant of the prior database + every stored id decodes
     db_okq x                   db_ok x and the invariant of the quoted-triple store (qts_ok)
     lq_of4 q                   a document quad as `den` reports it
     known_C13_*                the decidable classes of the known findings              (Classes.v) *)
Require Import KV.Codec13.Model KV.Codec13.Spec KV.Codec13.Wf KV.Codec13.WfTtl KV.Codec13.Classes KV.Codec13.Inv KV.Codec13.Witness.
Require Import KV.Codec13.ChunkProofs KV.Codec13.NtProofs KV.Codec13.N3Proofs KV.Codec13.TtlProofs KV.Codec13.TtlListProofs KV.Codec13.AgreeProofs KV.Codec13.IdsProofs KV.Codec13.RefuteProofs.

(* (1) Splitting the document into chunks of ANY size n >= 1, parsing each chunk on its own (one rayon
   task per chunk) and concatenating the results in chunk order gives exactly the per-line parse of
   the whole document: chunk size, hence number of tasks and threads, cannot influence what is parsed
   (given that the chunk results are collected in order, which is rayon's contract). *)
Theorem C13_chunking :
  forall (n : nat) (lines : list str), (1 <= n)%nat ->
    flat_map parse_chunk_nt (chunks n lines) = flat_map nt_line lines.
Proof. exact chunking_nt. Qed.
Print Assumptions C13_chunking.

(* (2) N-Triples.  For EVERY document of the subset (any number of lines, blank lines, comments, any
   white space, IRIs, blank nodes, literals with every escape form, language tags, datatypes, and one-level
   quoted triples `<< s p o >>` whose components are IRIs, blank nodes, plain or typed literals), EVERY
   chunk size, and EVERY prior database that satisfies the dictionary and quoted-triple-store invariants and
   has room for the new identifiers: the loaded database satisfies the invariants again and denotes exactly the prior
   quads plus the quads the document says - literal values with leading or trailing white space, a leading quote
   or angle brackets included (fix 16f77b9: a cleaned term is interned verbatim) - unless a literal's VALUE itself
   starts with two '<' and ends with two '>' (what is left of finding C13-literal-recleaned: class known_C13_reclean). *)
Theorem C13_ntriples :
  forall (n : nat) (doc : list item) (x : db),
    (1 <= n)%nat -> wf_doc_nt doc = true -> known_C13_reclean doc = false -> db_okq x ->
    next_id (d_dict x) + 10 * N.of_nat (length (triples_of doc)) <= QBIT ->
    db_okq (load_nt_n n (render_doc doc) x) /\
    forall lq, In lq (den (load_nt_n n (render_doc doc) x)) <-> In lq (den x) \/ In lq (map lq_of4 (triples_of doc)).
Proof. exact ntriples_main. Qed.
Print Assumptions C13_ntriples.

(* the code's own chunk size *)
Theorem C13_ntriples_1000 :
  forall (doc : list item) (x : db),
    wf_doc_nt doc = true -> known_C13_reclean doc = false -> db_okq x ->
    next_id (d_dict x) + 10 * N.of_nat (length (triples_of doc)) <= QBIT ->
    db_okq (load_nt (render_doc doc) x) /\
    forall lq, In lq (den (load_nt (render_doc doc) x)) <-> In lq (den x) \/ In lq (map lq_of4 (triples_of doc)).
Proof. exact ntriples_1000. Qed.
Print Assumptions C13_ntriples_1000.

(* (3) N-Quads, with named graphs (IRIs or blank nodes) and default-graph statements mixed. *)
Theorem C13_nquads :
  forall (doc : list item) (x : db),
    wf_doc_nq doc = true -> known_C13_reclean doc = false -> db_okq x ->
    next_id (d_dict x) + 10 * N.of_nat (length (triples_of doc)) <= QBIT ->
    db_okq (load_nq (render_doc doc) x) /\
    forall lq, In lq (den (load_nq (render_doc doc) x)) <-> In lq (den x) \/ In lq (map lq_of4 (triples_of doc)).
Proof. exact nquads_main. Qed.
Print Assumptions C13_nquads.

(* identifiers of existing terms are stable under loading (N-Triples for every chunk size, N-Quads):
   whatever term an identifier denoted before, it denotes after; so every prior quad keeps its reading
   and a term new to the dictionary gets an identifier that denoted nothing before. *)
Theorem C13_ids_stable :
  forall (n : nat) (doc : list item) (x : db),
    (1 <= n)%nat -> wf_doc_nt doc = true -> known_C13_reclean doc = false -> db_okq x ->
    next_id (d_dict x) + 10 * N.of_nat (length (triples_of doc)) <= QBIT ->
    forall i s, decode_any x i = Some s -> decode_any (load_nt_n n (render_doc doc) x) i = Some s.
Proof. exact ntriples_ids_stable. Qed.
Print Assumptions C13_ids_stable.

Theorem C13_ids_stable_nquads :
  forall (doc : list item) (x : db),
    wf_doc_nq doc = true -> known_C13_reclean doc = false -> db_okq x ->
    next_id (d_dict x) + 10 * N.of_nat (length (triples_of doc)) <= QBIT ->
    forall i s, decode_any x i = Some s -> decode_any (load_nq (render_doc doc) x) i = Some s.
Proof. exact nquads_ids_stable. Qed.
Print Assumptions C13_ids_stable_nquads.

(* C13-literal-recleaned.  Repaired for N-Triples / N-Quads by fix 16f77b9 (encode_cleaned_term): regression lemma -
   the pre-fix encoding (`encode_triple_old`, Witness.v) stored " x" as "x"; the witness document now loads as the
   Spec says and is outside the class. *)
Theorem C13_reclean_regression :
  lq_mem wc_missing (den_after_old (iA, iB, [32; 120])) = false /\
  lq_mem (lq_of iA iB [120] None) (den_after_old (iA, iB, [32; 120])) = true /\
  wf_doc_nt wc_doc = true /\ known_C13_reclean wc_doc = false /\
  lq_mem wc_missing (den (load_nt (render_doc wc_doc) db_new)) = true.
Proof. exact reclean_regression. Qed.
Print Assumptions C13_reclean_regression.

(* what is left of it (the class known_C13_reclean is now only this): a literal whose VALUE starts with << and ends
   with >> is still parsed as a quoted triple ... *)
Theorem C13_reclean_refuted :
  wf_doc_nt wr_doc = true /\ known_C13_reclean wr_doc = true /\
  ~ (forall lq, In lq (den (load_nt (render_doc wr_doc) db_new)) <-> In lq (den db_new) \/ In lq (map lq_of4 (triples_of wr_doc))).
Proof. exact reclean_refuted. Qed.
Print Assumptions C13_reclean_refuted.

(* ... and a Turtle statement whose subject or object is a quoted triple still goes through encode_term_star, which
   trims the statement's literal (class known_C13_ttl_reclean). *)
Theorem C13_ttl_reclean_refuted :
  known_C13_ttl_reclean wt_doc = true /\
  ~ (forall lq, In lq (den (load_ttl (render_doc wt_doc) db_new)) <-> In lq (den db_new) \/ In lq (map lq_of4 (triples_of wt_doc))).
Proof. exact ttl_reclean_refuted. Qed.
Print Assumptions C13_ttl_reclean_refuted.

(* (4) N3.  Outside the class known_C13_n3 (the receiving dictionary is empty AND the document has at
   most 1000 lines, i.e. one chunk) parse_n3 is right: for every document of the N3 subset (IRIs and
   prefixed names, @prefix declarations anywhere, blank lines, comment lines, any white space) and every
   such database, the loaded database denotes the prior quads plus the document's triples.
   The full statement (without the hypothesis known_C13_n3 doc x = false) is false: see the two
   refutations below. *)
Theorem C13_n3 :
  forall (doc : list item) (x : db),
    wf_doc_n3 doc = true -> known_C13_n3 doc x = false -> db_ok x ->
    forall lq, In lq (den (load_n3 (render_doc doc) x)) <-> In lq (den x) \/ In lq (map lq_of4 (triples_of doc)).
Proof. exact n3_main. Qed.
Print Assumptions C13_n3.

(* Both halves of known_C13_n3 are genuine violations of the full statement
     forall doc x, den (load_n3 (render_doc doc) x) = den x U triples_of doc :
   (a) one well-formed statement loaded into a database holding one triple adds nothing *)
Theorem C13_n3_nonempty_dictionary_refuted :
  wf_item_n3 (hd (IBlank []) wa_doc) = true /\ db_ok wa_db /\
  known_C13_n3 wa_doc wa_db = true /\ multichunk (length wa_doc) = false /\
  ~ (forall lq, In lq (den (load_n3 (render_doc wa_doc) wa_db)) <-> In lq (den wa_db) \/ In lq (map lq_of4 (triples_of wa_doc))).
Proof. exact n3_nonempty_refuted. Qed.
Print Assumptions C13_n3_nonempty_dictionary_refuted.

(* (b) a 1500-line document with the @prefix on line 1, loaded into the EMPTY database: 999 quads *)
Theorem C13_n3_multichunk_refuted :
  forallb wf_item_n3 wb_doc = true /\ length wb_doc = 1500%nat /\ db_ok db_new /\ dict_nonempty (d_dict db_new) = false /\
  known_C13_n3 wb_doc db_new = true /\
  length (den (load_n3 (render_doc wb_doc) db_new)) = 999%nat /\
  ~ (forall lq, In lq (den (load_n3 (render_doc wb_doc) db_new)) <-> In lq (den db_new) \/ In lq (map lq_of4 (triples_of wb_doc))).
Proof. exact n3_multichunk_refuted. Qed.
Print Assumptions C13_n3_multichunk_refuted.

(* further N3 classes found while building the correspondence (each outside known_C13_n3) *)
Theorem C13_n3_literal_refuted :
  known_C13_n3 wd_doc db_new = false /\ known_C13_n3_literal wd_doc = true /\
  ~ (forall lq, In lq (den (load_n3 (render_doc wd_doc) db_new)) <-> In lq (den db_new) \/ In lq (map lq_of4 (triples_of wd_doc))).
Proof. exact n3_literal_refuted. Qed.
Print Assumptions C13_n3_literal_refuted.

Theorem C13_n3_hash_refuted :
  known_C13_n3 wf_doc db_new = false /\ known_C13_n3_literal wf_doc = false /\ known_C13_n3_hash wf_doc = true /\
  ~ (forall lq, In lq (den (load_n3 (render_doc wf_doc) db_new)) <-> In lq (den db_new) \/ In lq (map lq_of4 (triples_of wf_doc))).
Proof. exact n3_hash_refuted. Qed.
Print Assumptions C13_n3_hash_refuted.

(* regression lemma for the repaired finding C13-turtle-tagged-literal (fix dbe5296): the cleaning function
   before the repair kept a stray quote after the value; the repaired one gives the lexical form and the former witness
   document now loads as the Spec says *)
Theorem C13_turtle_tagged_regression :
  clean_turtle_term_old (render_term (TLit [LPlain 120] (SLang [101;110]))) = [120; 34; 64; 101; 110] /\
  clean_turtle_term (render_term (TLit [LPlain 120] (SLang [101;110]))) = lex [] (TLit [LPlain 120] (SLang [101;110])) /\
  lq_mem we_missing (den (load_ttl (render_doc we_doc) db_new)) = true.
Proof. exact ttl_tagged_regression. Qed.
Print Assumptions C13_turtle_tagged_regression.

(* Turtle, one statement per line, written `s p o .` with any white space or as a predicate/object list
   `s p o , o ; p o .` with single blanks (IRIs that are http(s):// or colon-free, prefixed names, blank nodes with
   alphanumeric labels, literals - plain, language-tagged or typed, every escape form - whose value has no ':' and
   does not start with '<' or a quote; no '{' in IRIs; one-level quoted triples as subject or object of a plain
   statement; @prefix lines, comments, blank lines), into EVERY prior database satisfying the invariant whose prefix table is sane
   (alphanumeric names, IRIs made of IRI characters).  A statement with a quoted triple goes through
   encode_term_star, which re-cleans the other terms of that statement: class known_C13_ttl_reclean (the Turtle
   side of finding C13-literal-recleaned).  Prefixes declared by earlier loads stay in scope in
   parse_turtle, so the document's quads are read under `d_pref x` (= triples_of doc when that table is empty).
   Nested quoted triples, prefixed names inside quoted triples and the `{| |}` annotation syntax: modelled +
   correspondence only. *)
Theorem C13_turtle :
  forall (doc : list item) (x : db),
    wf_doc_ttl doc = true -> known_C13_ttl_reclean doc = false -> db_okq x -> pref_ok (d_pref x) ->
    next_id (d_dict x) + 9 * N.of_nat (length (quads_from (d_pref x) doc)) <= QBIT ->
    db_okq (load_ttl (render_doc doc) x) /\
    forall lq, In lq (den (load_ttl (render_doc doc) x)) <-> In lq (den x) \/ In lq (map lq_of4 (quads_from (d_pref x) doc)).
Proof. exact ttl_main. Qed.
Print Assumptions C13_turtle.

(* (5) The same triples in different formats.  PARTIAL: proved for N-Triples, N-Quads (default graph) and
   one-statement-per-line Turtle including plain, language-tagged and typed literals, and for N3 on documents of
   its subset (IRIs only: N3 literals are finding C13-n3-literal-quoted); RDF/XML is not modelled
   (correspondence stream only).  Full statement:
     forall triples x, den (load_nt (as_nt triples) x) = den (load_nq (as_nq triples) x)
                     = den (load_ttl (as_ttl triples) x) = den (load_n3 (as_n3 triples) x) = den (load_rdfxml ...)
   A document whose statements are written with http(s) IRIs, blank nodes, literals and single blanks is at the
   same time an N-Triples, an N-Quads and a Turtle document (same text). *)
Theorem C13_formats_agree_partial :
  forall (doc : list item) (x : db),
    wf_doc_nt doc = true -> wf_doc_ttl doc = true ->
    known_C13_reclean doc = false -> known_C13_ttl_reclean doc = false -> db_okq x -> pref_ok (d_pref x) ->
    next_id (d_dict x) + 10 * N.of_nat (length doc) <= QBIT ->
    forall lq,
      (In lq (den (load_nt (render_doc doc) x)) <-> In lq (den (load_nq (render_doc doc) x))) /\
      (In lq (den (load_nt (render_doc doc) x)) <-> In lq (den (load_ttl (render_doc doc) x))) /\
      (wf_doc_n3 doc = true -> known_C13_n3 doc x = false ->
       (In lq (den (load_nt (render_doc doc) x)) <-> In lq (den (load_n3 (render_doc doc) x)))).
Proof. exact formats_agree4. Qed.
Print Assumptions C13_formats_agree_partial.

(* non-vacuity: the hypotheses of (2) and (3) hold of a non-trivial document and a populated database *)
Definition ex_doc : list item :=
  [IComment [] [32; 99];
   IStmt P0 (TIri iA) (TIri iB) (TLit [LPlain 116; LEsc 116; LEsc 34; LHex4 [48;48;101;57]; LPlain 60] (SLang [101;110])) None;
   IBlank [32];
   IStmt (mkPad [9] [32;32] [9] [32] [] [13]) (TBnode [98;49]) (TIri iB) (TLit [LPlain 53] (SDt iC)) (Some (TIri iE));
   IStmt P0 (TIri iA) (TIri iB) (TIri iC) (Some (TBnode [103]));
   IStmt P0 (TQuoted (TIri iA) (TIri iB) (TLit [LPlain 108; LPlain 32; LPlain 108] SNone)) (TIri iB)
            (TQuoted (TBnode [98]) (TIri iB) (TLit [LPlain 53] (SDt iC))) None].
Example C13_example_hypotheses :
  wf_doc_nq ex_doc = true /\ known_C13_reclean ex_doc = false /\ db_okq wa_db /\
  next_id (d_dict wa_db) + 10 * N.of_nat (length (triples_of ex_doc)) <= QBIT /\
  length (den (load_nq (render_doc ex_doc) wa_db)) = 5%nat.
Proof.
  split; [vm_compute; reflexivity|]. split; [vm_compute; reflexivity|]. split; [exact wa_db_okq|].
  split; [vm_compute; discriminate | vm_compute; reflexivity].
Qed.

(* non-vacuity of (4) and (5): prefixes, prefixed names, comments; and a document that is N-Triples and N3 at once *)
Definition ex_n3 : list item :=
  [IPrefix nEX iE; IComment [32] [99]; IStmt P0 (TPname nEX [115]) (TPname nEX [112]) (TIri iC) None;
   IStmt (mkPad [32] [9] [32;32] [] [9] [13]) (TIri iA) (TPname [] [113]) (TPname nEX [111]) None].
Definition ex_both : list item := [IStmt P0 (TIri iA) (TIri iB) (TIri iC) None; IBlank []; IStmt P0 (TIri iC) (TIri iB) (TIri iA) None].
Example C13_example_n3 :
  wf_doc_n3 ex_n3 = true /\ known_C13_n3 ex_n3 db_new = false /\ length (den (load_n3 (render_doc ex_n3) db_new)) = 2%nat /\
  wf_doc_nt ex_both = true /\ wf_doc_n3 ex_both = true /\ wf_doc_ttl ex_both = true /\
  known_C13_reclean ex_both = false /\ known_C13_n3 ex_both db_new = false.
Proof. repeat split; vm_compute; reflexivity. Qed.

Definition ex_tagged : list item :=
  [IStmt P0 (TIri iA) (TIri iB) (TLit [LPlain 120; LEsc 110] (SLang [101;110])) None;
   IStmt P0 (TBnode [98]) (TIri iB) (TLit [LPlain 53] (SDt iC)) None].
Example C13_example_tagged :
  wf_doc_nt ex_tagged = true /\ wf_doc_ttl ex_tagged = true /\ known_C13_reclean ex_tagged = false /\
  length (den (load_ttl (render_doc ex_tagged) db_new)) = 2%nat.
Proof. repeat split; vm_compute; reflexivity. Qed.

Definition ex_ttl : list item :=
  [IPrefix nEX iE; IStmt P0 (TPname nEX [115]) (TPname nEX [112]) (TLit [LPlain 118; LEsc 34; LPlain 32; LPlain 119] SNone) None;
   IStmt P0 (TBnode [98;49]) (TIri iB) (TIri iC) None; IComment [] [99];
   IStmt P0 (TQuoted (TIri iA) (TIri iB) (TLit [LPlain 120; LPlain 32; LPlain 121] SNone)) (TIri iB) (TLit [LPlain 118] (SLang [101;110])) None;
   IList (TPname nEX [115]) [(TPname nEX [112], [TIri iA; TPname nEX [111]]); (TIri iB, [TLit [LPlain 120] SNone])]].
Example C13_example_turtle :
  wf_doc_ttl ex_ttl = true /\ known_C13_ttl_reclean ex_ttl = false /\ length (den (load_ttl (render_doc ex_ttl) wa_db)) = 7%nat.
Proof. repeat split; vm_compute; reflexivity. Qed.

