(* The N-Triples / N-Quads line tokenizer, term cleaning and literal decoding of the model, run on the
   concrete text of a well-formed statement, return exactly the statement's terms. *)
Require Import KV.Codec13.Model KV.Codec13.Spec KV.Codec13.Wf KV.Codec13.StrProofs.
Require Import Lia.

(* ---------------------------------------------------------------------------------------------- *)
(* scanning with an explicit lookahead for the last character *)
Fixpoint scan_la (s : pst) (l : str) (la : option N) : pst :=
  match l with
  | [] => s
  | c :: r => scan_la (p_step s c (match r with [] => la | c2 :: _ => Some c2 end)) r la
  end.

Lemma p_scan_app : forall l s r, p_scan s (l ++ r) = p_scan (scan_la s l (hd_error r)) r.
Proof.
  induction l as [|c l IH]; intros s r; [reflexivity|].
  cbn [app p_scan scan_la]. rewrite IH. f_equal. f_equal. f_equal.
  destruct l; reflexivity.
Qed.

Lemma scan_la_app : forall a s b la,
  scan_la s (a ++ b) la = scan_la (scan_la s a (match b with [] => la | c :: _ => Some c end)) b la.
Proof.
  induction a as [|c a IH]; intros s b la; [reflexivity|].
  cbn [app scan_la]. rewrite IH. f_equal. f_equal. f_equal.
  destruct a; destruct b; reflexivity.
Qed.

(* when no step depends on the lookahead *)
Lemma scan_la_indep : forall (P : pst -> Prop) (f : pst -> N -> pst) l s la,
  (forall s c nx, P s -> In c l -> p_step s c nx = f s c /\ P (f s c)) -> P s ->
  scan_la s l la = fold_left f l s /\ P (fold_left f l s).
Proof.
  intros P f l. induction l as [|c l IH]; intros s la H Ps; [split; [reflexivity | exact Ps]|].
  cbn [scan_la fold_left].
  destruct (H s c (match l with [] => la | c2 :: _ => Some c2 end) Ps (or_introl eq_refl)) as [E Pf].
  rewrite E. apply IH; [|exact Pf].
  intros s' c' nx Ps' Hin. apply H; [exact Ps' | right; exact Hin].
Qed.

(* ---------------------------------------------------------------------------------------------- *)
(* the shapes of the tokenizer state while it scans one term at depth 0 *)
Definition st (ps : list str) : pst := mkP ps [] false false false 0 MNorm false.     (* between terms *)
Definition sB (ps : list str) (cur : str) : pst := mkP ps cur false false false 0 MNorm false.
Definition sU (ps : list str) (cur : str) : pst := mkP ps cur true false false 0 MNorm false.
Definition sL (ps : list str) (cur : str) : pst := mkP ps cur false true false 0 MNorm false.
Definition sLE (ps : list str) (cur : str) : pst := mkP ps cur false true true 0 MNorm false.
Definition sM (m : pmode) (ps : list str) (cur : str) : pst := mkP ps cur false false false 0 m false.

Ltac bools :=
  repeat match goal with
  | H : _ && _ = true |- _ => apply andb_true_iff in H; destruct H
  | H : negb _ = true |- _ => apply negb_true_iff in H
  | H : _ || _ = false |- _ => apply orb_false_iff in H; destruct H
  end.

Ltac eval_closed :=
  repeat match goal with
  | |- context [?a =? ?b] =>
      let v := eval vm_compute in (a =? b) in
      match v with true => change (a =? b) with true | false => change (a =? b) with false end
  | |- context [?a <? ?b] =>
      let v := eval vm_compute in (a <? b) in
      match v with true => change (a <? b) with true | false => change (a <? b) with false end
  end.

Ltac step_unfold :=
  cbv [p_step p_norm sB sU sL sLE sM st p_push p_emit p_finish p_set_mode p_set_skip p_set_uri
       p_set_lit p_set_esc p_set_depth opt_is p_parts p_cur p_uri p_lit p_esc p_depth p_mode p_skip negb andb orb];
  eval_closed; cbv iota.

Ltac kill_ifs :=
  cbv iota;
  repeat match goal with
  | |- context [if (?a =? ?b) then _ else _] => destruct (a =? b); cbv iota
  end;
  try reflexivity.

Lemma iri_char_facts : forall c, iri_char c = true ->
  is_ws c = false /\ (c =? cLT) = false /\ (c =? cGT) = false /\ (c =? cDQ) = false /\ (c =? cBS) = false.
Proof. intros c H. unfold iri_char in H. bools. repeat split; assumption. Qed.

Lemma ws_sp : is_ws cSP = true. Proof. reflexivity. Qed.
Lemma ws_tab : is_ws cTAB = true. Proof. reflexivity. Qed.

Lemma iri_char_not_sp : forall c, iri_char c = true -> (c =? cSP) = false /\ (c =? cTAB) = false.
Proof.
  intros c H. apply iri_char_facts in H. destruct H as [Hw _].
  split; apply N.eqb_neq; intro E; subst c; [rewrite ws_sp in Hw | rewrite ws_tab in Hw]; discriminate.
Qed.

(* --- IRI --- *)
Lemma step_open_uri : forall ps nx, opt_is cLT nx = false -> p_step (st ps) cLT nx = sU ps [cLT].
Proof.
  intros ps nx H. unfold opt_is in H. step_unfold.
  destruct nx as [x|]; [rewrite H|]; kill_ifs.
Qed.

Lemma step_uri_char : forall ps cur c nx, iri_char c = true -> p_step (sU ps cur) c nx = sU ps (c :: cur).
Proof.
  intros ps cur c nx H. apply iri_char_facts in H. destruct H as (_ & H1 & H2 & H3 & H4).
  step_unfold. rewrite H1, H2, H3, H4. kill_ifs.
Qed.

Lemma step_close_uri : forall ps cur nx, p_step (sU ps cur) cGT nx = st (trim (rev (cGT :: cur)) :: ps).
Proof. intros ps cur nx. step_unfold. reflexivity. Qed.

(* --- bare token (blank node label) --- *)
Lemma step_bare_char : forall ps cur c nx, iri_char c = true -> p_step (sB ps cur) c nx = sB ps (c :: cur).
Proof.
  intros ps cur c nx H. destruct (iri_char_not_sp c H) as [S1 S2].
  apply iri_char_facts in H. destruct H as (_ & H1 & H2 & H3 & H4).
  step_unfold. rewrite H1, H2, H3, H4, S1, S2. kill_ifs.
Qed.

(* --- literal --- *)
Lemma step_open_lit : forall ps nx, p_step (st ps) cDQ nx = sL ps [cDQ].
Proof. intros ps nx. step_unfold. reflexivity. Qed.

Lemma step_lit_plain : forall ps cur c nx, plain_char c = true -> p_step (sL ps cur) c nx = sL ps (c :: cur).
Proof.
  intros ps cur c nx H. unfold plain_char in H. bools.
  step_unfold. rewrite H, H0. kill_ifs.
Qed.

Lemma step_lit_bs : forall ps cur nx, p_step (sL ps cur) cBS nx = sLE ps (cBS :: cur).
Proof. intros ps cur nx. step_unfold. reflexivity. Qed.

Lemma step_lit_escaped : forall ps cur c nx, p_step (sLE ps cur) c nx = sL ps (c :: cur).
Proof.
  intros ps cur c nx. step_unfold. kill_ifs.
Qed.

Lemma step_close_lit : forall ps cur nx, p_step (sL ps cur) cDQ nx = sM MAfterQ ps (cDQ :: cur).
Proof. intros ps cur nx. step_unfold. reflexivity. Qed.

(* --- suffix of a literal --- *)
Lemma step_aq_caret : forall ps cur nx, p_step (sM MAfterQ ps cur) cCARET nx = sM MCaret ps (cCARET :: cur).
Proof. intros. step_unfold. kill_ifs. Qed.
Lemma step_caret_caret : forall ps cur nx, p_step (sM MCaret ps cur) cCARET nx = sM MDt ps (cCARET :: cur).
Proof. intros. step_unfold. kill_ifs. Qed.
Lemma step_dt_lt : forall ps cur nx, p_step (sM MDt ps cur) cLT nx = sM MDtUri ps (cLT :: cur).
Proof. intros. step_unfold. kill_ifs. Qed.
Lemma step_dturi_char : forall ps cur c nx, (c =? cGT) = false -> p_step (sM MDtUri ps cur) c nx = sM MDtUri ps (c :: cur).
Proof. intros ps cur c nx H. step_unfold. rewrite H. kill_ifs. Qed.
Lemma step_dturi_gt : forall ps cur nx, p_step (sM MDtUri ps cur) cGT nx = st (trim (rev (cGT :: cur)) :: ps).
Proof. intros. step_unfold. kill_ifs. Qed.
Lemma step_aq_at : forall ps cur nx, p_step (sM MAfterQ ps cur) cAT nx = sM MLang ps (cAT :: cur).
Proof. intros. step_unfold. kill_ifs. Qed.
Lemma step_lang_char : forall ps cur c nx, tag_char c = true -> p_step (sM MLang ps cur) c nx = sM MLang ps (c :: cur).
Proof. intros ps cur c nx H. unfold tag_char in H. step_unfold. rewrite H. kill_ifs. Qed.

(* --- a separator character resolves whatever is pending --- *)
Lemma sp_tab_cases : forall c, sp_tab c = true -> c = cSP \/ c = cTAB.
Proof.
  intros c H. unfold sp_tab in H. apply orb_true_iff in H. destruct H as [H|H]; apply N.eqb_eq in H; auto.
Qed.

Lemma step_sep_clean : forall ps c nx, sp_tab c = true -> p_step (st ps) c nx = st ps.
Proof. intros ps c nx H. destruct (sp_tab_cases c H); subst c; step_unfold; kill_ifs. Qed.

Lemma step_sep_bare : forall ps cur c nx, sp_tab c = true -> cur <> [] ->
  p_step (sB ps cur) c nx = st (trim (rev cur) :: ps).
Proof.
  intros ps cur c nx H Hc. destruct cur as [|x cur]; [contradiction|].
  destruct (sp_tab_cases c H); subst c; step_unfold; kill_ifs.
Qed.

Lemma step_sep_aq : forall ps cur c nx, sp_tab c = true ->
  p_step (sM MAfterQ ps cur) c nx = st (trim (rev cur) :: ps).
Proof. intros ps cur c nx H. destruct (sp_tab_cases c H); subst c; step_unfold; kill_ifs. Qed.

Lemma step_sep_lang : forall ps cur c nx, sp_tab c = true ->
  p_step (sM MLang ps cur) c nx = st (trim (rev cur) :: ps).
Proof. intros ps cur c nx H. destruct (sp_tab_cases c H); subst c; step_unfold; kill_ifs. Qed.

(* what the tokenizer returns when the line ends in one of those states *)
Lemma end_clean : forall ps, p_end (st ps) = rev ps.
Proof. reflexivity. Qed.
Lemma end_bare : forall ps cur, cur <> [] -> p_end (sB ps cur) = rev (trim (rev cur) :: ps).
Proof. intros ps cur H. destruct cur; [contradiction|]. reflexivity. Qed.
Lemma end_aq : forall ps cur, p_end (sM MAfterQ ps cur) = rev (trim (rev cur) :: ps).
Proof. reflexivity. Qed.
Lemma end_lang : forall ps cur, p_end (sM MLang ps cur) = rev (trim (rev cur) :: ps).
Proof. reflexivity. Qed.

(* a state in which the term `part` has been read after the parts `ps`, possibly not yet pushed *)
Definition Resolves (s : pst) (ps : list str) (part : str) : Prop :=
  p_end s = rev (part :: ps) /\ forall c nx, sp_tab c = true -> p_step s c nx = st (part :: ps).

Lemma resolves_clean : forall ps part, Resolves (st (part :: ps)) ps part.
Proof. intros. split; [reflexivity | intros; apply step_sep_clean; assumption]. Qed.

Lemma resolves_sep : forall s ps part w rest,
  Resolves s ps part -> sep_ok w = true -> p_scan s (w ++ rest) = p_scan (st (part :: ps)) rest.
Proof.
  intros s ps part w rest [_ Hs] Hw. unfold sep_ok in Hw. apply andb_true_iff in Hw. destruct Hw as [Hne Hall].
  destruct w as [|c w]; [discriminate|]. cbn [forallb] in Hall. apply andb_true_iff in Hall. destruct Hall as [Hc Hw].
  cbn [app p_scan]. rewrite Hs by exact Hc.
  clear Hs Hne Hc c. induction w as [|c w IH]; [reflexivity|].
  cbn [forallb] in Hw. apply andb_true_iff in Hw. destruct Hw as [Hc Hw].
  cbn [app p_scan]. rewrite step_sep_clean by exact Hc. apply IH. exact Hw.
Qed.
