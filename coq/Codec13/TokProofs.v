(* The N-Triples / N-Quads line tokenizer, term cleaning and literal decoding of the model, run on the
   concrete text of a well-formed statement, return exactly the statement's terms. *)
Require Import KV.Codec13.Model KV.Codec13.Spec KV.Codec13.Wf KV.Codec13.StrProofs.
Require Import Lia PeanoNat.

(* ---------------------------------------------------------------------------------------------- *)
(* scanning with an explicit lookahead for the last character *)
Fixpoint scan_la (s : pst) (l : str) (la : option N) : pst :=
  match l with
  | [] => s
  | c :: r => scan_la (p_step s c (match r with [] => la | c2 :: _ => Some c2 end)) r la
  end.

Lemma p_scan_app : forall l s r, p_scan s (l ++ r) = p_scan (scan_la s l (hd_error r)) r.
Proof.
  induction l as [|c l IH]; intros s r; [reflexivity|].
  cbn [app p_scan scan_la]. rewrite IH. f_equal. f_equal. f_equal.
  destruct l; reflexivity.
Qed.

Lemma scan_la_app : forall a s b la,
  scan_la s (a ++ b) la = scan_la (scan_la s a (match b with [] => la | c :: _ => Some c end)) b la.
Proof.
  induction a as [|c a IH]; intros s b la; [reflexivity|].
  cbn [app scan_la]. rewrite IH. f_equal. f_equal. f_equal.
  destruct a; destruct b; reflexivity.
Qed.

(* when no step depends on the lookahead *)
Lemma scan_la_indep : forall (P : pst -> Prop) (f : pst -> N -> pst) l s la,
  (forall s c nx, P s -> In c l -> p_step s c nx = f s c /\ P (f s c)) -> P s ->
  scan_la s l la = fold_left f l s /\ P (fold_left f l s).
Proof.
  intros P f l. induction l as [|c l IH]; intros s la H Ps; [split; [reflexivity | exact Ps]|].
  cbn [scan_la fold_left].
  destruct (H s c (match l with [] => la | c2 :: _ => Some c2 end) Ps (or_introl eq_refl)) as [E Pf].
  rewrite E. apply IH; [|exact Pf].
  intros s' c' nx Ps' Hin. apply H; [exact Ps' | right; exact Hin].
Qed.

(* ---------------------------------------------------------------------------------------------- *)
(* the shapes of the tokenizer state while it scans one term at depth 0 *)
Definition st (ps : list str) : pst := mkP ps [] false false false 0 MNorm false.     (* between terms *)
Definition sB (ps : list str) (cur : str) : pst := mkP ps cur false false false 0 MNorm false.
Definition sU (ps : list str) (cur : str) : pst := mkP ps cur true false false 0 MNorm false.
Definition sL (ps : list str) (cur : str) : pst := mkP ps cur false true false 0 MNorm false.
Definition sLE (ps : list str) (cur : str) : pst := mkP ps cur false true true 0 MNorm false.
Definition sM (m : pmode) (ps : list str) (cur : str) : pst := mkP ps cur false false false 0 m false.

Ltac bools :=
  repeat match goal with
  | H : _ && _ = true |- _ => apply andb_true_iff in H; destruct H
  | H : negb _ = true |- _ => apply negb_true_iff in H
  | H : _ || _ = false |- _ => apply orb_false_iff in H; destruct H
  end.

Ltac eval_closed :=
  repeat match goal with
  | |- context [?a =? ?b] =>
      let v := eval vm_compute in (a =? b) in
      match v with true => change (a =? b) with true | false => change (a =? b) with false end
  | |- context [?a <? ?b] =>
      let v := eval vm_compute in (a <? b) in
      match v with true => change (a <? b) with true | false => change (a <? b) with false end
  end.

Ltac step_unfold :=
  cbv [p_step p_norm sB sU sL sLE sM st p_push p_emit p_finish p_set_mode p_set_skip p_set_uri
       p_set_lit p_set_esc p_set_depth opt_is p_parts p_cur p_uri p_lit p_esc p_depth p_mode p_skip negb andb orb];
  eval_closed; cbv iota.

Ltac kill_ifs :=
  cbv iota;
  repeat match goal with
  | |- context [if (?a =? ?b) then _ else _] => destruct (a =? b); cbv iota
  end;
  try reflexivity.

Lemma iri_char_facts : forall c, iri_char c = true ->
  is_ws c = false /\ (c =? cLT) = false /\ (c =? cGT) = false /\ (c =? cDQ) = false /\ (c =? cBS) = false.
Proof. intros c H. unfold iri_char in H. bools. repeat split; assumption. Qed.

Lemma ws_sp : is_ws cSP = true. Proof. reflexivity. Qed.
Lemma ws_tab : is_ws cTAB = true. Proof. reflexivity. Qed.

Lemma iri_char_not_sp : forall c, iri_char c = true -> (c =? cSP) = false /\ (c =? cTAB) = false.
Proof.
  intros c H. apply iri_char_facts in H. destruct H as [Hw _].
  split; apply N.eqb_neq; intro E; subst c; [rewrite ws_sp in Hw | rewrite ws_tab in Hw]; discriminate.
Qed.

(* --- IRI --- *)
Lemma step_open_uri : forall ps nx, opt_is cLT nx = false -> p_step (st ps) cLT nx = sU ps [cLT].
Proof.
  intros ps nx H. unfold opt_is in H. step_unfold.
  destruct nx as [x|]; [rewrite H|]; kill_ifs.
Qed.

Lemma step_uri_char : forall ps cur c nx, iri_char c = true -> p_step (sU ps cur) c nx = sU ps (c :: cur).
Proof.
  intros ps cur c nx H. apply iri_char_facts in H. destruct H as (_ & H1 & H2 & H3 & H4).
  step_unfold. rewrite H1, H2, H3, H4. kill_ifs.
Qed.

Lemma step_close_uri : forall ps cur nx, p_step (sU ps cur) cGT nx = st (trim (rev (cGT :: cur)) :: ps).
Proof. intros ps cur nx. step_unfold. reflexivity. Qed.

(* --- bare token (blank node label) --- *)
Lemma step_bare_char : forall ps cur c nx, iri_char c = true -> p_step (sB ps cur) c nx = sB ps (c :: cur).
Proof.
  intros ps cur c nx H. destruct (iri_char_not_sp c H) as [S1 S2].
  apply iri_char_facts in H. destruct H as (_ & H1 & H2 & H3 & H4).
  step_unfold. rewrite H1, H2, H3, H4, S1, S2. kill_ifs.
Qed.

(* --- literal --- *)
Lemma step_open_lit : forall ps nx, p_step (st ps) cDQ nx = sL ps [cDQ].
Proof. intros ps nx. step_unfold. reflexivity. Qed.

Lemma step_lit_plain : forall ps cur c nx, plain_char c = true -> p_step (sL ps cur) c nx = sL ps (c :: cur).
Proof.
  intros ps cur c nx H. unfold plain_char in H. bools.
  step_unfold. rewrite H, H0. kill_ifs.
Qed.

Lemma step_lit_bs : forall ps cur nx, p_step (sL ps cur) cBS nx = sLE ps (cBS :: cur).
Proof. intros ps cur nx. step_unfold. reflexivity. Qed.

Lemma step_lit_escaped : forall ps cur c nx, p_step (sLE ps cur) c nx = sL ps (c :: cur).
Proof.
  intros ps cur c nx. step_unfold. kill_ifs.
Qed.

Lemma step_close_lit : forall ps cur nx, p_step (sL ps cur) cDQ nx = sM MAfterQ ps (cDQ :: cur).
Proof. intros ps cur nx. step_unfold. reflexivity. Qed.

(* --- suffix of a literal --- *)
Lemma step_aq_caret : forall ps cur nx, p_step (sM MAfterQ ps cur) cCARET nx = sM MCaret ps (cCARET :: cur).
Proof. intros. step_unfold. kill_ifs. Qed.
Lemma step_caret_caret : forall ps cur nx, p_step (sM MCaret ps cur) cCARET nx = sM MDt ps (cCARET :: cur).
Proof. intros. step_unfold. kill_ifs. Qed.
Lemma step_dt_lt : forall ps cur nx, p_step (sM MDt ps cur) cLT nx = sM MDtUri ps (cLT :: cur).
Proof. intros. step_unfold. kill_ifs. Qed.
Lemma step_dturi_char : forall ps cur c nx, (c =? cGT) = false -> p_step (sM MDtUri ps cur) c nx = sM MDtUri ps (c :: cur).
Proof. intros ps cur c nx H. step_unfold. rewrite H. kill_ifs. Qed.
Lemma step_dturi_gt : forall ps cur nx, p_step (sM MDtUri ps cur) cGT nx = st (trim (rev (cGT :: cur)) :: ps).
Proof. intros. step_unfold. kill_ifs. Qed.
Lemma step_aq_at : forall ps cur nx, p_step (sM MAfterQ ps cur) cAT nx = sM MLang ps (cAT :: cur).
Proof. intros. step_unfold. kill_ifs. Qed.
Lemma step_lang_char : forall ps cur c nx, tag_char c = true -> p_step (sM MLang ps cur) c nx = sM MLang ps (c :: cur).
Proof.
  intros ps cur c nx H. unfold tag_char in H. apply orb_true_iff in H.
  step_unfold. destruct H as [H|H]; rewrite H; [|destruct (is_ascii_alnum c)]; kill_ifs.
Qed.

(* --- a separator character resolves whatever is pending --- *)
Lemma sp_tab_cases : forall c, sp_tab c = true -> c = cSP \/ c = cTAB.
Proof.
  intros c H. unfold sp_tab in H. apply orb_true_iff in H. destruct H as [H|H]; apply N.eqb_eq in H; auto.
Qed.

Lemma step_sep_clean : forall ps c nx, sp_tab c = true -> p_step (st ps) c nx = st ps.
Proof. intros ps c nx H. destruct (sp_tab_cases c H); subst c; step_unfold; kill_ifs. Qed.

Lemma step_sep_bare : forall ps cur c nx, sp_tab c = true -> cur <> [] ->
  p_step (sB ps cur) c nx = st (trim (rev cur) :: ps).
Proof.
  intros ps cur c nx H Hc. destruct cur as [|x cur]; [contradiction|].
  destruct (sp_tab_cases c H); subst c; step_unfold; kill_ifs.
Qed.

Lemma step_sep_aq : forall ps cur c nx, sp_tab c = true ->
  p_step (sM MAfterQ ps cur) c nx = st (trim (rev cur) :: ps).
Proof. intros ps cur c nx H. destruct (sp_tab_cases c H); subst c; step_unfold; kill_ifs. Qed.

Lemma step_sep_lang : forall ps cur c nx, sp_tab c = true ->
  p_step (sM MLang ps cur) c nx = st (trim (rev cur) :: ps).
Proof. intros ps cur c nx H. destruct (sp_tab_cases c H); subst c; step_unfold; kill_ifs. Qed.

(* what the tokenizer returns when the line ends in one of those states *)
Lemma end_clean : forall ps, p_end (st ps) = rev ps.
Proof. reflexivity. Qed.
Lemma end_bare : forall ps cur, cur <> [] -> p_end (sB ps cur) = rev (trim (rev cur) :: ps).
Proof. intros ps cur H. destruct cur; [contradiction|]. reflexivity. Qed.
Lemma end_aq : forall ps cur, p_end (sM MAfterQ ps cur) = rev (trim (rev cur) :: ps).
Proof. reflexivity. Qed.
Lemma end_lang : forall ps cur, p_end (sM MLang ps cur) = rev (trim (rev cur) :: ps).
Proof. reflexivity. Qed.

(* a state in which the term `part` has been read after the parts `ps`, possibly not yet pushed *)
Definition Resolves (s : pst) (ps : list str) (part : str) : Prop :=
  p_end s = rev (part :: ps) /\ forall c nx, sp_tab c = true -> p_step s c nx = st (part :: ps).

Lemma resolves_clean : forall ps part, Resolves (st (part :: ps)) ps part.
Proof. intros. split; [reflexivity | intros; apply step_sep_clean; assumption]. Qed.

Lemma resolves_sep : forall s ps part w rest,
  Resolves s ps part -> sep_ok w = true -> p_scan s (w ++ rest) = p_scan (st (part :: ps)) rest.
Proof.
  intros s ps part w rest [_ Hs] Hw. unfold sep_ok in Hw. apply andb_true_iff in Hw. destruct Hw as [Hne Hall].
  destruct w as [|c w]; [discriminate|]. cbn [forallb] in Hall. apply andb_true_iff in Hall. destruct Hall as [Hc Hw].
  cbn [app p_scan]. rewrite Hs by exact Hc.
  clear Hs Hne Hc c. induction w as [|c w IH]; [reflexivity|].
  cbn [forallb] in Hw. apply andb_true_iff in Hw. destruct Hw as [Hc Hw].
  cbn [app p_scan]. rewrite step_sep_clean by exact Hc. apply IH. exact Hw.
Qed.

(* ---------------------------------------------------------------------------------------------- *)
(* scanning the text of one term *)
Lemma rev_snoc_cons : forall (pre : str) c, c :: rev pre = rev (pre ++ [c]).
Proof. intros. rewrite rev_unit. reflexivity. Qed.

Lemma scan_uri_content : forall content ps pre la, wf_iri content = true ->
  scan_la (sU ps (rev pre)) (content ++ [cGT]) la = st (trim (pre ++ content ++ [cGT]) :: ps).
Proof.
  induction content as [|c content IH]; intros ps pre la H.
  - cbn [app scan_la]. rewrite step_close_uri. rewrite rev_snoc_cons, rev_involutive. reflexivity.
  - unfold wf_iri in H. cbn [forallb] in H. apply andb_true_iff in H. destruct H as [Hc H].
    cbn [app scan_la]. rewrite step_uri_char by exact Hc. rewrite rev_snoc_cons.
    rewrite IH by exact H. rewrite <- app_assoc. reflexivity.
Qed.

Lemma scan_bare : forall l ps pre la, forallb iri_char l = true ->
  scan_la (sB ps (rev pre)) l la = sB ps (rev (pre ++ l)).
Proof.
  induction l as [|c l IH]; intros ps pre la H.
  - rewrite app_nil_r. reflexivity.
  - cbn [forallb] in H. apply andb_true_iff in H. destruct H as [Hc H].
    cbn [scan_la]. rewrite step_bare_char by exact Hc. rewrite rev_snoc_cons.
    rewrite IH by exact H. rewrite <- app_assoc. reflexivity.
Qed.

Lemma scan_lit_plain : forall l ps pre la, forallb plain_char l = true ->
  scan_la (sL ps (rev pre)) l la = sL ps (rev (pre ++ l)).
Proof.
  induction l as [|c l IH]; intros ps pre la H.
  - rewrite app_nil_r. reflexivity.
  - cbn [forallb] in H. apply andb_true_iff in H. destruct H as [Hc H].
    cbn [scan_la]. rewrite step_lit_plain by exact Hc. rewrite rev_snoc_cons.
    rewrite IH by exact H. rewrite <- app_assoc. reflexivity.
Qed.

Lemma hex_plain : forall c, is_hex c = true -> plain_char c = true.
Proof.
  intros c H. unfold plain_char.
  destruct (c =? cDQ) eqn:E1; [apply N.eqb_eq in E1; subst c; discriminate|].
  destruct (c =? cBS) eqn:E2; [apply N.eqb_eq in E2; subst c; discriminate|].
  reflexivity.
Qed.

Lemma hexes_plain : forall d, forallb is_hex d = true -> forallb plain_char d = true.
Proof.
  induction d as [|c d IH]; intro H; [reflexivity|].
  cbn [forallb] in *. apply andb_true_iff in H. destruct H as [Hc H].
  rewrite hex_plain by exact Hc. apply IH. exact H.
Qed.

Lemma scan_lchar : forall x ps pre la, wf_lchar x = true ->
  scan_la (sL ps (rev pre)) (lchar_text x) la = sL ps (rev (pre ++ lchar_text x)).
Proof.
  intros x ps pre la H. destruct x as [c|c|d|d]; cbn [lchar_text wf_lchar] in *.
  - apply scan_lit_plain. cbn [forallb]. rewrite H. reflexivity.
  - cbn [scan_la]. rewrite step_lit_bs, step_lit_escaped. rewrite !rev_snoc_cons, <- app_assoc. reflexivity.
  - unfold wf_hex in H. apply andb_true_iff in H. destruct H as [H _]. apply andb_true_iff in H. destruct H as [_ H].
    cbn [scan_la]. rewrite step_lit_bs.
    destruct d as [|d0 d'].
    + rewrite step_lit_escaped. rewrite !rev_snoc_cons, <- app_assoc. reflexivity.
    + rewrite step_lit_escaped. rewrite !rev_snoc_cons.
      rewrite scan_lit_plain by (apply hexes_plain; exact H). rewrite <- !app_assoc. reflexivity.
  - unfold wf_hex in H. apply andb_true_iff in H. destruct H as [H _]. apply andb_true_iff in H. destruct H as [_ H].
    cbn [scan_la]. rewrite step_lit_bs.
    destruct d as [|d0 d'].
    + rewrite step_lit_escaped. rewrite !rev_snoc_cons, <- app_assoc. reflexivity.
    + rewrite step_lit_escaped. rewrite !rev_snoc_cons.
      rewrite scan_lit_plain by (apply hexes_plain; exact H). rewrite <- !app_assoc. reflexivity.
Qed.

Lemma scan_lit_body : forall b ps pre la, forallb wf_lchar b = true ->
  scan_la (sL ps (rev pre)) (lit_text b) la = sL ps (rev (pre ++ lit_text b)).
Proof.
  induction b as [|x b IH]; intros ps pre la H.
  - cbn [lit_text flat_map]. rewrite app_nil_r. reflexivity.
  - cbn [forallb] in H. apply andb_true_iff in H. destruct H as [Hx H].
    unfold lit_text in *. cbn [flat_map]. rewrite scan_la_app.
    rewrite scan_lchar by exact Hx. rewrite IH by exact H. rewrite <- app_assoc. reflexivity.
Qed.

Lemma scan_dturi : forall iri ps pre la, forallb (fun c => negb (c =? cGT)) iri = true ->
  scan_la (sM MDtUri ps (rev pre)) (iri ++ [cGT]) la = st (trim (pre ++ iri ++ [cGT]) :: ps).
Proof.
  induction iri as [|c iri IH]; intros ps pre la H.
  - cbn [app scan_la]. rewrite step_dturi_gt. rewrite rev_snoc_cons, rev_involutive. reflexivity.
  - cbn [forallb] in H. apply andb_true_iff in H. destruct H as [Hc H]. apply negb_true_iff in Hc.
    cbn [app scan_la]. rewrite step_dturi_char by exact Hc. rewrite rev_snoc_cons.
    rewrite IH by exact H. rewrite <- app_assoc. reflexivity.
Qed.

Lemma scan_lang : forall tag ps pre la, forallb tag_char tag = true ->
  scan_la (sM MLang ps (rev pre)) tag la = sM MLang ps (rev (pre ++ tag)).
Proof.
  induction tag as [|c tag IH]; intros ps pre la H.
  - rewrite app_nil_r. reflexivity.
  - cbn [forallb] in H. apply andb_true_iff in H. destruct H as [Hc H].
    cbn [scan_la]. rewrite step_lang_char by exact Hc. rewrite rev_snoc_cons.
    rewrite IH by exact H. rewrite <- app_assoc. reflexivity.
Qed.

(* ---------------------------------------------------------------------------------------------- *)
(* the text of a well-formed term neither starts nor ends with white space *)
Definition last_nws (m : str) : Prop := match rev m with [] => True | c :: _ => is_ws c = false end.

Lemma last_nws_snoc : forall m d, is_ws d = false -> last_nws (m ++ [d]).
Proof. intros m d H. unfold last_nws. rewrite rev_app_distr. exact H. Qed.

Lemma last_nws_app : forall a b, b <> [] -> last_nws b -> last_nws (a ++ b).
Proof.
  intros a b Hne H. unfold last_nws in *. rewrite rev_app_distr.
  destruct (rev b) as [|c r] eqn:E.
  - apply (f_equal (@rev N)) in E. rewrite rev_involutive in E. contradiction.
  - exact H.
Qed.

Lemma last_nws_all : forall m, forallb (fun c => negb (is_ws c)) m = true -> last_nws m.
Proof.
  intros m H. unfold last_nws. rewrite <- forallb_rev in H. destruct (rev m) as [|c r]; [exact I|].
  cbn [forallb] in H. apply andb_true_iff in H. destruct H as [H _]. apply negb_true_iff in H. exact H.
Qed.

Lemma tight_intro : forall c m, is_ws c = false -> last_nws (c :: m) -> tight (c :: m).
Proof. intros c m H1 H2. split; assumption. Qed.

Lemma iri_chars_nws : forall l, forallb iri_char l = true -> forallb (fun c => negb (is_ws c)) l = true.
Proof.
  induction l as [|c l IH]; intro H; [reflexivity|].
  cbn [forallb] in *. apply andb_true_iff in H. destruct H as [Hc H].
  apply iri_char_facts in Hc. destruct Hc as [Hc _]. rewrite Hc. cbn [negb andb]. apply IH. exact H.
Qed.

Lemma tag_char_nws : forall c, tag_char c = true -> is_ws c = false.
Proof.
  intros c H. unfold tag_char, is_ascii_alnum in H.
  rewrite !orb_true_iff, !andb_true_iff, !N.leb_le, N.eqb_eq in H.
  assert (B : 45 <= c /\ c <= 122) by (unfold cMINUS in *; lia).
  unfold is_ws.
  replace (c <=? 13) with false by (symmetry; apply N.leb_gt; lia).
  replace (8192 <=? c) with false by (symmetry; apply N.leb_gt; lia).
  repeat match goal with
  | |- context [c =? ?k] => replace (c =? k) with false by (symmetry; apply N.eqb_neq; lia)
  end.
  rewrite andb_false_r. reflexivity.
Qed.

Lemma tag_chars_nws : forall l, forallb tag_char l = true -> forallb (fun c => negb (is_ws c)) l = true.
Proof.
  induction l as [|c l IH]; intro H; [reflexivity|].
  cbn [forallb] in *. apply andb_true_iff in H. destruct H as [Hc H].
  rewrite (tag_char_nws c Hc). cbn [negb andb]. apply IH. exact H.
Qed.

Definition suffix_text (x : suffix) : str :=
  match x with
  | SNone => []
  | SLang tag => cAT :: tag
  | SDt iri => cCARET :: cCARET :: cLT :: iri ++ [cGT]
  end.

Lemma render_lit : forall b x, render_term (TLit b x) = (cDQ :: lit_text b ++ [cDQ]) ++ suffix_text x.
Proof. intros b x. cbn [render_term app]. rewrite <- app_assoc. destruct x; reflexivity. Qed.

Lemma render_quoted : forall s p o, render_term (TQuoted s p o) =
  cLT :: cLT :: cSP :: (render_term s ++ [cSP]) ++ (render_term p ++ [cSP]) ++ (render_term o ++ [cSP]) ++ [cGT; cGT].
Proof. intros. cbn [render_term app]. rewrite <- !app_assoc. reflexivity. Qed.

Lemma tight_quoted : forall s p o, tight (render_term (TQuoted s p o)).
Proof.
  intros. rewrite render_quoted. apply tight_intro; [reflexivity|].
  replace (cLT :: cLT :: cSP :: (render_term s ++ [cSP]) ++ (render_term p ++ [cSP]) ++ (render_term o ++ [cSP]) ++ [cGT; cGT])
    with ((cLT :: cLT :: cSP :: (render_term s ++ [cSP]) ++ (render_term p ++ [cSP]) ++ (render_term o ++ [cSP]) ++ [cGT]) ++ [cGT])
    by (cbn [app]; rewrite <- !app_assoc; reflexivity).
  apply last_nws_snoc. reflexivity.
Qed.

Lemma tight_term : forall t, wf_term_nt t = true -> tight (render_term t).
Proof.
  intros t H. destruct t as [s|l|p l|b x|s p o]; cbn [wf_term_nt] in H; try discriminate.
  - cbn [render_term]. apply tight_ends; reflexivity.
  - cbn [render_term]. apply tight_intro; [reflexivity|]. apply last_nws_all.
    cbn [forallb]. apply iri_chars_nws in H. rewrite H. reflexivity.
  - apply andb_true_iff in H. destruct H as [_ Hx]. rewrite render_lit. cbn [app].
    apply tight_intro; [reflexivity|].
    destruct x as [|tag|iri]; cbn [suffix_text].
    + rewrite app_nil_r. change (cDQ :: lit_text b ++ [cDQ]) with ((cDQ :: lit_text b) ++ [cDQ]).
      apply last_nws_snoc. reflexivity.
    + change (cDQ :: (lit_text b ++ [cDQ]) ++ cAT :: tag) with ((cDQ :: lit_text b ++ [cDQ]) ++ cAT :: tag).
      apply last_nws_app; [discriminate|]. apply last_nws_all. cbn [forallb wf_suffix] in *.
      rewrite (tag_chars_nws tag Hx). reflexivity.
    + replace (cDQ :: (lit_text b ++ [cDQ]) ++ cCARET :: cCARET :: cLT :: iri ++ [cGT])
        with ((cDQ :: (lit_text b ++ [cDQ]) ++ cCARET :: cCARET :: cLT :: iri) ++ [cGT]).
      * apply last_nws_snoc. reflexivity.
      * cbn [app]. rewrite <- !app_assoc. reflexivity.
  - apply tight_quoted.
Qed.

(* ---------------------------------------------------------------------------------------------- *)
(* inside a quoted triple `<< s p o >>`: the tokenizer at depth 1 *)
Definition sD (ps : list str) (cur : str) : pst := mkP ps cur false false false 1 MNorm false.
Definition sDL (ps : list str) (cur : str) : pst := mkP ps cur false true false 1 MNorm false.
Definition sDLE (ps : list str) (cur : str) : pst := mkP ps cur false true true 1 MNorm false.
Definition sDM (m : pmode) (ps : list str) (cur : str) : pst := mkP ps cur false false false 1 m false.

Ltac step_unfold1 :=
  cbv [p_step p_norm sB sU sL sLE sM st sD sDL sDLE sDM p_push p_emit p_finish p_set_mode p_set_skip p_set_uri
       p_set_lit p_set_esc p_set_depth opt_is p_parts p_cur p_uri p_lit p_esc p_depth p_mode p_skip negb andb orb];
  eval_closed; cbv iota.

Lemma d_open : forall ps, p_step (st ps) cLT (Some cLT) = mkP ps [cLT; cLT] false false false 1 MNorm true.
Proof. intros. step_unfold1. reflexivity. Qed.
Lemma d_skip : forall ps cur c nx, p_step (mkP ps cur false false false 1 MNorm true) c nx = sD ps cur.
Proof. intros. step_unfold1. reflexivity. Qed.
Lemma d_skip0 : forall ps c nx, p_step (mkP ps [] false false false 0 MNorm true) c nx = st ps.
Proof. intros. step_unfold1. reflexivity. Qed.
Lemma d_push : forall ps cur c nx, (c =? cLT) = false -> (c =? cGT) = false -> (c =? cDQ) = false ->
  p_step (sD ps cur) c nx = sD ps (c :: cur).
Proof. intros ps cur c nx H1 H2 H3. step_unfold1. rewrite H1, H2, H3. kill_ifs. Qed.
Lemma d_lt : forall ps cur nx, opt_is cLT nx = false -> p_step (sD ps cur) cLT nx = sD ps (cLT :: cur).
Proof. intros ps cur nx H. unfold opt_is in H. step_unfold1. destruct nx as [x|]; [rewrite H|]; kill_ifs. Qed.
Lemma d_gt : forall ps cur nx, opt_is cGT nx = false -> p_step (sD ps cur) cGT nx = sD ps (cGT :: cur).
Proof. intros ps cur nx H. unfold opt_is in H. step_unfold1. destruct nx as [x|]; [rewrite H|]; kill_ifs. Qed.
Lemma d_close : forall ps cur, p_step (sD ps cur) cGT (Some cGT) =
  mkP (trim (rev (cGT :: cGT :: cur)) :: ps) [] false false false 0 MNorm true.
Proof. intros. step_unfold1. reflexivity. Qed.
Lemma d_open_lit : forall ps cur nx, p_step (sD ps cur) cDQ nx = sDL ps (cDQ :: cur).
Proof. intros. step_unfold1. reflexivity. Qed.
Lemma d_close_lit : forall ps cur nx, p_step (sDL ps cur) cDQ nx = sDM MAfterQ ps (cDQ :: cur).
Proof. intros. step_unfold1. reflexivity. Qed.
Lemma d_aq_caret : forall ps cur nx, p_step (sDM MAfterQ ps cur) cCARET nx = sDM MCaret ps (cCARET :: cur).
Proof. intros. step_unfold1. kill_ifs. Qed.
Lemma d_caret_caret : forall ps cur nx, p_step (sDM MCaret ps cur) cCARET nx = sDM MDt ps (cCARET :: cur).
Proof. intros. step_unfold1. kill_ifs. Qed.
Lemma d_dt_lt : forall ps cur nx, p_step (sDM MDt ps cur) cLT nx = sDM MDtUri ps (cLT :: cur).
Proof. intros. step_unfold1. kill_ifs. Qed.
Lemma d_dturi_char : forall ps cur c nx, (c =? cGT) = false -> p_step (sDM MDtUri ps cur) c nx = sDM MDtUri ps (c :: cur).
Proof. intros ps cur c nx H. step_unfold1. rewrite H. kill_ifs. Qed.
Lemma d_dturi_gt : forall ps cur nx, p_step (sDM MDtUri ps cur) cGT nx = sD ps (cGT :: cur).
Proof. intros. step_unfold1. kill_ifs. Qed.
Lemma d_aq_sp : forall ps cur nx, p_step (sDM MAfterQ ps cur) cSP nx = sD ps (cSP :: cur).
Proof. intros. step_unfold1. kill_ifs. Qed.

Lemma step_lit_plain1 : forall ps cur c nx, plain_char c = true -> p_step (sDL ps cur) c nx = sDL ps (c :: cur).
Proof.
  intros ps cur c nx H. unfold plain_char in H. bools.
  step_unfold1. rewrite H, H0. kill_ifs.
Qed.

Lemma step_lit_bs1 : forall ps cur nx, p_step (sDL ps cur) cBS nx = sDLE ps (cBS :: cur).
Proof. intros ps cur nx. step_unfold1. reflexivity. Qed.

Lemma step_lit_escaped1 : forall ps cur c nx, p_step (sDLE ps cur) c nx = sDL ps (c :: cur).
Proof.
  intros ps cur c nx. step_unfold1. kill_ifs.
Qed.

Lemma scan_lit_plain1 : forall l ps pre la, forallb plain_char l = true ->
  scan_la (sDL ps (rev pre)) l la = sDL ps (rev (pre ++ l)).
Proof.
  induction l as [|c l IH]; intros ps pre la H.
  - rewrite app_nil_r. reflexivity.
  - cbn [forallb] in H. apply andb_true_iff in H. destruct H as [Hc H].
    cbn [scan_la]. rewrite step_lit_plain1 by exact Hc. rewrite rev_snoc_cons.
    rewrite IH by exact H. rewrite <- app_assoc. reflexivity.
Qed.

Lemma scan_lchar1 : forall x ps pre la, wf_lchar x = true ->
  scan_la (sDL ps (rev pre)) (lchar_text x) la = sDL ps (rev (pre ++ lchar_text x)).
Proof.
  intros x ps pre la H. destruct x as [c|c|d|d]; cbn [lchar_text wf_lchar] in *.
  - apply scan_lit_plain1. cbn [forallb]. rewrite H. reflexivity.
  - cbn [scan_la]. rewrite step_lit_bs1, step_lit_escaped1. rewrite !rev_snoc_cons, <- app_assoc. reflexivity.
  - unfold wf_hex in H. apply andb_true_iff in H. destruct H as [H _]. apply andb_true_iff in H. destruct H as [_ H].
    cbn [scan_la]. rewrite step_lit_bs1.
    destruct d as [|d0 d'].
    + rewrite step_lit_escaped1. rewrite !rev_snoc_cons, <- app_assoc. reflexivity.
    + rewrite step_lit_escaped1. rewrite !rev_snoc_cons.
      rewrite scan_lit_plain1 by (apply hexes_plain; exact H). rewrite <- !app_assoc. reflexivity.
  - unfold wf_hex in H. apply andb_true_iff in H. destruct H as [H _]. apply andb_true_iff in H. destruct H as [_ H].
    cbn [scan_la]. rewrite step_lit_bs1.
    destruct d as [|d0 d'].
    + rewrite step_lit_escaped1. rewrite !rev_snoc_cons, <- app_assoc. reflexivity.
    + rewrite step_lit_escaped1. rewrite !rev_snoc_cons.
      rewrite scan_lit_plain1 by (apply hexes_plain; exact H). rewrite <- !app_assoc. reflexivity.
Qed.

Lemma scan_lit_body1 : forall b ps pre la, forallb wf_lchar b = true ->
  scan_la (sDL ps (rev pre)) (lit_text b) la = sDL ps (rev (pre ++ lit_text b)).
Proof.
  induction b as [|x b IH]; intros ps pre la H.
  - cbn [lit_text flat_map]. rewrite app_nil_r. reflexivity.
  - cbn [forallb] in H. apply andb_true_iff in H. destruct H as [Hx H].
    unfold lit_text in *. cbn [flat_map]. rewrite scan_la_app.
    rewrite scan_lchar1 by exact Hx. rewrite IH by exact H. rewrite <- app_assoc. reflexivity.
Qed.


Lemma scan_d_push : forall l ps pre la, forallb iri_char l = true ->
  scan_la (sD ps (rev pre)) l la = sD ps (rev (pre ++ l)).
Proof.
  induction l as [|c l IH]; intros ps pre la H.
  - rewrite app_nil_r. reflexivity.
  - cbn [forallb] in H. apply andb_true_iff in H. destruct H as [Hc H].
    apply iri_char_facts in Hc. destruct Hc as (_ & H1 & H2 & H3 & _).
    cbn [scan_la]. rewrite d_push by assumption. rewrite rev_snoc_cons.
    rewrite IH by exact H. rewrite <- app_assoc. reflexivity.
Qed.

Lemma scan_d_dturi : forall iri ps pre la, wf_iri iri = true ->
  scan_la (sDM MDtUri ps (rev pre)) (iri ++ [cGT]) la = sD ps (rev (pre ++ iri ++ [cGT])).
Proof.
  induction iri as [|c iri IH]; intros ps pre la H.
  - cbn [app scan_la]. rewrite d_dturi_gt. rewrite rev_snoc_cons. reflexivity.
  - unfold wf_iri in H. cbn [forallb] in H. apply andb_true_iff in H. destruct H as [Hc H].
    apply iri_char_facts in Hc. destruct Hc as (_ & _ & H2 & _).
    cbn [app scan_la]. rewrite d_dturi_char by exact H2. rewrite rev_snoc_cons.
    rewrite IH by exact H. rewrite <- app_assoc. reflexivity.
Qed.

(* a component followed by the blank that always follows it inside `<< s p o >>` *)
Lemma scan_component : forall t ps pre la, comp_ok t = true ->
  scan_la (sD ps (rev pre)) (render_term t ++ [cSP]) la = sD ps (rev (pre ++ render_term t ++ [cSP])).
Proof.
  intros t ps pre la H. destruct t as [s|l|p l|b x|s p o]; cbn [comp_ok] in H; try discriminate.
  - (* IRI *)
    cbn [render_term]. cbn [app scan_la].
    assert (E : opt_is cLT (match (s ++ [cGT]) ++ [cSP] with [] => la | c2 :: _ => Some c2 end) = false).
    { destruct s as [|c s']; [reflexivity|]. cbn [app]. unfold wf_iri in H. cbn [forallb] in H.
      apply andb_true_iff in H. destruct H as [Hc _]. apply iri_char_facts in Hc. destruct Hc as (_ & Hc & _).
      unfold opt_is. exact Hc. }
    rewrite d_lt by exact E. rewrite rev_snoc_cons. rewrite <- app_assoc.
    rewrite scan_la_app. rewrite scan_d_push by exact H.
    cbn [app scan_la]. rewrite d_gt by reflexivity. rewrite d_push by reflexivity.
    rewrite !rev_snoc_cons. rewrite <- !app_assoc. reflexivity.
  - (* blank node *)
    cbn [render_term]. change ((95 :: cCOLON :: l) ++ [cSP]) with ((95 :: cCOLON :: l) ++ [cSP]).
    rewrite scan_la_app. rewrite scan_d_push by (cbn [forallb]; unfold wf_iri in H; rewrite H; reflexivity).
    cbn [scan_la]. rewrite d_push by reflexivity. rewrite rev_snoc_cons, <- app_assoc. reflexivity.
  - (* literal *)
    destruct x as [|tag|iri]; try discriminate.
    + cbn [render_term]. rewrite app_nil_r || idtac.
      change ((cDQ :: lit_text b ++ [cDQ]) ++ [cSP]) with (cDQ :: (lit_text b ++ [cDQ]) ++ [cSP]).
      cbn [scan_la]. rewrite d_open_lit. rewrite rev_snoc_cons. rewrite <- app_assoc.
      rewrite scan_la_app. rewrite scan_lit_body1 by exact H.
      cbn [app scan_la]. rewrite d_close_lit, d_aq_sp. rewrite !rev_snoc_cons. rewrite <- !app_assoc. reflexivity.
    + apply andb_true_iff in H. destruct H as [Hb Hi]. cbn [render_term].
      replace ((cDQ :: lit_text b ++ cDQ :: cCARET :: cCARET :: cLT :: iri ++ [cGT]) ++ [cSP])
        with (cDQ :: lit_text b ++ (cDQ :: cCARET :: cCARET :: cLT :: (iri ++ [cGT]) ++ [cSP]))
        by (cbn [app]; rewrite <- !app_assoc; cbn [app]; rewrite <- ?app_assoc; reflexivity).
      cbn [scan_la]. rewrite d_open_lit. rewrite rev_snoc_cons.
      rewrite scan_la_app. rewrite scan_lit_body1 by exact Hb.
      cbn [scan_la]. rewrite d_close_lit, d_aq_caret, d_caret_caret, d_dt_lt. rewrite !rev_snoc_cons.
      rewrite scan_la_app. rewrite scan_d_dturi by exact Hi. cbn [scan_la]. rewrite d_push by reflexivity.
      rewrite rev_snoc_cons. repeat (rewrite <- app_assoc). cbn [app]. repeat (rewrite <- app_assoc). reflexivity.
Qed.

Lemma scan_quoted : forall s p o ps la, comp_ok s = true -> comp_ok p = true -> comp_ok o = true ->
  scan_la (st ps) (render_term (TQuoted s p o)) la = st (render_term (TQuoted s p o) :: ps).
Proof.
  intros s p o ps la Hs Hp Ho. pose proof (trim_tight _ (tight_quoted s p o)) as T. rewrite render_quoted in *.
  cbn [scan_la]. rewrite d_open, d_skip.
  rewrite (d_push ps [cLT; cLT] cSP) by reflexivity.
  change (sD ps [cSP; cLT; cLT]) with (sD ps (rev [cLT; cLT; cSP])).
  rewrite scan_la_app, scan_component by exact Hs.
  rewrite scan_la_app, scan_component by exact Hp.
  rewrite scan_la_app, scan_component by exact Ho.
  cbn [scan_la]. rewrite d_close, d_skip0.
  assert (E : rev (cGT :: cGT :: rev ((([cLT; cLT; cSP] ++ render_term s ++ [cSP]) ++ render_term p ++ [cSP]) ++ render_term o ++ [cSP]))
              = cLT :: cLT :: cSP :: (render_term s ++ [cSP]) ++ (render_term p ++ [cSP]) ++ (render_term o ++ [cSP]) ++ [cGT; cGT]).
  { cbn [rev]. rewrite rev_involutive. repeat (rewrite <- app_assoc). cbn [app]. repeat (rewrite <- app_assoc). reflexivity. }
  rewrite E, T. reflexivity.
Qed.

(* ---------------------------------------------------------------------------------------------- *)
(* after the text of a well-formed term the tokenizer has read exactly that term *)
Lemma rev_nonempty : forall (l : str) c, rev (l ++ [c]) <> [].
Proof. intros l c. rewrite rev_unit. discriminate. Qed.

Lemma term_resolves : forall t, wf_term_nt t = true ->
  forall ps la, Resolves (scan_la (st ps) (render_term t) la) ps (render_term t).
Proof.
  intros t H ps la. pose proof (tight_term t H) as Ht. apply trim_tight in Ht.
  destruct t as [s|l|p l|b x|s p o]; cbn [wf_term_nt] in H; try discriminate.
  - (* IRI *)
    cbn [render_term] in *. cbn [scan_la].
    assert (E : opt_is cLT (match s ++ [cGT] with [] => la | c2 :: _ => Some c2 end) = false).
    { destruct s as [|c s']; [reflexivity|]. cbn [app]. unfold wf_iri in H. cbn [forallb] in H.
      apply andb_true_iff in H. destruct H as [Hc _]. apply iri_char_facts in Hc. destruct Hc as (_ & Hc & _).
      unfold opt_is. exact Hc. }
    rewrite step_open_uri by exact E.
    change (sU ps [cLT]) with (sU ps (rev [cLT])). rewrite scan_uri_content by exact H.
    cbn [app]. rewrite Ht. apply resolves_clean.
  - (* blank node *)
    cbn [render_term] in *.
    change (st ps) with (sB ps (rev [])).
    rewrite scan_bare by (cbn [forallb]; unfold wf_iri in H; rewrite H; reflexivity).
    cbn [app]. split.
    + rewrite end_bare; [rewrite rev_involutive, Ht; reflexivity|].
      change (95 :: cCOLON :: l) with ([95] ++ cCOLON :: l). rewrite rev_app_distr. cbn [rev app].
      intro E. apply app_eq_nil in E. destruct E as [_ E]. discriminate.
    + intros c nx Hc. rewrite step_sep_bare; [rewrite rev_involutive, Ht; reflexivity | exact Hc |].
      change (95 :: cCOLON :: l) with ([95] ++ cCOLON :: l). rewrite rev_app_distr. cbn [rev app].
      intro E. apply app_eq_nil in E. destruct E as [_ E]. discriminate.
  - (* literal *)
    apply andb_true_iff in H. destruct H as [Hb Hx].
    rewrite render_lit in *. rewrite scan_la_app.
    set (la1 := match suffix_text x with [] => la | c :: _ => Some c end).
    assert (E1 : scan_la (st ps) (cDQ :: lit_text b ++ [cDQ]) la1 = sM MAfterQ ps (rev (cDQ :: lit_text b ++ [cDQ]))).
    { cbn [scan_la]. replace (match lit_text b ++ [cDQ] with [] => la1 | c2 :: _ => Some c2 end)
        with (match lit_text b ++ [cDQ] with [] => la1 | c2 :: _ => Some c2 end) by reflexivity.
      rewrite step_open_lit. change (sL ps [cDQ]) with (sL ps (rev [cDQ])).
      rewrite scan_la_app. rewrite scan_lit_body by exact Hb. cbn [scan_la].
      rewrite step_close_lit. rewrite rev_snoc_cons. rewrite <- app_assoc. reflexivity. }
    rewrite E1. clear E1.
    destruct x as [|tag|iri]; cbn [suffix_text wf_suffix] in *.
    + rewrite app_nil_r in *. cbn [scan_la]. split.
      * rewrite end_aq, rev_involutive, Ht. reflexivity.
      * intros c nx Hc. rewrite step_sep_aq by exact Hc. rewrite rev_involutive, Ht. reflexivity.
    + cbn [scan_la]. rewrite step_aq_at. rewrite rev_snoc_cons.
      rewrite scan_lang by exact Hx. rewrite <- app_assoc. cbn [app] in *. split.
      * rewrite end_lang, rev_involutive, Ht. reflexivity.
      * intros c nx Hc. rewrite step_sep_lang by exact Hc. rewrite rev_involutive, Ht. reflexivity.
    + cbn [scan_la]. rewrite step_aq_caret. rewrite step_caret_caret. rewrite step_dt_lt.
      rewrite !rev_snoc_cons. rewrite scan_dturi by exact Hx.
      rewrite <- !app_assoc. cbn [app] in *. rewrite Ht. apply resolves_clean.
  - (* quoted triple *)
    apply andb_true_iff in H. destruct H as [H Ho]. apply andb_true_iff in H. destruct H as [Hs Hp].
    rewrite scan_quoted by assumption. apply resolves_clean.
Qed.

(* ---------------------------------------------------------------------------------------------- *)
(* the tokenizer on a whole statement *)
Lemma scan_term_then : forall t ps rest, wf_term_nt t = true ->
  exists s, p_scan (st ps) (render_term t ++ rest) = p_scan s rest /\ Resolves s ps (render_term t).
Proof.
  intros t ps rest H. exists (scan_la (st ps) (render_term t) (hd_error rest)).
  split; [apply p_scan_app | apply term_resolves; exact H].
Qed.

Lemma parts_terms : forall ts ps t,
  wf_term_nt t = true -> Forall (fun wt => sep_ok (fst wt) = true /\ wf_term_nt (snd wt) = true) ts ->
  p_end (p_scan (st ps) (render_term t ++ flat_map (fun wt => fst wt ++ render_term (snd wt)) ts))
  = rev ps ++ render_term t :: map (fun wt => render_term (snd wt)) ts.
Proof.
  induction ts as [|[w t2] ts IH]; intros ps t Ht Hts.
  - cbn [flat_map map]. destruct (scan_term_then t ps [] Ht) as (s & E & [He _]).
    rewrite E. cbn [p_scan]. rewrite He. reflexivity.
  - inversion Hts as [|x y [Hw Ht2] Hrest]; subst. cbn [fst snd] in *.
    cbn [flat_map map fst snd].
    destruct (scan_term_then t ps ((w ++ render_term t2) ++ flat_map (fun wt => fst wt ++ render_term (snd wt)) ts) Ht) as (s & E & R).
    rewrite E. rewrite <- app_assoc. rewrite (resolves_sep s ps (render_term t) w _ R Hw).
    rewrite IH by assumption. cbn [rev]. rewrite <- app_assoc. reflexivity.
Qed.

Lemma parse_parts_3 : forall s p o w1 w2,
  wf_term_nt s = true -> wf_term_nt p = true -> wf_term_nt o = true -> sep_ok w1 = true -> sep_ok w2 = true ->
  parse_parts (render_term s ++ w1 ++ render_term p ++ w2 ++ render_term o)
  = [render_term s; render_term p; render_term o].
Proof.
  intros s p o w1 w2 Hs Hp Ho H1 H2. unfold parse_parts. change p_init with (st []).
  generalize (parts_terms [(w1, p); (w2, o)] [] s Hs). cbn [flat_map map fst snd rev app].
  rewrite app_nil_r, <- !app_assoc. intro G. apply G.
  repeat constructor; assumption.
Qed.

Lemma parse_parts_4 : forall s p o g w1 w2 w3,
  wf_term_nt s = true -> wf_term_nt p = true -> wf_term_nt o = true -> wf_term_nt g = true ->
  sep_ok w1 = true -> sep_ok w2 = true -> sep_ok w3 = true ->
  parse_parts (render_term s ++ w1 ++ render_term p ++ w2 ++ render_term o ++ w3 ++ render_term g)
  = [render_term s; render_term p; render_term o; render_term g].
Proof.
  intros s p o g w1 w2 w3 Hs Hp Ho Hg H1 H2 H3. unfold parse_parts. change p_init with (st []).
  generalize (parts_terms [(w1, p); (w2, o); (w3, g)] [] s Hs). cbn [flat_map map fst snd rev app].
  rewrite app_nil_r, <- !app_assoc. intro G. apply G.
  repeat constructor; assumption.
Qed.

(* ---------------------------------------------------------------------------------------------- *)
(* decode_ntriples_literal on the text of a literal *)
Lemma esc_char_cases : forall c, esc_char c = true ->
  c = 116 \/ c = 98 \/ c = 110 \/ c = 114 \/ c = 102 \/ c = cDQ \/ c = cSQ \/ c = cBS.
Proof.
  intros c H. unfold esc_char in H. rewrite !orb_true_iff, !N.eqb_eq in H. tauto.
Qed.

Lemma dec_hex4 : forall d val r, wf_hex 4 d = true ->
  dec_body (DHex 4 0) val (d ++ r) = dec_body DNorm (hex_value d :: val) r.
Proof.
  intros d val r H. unfold wf_hex in H. apply andb_true_iff in H. destruct H as [H Hv].
  apply andb_true_iff in H. destruct H as [Hl Hh]. apply Nat.eqb_eq in Hl.
  destruct d as [|a [|b [|c [|e [|f d]]]]]; try discriminate. clear Hl.
  cbn [forallb] in Hh. repeat (apply andb_true_iff in Hh; destruct Hh as [? Hh]).
  unfold hex_value in *. cbn [fold_left] in *.
  cbn [app dec_body]. rewrite H. cbn [dec_body]. rewrite H0. cbn [dec_body]. rewrite H1. cbn [dec_body]. rewrite H2.
  rewrite Hv. reflexivity.
Qed.

Lemma dec_hex8 : forall d val r, wf_hex 8 d = true ->
  dec_body (DHex 8 0) val (d ++ r) = dec_body DNorm (hex_value d :: val) r.
Proof.
  intros d val r H. unfold wf_hex in H. apply andb_true_iff in H. destruct H as [H Hv].
  apply andb_true_iff in H. destruct H as [Hl Hh]. apply Nat.eqb_eq in Hl.
  destruct d as [|a1 [|a2 [|a3 [|a4 [|a5 [|a6 [|a7 [|a8 [|a9 d]]]]]]]]]; try discriminate. clear Hl.
  cbn [forallb] in Hh. repeat (apply andb_true_iff in Hh; destruct Hh as [? Hh]).
  unfold hex_value in *. cbn [fold_left] in *.
  cbn [app dec_body]. rewrite H. cbn [dec_body]. rewrite H0. cbn [dec_body]. rewrite H1. cbn [dec_body]. rewrite H2.
  cbn [dec_body]. rewrite H3. cbn [dec_body]. rewrite H4. cbn [dec_body]. rewrite H5. cbn [dec_body]. rewrite H6.
  rewrite Hv. reflexivity.
Qed.

Lemma dec_text : forall b, forallb wf_lchar b = true -> forall val rest,
  dec_body DNorm val (lit_text b ++ cDQ :: rest) = Some (rev val ++ lit_value b, rest).
Proof.
  induction b as [|x b IH]; intros H val rest.
  - cbn [lit_text flat_map app dec_body lit_value map]. change (cDQ =? cDQ) with true. cbv iota.
    rewrite app_nil_r. reflexivity.
  - cbn [forallb] in H. apply andb_true_iff in H. destruct H as [Hx H].
    unfold lit_text, lit_value in *. cbn [flat_map map]. rewrite <- app_assoc.
    destruct x as [c|c|d|d]; cbn [lchar_text lchar_value wf_lchar] in *.
    + unfold plain_char in Hx. apply andb_true_iff in Hx. destruct Hx as [H1 H2].
      apply negb_true_iff in H1. apply negb_true_iff in H2.
      cbn [app dec_body]. rewrite H1, H2. rewrite IH by exact H. cbn [rev]. rewrite <- app_assoc. reflexivity.
    + cbn [app dec_body]. change (cBS =? cDQ) with false. change (cBS =? cBS) with true. cbv iota.
      destruct (esc_char_cases c Hx) as [E|[E|[E|[E|[E|[E|[E|E]]]]]]]; subst c;
        cbn [dec_body]; vm_compute (_ =? _); cbv iota; rewrite IH by exact H; cbn [rev]; rewrite <- app_assoc; reflexivity.
    + cbn [app dec_body]. change (cBS =? cDQ) with false. change (cBS =? cBS) with true. cbv iota.
      cbn [dec_body]. vm_compute (117 =? _). cbv iota.
      rewrite dec_hex4 by exact Hx. rewrite IH by exact H. cbn [rev]. rewrite <- app_assoc. reflexivity.
    + cbn [app dec_body]. change (cBS =? cDQ) with false. change (cBS =? cBS) with true. cbv iota.
      cbn [dec_body]. vm_compute (85 =? _). cbv iota.
      rewrite dec_hex8 by exact Hx. rewrite IH by exact H. cbn [rev]. rewrite <- app_assoc. reflexivity.
Qed.

Lemma decode_rendered_lit : forall b x, forallb wf_lchar b = true ->
  decode_literal (render_term (TLit b x)) = Some (lit_value b, suffix_text x).
Proof.
  intros b x H. rewrite render_lit. cbn [app decode_literal]. change (cDQ =? cDQ) with true. cbv iota.
  rewrite <- app_assoc. cbn [app]. rewrite dec_text by exact H. reflexivity.
Qed.

(* ---------------------------------------------------------------------------------------------- *)
(* clean_ntriples_term on the text of a term gives the term's lexical form *)
Lemma render_first : forall t, wf_term_nt t = true ->
  exists c r, render_term t = c :: r /\ (c = cLT \/ c = 95 \/ c = cDQ).
Proof.
  intros t H. destruct t as [s|l|p l|b x|s p o]; cbn [wf_term_nt] in H; try discriminate; cbn [render_term app]; eauto 6.
Qed.

Lemma starts_ltlt_iri : forall s, wf_iri s = true -> starts_with sLTLT (cLT :: s ++ [cGT]) = false.
Proof.
  intros s H. unfold sLTLT. cbn [starts_with]. change (cLT =? cLT) with true. cbn [andb].
  destruct s as [|c s]; cbn [app starts_with]; [reflexivity|].
  unfold wf_iri in H. cbn [forallb] in H. apply andb_true_iff in H. destruct H as [Hc _].
  apply iri_char_facts in Hc. destruct Hc as (_ & Hc & _). rewrite N.eqb_sym, Hc. reflexivity.
Qed.

(* what parse_ntriples_line hands on for a term: its lexical form, or - for a quoted triple - its text, which
   encode_term_star takes apart later *)
Definition cleaned (t : term) : str := match t with TQuoted _ _ _ => render_term t | _ => lex [] t end.

Lemma ends_gtgt_snoc : forall m, ends_with sGTGT (m ++ [cGT; cGT]) = true.
Proof. intro m. unfold ends_with. rewrite rev_app_distr. reflexivity. Qed.

Lemma quoted_brackets : forall s p o,
  starts_with sLTLT (render_term (TQuoted s p o)) = true /\ ends_with sGTGT (render_term (TQuoted s p o)) = true.
Proof.
  intros. rewrite render_quoted. split; [reflexivity|].
  replace (cLT :: cLT :: cSP :: (render_term s ++ [cSP]) ++ (render_term p ++ [cSP]) ++ (render_term o ++ [cSP]) ++ [cGT; cGT])
    with ((cLT :: cLT :: cSP :: (render_term s ++ [cSP]) ++ (render_term p ++ [cSP]) ++ (render_term o ++ [cSP])) ++ [cGT; cGT])
    by (cbn [app]; repeat (rewrite <- app_assoc); reflexivity).
  apply ends_gtgt_snoc.
Qed.

Lemma clean_rendered : forall t, wf_term_nt t = true -> clean_nt_term (render_term t) = cleaned t.
Proof.
  intros t H. pose proof (trim_tight _ (tight_term t H)) as Ht. unfold clean_nt_term. rewrite Ht.
  destruct t as [s|l|p l|b x|s p o]; cbn [wf_term_nt] in H; try discriminate.
  - cbn [render_term lex cleaned]. rewrite starts_ltlt_iri by exact H. cbn [andb].
    rewrite starts_with_c_cons. change (cLT =? cLT) with true.
    change (cLT :: s ++ [cGT]) with ((cLT :: s) ++ [cGT]). rewrite ends_with_c_snoc.
    change (cGT =? cGT) with true. cbn [andb]. change ((cLT :: s) ++ [cGT]) with (cLT :: s ++ [cGT]).
    apply strip1_wrap.
  - cbn [render_term lex cleaned]. reflexivity.
  - apply andb_true_iff in H. destruct H as [Hb Hx].
    rewrite decode_rendered_lit by exact Hb. rewrite render_lit. cbn [app].
    unfold sLTLT. cbn [starts_with]. change (cLT =? cDQ) with false. cbn [andb].
    rewrite !starts_with_c_cons. change (cDQ =? cLT) with false. change (cDQ =? cDQ) with true. cbn [andb].
    destruct x as [|tag|iri]; cbn [suffix_text lex cleaned is_empty]; reflexivity.
  - destruct (quoted_brackets s p o) as [A B]. rewrite A, B. reflexivity.
Qed.

Lemma rendered_not_a : forall t, wf_term_nt t = true -> str_eqb (render_term t) [97] = false.
Proof.
  intros t H. destruct (render_first t H) as (c & r & E & Hc). rewrite E. cbn [str_eqb].
  destruct Hc as [Hc|[Hc|Hc]]; subst c; reflexivity.
Qed.

Lemma parse_nt_line_stmt : forall s p o w1 w2,
  wf_term_nt s = true -> wf_term_nt p = true -> wf_term_nt o = true -> sep_ok w1 = true -> sep_ok w2 = true ->
  parse_nt_line (render_term s ++ w1 ++ render_term p ++ w2 ++ render_term o) = Some (cleaned s, cleaned p, cleaned o).
Proof.
  intros s p o w1 w2 Hs Hp Ho H1 H2. unfold parse_nt_line. rewrite parse_parts_3 by assumption.
  rewrite rendered_not_a by exact Hp. rewrite !clean_rendered by assumption. reflexivity.
Qed.

Lemma parse_nq_line_3 : forall s p o w1 w2,
  wf_term_nt s = true -> wf_term_nt p = true -> wf_term_nt o = true -> sep_ok w1 = true -> sep_ok w2 = true ->
  parse_nq_line (render_term s ++ w1 ++ render_term p ++ w2 ++ render_term o) = Some (cleaned s, cleaned p, cleaned o, None).
Proof.
  intros s p o w1 w2 Hs Hp Ho H1 H2. unfold parse_nq_line. rewrite parse_parts_3 by assumption.
  rewrite !clean_rendered by assumption. reflexivity.
Qed.

Lemma parse_nq_line_4 : forall s p o g w1 w2 w3,
  wf_term_nt s = true -> wf_term_nt p = true -> wf_term_nt o = true -> wf_term_nt g = true ->
  sep_ok w1 = true -> sep_ok w2 = true -> sep_ok w3 = true ->
  parse_nq_line (render_term s ++ w1 ++ render_term p ++ w2 ++ render_term o ++ w3 ++ render_term g)
  = Some (cleaned s, cleaned p, cleaned o, Some (cleaned g)).
Proof.
  intros s p o g w1 w2 w3 Hs Hp Ho Hg H1 H2 H3. unfold parse_nq_line. rewrite parse_parts_4 by assumption.
  rewrite !clean_rendered by assumption. reflexivity.
Qed.

(* ---------------------------------------------------------------------------------------------- *)
(* the per-line wrapper: trim, skip blank lines and comments, require and drop the final dot *)
Lemma drop_while_snoc : forall f a c, f c = false -> drop_while f (a ++ [c]) = drop_while f a ++ [c].
Proof.
  intros f a c H. induction a as [|x a IH]; cbn [app drop_while]; [rewrite H; reflexivity|].
  destruct (f x); [exact IH | reflexivity].
Qed.

Lemma trim_end_cons : forall c m, is_ws c = false -> trim_end (c :: m) = c :: rev (drop_while is_ws (rev m)).
Proof.
  intros c m H. unfold trim_end. cbn [rev]. rewrite drop_while_snoc by exact H. rewrite rev_unit. reflexivity.
Qed.

Lemma statement_blank : forall ws, ws_ok ws = true -> statement_of_line ws = None.
Proof. intros ws H. unfold statement_of_line. rewrite trim_all_ws by exact H. reflexivity. Qed.

Lemma statement_comment : forall ws text, ws_ok ws = true -> statement_of_line (ws ++ cHASH :: text) = None.
Proof.
  intros ws text H. unfold statement_of_line, trim, trim_start.
  rewrite drop_while_all by exact H. rewrite drop_while_stop by reflexivity.
  rewrite trim_end_cons by reflexivity. cbn [is_empty starts_with_c]. change (cHASH =? cHASH) with true. reflexivity.
Qed.

(* the text of three or four terms with separators: tight, not empty, not a comment *)
Lemma tight_concat : forall a m b, tight a -> a <> [] -> tight b -> b <> [] -> tight (a ++ m ++ b).
Proof.
  intros a m b [Ha _] Hna [_ Hb] Hnb. destruct a as [|c a']; [contradiction|].
  cbn [app]. apply tight_intro; [exact Ha|].
  replace (c :: a' ++ m ++ b) with ((c :: a' ++ m) ++ b) by (cbn [app]; rewrite <- app_assoc; reflexivity).
  apply last_nws_app; assumption.
Qed.

Lemma render_nonempty : forall t, wf_term_nt t = true -> render_term t <> [].
Proof. intros t H. destruct (render_first t H) as (c & r & E & _). rewrite E. discriminate. Qed.

Lemma statement_core : forall X w0 w3 w4,
  tight X -> (exists c r, X = c :: r /\ (c =? cHASH) = false) ->
  ws_ok w0 = true -> ws_ok w3 = true -> ws_ok w4 = true ->
  statement_of_line (w0 ++ X ++ w3 ++ cDOT :: w4) = Some X.
Proof.
  intros X w0 w3 w4 HX (c & r & EX & Hc) H0 H3 H4. unfold statement_of_line.
  assert (T : tight ((X ++ w3) ++ [cDOT])).
  { subst X. cbn [app]. apply tight_intro; [apply HX|]. change (c :: (r ++ w3) ++ [cDOT]) with ((c :: r ++ w3) ++ [cDOT]).
    apply last_nws_snoc. reflexivity. }
  replace (w0 ++ X ++ w3 ++ cDOT :: w4) with (w0 ++ ((X ++ w3) ++ [cDOT]) ++ w4)
    by (rewrite <- !app_assoc; reflexivity).
  rewrite trim_pad by assumption.
  assert (E1 : is_empty ((X ++ w3) ++ [cDOT]) = false) by (subst X; reflexivity).
  assert (E2 : starts_with_c cHASH ((X ++ w3) ++ [cDOT]) = false) by (subst X; cbn [app starts_with_c]; exact Hc).
  rewrite E1, E2. cbn [orb]. rewrite ends_with_c_snoc. change (cDOT =? cDOT) with true. cbn [negb].
  rewrite removelast_snoc.
  generalize (trim_pad [] X w3 eq_refl H3 HX). cbn [app]. intro E. rewrite E. reflexivity.
Qed.

Lemma first_not_hash : forall t rest, wf_term_nt t = true ->
  exists c r, render_term t ++ rest = c :: r /\ (c =? cHASH) = false.
Proof.
  intros t rest H. destruct (render_first t H) as (c & r & E & Hc). rewrite E. exists c, (r ++ rest).
  split; [reflexivity|]. destruct Hc as [Hc|[Hc|Hc]]; subst c; reflexivity.
Qed.

Definition drop_graph (q : squad) : str * str * str := let '(s, p, o, _) := q in (s, p, o).

(* the statements of an item as terms, and what the line parsers return for them *)
Definition stmt4 := (term * term * term * option term)%type.
Definition item_stmts (i : item) : list stmt4 :=
  match i with IStmt _ s p o g => [(s, p, o, g)] | _ => [] end.
Definition cleaned4 (q : stmt4) : squad :=
  let '(s, p, o, g) := q in (cleaned s, cleaned p, cleaned o, option_map cleaned g).

Lemma nq_line_item : forall i, wf_item_nq i = true -> nq_line (render_item i) = map cleaned4 (item_stmts i).
Proof.
  intros i H. unfold nq_line. destruct i as [ws|ws text|pd s p o g|name iri|s pos]; cbn [wf_item_nq] in H; try discriminate.
  - cbn [render_item item_quads]. rewrite statement_blank by exact H. reflexivity.
  - cbn [render_item item_quads]. rewrite statement_comment by exact H. reflexivity.
  - destruct g as [g|].
    + repeat (apply andb_true_iff in H; destruct H as [H ?]).
      unfold wf_pad_nt in H. repeat (apply andb_true_iff in H; destruct H as [H ?]).
      cbn [render_item item_quads]. unfold render_stmt.
      replace (w0 pd ++ render_term s ++ w1 pd ++ render_term p ++ w2 pd ++ render_term o ++ (wg pd ++ render_term g) ++ w3 pd ++ cDOT :: w4 pd)
        with (w0 pd ++ (render_term s ++ w1 pd ++ render_term p ++ w2 pd ++ render_term o ++ wg pd ++ render_term g) ++ w3 pd ++ cDOT :: w4 pd)
        by (rewrite <- !app_assoc; reflexivity).
      rewrite statement_core; try assumption.
      * rewrite parse_nq_line_4 by assumption. reflexivity.
      * replace (render_term s ++ w1 pd ++ render_term p ++ w2 pd ++ render_term o ++ wg pd ++ render_term g)
          with (render_term s ++ (w1 pd ++ render_term p ++ w2 pd ++ render_term o ++ wg pd) ++ render_term g)
          by (rewrite <- !app_assoc; reflexivity).
        apply tight_concat; try apply tight_term; try apply render_nonempty; assumption.
      * apply first_not_hash. assumption.
    + repeat (apply andb_true_iff in H; destruct H as [H ?]).
      unfold wf_pad_nt in H. repeat (apply andb_true_iff in H; destruct H as [H ?]).
      cbn [render_item item_quads]. unfold render_stmt. cbn [app].
      replace (w0 pd ++ render_term s ++ w1 pd ++ render_term p ++ w2 pd ++ render_term o ++ w3 pd ++ cDOT :: w4 pd)
        with (w0 pd ++ (render_term s ++ w1 pd ++ render_term p ++ w2 pd ++ render_term o) ++ w3 pd ++ cDOT :: w4 pd)
        by (rewrite <- !app_assoc; reflexivity).
      rewrite statement_core; try assumption.
      * rewrite parse_nq_line_3 by assumption. reflexivity.
      * replace (render_term s ++ w1 pd ++ render_term p ++ w2 pd ++ render_term o)
          with (render_term s ++ (w1 pd ++ render_term p ++ w2 pd) ++ render_term o)
          by (rewrite <- !app_assoc; reflexivity).
        apply tight_concat; try apply tight_term; try apply render_nonempty; assumption.
      * apply first_not_hash. assumption.
Qed.

Lemma nt_line_item : forall i, wf_item_nt i = true -> nt_line (render_item i) = map drop_graph (map cleaned4 (item_stmts i)).
Proof.
  intros i H. unfold wf_item_nt in H. apply andb_true_iff in H. destruct H as [H Hg].
  unfold nt_line. destruct i as [ws|ws text|pd s p o g|name iri|s pos]; cbn [wf_item_nq] in H; try discriminate.
  - cbn [render_item item_quads map]. rewrite statement_blank by exact H. reflexivity.
  - cbn [render_item item_quads map]. rewrite statement_comment by exact H. reflexivity.
  - destruct g as [g|]; [discriminate|].
    repeat (apply andb_true_iff in H; destruct H as [H ?]).
    unfold wf_pad_nt in H. repeat (apply andb_true_iff in H; destruct H as [H ?]).
    cbn [render_item item_quads map drop_graph]. unfold render_stmt. cbn [app].
    replace (w0 pd ++ render_term s ++ w1 pd ++ render_term p ++ w2 pd ++ render_term o ++ w3 pd ++ cDOT :: w4 pd)
      with (w0 pd ++ (render_term s ++ w1 pd ++ render_term p ++ w2 pd ++ render_term o) ++ w3 pd ++ cDOT :: w4 pd)
      by (rewrite <- !app_assoc; reflexivity).
    rewrite statement_core; try assumption.
    + rewrite parse_nt_line_stmt by assumption. reflexivity.
    + replace (render_term s ++ w1 pd ++ render_term p ++ w2 pd ++ render_term o)
        with (render_term s ++ (w1 pd ++ render_term p ++ w2 pd) ++ render_term o)
        by (rewrite <- !app_assoc; reflexivity).
      apply tight_concat; try apply tight_term; try apply render_nonempty; assumption.
    + apply first_not_hash. assumption.
Qed.
