(* Lemmas about the lineage arena: the truth of a node unfolds along its children (for a
   well-formed arena), construction preserves well-formedness. *)
Require Import List NArith Bool Lia Arith.
Require Import KV.Hybrid.Lineage KV.Hybrid.Spec.
Import ListNotations.
Open Scope N_scope.

(* ---------- memN / list helpers ---------- *)
Lemma memN_In : forall x l, memN x l = true <-> In x l.
Proof.
  induction l as [|y r IH]; simpl.
  - split; [discriminate | tauto].
  - destruct (N.eqb_spec x y) as [->|Hne].
    + split; auto.
    + rewrite IH. split; [auto | intros [H|H]; [congruence | auto]].
Qed.

Lemma memN_false_iff : forall x l, memN x l = false <-> ~ In x l.
Proof.
  intros. rewrite <- memN_In. destruct (memN x l); split; intros H; try congruence;
    try (exfalso; apply H; reflexivity).
Qed.

Lemma forallb_ext_in : forall {A} (f g : A -> bool) l,
  (forall x, In x l -> f x = g x) -> forallb f l = forallb g l.
Proof.
  induction l as [|x r IH]; simpl; intros H; auto.
  rewrite H by auto. rewrite IH; auto.
Qed.

Lemma existsb_ext_in : forall {A} (f g : A -> bool) l,
  (forall x, In x l -> f x = g x) -> existsb f l = existsb g l.
Proof.
  induction l as [|x r IH]; simpl; intros H; auto.
  rewrite H by auto. rewrite IH; auto.
Qed.

Lemma In_ins : forall x l y, In y (ins x l) <-> y = x \/ In y l.
Proof.
  induction l as [|z r IH]; intros y; simpl.
  - intuition.
  - destruct (x <? z) eqn:H1; [simpl; intuition|].
    destruct (N.eqb_spec x z) as [->|H2]; simpl.
    + intuition.
    + rewrite IH. intuition.
Qed.

(* ---------- evaluation table ---------- *)
Definition ev (w : world) (a : list node) (v0 : list bool) : list bool :=
  fold_left (fun vals nd => vals ++ [eval_node w vals nd]) a v0.

Arguments ev : simpl never.

Lemma eval_arena_ev : forall w a, eval_arena w a = ev w a [].
Proof. reflexivity. Qed.

Lemma ev_app : forall w a1 a2 v0, ev w (a1 ++ a2) v0 = ev w a2 (ev w a1 v0).
Proof. intros. unfold ev. apply fold_left_app. Qed.

Lemma ev_cons : forall w nd a v0, ev w (nd :: a) v0 = ev w a (v0 ++ [eval_node w v0 nd]).
Proof. reflexivity. Qed.

Lemma ev_length : forall w a v0, length (ev w a v0) = (length v0 + length a)%nat.
Proof.
  induction a as [|nd a IH]; intros.
  - unfold ev; simpl; lia.
  - rewrite ev_cons, IH, app_length. simpl. lia.
Qed.

Lemma ev_prefix : forall w a v0 i d, (i < length v0)%nat -> nth i (ev w a v0) d = nth i v0 d.
Proof.
  induction a as [|nd a IH]; intros; auto.
  rewrite ev_cons, IH.
  - apply app_nth1. assumption.
  - rewrite app_length. simpl. lia.
Qed.

Definition children (nd : node) : list N :=
  match nd with NAnd cs | NOr cs => cs | NNot c => [c] | _ => [] end.

Lemma eval_node_ext : forall w v1 v2 nd,
  (forall c, In c (children nd) -> nth (N.to_nat c) v1 false = nth (N.to_nat c) v2 false) ->
  eval_node w v1 nd = eval_node w v2 nd.
Proof.
  intros w v1 v2 nd H. destruct nd; simpl in *; auto.
  - apply forallb_ext_in. auto.
  - apply existsb_ext_in. auto.
  - rewrite H; auto.
Qed.

(* ---------- well-formedness ---------- *)
Lemma node_wf_children : forall i nd, node_wf i nd = true -> forall c, In c (children nd) -> c < i.
Proof.
  intros i nd H c Hc. destruct nd; simpl in *; try tauto.
  - rewrite forallb_forall in H. apply N.ltb_lt. auto.
  - rewrite forallb_forall in H. apply N.ltb_lt. auto.
  - destruct Hc as [<-|[]]. apply N.ltb_lt. auto.
Qed.

Lemma wf_from_nth : forall a i j, wf_from i a = true -> (j < length a)%nat ->
  node_wf (i + N.of_nat j) (nth j a NFalse) = true.
Proof.
  induction a as [|nd a IH]; intros i j H Hj; simpl in *; [lia|].
  apply andb_prop in H. destruct H as [H1 H2].
  destruct j as [|j].
  - simpl. rewrite N.add_0_r. assumption.
  - replace (i + N.of_nat (S j)) with ((i + 1) + N.of_nat j) by lia.
    apply IH; auto. lia.
Qed.

Lemma wf_nth : forall a j, wf a = true -> (j < length a)%nat -> node_wf (N.of_nat j) (nth j a NFalse) = true.
Proof. intros. apply (wf_from_nth a 0 j); auto. Qed.

(* the value table at position i is the node's own evaluation over the final table *)
Lemma ev_nth_split : forall w a1 nd a2,
  (forall c, In c (children nd) -> c < N.of_nat (length a1)) ->
  nth (length a1) (ev w (a1 ++ nd :: a2) []) false = eval_node w (ev w (a1 ++ nd :: a2) []) nd.
Proof.
  intros w a1 nd a2 Hc.
  rewrite ev_app, ev_cons.
  assert (Hl : length (ev w a1 []) = length a1) by (rewrite ev_length; reflexivity).
  rewrite ev_prefix by (rewrite app_length; simpl; lia).
  rewrite app_nth2 by lia. rewrite Hl, Nat.sub_diag. simpl.
  apply eval_node_ext. intros c Hin. specialize (Hc c Hin).
  symmetry. rewrite (ev_prefix w a2) by (rewrite app_length; simpl; lia).
  rewrite app_nth1 by lia. reflexivity.
Qed.

Lemma ev_nth : forall w a, wf a = true -> forall j, (j < length a)%nat ->
  nth j (ev w a []) false = eval_node w (ev w a []) (nth j a NFalse).
Proof.
  intros w a Hwf j Hj.
  pose proof (wf_nth a j Hwf Hj) as Hn.
  destruct (nth_split a NFalse Hj) as (a1 & a2 & Ha & Hl).
  remember (nth j a NFalse) as nd. clear Heqnd.
  subst a. subst j. apply ev_nth_split.
  intros c Hc. apply (node_wf_children _ _ Hn c Hc).
Qed.

(* truth of a node, unfolded one level *)
Definition sem_node (a : arena) (w : world) (nd : node) : bool :=
  match nd with
  | NFalse => false
  | NTrue => true
  | NLit s => memN s w
  | NAnd cs => forallb (fun c => sem a c w) cs
  | NOr cs => existsb (fun c => sem a c w) cs
  | NNot c => negb (sem a c w)
  end.

Lemma sem_unfold : forall a, wf a = true -> forall id w, sem a id w = sem_node a w (node_at a id).
Proof.
  intros a Hwf id w. unfold sem, node_at. rewrite eval_arena_ev.
  destruct (lt_dec (N.to_nat id) (length a)) as [Hlt|Hge].
  - rewrite ev_nth by assumption.
    destruct (nth (N.to_nat id) a NFalse); reflexivity.
  - rewrite !nth_overflow; auto; try lia. rewrite ev_length. simpl. lia.
Qed.
