(* Exclusive groups: the formula compile_lineage_to_sdd hands to the SDD manager (lineage AND one exactly-one
   constraint per referenced group over ALL choices of that group, weights (p,1) for choices and (p,1-p) for
   independent seeds, only the referenced seeds and the members of their groups registered) has weighted count
   P(root) under the possible-worlds semantics `ProbX_node` (one choice per group, weights = choice probabilities). *)
Require Import List NArith QArith Bool Lia Lqa Permutation Arith.
Require Import KV.Hybrid.Lineage KV.Hybrid.Spec KV.Hybrid.Model KV.Hybrid.SearchSpec
               KV.Hybrid.LineageProofs KV.Hybrid.BuildProofs KV.Hybrid.ProbProofs KV.Hybrid.SearchProofs
               KV.Hybrid.TerminationProofs.
Import ListNotations.
Open Scope Q_scope.

Definition vids (vars : list wvar) : list N := map fst vars.
Definition same_set (w1 w2 : world) : Prop := forall x, memN x w1 = memN x w2.

(* ---------- weighted sums: congruence, concatenation, order of the variables ---------- *)
Lemma wsumk_rel : forall vars k1 k2 (R : world -> world -> Prop),
  (forall a1 a2 x, In x (vids vars) -> R a1 a2 -> R (x :: a1) (x :: a2)) ->
  (forall a1 a2, R a1 a2 -> k1 a1 == k2 a2) ->
  forall a1 a2, R a1 a2 -> wsumk vars k1 a1 == wsumk vars k2 a2.
Proof.
  induction vars as [|[v [wt wf]] r IH]; intros k1 k2 R Hc Hk a1 a2 HR; simpl.
  - apply Hk. assumption.
  - assert (Hc' : forall a1 a2 x, In x (vids r) -> R a1 a2 -> R (x :: a1) (x :: a2)).
    { intros. apply Hc; simpl; auto. }
    rewrite (IH k1 k2 R Hc' Hk (v :: a1) (v :: a2)) by (apply Hc; simpl; auto).
    rewrite (IH k1 k2 R Hc' Hk a1 a2 HR). reflexivity.
Qed.

Lemma wsumk_ext : forall vars k1 k2 acc, (forall a, k1 a == k2 a) -> wsumk vars k1 acc == wsumk vars k2 acc.
Proof. intros. apply (wsumk_rel vars k1 k2 eq); auto; intros; subst; auto. Qed.

Lemma wsumk_zero : forall vars acc, wsumk vars (fun _ => 0) acc == 0.
Proof.
  induction vars as [|[v [wt wf]] r IH]; intros; simpl; [reflexivity|]. rewrite !IH. ring.
Qed.

Lemma wsumk_app : forall v1 v2 k acc, wsumk (v1 ++ v2) k acc = wsumk v1 (fun a => wsumk v2 k a) acc.
Proof.
  induction v1 as [|[v [wt wf]] r IH]; intros; simpl; [reflexivity|]. rewrite !IH. reflexivity.
Qed.

Lemma same_set_cons : forall x a1 a2, same_set a1 a2 -> same_set (x :: a1) (x :: a2).
Proof. intros x a1 a2 H y. simpl. rewrite H. reflexivity. Qed.

Lemma same_set_swap : forall x y a, same_set (x :: y :: a) (y :: x :: a).
Proof. intros x y a z. simpl. destruct (z =? x)%N, (z =? y)%N; reflexivity. Qed.

Definition set_respecting (k : world -> Q) : Prop := forall a1 a2, same_set a1 a2 -> k a1 == k a2.

Lemma wsumk_set : forall vars k, set_respecting k -> set_respecting (wsumk vars k).
Proof.
  intros vars k Hk a1 a2 H. apply (wsumk_rel vars k k same_set); auto.
  intros. apply same_set_cons. assumption.
Qed.

Lemma wsumk_perm : forall vars vars', Permutation vars vars' ->
  forall k, set_respecting k -> forall acc, wsumk vars k acc == wsumk vars' k acc.
Proof.
  intros vars vars' H. induction H; intros k Hk acc.
  - reflexivity.
  - destruct x as [v [wt wf]]. simpl. rewrite (IHPermutation k Hk (v :: acc)), (IHPermutation k Hk acc). reflexivity.
  - destruct x as [v [wt wf]], y as [v' [wt' wf']]. simpl.
    rewrite (wsumk_set l k Hk (v' :: v :: acc) (v :: v' :: acc) (same_set_swap v' v acc)). ring.
  - rewrite (IHPermutation1 k Hk acc). apply IHPermutation2. assumption.
Qed.

(* independent seeds: the world sum of the Spec is this weighted sum *)
Lemma psum_wsum : forall sl f acc, forallb is_indep sl = true -> psum sl f acc == wsum (map var_of sl) f acc.
Proof.
  induction sl as [|r rest IH]; intros f acc H; simpl.
  - unfold wsum, ind. simpl. reflexivity.
  - apply andb_prop in H. destruct H as [Hr Hrest]. unfold wsum in *. simpl. unfold var_of at 1. rewrite Hr.
    rewrite (IH f (sid r :: acc) Hrest), (IH f acc Hrest). reflexivity.
Qed.

(* ---------- counting the true choices of a group ---------- *)
Lemma memN_cons : forall s m w, memN s (m :: w) = (s =? m)%N || memN s w.
Proof. intros. simpl. destruct (s =? m)%N; reflexivity. Qed.

Lemma count_cons_notin : forall m w vars, ~ In m vars -> count_true (m :: w) vars = count_true w vars.
Proof.
  intros m w vars H. unfold count_true. f_equal. apply filter_ext_in. intros s Hs.
  rewrite memN_cons. destruct (N.eqb_spec s m) as [->|Hne]; [contradiction | reflexivity].
Qed.

Lemma count_cons_in : forall m w vars, NoDup vars -> In m vars -> ~ In m w ->
  count_true (m :: w) vars = S (count_true w vars).
Proof.
  induction vars as [|s vars IH]; intros Hnd Hin Hw; [contradiction|].
  inversion Hnd as [|? ? Hs Hnd']; subst.
  change (count_true (m :: w) (s :: vars)) with (length (if memN s (m :: w) then s :: filter (fun x => memN x (m :: w)) vars else filter (fun x => memN x (m :: w)) vars)).
  change (count_true w (s :: vars)) with (length (if memN s w then s :: filter (fun x => memN x w) vars else filter (fun x => memN x w) vars)).
  fold (count_true (m :: w) vars). rewrite memN_cons.
  destruct (N.eqb_spec s m) as [->|Hne].
  - apply memN_false_iff in Hw. rewrite Hw. simpl. f_equal.
    apply (count_cons_notin m w vars Hs).
  - destruct Hin as [->|Hin]; [contradiction|]. simpl orb.
    specialize (IH Hnd' Hin Hw). unfold count_true in IH.
    destruct (memN s w); cbn [length]; rewrite IH; reflexivity.
Qed.

Lemma count_mono_cons : forall m w vars, (count_true w vars <= count_true (m :: w) vars)%nat.
Proof.
  induction vars as [|s vars IH]; [unfold count_true; simpl; lia|].
  change (count_true (m :: w) (s :: vars)) with (length (if memN s (m :: w) then s :: filter (fun x => memN x (m :: w)) vars else filter (fun x => memN x (m :: w)) vars)).
  change (count_true w (s :: vars)) with (length (if memN s w then s :: filter (fun x => memN x w) vars else filter (fun x => memN x w) vars)).
  unfold count_true in IH. rewrite memN_cons.
  destruct (s =? m)%N; simpl orb; destruct (memN s w); cbn [length]; lia.
Qed.

Lemma count_same_set : forall w1 w2 vars, same_set w1 w2 -> count_true w1 vars = count_true w2 vars.
Proof.
  intros w1 w2 vars H. unfold count_true. f_equal. apply filter_ext. intros s. apply H.
Qed.

(* ---------- summing out the choices of one group ---------- *)
Section OneGroup.
Variable Mids : list N.
Variable K : world -> Q.
Hypothesis HndM : NoDup Mids.
Hypothesis HZ : forall acc, count_true acc Mids <> 1%nat -> K acc == 0.

Definition choices_ok (ms : seeds) (acc : world) : Prop :=
  forallb (fun r => negb (is_indep r)) ms = true /\ incl (map sid ms) Mids /\ NoDup (map sid ms)
  /\ forall r, In r ms -> ~ In (sid r) acc.

Lemma var_of_excl : forall r, is_indep r = false -> var_of r = (sid r, (sprob r, 1)).
Proof. intros r H. unfold var_of. rewrite H. reflexivity. Qed.

Lemma choices_ok_tail : forall r ms acc, choices_ok (r :: ms) acc ->
  is_indep r = false /\ In (sid r) Mids /\ ~ In (sid r) acc /\ choices_ok ms acc /\ choices_ok ms (sid r :: acc).
Proof.
  intros r ms acc (H1 & H2 & H3 & H4). simpl in H1. apply andb_prop in H1. destruct H1 as [Hr H1].
  apply negb_true_iff in Hr. simpl in H3. inversion H3 as [|? ? Hnotin Hnd]; subst.
  split; [assumption|]. split; [apply H2; simpl; auto|]. split; [apply H4; simpl; auto|].
  split.
  - repeat split; auto. intros x Hx; apply H2; simpl; auto. intros r' Hr'; apply H4; simpl; auto.
  - repeat split; auto. intros x Hx; apply H2; simpl; auto.
    intros r' Hr' [Heq|Hin].
    + apply Hnotin. rewrite Heq. apply in_map. assumption.
    + apply (H4 r'); simpl; auto.
Qed.

Lemma group_two : forall ms acc, (2 <= count_true acc Mids)%nat -> wsumk (map var_of ms) K acc == 0.
Proof.
  induction ms as [|r ms IH]; intros acc H; simpl.
  - apply HZ. lia.
  - destruct (var_of r) as [v [wt wf]] eqn:E. unfold var_of in E. inversion E; subst.
    rewrite IH by (pose proof (count_mono_cons (sid r) acc Mids); lia).
    rewrite IH by assumption. ring.
Qed.

Lemma group_one : forall ms acc, choices_ok ms acc -> count_true acc Mids = 1%nat ->
  wsumk (map var_of ms) K acc == K acc.
Proof.
  induction ms as [|r ms IH]; intros acc Hok Hc; [reflexivity|].
  destruct (choices_ok_tail r ms acc Hok) as (Hr & HrM & Hracc & Hok1 & Hok2).
  cbn [map]. rewrite (var_of_excl r Hr). cbn [wsumk].
  rewrite group_two by (rewrite (count_cons_in (sid r) acc Mids HndM HrM Hracc); lia).
  rewrite (IH acc Hok1 Hc). ring.
Qed.

Lemma group_zero : forall ms acc, choices_ok ms acc -> count_true acc Mids = 0%nat ->
  wsumk (map var_of ms) K acc == fold_right (fun r s => sprob r * K (sid r :: acc) + s) 0 ms.
Proof.
  induction ms as [|r ms IH]; intros acc Hok Hc.
  - simpl. apply HZ. lia.
  - destruct (choices_ok_tail r ms acc Hok) as (Hr & HrM & Hracc & Hok1 & Hok2).
    cbn [map fold_right]. rewrite (var_of_excl r Hr). cbn [wsumk].
    rewrite (group_one ms (sid r :: acc) Hok2) by (rewrite (count_cons_in (sid r) acc Mids HndM HrM Hracc); lia).
    rewrite (IH acc Hok1 Hc). ring.
Qed.
End OneGroup.

(* ---------- facts about snapshots ---------- *)
Lemma NoDup_map_inj : forall {A B} (f : A -> B) l a b, NoDup (map f l) -> In a l -> In b l -> f a = f b -> a = b.
Proof.
  induction l as [|x l IH]; intros a b Hnd Ha Hb E; [contradiction|].
  simpl in Hnd. inversion Hnd as [|? ? Hx Hnd']; subst.
  destruct Ha as [->|Ha], Hb as [->|Hb]; auto.
  - exfalso. apply Hx. rewrite E. apply in_map. assumption.
  - exfalso. apply Hx. rewrite <- E. apply in_map. assumption.
Qed.

Lemma NoDup_map_filter : forall {A B} (f : A -> B) p l, NoDup (map f l) -> NoDup (map f (filter p l)).
Proof.
  induction l as [|x l IH]; intros H; simpl; [constructor|].
  simpl in H. inversion H as [|? ? Hx Hnd]; subst.
  destruct (p x); simpl; auto. constructor; auto.
  intro Hin. apply Hx. apply in_map_iff in Hin. destruct Hin as (y & Ey & Hy).
  apply filter_In in Hy. destruct Hy as [Hy _]. rewrite <- Ey. apply in_map. assumption.
Qed.

Lemma in_group_spec : forall g r, in_group g r = true <-> sgroup r = Some g.
Proof.
  intros g r. unfold in_group. destruct (sgroup r) as [g'|]; split; intros H; try discriminate.
  - apply N.eqb_eq in H. subst. reflexivity.
  - inversion H; subst. apply N.eqb_refl.
Qed.

Lemma members_In : forall sl g r, In r (members sl g) <-> In r sl /\ sgroup r = Some g.
Proof. intros. unfold members. rewrite filter_In, in_group_spec. reflexivity. Qed.

Definition mids (sl : seeds) (g : N) : list N := map sid (members sl g).

Lemma mids_In : forall sl g x, In x (mids sl g) -> exists r, In r sl /\ sid r = x /\ sgroup r = Some g.
Proof.
  intros sl g x H. unfold mids in H. apply in_map_iff in H. destruct H as (r & E & Hr).
  apply members_In in Hr. destruct Hr. exists r. auto.
Qed.

Lemma mids_disjoint : forall sl g1 g2 x, NoDup (ids sl) -> In x (mids sl g1) -> In x (mids sl g2) -> g1 = g2.
Proof.
  intros sl g1 g2 x Hnd H1 H2. apply mids_In in H1. apply mids_In in H2.
  destruct H1 as (r1 & Hr1 & E1 & G1), H2 as (r2 & Hr2 & E2 & G2).
  assert (r1 = r2) by (apply (NoDup_map_inj sid sl r1 r2 Hnd Hr1 Hr2); congruence).
  subst. congruence.
Qed.

Lemma mids_NoDup : forall sl g, NoDup (ids sl) -> NoDup (mids sl g).
Proof. intros. unfold mids, members. apply NoDup_map_filter. assumption. Qed.

Lemma mids_not_indep : forall sl g x r, NoDup (ids sl) -> In x (mids sl g) -> In r sl -> is_indep r = true -> sid r <> x.
Proof.
  intros sl g x r Hnd Hx Hr Hi E. apply mids_In in Hx. destruct Hx as (r1 & Hr1 & E1 & G1).
  assert (r1 = r) by (apply (NoDup_map_inj sid sl r1 r Hnd Hr1 Hr); congruence).
  subst. unfold is_indep in Hi. rewrite G1 in Hi. discriminate.
Qed.

Lemma count_zero : forall w vars, (forall x, In x vars -> ~ In x w) -> count_true w vars = 0%nat.
Proof.
  intros w vars H. unfold count_true. induction vars as [|s vars IH]; simpl; auto.
  assert (memN s w = false) as -> by (apply memN_false_iff; apply H; simpl; auto).
  apply IH. intros; apply H; simpl; auto.
Qed.

Lemma fold_sum_ext : forall (l : seeds) (f g : seedrec -> Q),
  (forall r, In r l -> f r == g r) ->
  fold_right (fun r s => sprob r * f r + s) 0 l == fold_right (fun r s => sprob r * g r + s) 0 l.
Proof.
  induction l as [|r l IH]; intros f g H; simpl; [reflexivity|].
  rewrite (H r) by (simpl; auto). rewrite (IH f g) by (intros; apply H; simpl; auto). reflexivity.
Qed.

(* ---------- all referenced groups, then the independent variables ---------- *)
Section Groups.
Variable sl : seeds.
Hypothesis Hnd : NoDup (ids sl).
Variable F : world -> bool.
Hypothesis HF : forall a1 a2, same_set a1 a2 -> F a1 = F a2.
Variable rgs : list N.
Variable VI : seeds.
Hypothesis HVI : forall r, In r VI -> In r sl /\ is_indep r = true.

Definition cons_all : list (list N) := map (mids sl) rgs.
Definition leaf (a : world) : Q := ind (F a && forallb (exactly_one a) cons_all).
Definition leafF (a : world) : Q := ind (F a).
Definition gvars (gs : list N) : list wvar := flat_map (fun g => map var_of (members sl g)) gs.

Definition ginv (gs : list N) (acc : world) : Prop :=
  (forall g, In g gs -> forall x, In x (mids sl g) -> ~ In x acc)
  /\ (forall g, In g rgs -> ~ In g gs -> count_true acc (mids sl g) = 1%nat)
  /\ (forall r, In r VI -> ~ In (sid r) acc).

Lemma vids_var_of : forall l, vids (map var_of l) = map sid l.
Proof. intros. unfold vids. rewrite map_map. reflexivity. Qed.

Lemma vids_gvars : forall gs x, In x (vids (gvars gs)) -> exists g, In g gs /\ In x (mids sl g).
Proof.
  intros gs x H. unfold vids, gvars in H. apply in_map_iff in H. destruct H as (v & E & Hv).
  apply in_flat_map in Hv. destruct Hv as (g & Hg & Hv). exists g. split; auto.
  apply in_map_iff in Hv. destruct Hv as (r & Er & Hr). unfold mids. apply in_map_iff. exists r.
  split; auto. subst. reflexivity.
Qed.

Lemma leaf_all_one : forall a, (forall g, In g rgs -> count_true a (mids sl g) = 1%nat) -> leaf a == leafF a.
Proof.
  intros a H. unfold leaf, leafF.
  assert (forallb (exactly_one a) cons_all = true) as ->.
  { apply forallb_forall. intros vs Hvs. unfold cons_all in Hvs. apply in_map_iff in Hvs.
    destruct Hvs as (g & <- & Hg). unfold exactly_one. rewrite (H g Hg). reflexivity. }
  rewrite andb_true_r. reflexivity.
Qed.

Lemma leaf_not_one : forall a g, In g rgs -> count_true a (mids sl g) <> 1%nat -> leaf a == 0.
Proof.
  intros a g Hg H. unfold leaf.
  assert (forallb (exactly_one a) cons_all = false) as ->.
  { apply not_true_is_false. intro Hall. rewrite forallb_forall in Hall.
    assert (Hin : In (mids sl g) cons_all) by (unfold cons_all; apply in_map; assumption).
    specialize (Hall _ Hin). unfold exactly_one in Hall. apply Nat.eqb_eq in Hall. contradiction. }
  rewrite andb_false_r. reflexivity.
Qed.

Lemma groups_sum : forall gs, incl gs rgs -> NoDup gs -> forall acc, ginv gs acc ->
  wsumk (gvars gs ++ map var_of VI) leaf acc == csum sl gs (fun a => wsumk (map var_of VI) leafF a) acc.
Proof.
  induction gs as [|g gs IH]; intros Hincl Hndg acc (Hi1 & Hi2 & Hi3).
  - simpl.
    apply (wsumk_rel _ leaf leafF (fun a1 a2 => a1 = a2 /\ forall g, In g rgs -> count_true a1 (mids sl g) = 1%nat)).
    + intros a1 a2 x Hx [-> HR]. split; auto. intros g Hg.
      rewrite vids_var_of in Hx. apply in_map_iff in Hx. destruct Hx as (r & <- & Hr).
      destruct (HVI r Hr) as [Hrs Hri].
      rewrite count_cons_notin; auto. intro Hm. exact (mids_not_indep sl g (sid r) r Hnd Hm Hrs Hri eq_refl).
    + intros a1 a2 [-> HR]. apply leaf_all_one. assumption.
    + split; auto.
  - inversion Hndg as [|? ? Hg_notin Hndg']; subst.
    assert (Hg : In g rgs) by (apply Hincl; simpl; auto).
    change (gvars (g :: gs)) with (map var_of (members sl g) ++ gvars gs).
    rewrite <- app_assoc, wsumk_app.
    set (K := fun a => wsumk (gvars gs ++ map var_of VI) leaf a).
    assert (HZ : forall a, count_true a (mids sl g) <> 1%nat -> K a == 0).
    { intros a Hc. unfold K. rewrite <- (wsumk_zero (gvars gs ++ map var_of VI) a).
      apply (wsumk_rel _ leaf (fun _ => 0) (fun a1 a2 => count_true a1 (mids sl g) <> 1%nat)); auto.
      - intros a1 a2 x Hx HR. rewrite count_cons_notin; auto.
        unfold vids in Hx. rewrite map_app in Hx. apply in_app_or in Hx. destruct Hx as [Hx|Hx].
        + apply vids_gvars in Hx. destruct Hx as (g' & Hg' & Hx). intro Hm.
          assert (g' = g) by (eapply mids_disjoint; eauto). subst. contradiction.
        + fold (vids (map var_of VI)) in Hx. rewrite vids_var_of in Hx. apply in_map_iff in Hx.
          destruct Hx as (r & <- & Hr). destruct (HVI r Hr) as [Hrs Hri]. intro Hm.
          exact (mids_not_indep sl g (sid r) r Hnd Hm Hrs Hri eq_refl).
      - intros a1 a2 HR. apply (leaf_not_one a1 g Hg HR). }
    assert (Hok : choices_ok (mids sl g) (members sl g) acc).
    { repeat split.
      - apply forallb_forall. intros r Hr. apply members_In in Hr. destruct Hr as [_ Hr].
        unfold is_indep. rewrite Hr. reflexivity.
      - apply incl_refl.
      - apply mids_NoDup. assumption.
      - intros r Hr. apply (Hi1 g); simpl; auto. unfold mids. apply in_map. assumption. }
    rewrite (group_zero (mids sl g) K (mids_NoDup sl g Hnd) HZ (members sl g) acc Hok)
      by (apply count_zero; intros x Hx; apply (Hi1 g); simpl; auto).
    cbn [csum]. apply fold_sum_ext. intros r Hr. unfold K.
    apply IH; auto.
    { intros x Hx. apply Hincl. simpl. auto. }
    assert (Hrm : In (sid r) (mids sl g)) by (unfold mids; apply in_map; assumption).
    repeat split.
    + intros g' Hg' x Hx [E|Hin].
      * subst x. assert (g' = g) by (eapply mids_disjoint; eauto). subst. contradiction.
      * apply (Hi1 g' ltac:(simpl; auto) x Hx Hin).
    + intros g2 Hg2 Hnot. destruct (N.eq_dec g2 g) as [->|Hne].
      * rewrite count_cons_in; auto.
        -- rewrite count_zero; auto. intros x Hx. apply (Hi1 g); simpl; auto.
        -- apply mids_NoDup. assumption.
        -- apply (Hi1 g); simpl; auto.
      * rewrite count_cons_notin.
        -- apply Hi2; auto. intros [E|Hin]; [congruence | contradiction].
        -- intro Hm. apply Hne. eapply mids_disjoint; eauto.
    + intros r' Hr' [E|Hin].
      * destruct (HVI r' Hr') as [Hrs Hri]. exact (mids_not_indep sl g (sid r) r' Hnd Hrm Hrs Hri (eq_sym E)).
      * apply (Hi3 r' Hr' Hin).
Qed.
End Groups.

(* ---------- the lineage depends on the world only through the seeds it mentions ---------- *)
Lemma sem_same_set : forall a id w1 w2, same_set w1 w2 -> sem a id w1 = sem a id w2.
Proof.
  intros a id w1 w2 H. unfold sem. rewrite !eval_arena_ev. f_equal.
  generalize (@nil bool). induction a as [|nd a IH]; intros v0; [reflexivity|].
  rewrite !ev_cons.
  assert (E : eval_node w1 v0 nd = eval_node w2 v0 nd) by (destruct nd; simpl; auto).
  rewrite E. apply IH.
Qed.

Definition info_fn (g : N -> bool * list N) (nd : node) : bool * list N :=
  match nd with
  | NFalse | NTrue => (false, [])
  | NLit s => (false, [s])
  | NNot c => (true, snd (g c))
  | NAnd cs | NOr cs =>
      (existsb (fun c => fst (g c)) cs, fold_right (fun c acc => union (snd (g c)) acc) [] cs)
  end.

Lemma info_table_tb : forall a, info_table a = tb (bool * list N) (false, []) info_fn a [].
Proof. reflexivity. Qed.

Lemma info_fn_ext : forall g1 g2 nd, (forall c, In c (children nd) -> g1 c = g2 c) -> info_fn g1 nd = info_fn g2 nd.
Proof.
  intros g1 g2 nd H. destruct nd as [| |s|cs|cs|c]; cbn [info_fn children] in *; auto.
  - f_equal.
    + apply existsb_ext_in. intros c Hc. rewrite (H c Hc). reflexivity.
    + apply fold_right_ext_in. intros c acc Hc. rewrite (H c Hc). reflexivity.
  - f_equal.
    + apply existsb_ext_in. intros c Hc. rewrite (H c Hc). reflexivity.
    + apply fold_right_ext_in. intros c acc Hc. rewrite (H c Hc). reflexivity.
  - rewrite (H c) by (simpl; auto). reflexivity.
Qed.

Lemma seeds_of_unfold : forall a, wf a = true -> forall id,
  seeds_of a id = snd (info_fn (fun c => (has_negation a c, seeds_of a c)) (node_at a id)).
Proof.
  intros a Hwf id. unfold seeds_of at 1. rewrite info_table_tb.
  pose proof (tb_unfold (bool * list N) (false, []) info_fn info_fn_ext (fun _ => eq_refl) a Hwf id) as H.
  change (nth (N.to_nat id) (tb (bool * list N) (false, []) info_fn a []) (false, []))
    with (look (bool * list N) (false, []) (tb (bool * list N) (false, []) info_fn a []) id).
  rewrite H.
  rewrite (info_fn_ext _ (fun c => (has_negation a c, seeds_of a c)) (node_at a id)); [reflexivity|].
  intros c _.
  unfold has_negation, seeds_of, look. rewrite info_table_tb.
  destruct (nth (N.to_nat c) (tb (bool * list N) (false, []) info_fn a []) (false, [])). reflexivity.
Qed.

Lemma In_union : forall l1 l2 x, In x (union l1 l2) <-> In x l1 \/ In x l2.
Proof.
  unfold union. induction l1 as [|y l1 IH]; intros l2 x; simpl; [tauto|].
  rewrite In_ins, IH. intuition.
Qed.

Lemma In_fold_union : forall (g : N -> list N) cs x,
  In x (fold_right (fun c acc => union (g c) acc) [] cs) <-> exists c, In c cs /\ In x (g c).
Proof.
  induction cs as [|c cs IH]; intros x; simpl.
  - split; [tauto | intros (c & [] & _)].
  - rewrite In_union, IH. split.
    + intros [H|(c' & Hc' & Hx)]; [exists c; auto | exists c'; auto].
    + intros (c' & [->|Hc'] & Hx); [left; assumption | right; exists c'; auto].
Qed.

(* the truth of a node depends only on the seeds below it *)
Lemma sem_agree : forall a, wf a = true -> forall id w1 w2,
  (forall s, In s (seeds_of a id) -> memN s w1 = memN s w2) -> sem a id w1 = sem a id w2.
Proof.
  intros a Hwf id. induction id as [id IH] using (well_founded_induction N.lt_wf_0).
  intros w1 w2 Hw.
  rewrite !(sem_unfold a Hwf id). rewrite (seeds_of_unfold a Hwf id) in Hw.
  destruct (lt_dec (N.to_nat id) (length a)) as [Hlt|Hge].
  2:{ unfold node_at. rewrite nth_overflow by lia. reflexivity. }
  assert (Hid : (id < alen a)%N) by (unfold alen; lia).
  pose proof (children_lt a Hwf id Hid) as Hch.
  destruct (node_at a id) as [| |s0|cs|cs|c]; cbn [sem_node info_fn snd children] in *; auto.
  - apply Hw. simpl. auto.
  - apply forallb_ext_in. intros c Hc. apply (IH c (Hch c Hc)).
    intros s Hs. apply Hw. apply In_fold_union. exists c. auto.
  - apply existsb_ext_in. intros c Hc. apply (IH c (Hch c Hc)).
    intros s Hs. apply Hw. apply In_fold_union. exists c. auto.
  - f_equal. apply (IH c (Hch c ltac:(simpl; auto))). auto.
Qed.

Lemma sem_indep : forall a, wf a = true -> forall id s, ~ In s (seeds_of a id) -> indep_of s (sem a id).
Proof.
  intros a Hwf id s Hs w1 w2 Hw. apply sem_agree; auto.
  intros x Hx. apply Hw. intro; subst; contradiction.
Qed.

(* ---------- marginalising what the lineage does not mention ---------- *)
Lemma psum_filter_irrelevant : forall (l : seeds) keep f acc,
  (forall r, In r l -> keep r = false -> indep_of (sid r) f) ->
  psum (filter keep l) f acc == psum l f acc.
Proof.
  induction l as [|r l IH]; intros keep f acc H; [reflexivity|].
  cbn [filter]. destruct (keep r) eqn:Ek; cbn [psum].
  - rewrite !IH by (intros; apply H; simpl; auto). reflexivity.
  - rewrite (psum_indep_cons l f (sid r) acc) by (apply H; simpl; auto).
    rewrite IH by (intros; apply H; simpl; auto). ring.
Qed.

Lemma csum_rel : forall sl gs k1 k2 (R : world -> world -> Prop),
  (forall a1 a2 x, R a1 a2 -> R (x :: a1) (x :: a2)) ->
  (forall a1 a2, R a1 a2 -> k1 a1 == k2 a2) ->
  forall a1 a2, R a1 a2 -> csum sl gs k1 a1 == csum sl gs k2 a2.
Proof.
  induction gs as [|g gs IH]; intros k1 k2 R Hc Hk a1 a2 HR; cbn [csum].
  - apply Hk. assumption.
  - apply fold_sum_ext. intros r _. apply (IH k1 k2 R); auto.
Qed.

Lemma fold_sum_const : forall (l : seeds) X,
  fold_right (fun r s => sprob r * X + s) 0 l == fold_right (fun r s => sprob r + s) 0 l * X.
Proof.
  induction l as [|r l IH]; intros X; simpl; [ring|]. rewrite IH. ring.
Qed.

Definition agree_off (vars : list N) (a1 a2 : world) : Prop := forall x, ~ In x vars -> memN x a1 = memN x a2.

Lemma csum_skip : forall sl g gs k acc,
  group_total sl g == 1 ->
  (forall a1 a2, agree_off (mids sl g) a1 a2 -> k a1 == k a2) ->
  csum sl (g :: gs) k acc == csum sl gs k acc.
Proof.
  intros sl g gs k acc Hn Hk. cbn [csum].
  rewrite (fold_sum_ext (members sl g) _ (fun _ => csum sl gs k acc)).
  - rewrite fold_sum_const. unfold group_total in Hn. rewrite Hn. ring.
  - intros r Hr. apply (csum_rel sl gs k k (agree_off (mids sl g))); auto.
    + intros a1 a2 x HR y Hy. simpl. rewrite (HR y Hy). reflexivity.
    + intros y Hy. simpl. destruct (N.eqb_spec y (sid r)) as [->|]; [|reflexivity].
      exfalso. apply Hy. unfold mids. apply in_map. assumption.
Qed.

Lemma csum_filter : forall sl keep k gs acc,
  (forall g, In g gs -> keep g = false ->
     group_total sl g == 1 /\ forall a1 a2, agree_off (mids sl g) a1 a2 -> k a1 == k a2) ->
  csum sl (filter keep gs) k acc == csum sl gs k acc.
Proof.
  induction gs as [|g gs IH]; intros acc H; [reflexivity|].
  cbn [filter]. destruct (keep g) eqn:Ek.
  - cbn [csum]. apply fold_sum_ext. intros r _. apply IH. intros; apply H; simpl; auto.
  - destruct (H g ltac:(simpl; auto) Ek) as [Hn Hk].
    rewrite (csum_skip sl g gs k acc Hn Hk). apply IH. intros; apply H; simpl; auto.
Qed.

(* ---------- the variables of the plan, regrouped ---------- *)
Lemma NoDup_app' : forall {A} (l1 l2 : list A), NoDup l1 -> NoDup l2 -> (forall x, In x l1 -> ~ In x l2) -> NoDup (l1 ++ l2).
Proof.
  induction l1 as [|x l1 IH]; intros l2 H1 H2 H; simpl; auto.
  inversion H1 as [|? ? Hx H1']; subst. constructor.
  - intro Hin. apply in_app_or in Hin. destruct Hin; [contradiction|]. apply (H x); simpl; auto.
  - apply IH; auto. intros; apply H; simpl; auto.
Qed.

Lemma sorted_sort_dedup : forall l, sorted (sort_dedup l).
Proof. induction l as [|x l IH]; simpl; [exact I|]. apply sorted_ins. assumption. Qed.

Lemma NoDup_group_ids : forall sl, NoDup (group_ids sl).
Proof. intros. apply sorted_NoDup. apply sorted_sort_dedup. Qed.

Lemma In_group_ids : forall sl r g, In r sl -> sgroup r = Some g -> In g (group_ids sl).
Proof.
  intros sl r g Hr Hg. unfold group_ids. apply In_sort_dedup. apply in_flat_map. exists r. split; auto.
  rewrite Hg. simpl. auto.
Qed.

Lemma NoDup_records : forall sl, NoDup (ids sl) -> NoDup sl.
Proof. intros sl H. unfold ids in H. apply NoDup_map_inv in H. assumption. Qed.

Lemma NoDup_flat_members : forall sl gs, NoDup (ids sl) -> NoDup gs -> NoDup (flat_map (members sl) gs).
Proof.
  intros sl gs Hnd. induction gs as [|g gs IH]; intros Hg; simpl; [constructor|].
  inversion Hg as [|? ? Hnotin Hg']; subst.
  apply NoDup_app'; auto.
  - unfold members. apply NoDup_filter. apply NoDup_records. assumption.
  - intros r Hr Hin. apply in_flat_map in Hin. destruct Hin as (g' & Hg'in & Hr').
    apply members_In in Hr. apply members_In in Hr'. destruct Hr as [_ E1], Hr' as [_ E2].
    rewrite E1 in E2. inversion E2; subst. contradiction.
Qed.

Definition refindep (refs : list N) (r : seedrec) : bool := is_indep r && memN (sid r) refs.

Lemma map_flat_map : forall {A B C} (f : B -> C) (g : A -> list B) l, map f (flat_map g l) = flat_map (fun x => map f (g x)) l.
Proof. induction l as [|x l IH]; simpl; [reflexivity|]. rewrite map_app, IH. reflexivity. Qed.

Section Plan.
Variable sl : seeds.
Variable refs : list N.
Hypothesis Hnd : NoDup (ids sl).
Let rgs := referenced_groups sl refs.

Lemma rgs_spec : forall g, In g rgs <-> In g (group_ids sl) /\ exists r, In r sl /\ sgroup r = Some g /\ In (sid r) refs.
Proof.
  intros g. unfold rgs, referenced_groups. rewrite filter_In. split.
  - intros [Hg He]. split; auto. apply existsb_exists in He. destruct He as (r & Hr & Hm).
    apply members_In in Hr. destruct Hr as [Hr Hgr]. exists r. repeat split; auto. apply memN_In. assumption.
  - intros [Hg (r & Hr & Hgr & Hm)]. split; auto. apply existsb_exists. exists r. split.
    + apply members_In. auto.
    + apply memN_In. assumption.
Qed.

Lemma NoDup_rgs : NoDup rgs.
Proof. unfold rgs, referenced_groups. apply NoDup_filter. apply NoDup_group_ids. Qed.

Lemma plan_vars_perm :
  Permutation (filter (in_expanded refs rgs) sl) (flat_map (members sl) rgs ++ filter (refindep refs) sl).
Proof.
  apply NoDup_Permutation.
  - apply NoDup_filter. apply NoDup_records. assumption.
  - apply NoDup_app'.
    + apply NoDup_flat_members; auto. apply NoDup_rgs.
    + apply NoDup_filter. apply NoDup_records. assumption.
    + intros r Hr Hin. apply in_flat_map in Hr. destruct Hr as (g & _ & Hr). apply members_In in Hr.
      apply filter_In in Hin. destruct Hin as [_ Hi]. unfold refindep, is_indep in Hi. destruct Hr as [_ E].
      rewrite E in Hi. discriminate.
  - intros r. rewrite filter_In, in_app_iff, in_flat_map, filter_In. unfold in_expanded, refindep, is_indep. split.
    + intros [Hr He]. destruct (sgroup r) as [g|] eqn:Eg.
      * left. exists g. split; [|apply members_In; auto].
        apply orb_prop in He. destruct He as [Hm|Hm]; [|apply memN_In; assumption].
        apply rgs_spec. split; [eapply In_group_ids; eauto|]. exists r. repeat split; auto. apply memN_In. assumption.
      * right. split; auto. rewrite orb_false_r in He. rewrite He. reflexivity.
    + intros [(g & Hg & Hr)|[Hr Hi]].
      * apply members_In in Hr. destruct Hr as [Hr E]. split; auto. rewrite E.
        apply memN_In in Hg. rewrite Hg. apply orb_true_r.
      * split; auto. destruct (sgroup r); [discriminate|]. simpl in Hi. rewrite Hi. reflexivity.
Qed.
End Plan.

(* ---------- the encoding theorem ---------- *)
Lemma filter_andb : forall {A} (p q : A -> bool) l, filter (fun x => p x && q x) l = filter q (filter p l).
Proof.
  induction l as [|x l IH]; simpl; [reflexivity|].
  destruct (p x); simpl; [destruct (q x)|]; rewrite IH; reflexivity.
Qed.

Section Encoding.
Variable a : arena.
Variable sl : seeds.
Variable root : N.
Hypothesis Hwf : wf a = true.
Hypothesis Hnd : NoDup (ids sl).

Let refs := seeds_of a root.
Let rgs := referenced_groups sl refs.
Let F := sem a root.
Let VI := filter (refindep refs) sl.

Lemma F_set : forall a1 a2, same_set a1 a2 -> F a1 = F a2.
Proof. intros. unfold F. apply sem_same_set. assumption. Qed.

Lemma VI_spec : forall r, In r VI -> In r sl /\ is_indep r = true.
Proof.
  intros r H. unfold VI in H. apply filter_In in H. destruct H as [Hr Hi]. unfold refindep in Hi.
  apply andb_prop in Hi. tauto.
Qed.

Lemma leaf_set : set_respecting (leaf sl F rgs).
Proof.
  intros a1 a2 H. unfold leaf. rewrite (F_set a1 a2 H).
  assert (E : forallb (exactly_one a1) (cons_all sl rgs) = forallb (exactly_one a2) (cons_all sl rgs)).
  { apply forallb_ext_in. intros vs _. unfold exactly_one. rewrite (count_same_set a1 a2 vs H). reflexivity. }
  rewrite E. reflexivity.
Qed.

Lemma plan_wmc_groups :
  plan_wmc a root (compile_plan sl a root) == csum sl rgs (fun acc => psum VI F acc) [].
Proof.
  unfold plan_wmc, compile_plan. cbn [p_vars p_constraints]. fold refs. fold rgs. unfold wsum.
  rewrite (wsumk_ext _ _ (leaf sl F rgs)) by (intros; reflexivity).
  etransitivity.
  { apply (wsumk_perm _ _ (Permutation_map var_of (plan_vars_perm sl refs Hnd)) _ leaf_set []). }
  rewrite map_app, map_flat_map.
  change (flat_map (fun x => map var_of (members sl x)) (referenced_groups sl refs)) with (gvars sl rgs).
  change (filter (refindep refs) sl) with VI.
  etransitivity.
  { apply groups_sum; [assumption | exact VI_spec | apply incl_refl | apply NoDup_rgs |].
    repeat split.
    + intros g _ x _ [].
    + intros g Hg Hn. contradiction.
    + intros r _ []. }
  apply (csum_rel sl rgs _ _ eq); auto; [intros; subst; reflexivity|].
    intros a1 a2 <-. symmetry. apply psum_wsum.
  apply forallb_forall. intros r Hr. apply VI_spec in Hr. tauto.
Qed.

Lemma F_indep_unreferenced : forall s, memN s refs = false -> indep_of s F.
Proof. intros s H. unfold F. apply sem_indep; auto. apply memN_false_iff. assumption. Qed.

Lemma ProbX_groups : groups_normalised sl ->
  ProbX_node sl a root == csum sl rgs (fun acc => psum VI F acc) [].
Proof.
  intros Hnorm. unfold ProbX_node, ProbX. fold F.
  assert (Hinner : forall acc, psum (indep_seeds sl) F acc == psum VI F acc).
  { intros acc. unfold VI, refindep. rewrite filter_andb. fold (indep_seeds sl).
    symmetry. apply psum_filter_irrelevant. intros r _ Hk. apply F_indep_unreferenced. assumption. }
  rewrite (csum_rel sl (group_ids sl) _ (fun acc => psum VI F acc) eq); auto;
    [|intros; subst; reflexivity | intros a1 a2 <-; apply Hinner].
  unfold rgs, referenced_groups. symmetry. apply csum_filter.
  intros g Hg Hk. split; [apply Hnorm; assumption|].
  intros a1 a2 Hag.
  apply (psum_rel VI F F (agree_off (mids sl g))); auto.
  - intros b1 b2 x _ HR y Hy. simpl. rewrite (HR y Hy). reflexivity.
  - intros b1 b2 HR. unfold F. apply sem_agree; auto. intros s Hs. apply HR.
    intro Hm. unfold mids in Hm. apply in_map_iff in Hm. destruct Hm as (r & E & Hr).
    assert (Hf : memN (sid r) refs = false).
    { destruct (memN (sid r) refs) eqn:Em; auto.
      assert (existsb (fun r => memN (sid r) refs) (members sl g) = true) by (apply existsb_exists; exists r; auto).
      congruence. }
    apply memN_false_iff in Hf. apply Hf. rewrite E. assumption.
Qed.

(* the formula handed to the SDD manager has weighted count P(root) *)
Lemma plan_wmc_correct : groups_normalised sl ->
  plan_wmc a root (compile_plan sl a root) == ProbX_node sl a root.
Proof. intros H. rewrite plan_wmc_groups, (ProbX_groups H). reflexivity. Qed.
End Encoding.

(* ---------- ProbX is a probability; it extends Prob ---------- *)
Lemma fold_sum_bounds : forall (l : seeds) (f : seedrec -> Q),
  (forall r, In r l -> 0 <= sprob r) -> (forall r, In r l -> 0 <= f r /\ f r <= 1) ->
  0 <= fold_right (fun r s => sprob r * f r + s) 0 l
  /\ fold_right (fun r s => sprob r * f r + s) 0 l <= fold_right (fun r s => sprob r + s) 0 l.
Proof.
  induction l as [|r l IH]; intros f Hp Hf; simpl; [lra|].
  destruct (IH f) as [I1 I2]; [intros; apply Hp; simpl; auto | intros; apply Hf; simpl; auto|].
  pose proof (Hp r ltac:(simpl; auto)). pose proof (Hf r ltac:(simpl; auto)). nra.
Qed.

Lemma csum_range : forall sl, probs_ok sl -> forall gs k,
  (forall g, In g gs -> group_total sl g == 1) -> (forall a, 0 <= k a /\ k a <= 1) ->
  forall acc, 0 <= csum sl gs k acc /\ csum sl gs k acc <= 1.
Proof.
  intros sl Hok. induction gs as [|g gs IH]; intros k Hn Hk acc; cbn [csum]; [apply Hk|].
  pose proof (fold_sum_bounds (members sl g) (fun r => csum sl gs k (sid r :: acc))) as [B1 B2].
  - intros r Hr. apply members_In in Hr. destruct Hr as [Hr _]. unfold probs_ok in Hok. rewrite Forall_forall in Hok.
    apply (Hok r Hr).
  - intros r _. apply IH; auto. intros; apply Hn; simpl; auto.
  - specialize (Hn g ltac:(simpl; auto)). unfold group_total in Hn. rewrite Hn in B2. split; assumption.
Qed.

Lemma ProbX_range : forall sl, probs_ok sl -> groups_normalised sl -> forall f, 0 <= ProbX sl f /\ ProbX sl f <= 1.
Proof.
  intros sl Hok Hn f. unfold ProbX. apply csum_range; auto.
  intros a. assert (Hi : probs_ok (indep_seeds sl)).
  { unfold probs_ok, indep_seeds in *. rewrite Forall_forall in *. intros r Hr. apply filter_In in Hr. apply Hok. tauto. }
  split; [apply psum_nonneg | apply psum_le_1]; assumption.
Qed.

Lemma lookup_In : forall sl r, NoDup (ids sl) -> In r sl -> lookup sl (sid r) = Some (snd r).
Proof.
  induction sl as [|r0 sl IH]; intros r Hnd Hr; [contradiction|]. simpl.
  destruct (N.eqb_spec (sid r0) (sid r)) as [E|Hne].
  - assert (r0 = r) by (apply (NoDup_map_inj sid (r0 :: sl) r0 r Hnd); simpl; auto). subst. reflexivity.
  - destruct Hr as [->|Hr]; [contradiction|]. apply IH; auto. simpl in Hnd. inversion Hnd; assumption.
Qed.

Lemma referenced_exclusive : forall sl a root r g, NoDup (ids sl) ->
  In r sl -> sgroup r = Some g -> In (sid r) (seeds_of a root) -> has_exclusive sl a root = true.
Proof.
  intros sl a root r g Hnd Hr Hg Hin. unfold has_exclusive. apply existsb_exists. exists (sid r). split; auto.
  unfold is_exclusive. rewrite (lookup_In sl r Hnd Hr). destruct r as [i [p gr]]. simpl in *.
  unfold sgroup in Hg. simpl in Hg. rewrite Hg. reflexivity.
Qed.

(* when the lineage mentions no choice of any group, P(root) is the independent-seed probability *)
Lemma no_excl_rgs : forall a sl root, NoDup (ids sl) -> has_exclusive sl a root = false ->
  referenced_groups sl (seeds_of a root) = [].
Proof.
  intros a sl root Hnd Hx.
  destruct (referenced_groups sl (seeds_of a root)) as [|g l] eqn:E; auto. exfalso.
  assert (Hg : In g (referenced_groups sl (seeds_of a root))) by (rewrite E; simpl; auto).
  apply rgs_spec in Hg. destruct Hg as [_ (r & Hr & Hgr & Hin)].
  rewrite (referenced_exclusive sl a root r g Hnd Hr Hgr Hin) in Hx. discriminate.
Qed.

Lemma Prob_node_VI : forall a sl root, wf a = true -> NoDup (ids sl) -> has_exclusive sl a root = false ->
  Prob_node sl a root == psum (filter (refindep (seeds_of a root)) sl) (sem a root) [].
Proof.
  intros a sl root Hwf Hnd Hx. unfold Prob_node, Prob.
  rewrite <- (psum_filter_irrelevant sl (fun r => memN (sid r) (seeds_of a root)) (sem a root) []).
  - assert (E : filter (fun r => memN (sid r) (seeds_of a root)) sl = filter (refindep (seeds_of a root)) sl).
    { apply filter_ext_in. intros r Hin. unfold refindep. destruct (memN (sid r) (seeds_of a root)) eqn:Em.
      - destruct (is_indep r) eqn:Ei; auto. unfold is_indep in Ei. destruct (sgroup r) as [g|] eqn:Eg; [|discriminate].
        apply memN_In in Em. rewrite (referenced_exclusive sl a root r g Hnd Hin Eg Em) in Hx. discriminate.
      - rewrite andb_false_r. reflexivity. }
    rewrite E. reflexivity.
  - intros r _ Hk. apply sem_indep; auto. apply memN_false_iff. assumption.
Qed.

Lemma plan_wmc_indep : forall a sl root, wf a = true -> NoDup (ids sl) -> has_exclusive sl a root = false ->
  plan_wmc a root (compile_plan sl a root) == Prob_node sl a root.
Proof.
  intros a sl root Hwf Hnd Hx.
  rewrite (plan_wmc_groups a sl root Hnd), (no_excl_rgs a sl root Hnd Hx). cbn [csum].
  symmetry. apply Prob_node_VI; assumption.
Qed.

Lemma Prob_node_ProbX : forall a sl root, wf a = true -> NoDup (ids sl) -> groups_normalised sl ->
  has_exclusive sl a root = false -> Prob_node sl a root == ProbX_node sl a root.
Proof.
  intros a sl root Hwf Hnd Hn Hx.
  rewrite <- (plan_wmc_indep a sl root Hwf Hnd Hx). apply plan_wmc_correct; assumption.
Qed.

(* ---------- why the constraint must range over ALL choices of a group ---------- *)
(* the variant in which the exactly-one constraint only ranges over the choices the lineage mentions *)
Definition compile_plan_referenced_only (sl : seeds) (a : arena) (root : N) : plan :=
  let refs := seeds_of a root in
  let rgs := referenced_groups sl refs in
  mk_plan (map var_of (filter (in_expanded refs rgs) sl))
          (map (fun g => filter (fun x => memN x refs) (map sid (members sl g))) rgs).
