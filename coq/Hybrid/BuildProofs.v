(* LineageStore construction: literal / not / and / or (canonical_nary) keep the arena well-formed,
   never change the meaning of existing nodes, and return a node that denotes what was asked for. *)
Require Import List NArith Bool Lia Arith.
Require Import KV.Hybrid.Lineage KV.Hybrid.Spec KV.Hybrid.LineageProofs.
Import ListNotations.
Open Scope N_scope.

(* ---------- equality tests ---------- *)
Lemma list_eqb_eq : forall l1 l2, list_eqb l1 l2 = true -> l1 = l2.
Proof.
  induction l1 as [|x r IH]; destruct l2 as [|y r2]; simpl; intros H; try discriminate; auto.
  apply andb_prop in H. destruct H as [H1 H2]. apply N.eqb_eq in H1. subst. f_equal. auto.
Qed.

Lemma node_eqb_eq : forall x y, node_eqb x y = true -> x = y.
Proof.
  destruct x, y; simpl; intros H; try discriminate; auto;
    try (apply N.eqb_eq in H; subst; reflexivity);
    try (apply list_eqb_eq in H; subst; reflexivity).
Qed.

Lemma find_from_spec : forall a nd i j, find_from a nd i = Some j ->
  exists k, j = i + N.of_nat k /\ (k < length a)%nat /\ nth k a NFalse = nd.
Proof.
  induction a as [|x r IH]; intros nd i j H; simpl in H; [discriminate|].
  destruct (node_eqb x nd) eqn:E.
  - inversion H; subst. exists 0%nat. apply node_eqb_eq in E. simpl. repeat split; auto; lia.
  - apply IH in H. destruct H as (k & -> & Hk & Hn). exists (S k). simpl. repeat split; auto; lia.
Qed.

Lemma find_node_spec : forall a nd j, find_node a nd = Some j -> j < alen a /\ node_at a j = nd.
Proof.
  intros a nd j H. apply find_from_spec in H. destruct H as (k & -> & Hk & Hn).
  unfold alen, node_at. split; [lia|]. simpl. rewrite Nat2N.id. assumption.
Qed.

(* ---------- the arena invariant ---------- *)
Definition base (a : arena) : Prop := exists rest, a = NFalse :: NTrue :: rest.
Definition good (a : arena) : Prop := wf a = true /\ base a.

Lemma good0 : good arena0.
Proof. split; [reflexivity | exists []; reflexivity]. Qed.

Lemma wf_from_app : forall a1 a2 i, wf_from i (a1 ++ a2) = wf_from i a1 && wf_from (i + N.of_nat (length a1)) a2.
Proof.
  induction a1 as [|x r IH]; intros a2 i; simpl.
  - rewrite N.add_0_r. reflexivity.
  - rewrite IH. rewrite andb_assoc. f_equal. f_equal. lia.
Qed.

Lemma wf_snoc : forall a nd, wf (a ++ [nd]) = wf a && node_wf (alen a) nd.
Proof.
  intros. unfold wf. rewrite wf_from_app. simpl. rewrite andb_true_r. reflexivity.
Qed.

Lemma base_snoc : forall a nd, base a -> base (a ++ [nd]).
Proof. intros a nd [rest ->]. exists (rest ++ [nd]). reflexivity. Qed.

Lemma base_len : forall a, base a -> 2 <= alen a.
Proof. intros a [rest ->]. unfold alen. simpl. lia. Qed.

Lemma sem_false : forall a w, good a -> sem a 0 w = false.
Proof. intros a w [Hwf [rest ->]]. rewrite sem_unfold by assumption. reflexivity. Qed.

Lemma sem_true : forall a w, good a -> sem a 1 w = true.
Proof. intros a w [Hwf [rest ->]]. rewrite sem_unfold by assumption. reflexivity. Qed.

(* appending a node never changes the meaning of existing ids *)
Lemma sem_snoc : forall a nd i w, i < alen a -> sem (a ++ [nd]) i w = sem a i w.
Proof.
  intros a nd i w Hi. unfold sem. rewrite !eval_arena_ev, ev_app.
  apply ev_prefix. rewrite ev_length. unfold alen in Hi. simpl. lia.
Qed.

Lemma node_at_snoc_old : forall a nd i, i < alen a -> node_at (a ++ [nd]) i = node_at a i.
Proof. intros. unfold node_at, alen in *. apply app_nth1. lia. Qed.

Lemma node_at_snoc_new : forall a nd, node_at (a ++ [nd]) (alen a) = nd.
Proof.
  intros. unfold node_at, alen. rewrite Nat2N.id. rewrite app_nth2 by lia. rewrite Nat.sub_diag. reflexivity.
Qed.

(* an operation's outcome: the arena grows, stays good, old meanings persist, the result is in range *)
Definition extends (a a' : arena) : Prop :=
  good a' /\ alen a <= alen a' /\ forall i w, i < alen a -> sem a' i w = sem a i w.

Lemma extends_refl : forall a, good a -> extends a a.
Proof. intros a H. split; [assumption|]. split; [lia | auto]. Qed.

Lemma extends_trans : forall a b c, extends a b -> extends b c -> extends a c.
Proof.
  intros a b c (Hgb & Hab & Hsb) (Hgc & Hbc & Hsc). split; [assumption|]. split; [lia|].
  intros i w Hi. rewrite Hsc by lia. apply Hsb. assumption.
Qed.

(* ---------- intern ---------- *)
Lemma intern_spec : forall a nd a' id,
  good a -> node_wf (alen a) nd = true -> intern a nd = (a', id) ->
  extends a a' /\ id < alen a' /\ forall w, sem a' id w = sem_node a' w nd.
Proof.
  intros a nd a' id [Hwf Hb] Hnd H. unfold intern in H.
  destruct (find_node a nd) as [j|] eqn:Hf.
  - inversion H; subst a' id. apply find_node_spec in Hf. destruct Hf as [Hj Hn].
    split; [apply extends_refl; split; assumption|]. split; [assumption|].
    intros w. rewrite sem_unfold by assumption. rewrite Hn. reflexivity.
  - inversion H; subst a' id.
    assert (Hwf' : wf (a ++ [nd]) = true) by (rewrite wf_snoc, Hwf, Hnd; reflexivity).
    split; [|split].
    + split; [split; [assumption | apply base_snoc; assumption]|].
      split; [unfold alen; rewrite app_length; simpl; lia|].
      intros i w Hi. apply sem_snoc. assumption.
    + unfold alen. rewrite app_length. simpl. lia.
    + intros w. rewrite sem_unfold by assumption. rewrite node_at_snoc_new. reflexivity.
Qed.

(* ---------- literal, not ---------- *)
Lemma literal_spec : forall a s a' id, good a -> literal a s = (a', id) ->
  extends a a' /\ id < alen a' /\ forall w, sem a' id w = memN s w.
Proof.
  intros a s a' id Hg H. unfold literal in H.
  destruct (intern_spec a (NLit s) a' id Hg eq_refl H) as (He & Hid & Hs). auto.
Qed.

Lemma lnot_spec : forall a x a' id, good a -> x < alen a -> lnot a x = (a', id) ->
  extends a a' /\ id < alen a' /\ forall w, sem a' id w = negb (sem a x w).
Proof.
  intros a x a' id Hg Hx H. unfold lnot in H. pose proof Hg as [Hwf Hb].
  pose proof (base_len a Hb) as Hlen.
  destruct (node_at a x) as [| |s|cs|cs|c] eqn:Hn.
  - inversion H; subst a' id. split; [apply extends_refl; assumption|]. split; [lia|].
    intros w. rewrite sem_true by assumption. rewrite (sem_unfold a Hwf x), Hn. reflexivity.
  - inversion H; subst a' id. split; [apply extends_refl; assumption|]. split; [lia|].
    intros w. rewrite sem_false by assumption. rewrite (sem_unfold a Hwf x), Hn. reflexivity.
  - assert (Hnw : node_wf (alen a) (NNot x) = true) by (simpl; apply N.ltb_lt; assumption).
    destruct (intern_spec a (NNot x) a' id Hg Hnw H) as (He & Hid & Hs).
    split; [assumption|]. split; [assumption|]. intros w. rewrite Hs. simpl.
    destruct He as (_ & _ & Hold). rewrite Hold by assumption. reflexivity.
  - assert (Hnw : node_wf (alen a) (NNot x) = true) by (simpl; apply N.ltb_lt; assumption).
    destruct (intern_spec a (NNot x) a' id Hg Hnw H) as (He & Hid & Hs).
    split; [assumption|]. split; [assumption|]. intros w. rewrite Hs. simpl.
    destruct He as (_ & _ & Hold). rewrite Hold by assumption. reflexivity.
  - assert (Hnw : node_wf (alen a) (NNot x) = true) by (simpl; apply N.ltb_lt; assumption).
    destruct (intern_spec a (NNot x) a' id Hg Hnw H) as (He & Hid & Hs).
    split; [assumption|]. split; [assumption|]. intros w. rewrite Hs. simpl.
    destruct He as (_ & _ & Hold). rewrite Hold by assumption. reflexivity.
  - inversion H; subst a' id. split; [apply extends_refl; assumption|].
    assert (Hc : c < x).
    { unfold node_at in Hn. unfold alen in Hx.
      pose proof (wf_nth a (N.to_nat x) Hwf ltac:(lia)) as Hw. rewrite Hn in Hw. simpl in Hw.
      apply N.ltb_lt in Hw. lia. }
    split; [lia|].
    intros w. rewrite (sem_unfold a Hwf x), Hn. simpl. rewrite negb_involutive. reflexivity.
Qed.

(* ---------- n-ary connectives ---------- *)
Definition opb (is_and : bool) (f : N -> bool) (l : list N) : bool :=
  if is_and then forallb f l else existsb f l.
Definition comb (is_and : bool) (x y : bool) : bool := if is_and then x && y else x || y.

Lemma opb_app : forall b f l1 l2, opb b f (l1 ++ l2) = comb b (opb b f l1) (opb b f l2).
Proof. intros [] f l1 l2; simpl; [apply forallb_app | apply existsb_app]. Qed.

Lemma opb_cons : forall b f x l, opb b f (x :: l) = comb b (f x) (opb b f l).
Proof. intros [] f x l; reflexivity. Qed.

Lemma opb_set_eq : forall b f l1 l2, (forall x, In x l1 <-> In x l2) -> opb b f l1 = opb b f l2.
Proof.
  intros b f l1 l2 H. apply eq_iff_eq_true. destruct b; simpl.
  - rewrite !forallb_forall. split; intros G x Hx; apply G; apply H; assumption.
  - rewrite !existsb_exists. split; intros (x & Hx & Gx); exists x; split; auto; apply H; assumption.
Qed.

Lemma In_sort_dedup : forall l x, In x (sort_dedup l) <-> In x l.
Proof.
  induction l as [|y r IH]; intros x; simpl; [tauto|].
  rewrite In_ins, IH. intuition.
Qed.

Definition identity_of (is_and : bool) : N := if is_and then 1 else 0.
Definition annih_of (is_and : bool) : N := if is_and then 0 else 1.

Lemma sem_identity : forall a b w, good a -> sem a (identity_of b) w = b.
Proof. intros a [] w H; simpl; [apply sem_true | apply sem_false]; assumption. Qed.

Lemma sem_annih : forall a b w, good a -> sem a (annih_of b) w = negb b.
Proof. intros a [] w H; simpl; [apply sem_false | apply sem_true]; assumption. Qed.

Lemma comb_identity_l : forall b x, comb b b x = x.
Proof. intros [] []; reflexivity. Qed.
Lemma comb_annih_l : forall b x, comb b (negb b) x = negb b.
Proof. intros [] []; reflexivity. Qed.
Lemma comb_assoc : forall b x y z, comb b (comb b x y) z = comb b x (comb b y z).
Proof. intros [] [] [] []; reflexivity. Qed.
Lemma comb_annih_r : forall b x, comb b x (negb b) = negb b.
Proof. intros [] []; reflexivity. Qed.
Lemma opb_nil : forall b f, opb b f [] = b.
Proof. intros [] f; reflexivity. Qed.

Lemma children_lt : forall a, wf a = true -> forall i, i < alen a -> forall c, In c (children (node_at a i)) -> c < i.
Proof.
  intros a Hwf i Hi c Hc. unfold node_at, alen in *.
  pose proof (wf_nth a (N.to_nat i) Hwf ltac:(lia)) as Hw. rewrite N2Nat.id in Hw.
  eapply node_wf_children; eauto.
Qed.

(* the first loop *)
Lemma flatten_spec : forall a b, good a -> forall items acc,
  (forall x, In x items -> x < alen a) -> (forall x, In x acc -> x < alen a) ->
  match flatten a b (identity_of b) (annih_of b) items acc with
  | None => forall w, comb b (opb b (fun x => sem a x w) acc) (opb b (fun x => sem a x w) items) = negb b
  | Some fl => (forall x, In x fl -> x < alen a) /\
               forall w, opb b (fun x => sem a x w) fl
                         = comb b (opb b (fun x => sem a x w) acc) (opb b (fun x => sem a x w) items)
  end.
Proof.
  intros a b Hg. pose proof Hg as [Hwf Hb].
  induction items as [|item r IH]; intros acc Hitems Hacc; simpl.
  - split; auto. intros w. rewrite opb_nil. destruct b, (opb _ _ acc); reflexivity.
  - assert (Hr : forall x, In x r -> x < alen a) by (intros; apply Hitems; simpl; auto).
    assert (Hi : item < alen a) by (apply Hitems; simpl; auto).
    destruct (N.eqb_spec item (annih_of b)) as [->|Hna].
    { intros w. rewrite opb_cons, sem_annih by assumption. rewrite comb_annih_l. apply comb_annih_r. }
    destruct (N.eqb_spec item (identity_of b)) as [->|Hni].
    { specialize (IH acc Hr Hacc).
      destruct (flatten a b (identity_of b) (annih_of b) r acc) as [fl|].
      - destruct IH as [H1 H2]. split; auto. intros w. rewrite H2, opb_cons, sem_identity by assumption.
        rewrite comb_identity_l. reflexivity.
      - intros w. rewrite opb_cons, sem_identity by assumption. rewrite comb_identity_l. apply IH. }
    assert (Hgen : forall cs, (forall c, In c cs -> c < alen a) ->
                   (forall w, opb b (fun x => sem a x w) cs = sem a item w) ->
                   match flatten a b (identity_of b) (annih_of b) r (acc ++ cs) with
                   | None => forall w, comb b (opb b (fun x => sem a x w) acc) (opb b (fun x => sem a x w) (item :: r)) = negb b
                   | Some fl => (forall x, In x fl -> x < alen a) /\
                                forall w, opb b (fun x => sem a x w) fl
                                          = comb b (opb b (fun x => sem a x w) acc) (opb b (fun x => sem a x w) (item :: r))
                   end).
    { intros cs Hcs Hsem.
      assert (Hacc' : forall x, In x (acc ++ cs) -> x < alen a).
      { intros x Hx. apply in_app_or in Hx. destruct Hx; auto. }
      specialize (IH (acc ++ cs) Hr Hacc').
      destruct (flatten a b (identity_of b) (annih_of b) r (acc ++ cs)) as [fl|].
      - destruct IH as [H1 H2]. split; auto. intros w.
        rewrite H2, opb_app, opb_cons, Hsem, comb_assoc. reflexivity.
      - intros w. specialize (IH w). rewrite opb_app, Hsem, comb_assoc in IH. rewrite opb_cons. exact IH. }
    assert (Hsingle : forall w, opb b (fun x => sem a x w) [item] = sem a item w).
    { intros w. rewrite opb_cons, opb_nil. destruct b, (sem a item w); reflexivity. }
    assert (Hsin : forall c, In c [item] -> c < alen a) by (intros c [<-|[]]; assumption).
    destruct b; destruct (node_at a item) as [| |s|cs|cs|c] eqn:Hn;
      try (apply (Hgen [item] Hsin Hsingle)).
    + (* And of And: splice the children *)
      apply Hgen.
      * intros c Hc. pose proof (children_lt a Hwf item Hi c) as Hlt. rewrite Hn in Hlt. specialize (Hlt Hc). lia.
      * intros w. rewrite (sem_unfold a Hwf item), Hn. reflexivity.
    + apply Hgen.
      * intros c Hc. pose proof (children_lt a Hwf item Hi c) as Hlt. rewrite Hn in Hlt. specialize (Hlt Hc). lia.
      * intros w. rewrite (sem_unfold a Hwf item), Hn. reflexivity.
Qed.

(* the complement test *)
Lemma complement_spec : forall a b fl, good a -> (forall x, In x fl -> x < alen a) ->
  existsb (complement_in a fl) fl = true -> forall w, opb b (fun x => sem a x w) fl = negb b.
Proof.
  intros a b fl [Hwf Hb] Hfl H w. apply existsb_exists in H. destruct H as (item & Hin & Hc).
  assert (Hpair : exists x y, In x fl /\ In y fl /\ sem a y w = negb (sem a x w)).
  { unfold complement_in in Hc.
    destruct (node_at a item) as [| |s|cs|cs|c] eqn:Hn.
    6:{ exists c, item. apply memN_In in Hc. repeat split; auto.
        rewrite (sem_unfold a Hwf item), Hn. reflexivity. }
    all: destruct (find_node a (NNot item)) as [ng|] eqn:Hf; [|discriminate];
         apply memN_In in Hc; apply find_node_spec in Hf; destruct Hf as [_ Hng];
         exists item, ng; repeat split; auto;
         rewrite (sem_unfold a Hwf ng), Hng; reflexivity. }
  destruct Hpair as (x & y & Hx & Hy & Hxy).
  destruct b; simpl.
  - apply not_true_is_false. intro Hall. rewrite forallb_forall in Hall.
    pose proof (Hall x Hx) as H1. pose proof (Hall y Hy) as H2. rewrite Hxy, H1 in H2. discriminate.
  - apply existsb_exists. destruct (sem a x w) eqn:E.
    + exists x. auto.
    + exists y. split; [assumption | rewrite Hxy; reflexivity].
Qed.

Lemma canonical_nary_spec : forall a b items a' id,
  good a -> (forall x, In x items -> x < alen a) ->
  canonical_nary a b items = (a', id) ->
  extends a a' /\ id < alen a' /\ forall w, sem a' id w = opb b (fun x => sem a x w) items.
Proof.
  intros a b items a' id Hg Hitems H. pose proof Hg as [Hwf Hb].
  pose proof (base_len a Hb) as Hlen.
  unfold canonical_nary in H.
  change (if b then 1 else 0) with (identity_of b) in H.
  change (if b then 0 else 1) with (annih_of b) in H.
  pose proof (flatten_spec a b Hg items [] Hitems ltac:(intros x [])) as Hf.
  destruct (flatten a b (identity_of b) (annih_of b) items []) as [fl0|].
  2:{ inversion H; subst a' id. split; [apply extends_refl; assumption|].
      split; [destruct b; simpl; lia|].
      intros w. specialize (Hf w). rewrite opb_nil, comb_identity_l in Hf. rewrite Hf. apply sem_annih. assumption. }
  destruct Hf as [Hfl0 Hsem0].
  set (fl := sort_dedup fl0) in *.
  assert (Hfl : forall x, In x fl -> x < alen a) by (intros x Hx; apply Hfl0; apply In_sort_dedup; assumption).
  assert (Hsem : forall w, opb b (fun x => sem a x w) fl = opb b (fun x => sem a x w) items).
  { intros w. rewrite (opb_set_eq b _ fl fl0) by (intros; apply In_sort_dedup).
    rewrite Hsem0, opb_nil, comb_identity_l. reflexivity. }
  destruct (existsb (complement_in a fl) fl) eqn:Hcomp.
  { inversion H; subst a' id. split; [apply extends_refl; assumption|].
    split; [destruct b; simpl; lia|].
    intros w. rewrite <- Hsem, (complement_spec a b fl Hg Hfl Hcomp w). apply sem_annih. assumption. }
  destruct fl as [|x1 [|x2 rest]] eqn:Efl.
  - inversion H; subst a' id. split; [apply extends_refl; assumption|].
    split; [destruct b; simpl; lia|].
    intros w. rewrite <- Hsem, opb_nil. apply sem_identity. assumption.
  - inversion H; subst a' id. split; [apply extends_refl; assumption|].
    split; [apply Hfl; simpl; auto|].
    intros w. rewrite <- Hsem, opb_cons, opb_nil. destruct b, (sem a x1 w); reflexivity.
  - rewrite <- Efl in *. clear Efl.
    assert (Hnw : node_wf (alen a) (if b then NAnd fl else NOr fl) = true).
    { destruct b; simpl; apply forallb_forall; intros c Hc; apply N.ltb_lt; auto. }
    destruct (intern_spec a _ a' id Hg Hnw H) as (He & Hid & Hs).
    split; [assumption|]. split; [assumption|].
    intros w. rewrite Hs. destruct He as (_ & _ & Hold). rewrite <- Hsem.
    destruct b; simpl; [apply forallb_ext_in | apply existsb_ext_in]; intros c Hc; apply Hold; auto.
Qed.

(* ---------- sequences of construction operations ---------- *)
Definition st_good (w : world) (st : arena * list N) (vals : list bool) : Prop :=
  good (fst st) /\ Forall (fun id => id < alen (fst st)) (snd st) /\ map (fun id => sem (fst st) id w) (snd st) = vals.

Lemma deref_lt : forall a ids r, good a -> Forall (fun id => id < alen a) ids -> deref ids r < alen a.
Proof.
  intros a ids r [Hwf Hb] Hall. pose proof (base_len a Hb). unfold deref.
  destruct (r =? 0); [lia|]. destruct (r =? 1); [lia|].
  destruct (lt_dec (N.to_nat (r - 2)) (length ids)) as [Hlt|Hge].
  - rewrite Forall_forall in Hall. apply Hall. apply nth_In. assumption.
  - rewrite nth_overflow by lia. lia.
Qed.

Lemma deref_sem : forall a ids r w, good a ->
  sem a (deref ids r) w = ref_val (map (fun id => sem a id w) ids) r.
Proof.
  intros a ids r w Hg. unfold deref, ref_val.
  destruct (r =? 0); [apply sem_false; assumption|].
  destruct (r =? 1); [apply sem_true; assumption|].
  pose proof (map_nth (fun id => sem a id w) ids 0 (N.to_nat (r - 2))) as Hm.
  simpl in Hm. rewrite (sem_false a w Hg) in Hm. symmetry. exact Hm.
Qed.

Lemma extends_st : forall a a' ids w, extends a a' -> Forall (fun id => id < alen a) ids ->
  Forall (fun id => id < alen a') ids /\ map (fun id => sem a' id w) ids = map (fun id => sem a id w) ids.
Proof.
  intros a a' ids w (Hg & Hlen & Hold) Hall. split.
  - eapply Forall_impl; [|exact Hall]. simpl. intros; lia.
  - apply map_ext_in. intros id Hin. apply Hold. rewrite Forall_forall in Hall. auto.
Qed.

Lemma forallb_map' : forall {A B} (f : B -> bool) (g : A -> B) l, forallb f (map g l) = forallb (fun x => f (g x)) l.
Proof. induction l; simpl; congruence. Qed.
Lemma existsb_map' : forall {A B} (f : B -> bool) (g : A -> B) l, existsb f (map g l) = existsb (fun x => f (g x)) l.
Proof. induction l; simpl; congruence. Qed.

Lemma apply_op_good : forall w st vals o, st_good w st vals ->
  st_good w (apply_op st o) (vals ++ [op_val w vals o]).
Proof.
  intros w [a ids] vals o (Hg & Hall & Hvals). simpl in *. unfold apply_op.
  assert (Hstep : forall a' id v,
            extends a a' -> id < alen a' -> sem a' id w = v ->
            st_good w (a', ids ++ [id]) (vals ++ [v])).
  { intros a' id v He Hid Hs. destruct (extends_st a a' ids w He Hall) as [Hall' Hmap].
    destruct He as (Hg' & _ & _). unfold st_good. simpl. split; [assumption|]. split.
    - apply Forall_app. split; auto.
    - rewrite map_app, Hmap, Hvals. simpl. rewrite Hs. reflexivity. }
  assert (Hrefs : forall rs x, In x (map (deref ids) rs) -> x < alen a).
  { intros rs x Hx. apply in_map_iff in Hx. destruct Hx as (r & <- & _). apply deref_lt; assumption. }
  assert (Hds : forall r, sem a (deref ids r) w = ref_val vals r).
  { intros r. rewrite deref_sem, Hvals by assumption. reflexivity. }
  destruct o as [s|r|rs|rs]; simpl.
  - destruct (literal a s) as [a' id] eqn:E.
    destruct (literal_spec a s a' id Hg E) as (He & Hid & Hs). apply Hstep; auto.
  - destruct (lnot a (deref ids r)) as [a' id] eqn:E.
    destruct (lnot_spec a _ a' id Hg (deref_lt a ids r Hg Hall) E) as (He & Hid & Hs).
    apply Hstep; auto. rewrite Hs, Hds. reflexivity.
  - destruct (land a (map (deref ids) rs)) as [a' id] eqn:E. unfold land in E.
    destruct (canonical_nary_spec a true _ a' id Hg (Hrefs rs) E) as (He & Hid & Hs).
    apply Hstep; auto. rewrite Hs. simpl. rewrite forallb_map'. apply forallb_ext_in. intros; apply Hds.
  - destruct (lor a (map (deref ids) rs)) as [a' id] eqn:E. unfold lor in E.
    destruct (canonical_nary_spec a false _ a' id Hg (Hrefs rs) E) as (He & Hid & Hs).
    apply Hstep; auto. rewrite Hs. simpl. rewrite existsb_map'. apply existsb_ext_in. intros; apply Hds.
Qed.

Lemma build_fold_good : forall w ops st vals, st_good w st vals ->
  st_good w (fold_left apply_op ops st) (fold_left (fun vals o => vals ++ [op_val w vals o]) ops vals).
Proof.
  induction ops as [|o ops IH]; intros st vals H; simpl; auto.
  apply IH. apply apply_op_good. assumption.
Qed.

(* every arena built through the API is well-formed, every handle is in range and denotes what was asked for *)
Lemma build_spec : forall ops w,
  wf (fst (build ops)) = true
  /\ Forall (fun id => id < alen (fst (build ops))) (snd (build ops))
  /\ map (fun id => sem (fst (build ops)) id w) (snd (build ops)) = ops_vals w ops.
Proof.
  intros ops w. unfold build, ops_vals.
  assert (H0 : st_good w (arena0, []) []).
  { split; [apply good0|]. split; [constructor | reflexivity]. }
  destruct (build_fold_good w ops _ _ H0) as ([Hwf _] & Hall & Hm). auto.
Qed.
