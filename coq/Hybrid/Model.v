(* Executable model of the top-k / hybrid evaluator of shared/src/hybrid.rs:
     proof_probability, ProofSearchState + BinaryHeap order, enumerate_proofs, interval_from_enumeration,
     retained_proof_wmc, evaluate_topk, compile_lineage_to_sdd_with_clock (as an oracle call),
     HybridConfig::validate, evaluate_hybrid_controlled.
   Probabilities are exact rationals.  Instants and durations are N (nanoseconds).
   The clock is an arbitrary function  clk : N -> N  (reading number -> instant); every `clock.now()` of the
   code consumes one reading.  The SDD manager is not modelled here (property C07): an SDD computation is
   an oracle call that says how many budget checkpoints (= clock readings) it performs when not interrupted
   and whether it then succeeds or exceeds the node budget; its value, when it succeeds, is the exact
   weighted count (computed here by Shannon expansion / by the Spec).  No proofs in this file. *)
Require Import List NArith QArith Bool.
Require Import KV.Hybrid.Lineage KV.Hybrid.Spec.
Import ListNotations.
Open Scope N_scope.

(* ---------- small helpers on Q ---------- *)
Definition qle (x y : Q) : bool := Qle_bool x y.
Definition qlt (x y : Q) : bool := negb (Qle_bool y x).
Definition qmax (x y : Q) : Q := if qle x y then y else x.
(* f64::clamp(lo, hi) *)
Definition qclamp (x lo hi : Q) : Q := if qlt x lo then lo else if qlt hi x then hi else x.
Definition qabs (x : Q) : Q := if qle 0 x then x else Qred (- x).
Definition len {A} (l : list A) : N := N.of_nat (length l).

(* ---------- seeds ---------- *)
Definition proof := list N.   (* BTreeSet<SeedId>: strictly increasing list *)

(* proof_probability *)
Definition proof_prob (sl : seeds) (pr : proof) : option Q :=
  fold_left (fun acc id => match acc, lookup sl id with
                           | Some x, Some (p, _) => Some (Qred (x * p))
                           | _, _ => None
                           end) pr (Some 1%Q).

Definition subset (x y : proof) : bool := forallb (fun s => memN s y) x.

(* ---------- reasons, residual ---------- *)
Inductive reason :=
| TopKExhausted | LowerBoundCrossedThreshold | UpperBoundBelowThreshold | ExactSdd
| NegationRequiresExact | ExclusivityRequiresExact | NearThreshold | MarginalGain
| TopKBudget | SddBudget | SddNodeBudget | MissingSeed | DiagnosticOnly.

Inductive residual := ResExhausted | ResBounded (m : Q) | ResUnknown.

(* ---------- the search ---------- *)
Record sst := mk_sst { pending : list N;   (* stack, head = next to expand (Vec::pop takes the last) *)
                       prf : proof;
                       ub : Q;
                       sq : N }.

(* Ord for ProofSearchState: larger upper_bound first, then smaller sequence *)
Definition better (x y : sst) : bool :=
  match Qcompare (ub x) (ub y) with
  | Gt => true
  | Lt => false
  | Eq => sq x <? sq y
  end.

(* BinaryHeap::pop: removes exactly one maximal element *)
Fixpoint pop_best (l : list sst) : option (sst * list sst) :=
  match l with
  | [] => None
  | x :: r =>
      match pop_best r with
      | None => Some (x, [])
      | Some (b, r') => if better x b then Some (x, r) else Some (b, x :: r')
      end
  end.

Record scfg := mk_scfg { fr : list sst; seqn : N; em : list proof }.

Inductive eres :=
| EOk (ps : list proof) (r : residual)
| EErr (r : reason)
| EFuel.                                   (* model artefact: recursion fuel exhausted *)

Inductive stepres := SCont (c : scfg) | SDone (r : eres).

Definition sum_ub (l : list sst) : Q := fold_right (fun s acc => Qred (ub s + acc)) 0%Q l.

(* branches pushed for an Or node *)
Fixpoint or_branches (cs rest : list N) (pr : proof) (u : Q) (s : N) : list sst * N :=
  match cs with
  | [] => ([], s)
  | c :: cs' =>
      let s1 := s + 1 in
      let '(l, s2) := or_branches cs' rest pr u s1 in
      (mk_sst (c :: rest) pr u s1 :: l, s2)
  end.

(* one iteration of the `while let Some(state) = frontier.pop()` loop, for a non-empty frontier;
   `expired` is the outcome of `clock.now() >= deadline` *)
Definition step (a : arena) (sl : seeds) (cap : N) (expired : bool) (c : scfg) : stepres :=
  match pop_best (fr c) with
  | None => SDone (EOk (em c) ResExhausted)
  | Some (st, fr') =>
      if expired then SDone (EOk (em c) ResUnknown)
      else
        match pending st with
        | [] =>
            if existsb (fun e => subset e (prf st)) (em c)
            then SCont (mk_scfg fr' (seqn c) (em c))
            else
              let em' := filter (fun e => negb (subset (prf st) e)) (em c) ++ [prf st] in
              if len em' =? cap
              then SDone (EOk em' (ResBounded (qclamp (sum_ub fr') 0 1)))
              else SCont (mk_scfg fr' (seqn c) em')
        | next :: rest =>
            match node_at a next with
            | NFalse => SCont (mk_scfg fr' (seqn c) (em c))
            | NTrue =>
                let s := seqn c + 1 in
                SCont (mk_scfg (mk_sst rest (prf st) (ub st) s :: fr') s (em c))
            | NLit seed =>
                let pr' := ins seed (prf st) in
                match proof_prob sl pr' with
                | None => SDone (EErr MissingSeed)
                | Some q =>
                    let s := seqn c + 1 in
                    SCont (mk_scfg (mk_sst rest pr' q s :: fr') s (em c))
                end
            | NNot _ => SDone (EErr NegationRequiresExact)
            | NAnd cs =>
                let s := seqn c + 1 in
                SCont (mk_scfg (mk_sst (cs ++ rest) (prf st) (ub st) s :: fr') s (em c))
            | NOr cs =>
                let '(bs, s) := or_branches cs rest (prf st) (ub st) (seqn c) in
                SCont (mk_scfg (bs ++ fr') s (em c))
            end
        end
  end.

(* the loop; t = number of clock readings made so far *)
Fixpoint enum_loop (fuel : nat) (a : arena) (sl : seeds) (cap deadline : N) (clk : N -> N) (t : N) (c : scfg)
  : eres * N :=
  match fuel with
  | O => (EFuel, t)
  | S f =>
      match fr c with
      | [] => (EOk (em c) ResExhausted, t)
      | _ =>
          let expired := deadline <=? clk t in
          match step a sl cap expired c with
          | SDone r => (r, t + 1)
          | SCont c' => enum_loop f a sl cap deadline clk (t + 1) c'
          end
      end
  end.

Definition init_cfg (root : N) : scfg := mk_scfg [mk_sst [root] [] 1%Q 0] 0 [].

Definition enumerate (fuel : nat) (a : arena) (sl : seeds) (root cap deadline : N) (clk : N -> N) (t : N) : eres * N :=
  if cap =? 0 then (EOk [] (ResBounded 1%Q), t)
  else enum_loop fuel a sl cap deadline clk t (init_cfg root).

(* ---------- interval_from_enumeration ---------- *)
Inductive ires := IOk (lo hi : Q) | INone | IErr (r : reason).

Fixpoint probe_mass (sl : seeds) (ps : list proof) (acc : Q) : option Q :=
  match ps with
  | [] => Some acc
  | p :: r => match proof_prob sl p with
              | Some q => probe_mass sl r (Qred (acc + q))
              | None => None
              end
  end.

Definition interval_from_enumeration (sl : seeds) (lower : Q) (ps : list proof) (retained : N) (res : residual) : ires :=
  match res with
  | ResUnknown => INone
  | _ =>
      let fm := match res with ResBounded m => m | _ => 0%Q end in
      match probe_mass sl (skipn (N.to_nat retained) ps) 0%Q with
      | None => IErr MissingSeed
      | Some pm =>
          let upper := qclamp (Qred (lower + pm + fm)) lower 1 in
          (* ProbabilityInterval::new *)
          if qle 0 lower && qle lower 1 && qle 0 upper && qle upper 1 && qle lower upper
          then IOk lower upper else IErr DiagnosticOnly
      end
  end.

(* ---------- exact weighted count of a DNF of proofs (what the SDD of retained_proof_wmc computes) ---------- *)
Definition remove_seed (s : N) (p : proof) : proof := filter (fun x => negb (x =? s)) p.
Definition is_nil {A} (l : list A) : bool := match l with [] => true | _ => false end.

Fixpoint wmc_dnf (sl : seeds) (ps : list proof) : Q :=
  if existsb is_nil ps then 1%Q
  else if is_nil ps then 0%Q
  else match sl with
       | [] => 0%Q
       | r :: rest =>
           Qred (sprob r * wmc_dnf rest (map (remove_seed (sid r)) ps)
                 + (1 - sprob r) * wmc_dnf rest (filter (fun p => negb (memN (sid r) p)) ps))
       end.

(* ---------- SDD oracle ---------- *)
(* what one SDD computation does when it is not interrupted: number of budget checkpoints, success *)
Definition sddcost := (N * bool)%type.
(* oracle: kind (0 = retained proofs, 1 = retained + probe, 2 = full lineage) and k *)
Definition sddoracle := N -> N -> sddcost.

(* the checkpoints read the clock one by one; the first reading at or past the deadline aborts *)
Fixpoint sdd_run (n : nat) (clk : N -> N) (t deadline : N) : bool * N :=
  match n with
  | O => (false, t)
  | S n' => if deadline <=? clk t then (true, t + 1) else sdd_run n' clk (t + 1) deadline
  end.

Inductive wres := WOk (v : Q) | WDeadline | WNodes | WMissing.

Definition retained_wmc (sl : seeds) (ps : list proof) (clk : N -> N) (t deadline : N) (cost : sddcost) : wres * N :=
  if negb (forallb (fun p => forallb (fun s => match lookup sl s with Some _ => true | None => false end) p) ps)
  then (WMissing, t)
  else
    let '(hit, t') := sdd_run (N.to_nat (fst cost)) clk t deadline in
    if hit then (WDeadline, t')
    else if snd cost then (WOk (qclamp (wmc_dnf sl ps) 0 1), t')
    else (WNodes, t').

(* ---------- metadata ---------- *)
Definition is_exclusive (sl : seeds) (s : N) : bool :=
  match lookup sl s with Some (_, Some _) => true | _ => false end.
Definition has_exclusive (sl : seeds) (a : arena) (root : N) : bool := existsb (is_exclusive sl) (seeds_of a root).
Definition all_known (sl : seeds) (a : arena) (root : N) : bool :=
  forallb (fun s => match lookup sl s with Some _ => true | None => false end) (seeds_of a root).

(* ---------- configuration ---------- *)
Record config := mk_config {
  threshold : Q; band : Q; gain_floor : Q;
  k_initial : N; k_max : N; k_growth : N;
  topk_budget : N; sdd_budget : N; node_budget : N }.

Definition validate (c : config) : bool :=
  qle 0 (threshold c) && qle (threshold c) 1
  && qle 0 (band c) && qle (band c) 1
  && qle 0 (gain_floor c)
  && negb (k_initial c =? 0) && (k_initial c <=? k_max c)
  && (2 <=? k_growth c)
  && negb (topk_budget c =? 0) && negb (sdd_budget c =? 0) && (2 <=? node_budget c).

(* ---------- results ---------- *)
Inductive decision := Alert | NoAlert.

Record metrics := mk_metrics {
  k_used : N; exact_used : bool; frontier_exhausted : bool; cap_hit : bool;
  marginal_gain : Q; topk_latency : N; sdd_latency : N; interval_width : Q }.
Definition metrics0 : metrics := mk_metrics 0 false false false 0 0 0 0.

Inductive result :=
| RExact (p : Q) (d : decision) (r : reason) (m : metrics)
| RBounded (lo hi : Q) (d : decision) (r : reason) (m : metrics)
| RNeedsExact (lo hi : option Q) (r : reason) (m : metrics)
| RFuel.                                   (* model artefact: recursion fuel exhausted *)

Definition decide (c : config) (p : Q) : decision := if qle (threshold c) p then Alert else NoAlert.

Definition set_topk_latency (m : metrics) (v : N) : metrics :=
  mk_metrics (k_used m) (exact_used m) (frontier_exhausted m) (cap_hit m) (marginal_gain m) v (sdd_latency m) (interval_width m).
Definition set_width (m : metrics) (v : Q) : metrics :=
  mk_metrics (k_used m) (exact_used m) (frontier_exhausted m) (cap_hit m) (marginal_gain m) (topk_latency m) (sdd_latency m) v.

(* Instant::saturating_duration_since *)
Definition since (now start : N) : N := now - start.

(* ---------- one top-k round (shared by evaluate_topk and the controller) ---------- *)
Record round := mk_round {
  r_wmc : Q; r_count : N; r_fe : bool; r_cap : bool; r_gain : Q; r_interval : ires; r_t : N }.

Inductive roundres :=
| RdOk (r : round)
| RdEnumErr (rs : reason) (t : N)          (* enumerate_proofs returned Err *)
| RdUnknown (t : N)                        (* residual Unknown: deadline during the search *)
| RdWmcFail (w : wres) (t : N)             (* retained_proof_wmc failed *)
| RdFuel.

Definition topk_round (fuel : nat) (a : arena) (sl : seeds) (root k deadline : N) (clk : N -> N) (orc : sddoracle) (t : N)
  : roundres :=
  match enumerate fuel a sl root (k + 1) deadline clk t with
  | (EFuel, _) => RdFuel
  | (EErr rs, t1) => RdEnumErr rs t1
  | (EOk ps ResUnknown, t1) => RdUnknown t1
  | (EOk ps res, t1) =>
      let rc := N.min (len ps) k in
      match retained_wmc sl (firstn (N.to_nat rc) ps) clk t1 deadline (orc 0 k) with
      | (WOk wmc, t2) =>
          let fe := (match res with ResExhausted => true | _ => false end) && (len ps <=? k) in
          let ch := (k <? len ps) || negb fe in
          let '(mg, t3) :=
            if k <? len ps then
              match retained_wmc sl (firstn (N.to_nat (k + 1)) ps) clk t2 deadline (orc 1 k) with
              | (WOk wp, t3) => (qmax (Qred (wp - wmc)) 0, t3)
              | (_, t3) => (0%Q, t3)
              end
            else (0%Q, t2) in
          RdOk (mk_round wmc rc fe ch mg (interval_from_enumeration sl wmc ps rc res) t3)
      | (w, t2) => RdWmcFail w t2
      end
  end.

(* ---------- evaluate_topk ---------- *)
Inductive topkres :=
| TkOk (lower lo hi : Q) (kused : N) (fe ch : bool) (mg : Q)
| TkErr (r : reason)
| TkFuel.

Definition evaluate_topk (fuel : nat) (a : arena) (sl : seeds) (root k budget : N) (clk : N -> N) (orc : sddoracle) : topkres :=
  if k =? 0 then TkErr DiagnosticOnly
  else
    let deadline := clk 0 + budget in
    if has_negation a root then TkErr NegationRequiresExact
    else if has_exclusive sl a root then TkErr ExclusivityRequiresExact
    else match topk_round fuel a sl root k deadline clk orc 1 with
         | RdFuel => TkFuel
         | RdEnumErr rs _ => TkErr rs
         | RdUnknown _ => TkErr TopKBudget
         | RdWmcFail WDeadline _ => TkErr TopKBudget
         | RdWmcFail WNodes _ => TkErr SddNodeBudget
         | RdWmcFail _ _ => TkErr MissingSeed
         | RdOk r =>
             match r_interval r with
             | IOk lo hi => TkOk (r_wmc r) lo hi (r_count r) (r_fe r) (r_cap r) (r_gain r)
             | INone => TkErr TopKBudget
             | IErr rs => TkErr rs
             end
         end.

(* ---------- compile_lineage_to_sdd_with_clock + wmc: the exact fallback ---------- *)
Inductive cres := COk (p : Q) | CErr (r : reason).

(* `exact` is the exact probability of the lineage (Spec); the real code obtains it from the SDD manager *)
Definition compile_exact (exact : Q) (sl : seeds) (a : arena) (root : N) (budget : N) (clk : N -> N) (t : N) (cost : sddcost)
  : cres * N :=
  let deadline := clk t + budget in
  let t := t + 1 in
  if negb (all_known sl a root) then (CErr MissingSeed, t)
  else
    let '(hit, t') := sdd_run (N.to_nat (fst cost)) clk t deadline in
    if hit then (CErr SddBudget, t')
    else if snd cost then (COk exact, t')
    else (CErr SddNodeBudget, t').

(* ---------- evaluate_hybrid_controlled ---------- *)
Inductive loopout :=
| LReturn (r : result)
| LBreak (lb : option Q) (li : option (Q * Q)) (m : metrics) (t : N)
| LFuel.

Fixpoint kloop (kf fuel : nat) (c : config) (a : arena) (sl : seeds) (root : N) (clk : N -> N) (orc : sddoracle)
         (t0 dl : N) (k t : N) (lb : option Q) (li : option (Q * Q)) (m : metrics) : loopout :=
  match kf with
  | O => LFuel
  | S kf' =>
      match topk_round fuel a sl root k dl clk orc t with
      | RdFuel => LFuel
      | RdEnumErr _ t1 => LBreak lb li m t1
      | RdUnknown t1 => LBreak lb li m t1
      | RdWmcFail _ t2 => LBreak lb li m t2
      | RdOk r =>
          let wmc := r_wmc r in
          let t3 := r_t r in
          let lb := Some wmc in
          let m := mk_metrics (r_count r) (exact_used m) (r_fe r) (r_cap r) (r_gain r) (topk_latency m) (sdd_latency m) (interval_width m) in
          match r_interval r with
          | IOk lo hi =>
              let li := Some (lo, hi) in
              let m := set_width m (Qred (hi - lo)) in
              if r_fe r then
                LReturn (RExact wmc (decide c wmc) TopKExhausted (set_topk_latency m (since (clk t3) t0)))
              else if qle (threshold c) wmc then
                LReturn (RBounded lo hi Alert LowerBoundCrossedThreshold (set_topk_latency m (since (clk t3) t0)))
              else if qlt hi (threshold c) then
                LReturn (RBounded lo hi NoAlert UpperBoundBelowThreshold (set_topk_latency m (since (clk t3) t0)))
              else
                let near := qle (qabs (Qred (threshold c - wmc))) (band c) in
                let climbing := qle (gain_floor c) (r_gain r) in
                if (k_max c <=? k) || (negb near && negb climbing) then LBreak lb li m t3
                else if dl <=? clk t3 then LBreak lb li m (t3 + 1)
                else kloop kf' fuel c a sl root clk orc t0 dl (N.min (k * k_growth c) (k_max c)) (t3 + 1) lb li m
          | _ => LBreak lb li m t3
          end
      end
  end.

(* ---------- what compile_lineage_to_sdd_with_clock hands to the SDD manager ---------- *)
(* a weighted Boolean variable: (id, (weight when true, weight when false)) *)
Definition wvar := (N * (Q * Q))%type.

(* weighted count of a Boolean function over a list of weighted variables (what `wmc` returns for an SDD
   denoting f over these variables - the SDD manager's contract, property C07) *)
Fixpoint wsumk (vars : list wvar) (k : world -> Q) (acc : world) : Q :=
  match vars with
  | [] => k acc
  | (v, (wt, wf)) :: r => (wt * wsumk r k (v :: acc) + wf * wsumk r k acc)%Q
  end.
Definition ind (b : bool) : Q := if b then 1%Q else 0%Q.
Definition wsum (vars : list wvar) (f : world -> bool) (acc : world) : Q := wsumk vars (fun a => ind (f a)) acc.

(* ensure_variable (independent: p, 1-p) / ensure_variable_weights(p, 1.0, ExclusiveGroup) *)
Definition var_of (r : seedrec) : wvar := (sid r, (sprob r, if is_indep r then (1 - sprob r)%Q else 1%Q)).

(* `groups`: the groups of the referenced seeds (a BTreeSet: ascending) *)
Definition referenced_groups (sl : seeds) (refs : list N) : list N :=
  filter (fun g => existsb (fun r => memN (sid r) refs) (members sl g)) (group_ids sl).
(* `expanded`: the referenced seeds and every member of their groups *)
Definition in_expanded (refs rgs : list N) (r : seedrec) : bool :=
  memN (sid r) refs || match sgroup r with Some g => memN g rgs | None => false end.

Record plan := mk_plan {
  p_vars : list wvar;                 (* the variables registered in the manager, with their weights *)
  p_constraints : list (list N) }.    (* one exactly-one constraint per referenced group: the choices it ranges over *)

Definition compile_plan (sl : seeds) (a : arena) (root : N) : plan :=
  let refs := seeds_of a root in
  let rgs := referenced_groups sl refs in
  mk_plan (map var_of (filter (in_expanded refs rgs) sl))
          (map (fun g => map sid (members sl g)) rgs).     (* seeds.group(group): ALL choices of the group *)

Definition exactly_one (w : world) (vars : list N) : bool := Nat.eqb (count_true w vars) 1.
(* the compiled root: lineage AND exactly_one(group) for every referenced group *)
Definition plan_formula (a : arena) (root : N) (p : plan) : world -> bool :=
  fun w => sem a root w && forallb (exactly_one w) (p_constraints p).
Definition plan_wmc (a : arena) (root : N) (p : plan) : Q := wsum (p_vars p) (plan_formula a root p) [].

(* the value the exact fallback obtains from the manager *)
Definition exact_probability (sl : seeds) (a : arena) (root : N) : Q :=
  Qred (plan_wmc a root (compile_plan sl a root)).

Definition evaluate_with (exact : Q) (kf fuel : nat) (c : config) (a : arena) (sl : seeds) (root : N) (clk : N -> N) (orc : sddoracle) : result :=
  if negb (validate c) then RNeedsExact None None DiagnosticOnly metrics0
  else
    let t0 := clk 0 in
    let dl := t0 + topk_budget c in
    let supported := negb (has_negation a root) && negb (has_exclusive sl a root) in
    let out := if supported then kloop kf fuel c a sl root clk orc t0 dl (k_initial c) 1 None None metrics0
               else LBreak None None metrics0 1 in
    match out with
    | LFuel => RFuel
    | LReturn r => r
    | LBreak lb li m t =>
        let m := set_topk_latency m (since (clk t) t0) in
        let sdd_start := clk (t + 1) in
        match compile_exact exact sl a root (sdd_budget c) clk (t + 2) (orc 2 0) with
        | (COk p, t') =>
            let p := qclamp p 0 1 in
            RExact p (decide c p) ExactSdd
                   (mk_metrics (k_used m) true (frontier_exhausted m) (cap_hit m) (marginal_gain m) (topk_latency m)
                               (since (clk t') sdd_start) 0)
        | (CErr rs, t') =>
            RNeedsExact (match li with Some (lo, _) => Some lo | None => lb end)
                        (match li with Some (_, hi) => Some hi | None => None end)
                        rs
                        (mk_metrics (k_used m) true (frontier_exhausted m) (cap_hit m) (marginal_gain m) (topk_latency m)
                                    (since (clk t') sdd_start) (interval_width m))
        end
    end.

Definition evaluate (kf fuel : nat) (c : config) (a : arena) (sl : seeds) (root : N) (clk : N -> N) (orc : sddoracle) : result :=
  evaluate_with (exact_probability sl a root) kf fuel c a sl root clk orc.
