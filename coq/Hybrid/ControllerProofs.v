(* Soundness of the interval, of one top-k round, of the escalation controller and of evaluate_topk,
   for every clock, every SDD oracle, every configuration. *)
Require Import List NArith QArith Bool Lia Lqa Permutation.
Require Import KV.Hybrid.Lineage KV.Hybrid.Spec KV.Hybrid.Model KV.Hybrid.SearchSpec
               KV.Hybrid.LineageProofs KV.Hybrid.BuildProofs KV.Hybrid.ProbProofs KV.Hybrid.SearchProofs
               KV.Hybrid.ExclusiveProofs.
Import ListNotations.
Open Scope Q_scope.

(* ---------- boolean comparisons ---------- *)
Lemma qle_iff : forall x y, qle x y = true <-> x <= y.
Proof. intros. unfold qle. apply Qle_bool_iff. Qed.

Lemma qle_false : forall x y, qle x y = false -> y < x.
Proof.
  intros x y H. apply Qnot_le_lt. intro Hle. apply qle_iff in Hle. congruence.
Qed.

Lemma qlt_iff : forall x y, qlt x y = true <-> x < y.
Proof.
  intros. unfold qlt. rewrite negb_true_iff. split.
  - intros H. apply qle_false. exact H.
  - intros H. destruct (Qle_bool y x) eqn:E; auto. apply Qle_bool_iff in E. lra.
Qed.

Lemma qlt_false : forall x y, qlt x y = false -> y <= x.
Proof.
  intros x y H. unfold qlt in H. rewrite negb_false_iff in H. apply Qle_bool_iff. exact H.
Qed.

Lemma qclamp_id : forall x lo hi, lo <= x -> x <= hi -> qclamp x lo hi == x.
Proof.
  intros x lo hi H1 H2. unfold qclamp.
  destruct (qlt x lo) eqn:E1; [apply qlt_iff in E1; lra|].
  destruct (qlt hi x) eqn:E2; [apply qlt_iff in E2; lra|]. reflexivity.
Qed.

Lemma qclamp_ge : forall P x lo, P <= 1 -> P <= x -> P <= qclamp x lo 1.
Proof.
  intros P x lo H1 H2. unfold qclamp.
  destruct (qlt x lo) eqn:E1; [apply qlt_iff in E1; lra|].
  destruct (qlt 1 x) eqn:E2; lra.
Qed.

Lemma qclamp01_cases : forall x, 0 <= x -> (x <= 1 /\ qclamp x 0 1 == x) \/ (1 < x /\ qclamp x 0 1 == 1).
Proof.
  intros x H. unfold qclamp.
  destruct (qlt x 0) eqn:E1; [apply qlt_iff in E1; lra|].
  destruct (qlt 1 x) eqn:E2.
  - apply qlt_iff in E2. right. split; [lra | reflexivity].
  - apply qlt_false in E2. left. split; [lra | reflexivity].
Qed.

(* ---------- probabilities of what the search returns ---------- *)
Section Snapshot.
Variable a : arena.
Variable sl : seeds.
Variable root : N.
Hypothesis Hwf : wf a = true.
Hypothesis Hnd : NoDup (ids sl).
Hypothesis Hok : probs_ok sl.

Let P := Prob sl (sem a root).

Lemma P_range : 0 <= P /\ P <= 1.
Proof. unfold P, Prob. split; [apply psum_nonneg | apply psum_le_1]; assumption. Qed.

Lemma Prob_mono : forall f g, (forall w, f w = true -> g w = true) -> Prob sl f <= Prob sl g.
Proof. intros. unfold Prob. apply psum_mono; assumption. Qed.

Lemma Prob_ext : forall f g, (forall w, f w = g w) -> Prob sl f == Prob sl g.
Proof. intros. unfold Prob. apply psum_ext; assumption. Qed.

Lemma Prob_or : forall f g, Prob sl (fun w => f w || g w) <= Prob sl f + Prob sl g.
Proof. intros. unfold Prob. apply psum_or_le; assumption. Qed.

Lemma Prob_nonneg : forall f, 0 <= Prob sl f.
Proof. intros. unfold Prob. apply psum_nonneg; assumption. Qed.

(* union bound over a list *)
Lemma Prob_existsb_le : forall {A} (g : A -> world -> bool) (l : list A),
  Prob sl (fun w => existsb (fun x => g x w) l) <= qsum (map (fun x => Prob sl (g x)) l).
Proof.
  intros A g. induction l as [|x l IH]; simpl.
  - unfold Prob. rewrite psum_false. lra.
  - eapply Qle_trans; [apply Prob_or|]. lra.
Qed.

Lemma st_holds_le : forall st, st_ok sl st -> Prob sl (st_holds a st) <= ub st.
Proof.
  intros st [Hs Hu]. rewrite Hu. rewrite <- (Prob_holds sl Hnd (prf st) (sorted_NoDup _ Hs)).
  apply Prob_mono. intros w H. unfold st_holds in H. apply andb_prop in H. tauto.
Qed.

Lemma frontier_le : forall frs, Forall (st_ok sl) frs ->
  Prob sl (fun w => existsb (fun st => st_holds a st w) frs) <= sum_ub frs.
Proof.
  intros frs Hall. rewrite sum_ub_qsum.
  eapply Qle_trans; [apply (Prob_existsb_le (st_holds a))|].
  induction Hall as [|st frs Hst Hall IH]; simpl; [lra|].
  pose proof (st_holds_le st Hst). lra.
Qed.

Lemma sum_ub_nonneg : forall frs, Forall (st_ok sl) frs -> 0 <= sum_ub frs.
Proof.
  intros frs Hall. rewrite sum_ub_qsum.
  induction Hall as [|st frs [Hs Hu] Hall IH]; simpl; [lra|].
  pose proof (cprod_range sl Hok (prf st)). rewrite Hu. lra.
Qed.

Lemma dnf_incl_mono : forall ps ps', incl ps' ps -> forall w, dnf ps' w = true -> dnf ps w = true.
Proof.
  intros ps ps' Hincl w H. unfold dnf in *. apply existsb_exists in H. destruct H as (p & Hin & Hp).
  apply existsb_exists. exists p. split; auto.
Qed.

(* every emitted proof entails the root *)
Lemma covers_lower : forall ps res, covers a root sl ps res ->
  forall ps', incl ps' ps -> Prob sl (dnf ps') <= P.
Proof.
  intros ps res (frs & Hcov & _) ps' Hincl. apply Prob_mono. intros w H.
  rewrite (Hcov w). rewrite (dnf_incl_mono ps ps' Hincl w H). reflexivity.
Qed.

Lemma covers_exhausted : forall ps, covers a root sl ps ResExhausted -> P == Prob sl (dnf ps).
Proof.
  intros ps (frs & Hcov & _ & _ & ->). apply Prob_ext. intros w. rewrite (Hcov w). simpl. apply orb_false_r.
Qed.

Lemma covers_upper : forall ps res, covers a root sl ps res ->
  exists frs, Forall (st_ok sl) frs /\ P <= Prob sl (dnf ps) + sum_ub frs /\
              match res with
              | ResExhausted => frs = []
              | ResBounded m => m == qclamp (sum_ub frs) 0 1
              | ResUnknown => True
              end.
Proof.
  intros ps res (frs & Hcov & Hall & _ & Hres). exists frs. repeat split; auto.
  unfold P. rewrite (Prob_ext _ _ Hcov).
  eapply Qle_trans; [apply Prob_or|]. pose proof (frontier_le frs Hall). lra.
Qed.

Lemma dnf_split : forall ps n w, dnf ps w = dnf (firstn n ps) w || dnf (skipn n ps) w.
Proof. intros. rewrite <- dnf_app, firstn_skipn. reflexivity. Qed.

Lemma probe_mass_spec : forall ps acc pm, probe_mass sl ps acc = Some pm ->
  Forall sorted ps -> Prob sl (dnf ps) + acc <= pm.
Proof.
  induction ps as [|p ps IH]; intros acc pm H Hs; simpl in H.
  - inversion H; subst. unfold dnf. simpl. unfold Prob. rewrite psum_false. lra.
  - destruct (proof_prob sl p) as [q|] eqn:Hq; [|discriminate].
    inversion Hs as [|? ? Hp Hs']; subst.
    apply IH in H; auto. rewrite Qred_correct in H.
    assert (Prob sl (dnf (p :: ps)) <= Prob sl (holds p) + Prob sl (dnf ps)).
    { unfold dnf. simpl. apply (Prob_or (holds p) (fun w => existsb (fun pr => holds pr w) ps)). }
    rewrite (Prob_holds sl Hnd p (sorted_NoDup _ Hp)) in H0.
    rewrite <- (proof_prob_cprod sl p q Hq) in H0. lra.
Qed.

Lemma firstn_incl : forall {A} n (l : list A), incl (firstn n l) l.
Proof. intros A n l x Hx. rewrite <- (firstn_skipn n l). apply in_or_app. left. assumption. Qed.

Lemma skipn_Forall : forall {A} (Q : A -> Prop) n l, Forall Q l -> Forall Q (skipn n l).
Proof.
  intros A Q n l H. rewrite <- (firstn_skipn n l) in H. apply Forall_app in H. tauto.
Qed.

(* ---------- interval_from_enumeration ---------- *)
Lemma interval_sound : forall ps res lower rc lo hi,
  covers a root sl ps res ->
  lower == Prob sl (dnf (firstn (N.to_nat rc) ps)) ->
  interval_from_enumeration sl lower ps rc res = IOk lo hi ->
  lo <= P /\ P <= hi.
Proof.
  intros ps res lower rc lo hi Hcov Hlow H.
  pose proof (covers_lower ps res Hcov _ (firstn_incl (N.to_nat rc) ps)) as Hlb.
  pose proof P_range as [HP0 HP1].
  destruct Hcov as (frs0 & Hc0 & Hall0 & Hsorted & Hres0).
  assert (Hcov : covers a root sl ps res) by (exists frs0; auto).
  destruct (covers_upper ps res Hcov) as (frs & Hall & Hup & Hres).
  unfold interval_from_enumeration in H.
  assert (Hlow0 : 0 <= lower) by (rewrite Hlow; apply Prob_nonneg).
  destruct res as [|m|]; [| |discriminate].
  - (* exhausted *)
    destruct (probe_mass sl (skipn (N.to_nat rc) ps) 0) as [pm|] eqn:Hpm; [|discriminate].
    apply probe_mass_spec in Hpm; [|apply skipn_Forall; assumption].
    match type of H with (if ?b then _ else _) = _ => destruct b; [|discriminate] end.
    inversion H; subst lo hi. split; [lra|].
    apply qclamp_ge; auto. rewrite Qred_correct.
    subst frs. simpl in Hup.
    assert (Prob sl (dnf ps) <= Prob sl (dnf (firstn (N.to_nat rc) ps)) + Prob sl (dnf (skipn (N.to_nat rc) ps))).
    { rewrite (Prob_ext _ _ (dnf_split ps (N.to_nat rc))). apply Prob_or. }
    lra.
  - (* bounded frontier *)
    destruct (probe_mass sl (skipn (N.to_nat rc) ps) 0) as [pm|] eqn:Hpm; [|discriminate].
    apply probe_mass_spec in Hpm; [|apply skipn_Forall; assumption].
    match type of H with (if ?b then _ else _) = _ => destruct b; [|discriminate] end.
    inversion H; subst lo hi. split; [lra|].
    apply qclamp_ge; auto. rewrite Qred_correct.
    assert (Prob sl (dnf ps) <= Prob sl (dnf (firstn (N.to_nat rc) ps)) + Prob sl (dnf (skipn (N.to_nat rc) ps))).
    { rewrite (Prob_ext _ _ (dnf_split ps (N.to_nat rc))). apply Prob_or. }
    pose proof (Prob_nonneg (dnf (skipn (N.to_nat rc) ps))).
    destruct (qclamp01_cases (sum_ub frs) (sum_ub_nonneg frs Hall)) as [[Hle Heq]|[Hgt Heq]];
      rewrite Heq in Hres; lra.
Qed.

End Snapshot.

(* ---------- one round, the controller ---------- *)
Section Controller.
Variable a : arena.
Variable sl : seeds.
Variable root : N.
Hypothesis Hwf : wf a = true.
Hypothesis Hnd : NoDup (ids sl).
Hypothesis Hok : probs_ok sl.

Let P := Prob sl (sem a root).

Lemma retained_wmc_ok : forall ps clk t dl cost v t',
  retained_wmc sl ps clk t dl cost = (WOk v, t') -> v == Prob sl (dnf ps).
Proof.
  intros ps clk t dl cost v t' H. unfold retained_wmc in H.
  destruct (negb _); [discriminate|].
  destruct (sdd_run _ clk t dl) as [hit t1].
  destruct hit; [discriminate|]. destruct (snd cost); [|discriminate].
  inversion H; subst.
  rewrite qclamp_id; rewrite (wmc_dnf_Prob sl Hnd ps).
  - reflexivity.
  - apply Prob_nonneg; assumption.
  - unfold Prob. apply psum_le_1; assumption.
Qed.

Lemma decide_sound : forall c p, p == P -> decision_sound (threshold c) P (decide c p).
Proof.
  intros c p Hp. unfold decide. destruct (qle (threshold c) p) eqn:E; simpl.
  - apply qle_iff in E. lra.
  - apply qle_false in E. lra.
Qed.

Lemma len_firstn_all : forall {A} (l : list A), firstn (N.to_nat (len l)) l = l.
Proof. intros. unfold len. rewrite Nat2N.id. apply firstn_all. Qed.

Definition round_ok (r : round) : Prop :=
  r_wmc r <= P /\ (r_fe r = true -> r_wmc r == P) /\
  (forall lo hi, r_interval r = IOk lo hi -> lo <= P /\ P <= hi).

Lemma round_sound : forall fuel k dl clk orc t r,
  topk_round fuel a sl root k dl clk orc t = RdOk r -> round_ok r.
Proof.
  intros fuel k dl clk orc t r H. unfold topk_round in H.
  destruct (enumerate fuel a sl root (k + 1) dl clk t) as [e t1] eqn:He.
  destruct e as [ps res| |]; try discriminate.
  pose proof (enumerate_sound _ _ _ _ _ _ _ _ _ _ _ Hwf He) as Hcov.
  assert (Hres : res <> ResUnknown) by (intro; subst; discriminate).
  set (rc := N.min (len ps) k) in *.
  assert (Hgen : forall X, match res with ResUnknown => RdUnknown t1 | _ => X end = RdOk r -> X = RdOk r).
  { intros X HX. destruct res; auto. contradiction. }
  assert (H' : match retained_wmc sl (firstn (N.to_nat rc) ps) clk t1 dl (orc 0%N k) with
               | (WOk wmc, t2) =>
                   let fe := (match res with ResExhausted => true | _ => false end) && (len ps <=? k)%N in
                   let ch := (k <? len ps)%N || negb fe in
                   let '(mg, t3) :=
                     if (k <? len ps)%N then
                       match retained_wmc sl (firstn (N.to_nat (k + 1)) ps) clk t2 dl (orc 1%N k) with
                       | (WOk wp, t3) => (qmax (Qred (wp - wmc)) 0, t3)
                       | (_, t3) => (0, t3)
                       end
                     else (0, t2) in
                   RdOk (mk_round wmc rc fe ch mg (interval_from_enumeration sl wmc ps rc res) t3)
               | (w, t2) => RdWmcFail w t2
               end = RdOk r).
  { destruct res; auto; try contradiction; try discriminate. }
  clear H Hgen.
  destruct (retained_wmc sl (firstn (N.to_nat rc) ps) clk t1 dl (orc 0%N k)) as [w t2] eqn:Hw.
  destruct w as [wmc| | |]; try discriminate.
  pose proof (retained_wmc_ok _ _ _ _ _ _ _ Hw) as Hwmc.
  cbv zeta in H'.
  assert (Hr : exists mg t3, r = mk_round wmc rc ((match res with ResExhausted => true | _ => false end) && (len ps <=? k)%N)
                                          ((k <? len ps)%N || negb ((match res with ResExhausted => true | _ => false end) && (len ps <=? k)%N))
                                          mg (interval_from_enumeration sl wmc ps rc res) t3).
  { destruct (k <? len ps)%N.
    - destruct (retained_wmc sl (firstn (N.to_nat (k + 1)) ps) clk t2 dl (orc 1%N k)) as [w2 t3].
      destruct w2; inversion H'; eauto.
    - inversion H'; eauto. }
  destruct Hr as (mg & t3 & ->). unfold round_ok. simpl.
  pose proof (covers_lower a sl root Hok ps res Hcov _ (firstn_incl (N.to_nat rc) ps)) as Hlb.
  fold P in Hlb.
  split; [lra|]. split.
  - intros Hfe. apply andb_prop in Hfe. destruct Hfe as [Hex Hlen].
    destruct res; try discriminate.
    apply N.leb_le in Hlen.
    assert (rc = len ps) by (unfold rc; lia).
    rewrite H in Hwmc. rewrite len_firstn_all in Hwmc.
    rewrite Hwmc. symmetry. apply (covers_exhausted a sl root ps Hcov).
  - intros lo hi Hi.
    apply (interval_sound a sl root Hnd Hok ps res wmc rc lo hi Hcov Hwmc Hi).
Qed.

Definition lb_ok (lb : option Q) : Prop := forall l, lb = Some l -> l <= P.
Definition li_ok (li : option (Q * Q)) : Prop := forall lo hi, li = Some (lo, hi) -> lo <= P /\ P <= hi.

Lemma kloop_sound : forall kf fuel c clk orc t0 dl k t lb li m,
  lb_ok lb -> li_ok li ->
  match kloop kf fuel c a sl root clk orc t0 dl k t lb li m with
  | LReturn r => result_sound (threshold c) P r
  | LBreak lb' li' _ _ => lb_ok lb' /\ li_ok li'
  | LFuel => True
  end.
Proof.
  induction kf as [|kf IH]; intros fuel c clk orc t0 dl k t lb li m Hlb Hli; simpl; [exact I|].
  destruct (topk_round fuel a sl root k dl clk orc t) as [r| | | |] eqn:Hr; auto.
  destruct (round_sound _ _ _ _ _ _ _ Hr) as (Hw & Hfe & Hiv).
  assert (Hlb' : lb_ok (Some (r_wmc r))) by (intros l E; inversion E; subst; exact Hw).
  destruct (r_interval r) as [lo hi| |] eqn:Hi; auto.
  destruct (Hiv lo hi eq_refl) as [Hlo Hhi].
  assert (Hli' : li_ok (Some (lo, hi))) by (intros x y E; inversion E; subst; auto).
  destruct (r_fe r) eqn:Efe.
  { simpl. split; [apply Hfe; reflexivity | apply decide_sound; apply Hfe; reflexivity]. }
  destruct (qle (threshold c) (r_wmc r)) eqn:Ethr.
  { simpl. apply qle_iff in Ethr. repeat split; auto. lra. }
  destruct (qlt hi (threshold c)) eqn:Ehi.
  { simpl. apply qlt_iff in Ehi. repeat split; auto. lra. }
  destruct ((k_max c <=? k)%N || _); auto.
  destruct (dl <=? clk (r_t r))%N; auto.
  apply IH; assumption.
Qed.

Lemma evaluate_with_sound : forall exact kf fuel c clk orc,
  exact == P ->
  result_sound (threshold c) P (evaluate_with exact kf fuel c a sl root clk orc).
Proof.
  intros exact kf fuel c clk orc Hex. unfold evaluate_with.
  destruct (negb (validate c)).
  { simpl. split; intros; discriminate. }
  set (out := if negb (has_negation a root) && negb (has_exclusive sl a root)
              then kloop kf fuel c a sl root clk orc (clk 0%N) (clk 0%N + topk_budget c)%N (k_initial c) 1%N None None metrics0
              else LBreak None None metrics0 1%N).
  assert (Hout : match out with
                 | LReturn r => result_sound (threshold c) P r
                 | LBreak lb' li' _ _ => lb_ok lb' /\ li_ok li'
                 | LFuel => True
                 end).
  { unfold out. destruct (negb (has_negation a root) && negb (has_exclusive sl a root)).
    - apply kloop_sound; intros ? ; intros; discriminate.
    - split; intros ?; intros; discriminate. }
  destruct out as [r|lb li m t|]; auto.
  destruct Hout as [Hlb Hli].
  destruct (compile_exact exact sl a root (sdd_budget c) clk (t + 2)%N (orc 2%N 0%N)) as [cr t'] eqn:Hc.
  destruct cr as [p|rs].
  - assert (p = exact).
    { unfold compile_exact in Hc. destruct (negb (all_known sl a root)); [discriminate|].
      destruct (sdd_run _ clk _ _) as [hit t1]. destruct hit; [discriminate|].
      destruct (snd (orc 2%N 0%N)); inversion Hc; reflexivity. }
    subst p. simpl.
    pose proof (P_range a sl root Hok) as [H0 H1]. fold P in H0, H1.
    assert (Hq : qclamp exact 0 1 == P) by (rewrite qclamp_id; lra).
    split; [exact Hq | apply decide_sound; exact Hq].
  - simpl. split.
    + intros l E. destruct li as [[lo hi]|].
      * inversion E; subst. destruct (Hli l hi eq_refl). assumption.
      * apply Hlb. assumption.
    + intros h E. destruct li as [[lo hi]|]; [|discriminate].
      inversion E; subst. destruct (Hli lo h eq_refl). assumption.
Qed.

End Controller.

(* ---------- packaged statements ---------- *)
Lemma seeds_valid_split : forall sl, seeds_valid sl -> NoDup (ids sl) /\ probs_ok sl.
Proof. intros sl [H1 H2]. split; assumption. Qed.

Lemma exact_probability_indep : forall sl a root,
  wf a = true -> NoDup (ids sl) ->
  has_exclusive sl a root = false -> exact_probability sl a root == Prob_node sl a root.
Proof.
  intros sl a root Hwf Hnd H. unfold exact_probability. rewrite Qred_correct.
  apply plan_wmc_indep; assumption.
Qed.

Lemma evaluate_sound : forall a sl root,
  wf a = true -> seeds_valid sl -> has_exclusive sl a root = false ->
  forall kf fuel c clk orc,
    result_sound (threshold c) (Prob_node sl a root) (evaluate kf fuel c a sl root clk orc).
Proof.
  intros a sl root Hwf Hv Hx kf fuel c clk orc. destruct (seeds_valid_split sl Hv) as [Hnd Hok].
  unfold evaluate. apply evaluate_with_sound; auto. apply exact_probability_indep; assumption.
Qed.

Lemma evaluate_topk_sound : forall a sl root,
  wf a = true -> seeds_valid sl ->
  forall fuel k budget clk orc lower lo hi ku fe ch mg,
    evaluate_topk fuel a sl root k budget clk orc = TkOk lower lo hi ku fe ch mg ->
    lower <= Prob_node sl a root /\ lo <= Prob_node sl a root /\ Prob_node sl a root <= hi
    /\ (fe = true -> lower == Prob_node sl a root).
Proof.
  intros a sl root Hwf Hv fuel k budget clk orc lower lo hi ku fe ch mg H.
  destruct (seeds_valid_split sl Hv) as [Hnd Hok].
  unfold evaluate_topk in H.
  destruct (k =? 0)%N; [discriminate|].
  destruct (has_negation a root); [discriminate|].
  destruct (has_exclusive sl a root); [discriminate|].
  destruct (topk_round fuel a sl root k (clk 0%N + budget)%N clk orc 1%N) as [r| | |w t|] eqn:Hr; try discriminate.
  2:{ destruct w; discriminate. }
  destruct (round_sound a sl root Hwf Hnd Hok _ _ _ _ _ _ _ Hr) as (Hw & Hfe & Hiv).
  destruct (r_interval r) as [lo' hi'| |] eqn:Hi; try discriminate.
  inversion H; subst. destruct (Hiv lo hi eq_refl) as [H1 H2].
  unfold Prob_node. repeat split; auto.
Qed.

(* a lineage that mentions a choice of an exclusive group: the top-k path is never taken; the result is the
   weighted count of the compiled plan, or NeedsExact without bounds *)
Lemma evaluate_exclusive : forall a sl root kf fuel c clk orc,
  has_exclusive sl a root = true ->
  (exists d m, evaluate kf fuel c a sl root clk orc
               = RExact (qclamp (exact_probability sl a root) 0 1) d ExactSdd m
               /\ d = decide c (qclamp (exact_probability sl a root) 0 1))
  \/ (exists rs m, evaluate kf fuel c a sl root clk orc = RNeedsExact None None rs m).
Proof.
  intros a sl root kf fuel c clk orc Hx. unfold evaluate, evaluate_with. rewrite Hx.
  destruct (negb (validate c)); [right; eauto|].
  rewrite andb_false_r.
  destruct (compile_exact _ sl a root (sdd_budget c) clk (1 + 2)%N (orc 2%N 0%N)) as [cr t'] eqn:Hc.
  destruct cr as [p|rs].
  - left. assert (p = exact_probability sl a root).
    { unfold compile_exact in Hc. destruct (negb (all_known sl a root)); [discriminate|].
      destruct (sdd_run _ clk _ _) as [hit t1]. destruct hit; [discriminate|].
      destruct (snd (orc 2%N 0%N)); inversion Hc; reflexivity. }
    subst p. eauto.
  - right. eauto.
Qed.

Lemma evaluate_topk_exclusive : forall fuel a sl root k budget clk orc,
  has_exclusive sl a root = true ->
  exists rs, evaluate_topk fuel a sl root k budget clk orc = TkErr rs.
Proof.
  intros fuel a sl root k budget clk orc Hx. unfold evaluate_topk.
  destruct (k =? 0)%N; [eauto|]. destruct (has_negation a root); [eauto|]. rewrite Hx. eauto.
Qed.

Lemma decide_sound_gen : forall c p P, p == P -> decision_sound (threshold c) P (decide c p).
Proof.
  intros c p P Hp. unfold decide. destruct (qle (threshold c) p) eqn:E; simpl.
  - apply qle_iff in E. lra.
  - apply qle_false in E. lra.
Qed.

(* a budget that is gone from the first reading: nothing is certified, the result asks for exact evaluation *)
Lemma sdd_run_expired : forall n clk t deadline, (deadline <=? clk t)%N = true -> sdd_run (S n) clk t deadline = (true, (t + 1)%N).
Proof. intros. simpl. rewrite H. reflexivity. Qed.

Lemma evaluate_expired : forall a sl root kf fuel c clk orc,
  validate c = true ->
  (clk 0 + topk_budget c <= clk 1)%N ->
  (forall i, clk i + sdd_budget c <= clk (i + 1))%N ->
  (1 <= fst (orc 2 0))%N ->
  exists rs m, evaluate (S kf) (S fuel) c a sl root clk orc = RNeedsExact None None rs m.
Proof.
  intros a sl root kf fuel c clk orc Hv Ht Hs Hc.
  unfold evaluate, evaluate_with. rewrite Hv. simpl negb. cbv iota.
  assert (Hcomp : forall exact t, exists rs t', compile_exact exact sl a root (sdd_budget c) clk t (orc 2%N 0%N) = (CErr rs, t')).
  { intros exact t. unfold compile_exact.
    destruct (negb (all_known sl a root)); [eauto|].
    destruct (N.to_nat (fst (orc 2%N 0%N))) as [|n] eqn:En; [lia|].
    rewrite sdd_run_expired; [eauto|]. apply N.leb_le. apply Hs. }
  destruct (negb (has_negation a root) && negb (has_exclusive sl a root)).
  - (* top-k: the first pop sees the expired deadline *)
    cbn [kloop]. unfold topk_round, enumerate.
    assert (Hk : (k_initial c + 1 =? 0)%N = false) by (apply N.eqb_neq; lia).
    rewrite Hk. cbn [enum_loop init_cfg fr]. 
    assert (He : (clk 0%N + topk_budget c <=? clk 1%N)%N = true) by (apply N.leb_le; exact Ht).
    rewrite He. cbn [step pop_best fr init_cfg].
    destruct (Hcomp (exact_probability sl a root) (1 + 1 + 2)%N) as (rs & t' & E). rewrite E. eauto.
  - destruct (Hcomp (exact_probability sl a root) (1 + 2)%N) as (rs & t' & E). rewrite E. eauto.
Qed.

(* ---------- formulas given by construction operations (no well-formedness hypothesis left) ---------- *)
Lemma result_sound_Qeq : forall thr P P' r, P == P' -> result_sound thr P r -> result_sound thr P' r.
Proof.
  intros thr P P' r E H. destruct r as [p d rs m|lo hi d rs m|lo hi rs m|]; simpl in *; auto.
  - destruct H as [H1 H2]. split; [rewrite <- E; assumption|]. destruct d; simpl in *; rewrite <- E; assumption.
  - destruct H as (H1 & H2 & H3). repeat split; try (rewrite <- E; assumption).
    destruct d; simpl in *; rewrite <- E; assumption.
  - destruct H as [H1 H2]. split; intros x Hx; rewrite <- E; auto.
Qed.

Definition ops_formula (ops : list bop) (rootref : N) : world -> bool :=
  fun w => ref_val (ops_vals w ops) rootref.

Lemma built_sem : forall ops rootref w,
  sem (fst (build ops)) (deref (snd (build ops)) rootref) w = ops_formula ops rootref w.
Proof.
  intros ops rootref w. destruct (build_spec ops w) as (Hwf & Hall & Hm).
  unfold ops_formula. rewrite <- Hm. apply deref_sem.
  split; [assumption|].
  (* the base of the arena is kept by construction *)
  assert (H0 : st_good w (arena0, []) []).
  { split; [apply good0|]. split; [constructor | reflexivity]. }
  destruct (build_fold_good w ops _ _ H0) as ([_ Hb] & _ & _). exact Hb.
Qed.

Lemma evaluate_built_sound : forall ops rootref sl,
  let a := fst (build ops) in
  let root := deref (snd (build ops)) rootref in
  seeds_valid sl -> has_exclusive sl a root = false ->
  forall kf fuel c clk orc,
    result_sound (threshold c) (Prob sl (ops_formula ops rootref)) (evaluate kf fuel c a sl root clk orc).
Proof.
  intros ops rootref sl a root Hv Hx kf fuel c clk orc.
  destruct (build_spec ops []) as (Hwf & _ & _).
  apply (result_sound_Qeq _ (Prob_node sl a root)).
  - unfold Prob_node, Prob. apply psum_ext. intros w. apply built_sem.
  - apply evaluate_sound; assumption.
Qed.

(* snapshots with exclusive groups: every result is sound for the possible-worlds probability ProbX_node *)
Lemma evaluate_sound_groups : forall a sl root,
  wf a = true -> snapshot_valid sl ->
  forall kf fuel c clk orc,
    result_sound (threshold c) (ProbX_node sl a root) (evaluate kf fuel c a sl root clk orc).
Proof.
  intros a sl root Hwf [Hv Hn] kf fuel c clk orc. destruct (seeds_valid_split sl Hv) as [Hnd Hok].
  destruct (has_exclusive sl a root) eqn:Hx.
  - (* a choice is mentioned: exact count of the compiled plan, or NeedsExact *)
    assert (He : exact_probability sl a root == ProbX_node sl a root).
    { unfold exact_probability. rewrite Qred_correct. apply plan_wmc_correct; assumption. }
    destruct (evaluate_exclusive a sl root kf fuel c clk orc Hx) as [(d & m & E & Ed)|(rs & m & E)]; rewrite E; simpl.
    + pose proof (ProbX_range sl Hok Hn (sem a root)) as [R0 R1]. fold (ProbX_node sl a root) in R0, R1.
      assert (Hq : qclamp (exact_probability sl a root) 0 1 == ProbX_node sl a root) by (rewrite qclamp_id; lra).
      split; [exact Hq|]. subst d. apply decide_sound_gen. exact Hq.
    + split; intros; discriminate.
  - apply (result_sound_Qeq _ (Prob_node sl a root)).
    + apply Prob_node_ProbX; assumption.
    + apply evaluate_sound; assumption.
Qed.

