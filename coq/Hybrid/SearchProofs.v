(* The search invariant of enumerate_proofs is preserved by every step, and what the search
   returns covers the root: root <-> emitted proofs or remaining frontier, in every world. *)
Require Import List NArith QArith Bool Lia Lqa Permutation.
Require Import KV.Hybrid.Lineage KV.Hybrid.Spec KV.Hybrid.Model KV.Hybrid.SearchSpec
               KV.Hybrid.LineageProofs KV.Hybrid.ProbProofs.
Import ListNotations.
Open Scope N_scope.

(* ---------- ins ---------- *)
Lemma sorted_ins : forall x l, sorted l -> sorted (ins x l).
Proof.
  induction l as [|z r IH]; intros Hs; simpl.
  - split; [intros y []|exact I].
  - destruct Hs as [Hz Hr].
    destruct (x <? z) eqn:H1.
    + apply N.ltb_lt in H1. split; [|split; assumption].
      intros y [<-|Hy]; auto. specialize (Hz y Hy). lia.
    + destruct (N.eqb_spec x z) as [->|H2].
      * split; assumption.
      * apply N.ltb_ge in H1. split; [|apply IH; assumption].
        intros y Hy. apply In_ins in Hy. destruct Hy as [->|Hy]; [lia | auto].
Qed.

Lemma sorted_NoDup : forall l, sorted l -> NoDup l.
Proof.
  induction l as [|x r IH]; intros Hs; [constructor|].
  destruct Hs as [Hx Hr]. constructor; auto.
  intro Hin. specialize (Hx x Hin). lia.
Qed.

Lemma holds_ins : forall x l w, holds (ins x l) w = memN x w && holds l w.
Proof.
  unfold holds. induction l as [|z r IH]; intros w; simpl.
  - reflexivity.
  - destruct (x <? z); [reflexivity|].
    destruct (N.eqb_spec x z) as [->|H2]; simpl.
    + destruct (memN z w); reflexivity.
    + rewrite IH. destruct (memN z w), (memN x w); reflexivity.
Qed.

Lemma subset_holds : forall e p w, subset e p = true -> holds p w = true -> holds e w = true.
Proof.
  unfold subset, holds. intros e p w He Hp. rewrite forallb_forall in *.
  intros s Hs. apply Hp. apply memN_In. apply He. assumption.
Qed.

(* ---------- pop_best ---------- *)
Lemma pop_best_perm : forall l b l', pop_best l = Some (b, l') -> Permutation l (b :: l').
Proof.
  induction l as [|x r IH]; intros b l' H; simpl in H; [discriminate|].
  destruct (pop_best r) as [[b0 r0]|] eqn:Hp.
  - specialize (IH b0 r0 eq_refl).
    destruct (better x b0).
    + inversion H; subst. apply Permutation_refl.
    + inversion H; subst. rewrite IH. apply perm_swap.
  - inversion H; subst. destruct r; [apply Permutation_refl | simpl in Hp; destruct (pop_best r); [destruct p; destruct (better s s0)|]; discriminate].
Qed.

Lemma pop_best_none : forall l, pop_best l = None -> l = [].
Proof.
  destruct l as [|x r]; auto. simpl. destruct (pop_best r) as [[b0 r0]|]; [destruct (better x b0)|]; discriminate.
Qed.

Lemma existsb_perm : forall {A} (f : A -> bool) l l', Permutation l l' -> existsb f l = existsb f l'.
Proof.
  intros A f l l' H. induction H; simpl; auto.
  - congruence.
  - destruct (f x), (f y); reflexivity.
  - congruence.
Qed.

(* ---------- sums of bounds ---------- *)
Definition qsum (l : list Q) : Q := fold_right Qplus 0%Q l.

Lemma sum_ub_qsum : forall l, (sum_ub l == qsum (map ub l))%Q.
Proof.
  induction l as [|s l IH]; simpl; [reflexivity|].
  etransitivity; [apply Qred_correct|]. rewrite IH. reflexivity.
Qed.

Lemma qsum_perm : forall l l', Permutation l l' -> (qsum l == qsum l')%Q.
Proof.
  intros l l' H. induction H; simpl.
  - reflexivity.
  - rewrite IHPermutation. reflexivity.
  - ring.
  - etransitivity; eauto.
Qed.

(* ---------- dnf ---------- *)
Lemma dnf_app : forall p1 p2 w, dnf (p1 ++ p2) w = dnf p1 w || dnf p2 w.
Proof. intros. unfold dnf. apply existsb_app. Qed.

Lemma dnf_subsumed : forall em p w,
  existsb (fun e => subset e p) em = true -> holds p w = true -> dnf em w = true.
Proof.
  intros em p w H Hp. unfold dnf. apply existsb_exists in H. destruct H as (e & Hin & He).
  apply existsb_exists. exists e. split; auto. eapply subset_holds; eauto.
Qed.

Lemma dnf_filter_sub : forall em p w,
  dnf em w || holds p w = dnf (filter (fun e => negb (subset p e)) em) w || holds p w.
Proof.
  intros em p w. unfold dnf. induction em as [|e em IH]; simpl; auto.
  destruct (subset p e) eqn:Hs; simpl.
  - rewrite <- IH. destruct (holds e w) eqn:He; simpl; auto.
    rewrite (subset_holds p e w Hs He). rewrite orb_true_r. reflexivity.
  - rewrite <- !orb_assoc. rewrite IH. reflexivity.
Qed.

(* ---------- or_branches ---------- *)
Lemma or_branches_holds : forall a cs rest pr u s w,
  existsb (fun st => st_holds a st w) (fst (or_branches cs rest pr u s))
  = holds pr w && (existsb (fun c => sem a c w) cs && forallb (fun c => sem a c w) rest).
Proof.
  induction cs as [|c cs IH]; intros rest pr u s w; simpl.
  - rewrite andb_false_r. reflexivity.
  - destruct (or_branches cs rest pr u (s + 1)) as [l s2] eqn:E. simpl.
    specialize (IH rest pr u (s + 1) w). rewrite E in IH. simpl in IH. rewrite IH.
    unfold st_holds. simpl.
    destruct (holds pr w), (sem a c w), (forallb (fun c0 => sem a c0 w) rest); simpl; auto;
      try (rewrite ?andb_false_r; reflexivity).
Qed.

Lemma or_branches_ok : forall sl cs rest pr u s,
  sorted pr -> (u == proof_product sl pr)%Q ->
  Forall (st_ok sl) (fst (or_branches cs rest pr u s)).
Proof.
  induction cs as [|c cs IH]; intros rest pr u s Hs Hu; simpl.
  - constructor.
  - destruct (or_branches cs rest pr u (s + 1)) as [l s2] eqn:E. simpl.
    constructor.
    + split; assumption.
    + specialize (IH rest pr u (s + 1) Hs Hu). rewrite E in IH. exact IH.
Qed.

(* ---------- one step ---------- *)
Lemma sem_at : forall a, wf a = true -> forall id w nd, node_at a id = nd -> sem a id w = sem_node a w nd.
Proof. intros a Hwf id w nd <-. apply sem_unfold. assumption. Qed.

Lemma step_sound : forall a sl root cap expired c,
  wf a = true -> search_inv a root c -> cfg_ok sl c ->
  match step a sl cap expired c with
  | SCont c' => search_inv a root c' /\ cfg_ok sl c'
  | SDone (EOk ps res) => covers a root sl ps res
  | SDone _ => True
  end.
Proof.
  intros a sl root cap expired c Hwf Hinv [Hfr Hem].
  unfold step.
  destruct (pop_best (fr c)) as [[st fr']|] eqn:Hpop.
  2:{ apply pop_best_none in Hpop. exists []. repeat split; auto.
      intros w. rewrite (Hinv w), Hpop. reflexivity. }
  pose proof (pop_best_perm _ _ _ Hpop) as Hperm.
  assert (Hinv' : forall w, sem a root w = dnf (em c) w || (st_holds a st w || existsb (fun s => st_holds a s w) fr')).
  { intros w. rewrite (Hinv w). rewrite (existsb_perm _ _ _ Hperm). reflexivity. }
  assert (Hall : Forall (st_ok sl) (st :: fr')) by (eapply Permutation_Forall; eauto).
  inversion Hall as [|? ? Hst Hfr']; subst.
  destruct expired.
  { exists (fr c). repeat split; auto. }
  destruct Hst as [Hsorted Hub].
  destruct (pending st) as [|next rest] eqn:Hpend.
  - (* a complete proof *)
    assert (Hsth : forall w, st_holds a st w = holds (prf st) w).
    { intros w. unfold st_holds. rewrite Hpend. simpl. apply andb_true_r. }
    destruct (existsb (fun e => subset e (prf st)) (em c)) eqn:Hsub.
    + split; [|split; assumption].
      intros w. simpl. rewrite (Hinv' w), Hsth.
      destruct (holds (prf st) w) eqn:Hh; simpl; auto.
      rewrite (dnf_subsumed _ _ _ Hsub Hh). reflexivity.
    + set (em' := filter (fun e => negb (subset (prf st) e)) (em c) ++ [prf st]).
      assert (Hcov : forall w, sem a root w = dnf em' w || existsb (fun s => st_holds a s w) fr').
      { intros w. rewrite (Hinv' w), Hsth. unfold em'. rewrite dnf_app.
        rewrite orb_assoc. rewrite dnf_filter_sub.
        unfold dnf at 3. simpl. rewrite orb_false_r. reflexivity. }
      assert (Hem' : Forall sorted em').
      { unfold em'. apply Forall_app. split.
        - apply Forall_forall. intros e He. apply filter_In in He. destruct He as [He _].
          rewrite Forall_forall in Hem. auto.
        - constructor; auto. }
      destruct (len em' =? cap).
      * exists fr'. repeat split; auto; reflexivity.
      * split; [exact Hcov | split; assumption].
  - (* expand the next pending node *)
    assert (Hsth : forall w, st_holds a st w = holds (prf st) w && (sem a next w && forallb (fun c0 => sem a c0 w) rest)).
    { intros w. unfold st_holds. rewrite Hpend. reflexivity. }
    destruct (node_at a next) as [| |seed|cs|cs|ch] eqn:Hnode.
    + (* False *)
      split; [|split; assumption].
      intros w. simpl. rewrite (Hinv' w), Hsth, (sem_at a Hwf next w _ Hnode). simpl.
      rewrite andb_false_r. reflexivity.
    + (* True *)
      split.
      * intros w. simpl. rewrite (Hinv' w), Hsth, (sem_at a Hwf next w _ Hnode). simpl.
        unfold st_holds. simpl. reflexivity.
      * split; auto. simpl. constructor; auto. split; assumption.
    + (* Literal *)
      destruct (proof_prob sl (ins seed (prf st))) as [q|] eqn:Hpp; [|exact I].
      split.
      * intros w. simpl. rewrite (Hinv' w), Hsth, (sem_at a Hwf next w _ Hnode). simpl.
        unfold st_holds. simpl. rewrite holds_ins.
        destruct (memN seed w), (holds (prf st) w); reflexivity.
      * split; auto. simpl. constructor; auto. split; simpl.
        -- apply sorted_ins. assumption.
        -- apply proof_prob_cprod. assumption.
    + (* And *)
      split.
      * intros w. simpl. rewrite (Hinv' w), Hsth, (sem_at a Hwf next w _ Hnode). simpl.
        unfold st_holds. simpl. rewrite forallb_app. reflexivity.
      * split; auto. simpl. constructor; auto. split; assumption.
    + (* Or *)
      destruct (or_branches cs rest (prf st) (ub st) (seqn c)) as [bs s'] eqn:Hbr.
      split.
      * intros w. simpl. rewrite (Hinv' w), Hsth, (sem_at a Hwf next w _ Hnode). simpl.
        rewrite existsb_app.
        pose proof (or_branches_holds a cs rest (prf st) (ub st) (seqn c) w) as Hb.
        rewrite Hbr in Hb. simpl in Hb. rewrite Hb. reflexivity.
      * split; auto. simpl. apply Forall_app. split; auto.
        pose proof (or_branches_ok sl cs rest (prf st) (ub st) (seqn c) Hsorted Hub) as Hb.
        rewrite Hbr in Hb. exact Hb.
    + (* Not *)
      exact I.
Qed.

(* ---------- the loop ---------- *)
Lemma enum_loop_sound : forall fuel a sl root cap deadline clk t c ps res t',
  wf a = true -> search_inv a root c -> cfg_ok sl c ->
  enum_loop fuel a sl cap deadline clk t c = (EOk ps res, t') ->
  covers a root sl ps res.
Proof.
  induction fuel as [|f IH]; intros a sl root cap deadline clk t c ps res t' Hwf Hinv Hok H; simpl in H.
  - discriminate.
  - destruct (fr c) as [|s0 fr0] eqn:Hfr.
    + inversion H; subst. exists []. destruct Hok as [_ Hem]. repeat split; auto.
      intros w. rewrite (Hinv w), Hfr. reflexivity.
    + pose proof (step_sound a sl root cap (deadline <=? clk t) c Hwf Hinv Hok) as Hs.
      destruct (step a sl cap (deadline <=? clk t) c) as [c'|r].
      * destruct Hs as [Hinv' Hok']. eapply IH; eauto.
      * inversion H; subst. exact Hs.
Qed.

Lemma init_inv : forall a root, search_inv a root (init_cfg root).
Proof.
  intros a root w. unfold init_cfg, st_holds, dnf, holds. simpl.
  rewrite andb_true_r, orb_false_r. reflexivity.
Qed.

Lemma init_ok : forall sl root, cfg_ok sl (init_cfg root).
Proof.
  intros. split; simpl; constructor; auto. split; simpl; [exact I | reflexivity].
Qed.

Lemma enumerate_sound : forall fuel a sl root cap deadline clk t ps res t',
  wf a = true ->
  enumerate fuel a sl root cap deadline clk t = (EOk ps res, t') ->
  covers a root sl ps res.
Proof.
  intros fuel a sl root cap deadline clk t ps res t' Hwf H. unfold enumerate in H.
  destruct (cap =? 0).
  - inversion H; subst. exists (fr (init_cfg root)).
    pose proof (init_inv a root) as Hi. pose proof (init_ok sl root) as [Ho1 Ho2].
    repeat split; auto; reflexivity.
  - eapply enum_loop_sound; eauto using init_inv, init_ok.
Qed.
