(* Probability lemmas: the world sum is monotone, sub-additive, bounded by 1; the probability of a
   conjunction of distinct independent seeds is the product of their probabilities; the Shannon
   expansion `wmc_dnf` of the model computes the probability of a DNF of proofs. *)
Require Import List NArith QArith Bool Lia Lqa.
Require Import KV.Hybrid.Lineage KV.Hybrid.Spec KV.Hybrid.Model KV.Hybrid.LineageProofs.
Import ListNotations.
Open Scope Q_scope.
Global Arguments Qred : simpl never.

Definition probs_ok (sl : seeds) : Prop := Forall (fun r => 0 <= sprob r /\ sprob r <= 1) sl.

(* ---------- congruence ---------- *)
Lemma psum_rel : forall sl f g (R : world -> world -> Prop),
  (forall a1 a2 x, In x (ids sl) -> R a1 a2 -> R (x :: a1) (x :: a2)) ->
  (forall a1 a2, R a1 a2 -> f a1 = g a2) ->
  forall a1 a2, R a1 a2 -> psum sl f a1 == psum sl g a2.
Proof.
  induction sl as [|r rest IH]; intros f g R Hcons Hfg a1 a2 HR; simpl.
  - rewrite (Hfg a1 a2 HR). reflexivity.
  - assert (Hc' : forall a1 a2 x, In x (ids rest) -> R a1 a2 -> R (x :: a1) (x :: a2)).
    { intros. apply Hcons; simpl; auto. }
    rewrite (IH f g R Hc' Hfg (sid r :: a1) (sid r :: a2)) by (apply Hcons; simpl; auto).
    rewrite (IH f g R Hc' Hfg a1 a2 HR). reflexivity.
Qed.

Lemma psum_ext : forall sl f g acc, (forall w, f w = g w) -> psum sl f acc == psum sl g acc.
Proof.
  intros. apply (psum_rel sl f g eq); auto; intros; subst; auto.
Qed.

Lemma psum_false : forall sl acc, psum sl (fun _ => false) acc == 0.
Proof.
  induction sl as [|r rest IH]; intros; simpl; [reflexivity|].
  rewrite !IH. ring.
Qed.

Lemma psum_true : forall sl acc, psum sl (fun _ => true) acc == 1.
Proof.
  induction sl as [|r rest IH]; intros; simpl; [reflexivity|].
  rewrite !IH. ring.
Qed.

(* ---------- order ---------- *)
Lemma psum_nonneg : forall sl, probs_ok sl -> forall f acc, 0 <= psum sl f acc.
Proof.
  induction sl as [|r rest IH]; intros Hok f acc; simpl.
  - destruct (f acc); lra.
  - inversion Hok as [|? ? [H0 H1] Hok']; subst.
    pose proof (IH Hok' f (sid r :: acc)). pose proof (IH Hok' f acc). nra.
Qed.

Lemma psum_mono : forall sl, probs_ok sl -> forall f g,
  (forall w, f w = true -> g w = true) -> forall acc, psum sl f acc <= psum sl g acc.
Proof.
  induction sl as [|r rest IH]; intros Hok f g Hfg acc; simpl.
  - specialize (Hfg acc). destruct (f acc), (g acc); try lra.
    all: try (exfalso; specialize (Hfg eq_refl); discriminate).
  - inversion Hok as [|? ? [H0 H1] Hok']; subst.
    pose proof (IH Hok' f g Hfg (sid r :: acc)). pose proof (IH Hok' f g Hfg acc). nra.
Qed.

Lemma psum_or_le : forall sl, probs_ok sl -> forall f g acc,
  psum sl (fun w => f w || g w) acc <= psum sl f acc + psum sl g acc.
Proof.
  induction sl as [|r rest IH]; intros Hok f g acc; simpl.
  - destruct (f acc), (g acc); simpl; lra.
  - inversion Hok as [|? ? [H0 H1] Hok']; subst.
    pose proof (IH Hok' f g (sid r :: acc)). pose proof (IH Hok' f g acc). nra.
Qed.

Lemma psum_le_1 : forall sl, probs_ok sl -> forall f acc, psum sl f acc <= 1.
Proof.
  intros. rewrite <- (psum_true sl acc). apply psum_mono; auto.
Qed.

(* ---------- independence ---------- *)
Definition indep_of (s : N) (g : world -> bool) : Prop :=
  forall w1 w2, (forall x, x <> s -> memN x w1 = memN x w2) -> g w1 = g w2.

Notation pq := seed_p.

Lemma ids_cons : forall r rest, ids (r :: rest) = sid r :: ids rest.
Proof. reflexivity. Qed.

Lemma psum_indep_cons : forall rest g s acc, indep_of s g ->
  psum rest g (s :: acc) == psum rest g acc.
Proof.
  intros rest g s acc Hg.
  apply (psum_rel rest g g (fun a1 a2 => forall x, x <> s -> memN x a1 = memN x a2)).
  - intros a1 a2 x _ HR y Hy. simpl. rewrite (HR y Hy). reflexivity.
  - intros a1 a2 HR. apply Hg. assumption.
  - intros x Hx. simpl. destruct (N.eqb_spec x s); [contradiction | reflexivity].
Qed.

Lemma psum_lit : forall sl, NoDup (ids sl) -> forall s g acc,
  ~ In s acc -> indep_of s g ->
  psum sl (fun w => memN s w && g w) acc == pq sl s * psum sl g acc.
Proof.
  induction sl as [|r rest IH]; intros Hnd s g acc Hacc Hg.
  - simpl. apply memN_false_iff in Hacc. rewrite Hacc. simpl. unfold pq. simpl. ring.
  - rewrite ids_cons in Hnd. inversion Hnd as [|? ? Hnotin Hnd']; subst.
    cbn [psum]. unfold pq. cbn [lookup].
    destruct (N.eqb_spec (sid r) s) as [Heq|Hne].
    + (* this entry is the seed s *)
      subst s.
      assert (H1 : psum rest (fun w => memN (sid r) w && g w) (sid r :: acc) == psum rest g acc).
      { apply (psum_rel rest _ g (fun a1 a2 => memN (sid r) a1 = true /\ forall x, x <> sid r -> memN x a1 = memN x a2)).
        - intros a1 a2 x _ [Ht HR]. split.
          + simpl. rewrite Ht. destruct (sid r =? x)%N; reflexivity.
          + intros y Hy. simpl. rewrite (HR y Hy). reflexivity.
        - intros a1 a2 [Ht HR]. rewrite Ht. simpl. apply Hg. assumption.
        - split.
          + simpl. rewrite N.eqb_refl. reflexivity.
          + intros x Hx. simpl. destruct (N.eqb_spec x (sid r)); [contradiction | reflexivity]. }
      assert (H2 : psum rest (fun w => memN (sid r) w && g w) acc == 0).
      { rewrite <- (psum_false rest acc).
        apply (psum_rel rest _ _ (fun a1 a2 => memN (sid r) a1 = false)).
        - intros a1 a2 x Hx HR. simpl. rewrite HR.
          destruct (N.eqb_spec (sid r) x); [subst x; contradiction | reflexivity].
        - intros a1 a2 HR. rewrite HR. reflexivity.
        - apply memN_false_iff. assumption. }
      rewrite H1, H2. rewrite (psum_indep_cons rest g (sid r) acc Hg).
      destruct (snd r) as [p grp] eqn:Hr. unfold sprob. rewrite Hr. simpl. ring.
    + assert (Hacc' : ~ In s (sid r :: acc)) by (simpl; intros [?|?]; auto).
      rewrite (IH Hnd' s g (sid r :: acc) Hacc' Hg).
      rewrite (IH Hnd' s g acc Hacc Hg).
      unfold pq. ring.
Qed.

Notation cprod := proof_product.

Lemma holds_indep : forall pr s, ~ In s pr -> indep_of s (holds pr).
Proof.
  intros pr s Hnotin w1 w2 H. unfold holds. apply forallb_ext_in.
  intros x Hx. apply H. intro; subst; contradiction.
Qed.

Lemma psum_holds : forall sl, NoDup (ids sl) -> forall pr, NoDup pr -> forall acc,
  (forall s, In s pr -> ~ In s acc) ->
  psum sl (holds pr) acc == cprod sl pr.
Proof.
  intros sl Hnd. induction pr as [|s pr IH]; intros Hpr acc Hacc.
  - simpl. apply psum_true.
  - inversion Hpr as [|? ? Hnotin Hpr']; subst.
    assert (E : forall w, holds (s :: pr) w = memN s w && holds pr w) by reflexivity.
    rewrite (psum_ext sl _ _ acc E).
    rewrite (psum_lit sl Hnd s (holds pr) acc).
    + rewrite IH; auto. reflexivity. intros; apply Hacc; simpl; auto.
    + apply Hacc; simpl; auto.
    + apply holds_indep; assumption.
Qed.

Lemma Prob_holds : forall sl, NoDup (ids sl) -> forall pr, NoDup pr -> Prob sl (holds pr) == cprod sl pr.
Proof. intros. unfold Prob. apply psum_holds; auto. Qed.

Lemma pq_range : forall sl, probs_ok sl -> forall s, 0 <= pq sl s /\ pq sl s <= 1.
Proof.
  unfold pq. induction sl as [|r rest IH]; intros Hok s; simpl.
  - lra.
  - inversion Hok as [|? ? Hr Hok']; subst.
    destruct (sid r =? s)%N.
    + destruct r as [i [p g]]. simpl in *. unfold sprob in Hr. simpl in Hr. exact Hr.
    + apply IH; assumption.
Qed.

Lemma cprod_range : forall sl, probs_ok sl -> forall pr, 0 <= cprod sl pr /\ cprod sl pr <= 1.
Proof.
  intros sl Hok. induction pr as [|s pr IH]; simpl.
  - lra.
  - pose proof (pq_range sl Hok s). nra.
Qed.

(* the model's proof_probability *)
Lemma proof_prob_fold : forall sl pr x q,
  fold_left (fun acc id => match acc, lookup sl id with
                           | Some x, Some (p, _) => Some (Qred (x * p))
                           | _, _ => None
                           end) pr (Some x) = Some q ->
  q == x * cprod sl pr /\ forall s, In s pr -> lookup sl s <> None.
Proof.
  induction pr as [|s pr IH]; intros x q H; simpl in *.
  - inversion H; subst. split; [ring | tauto].
  - destruct (lookup sl s) as [[p g]|] eqn:Hl.
    + apply IH in H. destruct H as [H1 H2]. split.
      * rewrite H1. rewrite (Qred_correct (x * p)). unfold pq. rewrite Hl. ring.
      * intros s' [<-|Hs']; [congruence | auto].
    + exfalso. clear -H. induction pr; simpl in H; [discriminate | auto].
Qed.

Lemma proof_prob_cprod : forall sl pr q, proof_prob sl pr = Some q -> q == cprod sl pr.
Proof.
  intros sl pr q H. unfold proof_prob in H. apply proof_prob_fold in H. destruct H as [H _].
  rewrite H. ring.
Qed.

(* ---------- Shannon expansion of a DNF of proofs ---------- *)
Lemma existsb_map : forall {A B} (f : B -> bool) (g : A -> B) l, existsb f (map g l) = existsb (fun x => f (g x)) l.
Proof. induction l; simpl; congruence. Qed.

Lemma holds_remove : forall s pr a1 a2,
  (forall x, memN x a1 = (x =? s)%N || memN x a2) ->
  holds pr a1 = holds (remove_seed s pr) a2.
Proof.
  intros s pr a1 a2 H. unfold holds, remove_seed. induction pr as [|x pr IH]; simpl; auto.
  rewrite H. destruct (x =? s)%N; simpl; auto. rewrite IH. reflexivity.
Qed.

Lemma holds_without : forall s pr a, memN s a = false -> memN s pr = true -> holds pr a = false.
Proof.
  intros s pr a Ha. unfold holds. induction pr as [|x pr IH]; simpl; intros H; [discriminate|].
  destruct (N.eqb_spec s x) as [->|Hne].
  - rewrite Ha. reflexivity.
  - rewrite IH by assumption. apply andb_false_r.
Qed.

Lemma dnf_filter_without : forall s ps a, memN s a = false ->
  dnf ps a = dnf (filter (fun p => negb (memN s p)) ps) a.
Proof.
  intros s ps a Ha. unfold dnf. induction ps as [|pr ps IH]; simpl; auto.
  destruct (memN s pr) eqn:Hm; simpl.
  - rewrite (holds_without s pr a Ha Hm). simpl. exact IH.
  - rewrite IH. reflexivity.
Qed.

Lemma existsb_is_nil_dnf : forall ps w, existsb is_nil ps = true -> dnf ps w = true.
Proof.
  unfold dnf, holds. induction ps as [|pr ps IH]; simpl; intros w H; [discriminate|].
  destruct pr; simpl in *; auto. rewrite IH by assumption. apply orb_true_r.
Qed.

Lemma dnf_fresh_false : forall ps acc, existsb is_nil ps = false ->
  (forall pr s, In pr ps -> In s pr -> ~ In s acc) -> dnf ps acc = false.
Proof.
  unfold dnf. induction ps as [|pr ps IH]; simpl; intros acc Hn Hf; auto.
  apply orb_false_elim in Hn. destruct Hn as [Hn1 Hn2].
  rewrite IH; auto. 2:{ intros; eapply Hf; eauto. }
  destruct pr as [|s pr]; [discriminate|].
  unfold holds. simpl.
  assert (memN s acc = false) as ->.
  { apply memN_false_iff. eapply Hf; [left; reflexivity | left; reflexivity]. }
  reflexivity.
Qed.

Lemma wmc_dnf_unfold : forall sl ps,
  wmc_dnf sl ps =
  if existsb is_nil ps then 1
  else if is_nil ps then 0
  else match sl with
       | [] => 0
       | r :: rest =>
           Qred (sprob r * wmc_dnf rest (map (remove_seed (sid r)) ps)
                 + (1 - sprob r) * wmc_dnf rest (filter (fun p => negb (memN (sid r) p)) ps))
       end.
Proof. destruct sl; reflexivity. Qed.

Lemma wmc_dnf_correct : forall sl, NoDup (ids sl) -> forall ps acc,
  (forall pr s, In pr ps -> In s pr -> ~ In s acc) ->
  (forall s, In s (ids sl) -> ~ In s acc) ->
  wmc_dnf sl ps == psum sl (dnf ps) acc.
Proof.
  induction sl as [|r rest IH]; intros Hnd ps acc Hfresh Hacc; rewrite wmc_dnf_unfold.
  - destruct (existsb is_nil ps) eqn:Hn.
    + simpl. rewrite existsb_is_nil_dnf by assumption. reflexivity.
    + destruct ps as [|pr ps']; simpl is_nil; cbv iota.
      * reflexivity.
      * cbn [psum]. rewrite (dnf_fresh_false (pr :: ps') acc Hn Hfresh). reflexivity.
  - rewrite ids_cons in Hnd. inversion Hnd as [|? ? Hnotin Hnd']; subst.
    destruct (existsb is_nil ps) eqn:Hn.
    + rewrite (psum_ext _ (dnf ps) (fun _ => true)) by (intros; apply existsb_is_nil_dnf; assumption).
      rewrite psum_true. reflexivity.
    + destruct ps as [|pr0 ps0].
      * simpl is_nil. cbv iota.
        rewrite (psum_ext _ (dnf []) (fun _ => false)) by reflexivity.
        rewrite psum_false. reflexivity.
      * simpl is_nil. cbv iota. remember (pr0 :: ps0) as ps eqn:Eps. clear Eps pr0 ps0.
        etransitivity; [apply Qred_correct|]. cbn [psum].
        assert (Ha : psum rest (dnf ps) (sid r :: acc) == psum rest (dnf (map (remove_seed (sid r)) ps)) acc).
        { apply (psum_rel rest _ _ (fun a1 a2 => forall x, memN x a1 = (x =? sid r)%N || memN x a2)).
          - intros a1 a2 x _ HR y. simpl. rewrite HR.
            destruct (y =? x)%N, (y =? sid r)%N; reflexivity.
          - intros a1 a2 HR. unfold dnf. rewrite existsb_map. apply existsb_ext_in.
            intros pr _. apply holds_remove. assumption.
          - intros x. simpl. reflexivity. }
        assert (Hb : psum rest (dnf ps) acc == psum rest (dnf (filter (fun p => negb (memN (sid r) p)) ps)) acc).
        { apply (psum_rel rest _ _ (fun a1 a2 => a1 = a2 /\ memN (sid r) a1 = false)).
          - intros a1 a2 x Hx [-> HR]. split; auto. simpl. rewrite HR.
            destruct (N.eqb_spec (sid r) x); [subst x; contradiction | reflexivity].
          - intros a1 a2 [-> HR]. apply dnf_filter_without. assumption.
          - split; auto. apply memN_false_iff. apply Hacc. simpl. auto. }
        rewrite Ha, Hb.
        rewrite <- (IH Hnd' (map (remove_seed (sid r)) ps) acc).
        rewrite <- (IH Hnd' (filter (fun p => negb (memN (sid r) p)) ps) acc).
        reflexivity.
        -- intros pr s Hin Hs. apply filter_In in Hin. destruct Hin as [Hin _]. eapply Hfresh; eauto.
        -- intros s Hs. apply Hacc. simpl. auto.
        -- intros pr s Hin Hs. apply in_map_iff in Hin. destruct Hin as (pr0 & <- & Hin0).
           unfold remove_seed in Hs. apply filter_In in Hs. destruct Hs as [Hs _]. eapply Hfresh; eauto.
        -- intros s Hs. apply Hacc. simpl. auto.
Qed.

Lemma wmc_dnf_Prob : forall sl, NoDup (ids sl) -> forall ps, wmc_dnf sl ps == Prob sl (dnf ps).
Proof. intros. unfold Prob. apply wmc_dnf_correct; auto. Qed.
