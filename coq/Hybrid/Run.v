(* Entry points for the correspondence check: run the model on a case and render every output as
   numbers / lists / tuples (printed by `Eval vm_compute`). *)
Require Import List NArith ZArith QArith Bool.
Require Import KV.Hybrid.Lineage KV.Hybrid.Spec KV.Hybrid.Model.
Import ListNotations.
Open Scope N_scope.

Definition rq (q : Q) : Z * N := let r := Qred q in (Qnum r, Npos (Qden r)).
Definition rqo (q : option Q) : list (Z * N) := match q with Some x => [rq x] | None => [] end.
Definition rb (b : bool) : N := if b then 1 else 0.

Definition rnode (nd : node) : N * list N :=
  match nd with
  | NFalse => (0, [])
  | NTrue => (1, [])
  | NLit s => (2, [s])
  | NAnd cs => (3, cs)
  | NOr cs => (4, cs)
  | NNot c => (5, [c])
  end.

Definition rreason (r : reason) : N :=
  match r with
  | TopKExhausted => 0 | LowerBoundCrossedThreshold => 1 | UpperBoundBelowThreshold => 2 | ExactSdd => 3
  | NegationRequiresExact => 4 | ExclusivityRequiresExact => 5 | NearThreshold => 6 | MarginalGain => 7
  | TopKBudget => 8 | SddBudget => 9 | SddNodeBudget => 10 | MissingSeed => 11 | DiagnosticOnly => 12
  end.

Definition rdec (d : decision) : N := match d with Alert => 0 | NoAlert => 1 end.

Definition rmetrics (m : metrics) :=
  (k_used m, rb (exact_used m), rb (frontier_exhausted m), rb (cap_hit m), rq (marginal_gain m),
   topk_latency m, sdd_latency m, rq (interval_width m)).

Definition rresult (r : result) :=
  match r with
  | RExact p d rs m => (0, rdec d, rreason rs, [[rq p]], rmetrics m)
  | RBounded lo hi d rs m => (1, rdec d, rreason rs, [[rq lo]; [rq hi]], rmetrics m)
  | RNeedsExact lo hi rs m => (2, 2, rreason rs, [rqo lo; rqo hi], rmetrics m)
  | RFuel => (9, 9, 99, [], rmetrics metrics0)
  end.

Definition BIG : N := 10000000000.
(* the injected clocks of harness/src/bin/c08.rs (values in ns relative to the base instant) *)
Definition clk_of (spec : N * N * N) : N -> N :=
  let '(mode, n, v) := spec in
  fun i =>
    match mode with
    | 1 => if i <? n then i else i + BIG * (i - n + 1)
    | 2 => if i <? n then i else i + BIG
    | 3 => if i <? n then i else v
    | _ => i
    end.
Definition clk_list (l : list N) : N -> N :=
  fun i => if i <? len l then nth (N.to_nat i) l 0 else last l 0 + (i - len l + 1).

Definition orc_of (tbl : list (N * (sddcost * sddcost))) (ccost : sddcost) : sddoracle :=
  fun kind k =>
    if kind =? 2 then ccost
    else match find (fun e => fst e =? k) tbl with
         | Some (_, (r, p)) => if kind =? 0 then r else p
         | None => (0, true)
         end.

Definition KF : nat := 80%nat.
Definition FUEL : nat := N.to_nat 200000.

Definition run_eval (c : config) (ops : list bop) (rootref : N) (sl : seeds)
           (tbl : list (N * (sddcost * sddcost))) (ccost : sddcost)
           (clocks : list (N * N * N)) (lists : list (list N)) :=
  let '(a, idl) := build ops in
  let root := deref idl rootref in
  let exact := exact_probability sl a root in
  let orc := orc_of tbl ccost in
  (map rnode a, idl, root,
   (rb (has_negation a root), rb (has_exclusive sl a root), rb (wf a)),
   (rq exact, rq (ProbX_node sl a root), p_constraints (compile_plan sl a root)),
   map (fun spec => rresult (evaluate_with exact KF FUEL c a sl root (clk_of spec) orc)) clocks,
   map (fun l => rresult (evaluate_with exact KF FUEL c a sl root (clk_list l) orc)) lists).

Definition rres (r : residual) : N * (Z * N) :=
  match r with
  | ResExhausted => (0, rq 0)
  | ResBounded m => (1, rq m)
  | ResUnknown => (2, rq 0)
  end.

Definition renum (x : eres * N) :=
  match x with
  | (EOk ps r, t) => (0, ps, rres r, t)
  | (EErr rs, t) => (1, [], (rreason rs, rq 0), t)
  | (EFuel, t) => (9, [], (0, rq 0), t)
  end.

(* enumerate_proofs with deadline 10^9 under clock `spec`, readings counted from 0 *)
Definition run_enum (ops : list bop) (rootref : N) (sl : seeds) (cap : N) (specs : list (N * N * N)) :=
  let '(a, idl) := build ops in
  let root := deref idl rootref in
  map (fun spec => renum (enumerate FUEL a sl root cap 1000000000 (clk_of spec) 0)) specs.

Definition rires (i : ires) :=
  match i with
  | IOk lo hi => (0, [rq lo; rq hi])
  | INone => (1, [])
  | IErr r => (2 + rreason r, [])
  end.

Definition run_interval (sl : seeds) (lower : Q) (ps : list proof) (retained : N) (kind : N) (mass : Q) :=
  rires (interval_from_enumeration sl lower ps retained
           (match kind with 0 => ResExhausted | 1 => ResBounded mass | _ => ResUnknown end)).

Definition rtopk (t : topkres) :=
  match t with
  | TkOk lower lo hi ku fe ch mg => (0, [rq lower; rq lo; rq hi; rq mg], (ku, rb fe, rb ch))
  | TkErr r => (1 + rreason r, [], (0, 0, 0))
  | TkFuel => (99, [], (0, 0, 0))
  end.

Definition run_topk (ops : list bop) (rootref : N) (sl : seeds) (tbl : list (N * (sddcost * sddcost))) (ks : list N) :=
  let '(a, idl) := build ops in
  let root := deref idl rootref in
  map (fun k => rtopk (evaluate_topk FUEL a sl root k 20000000000 (fun i => i) (orc_of tbl (0, true)))) ks.

Definition run_wmc (sl : seeds) (ps : list proof) := rq (wmc_dnf sl ps).
