(* Specification side of C08: truth of a lineage node in a world, and the probability of a
   Boolean function of the seeds as a weighted sum over all worlds.
   A world is the list of seeds that are true; seeds absent from the snapshot are false in every world
   (as in the repository's own brute-force oracle). *)
Require Import List NArith QArith Bool.
Require Import KV.Hybrid.Lineage.
Import ListNotations.
Open Scope N_scope.

Definition world := list N.

(* truth table of the whole arena in world w, bottom-up (children precede parents) *)
Definition eval_node (w : world) (vals : list bool) (nd : node) : bool :=
  match nd with
  | NFalse => false
  | NTrue => true
  | NLit s => memN s w
  | NAnd cs => forallb (fun c => nth (N.to_nat c) vals false) cs
  | NOr cs => existsb (fun c => nth (N.to_nat c) vals false) cs
  | NNot c => negb (nth (N.to_nat c) vals false)
  end.

Definition eval_arena (w : world) (a : arena) : list bool :=
  fold_left (fun vals nd => vals ++ [eval_node w vals nd]) a [].

Definition sem (a : arena) (id : N) (w : world) : bool := nth (N.to_nat id) (eval_arena w a) false.

(* seeds of a snapshot: (id, (probability, exclusive group)) *)
Definition seedrec := (N * (Q * option N))%type.
Definition seeds := list seedrec.
Definition sid (r : seedrec) : N := fst r.
Definition sprob (r : seedrec) : Q := fst (snd r).
Definition sgroup (r : seedrec) : option N := snd (snd r).
Definition ids (sl : seeds) : list N := map sid sl.

(* `seeds.record(id)` *)
Fixpoint lookup (sl : seeds) (s : N) : option (Q * option N) :=
  match sl with
  | [] => None
  | r :: rest => if sid r =? s then Some (snd r) else lookup rest s
  end.

(* probability of a seed (absent seeds are never true) and product over a set of seeds *)
Definition seed_p (sl : seeds) (s : N) : Q :=
  match lookup sl s with Some (p, _) => p | None => 0%Q end.
Definition proof_product (sl : seeds) (pr : list N) : Q := fold_right (fun s acc => (seed_p sl s * acc)%Q) 1%Q pr.

(* Independent seeds: sum over all worlds of the product weight, of the indicator of f *)
Fixpoint psum (sl : seeds) (f : world -> bool) (acc : world) : Q :=
  match sl with
  | [] => if f acc then 1 else 0
  | r :: rest => sprob r * psum rest f (sid r :: acc) + (1 - sprob r) * psum rest f acc
  end.

Definition Prob (sl : seeds) (f : world -> bool) : Q := psum sl f [].

(* P(root) for independent seeds *)
Definition Prob_node (sl : seeds) (a : arena) (root : N) : Q := Prob sl (sem a root).

(* validity of a snapshot: distinct ids, probabilities in [0,1] (SeedRegistry::validate_probability, BTreeMap keys) *)
Definition seeds_valid (sl : seeds) : Prop :=
  NoDup (ids sl) /\ Forall (fun r => 0 <= sprob r /\ sprob r <= 1)%Q sl.

(* Exclusive groups (annotated disjunctions), as compile_lineage_to_sdd_with_clock encodes them:
   only the seeds the formula refers to and the other members of their groups take part; a member of an
   exclusive group weighs p when true and 1 when false, and exactly one member of every referenced
   group is true. *)
Definition in_group (g : N) (r : seedrec) : bool :=
  match sgroup r with Some g' => g' =? g | None => false end.

Definition relevant (sl : seeds) (referenced : list N) : seeds :=
  filter (fun r => memN (sid r) referenced
                   || match sgroup r with
                      | Some g => existsb (fun r' => memN (sid r') referenced && in_group g r') sl
                      | None => false
                      end) sl.

Fixpoint psum_x (sl : seeds) (f : world -> bool) (acc : world) : Q :=
  match sl with
  | [] => if f acc then 1 else 0
  | r :: rest =>
      sprob r * psum_x rest f (sid r :: acc)
      + (match sgroup r with Some _ => 1 | None => 1 - sprob r end) * psum_x rest f acc
  end.

Definition count_true (w : world) (members : list N) : nat := length (filter (fun s => memN s w) members).

Definition groups_ok (sl : seeds) (referenced : list N) (w : world) : bool :=
  forallb (fun r => match sgroup r with
                    | Some g => if memN (sid r) referenced
                                then Nat.eqb (count_true w (map sid (filter (in_group g) sl))) 1
                                else true
                    | None => true
                    end) sl.

Definition ProbX_node (sl : seeds) (a : arena) (root : N) : Q :=
  let referenced := seeds_of a root in
  psum_x (relevant sl referenced) (fun w => sem a root w && groups_ok sl referenced w) [].

(* a proof (set of seeds) holds in a world when all its seeds are true; a list of proofs is read as a DNF *)
Definition holds (pr : list N) (w : world) : bool := forallb (fun s => memN s w) pr.
Definition dnf (ps : list (list N)) (w : world) : bool := existsb (fun pr => holds pr w) ps.

(* meaning of a sequence of construction operations, computed directly (no arena): value of every
   operation's result in world w *)
Definition ref_val (vals : list bool) (r : N) : bool :=
  if r =? 0 then false else if r =? 1 then true else nth (N.to_nat (r - 2)) vals false.
Definition op_val (w : world) (vals : list bool) (o : bop) : bool :=
  match o with
  | OLit s => memN s w
  | ONot r => negb (ref_val vals r)
  | OAnd rs => forallb (ref_val vals) rs
  | OOr rs => existsb (ref_val vals) rs
  end.
Definition ops_vals (w : world) (ops : list bop) : list bool :=
  fold_left (fun vals o => vals ++ [op_val w vals o]) ops [].
