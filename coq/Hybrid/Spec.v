(* Specification side of C08: truth of a lineage node in a world, and the probability of a
   Boolean function of the seeds as a weighted sum over all worlds.
   A world is the list of seeds that are true; seeds absent from the snapshot are false in every world
   (as in the repository's own brute-force oracle). *)
Require Import List NArith QArith Bool.
Require Import KV.Hybrid.Lineage.
Import ListNotations.
Open Scope N_scope.

Definition world := list N.

(* truth table of the whole arena in world w, bottom-up (children precede parents) *)
Definition eval_node (w : world) (vals : list bool) (nd : node) : bool :=
  match nd with
  | NFalse => false
  | NTrue => true
  | NLit s => memN s w
  | NAnd cs => forallb (fun c => nth (N.to_nat c) vals false) cs
  | NOr cs => existsb (fun c => nth (N.to_nat c) vals false) cs
  | NNot c => negb (nth (N.to_nat c) vals false)
  end.

Definition eval_arena (w : world) (a : arena) : list bool :=
  fold_left (fun vals nd => vals ++ [eval_node w vals nd]) a [].

Definition sem (a : arena) (id : N) (w : world) : bool := nth (N.to_nat id) (eval_arena w a) false.

(* seeds of a snapshot: (id, (probability, exclusive group)) *)
Definition seedrec := (N * (Q * option N))%type.
Definition seeds := list seedrec.
Definition sid (r : seedrec) : N := fst r.
Definition sprob (r : seedrec) : Q := fst (snd r).
Definition sgroup (r : seedrec) : option N := snd (snd r).
Definition ids (sl : seeds) : list N := map sid sl.

(* `seeds.record(id)` *)
Fixpoint lookup (sl : seeds) (s : N) : option (Q * option N) :=
  match sl with
  | [] => None
  | r :: rest => if sid r =? s then Some (snd r) else lookup rest s
  end.

(* probability of a seed (absent seeds are never true) and product over a set of seeds *)
Definition seed_p (sl : seeds) (s : N) : Q :=
  match lookup sl s with Some (p, _) => p | None => 0%Q end.
Definition proof_product (sl : seeds) (pr : list N) : Q := fold_right (fun s acc => (seed_p sl s * acc)%Q) 1%Q pr.

(* Independent seeds: sum over all worlds of the product weight, of the indicator of f *)
Fixpoint psum (sl : seeds) (f : world -> bool) (acc : world) : Q :=
  match sl with
  | [] => if f acc then 1 else 0
  | r :: rest => sprob r * psum rest f (sid r :: acc) + (1 - sprob r) * psum rest f acc
  end.

Definition Prob (sl : seeds) (f : world -> bool) : Q := psum sl f [].

(* P(root) for independent seeds *)
Definition Prob_node (sl : seeds) (a : arena) (root : N) : Q := Prob sl (sem a root).

(* validity of a snapshot: distinct ids, probabilities in [0,1] (SeedRegistry::validate_probability, BTreeMap keys) *)
Definition seeds_valid (sl : seeds) : Prop :=
  NoDup (ids sl) /\ Forall (fun r => 0 <= sprob r /\ sprob r <= 1)%Q sl.

(* Exclusive groups (annotated disjunctions) - the possible-worlds semantics:
   every independent seed is a Bernoulli variable; in every exclusive group EXACTLY ONE choice is true,
   choice r with probability sprob r.  A world is drawn by picking one choice per group and a truth value
   per independent seed; its weight is the product; P(f) is the sum of the weights of the worlds where f holds.
   (This is a probability distribution when every group's probabilities sum to 1: `groups_normalised`.) *)
Definition in_group (g : N) (r : seedrec) : bool :=
  match sgroup r with Some g' => g' =? g | None => false end.
Definition is_indep (r : seedrec) : bool := match sgroup r with None => true | Some _ => false end.
Definition indep_seeds (sl : seeds) : seeds := filter is_indep sl.
Definition members (sl : seeds) (g : N) : seeds := filter (in_group g) sl.
(* the group identifiers of a snapshot, ascending, without repetition *)
Definition group_ids (sl : seeds) : list N :=
  sort_dedup (flat_map (fun r => match sgroup r with Some g => [g] | None => [] end) sl).

(* sum over one choice per group of gs, then continuation k on the chosen world *)
Fixpoint csum (sl : seeds) (gs : list N) (k : world -> Q) (acc : world) : Q :=
  match gs with
  | [] => k acc
  | g :: rest => fold_right (fun r s => (sprob r * csum sl rest k (sid r :: acc) + s)%Q) 0%Q (members sl g)
  end.

Definition ProbX (sl : seeds) (f : world -> bool) : Q :=
  csum sl (group_ids sl) (fun acc => psum (indep_seeds sl) f acc) [].

(* P(root) for a snapshot with exclusive groups; equals Prob_node when the snapshot has no group *)
Definition ProbX_node (sl : seeds) (a : arena) (root : N) : Q := ProbX sl (sem a root).

Definition group_total (sl : seeds) (g : N) : Q := fold_right (fun r s => (sprob r + s)%Q) 0%Q (members sl g).
Definition groups_normalised (sl : seeds) : Prop := forall g, In g (group_ids sl) -> (group_total sl g == 1)%Q.
Definition snapshot_valid (sl : seeds) : Prop := seeds_valid sl /\ groups_normalised sl.

Definition count_true (w : world) (vars : list N) : nat := length (filter (fun s => memN s w) vars).

(* a proof (set of seeds) holds in a world when all its seeds are true; a list of proofs is read as a DNF *)
Definition holds (pr : list N) (w : world) : bool := forallb (fun s => memN s w) pr.
Definition dnf (ps : list (list N)) (w : world) : bool := existsb (fun pr => holds pr w) ps.

(* meaning of a sequence of construction operations, computed directly (no arena): value of every
   operation's result in world w *)
Definition ref_val (vals : list bool) (r : N) : bool :=
  if r =? 0 then false else if r =? 1 then true else nth (N.to_nat (r - 2)) vals false.
Definition op_val (w : world) (vals : list bool) (o : bop) : bool :=
  match o with
  | OLit s => memN s w
  | ONot r => negb (ref_val vals r)
  | OAnd rs => forallb (ref_val vals) rs
  | OOr rs => existsb (ref_val vals) rs
  end.
Definition ops_vals (w : world) (ops : list bop) : list bool :=
  fold_left (fun vals o => vals ++ [op_val w vals o]) ops [].
