(* C08 - Hybrid probability results never certify a wrong decision.
   This file contains only the property theorems; each is closed by `exact <lemma>` and followed
   by Print Assumptions.  The lemmas live in LineageProofs.v, ProbProofs.v, SearchProofs.v,
   ControllerProofs.v; the notions used in the statements are defined in Spec.v (worlds, `sem`, `Prob`,
   `Prob_node`, `holds`, `dnf`) and SearchSpec.v (`st_holds`, `search_inv`, `covers`, `result_sound`).

   Reading guide.  `a` is a lineage arena (LineageStore), `wf a` says children precede parents (what the
   store's API guarantees), `sl` a seed snapshot, `clk : N -> N` an ARBITRARY clock (reading number ->
   instant), `orc` an ARBITRARY SDD oracle (for every SDD computation: how many budget checkpoints it
   makes and whether it then succeeds or exceeds the node budget), `c` any configuration (thresholds,
   band, k schedule, time budgets, node budget), `kf`/`fuel` recursion fuel of the model (a result
   `RFuel` is the model running out of fuel and carries no claim). *)
Require Import List NArith QArith Bool.
Require Import KV.Hybrid.Lineage KV.Hybrid.Spec KV.Hybrid.Model KV.Hybrid.SearchSpec
               KV.Hybrid.LineageProofs KV.Hybrid.BuildProofs KV.Hybrid.ProbProofs KV.Hybrid.SearchProofs KV.Hybrid.ControllerProofs
               KV.Hybrid.TerminationProofs KV.Hybrid.ExclusiveProofs.
Import ListNotations.
Open Scope Q_scope.

(* (1) The search invariant.  In every world: root <-> (some emitted proof holds) or (some frontier state
   holds, i.e. its partial proof and all its pending nodes are true).  Every step of the loop of
   enumerate_proofs - whatever the deadline test answers - preserves it, and a step that ends the loop
   returns proofs and a residual that `covers` the root. *)
Theorem C08_search_invariant :
  forall a sl root cap expired c,
    wf a = true -> search_inv a root c -> cfg_ok sl c ->
    match step a sl cap expired c with
    | SCont c' => search_inv a root c' /\ cfg_ok sl c'
    | SDone (EOk ps res) => covers a root sl ps res
    | SDone _ => True
    end.
Proof. exact step_sound. Qed.
Print Assumptions C08_search_invariant.

(* ... hence whatever enumerate_proofs returns, at any cap, deadline, clock and starting time, covers the root *)
Theorem C08_enumerate_covers :
  forall fuel a sl root cap deadline clk t ps res t',
    wf a = true ->
    enumerate fuel a sl root cap deadline clk t = (EOk ps res, t') ->
    covers a root sl ps res.
Proof. exact enumerate_sound. Qed.
Print Assumptions C08_enumerate_covers.

(* (2) The interval computed from retained proofs + probe + frontier bounds contains P(root) (union bound,
   independent seeds). *)
Theorem C08_interval_from_enumeration :
  forall a sl root, wf a = true -> seeds_valid sl ->
  forall ps res lower rc lo hi,
    covers a root sl ps res ->
    lower == Prob sl (dnf (firstn (N.to_nat rc) ps)) ->
    interval_from_enumeration sl lower ps rc res = IOk lo hi ->
    lo <= Prob_node sl a root /\ Prob_node sl a root <= hi.
Proof.
  intros a sl root Hwf [Hnd Hok]. exact (interval_sound a sl root Hnd Hok).
Qed.
Print Assumptions C08_interval_from_enumeration.

(* the exact count of the retained proofs (what retained_proof_wmc obtains from the SDD manager) *)
Theorem C08_retained_wmc_exact :
  forall sl, seeds_valid sl -> forall ps, wmc_dnf sl ps == Prob sl (dnf ps).
Proof. intros sl [Hnd _]. exact (wmc_dnf_Prob sl Hnd). Qed.
Print Assumptions C08_retained_wmc_exact.

(* The master statement: for every lineage formula over independent seeds, every configuration, every clock
   and every SDD oracle, what evaluate_hybrid_controlled returns is sound:
     Exact p            -> p = P(root), and the decision agrees with the threshold
     Bounded [lo,hi] d  -> lo <= P(root) <= hi, Alert -> P(root) >= threshold, NoAlert -> P(root) < threshold
     NeedsExact lo hi   -> the optional bounds still hold; no decision. *)
Theorem C08_sound :
  forall a sl root,
    wf a = true -> seeds_valid sl -> has_exclusive sl a root = false ->
    forall kf fuel c clk orc,
      result_sound (threshold c) (Prob_node sl a root) (evaluate kf fuel c a sl root clk orc).
Proof. exact evaluate_sound. Qed.
Print Assumptions C08_sound.

(* The clauses of the property, one by one. *)
Theorem C08_exact :
  forall a sl root, wf a = true -> seeds_valid sl -> has_exclusive sl a root = false ->
  forall kf fuel c clk orc p d r m,
    evaluate kf fuel c a sl root clk orc = RExact p d r m -> p == Prob_node sl a root.
Proof.
  intros a sl root Hwf Hv Hx kf fuel c clk orc p d r m E.
  pose proof (evaluate_sound a sl root Hwf Hv Hx kf fuel c clk orc) as H. rewrite E in H. exact (proj1 H).
Qed.
Print Assumptions C08_exact.

Theorem C08_interval :
  forall a sl root, wf a = true -> seeds_valid sl -> has_exclusive sl a root = false ->
  forall kf fuel c clk orc lo hi d r m,
    evaluate kf fuel c a sl root clk orc = RBounded lo hi d r m ->
    lo <= Prob_node sl a root /\ Prob_node sl a root <= hi.
Proof.
  intros a sl root Hwf Hv Hx kf fuel c clk orc lo hi d r m E.
  pose proof (evaluate_sound a sl root Hwf Hv Hx kf fuel c clk orc) as H. rewrite E in H.
  destruct H as (H1 & H2 & _). split; assumption.
Qed.
Print Assumptions C08_interval.

Definition decision_of (r : result) : option decision :=
  match r with
  | RExact _ d _ _ | RBounded _ _ d _ _ => Some d
  | _ => None
  end.

Theorem C08_alert :
  forall a sl root, wf a = true -> seeds_valid sl -> has_exclusive sl a root = false ->
  forall kf fuel c clk orc,
    decision_of (evaluate kf fuel c a sl root clk orc) = Some Alert ->
    threshold c <= Prob_node sl a root.
Proof.
  intros a sl root Hwf Hv Hx kf fuel c clk orc E.
  pose proof (evaluate_sound a sl root Hwf Hv Hx kf fuel c clk orc) as H.
  destruct (evaluate kf fuel c a sl root clk orc); simpl in *; try discriminate; inversion E; subst.
  - exact (proj2 H).
  - exact (proj2 (proj2 H)).
Qed.
Print Assumptions C08_alert.

Theorem C08_noalert :
  forall a sl root, wf a = true -> seeds_valid sl -> has_exclusive sl a root = false ->
  forall kf fuel c clk orc,
    decision_of (evaluate kf fuel c a sl root clk orc) = Some NoAlert ->
    Prob_node sl a root < threshold c.
Proof.
  intros a sl root Hwf Hv Hx kf fuel c clk orc E.
  pose proof (evaluate_sound a sl root Hwf Hv Hx kf fuel c clk orc) as H.
  destruct (evaluate kf fuel c a sl root clk orc); simpl in *; try discriminate; inversion E; subst.
  - exact (proj2 H).
  - exact (proj2 (proj2 H)).
Qed.
Print Assumptions C08_noalert.

(* (4) Budgets.  For ANY clock and ANY outcome of the SDD computations (deadline hit at any checkpoint, node
   budget exceeded, or success) the result is Exact / Bounded with the guarantees above, or NeedsExact whose
   optional bounds still contain P(root) and which carries no decision - never a guessed decision. *)
Theorem C08_budget :
  forall a sl root, wf a = true -> seeds_valid sl -> has_exclusive sl a root = false ->
  forall kf fuel c (clk : N -> N) (orc : sddoracle),
    match evaluate kf fuel c a sl root clk orc with
    | RExact p d _ _ => p == Prob_node sl a root /\ decision_sound (threshold c) (Prob_node sl a root) d
    | RBounded lo hi d _ _ =>
        lo <= Prob_node sl a root /\ Prob_node sl a root <= hi /\ decision_sound (threshold c) (Prob_node sl a root) d
    | RNeedsExact lo hi _ _ =>
        (forall l, lo = Some l -> l <= Prob_node sl a root) /\ (forall h, hi = Some h -> Prob_node sl a root <= h)
    | RFuel => True
    end.
Proof. exact evaluate_sound. Qed.
Print Assumptions C08_budget.

(* ... and when the time budget is gone from the very first reading (every reading is later than the previous
   one by at least the budgets) and the SDD computation needs at least one checkpoint, the result IS NeedsExact
   without bounds: the controller does not guess. *)
Theorem C08_budget_expired :
  forall a sl root kf fuel c clk orc,
    validate c = true ->
    (clk 0 + topk_budget c <= clk 1)%N ->
    (forall i, clk i + sdd_budget c <= clk (i + 1))%N ->
    (1 <= fst (orc 2 0))%N ->
    exists rs m, evaluate (S kf) (S fuel) c a sl root clk orc = RNeedsExact None None rs m.
Proof. exact evaluate_expired. Qed.
Print Assumptions C08_budget_expired.

(* Fuel is a device of the model only: with fuel above `search_bound a root` (computed bottom-up from the arena:
   d(root)+s(root), TerminationProofs.v) for the search and above k_max for the k-loop, the model never answers
   RFuel - every step of the search lowers a measure of the frontier, every round of the loop raises k. *)
Theorem C08_terminates :
  forall kf fuel c a sl root clk orc,
    wf a = true ->
    (N.to_nat (search_bound a root) < fuel)%nat -> (N.to_nat (k_max c) < kf)%nat ->
    evaluate kf fuel c a sl root clk orc <> RFuel.
Proof. exact evaluate_terminates. Qed.
Print Assumptions C08_terminates.

(* An invalid configuration never yields a number or a decision. *)
Theorem C08_invalid_config :
  forall kf fuel c a sl root clk orc,
    validate c = false ->
    evaluate kf fuel c a sl root clk orc = RNeedsExact None None DiagnosticOnly metrics0.
Proof. intros. unfold evaluate, evaluate_with. rewrite H. reflexivity. Qed.
Print Assumptions C08_invalid_config.

(* evaluate_topk (fixed k): the interval contains P(root); an exhausted frontier makes the lower bound exact *)
Theorem C08_topk :
  forall a sl root, wf a = true -> seeds_valid sl ->
  forall fuel k budget clk orc lower lo hi ku fe ch mg,
    evaluate_topk fuel a sl root k budget clk orc = TkOk lower lo hi ku fe ch mg ->
    lower <= Prob_node sl a root /\ lo <= Prob_node sl a root /\ Prob_node sl a root <= hi
    /\ (fe = true -> lower == Prob_node sl a root).
Proof. exact evaluate_topk_sound. Qed.
Print Assumptions C08_topk.

(* (5) Exclusive groups (annotated disjunctions).  Spec: `ProbX_node` (Spec.v) - possible worlds are drawn by picking
   exactly ONE choice in every group, choice r with probability `sprob r`, and a truth value for every independent seed;
   P(root) is the sum of the weights of the worlds where the root holds.  `snapshot_valid` = distinct ids, probabilities
   in [0,1], every group's probabilities sum to 1.

   `compile_plan` (Model.v) is what compile_lineage_to_sdd_with_clock hands to the SDD manager: the referenced seeds and
   ALL members of their groups as variables (weights (p, 1-p) for independent seeds, (p, 1) for choices), the lineage, and
   for every referenced group one exactly-one constraint whose range `p_constraints` is ALL choices of the group.
   The weighted count of that formula over those variables is P(root).  (That the manager returns exactly this weighted
   count is property C07; it is the SDD oracle here.) *)
Theorem C08_compile_plan_exact :
  forall a sl root,
    wf a = true -> snapshot_valid sl ->
    plan_wmc a root (compile_plan sl a root) == ProbX_node sl a root.
Proof.
  intros a sl root Hwf [[Hnd _] Hn]. exact (plan_wmc_correct a sl root Hwf Hnd Hn).
Qed.
Print Assumptions C08_compile_plan_exact.

(* ProbX_node extends the independent-seed probability: when the lineage mentions no choice of any group they agree *)
Theorem C08_probx_extends_prob :
  forall a sl root,
    wf a = true -> snapshot_valid sl -> has_exclusive sl a root = false ->
    Prob_node sl a root == ProbX_node sl a root.
Proof.
  intros a sl root Hwf [[Hnd _] Hn] Hx. exact (Prob_node_ProbX a sl root Hwf Hnd Hn Hx).
Qed.
Print Assumptions C08_probx_extends_prob.

(* The master statement for snapshots WITH exclusive groups, every lineage (mentioning choices or not, negated or not):
   Exact = P(root), intervals contain it, Alert/NoAlert agree with the threshold, otherwise NeedsExact. *)
Theorem C08_sound_groups :
  forall a sl root,
    wf a = true -> snapshot_valid sl ->
    forall kf fuel c clk orc,
      result_sound (threshold c) (ProbX_node sl a root) (evaluate kf fuel c a sl root clk orc).
Proof. exact evaluate_sound_groups. Qed.
Print Assumptions C08_sound_groups.

(* Top-k / interval results are never produced for a lineage that mentions a choice of a group: the controller goes
   straight to the exact fallback (result: the plan's weighted count, or NeedsExact without bounds) and evaluate_topk
   refuses.  (For lineages that mention no choice, top-k runs and `C08_sound_groups` covers its results.) *)
Theorem C08_exclusive_no_topk :
  forall a sl root kf fuel c clk orc k budget,
    has_exclusive sl a root = true ->
    ((exists d m, evaluate kf fuel c a sl root clk orc
                  = RExact (qclamp (exact_probability sl a root) 0 1) d ExactSdd m
                  /\ d = decide c (qclamp (exact_probability sl a root) 0 1))
     \/ (exists rs m, evaluate kf fuel c a sl root clk orc = RNeedsExact None None rs m))
    /\ exists rs, evaluate_topk fuel a sl root k budget clk orc = TkErr rs.
Proof.
  intros a sl root kf fuel c clk orc k budget Hx. split.
  - exact (evaluate_exclusive a sl root kf fuel c clk orc Hx).
  - exact (evaluate_topk_exclusive fuel a sl root k budget clk orc Hx).
Qed.
Print Assumptions C08_exclusive_no_topk.

(* The constraint must range over ALL choices: with the range restricted to the choices the lineage mentions
   (`compile_plan_referenced_only`) the weighted count is wrong - group {0: 1/4, 1: 1/4, 2: 1/2}, root = NOT x0:
   P = 3/4, restricted plan counts 0. *)
Definition exg_sl : seeds := [(0%N, (1 # 4, Some 7%N)); (1%N, (1 # 4, Some 7%N)); (2%N, (1 # 2, Some 7%N))].
Definition exg_arena : arena := fst (build [OLit 0; ONot 2]).
Theorem C08_constraint_all_choices_refuted :
  wf exg_arena = true /\ snapshot_valid exg_sl
  /\ ProbX_node exg_sl exg_arena 3 == 3 # 4
  /\ plan_wmc exg_arena 3 (compile_plan exg_sl exg_arena 3) == 3 # 4
  /\ ~ plan_wmc exg_arena 3 (compile_plan_referenced_only exg_sl exg_arena 3) == ProbX_node exg_sl exg_arena 3.
Proof.
  split; [reflexivity|]. split.
  - split; [split|].
    + repeat constructor; simpl; intuition discriminate.
    + repeat constructor; simpl; discriminate.
    + intros g Hg. vm_compute in Hg. destruct Hg as [<-|[]]. vm_compute. reflexivity.
  - split; [vm_compute; reflexivity|]. split; [vm_compute; reflexivity|].
    vm_compute. discriminate.
Qed.
Print Assumptions C08_constraint_all_choices_refuted.

(* The lineage store.  `good a` = well-formed + FALSE/TRUE at ids 0/1; `extends a a'` = a' is good, at least as long,
   and every existing id keeps its meaning; `opb true` = conjunction, `opb false` = disjunction (BuildProofs.v).
   canonical_nary (flattening, sort+dedup, complement detection, hash-consing) returns a node that denotes the
   conjunction / disjunction of its arguments and disturbs nothing. *)
Theorem C08_canonical_nary :
  forall a is_and items a' id,
    good a -> (forall x, In x items -> (x < alen a)%N) ->
    canonical_nary a is_and items = (a', id) ->
    extends a a' /\ (id < alen a')%N /\ forall w, sem a' id w = opb is_and (fun x => sem a x w) items.
Proof. exact canonical_nary_spec. Qed.
Print Assumptions C08_canonical_nary.

(* Every arena built through the store's API (any sequence of literal / not / and / or) is well-formed, every
   handle is in range, and every handle denotes the formula that was asked for (`ops_vals` evaluates the
   operations directly, without any arena). *)
Theorem C08_build :
  forall ops w,
    wf (fst (build ops)) = true
    /\ Forall (fun id => (id < alen (fst (build ops)))%N) (snd (build ops))
    /\ map (fun id => sem (fst (build ops)) id w) (snd (build ops)) = ops_vals w ops.
Proof. exact build_spec. Qed.
Print Assumptions C08_build.

(* End to end, without any hypothesis on the arena: for a formula given by construction operations, the result of
   the controller is sound for the probability of THAT formula. *)
Theorem C08_sound_built :
  forall ops rootref sl,
    let a := fst (build ops) in
    let root := deref (snd (build ops)) rootref in
    seeds_valid sl -> has_exclusive sl a root = false ->
    forall kf fuel c clk orc,
      result_sound (threshold c) (Prob sl (ops_formula ops rootref)) (evaluate kf fuel c a sl root clk orc).
Proof. exact evaluate_built_sound. Qed.
Print Assumptions C08_sound_built.

(* ---------- non-vacuity: the hypotheses are satisfiable and every kind of result occurs ---------- *)
Definition ex_sl : seeds := [(0%N, (4 # 5, None)); (1%N, (3 # 5, None)); (2%N, (1 # 2, None))].
Definition ex_arena : arena := fst (build [OLit 0; OLit 1; OLit 2; OAnd [2; 3]%N; OAnd [2; 4]%N; OOr [5; 6]%N]).
Definition ex_cfg (thr : Q) : config := mk_config thr (1 # 50) (1 # 10000) 1 1 2 1000 2000 100000.
Definition ex_orc : sddoracle := fun _ _ => (3%N, true).

Example C08_example_wf : wf ex_arena = true /\ has_exclusive ex_sl ex_arena 7 = false.
Proof. vm_compute. split; reflexivity. Qed.

Example C08_example_bound : search_bound ex_arena 7 = 9%N.
Proof. vm_compute. reflexivity. Qed.

Example C08_example_truth : Prob_node ex_sl ex_arena 7 == 16 # 25.
Proof. vm_compute. reflexivity. Qed.

Example C08_example_alert :
  exists m, evaluate 10 1000 (ex_cfg (3 # 10)) ex_arena ex_sl 7 (fun i => i) ex_orc
            = RBounded (12 # 25) (22 # 25) Alert LowerBoundCrossedThreshold m.
Proof. eexists. vm_compute. reflexivity. Qed.

Example C08_example_noalert :
  exists m, evaluate 10 1000 (ex_cfg (9 # 10)) ex_arena ex_sl 7 (fun i => i) ex_orc
            = RBounded (12 # 25) (22 # 25) NoAlert UpperBoundBelowThreshold m.
Proof. eexists. vm_compute. reflexivity. Qed.

Example C08_example_exact :
  exists m, evaluate 10 1000 (ex_cfg (3 # 5)) ex_arena ex_sl 7 (fun i => i) ex_orc
            = RExact (16 # 25) Alert ExactSdd m.
Proof. eexists. vm_compute. reflexivity. Qed.

Example C08_example_needs_exact :
  exists m, evaluate 10 1000 (ex_cfg (3 # 5)) ex_arena ex_sl 7 (fun i => if (i <? 20)%N then i else (i * 100000)%N) ex_orc
            = RNeedsExact (Some (12 # 25)) (Some (22 # 25)) SddBudget m.
Proof. eexists. vm_compute. reflexivity. Qed.
