(* C08 - Hybrid probability results never certify a wrong decision.
   This file contains only the property theorems; each is closed by `exact <lemma>` and followed
   by Print Assumptions.  The lemmas live in the *Proofs.v files. *)
Require Import List NArith QArith Bool.
Require Import KV.Hybrid.Lineage KV.Hybrid.Spec KV.Hybrid.Model.
Import ListNotations.

(* An invalid configuration never yields a number or a decision. *)
Theorem C08_invalid_config :
  forall kf fuel c a sl root clk orc,
    validate c = false ->
    evaluate kf fuel c a sl root clk orc = RNeedsExact None None DiagnosticOnly metrics0.
Proof. intros. unfold evaluate, evaluate_with. rewrite H. reflexivity. Qed.
Print Assumptions C08_invalid_config.
