(* Fuel adequacy: on a well-formed arena the proof search stops within a number of steps computed
   from the arena, and the k-loop of the controller within k_max rounds; so `EFuel` / `RFuel` are not
   returned when the model is given that much fuel. *)
Require Import List NArith QArith Bool Lia Permutation Arith.
Require Import KV.Hybrid.Lineage KV.Hybrid.Spec KV.Hybrid.Model KV.Hybrid.LineageProofs KV.Hybrid.SearchProofs.
Import ListNotations.
Open Scope N_scope.

(* ---------- bottom-up tables over a well-formed arena, generically ---------- *)
Section Table.
Variable T : Type.
Variable d0 : T.
Variable f : (N -> T) -> node -> T.
Hypothesis f_ext : forall g1 g2 nd, (forall c, In c (children nd) -> g1 c = g2 c) -> f g1 nd = f g2 nd.
Hypothesis f_false : forall g, f g NFalse = d0.

Definition look (tbl : list T) (c : N) : T := nth (N.to_nat c) tbl d0.
Definition tb (a : list node) (t0 : list T) : list T := fold_left (fun tbl nd => tbl ++ [f (look tbl) nd]) a t0.

Lemma tb_app : forall a1 a2 t0, tb (a1 ++ a2) t0 = tb a2 (tb a1 t0).
Proof. intros. unfold tb. apply fold_left_app. Qed.
Lemma tb_cons : forall nd a t0, tb (nd :: a) t0 = tb a (t0 ++ [f (look t0) nd]).
Proof. reflexivity. Qed.
Lemma tb_length : forall a t0, length (tb a t0) = (length t0 + length a)%nat.
Proof.
  induction a as [|nd a IH]; intros.
  - unfold tb; simpl; lia.
  - rewrite tb_cons, IH, app_length. simpl. lia.
Qed.
Lemma tb_prefix : forall a t0 i d, (i < length t0)%nat -> nth i (tb a t0) d = nth i t0 d.
Proof.
  induction a as [|nd a IH]; intros; auto.
  rewrite tb_cons, IH.
  - apply app_nth1. assumption.
  - rewrite app_length. simpl. lia.
Qed.

Lemma tb_nth_split : forall a1 nd a2,
  (forall c, In c (children nd) -> c < N.of_nat (length a1)) ->
  nth (length a1) (tb (a1 ++ nd :: a2) []) d0 = f (look (tb (a1 ++ nd :: a2) [])) nd.
Proof.
  intros a1 nd a2 Hc.
  rewrite tb_app, tb_cons.
  assert (Hl : length (tb a1 []) = length a1) by (rewrite tb_length; reflexivity).
  rewrite tb_prefix by (rewrite app_length; simpl; lia).
  rewrite app_nth2 by lia. rewrite Hl, Nat.sub_diag. simpl.
  apply f_ext. intros c Hin. specialize (Hc c Hin). unfold look.
  symmetry. rewrite (tb_prefix a2) by (rewrite app_length; simpl; lia).
  rewrite app_nth1 by lia. reflexivity.
Qed.

Lemma tb_unfold : forall a, wf a = true -> forall id,
  look (tb a []) id = f (look (tb a [])) (node_at a id).
Proof.
  intros a Hwf id. unfold node_at.
  destruct (lt_dec (N.to_nat id) (length a)) as [Hj|Hge].
  - pose proof (wf_nth a _ Hwf Hj) as Hn.
    destruct (nth_split a NFalse Hj) as (a1 & a2 & Ha & Hl).
    remember (nth (N.to_nat id) a NFalse) as nd. clear Heqnd.
    unfold look at 1. subst a. rewrite <- Hl. apply tb_nth_split.
    intros c Hc. rewrite Hl. apply (node_wf_children _ _ Hn c Hc).
  - unfold look at 1. rewrite !nth_overflow; try lia.
    + symmetry. apply f_false.
    + rewrite tb_length. simpl. lia.
Qed.
End Table.

(* ---------- the cost of expanding a node ---------- *)
(* (d, s): a state whose stack is n :: rest needs at most d + s * (steps for rest) steps *)
Definition cost_node (g : N -> N * N) (nd : node) : N * N :=
  match nd with
  | NFalse => (1, 0)
  | NTrue | NLit _ => (1, 1)
  | NNot _ => (1, 0)
  | NAnd cs =>
      let ds := fold_right (fun c acc => (fst (g c) + snd (g c) * fst acc, snd (g c) * snd acc)) (0, 1) cs in
      (1 + fst ds, snd ds)
  | NOr cs =>
      (1 + fold_right (fun c acc => fst (g c) + acc) 0 cs, fold_right (fun c acc => snd (g c) + acc) 0 cs)
  end.

Lemma fold_right_ext_in : forall {A B} (h1 h2 : B -> A -> A) (l : list B) init,
  (forall c acc, In c l -> h1 c acc = h2 c acc) -> fold_right h1 init l = fold_right h2 init l.
Proof.
  induction l as [|c l IH]; intros init H; cbn [fold_right]; auto.
  rewrite IH by (intros; apply H; simpl; auto). apply H. simpl. auto.
Qed.

Lemma cost_node_ext : forall g1 g2 nd, (forall c, In c (children nd) -> g1 c = g2 c) -> cost_node g1 nd = cost_node g2 nd.
Proof.
  intros g1 g2 nd H. destruct nd as [| |s|cs|cs|c]; cbn [cost_node children] in *; auto.
  - rewrite (fold_right_ext_in _ (fun c acc => (fst (g2 c) + snd (g2 c) * fst acc, snd (g2 c) * snd acc)) cs (0, 1)).
    + reflexivity.
    + intros c acc Hc. rewrite (H c Hc). reflexivity.
  - rewrite (fold_right_ext_in _ (fun c acc => fst (g2 c) + acc) cs 0) by (intros c acc Hc; rewrite (H c Hc); reflexivity).
    rewrite (fold_right_ext_in (fun c acc => snd (g1 c) + acc) (fun c acc => snd (g2 c) + acc) cs 0) by (intros c acc Hc; rewrite (H c Hc); reflexivity).
    reflexivity.
Qed.

Definition cost_table (a : arena) : list (N * N) := tb (N * N) (1, 0) cost_node a [].
Definition cost (a : arena) (id : N) : N * N := look (N * N) (1, 0) (cost_table a) id.

Lemma cost_unfold : forall a, wf a = true -> forall id, cost a id = cost_node (cost a) (node_at a id).
Proof.
  intros a Hwf id. unfold cost, cost_table.
  apply (tb_unfold (N * N) (1, 0) cost_node cost_node_ext (fun _ => eq_refl) a Hwf id).
Qed.

(* steps bound for a pending stack, a frontier *)
Definition tbound (a : arena) (pend : list N) : N :=
  fold_right (fun n acc => fst (cost a n) + snd (cost a n) * acc) 1 pend.
Definition mfront (a : arena) (l : list sst) : N := fold_right (fun st acc => tbound a (pending st) + acc) 0 l.

Definition and_cost (a : arena) (cs : list N) : N * N :=
  fold_right (fun c acc => (fst (cost a c) + snd (cost a c) * fst acc, snd (cost a c) * snd acc)) (0, 1) cs.

Lemma tbound_cons : forall a n rest, tbound a (n :: rest) = fst (cost a n) + snd (cost a n) * tbound a rest.
Proof. reflexivity. Qed.

Lemma tbound_app : forall a cs rest,
  tbound a (cs ++ rest) = fst (and_cost a cs) + snd (and_cost a cs) * tbound a rest.
Proof.
  intros a cs rest. induction cs as [|c cs IH].
  - cbn [app and_cost fold_right fst snd]. ring.
  - change ((c :: cs) ++ rest) with (c :: (cs ++ rest)). rewrite tbound_cons, IH.
    unfold and_cost. cbn [fold_right fst snd]. ring.
Qed.

Lemma mfront_cons : forall a st l, mfront a (st :: l) = tbound a (pending st) + mfront a l.
Proof. reflexivity. Qed.

Lemma mfront_perm : forall a l l', Permutation l l' -> mfront a l = mfront a l'.
Proof.
  intros a l l' H. induction H; rewrite ?mfront_cons; try lia; reflexivity.
Qed.

Lemma mfront_app : forall a l1 l2, mfront a (l1 ++ l2) = mfront a l1 + mfront a l2.
Proof.
  intros a l1 l2. induction l1 as [|x l1 IH]; [reflexivity|].
  change ((x :: l1) ++ l2) with (x :: (l1 ++ l2)). rewrite !mfront_cons, IH. lia.
Qed.

Lemma or_branches_mfront : forall a cs rest pr u s,
  mfront a (fst (or_branches cs rest pr u s))
  = fold_right (fun c acc => fst (cost a c) + acc) 0 cs
    + fold_right (fun c acc => snd (cost a c) + acc) 0 cs * tbound a rest.
Proof.
  induction cs as [|c cs IH]; intros rest pr u s.
  - reflexivity.
  - cbn [or_branches]. destruct (or_branches cs rest pr u (s + 1)) as [l s2] eqn:E.
    cbn [fst]. rewrite mfront_cons. cbn [pending].
    specialize (IH rest pr u (s + 1)). rewrite E in IH. cbn [fst] in IH. rewrite IH.
    rewrite tbound_cons. cbn [fold_right]. ring.
Qed.

(* every continuing step lowers the measure of the frontier *)
Lemma step_decreases : forall a, wf a = true -> forall sl cap c c',
  step a sl cap false c = SCont c' -> mfront a (fr c') + 1 <= mfront a (fr c).
Proof.
  intros a Hwf sl cap c c' H. unfold step in H.
  destruct (pop_best (fr c)) as [[st fr']|] eqn:Hpop; [|discriminate].
  rewrite (mfront_perm a _ _ (pop_best_perm _ _ _ Hpop)), mfront_cons.
  destruct (pending st) as [|next rest] eqn:Hp.
  - change (tbound a []) with 1.
    destruct (existsb _ (em c)).
    + inversion H; subst c'. cbn [fr]. lia.
    + destruct (len _ =? cap); [discriminate|]. inversion H; subst c'. cbn [fr]. lia.
  - rewrite tbound_cons, (cost_unfold a Hwf next).
    destruct (node_at a next) as [| |seed|cs|cs|ch] eqn:Hn; cbn [cost_node fst snd].
    + inversion H; subst c'. cbn [fr]. lia.
    + inversion H; subst c'. cbn [fr]. rewrite mfront_cons. cbn [pending]. lia.
    + destruct (proof_prob sl _); [|discriminate]. inversion H; subst c'. cbn [fr]. rewrite mfront_cons. cbn [pending]. lia.
    + inversion H; subst c'. cbn [fr]. rewrite mfront_cons. cbn [pending]. rewrite tbound_app.
      fold (and_cost a cs). lia.
    + destruct (or_branches cs rest (prf st) (ub st) (seqn c)) as [bs s'] eqn:Hb.
      inversion H; subst c'. cbn [fr]. rewrite mfront_app.
      pose proof (or_branches_mfront a cs rest (prf st) (ub st) (seqn c)) as Hm. rewrite Hb in Hm. cbn [fst] in Hm.
      rewrite Hm. lia.
    + discriminate.
Qed.

Lemma enum_loop_terminates : forall fuel a sl cap deadline clk t c,
  wf a = true -> (N.to_nat (mfront a (fr c)) < fuel)%nat ->
  fst (enum_loop fuel a sl cap deadline clk t c) <> EFuel.
Proof.
  induction fuel as [|f IH]; intros a sl cap deadline clk t c Hwf Hm; [lia|].
  cbn [enum_loop]. destruct (fr c) as [|s0 fr0] eqn:Hfr; [simpl; discriminate|].
  rewrite <- Hfr in Hm.
  destruct (deadline <=? clk t) eqn:Hexp.
  - (* expired: the step ends the loop *)
    unfold step. destruct (pop_best (fr c)) as [[st fr']|]; simpl; discriminate.
  - destruct (step a sl cap false c) as [c'|r] eqn:Hs.
    + apply IH; auto. pose proof (step_decreases a Hwf sl cap c c' Hs). lia.
    + simpl. unfold step in Hs.
      destruct (pop_best (fr c)) as [[st fr']|]; [|inversion Hs; discriminate].
      destruct (pending st) as [|next rest].
      * destruct (existsb _ (em c)); [discriminate|]. destruct (len _ =? cap); inversion Hs; discriminate.
      * destruct (node_at a next); try discriminate; try (inversion Hs; discriminate).
        -- destruct (proof_prob sl _); inversion Hs; discriminate.
        -- destruct (or_branches _ _ _ _ _); discriminate.
Qed.

(* steps needed from the initial state: d(root) + s(root) *)
Definition search_bound (a : arena) (root : N) : N := fst (cost a root) + snd (cost a root).

Lemma enumerate_terminates : forall fuel a sl root cap deadline clk t,
  wf a = true -> (N.to_nat (search_bound a root) < fuel)%nat ->
  fst (enumerate fuel a sl root cap deadline clk t) <> EFuel.
Proof.
  intros fuel a sl root cap deadline clk t Hwf Hf. unfold enumerate.
  destruct (cap =? 0); [simpl; discriminate|].
  apply enum_loop_terminates; auto.
  unfold init_cfg. cbn [fr]. rewrite mfront_cons. cbn [pending]. rewrite tbound_cons.
  change (tbound a []) with 1. change (mfront a []) with 0. unfold search_bound in Hf. lia.
Qed.

(* ---------- the controller ---------- *)
Lemma topk_round_terminates : forall fuel a sl root k dl clk orc t,
  wf a = true -> (N.to_nat (search_bound a root) < fuel)%nat ->
  topk_round fuel a sl root k dl clk orc t <> RdFuel.
Proof.
  intros fuel a sl root k dl clk orc t Hwf Hf. unfold topk_round.
  pose proof (enumerate_terminates fuel a sl root (k + 1) dl clk t Hwf Hf) as He.
  destruct (enumerate fuel a sl root (k + 1) dl clk t) as [e t1]. simpl in He.
  destruct e as [ps res| |]; try discriminate; [|contradiction].
  destruct res; try discriminate.
  - destruct (retained_wmc _ _ _ _ _ _) as [w t2]. destruct w; try discriminate.
    destruct (k <? len ps); [destruct (retained_wmc _ _ _ _ _ _) as [w t3]; destruct w|]; discriminate.
  - destruct (retained_wmc _ _ _ _ _ _) as [w t2]. destruct w; try discriminate.
    destruct (k <? len ps); [destruct (retained_wmc _ _ _ _ _ _) as [w t3]; destruct w|]; discriminate.
Qed.

Lemma kloop_terminates : forall kf fuel c a sl root clk orc t0 dl k t lb li m,
  wf a = true -> (N.to_nat (search_bound a root) < fuel)%nat ->
  2 <= k_growth c -> 1 <= k ->
  (N.to_nat (k_max c - k) < kf)%nat ->
  match kloop kf fuel c a sl root clk orc t0 dl k t lb li m with
  | LReturn r => r <> RFuel
  | LBreak _ _ _ _ => True
  | LFuel => False
  end.
Proof.
  induction kf as [|kf IH]; intros fuel c a sl root clk orc t0 dl k t lb li m Hwf Hf Hg Hk Hkf; [lia|].
  cbn [kloop].
  pose proof (topk_round_terminates fuel a sl root k dl clk orc t Hwf Hf) as Hr.
  destruct (topk_round fuel a sl root k dl clk orc t) as [r| | | |]; try exact I; [|contradiction].
  destruct (r_interval r) as [lo hi| |]; try exact I.
  destruct (r_fe r); [discriminate|].
  destruct (qle (threshold c) (r_wmc r)); [discriminate|].
  destruct (qlt hi (threshold c)); [discriminate|].
  destruct (k_max c <=? k) eqn:Hkm; [exact I|].
  destruct (negb _ && negb _); [exact I|]. cbn [orb].
  destruct (dl <=? clk (r_t r)); [exact I|].
  apply N.leb_gt in Hkm.
  apply IH; auto.
  - nia.
  - assert (k < N.min (k * k_growth c) (k_max c)) by nia. lia.
Qed.

Lemma evaluate_terminates : forall kf fuel c a sl root clk orc,
  wf a = true ->
  (N.to_nat (search_bound a root) < fuel)%nat -> (N.to_nat (k_max c) < kf)%nat ->
  evaluate kf fuel c a sl root clk orc <> RFuel.
Proof.
  intros kf fuel c a sl root clk orc Hwf Hf Hkf. unfold evaluate, evaluate_with.
  destruct (validate c) eqn:Hv; [|simpl; discriminate]. cbn [negb].
  assert (Hg : 2 <= k_growth c /\ 1 <= k_initial c).
  { unfold validate in Hv.
    repeat match goal with H : _ && _ = true |- _ => apply andb_prop in H; destruct H end.
    split.
    - match goal with H : (2 <=? k_growth c) = true |- _ => apply N.leb_le in H; exact H end.
    - match goal with H : negb (k_initial c =? 0) = true |- _ => apply negb_true_iff, N.eqb_neq in H; lia end. }
  destruct Hg as [Hg Hk].
  destruct (negb (has_negation a root) && negb (has_exclusive sl a root)).
  - pose proof (kloop_terminates kf fuel c a sl root clk orc (clk 0) (clk 0 + topk_budget c) (k_initial c) 1 None None metrics0
                                 Hwf Hf Hg Hk ltac:(lia)) as Hl.
    destruct (kloop kf fuel c a sl root clk orc (clk 0) (clk 0 + topk_budget c) (k_initial c) 1 None None metrics0) as [r|lb li m t|];
      [exact Hl| |contradiction].
    destruct (compile_exact _ sl a root (sdd_budget c) clk (t + 2) (orc 2 0)) as [[p|rs] t']; discriminate.
  - destruct (compile_exact _ sl a root (sdd_budget c) clk (1 + 2) (orc 2 0)) as [[p|rs] t']; discriminate.
Qed.
