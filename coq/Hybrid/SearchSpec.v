(* Statement-level definitions for the proof search of enumerate_proofs: what a search state
   means in a world, and the invariant relating root, emitted proofs and frontier. *)
Require Import List NArith QArith Bool.
Require Import KV.Hybrid.Lineage KV.Hybrid.Spec KV.Hybrid.Model.
Import ListNotations.
Open Scope N_scope.

(* a frontier state stands for: all seeds of its partial proof are true and all pending nodes are true *)
Definition st_holds (a : arena) (st : sst) (w : world) : bool :=
  holds (prf st) w && forallb (fun c => sem a c w) (pending st).

(* in every world: root <-> (some emitted proof holds) or (some frontier state holds) *)
Definition search_inv (a : arena) (root : N) (c : scfg) : Prop :=
  forall w, sem a root w = dnf (em c) w || existsb (fun st => st_holds a st w) (fr c).

(* strictly increasing seed lists (BTreeSet iteration order) *)
Fixpoint sorted (l : list N) : Prop :=
  match l with
  | [] => True
  | x :: r => (forall y, In y r -> x < y) /\ sorted r
  end.

(* the bound carried by a state is the probability of its partial proof *)
Definition st_ok (sl : seeds) (st : sst) : Prop := sorted (prf st) /\ (ub st == proof_product sl (prf st))%Q.
Definition cfg_ok (sl : seeds) (c : scfg) : Prop := Forall (st_ok sl) (fr c) /\ Forall sorted (em c).

(* what a finished enumeration guarantees: the emitted proofs together with some remaining frontier
   cover the root exactly; the residual describes that frontier *)
Definition covers (a : arena) (root : N) (sl : seeds) (ps : list proof) (res : residual) : Prop :=
  exists frs : list sst,
    (forall w, sem a root w = dnf ps w || existsb (fun st => st_holds a st w) frs)
    /\ Forall (st_ok sl) frs
    /\ Forall sorted ps
    /\ match res with
       | ResExhausted => frs = []
       | ResBounded m => (m == qclamp (sum_ub frs) 0 1)%Q
       | ResUnknown => True
       end.

(* ---------- what a result certifies (the property, on one result) ---------- *)
Open Scope Q_scope.
Definition decision_sound (thr P : Q) (d : decision) : Prop :=
  match d with
  | Alert => thr <= P
  | NoAlert => P < thr
  end.

Definition result_sound (thr P : Q) (r : result) : Prop :=
  match r with
  | RExact p d _ _ => p == P /\ decision_sound thr P d
  | RBounded lo hi d _ _ => lo <= P /\ P <= hi /\ decision_sound thr P d
  | RNeedsExact lo hi _ _ =>
      (forall l, lo = Some l -> l <= P) /\ (forall h, hi = Some h -> P <= h)
  | RFuel => True
  end.
