(* Lineage DAG arena of shared/src/hybrid.rs (LineageStore): nodes, hash-consing `intern`,
   `literal`, `not`, `and`/`or` = `canonical_nary`, and `metadata`.
   LineageId = index into the arena (N); FALSE = 0, TRUE = 1.  Executable model, no proofs here. *)
Require Import List NArith Bool.
Import ListNotations.
Open Scope N_scope.

Inductive node :=
| NFalse
| NTrue
| NLit (s : N)
| NAnd (cs : list N)
| NOr (cs : list N)
| NNot (c : N).

Definition arena := list node.
Definition arena0 : arena := [NFalse; NTrue].

(* `store.node(id)`; the Rust code panics out of range, the model answers NFalse (excluded by well-formedness). *)
Definition node_at (a : arena) (i : N) : node := nth (N.to_nat i) a NFalse.
Definition alen (a : arena) : N := N.of_nat (length a).

Fixpoint memN (x : N) (l : list N) : bool :=
  match l with
  | [] => false
  | y :: r => if x =? y then true else memN x r
  end.

Fixpoint list_eqb (l1 l2 : list N) : bool :=
  match l1, l2 with
  | [], [] => true
  | x :: r1, y :: r2 => (x =? y) && list_eqb r1 r2
  | _, _ => false
  end.

Definition node_eqb (x y : node) : bool :=
  match x, y with
  | NFalse, NFalse => true
  | NTrue, NTrue => true
  | NLit a, NLit b => a =? b
  | NAnd a, NAnd b => list_eqb a b
  | NOr a, NOr b => list_eqb a b
  | NNot a, NNot b => a =? b
  | _, _ => false
  end.

(* `unique.get(&node)`: the arena is hash-consed, so the first position holding the node is its id *)
Fixpoint find_from (a : list node) (nd : node) (i : N) : option N :=
  match a with
  | [] => None
  | x :: r => if node_eqb x nd then Some i else find_from r nd (i + 1)
  end.
Definition find_node (a : arena) (nd : node) : option N := find_from a nd 0.

Definition intern (a : arena) (nd : node) : arena * N :=
  match find_node a nd with
  | Some i => (a, i)
  | None => (a ++ [nd], alen a)
  end.

Definition literal (a : arena) (s : N) : arena * N := intern a (NLit s).

Definition lnot (a : arena) (id : N) : arena * N :=
  match node_at a id with
  | NFalse => (a, 1)
  | NTrue => (a, 0)
  | NNot inner => (a, inner)
  | _ => intern a (NNot id)
  end.

(* sort_unstable + dedup on ids: insertion into a strictly increasing list *)
Fixpoint ins (x : N) (l : list N) : list N :=
  match l with
  | [] => [x]
  | y :: r => if x <? y then x :: l else if x =? y then l else y :: ins x r
  end.
Definition sort_dedup (l : list N) : list N := fold_right ins [] l.

(* the first loop of canonical_nary: None = an annihilator was met *)
Fixpoint flatten (a : arena) (is_and : bool) (identity annih : N) (items acc : list N) : option (list N) :=
  match items with
  | [] => Some acc
  | item :: r =>
      if item =? annih then None
      else if item =? identity then flatten a is_and identity annih r acc
      else match is_and, node_at a item with
           | true, NAnd cs => flatten a is_and identity annih r (acc ++ cs)
           | false, NOr cs => flatten a is_and identity annih r (acc ++ cs)
           | _, _ => flatten a is_and identity annih r (acc ++ [item])
           end
  end.

Definition complement_in (a : arena) (fl : list N) (item : N) : bool :=
  match node_at a item with
  | NNot inner => memN inner fl
  | _ => match find_node a (NNot item) with
         | Some ng => memN ng fl
         | None => false
         end
  end.

Definition canonical_nary (a : arena) (is_and : bool) (items : list N) : arena * N :=
  let identity := if is_and then 1 else 0 in
  let annih := if is_and then 0 else 1 in
  match flatten a is_and identity annih items [] with
  | None => (a, annih)
  | Some fl0 =>
      let fl := sort_dedup fl0 in
      if existsb (complement_in a fl) fl then (a, annih)
      else match fl with
           | [] => (a, identity)
           | [only] => (a, only)
           | _ => intern a (if is_and then NAnd fl else NOr fl)
           end
  end.

Definition land (a : arena) (items : list N) := canonical_nary a true items.
Definition lor (a : arena) (items : list N) := canonical_nary a false items.

(* Construction operations as the correspondence check sends them.  A reference r denotes
   FALSE (0), TRUE (1) or the result of operation r-2. *)
Inductive bop :=
| OLit (s : N)
| ONot (r : N)
| OAnd (rs : list N)
| OOr (rs : list N).

Definition deref (ids : list N) (r : N) : N :=
  if r =? 0 then 0 else if r =? 1 then 1 else nth (N.to_nat (r - 2)) ids 0.

Definition apply_op (st : arena * list N) (o : bop) : arena * list N :=
  let '(a, ids) := st in
  let '(a', id) :=
    match o with
    | OLit s => literal a s
    | ONot r => lnot a (deref ids r)
    | OAnd rs => land a (map (deref ids) rs)
    | OOr rs => lor a (map (deref ids) rs)
    end in
  (a', ids ++ [id]).

Definition build (ops : list bop) : arena * list N := fold_left apply_op ops (arena0, []).

(* ---- metadata: bottom-up tables over the arena (children precede parents) ---- *)
(* per node: (has_negation below, sorted set of seeds below) *)
Definition union (l1 l2 : list N) : list N := fold_right ins l2 l1.

Definition info_node (tbl : list (bool * list N)) (nd : node) : bool * list N :=
  let at_ c := nth (N.to_nat c) tbl (false, []) in
  match nd with
  | NFalse | NTrue => (false, [])
  | NLit s => (false, [s])
  | NNot c => (true, snd (at_ c))
  | NAnd cs | NOr cs =>
      (existsb (fun c => fst (at_ c)) cs, fold_right (fun c acc => union (snd (at_ c)) acc) [] cs)
  end.

Definition info_table (a : arena) : list (bool * list N) :=
  fold_left (fun tbl nd => tbl ++ [info_node tbl nd]) a [].

Definition has_negation (a : arena) (root : N) : bool := fst (nth (N.to_nat root) (info_table a) (false, [])).
(* collect_seed_ids *)
Definition seeds_of (a : arena) (root : N) : list N := snd (nth (N.to_nat root) (info_table a) (false, [])).

(* well-formedness: every child id is smaller than the id of its parent *)
Definition node_wf (i : N) (nd : node) : bool :=
  match nd with
  | NAnd cs | NOr cs => forallb (fun c => c <? i) cs
  | NNot c => c <? i
  | _ => true
  end.
Fixpoint wf_from (i : N) (a : list node) : bool :=
  match a with
  | [] => true
  | nd :: r => node_wf i nd && wf_from (i + 1) r
  end.
Definition wf (a : arena) : bool := wf_from 0 a.
