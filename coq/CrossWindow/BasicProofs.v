(* Elementary facts about the model's data structures: triple equality, membership, the tag
   store, pattern matching and instantiation. *)
Require Import List NArith Bool Lia.
Import ListNotations.
Require Import KV.CrossWindow.Model KV.CrossWindow.Spec.
Open Scope N_scope.

(* ---- triples ------------------------------------------------------------------------------- *)
Lemma triple_eqb_eq : forall a b : triple, triple_eqb a b = true <-> a = b.
Proof.
  intros [[s p] o] [[s' p'] o']. unfold triple_eqb, tsubj, tpred, tobj. cbn [fst snd].
  rewrite !andb_true_iff, !N.eqb_eq. split.
  - intros [[-> ->] ->]. reflexivity.
  - intros H. injection H as -> -> ->. auto.
Qed.

Lemma triple_eqb_refl : forall a, triple_eqb a a = true.
Proof. intros a. apply triple_eqb_eq. reflexivity. Qed.

Lemma triple_eqb_neq : forall a b : triple, triple_eqb a b = false <-> a <> b.
Proof.
  intros a b. split.
  - intros H E. apply triple_eqb_eq in E. congruence.
  - intros H. destruct (triple_eqb a b) eqn:E; [apply triple_eqb_eq in E; contradiction | reflexivity].
Qed.

Lemma triple_dec : forall a b : triple, a = b \/ a <> b.
Proof.
  intros a b. destruct (triple_eqb a b) eqn:E.
  - left. apply triple_eqb_eq. exact E.
  - right. apply triple_eqb_neq. exact E.
Qed.

Lemma memt_In : forall f l, memt f l = true <-> In f l.
Proof.
  intros f l. unfold memt. rewrite existsb_exists. split.
  - intros [x [Hx E]]. apply triple_eqb_eq in E. subst. exact Hx.
  - intros H. exists f. split; [exact H | apply triple_eqb_refl].
Qed.

Lemma memt_false : forall f l, memt f l = false <-> ~ In f l.
Proof.
  intros f l. split.
  - intros H HI. apply memt_In in HI. congruence.
  - intros H. destruct (memt f l) eqn:E; [apply memt_In in E; contradiction | reflexivity].
Qed.

Lemma dedup_In : forall f l, In f (dedup l) <-> In f l.
Proof.
  intros f l. induction l as [|g l IH]; cbn [dedup]; [tauto|].
  destruct (memt g l) eqn:E.
  - rewrite IH. split; [intros H; right; exact H|]. intros [<- | H]; [apply memt_In; exact E | exact H].
  - cbn [In]. rewrite IH. tauto.
Qed.

Lemma dedup_NoDup : forall l, NoDup (dedup l).
Proof.
  induction l as [|g l IH]; cbn [dedup]; [constructor|].
  destruct (memt g l) eqn:E; [exact IH|].
  constructor; [|exact IH]. rewrite dedup_In. apply memt_false. exact E.
Qed.

(* ---- tag store ----------------------------------------------------------------------------- *)
Lemma get_remove_same : forall f tg, get_tag (remove_tag f tg) f = INF.
Proof.
  intros f tg. induction tg as [|[g e] tg IH]; cbn [remove_tag get_tag]; [reflexivity|].
  destruct (triple_eqb f g) eqn:E; [exact IH|]. cbn [get_tag]. rewrite E. exact IH.
Qed.

Lemma get_remove_other : forall f g tg, f <> g -> get_tag (remove_tag f tg) g = get_tag tg g.
Proof.
  intros f g tg Hne. induction tg as [|[h e] tg IH]; cbn [remove_tag get_tag]; [reflexivity|].
  destruct (triple_eqb f h) eqn:E.
  - apply triple_eqb_eq in E. subst h.
    assert (triple_eqb g f = false) as -> by (apply triple_eqb_neq; congruence). exact IH.
  - cbn [get_tag]. rewrite IH. reflexivity.
Qed.

Lemma get_set_same : forall f t tg, get_tag (set_tag f t tg) f = t.
Proof.
  intros f t tg. unfold set_tag. destruct (t =? INF) eqn:E.
  - apply N.eqb_eq in E. subst t. apply get_remove_same.
  - cbn [get_tag]. rewrite triple_eqb_refl. reflexivity.
Qed.

Lemma get_set_other : forall f g t tg, f <> g -> get_tag (set_tag f t tg) g = get_tag tg g.
Proof.
  intros f g t tg Hne. unfold set_tag. destruct (t =? INF).
  - apply get_remove_other. exact Hne.
  - cbn [get_tag]. assert (triple_eqb g f = false) as -> by (apply triple_eqb_neq; congruence).
    apply get_remove_other. exact Hne.
Qed.

Lemma min_fold_spec : forall tg gs a t,
  t <= fold_left (fun acc g => N.min acc (get_tag tg g)) gs a <->
  (t <= a /\ forall g, In g gs -> t <= get_tag tg g).
Proof.
  intros tg gs. induction gs as [|g gs IH]; intros a t; cbn [fold_left].
  - split; [intros H; split; [exact H | intros g []] | intros [H _]; exact H].
  - rewrite IH. split.
    + intros [H1 H2]. split; [lia|]. intros g' [<- | Hg]; [lia | apply H2; exact Hg].
    + intros [H1 H2]. split.
      * specialize (H2 g (or_introl eq_refl)). lia.
      * intros g' Hg. apply H2. right. exact Hg.
Qed.

Lemma min_tags_spec : forall tg gs t,
  t <= min_tags tg gs <-> (t <= INF /\ forall g, In g gs -> t <= get_tag tg g).
Proof. intros. unfold min_tags. apply min_fold_spec. Qed.

Lemma min_tags_le : forall tg gs g, In g gs -> min_tags tg gs <= get_tag tg g.
Proof.
  intros tg gs g Hg. pose proof (proj1 (min_tags_spec tg gs (min_tags tg gs)) (N.le_refl _)) as [_ H].
  apply H. exact Hg.
Qed.

Lemma min_tags_le_INF : forall tg gs, min_tags tg gs <= INF.
Proof.
  intros tg gs. pose proof (proj1 (min_tags_spec tg gs (min_tags tg gs)) (N.le_refl _)) as [H _]. exact H.
Qed.

Lemma min_tags_ext : forall tg tg' gs,
  (forall g, In g gs -> get_tag tg g = get_tag tg' g) -> min_tags tg gs = min_tags tg' gs.
Proof.
  intros tg tg' gs H. apply N.le_antisymm.
  - apply min_tags_spec. split; [apply min_tags_le_INF|]. intros g Hg. rewrite <- H by exact Hg. apply min_tags_le. exact Hg.
  - apply min_tags_spec. split; [apply min_tags_le_INF|]. intros g Hg. rewrite H by exact Hg. apply min_tags_le. exact Hg.
Qed.

(* ---- bindings, matching, instantiation ------------------------------------------------------ *)
Definition agrees (b : binding) (sigma : N -> N) : Prop :=
  forall x v, lookup x b = Some v -> sigma x = v.

Definition extends (b b' : binding) : Prop :=
  forall x v, lookup x b = Some v -> lookup x b' = Some v.

Definition bound (b : binding) (x : N) : Prop := lookup x b <> None.

Definition sigma_of (b : binding) : N -> N :=
  fun x => match lookup x b with Some v => v | None => 0 end.

Lemma agrees_sigma_of : forall b, agrees b (sigma_of b).
Proof. intros b x v H. unfold sigma_of. rewrite H. reflexivity. Qed.

Lemma agrees_nil : forall sigma, agrees [] sigma.
Proof. intros sigma x v H. discriminate. Qed.

Lemma extends_refl : forall b, extends b b.
Proof. intros b x v H. exact H. Qed.

Lemma extends_trans : forall a b c, extends a b -> extends b c -> extends a c.
Proof. intros a b c H1 H2 x v H. apply H2, H1, H. Qed.

Lemma extends_bound : forall b b' x, extends b b' -> bound b x -> bound b' x.
Proof.
  intros b b' x He Hb. unfold bound in *. destruct (lookup x b) as [v|] eqn:E; [|contradiction].
  rewrite (He _ _ E). discriminate.
Qed.

Lemma extends_agrees : forall b b' sigma, extends b b' -> agrees b' sigma -> agrees b sigma.
Proof. intros b b' sigma He Ha x v H. apply Ha, He, H. Qed.

Lemma match_term_sound : forall t v b b',
  match_term t v b = Some b' ->
  extends b b' /\ (forall x, In x (term_vars t) -> bound b' x) /\
  (forall sigma, agrees b' sigma -> subst sigma t = v).
Proof.
  intros [x|c] v b b' H; cbn [match_term] in H.
  - destruct (lookup x b) as [v'|] eqn:E.
    + destruct (v' =? v) eqn:Ev; [|discriminate]. injection H as <-. apply N.eqb_eq in Ev. subst v'.
      split; [apply extends_refl|]. split.
      * intros y [<- | []]. unfold bound. rewrite E. discriminate.
      * intros sigma Ha. cbn [subst]. apply Ha. exact E.
    + injection H as <-. split; [|split].
      * intros y w Hy. cbn [lookup]. destruct (y =? x) eqn:Eyx; [|exact Hy].
        apply N.eqb_eq in Eyx. subst y. congruence.
      * intros y [<- | []]. unfold bound. cbn [lookup]. rewrite N.eqb_refl. discriminate.
      * intros sigma Ha. cbn [subst]. apply Ha. cbn [lookup]. rewrite N.eqb_refl. reflexivity.
  - destruct (c =? v) eqn:Ec; [|discriminate]. injection H as <-. apply N.eqb_eq in Ec.
    split; [apply extends_refl|]. split; [intros y []|]. intros sigma _. exact Ec.
Qed.

Lemma match_term_complete : forall t b sigma,
  agrees b sigma -> exists b', match_term t (subst sigma t) b = Some b' /\ agrees b' sigma.
Proof.
  intros [x|c] b sigma Ha; cbn [match_term subst].
  - destruct (lookup x b) as [v'|] eqn:E.
    + rewrite (Ha _ _ E), N.eqb_refl. exists b. split; [reflexivity | exact Ha].
    + exists ((x, sigma x) :: b). split; [reflexivity|].
      intros y w Hy. cbn [lookup] in Hy. destruct (y =? x) eqn:Eyx.
      * apply N.eqb_eq in Eyx. subst y. congruence.
      * apply Ha. exact Hy.
  - rewrite N.eqb_refl. exists b. split; [reflexivity | exact Ha].
Qed.

Lemma match_pat_sound : forall p f b b',
  match_pat p f b = Some b' ->
  extends b b' /\ (forall x, In x (pat_vars p) -> bound b' x) /\
  (forall sigma, agrees b' sigma -> subst_pat sigma p = f).
Proof.
  intros [[ts tp] to] [[s q] o] b b' H. unfold match_pat in H. cbn [fst snd tsubj tpred tobj] in H.
  destruct (match_term ts s b) as [b1|] eqn:E1; [|discriminate].
  destruct (match_term tp q b1) as [b2|] eqn:E2; [|discriminate].
  destruct (match_term_sound _ _ _ _ E1) as (X1 & V1 & S1).
  destruct (match_term_sound _ _ _ _ E2) as (X2 & V2 & S2).
  destruct (match_term_sound _ _ _ _ H) as (X3 & V3 & S3).
  split; [eapply extends_trans; [exact X1 | eapply extends_trans; [exact X2 | exact X3]]|].
  split.
  - intros x Hx. unfold pat_vars in Hx. cbn [fst snd] in Hx. rewrite !in_app_iff in Hx.
    destruct Hx as [Hx | [Hx | Hx]].
    + eapply extends_bound; [exact X3|]. eapply extends_bound; [exact X2|]. apply V1. exact Hx.
    + eapply extends_bound; [exact X3|]. apply V2. exact Hx.
    + apply V3. exact Hx.
  - intros sigma Ha. unfold subst_pat. cbn [fst snd].
    rewrite (S3 sigma Ha).
    rewrite (S2 sigma (extends_agrees _ _ _ X3 Ha)).
    rewrite (S1 sigma (extends_agrees _ _ _ X2 (extends_agrees _ _ _ X3 Ha))). reflexivity.
Qed.

Lemma match_pat_complete : forall p b sigma,
  agrees b sigma -> exists b', match_pat p (subst_pat sigma p) b = Some b' /\ agrees b' sigma.
Proof.
  intros [[ts tp] to] b sigma Ha. unfold match_pat, subst_pat. cbn [fst snd tsubj tpred tobj].
  destruct (match_term_complete ts b sigma Ha) as (b1 & E1 & A1). rewrite E1.
  destruct (match_term_complete tp b1 sigma A1) as (b2 & E2 & A2). rewrite E2.
  apply match_term_complete. exact A2.
Qed.

Lemma inst_term_agrees : forall b sigma t,
  agrees b sigma -> (forall x, In x (term_vars t) -> bound b x) -> inst_term b t = Some (subst sigma t).
Proof.
  intros b sigma [x|c] Ha Hb; cbn [inst_term subst]; [|reflexivity].
  specialize (Hb x (or_introl eq_refl)). unfold bound in Hb.
  destruct (lookup x b) as [v|] eqn:E; [|contradiction]. rewrite (Ha _ _ E). reflexivity.
Qed.

Lemma inst_pat_agrees : forall b sigma p,
  agrees b sigma -> (forall x, In x (pat_vars p) -> bound b x) -> inst_pat b p = Some (subst_pat sigma p).
Proof.
  intros b sigma [[ts tp] to] Ha Hb. unfold inst_pat, subst_pat. cbn [fst snd].
  unfold pat_vars in Hb. cbn [fst snd] in Hb.
  rewrite (inst_term_agrees b sigma ts Ha) by (intros x Hx; apply Hb; rewrite !in_app_iff; auto).
  rewrite (inst_term_agrees b sigma tp Ha) by (intros x Hx; apply Hb; rewrite !in_app_iff; auto).
  rewrite (inst_term_agrees b sigma to Ha) by (intros x Hx; apply Hb; rewrite !in_app_iff; auto).
  reflexivity.
Qed.

Lemma inst_list_agrees : forall b sigma ps,
  agrees b sigma -> (forall p x, In p ps -> In x (pat_vars p) -> bound b x) ->
  inst_list b ps = map (subst_pat sigma) ps.
Proof.
  intros b sigma ps Ha. induction ps as [|p ps IH]; intros Hb; [reflexivity|].
  unfold inst_list in *. cbn [flat_map map].
  rewrite (inst_pat_agrees b sigma p Ha) by (intros x Hx; eapply Hb; [left; reflexivity | exact Hx]).
  cbn [app]. f_equal. apply IH. intros q x Hq Hx. eapply Hb; [right; exact Hq | exact Hx].
Qed.
