(* From streaming datasets to alive facts: the translation yields alive, bounded facts;
   window-consistent contents yield consistent bases; the from-scratch evaluations; histories. *)
Require Import List NArith Bool Lia.
Import ListNotations.
Require Import KV.CrossWindow.Model KV.CrossWindow.Spec KV.CrossWindow.BasicProofs KV.CrossWindow.JoinProofs
        KV.CrossWindow.RoundProofs KV.CrossWindow.StepProofs.
Open Scope N_scope.

(* ---- boolean equalities ---------------------------------------------------------------------------- *)
Lemma list_eqb_eq : forall (A : Type) (eqb : A -> A -> bool),
  (forall x y, eqb x y = true <-> x = y) -> forall l l', list_eqb eqb l l' = true <-> l = l'.
Proof.
  intros A eqb H. induction l as [|x l IH]; intros [|y l']; cbn [list_eqb]; try (split; [discriminate | discriminate]); [tauto|].
  rewrite andb_true_iff, H, IH. split; [intros [-> ->]; reflexivity | intros E; injection E; auto].
Qed.

Lemma str_eqb_eq : forall a b, str_eqb a b = true <-> a = b.
Proof. apply list_eqb_eq. apply N.eqb_eq. Qed.

Lemma key_eqb_eq : forall a b : key, key_eqb a b = true <-> a = b.
Proof.
  intros [[a1 a2] a3] [[b1 b2] b3]. unfold key_eqb. cbn [fst snd].
  rewrite !andb_true_iff, !str_eqb_eq. split; [intros [[-> ->] ->]; reflexivity | intros E; injection E; auto].
Qed.

Lemma statics_sub_In : forall G G' g k,
  statics_sub G G' = true -> In g G -> In k (snd g) ->
  exists g', In g' G' /\ fst g' = fst g /\ In k (snd g').
Proof.
  intros G G' g k H Hg Hk. unfold statics_sub in H. rewrite forallb_forall in H. specialize (H g Hg).
  apply existsb_exists in H. destruct H as (g' & Hg' & Hs). unfold sgraph_sub in Hs.
  apply andb_true_iff in Hs. destruct Hs as [Hi Hall]. apply str_eqb_eq in Hi.
  rewrite forallb_forall in Hall. specialize (Hall k Hk). apply existsb_exists in Hall.
  destruct Hall as (k' & Hk' & E). apply key_eqb_eq in E. subst k'.
  exists g'. auto.
Qed.

Lemma forall2b_In : forall (A B : Type) (p : A -> B -> bool) l l',
  forall2b p l l' = true -> forall x, In x l -> exists y, In y l' /\ p x y = true.
Proof.
  intros A B p. induction l as [|a l IH]; intros [|b l'] H x Hx; cbn [forall2b] in H; try discriminate; [destruct Hx|].
  apply andb_true_iff in H. destruct H as [H1 H2]. destruct Hx as [<- | Hx].
  - exists b. split; [left; reflexivity | exact H1].
  - destruct (IH l' H2 x Hx) as (y & Hy & Hp). exists y. split; [right; exact Hy | exact Hp].
Qed.

(* ---- the translation --------------------------------------------------------------------------------- *)
Definition wfact (iri : str) (wt : wtriple) : triple :=
  (enc (fst (fst (fst wt))), annotate iri (snd (fst (fst wt))), enc (snd (fst wt))).

Lemma translate_window_In : forall now w f e,
  In (f, e) (translate_window now w) <->
  exists wt, In wt (snd w) /\ e = sat_add (snd wt) (snd (fst w)) /\ now < e /\ f = wfact (fst (fst w)) wt.
Proof.
  intros now w f e. unfold translate_window. rewrite in_flat_map. split.
  - intros (wt & Hin & H). destruct (sat_add (snd wt) (snd (fst w)) <=? now) eqn:E; [destruct H|].
    destruct H as [H | []]. injection H as <- <-. exists wt. apply N.leb_gt in E. auto.
  - intros (wt & Hin & -> & Hlt & ->). exists wt. split; [exact Hin|].
    assert (sat_add (snd wt) (snd (fst w)) <=? now = false) as -> by (apply N.leb_gt; exact Hlt).
    left. reflexivity.
Qed.

Definition sfact (iri : str) (t : key) : triple :=
  (enc (fst (fst t)), annotate iri (snd (fst t)), enc (snd t)).

Lemma translate_In : forall S now f e,
  In (f, e) (translate S now) <->
  (exists w wt, In w (windows S) /\ In wt (snd w) /\ e = sat_add (snd wt) (snd (fst w)) /\ now < e /\ f = wfact (fst (fst w)) wt) \/
  (exists g t, In g (statics S) /\ In t (snd g) /\ e = INF /\ f = sfact (fst g) t).
Proof.
  intros S now f e. unfold translate. rewrite in_app_iff, !in_flat_map. split.
  - intros [(w & Hw & H) | (g & Hg & H)].
    + left. apply translate_window_In in H. destruct H as (wt & H). exists w, wt. tauto.
    + right. unfold translate_static in H. apply in_map_iff in H. destruct H as (t & E & Ht).
      injection E as <- <-. exists g, t. auto.
  - intros [(w & wt & Hw & H) | (g & t & Hg & Ht & -> & ->)].
    + left. exists w. split; [exact Hw|]. apply translate_window_In. exists wt. exact H.
    + right. exists g. split; [exact Hg|]. unfold translate_static. apply in_map_iff. exists t. auto.
Qed.

Lemma sat_add_le_INF : forall a b, sat_add a b <= INF.
Proof. intros. unfold sat_add. lia. Qed.

Lemma translate_cap : forall S now f e, In (f, e) (translate S now) -> e <= INF.
Proof.
  intros S now f e H. apply translate_In in H.
  destruct H as [(w & wt & _ & _ & -> & _) | (g & t & _ & _ & -> & _)]; [apply sat_add_le_INF | lia].
Qed.

Lemma translate_alive : forall S now, now < INF -> alive_base (translate S now) now.
Proof.
  intros S now Hnow f e H. split; [|eapply translate_cap; exact H].
  apply translate_In in H. destruct H as [(w & wt & _ & _ & _ & Hlt & _) | (g & t & _ & _ & -> & _)]; [exact Hlt | exact Hnow].
Qed.

Lemma consistent_translate : forall S S' now now',
  window_consistent S S' now' = true -> base_consistent (translate S now) (translate S' now') now'.
Proof.
  intros S S' now now' H f e Hin Hlt. unfold window_consistent in H.
  rewrite !andb_true_iff in H. destruct H as [[[Hw _] Hs] _].
  apply translate_In in Hin. destruct Hin as [(w & wt & Hw0 & Hwt & -> & _ & ->) | (g & t & Hg & Ht & -> & ->)].
  - destruct (forall2b_In _ _ _ _ _ Hw w Hw0) as (w' & Hw' & Hst). unfold stays_listed in Hst.
    rewrite !andb_true_iff in Hst. destruct Hst as [[Hiri Halpha] Hall].
    apply str_eqb_eq in Hiri. apply N.eqb_eq in Halpha.
    rewrite forallb_forall in Hall. specialize (Hall wt Hwt).
    assert (sat_add (snd wt) (snd (fst w)) <=? now' = false) as E by (apply N.leb_gt; exact Hlt).
    rewrite E in Hall. apply existsb_exists in Hall. destruct Hall as (wt' & Hwt' & Hk).
    apply andb_true_iff in Hk. destruct Hk as [Hk Ht]. apply key_eqb_eq in Hk. apply N.leb_le in Ht.
    exists (sat_add (snd wt') (snd (fst w'))).
    assert (sat_add (snd wt) (snd (fst w)) <= sat_add (snd wt') (snd (fst w'))) as Hle
        by (rewrite <- Halpha; unfold sat_add; lia).
    split; [|exact Hle]. apply translate_In. left. exists w', wt'.
    split; [exact Hw'|]. split; [exact Hwt'|]. split; [reflexivity|]. split; [lia|].
    unfold wfact, wkey in *. rewrite Hiri. destruct wt as [k1 t1], wt' as [k2 t2]. cbn [fst snd] in *. subst k2. reflexivity.
  - exists INF. split; [|lia]. apply translate_In. right.
    destruct (statics_sub_In _ _ g t Hs Hg Ht) as (g' & Hg' & Hi & Ht').
    exists g', t. rewrite Hi. auto.
Qed.

(* ---- from-scratch evaluation without tags (the model of naive_sds_plus) -------------------------------- *)
Definition erase (base : list (triple * N)) : list (triple * N) := map (fun x => (fst x, INF)) base.

Lemma Der_erase : forall P base t f, Der P base t f -> Der P (erase base) INF f.
Proof.
  intros P base t f H. induction H as [f e Hin He | r sigma c Hr _ IH Hc] using Der_ind'.
  - eapply Der_base; [|apply N.le_refl]. unfold erase. apply in_map_iff. exists (f, e). auto.
  - apply Der_rule with (r := r); assumption.
Qed.

Lemma Der_unerase : forall P base t f, Der P (erase base) t f -> Der P base 0 f.
Proof.
  intros P base t f H. induction H as [f e Hin He | r sigma c Hr _ IH Hc] using Der_ind'.
  - unfold erase in Hin. apply in_map_iff in Hin. destruct Hin as ([g e'] & E & Hin). injection E as <- <-.
    eapply Der_base; [exact Hin | lia].
  - apply Der_rule with (r := r); assumption.
Qed.

Theorem naive_core_correct : forall fuel P rt base l,
  wf_rules P = true ->
  naive_core fuel P rt base = Some l ->
  forall c f, In (c, f) l <-> (rt (tpred f) = Some c /\ derivable P base f).
Proof.
  intros fuel P rt base l Hwf H c f. unfold naive_core in H.
  destruct (loop fuel P (dedup (map fst base)) [] (dedup (map fst base))) as [[F tg]|] eqn:El; [|discriminate].
  injection H as <-.
  assert (LInv P (erase base) (dedup (map fst base)) [] (dedup (map fst base))) as HL.
  { split; [|split; [|split]].
    - intros x Hx. exact Hx.
    - intros g Hg. cbn [get_tag]. split; [unfold INF; lia|]. apply (proj1 (dedup_In _ _)) in Hg. apply in_map_iff in Hg.
      destruct Hg as ([g' e] & <- & Hin). eapply Der_base; [|apply N.le_refl]. unfold erase. apply in_map_iff. exists (g', e). auto.
    - intros g e Hin. unfold erase in Hin. apply in_map_iff in Hin. destruct Hin as ([g' e'] & E & Hin). injection E as <- <-.
      cbn [get_tag]. split; [|lia]. apply (proj2 (dedup_In _ _)). apply in_map_iff. exists (g', e'). auto.
    - intros gs g (r & sigma & c0 & Hr & Egs & _ & _ & HgsF). left.
      pose proof (wf_rule_nonempty r (wf_rules_In _ _ Hwf Hr)) as Hne.
      destruct (prem r) as [|p ps]; [contradiction Hne; reflexivity|].
      exists (subst_pat sigma p). rewrite Egs. split; [left; reflexivity|]. apply HgsF. rewrite Egs. left. reflexivity. }
  pose proof (loop_inv P (erase base) Hwf fuel _ _ _ _ _ HL El) as HF.
  assert (forall g e, In (g, e) (erase base) -> e <= INF) as Hcap.
  { intros g e Hin. unfold erase in Hin. apply in_map_iff in Hin. destruct Hin as (x & E & _). injection E as _ <-. lia. }
  rewrite in_flat_map. split.
  - intros (g & HgF & Hin). destruct (rt (tpred g)) as [c'|] eqn:Er; [|destruct Hin].
    destruct Hin as [Hin | []]. injection Hin as <- <-. split; [exact Er|].
    destruct HF as (Hs & _ & _). destruct (Hs g HgF) as [_ Hd]. eapply Der_unerase. exact Hd.
  - intros [Hr Hd]. exists f. split; [|rewrite Hr; left; reflexivity].
    destruct (final_complete P (erase base) Hwf Hcap F tg HF INF f) as [HfF _]; [eapply Der_erase; exact Hd | unfold INF; lia | exact HfF].
Qed.

(* an E-state lists exactly the derivable facts that belong to a component *)
Lemma E_state_support : forall P base rt now st,
  alive_base base now -> E_state P base rt now st ->
  forall c f, (exists e, In (c, f, e) st) <-> (rt (tpred f) = Some c /\ derivable P base f).
Proof.
  intros P base rt now st Halive [H1 H2] c f. split.
  - intros (e & Hin). destruct (H1 c f e Hin) as (Hr & _ & [Hd _]). split; [exact Hr|].
    eapply Der_anti; [|exact Hd]. lia.
  - intros [Hr Hd]. apply (H2 (now + 1) f c); [|lia | exact Hr].
    eapply Der_raise; [|exact Hd]. intros g e Hin. destruct (Halive g e Hin). lia.
Qed.

(* ---- histories -------------------------------------------------------------------------------------------- *)
Definition step_spec (P : list rule) (x : sds * N) (st : state) : Prop :=
  E_state P (translate (fst x) (snd x)) (route (fst x)) (snd x) st.

Lemma history_gen : forall fuel P steps prev old outs,
  wf_rules P = true ->
  history_ok P prev steps = true ->
  match prev with
  | None => old = []
  | Some (S0, now) => E_state P (translate S0 now) (route S0) now old /\ routed_rules (route S0) P = true
  end ->
  run_history fuel P old steps = Some outs ->
  Forall2 (step_spec P) steps outs.
Proof.
  intros fuel P steps. induction steps as [|[S' now'] rest IH]; intros prev old outs Hwf Hok Hprev Hrun.
  - cbn [run_history] in Hrun. injection Hrun as <-. constructor.
  - cbn [run_history] in Hrun. cbn [history_ok] in Hok.
    destruct (incremental fuel P S' old now') as [st|] eqn:Einc; [|discriminate].
    destruct (run_history fuel P st rest) as [l|] eqn:Erest; [|discriminate]. injection Hrun as <-.
    rewrite !andb_true_iff in Hok. destruct Hok as [[[Hsok Hrt'] Hcons] Hrest].
    unfold sds_ok in Hsok. rename Hsok into Hnow. apply N.ltb_lt in Hnow.
    assert (E_state P (translate S' now') (route S') now' st) as HE.
    { unfold incremental in Einc. destruct prev as [[S0 now]|].
      - destruct Hprev as [HE0 Hrt0]. apply andb_true_iff in Hcons. destruct Hcons as [Hlt Hwc]. apply N.ltb_lt in Hlt.
        eapply (step_base fuel P (route S0) (route S') (translate S0 now) (translate S' now') old now now' st); try eassumption.
        + lia.
        + apply translate_alive. exact Hnow.
        + apply consistent_translate. exact Hwc.
      - subst old. eapply first_base; try eassumption. apply translate_alive. exact Hnow. }
    constructor; [exact HE|].
    apply (IH (Some (S', now')) st l Hwf Hrest); [|exact Erest]. split; [exact HE | exact Hrt'].
Qed.
