(* Termination of the driver loop with an explicit fuel bound: every round that does not end the
   loop adds a fact of the finite universe (triples over the constants of the start facts and the
   rules) or raises the tag of a known fact within the finite set of expiry values. *)
Require Import List NArith Bool Lia PeanoNat.
Import ListNotations.
Require Import KV.CrossWindow.Model KV.CrossWindow.Spec KV.CrossWindow.BasicProofs KV.CrossWindow.JoinProofs KV.CrossWindow.RoundProofs KV.CrossWindow.StepProofs.
Open Scope N_scope.

(* ---- the finite universe ------------------------------------------------------------------------------ *)
Definition term_consts (t : term) : list N := match t with C c => [c] | V _ => [] end.
Definition pat_consts (p : pattern) : list N :=
  term_consts (fst (fst p)) ++ term_consts (snd (fst p)) ++ term_consts (snd p).
Definition rule_consts (r : rule) : list N := flat_map pat_consts (prem r ++ concl r).
Definition fact_consts (f : triple) : list N := [tsubj f; tpred f; tobj f].

Definition inU (cs : list N) (f : triple) : Prop := In (tsubj f) cs /\ In (tpred f) cs /\ In (tobj f) cs.

Definition universe (cs : list N) : list triple :=
  flat_map (fun s => flat_map (fun p => map (fun o => (s, p, o)) cs) cs) cs.

Lemma universe_In : forall cs f, inU cs f -> In f (universe cs).
Proof.
  intros cs [[s p] o] (Hs & Hp & Ho). unfold tsubj, tpred, tobj in *. cbn [fst snd] in *.
  unfold universe. apply in_flat_map. exists s. split; [exact Hs|]. apply in_flat_map. exists p. split; [exact Hp|].
  apply in_map. exact Ho.
Qed.

Lemma term_inU : forall cs sigma (p : pattern) x,
  In x (pat_vars p) -> inU cs (subst_pat sigma p) -> In (sigma x) cs.
Proof.
  intros cs sigma [[ts tp] to] x Hx (Hs & Hp & Ho). unfold subst_pat, tsubj, tpred, tobj, pat_vars in *. cbn [fst snd] in *.
  rewrite !in_app_iff in Hx.
  assert (forall t, In x (term_vars t) -> subst sigma t = sigma x) as A.
  { intros [y|c] Hy; cbn [term_vars] in Hy; [destruct Hy as [<- | []]; reflexivity | destruct Hy]. }
  destruct Hx as [Hx | [Hx | Hx]]; [rewrite <- (A _ Hx) | rewrite <- (A _ Hx) | rewrite <- (A _ Hx)]; assumption.
Qed.

Lemma subst_inU : forall cs r sigma c,
  wf_rule r = true -> (forall k, In k (rule_consts r) -> In k cs) ->
  (forall p, In p (prem r) -> inU cs (subst_pat sigma p)) ->
  In c (concl r) -> inU cs (subst_pat sigma c).
Proof.
  intros cs r sigma c Hwf Hrc Hprem Hc.
  assert (forall t, In t [fst (fst c); snd (fst c); snd c] -> In (subst sigma t) cs) as A.
  { intros [x|k] Ht; cbn [subst].
    - assert (In x (pat_vars c)) as Hx.
      { unfold pat_vars. rewrite !in_app_iff.
        destruct Ht as [E | [E | [E | []]]]; rewrite E; cbn [term_vars In]; auto. }
      destruct (wf_rule_safe r c x Hwf Hc Hx) as (p & Hp & Hxp).
      apply (term_inU cs sigma p x Hxp (Hprem p Hp)).
    - apply Hrc. unfold rule_consts. apply in_flat_map. exists c. split; [apply in_or_app; right; exact Hc|].
      unfold pat_consts. rewrite !in_app_iff.
      destruct Ht as [E | [E | [E | []]]]; rewrite E; cbn [term_consts In]; auto. }
  unfold inU, subst_pat, tsubj, tpred, tobj. cbn [fst snd].
  split; [apply A; left; reflexivity | split; [apply A; right; left; reflexivity | apply A; right; right; left; reflexivity]].
Qed.

(* ---- ranks and the potential ----------------------------------------------------------------------------- *)
Definition rank (lv : list N) (e : N) : nat := length (filter (fun x => x <=? e) lv).

Lemma filter_length_le : forall (A : Type) (p q : A -> bool) l,
  (forall x, In x l -> p x = true -> q x = true) -> (length (filter p l) <= length (filter q l))%nat.
Proof.
  intros A p q l. induction l as [|x l IH]; intros H; cbn [filter]; [lia|].
  assert (IH' := IH (fun y Hy => H y (or_intror Hy))).
  destruct (p x) eqn:Ep.
  - rewrite (H x (or_introl eq_refl) Ep). cbn [length]. lia.
  - destruct (q x); cbn [length]; lia.
Qed.

Lemma filter_length_lt : forall (A : Type) (p q : A -> bool) l y,
  (forall x, In x l -> p x = true -> q x = true) -> In y l -> p y = false -> q y = true ->
  (length (filter p l) < length (filter q l))%nat.
Proof.
  intros A p q l y. induction l as [|x l IH]; intros H Hy Hp Hq; [destruct Hy|]. cbn [filter].
  destruct Hy as [-> | Hy].
  - rewrite Hp, Hq. cbn [length]. pose proof (filter_length_le A p q l (fun z Hz => H z (or_intror Hz))). lia.
  - assert (IH' := IH (fun z Hz => H z (or_intror Hz)) Hy Hp Hq).
    destruct (p x) eqn:Ep.
    + rewrite (H x (or_introl eq_refl) Ep). cbn [length]. lia.
    + destruct (q x); cbn [length]; lia.
Qed.

Lemma rank_le_len : forall lv e, (rank lv e <= length lv)%nat.
Proof.
  intros lv e. unfold rank. induction lv as [|x lv IH]; cbn [filter length]; [lia|].
  destruct (x <=? e); cbn [length]; lia.
Qed.

Lemma rank_mono : forall lv e e', e <= e' -> (rank lv e <= rank lv e')%nat.
Proof.
  intros lv e e' H. unfold rank. apply filter_length_le. intros x _ Hx. apply N.leb_le in Hx. apply N.leb_le. lia.
Qed.

Lemma rank_strict : forall lv e e', e < e' -> In e' lv -> (rank lv e < rank lv e')%nat.
Proof.
  intros lv e e' H Hin. unfold rank. apply filter_length_lt with (y := e').
  - intros x _ Hx. apply N.leb_le in Hx. apply N.leb_le. lia.
  - exact Hin.
  - apply N.leb_gt. exact H.
  - apply N.leb_le. lia.
Qed.

Fixpoint pot (lv : list N) (tg : tagstore) (F : list triple) : nat :=
  match F with
  | [] => 0
  | f :: F' => S (rank lv (get_tag tg f)) + pot lv tg F'
  end.

Lemma pot_app : forall lv tg F G, pot lv tg (F ++ G) = (pot lv tg F + pot lv tg G)%nat.
Proof. intros lv tg F G. induction F as [|f F IH]; cbn [pot app]; [reflexivity | rewrite IH; lia]. Qed.

Lemma pot_bound : forall lv tg F, (pot lv tg F <= length F * S (length lv))%nat.
Proof.
  intros lv tg F. induction F as [|f F IH]; cbn [pot length]; [lia|].
  pose proof (rank_le_len lv (get_tag tg f)). lia.
Qed.

Lemma pot_ge_len : forall lv tg F, (length F <= pot lv tg F)%nat.
Proof. intros lv tg F. induction F as [|f F IH]; cbn [pot length]; lia. Qed.

Lemma pot_mono : forall lv tg tg' F,
  (forall f, In f F -> get_tag tg f <= get_tag tg' f) -> (pot lv tg F <= pot lv tg' F)%nat.
Proof.
  intros lv tg tg' F. induction F as [|f F IH]; intros H; cbn [pot]; [lia|].
  pose proof (rank_mono lv _ _ (H f (or_introl eq_refl))).
  pose proof (IH (fun g Hg => H g (or_intror Hg))). lia.
Qed.

Lemma pot_strict : forall lv tg tg' F g,
  (forall f, In f F -> get_tag tg f <= get_tag tg' f) ->
  In g F -> get_tag tg g < get_tag tg' g -> In (get_tag tg' g) lv ->
  (pot lv tg F < pot lv tg' F)%nat.
Proof.
  intros lv tg tg' F g. induction F as [|f F IH]; intros H Hg Hlt Hin; [destruct Hg|]. cbn [pot].
  pose proof (pot_mono lv tg tg' F (fun h Hh => H h (or_intror Hh))).
  destruct Hg as [-> | Hg].
  - pose proof (rank_strict lv _ _ Hlt Hin). lia.
  - pose proof (rank_mono lv _ _ (H f (or_introl eq_refl))).
    pose proof (IH (fun h Hh => H h (or_intror Hh)) Hg Hlt Hin). lia.
Qed.

Lemma nodup_snoc : forall (l : list triple) x, NoDup l -> ~ In x l -> NoDup (l ++ [x]).
Proof.
  induction l as [|y l IH]; intros x Hn Hx; cbn [app]; [constructor; [intros [] | constructor]|].
  inversion Hn as [|? ? Hy Hl]; subst. constructor.
  - rewrite in_app_iff. intros [H | [H | []]]; [contradiction | subst; apply Hx; left; reflexivity].
  - apply IH; [exact Hl | intros H; apply Hx; right; exact H].
Qed.

Lemma nodup_app : forall (l l' : list triple),
  NoDup l -> NoDup l' -> (forall x, In x l' -> ~ In x l) -> NoDup (l ++ l').
Proof.
  induction l as [|y l IH]; intros l' Hn Hn' Hd; cbn [app]; [exact Hn'|].
  inversion Hn as [|? ? Hy Hl]; subst. constructor.
  - rewrite in_app_iff. intros [H | H]; [contradiction | apply (Hd y H); left; reflexivity].
  - apply IH; [exact Hl | exact Hn' | intros x Hx H; apply (Hd x Hx); right; exact H].
Qed.

Lemma min_tags_in : forall tg gs, min_tags tg gs = INF \/ exists g, In g gs /\ min_tags tg gs = get_tag tg g.
Proof.
  intros tg gs. unfold min_tags.
  assert (forall a, fold_left (fun acc g => N.min acc (get_tag tg g)) gs a = a \/
                    exists g, In g gs /\ fold_left (fun acc g => N.min acc (get_tag tg g)) gs a = get_tag tg g) as H.
  { induction gs as [|g gs IH]; intros a; cbn [fold_left]; [left; reflexivity|].
    destruct (IH (N.min a (get_tag tg g))) as [E | (h & Hh & E)].
    - rewrite E. destruct (N.min_spec a (get_tag tg g)) as [[_ ->] | [_ ->]]; [left; reflexivity|].
      right. exists g. split; [left; reflexivity | reflexivity].
    - right. exists h. split; [right; exact Hh | exact E]. }
  apply H.
Qed.

(* ---- the extra invariants of a round ------------------------------------------------------------------------ *)
Section RoundT.
  Variable P : list rule.
  Variable base : list (triple * N).
  Hypothesis Hwf : wf_rules P = true.
  Variable F : list triple.
  Variable cs lv : list N.
  Hypothesis HFU : forall f, In f F -> inU cs f.
  Hypothesis Hrc : forall r k, In r P -> In k (rule_consts r) -> In k cs.
  Variable tg0 : tagstore.

  Definition Extra (st : rstate) : Prop :=
    NoDup (st_new st) /\
    (forall f, In f (st_new st) -> inU cs f) /\
    (forall f, present F st f -> In (get_tag (st_tags st) f) lv) /\
    (forall g, In g (st_imp st) -> get_tag tg0 g < get_tag (st_tags st) g) /\
    (forall f, In f F -> get_tag tg0 f <= get_tag (st_tags st) f).

  Lemma step_concl_extra : forall t st f,
    Good P base F st -> Extra st -> In t lv -> inU cs f -> Extra (step_concl F t st f).
  Proof.
    intros t st f (G1 & G2 & G3) (X1 & X2 & X3 & X4 & X5) Ht HfU.
    destruct (step_concl_cases F t st f) as [(HnF & HnN & E) | [(Hp & Hm & E) | (Hp & Hlt & [(HF & E) | (HnF & E)])]];
      cbn zeta in E; rewrite E; clear E.
    - unfold Extra, present, st_tags, st_new, st_imp in *. cbn [fst snd].
      split; [apply nodup_snoc; assumption|]. split; [|split; [|split]].
      + intros g Hg. rewrite in_app_iff in Hg. destruct Hg as [Hg | [<- | []]]; [apply X2; exact Hg | exact HfU].
      + intros g Hg. destruct (triple_dec f g) as [<- | Hne]; [rewrite get_set_same; exact Ht|].
        rewrite get_set_other by exact Hne. apply X3. rewrite in_app_iff in Hg.
        destruct Hg as [Hg | [Hg | [Hg | []]]]; [left; exact Hg | right; exact Hg | congruence].
      + intros g Hg. rewrite get_set_other; [apply X4; exact Hg|]. intros ->. apply HnF. apply G3. exact Hg.
      + intros g Hg. rewrite get_set_other; [apply X5; exact Hg|]. intros ->. contradiction.
    - split; [exact X1|]. split; [exact X2|]. split; [exact X3|]. split; [exact X4 | exact X5].
    - unfold Extra, present, st_tags, st_new, st_imp in *. cbn [fst snd].
      split; [exact X1|]. split; [exact X2|]. split; [|split].
      + intros g Hg. destruct (triple_dec f g) as [<- | Hne]; [rewrite get_set_same; exact Ht|].
        rewrite get_set_other by exact Hne. apply X3. exact Hg.
      + intros g Hg. rewrite in_app_iff in Hg. destruct (triple_dec f g) as [<- | Hne].
        * rewrite get_set_same. specialize (X5 f HF). lia.
        * rewrite get_set_other by exact Hne. destruct Hg as [Hg | [Hg | []]]; [apply X4; exact Hg | congruence].
      + intros g Hg. destruct (triple_dec f g) as [<- | Hne].
        * rewrite get_set_same. specialize (X5 f HF). lia.
        * rewrite get_set_other by exact Hne. apply X5. exact Hg.
    - unfold Extra, present, st_tags, st_new, st_imp in *. cbn [fst snd].
      split; [exact X1|]. split; [exact X2|]. split; [|split].
      + intros g Hg. destruct (triple_dec f g) as [<- | Hne]; [rewrite get_set_same; exact Ht|].
        rewrite get_set_other by exact Hne. apply X3. exact Hg.
      + intros g Hg. rewrite get_set_other; [apply X4; exact Hg|]. intros ->. apply HnF. apply G3. exact Hg.
      + intros g Hg. rewrite get_set_other; [apply X5; exact Hg|]. intros ->. contradiction.
  Qed.

  Lemma fold_concl_extra : forall t fs st,
    0 < t -> (forall f, In f fs -> Der P base t f) -> Good P base F st -> Extra st ->
    In t lv -> (forall f, In f fs -> inU cs f) ->
    Extra (fold_left (step_concl F t) fs st).
  Proof.
    intros t fs. induction fs as [|f fs IH]; intros st Ht Hd Hg Hx Hlv HU; cbn [fold_left]; [exact Hx|].
    apply IH; [exact Ht | intros g Hg'; apply Hd; right; exact Hg' | | | exact Hlv | intros g Hg'; apply HU; right; exact Hg'].
    - apply step_concl_good; [exact Ht | apply Hd; left; reflexivity | exact Hg].
    - apply step_concl_extra; [exact Hg | exact Hx | exact Hlv | apply HU; left; reflexivity].
  Qed.

  Lemma step_job_extra : forall st gs fs r sigma,
    Good P base F st -> Extra st -> In INF lv -> In r P ->
    gs = map (subst_pat sigma) (prem r) -> fs = map (subst_pat sigma) (concl r) ->
    (forall g, In g gs -> In g F) ->
    Extra (step_job F st (gs, fs)).
  Proof.
    intros st gs fs r sigma Hg Hx HINF Hr Egs Efs HgsF. unfold step_job. cbn [fst snd].
    fold (st_tags st). set (t := min_tags (st_tags st) gs).
    destruct (t =? 0) eqn:Et; [exact Hx|]. apply N.eqb_neq in Et.
    assert (forall f, In f fs -> Der P base t f) as Hd.
    { intros f Hf. rewrite Efs in Hf. apply in_map_iff in Hf. destruct Hf as (c & <- & Hc).
      apply Der_rule with (r := r); [exact Hr | | exact Hc]. apply Forall_forall. intros g Hgin. rewrite <- Egs in Hgin.
      destruct Hg as (G1 & _ & _). destruct (G1 g (or_introl (HgsF g Hgin))) as [_ Hder].
      eapply Der_anti; [|exact Hder]. apply min_tags_le. exact Hgin. }
    apply fold_concl_extra; [lia | exact Hd | exact Hg | exact Hx | |].
    - destruct (min_tags_in (st_tags st) gs) as [E | (g & Hgin & E)]; fold t in E; rewrite E; [exact HINF|].
      destruct Hx as (_ & _ & X3 & _). apply X3. left. apply HgsF. exact Hgin.
    - intros f Hf. rewrite Efs in Hf. apply in_map_iff in Hf. destruct Hf as (c & <- & Hc).
      apply (subst_inU cs r sigma c (wf_rules_In _ _ Hwf Hr) (fun k Hk => Hrc r k Hr Hk)); [|exact Hc].
      intros p Hp. apply HFU. apply HgsF. rewrite Egs. apply in_map. exact Hp.
  Qed.
End RoundT.

(* ---- the loop ---------------------------------------------------------------------------------------------- *)
Section LoopT.
  Variable P : list rule.
  Variable base : list (triple * N).
  Hypothesis Hwf : wf_rules P = true.
  Variable cs lv : list N.
  Hypothesis Hrc : forall r k, In r P -> In k (rule_consts r) -> In k cs.
  Hypothesis HINF : In INF lv.

  Definition TInv (F : list triple) (tg : tagstore) : Prop :=
    NoDup F /\ (forall f, In f F -> inU cs f) /\ (forall f, In f F -> In (get_tag tg f) lv).

  Lemma round_extra : forall F tg D,
    LInv P base F tg D -> TInv F tg -> Extra F cs lv tg (round P F tg D).
  Proof.
    intros F tg D (HD & Hs & Hb & Hc) (TN & TU & TL). unfold round.
    pose (Inv := fun (_ : list job) (st : rstate) => Good P base F st /\ Extra F cs lv tg st).
    assert (Inv (jobs P F D) (fold_left (step_job F) (jobs P F D) (tg, [], []))) as [_ H]; [|exact H].
    apply fold_left_prefix_inv.
    - split.
      + split; [|split]; [intros f [Hf | []]; apply Hs; exact Hf | intros f [] | intros f []].
      + unfold Extra, present, st_tags, st_new, st_imp. cbn [fst snd].
        split; [constructor|]. split; [intros f []|]. split; [intros f [Hf | []]; apply TL; exact Hf|].
        split; [intros g [] | intros f _; lia].
    - intros pre [gs fs] st [Hg Hx] Hj.
      destruct (jobs_sound P F D gs fs Hwf HD Hj) as (r & sigma & Hr & Egs & Efs & HgsF).
      destruct (step_job_inv P base F st gs fs r sigma Hg Hr Egs Efs HgsF) as (Hg' & _ & _). cbn zeta in Hg'.
      split; [exact Hg'|]. eapply step_job_extra; eauto.
  Qed.

  Lemma round_TInv : forall F tg D,
    LInv P base F tg D -> TInv F tg ->
    let r := round P F tg D in
    TInv (F ++ snd (fst r)) (fst (fst r)) /\
    (match snd (fst r), snd r with
     | [], [] => True
     | _, _ => (pot lv tg F < pot lv (fst (fst r)) (F ++ snd (fst r)))%nat
     end).
  Proof.
    intros F tg D HL HT. cbn zeta.
    pose proof (round_extra F tg D HL HT) as (X1 & X2 & X3 & X4 & X5).
    destruct (round_LInv P base Hwf F tg D HL) as (_ & (G1 & G2 & G3) & _).
    destruct HT as (TN & TU & TL).
    set (r := round P F tg D) in *. destruct r as [[tg1 new] imp].
    unfold present, st_tags, st_new, st_imp in *. cbn [fst snd] in *.
    split.
    - split; [apply nodup_app; assumption|]. split.
      + intros f Hf. rewrite in_app_iff in Hf. destruct Hf as [Hf | Hf]; [apply TU | apply X2]; exact Hf.
      + intros f Hf. apply X3. rewrite in_app_iff in Hf. exact Hf.
    - assert (pot lv tg F <= pot lv tg1 F)%nat as Hmono by (apply pot_mono; exact X5).
      rewrite pot_app. pose proof (pot_ge_len lv tg1 new) as Hlen.
      destruct new as [|n new].
      + destruct imp as [|g imp]; [exact Logic.I|].
        assert (pot lv tg F < pot lv tg1 F)%nat; [|lia].
        apply pot_strict with (g := g); [exact X5 | apply G3; left; reflexivity | apply X4; left; reflexivity|].
        apply X3. left. apply G3. left. reflexivity.
      + cbn [length] in Hlen. lia.
  Qed.

  Theorem loop_terminates : forall fuel F tg D,
    LInv P base F tg D -> TInv F tg ->
    (length (universe cs) * S (length lv) < fuel + pot lv tg F)%nat ->
    exists F' tg', loop fuel P F tg D = Some (F', tg').
  Proof.
    induction fuel as [|k IH]; intros F tg D HL HT Hb.
    - exfalso. destruct HT as (TN & TU & _).
      assert (length F <= length (universe cs))%nat as Hlen.
      { apply NoDup_incl_length; [exact TN|]. intros f Hf. apply universe_In. apply TU. exact Hf. }
      pose proof (pot_bound lv tg F).
      assert (length F * S (length lv) <= length (universe cs) * S (length lv))%nat by (apply Nat.mul_le_mono_r; exact Hlen).
      lia.
    - cbn [loop].
      destruct (round_LInv P base Hwf F tg D HL) as (HL' & _ & _).
      destruct (round_TInv F tg D HL HT) as (HT' & Hpot). cbn zeta in HL', HT', Hpot.
      set (r := round P F tg D) in *. destruct r as [[tg1 new] imp]. cbn [fst snd] in *.
      destruct new as [|n new].
      + destruct imp as [|g imp]; [eexists; eexists; reflexivity|].
        apply IH; [exact HL' | exact HT' | lia].
      + apply IH; [exact HL' | exact HT' | lia].
  Qed.
End LoopT.

(* ---- the incremental evaluation ------------------------------------------------------------------------------- *)
Lemma seed_tags_in : forall l f, In (get_tag (seed_tags l) f) (INF :: map snd l).
Proof.
  intros l f. rewrite seed_tags_get. destruct (old_max l f) as [m|] eqn:E; [|left; reflexivity].
  right. destruct (old_max_Some _ _ _ E) as [Hin _]. apply in_map_iff. exists (f, m). auto.
Qed.

(* constants and expiry levels of an incremental evaluation, and the resulting fuel bound *)
Definition start_facts (base' : list (triple * N)) (old : state) (now : N) : list triple :=
  dedup (map fst (d_old_of old now) ++ map fst (d_new_of (d_old_of old now) base')).
Definition start_consts (P : list rule) (base' : list (triple * N)) (old : state) (now : N) : list N :=
  flat_map fact_consts (start_facts base' old now) ++ flat_map rule_consts P.
Definition start_levels (base' : list (triple * N)) (old : state) (now : N) : list N :=
  INF :: map snd (d_old_of old now ++ d_new_of (d_old_of old now) base').
Definition fuel_bound (P : list rule) (base' : list (triple * N)) (old : state) (now : N) : nat :=
  S (length (universe (start_consts P base' old now)) * S (length (start_levels base' old now))).

Theorem incr_core_terminates : forall P base' old now rt fuel,
  wf_rules P = true ->
  LInv P base' (start_facts base' old now)
       (seed_tags (d_old_of old now ++ d_new_of (d_old_of old now) base'))
       (map fst (d_new_of (d_old_of old now) base')) ->
  (fuel_bound P base' old now <= fuel)%nat ->
  exists st', incr_core fuel P rt base' old now = Some st'.
Proof.
  intros P base' old now rt fuel Hwf HL Hfuel. unfold incr_core. fold (start_facts base' old now).
  destruct (loop_terminates P base' Hwf (start_consts P base' old now) (start_levels base' old now)) with
      (fuel := fuel) (F := start_facts base' old now)
      (tg := seed_tags (d_old_of old now ++ d_new_of (d_old_of old now) base'))
      (D := map fst (d_new_of (d_old_of old now) base')) as (F' & tg' & E).
  - intros r k Hr Hk. unfold start_consts. apply in_or_app. right. apply in_flat_map. exists r. auto.
  - left. reflexivity.
  - exact HL.
  - split; [apply dedup_NoDup|]. split.
    + intros f Hf. unfold inU, start_consts. rewrite !in_app_iff, !in_flat_map.
      split; [|split]; left; exists f; (split; [exact Hf|]); unfold fact_consts; cbn; auto.
    + intros f _. apply seed_tags_in.
  - unfold fuel_bound in Hfuel. lia.
  - rewrite E. eexists. reflexivity.
Qed.
