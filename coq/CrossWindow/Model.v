(* C12 - executable Gallina model of cross-window incremental reasoning.

   Anchors in /repo (read completely before writing this file):
     datalog/src/cross_window_sds.rs                       translate_sds_to_datalog, all_component_iris, strip_window_prefix
     datalog/src/reasoning/materialisation/cross_window_incremental.rs   incremental_sds_plus
     datalog/src/reasoning/materialisation/cross_window_naive.rs         naive_sds_plus
     datalog/src/reasoning/materialisation/provenance_semi_naive.rs      ProvenanceSemiNaiveStrategy::infer_round,
                                                                         semi_naive_with_initial_tags_and_delta
     datalog/src/reasoning/materialisation/provenance_infer_generic.rs   infer_with_provenance_strategy_and_rules (driver loop)
     shared/src/provenance.rs  ExpirationProvenance   (zero = 0, one = u64::MAX, disjunction = max, conjunction = min)
     shared/src/tag_store.rs   TagStore               (absent = one; set_tag one removes; update_disjunction)

   What is modelled at algorithm level: the alive-fact translation with saturating expiry, the
   split d_old / d_new, the seeding of the tag store (largest expiry per triple over d_old and d_new), the
   driver loop, one provenance round with the code's bookkeeping (explicit first delta, then new
   facts ++ improved facts; tags read and updated in place while the round proceeds; new fact ->
   set_tag, otherwise update_disjunction and re-entry of improved *known* facts), the routing of
   result facts to components by the longest matching IRI prefix.

   What is abstracted (C05's business, see notes/C12.md): the bucketed hash join is replaced by
   plain pattern matching (`extend`): for every premise index i, premise i is matched against the
   delta and the other premises, in order, against all facts.  `seen_derivations` (a de-duplication
   of identical (binding, matched premises) pairs) is omitted: tags are combined by min/max, so a
   repeated derivation is unobservable.  Dictionary ids are replaced by the injective encoding
   `enc` of the strings themselves (the real ids are process-specific and never observable).
   HashMap / HashSet iteration orders are replaced by list order; results are compared as sets.
   No proofs in this file. *)
Require Import List NArith Bool.
Import ListNotations.
Open Scope N_scope.

(* u64::MAX : the tag `one()` of ExpirationProvenance, the expiry of static facts *)
Definition INF : N := 18446744073709551615.

(* ------------------------------------------------------------------------------------------ *)
(* Triples, patterns, rules                                                                   *)
(* ------------------------------------------------------------------------------------------ *)
Definition triple := (N * N * N)%type.
Definition tsubj (f : triple) : N := fst (fst f).
Definition tpred (f : triple) : N := snd (fst f).
Definition tobj (f : triple) : N := snd f.

Definition triple_eqb (a b : triple) : bool :=
  (tsubj a =? tsubj b) && (tpred a =? tpred b) && (tobj a =? tobj b).

Definition memt (f : triple) (l : list triple) : bool := existsb (triple_eqb f) l.

Fixpoint dedup (l : list triple) : list triple :=
  match l with
  | [] => []
  | f :: l' => if memt f l' then dedup l' else f :: dedup l'
  end.

Inductive term := V (x : N) | C (c : N).
Definition pattern := (term * term * term)%type.
Record rule := mkRule { prem : list pattern; concl : list pattern }.

Definition binding := list (N * N).

Fixpoint lookup (x : N) (b : binding) : option N :=
  match b with
  | [] => None
  | (y, v) :: b' => if x =? y then Some v else lookup x b'
  end.

Definition match_term (t : term) (v : N) (b : binding) : option binding :=
  match t with
  | C c => if c =? v then Some b else None
  | V x => match lookup x b with
           | Some v' => if v' =? v then Some b else None
           | None => Some ((x, v) :: b)
           end
  end.

Definition match_pat (p : pattern) (f : triple) (b : binding) : option binding :=
  match match_term (fst (fst p)) (tsubj f) b with
  | None => None
  | Some b1 =>
      match match_term (snd (fst p)) (tpred f) b1 with
      | None => None
      | Some b2 => match_term (snd p) (tobj f) b2
      end
  end.

Definition inst_term (b : binding) (t : term) : option N :=
  match t with
  | C c => Some c
  | V x => lookup x b
  end.

Definition inst_pat (b : binding) (p : pattern) : option triple :=
  match inst_term b (fst (fst p)), inst_term b (snd (fst p)), inst_term b (snd p) with
  | Some s, Some q, Some o => Some (s, q, o)
  | _, _, _ => None
  end.

(* filter_map of resolve_premise_triples / of the conclusion loop *)
Definition inst_list (b : binding) (ps : list pattern) : list triple :=
  flat_map (fun p => match inst_pat b p with Some f => [f] | None => [] end) ps.

(* ------------------------------------------------------------------------------------------ *)
(* Abstract join: find_premise_solutions_with_triples                                         *)
(* ------------------------------------------------------------------------------------------ *)
Definition extend (p : pattern) (fs : list triple) (bs : list binding) : list binding :=
  flat_map (fun b => flat_map (fun f => match match_pat p f b with Some b' => [b'] | None => [] end) fs) bs.

(* join every premise except number i (already joined against the delta) against all facts *)
Fixpoint join_others (i j : nat) (ps : list pattern) (all : list triple) (bs : list binding) : list binding :=
  match ps with
  | [] => bs
  | p :: ps' => join_others i (S j) ps' all (if Nat.eqb i j then bs else extend p all bs)
  end.

Definition solutions_at (i : nat) (ps : list pattern) (all delta : list triple) : list binding :=
  match nth_error ps i with
  | None => []
  | Some pi => join_others i 0 ps all (extend pi delta [[]])
  end.

Definition solutions (ps : list pattern) (all delta : list triple) : list binding :=
  flat_map (fun i => solutions_at i ps all delta) (seq 0 (length ps)).

(* one job = the matched premise triples of one binding and its instantiated conclusions *)
Definition job := (list triple * list triple)%type.

Definition rule_jobs (r : rule) (all delta : list triple) : list job :=
  map (fun b => (inst_list b (prem r), inst_list b (concl r))) (solutions (prem r) all delta).

Definition jobs (P : list rule) (all delta : list triple) : list job :=
  flat_map (fun r => rule_jobs r all delta) P.

(* ------------------------------------------------------------------------------------------ *)
(* TagStore<ExpirationProvenance>                                                             *)
(* ------------------------------------------------------------------------------------------ *)
Definition tagstore := list (triple * N).

Fixpoint get_tag (tg : tagstore) (f : triple) : N :=
  match tg with
  | [] => INF
  | (g, e) :: tg' => if triple_eqb f g then e else get_tag tg' f
  end.

Fixpoint remove_tag (f : triple) (tg : tagstore) : tagstore :=
  match tg with
  | [] => []
  | (g, e) :: tg' => if triple_eqb f g then remove_tag f tg' else (g, e) :: remove_tag f tg'
  end.

Definition set_tag (f : triple) (t : N) (tg : tagstore) : tagstore :=
  if t =? INF then remove_tag f tg else (f, t) :: remove_tag f tg.

(* conjunction of the matched premise tags, starting from one() *)
Definition min_tags (tg : tagstore) (gs : list triple) : N :=
  fold_left (fun acc g => N.min acc (get_tag tg g)) gs INF.

(* ------------------------------------------------------------------------------------------ *)
(* One provenance round (infer_round) and the driver loop                                     *)
(* ------------------------------------------------------------------------------------------ *)
(* round state: tag store, new_facts of this round, improved_this_round *)
Definition rstate := (tagstore * list triple * list triple)%type.

Definition step_concl (F : list triple) (t : N) (st : rstate) (f : triple) : rstate :=
  let '(tg, new, imp) := st in
  let known := memt f F in
  if negb known && negb (memt f new) then
    (set_tag f t tg, new ++ [f], imp)
  else
    let old := get_tag tg f in
    let c := N.max old t in
    if c =? old then st
    else (set_tag f c tg, new, if known then imp ++ [f] else imp).

Definition step_job (F : list triple) (st : rstate) (j : job) : rstate :=
  let t := min_tags (fst (fst st)) (fst j) in
  if t =? 0 then st else fold_left (step_concl F t) (snd j) st.

Definition round (P : list rule) (F : list triple) (tg : tagstore) (D : list triple) : rstate :=
  fold_left (step_job F) (jobs P F D) (tg, [], []).

(* infer_with_provenance_strategy_and_rules; D is the effective delta of the coming round:
   the explicit initial delta first, afterwards (new facts of the last round) ++ delta_improved.
   The Rust loop has no bound; the model returns None when the fuel runs out. *)
Fixpoint loop (fuel : nat) (P : list rule) (F : list triple) (tg : tagstore) (D : list triple)
  : option (list triple * tagstore) :=
  match fuel with
  | O => None
  | S k =>
      let r := round P F tg D in
      let tg' := fst (fst r) in
      let new := snd (fst r) in
      let imp := snd r in
      let F' := F ++ new in
      match new, imp with
      | [], [] => Some (F', tg')
      | _, _ => loop k P F' tg' (new ++ imp)
      end
  end.

(* ------------------------------------------------------------------------------------------ *)
(* Strings, the injective stand-in for the dictionary, component routing                      *)
(* ------------------------------------------------------------------------------------------ *)
Definition str := list N.   (* UTF-8 bytes *)

(* little-endian base 512 with digits 1..256 (nine bits per byte): injective on byte strings *)
Definition enc (s : str) : N := fold_right (fun c acc => c + 1 + 512 * acc) 0 s.

Fixpoint dec_fuel (k : nat) (n : N) : str :=
  match k with
  | O => []
  | S k' => if n =? 0 then [] else (N.land n 511 - 1) :: dec_fuel k' (N.shiftr n 9)
  end.
Definition dec (n : N) : str := dec_fuel (N.to_nat (N.size n)) n.

Fixpoint is_prefix (a b : str) : bool :=
  match a, b with
  | [], _ => true
  | x :: a', y :: b' => (x =? y) && is_prefix a' b'
  | _ :: _, [] => false
  end.

(* iris.sort_by(|a, b| b.len().cmp(&a.len())) : stable, longest first *)
Fixpoint insert_by_len (s : str) (l : list str) : list str :=
  match l with
  | [] => [s]
  | x :: l' => if Nat.ltb (length x) (length s) then s :: l else x :: insert_by_len s l'
  end.
Definition sort_by_len (l : list str) : list str := fold_right insert_by_len [] l.

(* strip_window_prefix: first IRI of the sorted list that is a prefix of the annotated predicate *)
Fixpoint first_prefix (iris : list str) (p : str) : option str :=
  match iris with
  | [] => None
  | i :: iris' => if is_prefix i p then Some i else first_prefix iris' p
  end.

(* ------------------------------------------------------------------------------------------ *)
(* The streaming dataset                                                                      *)
(* ------------------------------------------------------------------------------------------ *)
(* window = (IRI, alpha, [(subject, local predicate, object, arrival time)]) *)
Definition wtriple := (str * str * str * N)%type.
Definition window := (str * N * list wtriple)%type.
Definition sgraph := (str * list (str * str * str))%type.
Record sds := mkSds { windows : list window; statics : list sgraph; outputs : list str }.

Definition sat_add (a b : N) : N := N.min (a + b) INF.      (* u64::saturating_add *)

Definition annotate (iri local : str) : N := enc (iri ++ local).

Definition translate_window (now : N) (w : window) : list (triple * N) :=
  let iri := fst (fst w) in
  let alpha := snd (fst w) in
  flat_map (fun wt : wtriple =>
              let e := sat_add (snd wt) alpha in
              if e <=? now then []
              else [((enc (fst (fst (fst wt))), annotate iri (snd (fst (fst wt))), enc (snd (fst wt))), e)])
           (snd w).

Definition translate_static (g : sgraph) : list (triple * N) :=
  map (fun t : str * str * str => ((enc (fst (fst t)), annotate (fst g) (snd (fst t)), enc (snd t)), INF)) (snd g).

(* translate_sds_to_datalog *)
Definition translate (S : sds) (now : N) : list (triple * N) :=
  flat_map (translate_window now) (windows S) ++ flat_map translate_static (statics S).

(* all_component_iris *)
Definition component_iris (S : sds) : list str :=
  sort_by_len (map (fun w : window => fst (fst w)) (windows S) ++ map fst (statics S) ++ outputs S).

(* component of an annotated predicate id *)
Definition route (S : sds) (p : N) : option N :=
  match first_prefix (component_iris S) (dec p) with
  | Some i => Some (enc i)
  | None => None
  end.

(* ------------------------------------------------------------------------------------------ *)
(* incremental_sds_plus / naive_sds_plus                                                      *)
(* ------------------------------------------------------------------------------------------ *)
(* SdsWithExpiry, flattened: (component, annotated triple, expiry) *)
Definition state := list (N * triple * N).

Definition d_old_of (old : state) (now : N) : list (triple * N) :=
  flat_map (fun x : N * triple * N => if now <? snd x then [(snd (fst x), snd x)] else []) old.

(* d_old_map.get(t): the largest expiry recorded for t *)
Fixpoint old_max (d : list (triple * N)) (f : triple) : option N :=
  match d with
  | [] => None
  | (g, e) :: d' =>
      if triple_eqb f g then
        match old_max d' f with Some e' => Some (N.max e e') | None => Some e end
      else old_max d' f
  end.

Definition d_new_of (d_old d_base : list (triple * N)) : list (triple * N) :=
  filter (fun x : triple * N => match old_max d_old (fst x) with None => true | Some eo => eo <? snd x end) d_base.

(* seed_expiry: a map keyed by triple that keeps the largest expiry over d_old ++ d_new (the same
   accumulation as d_old_map, hence `old_max`), then set_tag for every entry of the map
   (set_tag with u64::MAX leaves no explicit tag).  [repo commit "fix: incremental cross-window
   reasoning seeds a fact with its latest expiry"; before it the tags were set entry by entry, last
   one winning, u64::MAX skipped - see Boundary.v] *)
Definition seed_tags (l : list (triple * N)) : tagstore :=
  fold_left (fun tg f => match old_max l f with Some e => set_tag f e tg | None => tg end)
            (dedup (map fst l)) [].

Definition collect (rt : N -> option N) (F : list triple) (tg : tagstore) : state :=
  flat_map (fun f => match rt (tpred f) with Some c => [(c, f, get_tag tg f)] | None => [] end) F.

(* the part of incremental_sds_plus below the translation: base' = translate sds_current now *)
Definition incr_core (fuel : nat) (P : list rule) (rt : N -> option N) (base' : list (triple * N))
           (old : state) (now : N) : option state :=
  let d_old := d_old_of old now in
  let d_new := d_new_of d_old base' in
  let F0 := dedup (map fst d_old ++ map fst d_new) in
  let tg0 := seed_tags (d_old ++ d_new) in
  match loop fuel P F0 tg0 (map fst d_new) with
  | None => None
  | Some (F, tg) => Some (collect rt F tg)
  end.

Definition incremental (fuel : nat) (P : list rule) (S : sds) (old : state) (now : N) : option state :=
  incr_core fuel P (route S) (translate S now) old now.

(* from-scratch evaluation with expiries: the same engine started on the alive facts alone *)
Definition scratch_core (fuel : nat) (P : list rule) (rt : N -> option N) (base : list (triple * N)) : option state :=
  incr_core fuel P rt base [] 0.

(* naive_sds_plus: from-scratch, no tags.  The real function runs the plain semi-naive strategy
   (property C05); here it is the same abstract rule-application core at the trivial annotation. *)
Definition naive_core (fuel : nat) (P : list rule) (rt : N -> option N) (base : list (triple * N)) : option (list (N * triple)) :=
  let F0 := dedup (map fst base) in
  match loop fuel P F0 [] F0 with
  | None => None
  | Some (F, _) => Some (flat_map (fun f => match rt (tpred f) with Some c => [(c, f)] | None => [] end) F)
  end.

Definition naive (fuel : nat) (P : list rule) (S : sds) (now : N) : option (list (N * triple)) :=
  naive_core fuel P (route S) (translate S now).

(* a history: evaluation times with the dataset at that time; the state is carried along *)
Fixpoint run_history (fuel : nat) (P : list rule) (old : state) (steps : list (sds * N)) : option (list state) :=
  match steps with
  | [] => Some []
  | (Sd, now) :: rest =>
      match incremental fuel P Sd old now with
      | None => None
      | Some st => match run_history fuel P st rest with
                   | None => None
                   | Some l => Some (st :: l)
                   end
      end
  end.
