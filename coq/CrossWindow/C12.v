(* C12 - Incremental cross-window reasoning equals recomputation from scratch.
   Only the property theorems; each is closed by `exact <lemma>` and followed by Print Assumptions.
   Definitions: Model.v (the executable model of the Rust code), Spec.v (Der, is_E, E_state and the
   boolean predicates of the property's quantifier). *)
Require Import List NArith Bool.
Import ListNotations.
Require Import KV.CrossWindow.Model KV.CrossWindow.Spec KV.CrossWindow.RoundProofs KV.CrossWindow.StepProofs
        KV.CrossWindow.SdsProofs KV.CrossWindow.NaiveTerm KV.CrossWindow.WindowLink KV.CrossWindow.Tree KV.CrossWindow.Termination KV.CrossWindow.Final KV.CrossWindow.Boundary
        KV.CrossWindow.SpecProofs KV.CrossWindow.RouteProofs.
Open Scope N_scope.

(* (1) The semiring fixpoint theorem at the expiry instance (max, min): for every positive safe rule
   set and every base of alive facts (positive u64 expiries; a triple may be listed several times),
   whenever the from-scratch evaluation (provenance semi-naive with in-place tag updates and
   re-triggering of improved facts) returns, the entry it keeps for a fact f is exactly
   E f = the largest t such that f has a derivation all of whose leaves expire at t or later,
   i.e. the maximum over the derivations of f of the minimum over its leaves of the base expiry;
   and every derivable fact of a component has an entry. *)
Theorem C12_fixpoint :
  forall (fuel : nat) (P : list rule) (rt : N -> option N) (base : list (triple * N)) (st : state),
    wf_rules P = true ->
    (forall f e, In (f, e) base -> 0 < e /\ e <= INF) ->
    scratch_core fuel P rt base = Some st ->
    forall c f e, In (c, f, e) st <-> (rt (tpred f) = Some c /\ is_E P base f e).
Proof. exact fixpoint_thm. Qed.
Print Assumptions C12_fixpoint.

(* (2) One incremental step, at the level of alive facts: if the carried-over state is E over the
   previous alive facts (restricted to component facts beyond the previous time), and the new alive
   facts are consistent with the previous ones (facts stay listed until they expire, a re-arrival
   never shortens an expiry, static facts persist), then the incremental evaluation, whenever
   it returns, is E over the new alive facts restricted to component facts beyond the new time. *)
Theorem C12_step_base :
  forall (fuel : nat) (P : list rule) (rt rt' : N -> option N) (base base' : list (triple * N))
         (old : state) (now now' : N) (st' : state),
    wf_rules P = true -> routed_rules rt P = true ->
    now <= now' -> now' < INF ->
    alive_base base' now' ->
    base_consistent base base' now' ->
    E_state P base rt now old ->
    incr_core fuel P rt' base' old now' = Some st' ->
    E_state P base' rt' now' st'.
Proof. exact step_base. Qed.
Print Assumptions C12_step_base.

(* the same step on streaming datasets, with the boolean predicates of the quantifier text *)
Theorem C12_step :
  forall (fuel : nat) (P : list rule) (S S' : sds) (old : state) (now now' : N) (st' : state),
    wf_rules P = true -> routed_rules (route S) P = true ->
    now < now' -> sds_ok S' now' = true -> window_consistent S S' now' = true ->
    E_state P (translate S now) (route S) now old ->
    incremental fuel P S' old now' = Some st' ->
    E_state P (translate S' now') (route S') now' st'.
Proof. exact step_thm. Qed.
Print Assumptions C12_step.

(* the first evaluation of a history (empty carried-over state) *)
Theorem C12_first :
  forall (fuel : nat) (P : list rule) (S : sds) (now : N) (st : state),
    wf_rules P = true -> sds_ok S now = true ->
    incremental fuel P S [] now = Some st ->
    E_state P (translate S now) (route S) now st.
Proof. exact first_thm. Qed.
Print Assumptions C12_first.

(* the model of naive_sds_plus yields, per component, exactly the facts derivable from the alive facts *)
Theorem C12_naive :
  forall (fuel : nat) (P : list rule) (S : sds) (now : N) (l : list (N * triple)),
    wf_rules P = true -> naive fuel P S now = Some l ->
    forall c f, In (c, f) l <-> (route S (tpred f) = Some c /\ derivable P (translate S now) f).
Proof. exact naive_thm. Qed.
Print Assumptions C12_naive.

(* (3) Every window-consistent history, every increasing sequence of evaluation times: at every
   evaluation the incrementally maintained state is E over the currently alive facts (each kept
   expiry is the latest time until which some derivation stays fully supported) and its facts are,
   per component, exactly those of from-scratch reasoning. *)
Theorem C12_history :
  forall (fuel : nat) (P : list rule) (steps : list (sds * N)) (outs : list state),
    wf_rules P = true ->
    history_ok P None steps = true ->
    run_history fuel P [] steps = Some outs ->
    Forall2 (step_ok fuel P) steps outs.
Proof. exact history_thm. Qed.
Print Assumptions C12_history.

(* E_state, read as an equivalence *)
Theorem C12_E_state_iff :
  forall P base rt now st, E_state P base rt now st ->
  forall c f e, In (c, f, e) st <-> (rt (tpred f) = Some c /\ now < e /\ is_E P base f e).
Proof. exact E_state_iff. Qed.
Print Assumptions C12_E_state_iff.

(* E f is literally "the maximum over the derivation trees of f of the minimum over their leaves of the
   base expiry" (Tree.v: `tree`, `valid`, `root`, `value` = min over `leaves`). *)
Theorem C12_E_is_max_min :
  forall (P : list rule) (base : list (triple * N)) (f : triple) (e : N),
    wf_rules P = true -> (forall g x, In (g, x) base -> x <= INF) ->
    (is_E P base f e <->
     ((exists tr, valid P base tr /\ root tr = f /\ value tr = e) /\
      (forall tr, valid P base tr -> root tr = f -> value tr <= e))).
Proof. exact is_E_max_min. Qed.
Print Assumptions C12_E_is_max_min.

(* Fuel bound for (1): the from-scratch evaluation returns as soon as the fuel reaches
   fuel_bound = 1 + |constants|^3-many triples * (1 + number of expiry values + 1)  (Termination.v). *)
Theorem C12_fixpoint_terminates :
  forall (fuel : nat) (P : list rule) (rt : N -> option N) (base : list (triple * N)),
    wf_rules P = true ->
    (forall f e, In (f, e) base -> 0 < e /\ e <= INF) ->
    (fuel_bound P base [] 0 <= fuel)%nat ->
    exists st, scratch_core fuel P rt base = Some st.
Proof. exact scratch_terminates. Qed.
Print Assumptions C12_fixpoint_terminates.

(* the incremental step returns under the hypotheses of C12_step once the fuel reaches the bound *)
Theorem C12_step_terminates :
  forall (fuel : nat) (P : list rule) (S S' : sds) (old : state) (now now' : N),
    wf_rules P = true -> routed_rules (route S) P = true ->
    now < now' -> sds_ok S' now' = true -> window_consistent S S' now' = true ->
    E_state P (translate S now) (route S) now old ->
    (fuel_bound P (translate S' now') old now' <= fuel)%nat ->
    exists st', incremental fuel P S' old now' = Some st'.
Proof. exact step_terminates. Qed.
Print Assumptions C12_step_terminates.

(* every admissible history is evaluated to the end with enough fuel (so C12_history is not vacuous
   for any history: the model of the unbounded Rust loop terminates on all of them) *)
Theorem C12_history_total :
  forall (P : list rule) (steps : list (sds * N)),
    wf_rules P = true -> history_ok P None steps = true ->
    exists fuel0, forall fuel, (fuel0 <= fuel)%nat -> exists outs, run_history fuel P [] steps = Some outs.
Proof. exact history_total. Qed.
Print Assumptions C12_history_total.

(* Termination of the model of naive_sds_plus, with an explicit fuel bound (NaiveTerm.v):
   naive_bound = 1 + 2 * |constants of the alive facts and the rules|^3. *)
Theorem C12_naive_terminates :
  forall (fuel : nat) (P : list rule) (rt : N -> option N) (base : list (triple * N)),
    wf_rules P = true ->
    (naive_bound P base <= fuel)%nat ->
    exists l, naive_core fuel P rt base = Some l.
Proof. exact naive_core_terminates. Qed.
Print Assumptions C12_naive_terminates.

(* total correctness of the from-scratch reference (C12_naive without its "returns" hypothesis): for every
   positive safe rule set, every streaming dataset and every evaluation time, the model of naive_sds_plus
   returns once the fuel reaches the bound, and what it returns is, per component, exactly the set of facts
   derivable from the alive facts.  No hypothesis on the dataset (sds_ok is not needed here). *)
Theorem C12_naive_total :
  forall (fuel : nat) (P : list rule) (S : sds) (now : N),
    wf_rules P = true ->
    (naive_bound P (translate S now) <= fuel)%nat ->
    exists l, naive fuel P S now = Some l /\
              forall c f, In (c, f) l <-> (route S (tpred f) = Some c /\ derivable P (translate S now) f).
Proof. exact naive_total. Qed.
Print Assumptions C12_naive_total.

(* the fuel is only a termination device: two returning runs list the same facts *)
Theorem C12_naive_fuel_irrelevant :
  forall (fuel fuel' : nat) (P : list rule) (S : sds) (now : N) (l l' : list (N * triple)),
    wf_rules P = true ->
    naive fuel P S now = Some l -> naive fuel' P S now = Some l' ->
    forall x, In x l <-> In x l'.
Proof. exact naive_fuel_irrelevant. Qed.
Print Assumptions C12_naive_fuel_irrelevant.

(* The link to the window operator (property C09).  `content_exact` (WindowLink.v) is, word for word, the
   conclusion of C09_content_exact: the content is the set of stream items with a timestamp in [c - w, c), each
   once, each with its latest timestamp in the interval.  Two such contents of one stream (closes c <= c', the
   later one over an extension of the stream) satisfy the window clauses of C12's quantifier - listed once,
   alive entries stay listed with an arrival time that is not earlier - at every evaluation time now' with
   c' <= now' + 1; the bound is needed (WindowLink.evaluation_too_early_refuted). *)
Theorem C12_window_link :
  forall (iri : str) (w c c' now' : N) (evs more cont cont' : list wtriple),
    content_exact w c evs cont ->
    content_exact w c' (evs ++ more) cont' ->
    c <= c' -> c' <= now' + 1 ->
    stays_listed now' (iri, w, cont) (iri, w, cont') = true /\ listed_once (iri, w, cont') = true.
Proof. exact exact_contents_window_consistent. Qed.
Print Assumptions C12_window_link.

(* the executable oracle of Spec.v (used by the check on every case) computes E *)
Theorem C12_spec_oracle :
  forall (P : list rule) (base : list (triple * N)),
    wf_rules P = true ->
    (forall f e, In (f, e) base -> 0 < e) -> (forall f e, In (f, e) base -> e <= INF) ->
    forall (fuel : nat) (M : list (triple * N)),
      spec_E fuel P base = Some M -> forall f e, alookup M f = Some e <-> is_E P base f e.
Proof. exact spec_E_correct. Qed.
Print Assumptions C12_spec_oracle.

(* stretch: routing picks the longest component IRI that is a prefix of the annotated predicate, and
   the stand-in for the dictionary is injective on byte strings *)
Theorem C12_route_longest :
  forall (S : sds) (p : N),
    let comps := map (fun w : window => fst (fst w)) (windows S) ++ map fst (statics S) ++ outputs S in
    match route S p with
    | Some c => exists i, c = enc i /\ In i comps /\ is_prefix i (dec p) = true /\
                          forall j, In j comps -> is_prefix j (dec p) = true -> (length j <= length i)%nat
    | None => forall j, In j comps -> is_prefix j (dec p) = false
    end.
Proof. exact route_longest. Qed.
Print Assumptions C12_route_longest.

Theorem C12_enc_injective :
  forall s s' : str, bytes s -> bytes s' -> enc s = enc s' -> s = s'.
Proof. exact enc_injective. Qed.
Print Assumptions C12_enc_injective.

(* ---- the hypotheses are needed (counterexamples on the faithful model, replayed on the code) ------------ *)
(* the seeding of the tag store as it was before the repair of finding C12-annotation-collision kept
   the finite expiry of a fact that two components list; the repaired seeding keeps the latest *)
Theorem C12_prefix_seeding_collision :
  let l := translate colA 5 in
  let f := (enc b_s, annotate [97; 47; 98; 47] b_p, enc b_o) in
  In (f, 15) l /\ In (f, INF) l /\ get_tag (seed_tags_prefix l) f = 15 /\ get_tag (seed_tags l) f = INF.
Proof. exact prefix_seeding_collision. Qed.
Print Assumptions C12_prefix_seeding_collision.

(* a static graph that loses a triple along the history (static graphs may only grow) *)
Theorem C12_static_removal_refuted :
  exists (S S' : sds) (now now' : N) (old st' : state),
    now < now' /\ sds_ok S' now' = true /\
    window_consistent S S' now' = false /\
    incremental 50 [] S [] now = Some old /\
    incremental 50 [] S' old now' = Some st' /\
    ~ E_state [] (translate S' now') (route S') now' st'.
Proof. exact static_removal_refuted. Qed.
Print Assumptions C12_static_removal_refuted.

(* a rule that concludes a predicate of no component (outside "rule sets over window-annotated predicates") *)
Theorem C12_unrouted_refuted :
  exists (P : list rule) (S S' : sds) (now now' : N) (old st' : state),
    wf_rules P = true /\ routed_rules (route S) P = false /\ now < now' /\ sds_ok S' now' = true /\
    window_consistent S S' now' = true /\
    incremental 50 P S [] now = Some old /\
    incremental 50 P S' old now' = Some st' /\
    ~ E_state P (translate S' now') (route S') now' st'.
Proof. exact unrouted_refuted. Qed.
Print Assumptions C12_unrouted_refuted.

(* ---- non-vacuity: a concrete window-consistent history that satisfies every hypothesis ------------- *)
Module Example1.
  Definition s_w := [119; 47].   (* "w/" *)
  Definition s_v := [118; 47].   (* "v/" *)
  Definition s_g := [103; 47].   (* "g/" *)
  Definition s_o := [111; 47].   (* "o/" *)
  Definition s_p := [112].  Definition s_q := [113].
  Definition s_a := [97].  Definition s_b := [98].  Definition s_c := [99].  Definition s_d := [100].
  Definition wp := annotate s_w s_p.  Definition vq := annotate s_v s_q.
  Definition op := annotate s_o s_p.  Definition gq := annotate s_g s_q.
  (* { ?x w:p ?y . ?y v:q ?z } => { ?x o:p ?z } ;  { ?x o:p ?y . ?y w:p ?z } => { ?x o:p ?z } (recursive);
     { ?x g:q ?y . ?x w:p ?z } => { ?z w:p ?x }  (derived facts land in a window component) *)
  Definition P : list rule :=
    [ mkRule [(V 0, C wp, V 1); (V 1, C vq, V 2)] [(V 0, C op, V 2)];
      mkRule [(V 0, C op, V 1); (V 1, C wp, V 2)] [(V 0, C op, V 2)];
      mkRule [(V 0, C gq, V 1); (V 0, C wp, V 2)] [(V 2, C wp, V 0)] ].
  Definition G : list sgraph := [(s_g, [(s_a, s_q, s_a)])].
  Definition mk (w v : list wtriple) : sds := mkSds [(s_w, 5, w); (s_v, 3, v)] G [s_o].
  Definition steps : list (sds * N) :=
    [ (mk [(s_a, s_p, s_b, 1)] [(s_b, s_q, s_c, 2)], 2);
      (mk [(s_a, s_p, s_b, 3); (s_c, s_p, s_d, 3)] [(s_b, s_q, s_c, 2)], 4);      (* renewal of a/p/b, new c/p/d *)
      (mk [(s_a, s_p, s_b, 3); (s_c, s_p, s_d, 3)] [(s_b, s_q, s_c, 2)], 5);      (* b/q/c expired, still listed *)
      (mk [(s_c, s_p, s_d, 3); (s_a, s_p, s_b, 3)] [], 7) ].

  Example hypotheses_hold : wf_rules P = true /\ history_ok P None steps = true.
  Proof. vm_compute. split; reflexivity. Qed.

  (* sizes of the four states, and the expiry kept for (a o:p d) at the second evaluation:
     min(8 [a/p/b renewed], 5 [b/q/c], 8 [c/p/d]) = 5 *)
  Example runs :
    match run_history 50 P [] steps with
    | Some outs => map (fun st : state => N.of_nat (length st)) outs
    | None => []
    end = [5; 7; 4; 4] /\
    match run_history 50 P [] steps with
    | Some (_ :: st2 :: _) => map (fun x : N * triple * N => snd x) (filter (fun x : N * triple * N => triple_eqb (snd (fst x)) (enc s_a, op, enc s_d)) st2)
    | _ => []
    end = [5].
  Proof. vm_compute. split; reflexivity. Qed.
  (* the from-scratch reference on the second dataset of the history: its bound is reached by a small
     fuel in practice (the bound itself is cubic in the number of constants), and it lists the same seven
     facts as the incremental state (C12_history) *)
  Example naive_runs :
    match steps with
    | _ :: (S2, now2) :: _ =>
        match naive 50 P S2 now2 with Some l => N.of_nat (length l) | None => 0 end
    | _ => 0
    end = 7.
  Proof. vm_compute. reflexivity. Qed.
End Example1.

(* the inputs of the repaired finding are ordinary admissible histories now: two components list the
   same annotated triple (window + static graph; two windows of widths 10 and 100), and a static graph
   that gains a triple which is carried over with a finite expiry *)
Module Example2.
  Definition colW : sds :=
    mkSds [([97; 47], 10, [(b_s, [98; 47; 112], b_o, 5)]); ([97; 47; 98; 47], 100, [(b_s, b_p, b_o, 5)])] [] [].
  Definition f : triple := (enc b_s, annotate [97; 47; 98; 47] b_p, enc b_o).
  Definition cab : N := enc [97; 47; 98; 47].
  Example window_and_static :
    history_ok [] None [(colA, 5); (colA, 14)] = true /\
    run_history 50 [] [] [(colA, 5); (colA, 14)] = Some [[(cab, f, INF)]; [(cab, f, INF)]].
  Proof. vm_compute. split; reflexivity. Qed.
  Example two_windows :
    history_ok [] None [(colW, 5); (colW, 16)] = true /\
    run_history 50 [] [] [(colW, 5); (colW, 16)] = Some [[(cab, f, 105)]; [(cab, f, 105)]].
  Proof. vm_compute. split; reflexivity. Qed.
  (* { ?x w:p ?y } => { ?x g:q ?y }: (a g:q b) is derived with expiry 11, then the static graph lists it *)
  Definition rG : rule := mkRule [(V 0, C (annotate [119; 47] b_p), V 1)] [(V 0, C (annotate [103; 47] b_q), V 1)].
  Definition sG1 : sds := mkSds [([119; 47], 10, [(b_a, b_p, b_b, 1)])] [([103; 47], [])] [].
  Definition sG2 : sds := mkSds [([119; 47], 10, [(b_a, b_p, b_b, 1)])] [([103; 47], [(b_a, b_q, b_b)])] [].
  Example static_graph_grows :
    history_ok [rG] None [(sG1, 1); (sG2, 2)] = true /\
    match run_history 50 [rG] [] [(sG1, 1); (sG2, 2)] with
    | Some [st1; st2] =>
        (map (fun x : N * triple * N => snd x) (filter (fun x : N * triple * N => triple_eqb (snd (fst x)) (enc b_a, annotate [103; 47] b_q, enc b_b)) st1),
         map (fun x : N * triple * N => snd x) (filter (fun x : N * triple * N => triple_eqb (snd (fst x)) (enc b_a, annotate [103; 47] b_q, enc b_b)) st2))
    | _ => ([], [])
    end = ([11], [INF]).
  Proof. vm_compute. split; reflexivity. Qed.
End Example2.

