Require Import KV.CrossWindow.Model KV.CrossWindow.Spec.
Theorem C12_stub : True. Proof. exact I. Qed.
Print Assumptions C12_stub.
