(* C12 - specification: what "from-scratch reasoning over the currently alive facts" yields and
   what "the latest time until which some derivation stays fully supported" is.

   base : the alive facts with their expiry (for a static fact: INF).
   `Der P base t f` : f has a derivation from the rules P all of whose leaves are base facts with
   expiry >= t, i.e. a derivation that is still fully supported at every time below t.
   `is_E P base f e` : e is the largest such t: the maximum over the derivations of f of the minimum
   over the leaves of their expiry  (Tree.v proves this reading with explicit derivation trees).
   `spec_E` is an executable oracle: plain (Jacobi) iteration of the annotated consequence operator
   from the base, no deltas and no in-place updates. *)
Require Import List NArith Bool.
Import ListNotations.
Require Import KV.CrossWindow.Model.
Open Scope N_scope.

Definition subst (sigma : N -> N) (t : term) : N :=
  match t with V x => sigma x | C c => c end.

Definition subst_pat (sigma : N -> N) (p : pattern) : triple :=
  (subst sigma (fst (fst p)), subst sigma (snd (fst p)), subst sigma (snd p)).

Inductive Der (P : list rule) (base : list (triple * N)) (t : N) : triple -> Prop :=
| Der_base : forall f e, In (f, e) base -> t <= e -> Der P base t f
| Der_rule : forall r sigma c,
    In r P ->
    Forall (Der P base t) (map (subst_pat sigma) (prem r)) ->
    In c (concl r) ->
    Der P base t (subst_pat sigma c).

Definition is_E (P : list rule) (base : list (triple * N)) (f : triple) (e : N) : Prop :=
  Der P base e f /\ forall t, Der P base t f -> t <= e.

(* plain derivability from the alive facts (what from-scratch reasoning yields) *)
Definition derivable (P : list rule) (base : list (triple * N)) (f : triple) : Prop :=
  Der P base 0 f.

(* ---- hypotheses on rule sets --------------------------------------------------------------- *)
Definition term_vars (t : term) : list N := match t with V x => [x] | C _ => [] end.
Definition pat_vars (p : pattern) : list N :=
  term_vars (fst (fst p)) ++ term_vars (snd (fst p)) ++ term_vars (snd p).

Definition mem_N (x : N) (l : list N) : bool := existsb (N.eqb x) l.

(* positive safe rule with at least one premise: every conclusion variable occurs in a premise *)
Definition wf_rule (r : rule) : bool :=
  negb (match prem r with [] => true | _ => false end) &&
  forallb (fun c => forallb (fun x => mem_N x (flat_map pat_vars (prem r))) (pat_vars c)) (concl r).

Definition wf_rules (P : list rule) : bool := forallb wf_rule P.

(* every conclusion predicate is a constant that belongs to a component (window, static graph or
   output IRI): "rule sets over window-annotated predicates" *)
Definition routed_rule (rt : N -> option N) (r : rule) : bool :=
  forallb (fun c : pattern => match snd (fst c) with
                              | C q => match rt q with Some _ => true | None => false end
                              | V _ => false
                              end) (concl r).
Definition routed_rules (rt : N -> option N) (P : list rule) : bool := forallb (routed_rule rt) P.

(* ---- executable oracle --------------------------------------------------------------------- *)
Fixpoint alookup (M : list (triple * N)) (f : triple) : option N :=
  match M with
  | [] => None
  | (g, e) :: M' => if triple_eqb f g then Some e else alookup M' f
  end.

Fixpoint ajoin (f : triple) (e : N) (M : list (triple * N)) : list (triple * N) :=
  match M with
  | [] => [(f, e)]
  | (g, e') :: M' => if triple_eqb f g then (g, N.max e e') :: M' else (g, e') :: ajoin f e M'
  end.

Definition all_solutions (ps : list pattern) (F : list triple) : list binding :=
  fold_left (fun bs p => extend p F bs) ps [[]].

Definition spec_min (M : list (triple * N)) (gs : list triple) : N :=
  fold_left (fun acc g => match alookup M g with Some e => N.min acc e | None => 0 end) gs INF.

(* one application of the annotated consequence operator to M, joined into M *)
Definition spec_round (P : list rule) (M : list (triple * N)) : list (triple * N) :=
  fold_left (fun acc r =>
    match prem r with
    | [] => acc
    | _ =>
      fold_left (fun acc b =>
        let t := spec_min M (inst_list b (prem r)) in
        fold_left (fun acc f => ajoin f t acc) (inst_list b (concl r)) acc)
        (all_solutions (prem r) (map fst M)) acc
    end) P M.

Definition same_map (M J : list (triple * N)) : bool :=
  Nat.eqb (length M) (length J) && forallb (fun x : triple * N => match alookup M (fst x) with Some e => e =? snd x | None => false end) J.

Fixpoint spec_iter (fuel : nat) (P : list rule) (M : list (triple * N)) : option (list (triple * N)) :=
  match fuel with
  | O => None
  | S k => let J := spec_round P M in if same_map M J then Some M else spec_iter k P J
  end.

(* E as a finite map: the least fixpoint reached from the base *)
Definition spec_E (fuel : nat) (P : list rule) (base : list (triple * N)) : option (list (triple * N)) :=
  spec_iter fuel P (fold_left (fun acc x => ajoin (fst x) (snd x) acc) base []).

(* the state the property demands at time now: every fact of E (all have expiry > now), per component *)
Definition spec_state (fuel : nat) (P : list rule) (rt : N -> option N) (base : list (triple * N)) : option state :=
  match spec_E fuel P base with
  | None => None
  | Some M => Some (flat_map (fun x : triple * N => match rt (tpred (fst x)) with Some c => [(c, fst x, snd x)] | None => [] end) M)
  end.
