(* C12 - specification: what "from-scratch reasoning over the currently alive facts" yields and
   what "the latest time until which some derivation stays fully supported" is.

   base : the alive facts with their expiry (for a static fact: INF).
   `Der P base t f` : f has a derivation from the rules P all of whose leaves are base facts with
   expiry >= t, i.e. a derivation that is still fully supported at every time below t.
   `is_E P base f e` : e is the largest such t: the maximum over the derivations of f of the minimum
   over the leaves of their expiry  (Tree.v proves this reading with explicit derivation trees).
   `spec_E` is an executable oracle: plain (Jacobi) iteration of the annotated consequence operator
   from the base, no deltas and no in-place updates. *)
Require Import List NArith Bool.
Import ListNotations.
Require Import KV.CrossWindow.Model.
Open Scope N_scope.

Definition subst (sigma : N -> N) (t : term) : N :=
  match t with V x => sigma x | C c => c end.

Definition subst_pat (sigma : N -> N) (p : pattern) : triple :=
  (subst sigma (fst (fst p)), subst sigma (snd (fst p)), subst sigma (snd p)).

Inductive Der (P : list rule) (base : list (triple * N)) (t : N) : triple -> Prop :=
| Der_base : forall f e, In (f, e) base -> t <= e -> Der P base t f
| Der_rule : forall r sigma c,
    In r P ->
    Forall (Der P base t) (map (subst_pat sigma) (prem r)) ->
    In c (concl r) ->
    Der P base t (subst_pat sigma c).

Definition is_E (P : list rule) (base : list (triple * N)) (f : triple) (e : N) : Prop :=
  Der P base e f /\ forall t, Der P base t f -> t <= e.

(* plain derivability from the alive facts (what from-scratch reasoning yields) *)
Definition derivable (P : list rule) (base : list (triple * N)) (f : triple) : Prop :=
  Der P base 0 f.

(* ---- hypotheses on rule sets --------------------------------------------------------------- *)
Definition term_vars (t : term) : list N := match t with V x => [x] | C _ => [] end.
Definition pat_vars (p : pattern) : list N :=
  term_vars (fst (fst p)) ++ term_vars (snd (fst p)) ++ term_vars (snd p).

Definition mem_N (x : N) (l : list N) : bool := existsb (N.eqb x) l.

(* positive safe rule with at least one premise: every conclusion variable occurs in a premise *)
Definition wf_rule (r : rule) : bool :=
  negb (match prem r with [] => true | _ => false end) &&
  forallb (fun c => forallb (fun x => mem_N x (flat_map pat_vars (prem r))) (pat_vars c)) (concl r).

Definition wf_rules (P : list rule) : bool := forallb wf_rule P.

(* every conclusion predicate is a constant that belongs to a component (window, static graph or
   output IRI): "rule sets over window-annotated predicates" *)
Definition routed_rule (rt : N -> option N) (r : rule) : bool :=
  forallb (fun c : pattern => match snd (fst c) with
                              | C q => match rt q with Some _ => true | None => false end
                              | V _ => false
                              end) (concl r).
Definition routed_rules (rt : N -> option N) (P : list rule) : bool := forallb (routed_rule rt) P.

(* ---- executable oracle --------------------------------------------------------------------- *)
Fixpoint alookup (M : list (triple * N)) (f : triple) : option N :=
  match M with
  | [] => None
  | (g, e) :: M' => if triple_eqb f g then Some e else alookup M' f
  end.

Fixpoint ajoin (f : triple) (e : N) (M : list (triple * N)) : list (triple * N) :=
  match M with
  | [] => [(f, e)]
  | (g, e') :: M' => if triple_eqb f g then (g, N.max e e') :: M' else (g, e') :: ajoin f e M'
  end.

Definition all_solutions (ps : list pattern) (F : list triple) : list binding :=
  fold_left (fun bs p => extend p F bs) ps [[]].

Definition spec_min (M : list (triple * N)) (gs : list triple) : N :=
  fold_left (fun acc g => match alookup M g with Some e => N.min acc e | None => 0 end) gs INF.

(* every consequence of one application of the annotated consequence operator to M: for every rule
   (with at least one premise) and every binding that matches all premises in M, the instantiated
   conclusions with the minimum of the premise values *)
Definition spec_jobs (P : list rule) (M : list (triple * N)) : list (N * triple) :=
  flat_map (fun r =>
    match prem r with
    | [] => []
    | _ => flat_map (fun b => map (fun f => (spec_min M (inst_list b (prem r)), f)) (inst_list b (concl r)))
                    (all_solutions (prem r) (map fst M))
    end) P.

(* ... joined (max) into M *)
Definition spec_round (P : list rule) (M : list (triple * N)) : list (triple * N) :=
  fold_left (fun acc (x : N * triple) => ajoin (snd x) (fst x) acc) (spec_jobs P M) M.

Definition same_map (M J : list (triple * N)) : bool :=
  Nat.eqb (length M) (length J) && forallb (fun x : triple * N => match alookup M (fst x) with Some e => e =? snd x | None => false end) J.

Fixpoint spec_iter (fuel : nat) (P : list rule) (M : list (triple * N)) : option (list (triple * N)) :=
  match fuel with
  | O => None
  | S k => let J := spec_round P M in if same_map M J then Some M else spec_iter k P J
  end.

(* E as a finite map: the least fixpoint reached from the base *)
Definition spec_E (fuel : nat) (P : list rule) (base : list (triple * N)) : option (list (triple * N)) :=
  spec_iter fuel P (fold_left (fun acc x => ajoin (fst x) (snd x) acc) base []).

(* the state the property demands at time now: every fact of E (all have expiry > now), per component *)
Definition spec_state (fuel : nat) (P : list rule) (rt : N -> option N) (base : list (triple * N)) : option state :=
  match spec_E fuel P base with
  | None => None
  | Some M => Some (flat_map (fun x : triple * N => match rt (tpred (fst x)) with Some c => [(c, fst x, snd x)] | None => [] end) M)
  end.

(* ---- the statement of the property at the level of alive facts ------------------------------- *)
(* `st` is E over `base` restricted to the facts of some component: every entry carries the
   component of its predicate and its E value (which exceeds now), and every fact that has a
   derivation supported beyond now and belongs to a component is listed.  (Classically this says
   In (c,f,e) st <-> rt (tpred f) = Some c /\ now < e /\ is_E P base f e; the second half is phrased
   with Der so that no maximum has to be chosen - see E_state_iff in StepProofs.v.) *)
Definition E_state (P : list rule) (base : list (triple * N)) (rt : N -> option N) (now : N) (st : state) : Prop :=
  (forall c f e, In (c, f, e) st -> rt (tpred f) = Some c /\ now < e /\ is_E P base f e) /\
  (forall t f c, Der P base t f -> now < t -> rt (tpred f) = Some c -> exists e, In (c, f, e) st).

(* every listed fact is alive at `now` and its expiry is a u64 *)
Definition alive_base (base : list (triple * N)) (now : N) : Prop :=
  forall f e, In (f, e) base -> now < e /\ e <= INF.

(* facts stay listed until they expire, and a re-arrival never shortens the expiry *)
Definition base_consistent (base base' : list (triple * N)) (now' : N) : Prop :=
  forall f e, In (f, e) base -> now' < e -> exists e', In (f, e') base' /\ e <= e'.

(* ---- the quantifier of the property, as boolean predicates on streaming datasets ---------------- *)
Fixpoint list_eqb {A : Type} (eqb : A -> A -> bool) (l l' : list A) : bool :=
  match l, l' with
  | [], [] => true
  | x :: r, y :: r' => eqb x y && list_eqb eqb r r'
  | _, _ => false
  end.

Definition str_eqb : str -> str -> bool := list_eqb N.eqb.
Definition key := (str * str * str)%type.
Definition key_eqb (a b : key) : bool :=
  str_eqb (fst (fst a)) (fst (fst b)) && str_eqb (snd (fst a)) (snd (fst b)) && str_eqb (snd a) (snd b).
Definition wkey (wt : wtriple) : key := fst wt.

Fixpoint nodupb {A : Type} (eqb : A -> A -> bool) (l : list A) : bool :=
  match l with
  | [] => true
  | x :: r => negb (existsb (eqb x) r) && nodupb eqb r
  end.

Fixpoint forall2b {A B : Type} (p : A -> B -> bool) (l : list A) (l' : list B) : bool :=
  match l, l' with
  | [], [] => true
  | x :: r, y :: r' => p x y && forall2b p r r'
  | _, _ => false
  end.

(* "each window content lists a triple once" *)
Definition listed_once (w : window) : bool := nodupb key_eqb (map wkey (snd w)).

(* "facts stay listed until they expire", "with its latest arrival time": an entry of the earlier
   content that is still alive at now' is listed in the later content of the same window, with an
   arrival time that is not earlier *)
Definition stays_listed (now' : N) (w w' : window) : bool :=
  str_eqb (fst (fst w)) (fst (fst w')) && (snd (fst w) =? snd (fst w')) &&
  forallb (fun wt : wtriple =>
             if sat_add (snd wt) (snd (fst w)) <=? now' then true
             else existsb (fun wt' : wtriple => key_eqb (wkey wt) (wkey wt') && (snd wt <=? snd wt')) (snd w'))
          (snd w).

(* every triple of static graph g is a triple of a static graph g' with the same IRI *)
Definition sgraph_sub (g g' : sgraph) : bool :=
  str_eqb (fst g) (fst g') && forallb (fun t => existsb (key_eqb t) (snd g')) (snd g).
Definition statics_sub (G G' : list sgraph) : bool :=
  forallb (fun g => existsb (sgraph_sub g) G') G.

(* two consecutive contents of a history: the same windows (same IRI and width, listed in the same
   order) and output IRIs; static graphs keep their triples (they may gain some); alive entries stay
   listed; every content lists a triple once *)
Definition window_consistent (S S' : sds) (now' : N) : bool :=
  forall2b (stays_listed now') (windows S) (windows S') &&
  forallb listed_once (windows S') &&
  statics_sub (statics S) (statics S') &&
  list_eqb str_eqb (outputs S) (outputs S').

(* evaluation times are below u64::MAX *)
Definition sds_ok (S : sds) (now : N) : bool := now <? INF.

(* a history of evaluations: strictly increasing times, consecutive contents window-consistent,
   every rule conclusion belongs to a component of every dataset *)
Fixpoint history_ok (P : list rule) (prev : option (sds * N)) (steps : list (sds * N)) : bool :=
  match steps with
  | [] => true
  | (S', now') :: rest =>
      sds_ok S' now' && routed_rules (route S') P &&
      match prev with
      | None => true
      | Some (S0, now) => (now <? now') && window_consistent S0 S' now'
      end &&
      history_ok P (Some (S', now')) rest
  end.
