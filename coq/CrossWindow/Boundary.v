(* The remaining hypotheses of the C12 theorems are needed: on the faithful model, dropping one of
   them admits a counterexample (computed with vm_compute); the check replays the same inputs on the
   real code (corpus/C12), which behaves as the model does.  Also: the seeding variant of the code
   before the repair of finding C12-annotation-collision, for the record. *)
Require Import List NArith Bool Lia.
Import ListNotations.
Require Import KV.CrossWindow.Model KV.CrossWindow.Spec KV.CrossWindow.RoundProofs.
Open Scope N_scope.

Definition b_s := [115].  Definition b_o := [111].  Definition b_p := [112].  Definition b_q := [113].
Definition b_a := [97].  Definition b_b := [98].  Definition b_c := [99].

(* ---- (A) two components list the same annotated triple (repaired in the repository) ---------------- *)
(* window <a/> (width 10) lists (s, "b/p", o) arrived at 5; static graph <a/b/> lists (s, "p", o).
   Both translate to (s, "a/b/p", o).  Before the repair the tag store was seeded entry by entry,
   the last entry winning and u64::MAX being skipped, which kept the finite expiry 15 of the window
   listing; the repaired seeding (Model.seed_tags) keeps the largest expiry, INF. *)
Definition colA : sds :=
  mkSds [([97; 47], 10, [(b_s, [98; 47; 112], b_o, 5)])] [([97; 47; 98; 47], [(b_s, b_p, b_o)])] [].

Definition seed_tags_prefix (l : list (triple * N)) : tagstore :=
  fold_left (fun tg (x : triple * N) => if snd x <? INF then set_tag (fst x) (snd x) tg else tg) l [].

Lemma prefix_seeding_collision :
  let l := translate colA 5 in
  let f := (enc b_s, annotate [97; 47; 98; 47] b_p, enc b_o) in
  In (f, 15) l /\ In (f, INF) l /\ get_tag (seed_tags_prefix l) f = 15 /\ get_tag (seed_tags l) f = INF.
Proof. vm_compute. repeat split; auto. Qed.

(* ---- (B) a static graph loses a triple along the history ---------------------------------------------- *)
(* static graphs may gain triples (window_consistent allows it since the repair), but a triple that
   disappears from a static graph stays in the carried-over state with expiry u64::MAX forever *)
Definition sB1 : sds := mkSds [([119; 47], 10, [])] [([103; 47], [(b_a, b_q, b_b)])] [].
Definition sB2 : sds := mkSds [([119; 47], 10, [])] [([103; 47], [])] [].

Lemma static_removal_refuted :
  exists (S S' : sds) (now now' : N) (old st' : state),
    now < now' /\ sds_ok S' now' = true /\
    window_consistent S S' now' = false /\
    incremental 50 [] S [] now = Some old /\
    incremental 50 [] S' old now' = Some st' /\
    ~ E_state [] (translate S' now') (route S') now' st'.
Proof.
  exists sB1, sB2, 1, 2.
  eexists. eexists. split; [lia|]. split; [vm_compute; reflexivity|]. split; [vm_compute; reflexivity|].
  split; [vm_compute; reflexivity|]. split; [vm_compute; reflexivity|].
  intros [H1 _].
  match type of H1 with forall c f e, In (c, f, e) [(?c0, ?f0, ?e0)] -> _ =>
    destruct (H1 c0 f0 e0 (or_introl eq_refl)) as (_ & _ & [Hd _]) end.
  inversion Hd as [f e Hin _ | r sigma c Hr _ _]; [vm_compute in Hin; exact Hin | destruct Hr].
Qed.

(* ---- (C) a rule concludes a predicate that belongs to no component ------------------------------------- *)
(* { ?x w:p ?y } => { ?x m ?y } ; { ?x m ?y . ?y v:p ?z } => { ?x o:p ?z }.  The intermediate fact (a m b)
   is not kept in the state (it has no component); when (b v:p c) arrives later only the new fact is in the
   delta, (a m b) is not re-derived, and (a o:p c) is missed, although from-scratch reasoning derives it. *)
Definition pm : N := enc [109].
Definition wp := annotate [119; 47] b_p.  Definition vp := annotate [118; 47] b_p.  Definition op := annotate [111; 47] b_p.
Definition rC1 : rule := mkRule [(V 0, C wp, V 1)] [(V 0, C pm, V 1)].
Definition rC2 : rule := mkRule [(V 0, C pm, V 1); (V 1, C vp, V 2)] [(V 0, C op, V 2)].
Definition sC1 : sds := mkSds [([119; 47], 10, [(b_a, b_p, b_b, 1)]); ([118; 47], 10, [])] [] [[111; 47]].
Definition sC2 : sds := mkSds [([119; 47], 10, [(b_a, b_p, b_b, 1)]); ([118; 47], 10, [(b_b, b_p, b_c, 2)])] [] [[111; 47]].

Lemma unrouted_refuted :
  exists (P : list rule) (S S' : sds) (now now' : N) (old st' : state),
    wf_rules P = true /\ routed_rules (route S) P = false /\ now < now' /\ sds_ok S' now' = true /\
    window_consistent S S' now' = true /\
    incremental 50 P S [] now = Some old /\
    incremental 50 P S' old now' = Some st' /\
    ~ E_state P (translate S' now') (route S') now' st'.
Proof.
  exists [rC1; rC2], sC1, sC2, 1, 2.
  eexists. eexists. split; [vm_compute; reflexivity|]. split; [vm_compute; reflexivity|]. split; [lia|].
  split; [vm_compute; reflexivity|]. split; [vm_compute; reflexivity|]. split; [vm_compute; reflexivity|].
  split; [vm_compute; reflexivity|].
  intros [_ H2].
  pose (sigma := fun x : N => if x =? 0 then enc b_a else if x =? 1 then enc b_b else enc b_c).
  assert (Der [rC1; rC2] (translate sC2 2) 11 (subst_pat sigma (V 0, C op, V 2))) as Hd.
  { apply Der_rule with (r := rC2); [right; left; reflexivity | | left; reflexivity].
    constructor; [|constructor; [|constructor]].
    - change (subst_pat sigma (V 0, C pm, V 1)) with (subst_pat sigma (V 0, C pm, V 1)).
      apply Der_rule with (r := rC1); [left; reflexivity | | left; reflexivity].
      constructor; [|constructor]. eapply Der_base; [vm_compute; left; reflexivity | lia].
    - eapply Der_base; [vm_compute; right; left; reflexivity | lia]. }
  destruct (H2 11 _ (enc [111; 47]) Hd) as (e & Hin); [lia | vm_compute; reflexivity|].
  vm_compute in Hin. repeat (destruct Hin as [Hin | Hin]; [discriminate Hin|]). exact Hin.
Qed.
