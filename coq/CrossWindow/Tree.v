(* Derivation trees: the reading of Der / is_E as "maximum over the derivations of a fact of the
   minimum over the leaves of their base expiry". *)
Require Import List NArith Bool Lia.
Import ListNotations.
Require Import KV.CrossWindow.Model KV.CrossWindow.Spec KV.CrossWindow.BasicProofs KV.CrossWindow.JoinProofs KV.CrossWindow.RoundProofs.
Open Scope N_scope.

(* a derivation: a base fact with its expiry, or a rule instance applied to sub-derivations *)
Inductive tree : Type :=
| Leaf (f : triple) (e : N)
| Node (r : rule) (sigma : N -> N) (c : pattern) (kids : list tree).

Definition root (t : tree) : triple :=
  match t with
  | Leaf f _ => f
  | Node _ sigma c _ => subst_pat sigma c
  end.

Fixpoint leaves (t : tree) : list (triple * N) :=
  match t with
  | Leaf f e => [(f, e)]
  | Node _ _ _ kids => flat_map leaves kids
  end.

(* min over the leaves of their expiry (the empty minimum is the top element INF) *)
Definition min_list (l : list N) : N := fold_right N.min INF l.
Definition value (t : tree) : N := min_list (map snd (leaves t)).

Fixpoint valid (P : list rule) (base : list (triple * N)) (t : tree) : Prop :=
  match t with
  | Leaf f e => In (f, e) base
  | Node r sigma c kids =>
      In r P /\ In c (concl r) /\ map root kids = map (subst_pat sigma) (prem r) /\
      (fix all (l : list tree) : Prop := match l with [] => True | k :: l' => valid P base k /\ all l' end) kids
  end.

Fixpoint all_valid (P : list rule) (base : list (triple * N)) (l : list tree) : Prop :=
  match l with [] => True | k :: l' => valid P base k /\ all_valid P base l' end.

Lemma valid_node : forall P base r sigma c kids,
  valid P base (Node r sigma c kids) <->
  (In r P /\ In c (concl r) /\ map root kids = map (subst_pat sigma) (prem r) /\ all_valid P base kids).
Proof.
  intros. cbn [valid]. assert (forall l, (fix all (l : list tree) : Prop := match l with [] => True | k :: l' => valid P base k /\ all l' end) l <-> all_valid P base l) as H.
  { induction l as [|k l IH]; cbn [all_valid]; [tauto | rewrite IH; tauto]. }
  rewrite H. tauto.
Qed.

Lemma all_valid_In : forall P base l, all_valid P base l <-> forall k, In k l -> valid P base k.
Proof.
  intros P base l. induction l as [|k l IH]; cbn [all_valid].
  - split; [intros _ k [] | auto].
  - rewrite IH. split.
    + intros [H1 H2] k' [<- | H]; auto.
    + intros H. split; [apply H; left; reflexivity | intros k' Hk; apply H; right; exact Hk].
Qed.

Lemma tree_ind' : forall Q : tree -> Prop,
  (forall f e, Q (Leaf f e)) ->
  (forall r sigma c kids, (forall k, In k kids -> Q k) -> Q (Node r sigma c kids)) ->
  forall t, Q t.
Proof.
  intros Q HL HN. fix IH 1. intros [f e | r sigma c kids]; [apply HL|].
  apply HN. induction kids as [|k kids IHk]; intros k' Hk; [destruct Hk|].
  destruct Hk as [<- | Hk]; [apply IH | apply IHk; exact Hk].
Qed.

Lemma min_list_le : forall l t, t <= min_list l <-> (t <= INF /\ forall x, In x l -> t <= x).
Proof.
  induction l as [|x l IH]; intros t; cbn [min_list fold_right].
  - split; [intros H; split; [exact H | intros x []] | tauto].
  - fold (min_list l). rewrite N.min_glb_iff, IH. split.
    + intros [H1 [H2 H3]]. split; [exact H2|]. intros y [<- | Hy]; auto.
    + intros [H1 H2]. split; [apply H2; left; reflexivity|]. split; [exact H1|]. intros y Hy. apply H2. right. exact Hy.
Qed.

Lemma value_le : forall tr t, t <= value tr <-> (t <= INF /\ forall g e, In (g, e) (leaves tr) -> t <= e).
Proof.
  intros tr t. unfold value. rewrite min_list_le. split; intros [H1 H2]; (split; [exact H1|]).
  - intros g e Hin. apply H2. apply in_map_iff. exists (g, e). auto.
  - intros x Hx. apply in_map_iff in Hx. destruct Hx as ([g e] & <- & Hin). apply (H2 g e Hin).
Qed.

(* a valid tree whose leaves all expire at t or later is a Der-derivation at threshold t *)
Lemma tree_Der : forall P base tr t,
  valid P base tr -> t <= value tr -> Der P base t (root tr).
Proof.
  intros P base tr. induction tr as [f e | r sigma c kids IH] using tree_ind'; intros t Hv Ht.
  - cbn [valid] in Hv. cbn [root]. eapply Der_base; [exact Hv|].
    apply value_le in Ht. destruct Ht as [_ Ht]. apply (Ht f e). left. reflexivity.
  - apply valid_node in Hv. destruct Hv as (Hr & Hc & Hroots & Hall). cbn [root].
    apply Der_rule with (r := r); [exact Hr | | exact Hc]. rewrite <- Hroots. apply Forall_forall.
    intros g Hg. apply in_map_iff in Hg. destruct Hg as (k & <- & Hk). apply IH; [exact Hk | |].
    + apply (proj1 (all_valid_In _ _ _) Hall k Hk).
    + apply value_le in Ht. destruct Ht as [H1 H2]. apply value_le. split; [exact H1|].
      intros g e Hin. apply (H2 g e). cbn [leaves]. apply in_flat_map. exists k. auto.
Qed.

(* conversely every Der-derivation is a valid tree whose value is at least the threshold *)
Lemma Der_tree : forall P base t f,
  t <= INF -> Der P base t f -> exists tr, valid P base tr /\ root tr = f /\ t <= value tr.
Proof.
  intros P base t f Hcap H. induction H as [f e Hin He | r sigma c Hr _ IH Hc] using Der_ind'.
  - exists (Leaf f e). split; [exact Hin|]. split; [reflexivity|]. apply value_le. split; [exact Hcap|].
    intros g e' [E | []]. injection E as <- <-. exact He.
  - assert (exists kids, map root kids = map (subst_pat sigma) (prem r) /\ all_valid P base kids /\
                         forall k, In k kids -> t <= value k) as (kids & Hroots & Hall & Hval).
    { revert IH. generalize (map (subst_pat sigma) (prem r)). intros l IH.
      induction IH as [|g l (tr & Hv & Hroot & Hval) _ IHl].
      - exists []. split; [reflexivity|]. split; [exact Logic.I | intros k []].
      - destruct IHl as (kids & Hroots & Hall & Hvals). exists (tr :: kids). split; [cbn [map]; congruence|].
        split; [split; assumption|]. intros k [<- | Hk]; auto. }
    exists (Node r sigma c kids). split; [apply valid_node; auto|]. split; [reflexivity|].
    apply value_le. split; [exact Hcap|]. intros g e Hin. cbn [leaves] in Hin. apply in_flat_map in Hin.
    destruct Hin as (k & Hk & Hin). specialize (Hval k Hk). apply value_le in Hval. destruct Hval as [_ Hval]. apply (Hval g e Hin).
Qed.

(* E f = max over the derivation trees of f of the min over the leaves of their base expiry *)
Theorem is_E_max_min : forall P base f e,
  wf_rules P = true -> (forall g x, In (g, x) base -> x <= INF) ->
  (is_E P base f e <->
   ((exists tr, valid P base tr /\ root tr = f /\ value tr = e) /\
    (forall tr, valid P base tr -> root tr = f -> value tr <= e))).
Proof.
  intros P base f e Hwf Hcap. split.
  - intros [Hd Hmax].
    assert (forall tr, valid P base tr -> root tr = f -> value tr <= e) as Hub.
    { intros tr Hv Hroot. apply Hmax. rewrite <- Hroot. apply tree_Der; [exact Hv | lia]. }
    split; [|exact Hub].
    destruct (Der_tree P base e f) as (tr & Hv & Hroot & Hle); [eapply Der_le_INF; eauto | exact Hd|].
    exists tr. split; [exact Hv|]. split; [exact Hroot|]. specialize (Hub tr Hv Hroot). lia.
  - intros [(tr & Hv & Hroot & <-) Hub]. split.
    + rewrite <- Hroot. apply tree_Der; [exact Hv | lia].
    + intros t Hd. destruct (Der_tree P base t f) as (tr' & Hv' & Hroot' & Hle); [eapply Der_le_INF; eauto | exact Hd|].
      specialize (Hub tr' Hv' Hroot'). lia.
Qed.
