(* Stretch: the stand-in for the dictionary is injective on byte strings, and the routing of an
   annotated predicate picks the longest component IRI that is a prefix of it (independently of the
   order in which the components are enumerated). *)
Require Import List NArith Bool Lia PeanoNat Sorting.Sorted.
Import ListNotations.
Require Import KV.CrossWindow.Model KV.CrossWindow.Spec.
Open Scope N_scope.

Definition bytes (s : str) : Prop := Forall (fun c => c < 256) s.

Lemma enc_cons : forall c s, enc (c :: s) = c + 1 + 512 * enc s.
Proof. reflexivity. Qed.

Lemma dec_fuel_enc : forall s k, bytes s -> (length s <= k)%nat -> dec_fuel k (enc s) = s.
Proof.
  induction s as [|c s IH]; intros k Hb Hk.
  - destruct k; reflexivity.
  - destruct k as [|k]; [cbn [length] in Hk; lia|]. inversion Hb as [|? ? Hc Hs]; subst.
    cbn [dec_fuel]. rewrite enc_cons.
    assert (c + 1 + 512 * enc s =? 0 = false) as -> by (apply N.eqb_neq; lia).
    change 511 with (N.ones 9). rewrite N.land_ones, N.shiftr_div_pow2. change (2 ^ 9) with 512.
    replace (c + 1 + 512 * enc s) with (c + 1 + enc s * 512) by lia.
    rewrite N.mod_add by lia. rewrite N.div_add by lia.
    rewrite N.mod_small by lia. rewrite N.div_small by lia.
    replace (c + 1 - 1) with c by lia. cbn [N.add]. f_equal. apply IH; [exact Hs | cbn [length] in Hk; lia].
Qed.

Lemma enc_lower : forall s, 2 ^ N.of_nat (length s) <= enc s + 1.
Proof.
  induction s as [|c s IH]; [cbn; lia|].
  cbn [length]. rewrite Nnat.Nat2N.inj_succ, N.pow_succ_r', enc_cons. lia.
Qed.

Lemma dec_enc : forall s, bytes s -> dec (enc s) = s.
Proof.
  intros s Hb. unfold dec. apply dec_fuel_enc; [exact Hb|].
  pose proof (enc_lower s) as Hl. pose proof (N.size_gt (enc s)) as Hg.
  assert (2 ^ N.of_nat (length s) <= 2 ^ N.size (enc s)) as Hp by lia.
  apply N.pow_le_mono_r_iff in Hp; lia.
Qed.

Theorem enc_injective : forall s s', bytes s -> bytes s' -> enc s = enc s' -> s = s'.
Proof. intros s s' Hb Hb' E. rewrite <- (dec_enc s Hb), <- (dec_enc s' Hb'), E. reflexivity. Qed.

(* ---- longest-prefix routing --------------------------------------------------------------------------- *)
Definition longer (a b : str) : Prop := (length b <= length a)%nat.

Lemma insert_In : forall s l x, In x (insert_by_len s l) <-> s = x \/ In x l.
Proof.
  intros s l x. induction l as [|y l IH]; cbn [insert_by_len]; [cbn; tauto|].
  destruct (Nat.ltb (length y) (length s)); cbn [In]; [tauto | rewrite IH; tauto].
Qed.

Lemma sort_In : forall l x, In x (sort_by_len l) <-> In x l.
Proof.
  intros l x. induction l as [|y l IH]; cbn [sort_by_len fold_right]; [tauto|].
  fold (sort_by_len l). rewrite insert_In, IH. cbn [In]. tauto.
Qed.

Lemma insert_sorted : forall s l, StronglySorted longer l -> StronglySorted longer (insert_by_len s l).
Proof.
  intros s l H. induction H as [|y l Hl IH Hy]; cbn [insert_by_len]; [constructor; constructor|].
  destruct (Nat.ltb (length y) (length s)) eqn:E.
  - apply Nat.ltb_lt in E. constructor; [constructor; assumption|].
    constructor; [unfold longer; lia|]. rewrite Forall_forall in *. intros z Hz. specialize (Hy z Hz). unfold longer in *. lia.
  - apply Nat.ltb_ge in E. constructor; [exact IH|]. rewrite Forall_forall in *. intros z Hz.
    apply insert_In in Hz. destruct Hz as [<- | Hz]; [exact E | apply Hy; exact Hz].
Qed.

Lemma sort_sorted : forall l, StronglySorted longer (sort_by_len l).
Proof.
  induction l as [|y l IH]; cbn [sort_by_len fold_right]; [constructor|]. apply insert_sorted. exact IH.
Qed.

Lemma first_prefix_sorted : forall iris p,
  StronglySorted longer iris ->
  match first_prefix iris p with
  | Some i => In i iris /\ is_prefix i p = true /\ forall j, In j iris -> is_prefix j p = true -> (length j <= length i)%nat
  | None => forall j, In j iris -> is_prefix j p = false
  end.
Proof.
  intros iris p H. induction H as [|y l Hl IH Hy]; cbn [first_prefix]; [intros j []|].
  destruct (is_prefix y p) eqn:E.
  - split; [left; reflexivity|]. split; [exact E|]. intros j [<- | Hj] _; [lia|].
    rewrite Forall_forall in Hy. apply (Hy j Hj).
  - destruct (first_prefix l p) as [i|].
    + destruct IH as (Hi & Hp & Hmax). split; [right; exact Hi|]. split; [exact Hp|].
      intros j [<- | Hj] Hjp; [congruence | apply Hmax; assumption].
    + intros j [<- | Hj]; [exact E | apply IH; exact Hj].
Qed.

(* the component of an annotated predicate is the longest component IRI that is a prefix of it *)
Theorem route_longest : forall S p,
  match route S p with
  | Some c => exists i, c = enc i /\
                In i (map (fun w : window => fst (fst w)) (windows S) ++ map fst (statics S) ++ outputs S) /\
                is_prefix i (dec p) = true /\
                forall j, In j (map (fun w : window => fst (fst w)) (windows S) ++ map fst (statics S) ++ outputs S) ->
                          is_prefix j (dec p) = true -> (length j <= length i)%nat
  | None => forall j, In j (map (fun w : window => fst (fst w)) (windows S) ++ map fst (statics S) ++ outputs S) ->
                      is_prefix j (dec p) = false
  end.
Proof.
  intros S p. unfold route, component_iris.
  set (l := map (fun w : window => fst (fst w)) (windows S) ++ map fst (statics S) ++ outputs S).
  pose proof (first_prefix_sorted (sort_by_len l) (dec p) (sort_sorted l)) as H.
  destruct (first_prefix (sort_by_len l) (dec p)) as [i|].
  - destruct H as (Hi & Hp & Hmax). exists i. split; [reflexivity|]. split; [apply sort_In; exact Hi|]. split; [exact Hp|].
    intros j Hj. apply Hmax. apply sort_In. exact Hj.
  - intros j Hj. apply H. apply sort_In. exact Hj.
Qed.

(* two prefixes of the same string that have the same length are equal: the longest matching IRI is
   unique, so the result does not depend on how the hash maps enumerate the components *)
Lemma prefix_same_length : forall a b p,
  is_prefix a p = true -> is_prefix b p = true -> length a = length b -> a = b.
Proof.
  induction a as [|x a IH]; intros [|y b] p Ha Hb Hl; try discriminate; [reflexivity|].
  destruct p as [|z p]; [discriminate|]. cbn [is_prefix] in Ha, Hb.
  apply andb_true_iff in Ha. apply andb_true_iff in Hb. destruct Ha as [Ex Ha]. destruct Hb as [Ey Hb].
  apply N.eqb_eq in Ex. apply N.eqb_eq in Ey. subst. f_equal. eapply IH; eauto.
Qed.
