(* The abstract join (`solutions`, `jobs`) computes exactly the ground instances of the rules
   whose premises are all present and one of whose premises is in the delta. *)
Require Import List NArith Bool Lia.
Import ListNotations.
Require Import KV.CrossWindow.Model KV.CrossWindow.Spec KV.CrossWindow.BasicProofs.
Open Scope N_scope.

Lemma extend_In : forall p fs bs b',
  In b' (extend p fs bs) <-> exists b f, In b bs /\ In f fs /\ match_pat p f b = Some b'.
Proof.
  intros p fs bs b'. unfold extend. rewrite in_flat_map. split.
  - intros (b & Hb & H). rewrite in_flat_map in H. destruct H as (f & Hf & H).
    destruct (match_pat p f b) as [b2|] eqn:E; [|destruct H].
    destruct H as [<- | []]. exists b, f. auto.
  - intros (b & f & Hb & Hf & E). exists b. split; [exact Hb|]. rewrite in_flat_map.
    exists f. split; [exact Hf|]. rewrite E. left. reflexivity.
Qed.

(* what a binding knows about a list of patterns: all of them except position i (counted from j) *)
Definition covers (b : binding) (all : list triple) (i j : nat) (ps : list pattern) : Prop :=
  forall k p, nth_error ps k = Some p -> (j + k)%nat <> i ->
    (forall x, In x (pat_vars p) -> bound b x) /\
    (forall sigma, agrees b sigma -> In (subst_pat sigma p) all).

Lemma join_others_sound : forall ps i j all bs b',
  In b' (join_others i j ps all bs) ->
  exists b, In b bs /\ extends b b' /\ covers b' all i j ps.
Proof.
  induction ps as [|p ps IH]; intros i j all bs b' H; cbn [join_others] in H.
  - exists b'. split; [exact H|]. split; [apply extends_refl|]. intros k q Hk. destruct k; discriminate.
  - apply IH in H. destruct H as (b1 & Hb1 & X1 & C1).
    destruct (Nat.eqb i j) eqn:Eij.
    + exists b1. split; [exact Hb1|]. split; [exact X1|].
      intros k q Hk Hne. destruct k as [|k].
      * apply PeanoNat.Nat.eqb_eq in Eij. lia.
      * cbn [nth_error] in Hk. apply (C1 k q Hk). lia.
    + apply extend_In in Hb1. destruct Hb1 as (b0 & f & Hb0 & Hf & Em).
      destruct (match_pat_sound _ _ _ _ Em) as (X0 & V0 & S0).
      exists b0. split; [exact Hb0|]. split; [eapply extends_trans; eauto|].
      intros k q Hk Hne. destruct k as [|k].
      * cbn [nth_error] in Hk. injection Hk as <-. split.
        -- intros x Hx. eapply extends_bound; [exact X1|]. apply V0. exact Hx.
        -- intros sigma Ha. rewrite (S0 sigma (extends_agrees _ _ _ X1 Ha)). exact Hf.
      * cbn [nth_error] in Hk. apply (C1 k q Hk). lia.
Qed.

Lemma join_others_complete : forall ps i j all bs b sigma,
  In b bs -> agrees b sigma ->
  (forall k p, nth_error ps k = Some p -> (j + k)%nat <> i -> In (subst_pat sigma p) all) ->
  exists b', In b' (join_others i j ps all bs) /\ agrees b' sigma.
Proof.
  induction ps as [|p ps IH]; intros i j all bs b sigma Hb Ha Hall; cbn [join_others].
  - exists b. auto.
  - destruct (Nat.eqb i j) eqn:Eij.
    + apply (IH i (S j) all bs b sigma Hb Ha).
      intros k q Hk Hne. apply (Hall (S k) q); [exact Hk | lia].
    + destruct (match_pat_complete p b sigma Ha) as (b1 & Em & A1).
      apply (IH i (S j) all (extend p all bs) b1 sigma).
      * apply extend_In. exists b, (subst_pat sigma p). split; [exact Hb|]. split; [|exact Em].
        apply (Hall 0%nat p); [reflexivity|]. apply PeanoNat.Nat.eqb_neq in Eij. lia.
      * exact A1.
      * intros k q Hk Hne. apply (Hall (S k) q); [exact Hk | lia].
Qed.

Lemma solutions_sound : forall ps all delta b,
  incl delta all ->
  In b (solutions ps all delta) ->
  (forall p x, In p ps -> In x (pat_vars p) -> bound b x) /\
  (forall sigma, agrees b sigma -> forall p, In p ps -> In (subst_pat sigma p) all).
Proof.
  intros ps all delta b Hinc H. unfold solutions in H. rewrite in_flat_map in H.
  destruct H as (i & _ & H). unfold solutions_at in H.
  destruct (nth_error ps i) as [pi|] eqn:Ei; [|destruct H].
  apply join_others_sound in H. destruct H as (b0 & Hb0 & X0 & Cov).
  apply extend_In in Hb0. destruct Hb0 as (b00 & f & _ & Hf & Em).
  destruct (match_pat_sound _ _ _ _ Em) as (_ & V0 & S0).
  split.
  - intros p x Hp Hx. apply In_nth_error in Hp. destruct Hp as (k & Hk).
    destruct (PeanoNat.Nat.eq_dec k i) as [-> | Hne].
    + rewrite Ei in Hk. injection Hk as <-. eapply extends_bound; [exact X0|]. apply V0. exact Hx.
    + apply (Cov k p Hk); [cbn; lia | exact Hx].
  - intros sigma Ha p Hp. apply In_nth_error in Hp. destruct Hp as (k & Hk).
    destruct (PeanoNat.Nat.eq_dec k i) as [-> | Hne].
    + rewrite Ei in Hk. injection Hk as <-. apply Hinc.
      rewrite (S0 sigma (extends_agrees _ _ _ X0 Ha)). exact Hf.
    + apply (Cov k p Hk); [cbn; lia | exact Ha].
Qed.

Lemma solutions_complete : forall ps all delta sigma,
  (forall p, In p ps -> In (subst_pat sigma p) all) ->
  (exists p, In p ps /\ In (subst_pat sigma p) delta) ->
  exists b, In b (solutions ps all delta) /\ agrees b sigma.
Proof.
  intros ps all delta sigma Hall (pi & Hpi & Hd).
  destruct (In_nth_error _ _ Hpi) as (i & Ei).
  destruct (match_pat_complete pi [] sigma (agrees_nil sigma)) as (b0 & Em & A0).
  destruct (join_others_complete ps i 0 all (extend pi delta [[]]) b0 sigma) as (b & Hb & Ab).
  - apply extend_In. exists [], (subst_pat sigma pi). split; [left; reflexivity|]. split; [exact Hd | exact Em].
  - exact A0.
  - intros k q Hk _. apply Hall. eapply nth_error_In. exact Hk.
  - exists b. split; [|exact Ab]. unfold solutions. rewrite in_flat_map. exists i. split.
    + apply in_seq. split; [lia|]. cbn. apply nth_error_Some. congruence.
    + unfold solutions_at. rewrite Ei. exact Hb.
Qed.

(* ---- rule hypotheses ------------------------------------------------------------------------ *)
Lemma mem_N_In : forall x l, mem_N x l = true <-> In x l.
Proof.
  intros x l. unfold mem_N. rewrite existsb_exists. split.
  - intros (y & Hy & E). apply N.eqb_eq in E. subst. exact Hy.
  - intros H. exists x. split; [exact H | apply N.eqb_refl].
Qed.

Lemma wf_rule_nonempty : forall r, wf_rule r = true -> prem r <> [].
Proof.
  intros r H. unfold wf_rule in H. apply andb_true_iff in H. destruct H as [H _].
  destruct (prem r); [discriminate H | discriminate].
Qed.

Lemma wf_rule_safe : forall r c x,
  wf_rule r = true -> In c (concl r) -> In x (pat_vars c) -> exists p, In p (prem r) /\ In x (pat_vars p).
Proof.
  intros r c x H Hc Hx. unfold wf_rule in H. apply andb_true_iff in H. destruct H as [_ H].
  rewrite forallb_forall in H. specialize (H c Hc). rewrite forallb_forall in H. specialize (H x Hx).
  apply mem_N_In in H. apply in_flat_map in H. exact H.
Qed.

Lemma wf_rules_In : forall P r, wf_rules P = true -> In r P -> wf_rule r = true.
Proof. intros P r H Hr. unfold wf_rules in H. rewrite forallb_forall in H. apply H. exact Hr. Qed.

(* ---- jobs ----------------------------------------------------------------------------------- *)
Lemma jobs_sound : forall P F D gs fs,
  wf_rules P = true -> incl D F ->
  In (gs, fs) (jobs P F D) ->
  exists r sigma, In r P /\ gs = map (subst_pat sigma) (prem r) /\ fs = map (subst_pat sigma) (concl r) /\
                  (forall g, In g gs -> In g F).
Proof.
  intros P F D gs fs Hwf Hinc H. unfold jobs in H. rewrite in_flat_map in H.
  destruct H as (r & Hr & H). unfold rule_jobs in H. rewrite in_map_iff in H.
  destruct H as (b & Hb & Hs). injection Hb as <- <-.
  destruct (solutions_sound _ _ _ _ Hinc Hs) as (Hbound & Hall).
  pose proof (agrees_sigma_of b) as Ha.
  exists r, (sigma_of b). split; [exact Hr|]. split; [|split].
  - apply inst_list_agrees; [exact Ha | exact Hbound].
  - apply inst_list_agrees; [exact Ha|]. intros c x Hc Hx.
    destruct (wf_rule_safe r c x (wf_rules_In _ _ Hwf Hr) Hc Hx) as (p & Hp & Hxp).
    apply (Hbound p x Hp Hxp).
  - intros g Hg. rewrite (inst_list_agrees b (sigma_of b) (prem r) Ha Hbound) in Hg.
    apply in_map_iff in Hg. destruct Hg as (p & <- & Hp). apply (Hall _ Ha p Hp).
Qed.

Lemma subst_pat_ext : forall sigma sigma' p,
  (forall x, In x (pat_vars p) -> sigma x = sigma' x) -> subst_pat sigma p = subst_pat sigma' p.
Proof.
  intros sigma sigma' [[ts tp] to] H. unfold subst_pat, pat_vars in *. cbn [fst snd] in *.
  assert (forall t, (forall x, In x (term_vars t) -> sigma x = sigma' x) -> subst sigma t = subst sigma' t) as A.
  { intros [x|c] Ht; cbn [subst]; [apply Ht; left; reflexivity | reflexivity]. }
  rewrite (A ts), (A tp), (A to); [reflexivity | | |]; intros x Hx; apply H; rewrite !in_app_iff; auto.
Qed.

Lemma jobs_complete : forall P F D r sigma,
  wf_rules P = true -> incl D F -> In r P ->
  (forall p, In p (prem r) -> In (subst_pat sigma p) F) ->
  (exists p, In p (prem r) /\ In (subst_pat sigma p) D) ->
  In (map (subst_pat sigma) (prem r), map (subst_pat sigma) (concl r)) (jobs P F D).
Proof.
  intros P F D r sigma Hwf Hinc Hr Hall Hd.
  destruct (solutions_complete (prem r) F D sigma Hall Hd) as (b & Hb & Ha).
  destruct (solutions_sound _ _ _ _ Hinc Hb) as (Hbound & _).
  unfold jobs. rewrite in_flat_map. exists r. split; [exact Hr|].
  unfold rule_jobs. rewrite in_map_iff. exists b. split; [|exact Hb].
  f_equal.
  - apply inst_list_agrees; [exact Ha | exact Hbound].
  - apply inst_list_agrees; [exact Ha|]. intros c x Hc Hx.
    destruct (wf_rule_safe r c x (wf_rules_In _ _ Hwf Hr) Hc Hx) as (p & Hp & Hxp).
    apply (Hbound p x Hp Hxp).
Qed.
