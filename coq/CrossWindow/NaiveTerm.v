(* Termination of the model of naive_sds_plus (the from-scratch evaluation without tags): the loop
   returns as soon as the fuel exceeds twice the number of triples over the constants of the alive
   facts and the rules.  Same potential argument as Termination.v, at the trivial annotation
   (every tag is INF, one expiry level). *)
Require Import List NArith Bool Lia PeanoNat.
Import ListNotations.
Require Import KV.CrossWindow.Model KV.CrossWindow.Spec KV.CrossWindow.BasicProofs KV.CrossWindow.JoinProofs
        KV.CrossWindow.RoundProofs KV.CrossWindow.StepProofs KV.CrossWindow.SdsProofs KV.CrossWindow.Termination.
Open Scope N_scope.

Definition naive_facts (base : list (triple * N)) : list triple := dedup (map fst base).
Definition naive_consts (P : list rule) (base : list (triple * N)) : list N :=
  flat_map fact_consts (naive_facts base) ++ flat_map rule_consts P.
Definition naive_bound (P : list rule) (base : list (triple * N)) : nat :=
  S (length (universe (naive_consts P base)) * 2).

(* the loop invariant at the start of the from-scratch evaluation (over the erased base) *)
Lemma naive_LInv : forall P base,
  wf_rules P = true ->
  LInv P (erase base) (naive_facts base) [] (naive_facts base).
Proof.
  intros P base Hwf. unfold naive_facts. split; [|split; [|split]].
  - intros x Hx. exact Hx.
  - intros g Hg. cbn [get_tag]. split; [unfold INF; lia|]. apply (proj1 (dedup_In _ _)) in Hg. apply in_map_iff in Hg.
    destruct Hg as ([g' e] & <- & Hin). eapply Der_base; [|apply N.le_refl]. unfold erase. apply in_map_iff. exists (g', e). auto.
  - intros g e Hin. unfold erase in Hin. apply in_map_iff in Hin. destruct Hin as ([g' e'] & E & Hin). injection E as <- <-.
    cbn [get_tag]. split; [|lia]. apply (proj2 (dedup_In _ _)). apply in_map_iff. exists (g', e'). auto.
  - intros gs g (r & sigma & c0 & Hr & Egs & _ & _ & HgsF). left.
    pose proof (wf_rule_nonempty r (wf_rules_In _ _ Hwf Hr)) as Hne.
    destruct (prem r) as [|p ps]; [contradiction Hne; reflexivity|].
    exists (subst_pat sigma p). rewrite Egs. split; [left; reflexivity|]. apply HgsF. rewrite Egs. left. reflexivity.
Qed.

Theorem naive_core_terminates : forall fuel P rt base,
  wf_rules P = true ->
  (naive_bound P base <= fuel)%nat ->
  exists l, naive_core fuel P rt base = Some l.
Proof.
  intros fuel P rt base Hwf Hfuel. unfold naive_core. fold (naive_facts base).
  destruct (loop_terminates P (erase base) Hwf (naive_consts P base) [INF]) with
      (fuel := fuel) (F := naive_facts base) (tg := @nil (triple * N)) (D := naive_facts base) as (F' & tg' & E).
  - intros r k Hr Hk. unfold naive_consts. apply in_or_app. right. apply in_flat_map. exists r. auto.
  - left. reflexivity.
  - apply naive_LInv. exact Hwf.
  - split; [apply dedup_NoDup|]. split.
    + intros f Hf. unfold inU, naive_consts. rewrite !in_app_iff, !in_flat_map.
      split; [|split]; left; exists f; (split; [exact Hf|]); unfold fact_consts; cbn; auto.
    + intros f _. cbn [get_tag]. left. reflexivity.
  - unfold naive_bound in Hfuel. cbn [length]. lia.
  - rewrite E. eexists. reflexivity.
Qed.

(* total correctness: with enough fuel the model of naive_sds_plus returns, and what it returns is, per
   component, exactly the set of facts derivable from the alive facts *)
Theorem naive_total : forall fuel P S now,
  wf_rules P = true ->
  (naive_bound P (translate S now) <= fuel)%nat ->
  exists l, naive fuel P S now = Some l /\
            forall c f, In (c, f) l <-> (route S (tpred f) = Some c /\ derivable P (translate S now) f).
Proof.
  intros fuel P S now Hwf Hfuel. unfold naive.
  destruct (naive_core_terminates fuel P (route S) (translate S now) Hwf Hfuel) as (l & El).
  exists l. split; [exact El|]. eapply naive_core_correct; eassumption.
Qed.

(* the result does not depend on the fuel once it suffices *)
Theorem naive_fuel_irrelevant : forall fuel fuel' P S now l l',
  wf_rules P = true ->
  naive fuel P S now = Some l -> naive fuel' P S now = Some l' ->
  forall x, In x l <-> In x l'.
Proof.
  intros fuel fuel' P S now l l' Hwf H H' [c f].
  unfold naive in *.
  rewrite (naive_core_correct fuel P (route S) (translate S now) l Hwf H c f).
  rewrite (naive_core_correct fuel' P (route S) (translate S now) l' Hwf H' c f). tauto.
Qed.
