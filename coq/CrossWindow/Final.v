(* The statements of C12.v, assembled from the lemmas of the other files. *)
Require Import List NArith Bool Lia.
Import ListNotations.
Require Import KV.CrossWindow.Model KV.CrossWindow.Spec KV.CrossWindow.BasicProofs KV.CrossWindow.JoinProofs
        KV.CrossWindow.RoundProofs KV.CrossWindow.StepProofs KV.CrossWindow.SdsProofs KV.CrossWindow.Termination.
Open Scope N_scope.

Lemma fixpoint_thm : forall fuel P rt base st,
  wf_rules P = true ->
  (forall f e, In (f, e) base -> 0 < e /\ e <= INF) ->
  scratch_core fuel P rt base = Some st ->
  forall c f e, In (c, f, e) st <-> (rt (tpred f) = Some c /\ is_E P base f e).
Proof.
  intros fuel P rt base st Hwf Hb H c f e.
  assert (E_state P base rt 0 st) as HE.
  { eapply first_base; try eassumption. unfold INF. lia. }
  rewrite (E_state_iff _ _ _ _ _ HE c f e). split; [tauto|].
  intros [Hr HEf]. split; [exact Hr|]. split; [|exact HEf].
  eapply is_E_alive; [|exact Hb | exact HEf]. unfold INF. lia.
Qed.

Lemma step_thm : forall fuel P S S' old now now' st',
  wf_rules P = true -> routed_rules (route S) P = true ->
  now < now' -> sds_ok S' now' = true -> window_consistent S S' now' = true ->
  E_state P (translate S now) (route S) now old ->
  incremental fuel P S' old now' = Some st' ->
  E_state P (translate S' now') (route S') now' st'.
Proof.
  intros fuel P S S' old now now' st' Hwf Hrt Hlt Hsok Hwc HE H.
  unfold sds_ok in Hsok. rename Hsok into Hnow. apply N.ltb_lt in Hnow. unfold incremental in H.
  eapply (step_base fuel P (route S) (route S') (translate S now) (translate S' now') old now now' st'); try eassumption.
  - lia.
  - apply translate_alive. exact Hnow.
  - apply consistent_translate. exact Hwc.
Qed.

Lemma first_thm : forall fuel P S now st,
  wf_rules P = true -> sds_ok S now = true ->
  incremental fuel P S [] now = Some st ->
  E_state P (translate S now) (route S) now st.
Proof.
  intros fuel P S now st Hwf Hsok H.
  unfold sds_ok in Hsok. rename Hsok into Hnow. apply N.ltb_lt in Hnow. unfold incremental in H.
  eapply first_base; try eassumption. apply translate_alive. exact Hnow.
Qed.

Lemma naive_thm : forall fuel P S now l,
  wf_rules P = true -> naive fuel P S now = Some l ->
  forall c f, In (c, f) l <-> (route S (tpred f) = Some c /\ derivable P (translate S now) f).
Proof. intros fuel P S now l Hwf H. unfold naive in H. eapply naive_core_correct; eassumption. Qed.

(* what the property demands of one evaluation: the state is E restricted to the components, and
   its facts are, per component, exactly the facts of from-scratch reasoning *)
Definition step_ok (fuel : nat) (P : list rule) (x : sds * N) (st : state) : Prop :=
  E_state P (translate (fst x) (snd x)) (route (fst x)) (snd x) st /\
  (forall l, naive fuel P (fst x) (snd x) = Some l -> forall c f, In (c, f) l <-> exists e, In (c, f, e) st).

Lemma history_ok_now : forall P prev steps x,
  history_ok P prev steps = true -> In x steps -> snd x < INF.
Proof.
  intros P prev steps. revert prev. induction steps as [|[S' now'] rest IH]; intros prev x H Hx; [destruct Hx|].
  cbn [history_ok] in H. rewrite !andb_true_iff in H. destruct H as [[[Hsok _] _] Hrest].
  destruct Hx as [<- | Hx]; [|eapply IH; eauto].
  unfold sds_ok in Hsok. apply N.ltb_lt in Hsok. exact Hsok.
Qed.

Lemma history_thm : forall fuel P steps outs,
  wf_rules P = true ->
  history_ok P None steps = true ->
  run_history fuel P [] steps = Some outs ->
  Forall2 (step_ok fuel P) steps outs.
Proof.
  intros fuel P steps outs Hwf Hok Hrun.
  pose proof (history_gen fuel P steps None [] outs Hwf Hok eq_refl Hrun) as H.
  assert (forall x, In x steps -> snd x < INF) as Hnow by (intros x Hx; eapply history_ok_now; eauto).
  clear Hok Hrun. induction H as [|x st steps outs Hx _ IH]; constructor.
  - split; [exact Hx|]. intros l Hl c f.
    rewrite (naive_thm fuel P (fst x) (snd x) l Hwf Hl c f).
    symmetry. eapply E_state_support; [|exact Hx]. apply translate_alive. apply Hnow. left. reflexivity.
  - apply IH. intros y Hy. apply Hnow. right. exact Hy.
Qed.

(* ---- termination ------------------------------------------------------------------------------------------ *)
Lemma terminates_base : forall P rt' base' old now' fuel,
  wf_rules P = true -> now' < INF -> alive_base base' now' ->
  old_ok P base' old now' ->
  (fuel_bound P base' old now' <= fuel)%nat ->
  exists st', incr_core fuel P rt' base' old now' = Some st'.
Proof.
  intros P rt' base' old now' fuel Hwf Hnow Halive (O1 & O2) Hfuel.
  apply incr_core_terminates; [exact Hwf | | exact Hfuel].
  exact (incr_LInv P base' old now' Hwf Hnow Halive O1 O2).
Qed.

Lemma scratch_terminates : forall fuel P rt base,
  wf_rules P = true ->
  (forall f e, In (f, e) base -> 0 < e /\ e <= INF) ->
  (fuel_bound P base [] 0 <= fuel)%nat ->
  exists st, scratch_core fuel P rt base = Some st.
Proof.
  intros fuel P rt base Hwf Hb Hfuel. unfold scratch_core.
  apply terminates_base; try assumption; [unfold INF; lia | apply empty_old_ok; exact Hwf].
Qed.

Lemma step_terminates : forall fuel P S S' old now now',
  wf_rules P = true -> routed_rules (route S) P = true ->
  now < now' -> sds_ok S' now' = true -> window_consistent S S' now' = true ->
  E_state P (translate S now) (route S) now old ->
  (fuel_bound P (translate S' now') old now' <= fuel)%nat ->
  exists st', incremental fuel P S' old now' = Some st'.
Proof.
  intros fuel P S S' old now now' Hwf Hrt Hlt Hsok Hwc HE Hfuel.
  unfold sds_ok in Hsok. rename Hsok into Hnow. apply N.ltb_lt in Hnow. unfold incremental.
  apply terminates_base; try assumption; [apply translate_alive; exact Hnow|].
  eapply (step_old_ok P (route S) (translate S now) (translate S' now') old now now'); try eassumption.
  - lia.
  - apply consistent_translate. exact Hwc.
Qed.

Lemma first_terminates : forall fuel P S now,
  wf_rules P = true -> sds_ok S now = true ->
  (fuel_bound P (translate S now) [] now <= fuel)%nat ->
  exists st, incremental fuel P S [] now = Some st.
Proof.
  intros fuel P S now Hwf Hsok Hfuel.
  unfold sds_ok in Hsok. rename Hsok into Hnow. apply N.ltb_lt in Hnow. unfold incremental.
  apply terminates_base; try assumption; [apply translate_alive; exact Hnow | apply empty_old_ok; exact Hwf].
Qed.

(* more fuel never changes a result *)
Lemma loop_fuel_mono : forall P k fuel F tg D r,
  loop fuel P F tg D = Some r -> loop (fuel + k) P F tg D = Some r.
Proof.
  intros P k. induction fuel as [|n IH]; intros F tg D r H; [discriminate|].
  cbn [loop Nat.add] in *. destruct (round P F tg D) as [[tg1 new] imp]. cbn [fst snd] in *.
  destruct new as [|x new]; [destruct imp as [|y imp]; [exact H|]|]; apply IH; exact H.
Qed.

Lemma incremental_fuel_mono : forall P S old now fuel fuel' st,
  (fuel <= fuel')%nat -> incremental fuel P S old now = Some st -> incremental fuel' P S old now = Some st.
Proof.
  intros P S old now fuel fuel' st Hle H. unfold incremental, incr_core in *.
  destruct (loop fuel P _ _ _) as [[F tg]|] eqn:E; [|discriminate].
  replace fuel' with (fuel + (fuel' - fuel))%nat by lia. rewrite (loop_fuel_mono _ _ _ _ _ _ _ E). exact H.
Qed.

(* every admissible history is evaluated to the end once the fuel is large enough *)
Lemma history_total_gen : forall P steps prev old,
  wf_rules P = true ->
  history_ok P prev steps = true ->
  match prev with
  | None => old = []
  | Some (S0, now) => E_state P (translate S0 now) (route S0) now old /\ routed_rules (route S0) P = true
  end ->
  exists fuel0, forall fuel, (fuel0 <= fuel)%nat -> exists outs, run_history fuel P old steps = Some outs.
Proof.
  intros P steps. induction steps as [|[S' now'] rest IH]; intros prev old Hwf Hok Hprev.
  - exists 0%nat. intros fuel _. exists []. reflexivity.
  - cbn [history_ok] in Hok. rewrite !andb_true_iff in Hok. destruct Hok as [[[Hsok Hrt'] Hcons] Hrest].
    set (b1 := fuel_bound P (translate S' now') old now').
    assert (exists st, incremental b1 P S' old now' = Some st /\ E_state P (translate S' now') (route S') now' st) as (st & Hst & HE).
    { destruct prev as [[S0 now]|].
      - destruct Hprev as [HE0 Hrt0]. apply andb_true_iff in Hcons. destruct Hcons as [Hlt Hwc]. apply N.ltb_lt in Hlt.
        destruct (step_terminates b1 P S0 S' old now now' Hwf Hrt0 Hlt Hsok Hwc HE0 (le_n _)) as (st & Hst).
        exists st. split; [exact Hst|]. eapply step_thm; eassumption.
      - subst old. destruct (first_terminates b1 P S' now' Hwf Hsok (le_n _)) as (st & Hst).
        exists st. split; [exact Hst|]. eapply first_thm; eassumption. }
    destruct (IH (Some (S', now')) st Hwf Hrest (conj HE Hrt')) as (fuel1 & Hrest').
    exists (Nat.max b1 fuel1). intros fuel Hfuel. cbn [run_history].
    rewrite (incremental_fuel_mono P S' old now' b1 fuel st) by (assumption || lia).
    destruct (Hrest' fuel) as (outs & ->); [lia|]. eexists. reflexivity.
Qed.

Lemma history_total : forall P steps,
  wf_rules P = true -> history_ok P None steps = true ->
  exists fuel0, forall fuel, (fuel0 <= fuel)%nat -> exists outs, run_history fuel P [] steps = Some outs.
Proof. intros P steps Hwf Hok. apply (history_total_gen P steps None [] Hwf Hok eq_refl). Qed.
