(* Entry points for the correspondence check: run the model of incremental_sds_plus along a
   history (carrying its own state), the model of naive_sds_plus and the Spec oracle at every
   step, rendered as numbers. *)
Require Import List NArith Bool.
Import ListNotations.
Require Import KV.CrossWindow.Model KV.CrossWindow.Spec.
Open Scope N_scope.

(* Printing 200-bit numbers dominates the cost of a case, so every id is rendered as its position in
   a table of the strings of the case (given by the check); an id outside the table is rendered as
   the length of the table. *)
Fixpoint idx (names : list N) (x : N) : N :=
  match names with
  | [] => 0
  | y :: names' => if x =? y then 0 else 1 + idx names' x
  end.

Definition r_state (nm : list N) (st : state) : list (N * N * N * N * N) :=
  map (fun x : N * triple * N => (idx nm (fst (fst x)), idx nm (tsubj (snd (fst x))), idx nm (tpred (snd (fst x))), idx nm (tobj (snd (fst x))), snd x)) st.

Definition r_naive (nm : list N) (l : list (N * triple)) : list (N * N * N * N) :=
  map (fun x : N * triple => (idx nm (fst x), idx nm (tsubj (snd x)), idx nm (tpred (snd x)), idx nm (tobj (snd x)))) l.

Definition omap {A B} (f : A -> B) (o : option A) : option B :=
  match o with Some a => Some (f a) | None => None end.

(* per step: (incremental, naive, spec) ; the incremental state is carried to the next step *)
Fixpoint run_case_ids (nm : list N) (fuel : nat) (P : list rule) (old : state) (steps : list (sds * N))
  : list (option (list (N * N * N * N * N)) * option (list (N * N * N * N)) * option (list (N * N * N * N * N))) :=
  match steps with
  | [] => []
  | (Sd, now) :: rest =>
      let inc := incremental fuel P Sd old now in
      let nv := naive fuel P Sd now in
      let sp := spec_state fuel P (route Sd) (translate Sd now) in
      (omap (r_state nm) inc, omap (r_naive nm) nv, omap (r_state nm) sp) ::
      match inc with
      | Some st => run_case_ids nm fuel P st rest
      | None => []
      end
  end.

Definition run_case (names : list str) (fuel : nat) (P : list rule) (old : state) (steps : list (sds * N)) :=
  run_case_ids (map enc names) fuel P old steps.
