(* The incremental step: the state seeded from the carried-over entries and the new / renewed alive
   facts satisfies the loop invariant, hence incremental = E over the new alive facts. *)
Require Import List NArith Bool Lia.
Import ListNotations.
Require Import KV.CrossWindow.Model KV.CrossWindow.Spec KV.CrossWindow.BasicProofs KV.CrossWindow.JoinProofs KV.CrossWindow.RoundProofs.
Open Scope N_scope.

(* ---- seeding of the tag store ----------------------------------------------------------------- *)
Definition seed_step (l : list (triple * N)) (tg : tagstore) (f : triple) : tagstore :=
  match old_max l f with Some e => set_tag f e tg | None => tg end.

Lemma seed_fold_notin : forall l ks tg f,
  ~ In f ks -> get_tag (fold_left (seed_step l) ks tg) f = get_tag tg f.
Proof.
  intros l. induction ks as [|k ks IH]; intros tg f Hn; cbn [fold_left]; [reflexivity|].
  rewrite IH by (intros H; apply Hn; right; exact H).
  unfold seed_step. destruct (old_max l k); [|reflexivity].
  apply get_set_other. intros ->. apply Hn. left. reflexivity.
Qed.

Lemma seed_fold_in : forall l ks tg f,
  NoDup ks -> In f ks ->
  get_tag (fold_left (seed_step l) ks tg) f = match old_max l f with Some e => e | None => get_tag tg f end.
Proof.
  intros l. induction ks as [|k ks IH]; intros tg f Hnd Hin; [destruct Hin|]. cbn [fold_left].
  inversion Hnd as [|? ? Hk Hks]; subst. destruct Hin as [-> | Hin].
  - rewrite seed_fold_notin by exact Hk. unfold seed_step. destruct (old_max l f); [apply get_set_same | reflexivity].
  - rewrite (IH _ f Hks Hin). destruct (old_max l f); [reflexivity|].
    unfold seed_step. destruct (old_max l k); [|reflexivity]. apply get_set_other. intros ->. contradiction.
Qed.

(* ---- d_old, old_max, d_new ---------------------------------------------------------------------- *)
Lemma d_old_In : forall old now f e,
  In (f, e) (d_old_of old now) <-> exists c, In (c, f, e) old /\ now < e.
Proof.
  intros old now f e. unfold d_old_of. rewrite in_flat_map. split.
  - intros ([[c g] e'] & Hin & H). cbn [fst snd] in H. destruct (now <? e') eqn:E; [|destruct H].
    destruct H as [H | []]. injection H as -> ->. exists c. split; [exact Hin | apply N.ltb_lt; exact E].
  - intros (c & Hin & Hlt). exists (c, f, e). split; [exact Hin|]. cbn [fst snd].
    assert (now <? e = true) as -> by (apply N.ltb_lt; exact Hlt). left. reflexivity.
Qed.

Lemma old_max_None : forall d f, old_max d f = None -> forall e, ~ In (f, e) d.
Proof.
  induction d as [|[g e0] d IH]; intros f H e Hin; [destruct Hin|]. cbn [old_max] in H.
  destruct (triple_eqb f g) eqn:E.
  - destruct (old_max d f); discriminate.
  - destruct Hin as [Hh | Ht].
    + injection Hh as -> ->. rewrite triple_eqb_refl in E. discriminate.
    + apply (IH f H e Ht).
Qed.

Lemma old_max_Some : forall d f m, old_max d f = Some m -> In (f, m) d /\ forall e, In (f, e) d -> e <= m.
Proof.
  induction d as [|[g e0] d IH]; intros f m H; cbn [old_max] in H; [discriminate|].
  destruct (triple_eqb f g) eqn:E.
  - apply triple_eqb_eq in E. subst g.
    destruct (old_max d f) as [e'|] eqn:Eo.
    + injection H as <-. destruct (IH f e' Eo) as [Hin Hmax]. split.
      * destruct (N.max_spec e0 e') as [[_ ->] | [_ ->]]; [right; exact Hin | left; reflexivity].
      * intros e [Hh | Ht]; [injection Hh as ->; lia | specialize (Hmax e Ht); lia].
    + injection H as <-. split; [left; reflexivity|].
      intros e [Hh | Ht]; [injection Hh as ->; lia | exfalso; apply (old_max_None d f Eo e Ht)].
  - destruct (IH f m H) as [Hin Hmax]. split; [right; exact Hin|].
    intros e [Hh | Ht]; [|apply Hmax; exact Ht].
    injection Hh as -> ->. rewrite triple_eqb_refl in E. discriminate.
Qed.

Lemma d_new_In : forall d_old d_base f e,
  In (f, e) (d_new_of d_old d_base) <->
  In (f, e) d_base /\ (old_max d_old f = None \/ exists eo, old_max d_old f = Some eo /\ eo < e).
Proof.
  intros d_old d_base f e. unfold d_new_of. rewrite filter_In. cbn [fst snd].
  destruct (old_max d_old f) as [eo|].
  - rewrite N.ltb_lt. split.
    + intros [H1 H2]. split; [exact H1|]. right. exists eo. auto.
    + intros [H1 [H2 | (eo' & H2 & H3)]]; [discriminate|]. injection H2 as <-. auto.
  - split; [intros [H1 _]; auto | intros [H1 _]; auto].
Qed.

Lemma in_fst_dec : forall (l : list (triple * N)) f, (exists e, In (f, e) l) \/ (forall e, ~ In (f, e) l).
Proof.
  induction l as [|[g e0] l IH]; intros f.
  - right. intros e [].
  - destruct (triple_dec g f) as [-> | Hne].
    + left. exists e0. left. reflexivity.
    + destruct (IH f) as [(e & He) | Hn].
      * left. exists e. right. exact He.
      * right. intros e [Hh | Ht]; [injection Hh as -> ->; contradiction Hne; reflexivity | apply (Hn e Ht)].
Qed.

(* the seeded tag of a triple is the largest expiry listed for it (INF when it is not listed) *)
Lemma seed_tags_get : forall l f,
  get_tag (seed_tags l) f = match old_max l f with Some e => e | None => INF end.
Proof.
  intros l f. unfold seed_tags. change (fun tg f0 => match old_max l f0 with Some e => set_tag f0 e tg | None => tg end) with (seed_step l).
  destruct (old_max l f) as [m|] eqn:E.
  - rewrite seed_fold_in; [rewrite E; reflexivity | apply dedup_NoDup|].
    apply (proj2 (dedup_In _ _)). destruct (old_max_Some _ _ _ E) as [Hin _]. apply in_map_iff. exists (f, m). auto.
  - rewrite seed_fold_notin; [reflexivity|]. intros H. apply (proj1 (dedup_In _ _)) in H. apply in_map_iff in H.
    destruct H as ([g e] & <- & Hin). apply (old_max_None _ _ E e Hin).
Qed.

Lemma seed_tags_listed : forall l f e,
  In (f, e) l -> In (f, get_tag (seed_tags l) f) l /\ forall e', In (f, e') l -> e' <= get_tag (seed_tags l) f.
Proof.
  intros l f e Hin. rewrite seed_tags_get. destruct (old_max l f) as [m|] eqn:E.
  - apply old_max_Some. exact E.
  - exfalso. apply (old_max_None _ _ E e Hin).
Qed.

(* ---- general facts about Der and is_E ------------------------------------------------------------- *)
Lemma is_E_unique : forall P base f e e', is_E P base f e -> is_E P base f e' -> e = e'.
Proof. intros P base f e e' [D1 M1] [D2 M2]. specialize (M1 _ D2). specialize (M2 _ D1). lia. Qed.

Lemma Der_raise : forall P base m t f,
  (forall g e, In (g, e) base -> m <= e) -> Der P base t f -> Der P base m f.
Proof.
  intros P base m t f Hm H. induction H as [f e Hin He | r sigma c Hr _ IH Hc] using Der_ind'.
  - eapply Der_base; [exact Hin | apply (Hm f e Hin)].
  - apply Der_rule with (r := r); assumption.
Qed.

Lemma Der_transfer : forall P base base' now' t f,
  base_consistent base base' now' -> now' < t -> Der P base t f -> Der P base' t f.
Proof.
  intros P base base' now' t f Hc Ht H. induction H as [f e Hin He | r sigma c Hr _ IH Hcc] using Der_ind'.
  - destruct (Hc f e Hin) as (e' & Hin' & Hle); [lia|]. eapply Der_base; [exact Hin' | lia].
  - apply Der_rule with (r := r); assumption.
Qed.

Lemma instance_no_base_empty : forall P t f, wf_rules P = true -> ~ Der P [] t f.
Proof.
  intros P t f Hwf H. induction H as [f e [] He | r sigma c Hr _ IH Hc] using Der_ind'.
  pose proof (wf_rule_nonempty r (wf_rules_In _ _ Hwf Hr)) as Hne.
  destruct (prem r) as [|p ps]; [contradiction Hne; reflexivity|].
  cbn [map] in IH. inversion IH; assumption.
Qed.

(* ---- the incremental step ---------------------------------------------------------------------------- *)
Section Incr.
  Variable P : list rule.
  Variable base' : list (triple * N).
  Variable old : state.
  Variable now : N.
  Hypothesis Hwf : wf_rules P = true.
  Hypothesis Hnow : now < INF.
  Hypothesis Halive : alive_base base' now.
  (* carried-over entries that are still alive have a derivation from the new base that lasts as long *)
  Hypothesis Hold_sound : forall c f e, In (c, f, e) old -> now < e -> Der P base' e f.
  (* the carried-over entries are closed under the rules at every threshold beyond now *)
  Hypothesis Hold_closed : forall r sigma c0 t,
    In r P -> In c0 (concl r) ->
    (forall p, In p (prem r) -> exists c e, In (c, subst_pat sigma p, e) old /\ t <= e) ->
    now < t -> exists c e, In (c, subst_pat sigma c0, e) old /\ t <= e.

  Definition dO := d_old_of old now.
  Definition dN := d_new_of dO base'.
  Definition F0 := dedup (map fst dO ++ map fst dN).
  Definition tg0 := seed_tags (dO ++ dN).

  Lemma Hpos' : forall f e, In (f, e) base' -> 0 < e.
  Proof. intros f e H. destruct (Halive f e H). lia. Qed.
  Lemma Hcap' : forall f e, In (f, e) base' -> e <= INF.
  Proof. intros f e H. destruct (Halive f e H). lia. Qed.

  Lemma dO_cap : forall f e, In (f, e) dO -> now < e /\ e <= INF /\ Der P base' e f.
  Proof.
    intros f e H. apply d_old_In in H. destruct H as (c & H & Hl).
    pose proof (Hold_sound c f e H Hl) as Hd. split; [exact Hl|]. split; [|exact Hd].
    eapply Der_le_INF; [exact Hwf | exact Hcap' | exact Hd].
  Qed.

  Lemma dN_base : forall f e, In (f, e) dN -> In (f, e) base'.
  Proof. intros f e H. apply d_new_In in H. tauto. Qed.

  Lemma F0_In : forall f, In f F0 <-> (exists e, In (f, e) dO) \/ (exists e, In (f, e) dN).
  Proof.
    intros f. unfold F0. rewrite dedup_In, in_app_iff, !in_map_iff. split.
    - intros [([g e] & <- & H) | ([g e] & <- & H)]; [left | right]; exists e; exact H.
    - intros [(e & H) | (e & H)]; [left | right]; exists (f, e); auto.
  Qed.

  (* the seeded tag of a start fact: one of its listed expiries, and the largest of them *)
  Lemma tg0_spec : forall f, In f F0 ->
    In (f, get_tag tg0 f) (dO ++ dN) /\ forall e, In (f, e) (dO ++ dN) -> e <= get_tag tg0 f.
  Proof.
    intros f Hf. apply F0_In in Hf. unfold tg0.
    destruct Hf as [(e & H) | (e & H)]; apply (seed_tags_listed (dO ++ dN) f e); apply in_or_app; auto.
  Qed.

  Lemma incr_LInv : LInv P base' F0 tg0 (map fst dN).
  Proof.
    split; [|split; [|split]].
    - intros f Hf. apply in_map_iff in Hf. destruct Hf as ([g e] & <- & H). apply F0_In. right. exists e. exact H.
    - intros f Hf. destruct (tg0_spec f Hf) as [Hin _]. apply in_app_or in Hin. destruct Hin as [Hin | Hin].
      + destruct (dO_cap _ _ Hin) as (Hl & _ & Hd). split; [lia | exact Hd].
      + apply dN_base in Hin. split; [apply (Hpos' _ _ Hin) | eapply Der_base; [exact Hin | lia]].
    - intros f e Hb.
      destruct (in_fst_dec dN f) as [(e' & H') | Hn].
      + assert (In (f, e) dN \/ ~ In (f, e) dN) as [Hd | Hd].
        { destruct (old_max dO f) as [eo|] eqn:Eo.
          - destruct (N.lt_ge_cases eo e) as [Hlt | Hge].
            + left. apply d_new_In. split; [exact Hb|]. right. exists eo. auto.
            + right. intros H. apply d_new_In in H. destruct H as [_ [H | (eo' & H & Hlt)]]; [congruence|]. rewrite Eo in H. injection H as <-. lia.
          - left. apply d_new_In. split; [exact Hb|]. left. exact Eo. }
        * assert (In f F0) as HF by (apply F0_In; right; exists e; exact Hd).
          split; [exact HF|]. destruct (tg0_spec f HF) as [_ Hmax]. apply Hmax. apply in_or_app. right. exact Hd.
        * (* not new: an old entry is at least as large *)
          destruct (old_max dO f) as [eo|] eqn:Eo.
          -- destruct (old_max_Some _ _ _ Eo) as [Hin _].
             assert (In f F0) as HF by (apply F0_In; left; exists eo; exact Hin).
             split; [exact HF|]. destruct (tg0_spec f HF) as [_ Hmax].
             assert (e <= eo).
             { destruct (N.lt_ge_cases eo e) as [Hlt | Hge]; [|exact Hge]. exfalso. apply Hd. apply d_new_In. split; [exact Hb|]. right. exists eo. auto. }
             specialize (Hmax eo (in_or_app _ _ _ (or_introl Hin))). lia.
          -- exfalso. apply Hd. apply d_new_In. split; [exact Hb|]. left. exact Eo.
      + destruct (old_max dO f) as [eo|] eqn:Eo.
        * destruct (old_max_Some _ _ _ Eo) as [Hin _].
          assert (In f F0) as HF by (apply F0_In; left; exists eo; exact Hin).
          split; [exact HF|]. destruct (tg0_spec f HF) as [_ Hmax].
          specialize (Hmax eo (in_or_app _ _ _ (or_introl Hin))).
          destruct (N.lt_ge_cases eo e) as [Hlt | Hge]; [|lia].
          exfalso. apply (Hn e). apply d_new_In. split; [exact Hb|]. right. exists eo. auto.
        * exfalso. apply (Hn e). apply d_new_In. split; [exact Hb|]. left. exact Eo.
    - intros gs f (r & sigma & c0 & Hr & Egs & Hc0 & Ef & HgsF).
      destruct (some_in_dec gs (map fst dN)) as [Hsome | Hnone]; [left; exact Hsome | right].
      assert (forall g, In g gs -> In (g, get_tag tg0 g) dO) as Hg.
      { intros g Hgin. destruct (tg0_spec g (HgsF g Hgin)) as [Hin _]. apply in_app_or in Hin.
        destruct Hin as [Hin | Hin]; [exact Hin|]. exfalso. apply (Hnone g Hgin). apply in_map_iff. exists (g, get_tag tg0 g). auto. }
      set (t := min_tags tg0 gs).
      assert (now < t) as Ht.
      { assert (now + 1 <= t) as H1; [|lia]. apply min_tags_spec. split; [lia|].
        intros g Hgin. destruct (dO_cap g _ (Hg g Hgin)) as (Hl & _). lia. }
      destruct (Hold_closed r sigma c0 t Hr Hc0) as (c & e & Hin & Hle); [|exact Ht|].
      { intros p Hp. assert (In (subst_pat sigma p) gs) as Hgin by (rewrite Egs; apply in_map; exact Hp).
        pose proof (Hg _ Hgin) as He. apply d_old_In in He. destruct He as (c & He & _).
        exists c, (get_tag tg0 (subst_pat sigma p)). split; [exact He|]. apply min_tags_le. exact Hgin. }
      rewrite <- Ef in Hin.
      assert (In (f, e) dO) as HdO by (apply d_old_In; exists c; split; [exact Hin | lia]).
      assert (In f F0) as HF by (apply F0_In; left; exists e; exact HdO).
      split; [exact HF|]. destruct (tg0_spec f HF) as [_ Hmax].
      specialize (Hmax e (in_or_app _ _ _ (or_introl HdO))). fold t. lia.
  Qed.

  Lemma is_E_alive : forall f e, is_E P base' f e -> now < e.
  Proof.
    intros f e [Hd Hmax].
    assert (Der P base' (now + 1) f) as H.
    { eapply Der_raise; [|exact Hd]. intros g e' Hin. destruct (Halive g e' Hin). lia. }
    specialize (Hmax _ H). lia.
  Qed.

  Theorem incr_core_E : forall fuel rt st',
    incr_core fuel P rt base' old now = Some st' -> E_state P base' rt now st'.
  Proof.
    intros fuel rt st' H. unfold incr_core in H. fold dO dN F0 tg0 in H.
    destruct (loop fuel P F0 tg0 (map fst dN)) as [[F tg]|] eqn:El; [|discriminate]. injection H as <-.
    pose proof (loop_inv P base' Hwf fuel _ _ _ _ _ incr_LInv El) as HF.
    split.
    - intros c f e Hin. unfold collect in Hin. apply in_flat_map in Hin. destruct Hin as (g & HgF & Hin).
      destruct (rt (tpred g)) as [c'|] eqn:Er; [|destruct Hin]. destruct Hin as [Hin | []].
      injection Hin as <- <- <-. split; [exact Er|].
      assert (is_E P base' g (get_tag tg g)) as HE
          by (apply (final_is_E P base' Hwf Hpos' Hcap' F tg HF); auto).
      split; [apply (is_E_alive _ _ HE) | exact HE].
    - intros t f c Hd Ht Hr.
      destruct (final_complete P base' Hwf Hcap' F tg HF t f Hd) as [HfF _]; [lia|].
      exists (get_tag tg f). unfold collect. apply in_flat_map. exists f. split; [exact HfF|].
      rewrite Hr. left. reflexivity.
  Qed.
End Incr.

(* classical reading of E_state (the direction that needs no choice of a maximum) *)
Lemma E_state_iff : forall P base rt now st,
  E_state P base rt now st ->
  forall c f e, In (c, f, e) st <-> (rt (tpred f) = Some c /\ now < e /\ is_E P base f e).
Proof.
  intros P base rt now st [H1 H2] c f e. split; [apply H1|].
  intros (Hr & Hlt & HE). destruct HE as [Hd Hmax].
  destruct (H2 e f c Hd Hlt Hr) as (e' & Hin).
  destruct (H1 c f e' Hin) as (_ & _ & HE'). rewrite (is_E_unique _ _ _ _ _ (conj Hd Hmax) HE'). exact Hin.
Qed.

(* ---- C12_step at the level of alive facts ------------------------------------------------------------ *)
Lemma routed_concl : forall rt P r c sigma,
  routed_rules rt P = true -> In r P -> In c (concl r) -> exists k, rt (tpred (subst_pat sigma c)) = Some k.
Proof.
  intros rt P r c sigma H Hr Hc. unfold routed_rules in H. rewrite forallb_forall in H. specialize (H r Hr).
  unfold routed_rule in H. rewrite forallb_forall in H. specialize (H c Hc).
  destruct c as [[ts tp] to]. cbn [fst snd] in H. unfold subst_pat, tpred. cbn [fst snd].
  destruct tp as [x|q]; [discriminate|]. cbn [subst]. destruct (rt q) as [k|]; [exists k; reflexivity | discriminate].
Qed.

(* what the incremental step needs to know about the carried-over state, derived from the hypotheses
   of C12_step *)
Definition old_ok (P : list rule) (base' : list (triple * N)) (old : state) (now' : N) : Prop :=
  (forall c f e, In (c, f, e) old -> now' < e -> Der P base' e f) /\
  (forall r sigma c0 t,
     In r P -> In c0 (concl r) ->
     (forall p, In p (prem r) -> exists c e, In (c, subst_pat sigma p, e) old /\ t <= e) ->
     now' < t -> exists c e, In (c, subst_pat sigma c0, e) old /\ t <= e).

Lemma step_old_ok : forall P rt base base' old now now',
  wf_rules P = true -> routed_rules rt P = true ->
  now <= now' ->
  base_consistent base base' now' ->
  E_state P base rt now old ->
  old_ok P base' old now'.
Proof.
  intros P rt base base' old now now' Hwf Hrt Hle Hcons [HE1 HE2].
  split.
  - intros c f e Hin Hlt. destruct (HE1 c f e Hin) as (_ & _ & [Hd _]).
    eapply Der_transfer; eauto.
  - intros r sigma c0 t Hr Hc0 Hprem Ht.
    assert (Der P base t (subst_pat sigma c0)) as Hd.
    { apply Der_rule with (r := r); [exact Hr | | exact Hc0]. apply Forall_forall. intros g Hg.
      apply in_map_iff in Hg. destruct Hg as (p & <- & Hp). destruct (Hprem p Hp) as (c & e & Hin & Hte).
      destruct (HE1 c _ e Hin) as (_ & _ & [Hd _]). eapply Der_anti; eauto. }
    destruct (routed_concl rt P r c0 sigma Hrt Hr Hc0) as (k & Hk).
    destruct (HE2 t _ k Hd) as (e & Hin); [lia | exact Hk|].
    exists k, e. split; [exact Hin|]. destruct (HE1 k _ e Hin) as (_ & _ & [_ Hmax]). apply Hmax. exact Hd.
Qed.

Lemma empty_old_ok : forall P base' now', wf_rules P = true -> old_ok P base' [] now'.
Proof.
  intros P base' now' Hwf. split.
  - intros c f e [].
  - intros r sigma c0 t Hr Hc0 Hprem Ht. exfalso.
    pose proof (wf_rule_nonempty r (wf_rules_In _ _ Hwf Hr)) as Hne.
    destruct (prem r) as [|p ps]; [contradiction Hne; reflexivity|].
    destruct (Hprem p (or_introl eq_refl)) as (c & e & [] & _).
Qed.

Theorem step_base : forall fuel P rt rt' base base' old now now' st',
  wf_rules P = true -> routed_rules rt P = true ->
  now <= now' -> now' < INF ->
  alive_base base' now' ->
  base_consistent base base' now' ->
  E_state P base rt now old ->
  incr_core fuel P rt' base' old now' = Some st' ->
  E_state P base' rt' now' st'.
Proof.
  intros fuel P rt rt' base base' old now now' st' Hwf Hrt Hle Hnow Halive Hcons HE H.
  destruct (step_old_ok P rt base base' old now now' Hwf Hrt Hle Hcons HE) as (O1 & O2).
  eapply incr_core_E; eassumption.
Qed.

(* the first evaluation (no carried-over state): from-scratch with expiries *)
Theorem first_base : forall fuel P rt' base' now' st',
  wf_rules P = true -> now' < INF -> alive_base base' now' ->
  incr_core fuel P rt' base' [] now' = Some st' ->
  E_state P base' rt' now' st'.
Proof.
  intros fuel P rt' base' now' st' Hwf Hnow Halive H.
  destruct (empty_old_ok P base' now' Hwf) as (O1 & O2).
  eapply incr_core_E; eassumption.
Qed.
