(* The incremental step: the state seeded from the carried-over entries and the new / renewed alive
   facts satisfies the loop invariant, hence incremental = E over the new alive facts. *)
Require Import List NArith Bool Lia.
Import ListNotations.
Require Import KV.CrossWindow.Model KV.CrossWindow.Spec KV.CrossWindow.BasicProofs KV.CrossWindow.JoinProofs KV.CrossWindow.RoundProofs.
Open Scope N_scope.

(* ---- seeding of the tag store ----------------------------------------------------------------- *)
Definition seed_step (tg : tagstore) (x : triple * N) : tagstore :=
  if snd x <? INF then set_tag (fst x) (snd x) tg else tg.

Lemma seed_tags_fold : forall l, seed_tags l = fold_left seed_step l [].
Proof. reflexivity. Qed.

Lemma seed_unchanged : forall l tg f,
  (forall e, In (f, e) l -> INF <= e) -> get_tag (fold_left seed_step l tg) f = get_tag tg f.
Proof.
  induction l as [|[g e0] l IH]; intros tg f H; cbn [fold_left]; [reflexivity|].
  rewrite IH by (intros e He; apply H; right; exact He).
  unfold seed_step. cbn [fst snd]. destruct (e0 <? INF) eqn:E; [|reflexivity].
  apply N.ltb_lt in E. apply get_set_other. intros ->. specialize (H e0 (or_introl eq_refl)). lia.
Qed.

Lemma seed_const : forall l tg f e,
  e < INF -> (In (f, e) l \/ get_tag tg f = e) -> (forall e', In (f, e') l -> e' = e) ->
  get_tag (fold_left seed_step l tg) f = e.
Proof.
  induction l as [|[g e0] l IH]; intros tg f e He Hor Hu; cbn [fold_left].
  - destruct Hor as [[] | H]. exact H.
  - apply IH; [exact He | | intros e' H'; apply Hu; right; exact H'].
    unfold seed_step. cbn [fst snd].
    destruct (triple_dec g f) as [-> | Hne].
    + right. rewrite (Hu e0 (or_introl eq_refl)).
      assert (e <? INF = true) as -> by (apply N.ltb_lt; exact He). apply get_set_same.
    + destruct Hor as [[Hh | Ht] | Hg].
      * injection Hh as -> ->. contradiction Hne. reflexivity.
      * left. exact Ht.
      * right. destruct (e0 <? INF); [rewrite get_set_other by exact Hne|]; exact Hg.
Qed.

(* ---- d_old, old_max, d_new ---------------------------------------------------------------------- *)
Lemma d_old_In : forall old now f e,
  In (f, e) (d_old_of old now) <-> exists c, In (c, f, e) old /\ now < e.
Proof.
  intros old now f e. unfold d_old_of. rewrite in_flat_map. split.
  - intros ([[c g] e'] & Hin & H). cbn [fst snd] in H. destruct (now <? e') eqn:E; [|destruct H].
    destruct H as [H | []]. injection H as -> ->. exists c. split; [exact Hin | apply N.ltb_lt; exact E].
  - intros (c & Hin & Hlt). exists (c, f, e). split; [exact Hin|]. cbn [fst snd].
    assert (now <? e = true) as -> by (apply N.ltb_lt; exact Hlt). left. reflexivity.
Qed.

Lemma old_max_None : forall d f, old_max d f = None -> forall e, ~ In (f, e) d.
Proof.
  induction d as [|[g e0] d IH]; intros f H e Hin; [destruct Hin|]. cbn [old_max] in H.
  destruct (triple_eqb f g) eqn:E.
  - destruct (old_max d f); discriminate.
  - destruct Hin as [Hh | Ht].
    + injection Hh as -> ->. rewrite triple_eqb_refl in E. discriminate.
    + apply (IH f H e Ht).
Qed.

Lemma old_max_Some : forall d f m, old_max d f = Some m -> In (f, m) d /\ forall e, In (f, e) d -> e <= m.
Proof.
  induction d as [|[g e0] d IH]; intros f m H; cbn [old_max] in H; [discriminate|].
  destruct (triple_eqb f g) eqn:E.
  - apply triple_eqb_eq in E. subst g.
    destruct (old_max d f) as [e'|] eqn:Eo.
    + injection H as <-. destruct (IH f e' Eo) as [Hin Hmax]. split.
      * destruct (N.max_spec e0 e') as [[_ ->] | [_ ->]]; [right; exact Hin | left; reflexivity].
      * intros e [Hh | Ht]; [injection Hh as ->; lia | specialize (Hmax e Ht); lia].
    + injection H as <-. split; [left; reflexivity|].
      intros e [Hh | Ht]; [injection Hh as ->; lia | exfalso; apply (old_max_None d f Eo e Ht)].
  - destruct (IH f m H) as [Hin Hmax]. split; [right; exact Hin|].
    intros e [Hh | Ht]; [|apply Hmax; exact Ht].
    injection Hh as -> ->. rewrite triple_eqb_refl in E. discriminate.
Qed.

Lemma d_new_In : forall d_old d_base f e,
  In (f, e) (d_new_of d_old d_base) <->
  In (f, e) d_base /\ (old_max d_old f = None \/ exists eo, old_max d_old f = Some eo /\ eo < e).
Proof.
  intros d_old d_base f e. unfold d_new_of. rewrite filter_In. cbn [fst snd].
  destruct (old_max d_old f) as [eo|].
  - rewrite N.ltb_lt. split.
    + intros [H1 H2]. split; [exact H1|]. right. exists eo. auto.
    + intros [H1 [H2 | (eo' & H2 & H3)]]; [discriminate|]. injection H2 as <-. auto.
  - split; [intros [H1 _]; auto | intros [H1 _]; auto].
Qed.

Lemma in_fst_dec : forall (l : list (triple * N)) f, (exists e, In (f, e) l) \/ (forall e, ~ In (f, e) l).
Proof.
  induction l as [|[g e0] l IH]; intros f.
  - right. intros e [].
  - destruct (triple_dec g f) as [-> | Hne].
    + left. exists e0. left. reflexivity.
    + destruct (IH f) as [(e & He) | Hn].
      * left. exists e. right. exact He.
      * right. intros e [Hh | Ht]; [injection Hh as -> ->; contradiction Hne; reflexivity | apply (Hn e Ht)].
Qed.

(* ---- general facts about Der and is_E ------------------------------------------------------------- *)
Lemma is_E_unique : forall P base f e e', is_E P base f e -> is_E P base f e' -> e = e'.
Proof. intros P base f e e' [D1 M1] [D2 M2]. specialize (M1 _ D2). specialize (M2 _ D1). lia. Qed.

Lemma Der_raise : forall P base m t f,
  (forall g e, In (g, e) base -> m <= e) -> Der P base t f -> Der P base m f.
Proof.
  intros P base m t f Hm H. induction H as [f e Hin He | r sigma c Hr _ IH Hc] using Der_ind'.
  - eapply Der_base; [exact Hin | apply (Hm f e Hin)].
  - apply Der_rule with (r := r); assumption.
Qed.

Lemma Der_transfer : forall P base base' now' t f,
  base_consistent base base' now' -> now' < t -> Der P base t f -> Der P base' t f.
Proof.
  intros P base base' now' t f Hc Ht H. induction H as [f e Hin He | r sigma c Hr _ IH Hcc] using Der_ind'.
  - destruct (Hc f e Hin) as (e' & Hin' & Hle); [lia|]. eapply Der_base; [exact Hin' | lia].
  - apply Der_rule with (r := r); assumption.
Qed.

Lemma instance_no_base_empty : forall P t f, wf_rules P = true -> ~ Der P [] t f.
Proof.
  intros P t f Hwf H. induction H as [f e [] He | r sigma c Hr _ IH Hc] using Der_ind'.
  pose proof (wf_rule_nonempty r (wf_rules_In _ _ Hwf Hr)) as Hne.
  destruct (prem r) as [|p ps]; [contradiction Hne; reflexivity|].
  cbn [map] in IH. inversion IH; assumption.
Qed.

(* ---- the incremental step ---------------------------------------------------------------------------- *)
Section Incr.
  Variable P : list rule.
  Variable base' : list (triple * N).
  Variable old : state.
  Variable now : N.
  Hypothesis Hwf : wf_rules P = true.
  Hypothesis Hnow : now < INF.
  Hypothesis Halive : alive_base base' now.
  Hypothesis Hfun : functional_base base'.
  (* carried-over entries that are still alive have a derivation from the new base that lasts as long *)
  Hypothesis Hold_sound : forall c f e, In (c, f, e) old -> now < e -> Der P base' e f.
  Hypothesis Hold_fun : forall c f e c' e', In (c, f, e) old -> In (c', f, e') old -> now < e -> now < e' -> e = e'.
  (* the carried-over entries are closed under the rules at every threshold beyond now *)
  Hypothesis Hold_closed : forall r sigma c0 t,
    In r P -> In c0 (concl r) ->
    (forall p, In p (prem r) -> exists c e, In (c, subst_pat sigma p, e) old /\ t <= e) ->
    now < t -> exists c e, In (c, subst_pat sigma c0, e) old /\ t <= e.
  (* a fact listed as static now was not carried over with a finite expiry (set_tag skips u64::MAX) *)
  Hypothesis Hinf : forall c f e, In (c, f, e) old -> now < e -> In (f, INF) base' -> e = INF.

  Definition dO := d_old_of old now.
  Definition dN := d_new_of dO base'.
  Definition F0 := dedup (map fst dO ++ map fst dN).
  Definition tg0 := seed_tags (dO ++ dN).

  Lemma Hpos' : forall f e, In (f, e) base' -> 0 < e.
  Proof. intros f e H. destruct (Halive f e H). lia. Qed.
  Lemma Hcap' : forall f e, In (f, e) base' -> e <= INF.
  Proof. intros f e H. destruct (Halive f e H). lia. Qed.

  Lemma dO_fun : forall f e e', In (f, e) dO -> In (f, e') dO -> e = e'.
  Proof.
    intros f e e' H H'. apply d_old_In in H. apply d_old_In in H'.
    destruct H as (c & H & Hl). destruct H' as (c' & H' & Hl'). eapply Hold_fun; eauto.
  Qed.

  Lemma dO_cap : forall f e, In (f, e) dO -> now < e /\ e <= INF /\ Der P base' e f.
  Proof.
    intros f e H. apply d_old_In in H. destruct H as (c & H & Hl).
    pose proof (Hold_sound c f e H Hl) as Hd. split; [exact Hl|]. split; [|exact Hd].
    eapply Der_le_INF; [exact Hwf | exact Hcap' | exact Hd].
  Qed.

  Lemma dN_fun : forall f e e', In (f, e) dN -> In (f, e') dN -> e = e'.
  Proof.
    intros f e e' H H'. apply d_new_In in H. apply d_new_In in H'. destruct H as [H _]. destruct H' as [H' _].
    eapply Hfun; eauto.
  Qed.

  Lemma F0_In : forall f, In f F0 <-> (exists e, In (f, e) dO) \/ (exists e, In (f, e) dN).
  Proof.
    intros f. unfold F0. rewrite dedup_In, in_app_iff, !in_map_iff. split.
    - intros [([g e] & <- & H) | ([g e] & <- & H)]; [left | right]; exists e; exact H.
    - intros [(e & H) | (e & H)]; [left | right]; exists (f, e); auto.
  Qed.

  Lemma tg0_new : forall f e, In (f, e) dN -> get_tag tg0 f = e.
  Proof.
    intros f e H. unfold tg0. rewrite seed_tags_fold, fold_left_app.
    pose proof H as H0. apply d_new_In in H0. destruct H0 as [Hb Hcond].
    destruct (Halive f e Hb) as [Hl Hc].
    destruct (N.eq_dec e INF) as [-> | Hne].
    - rewrite seed_unchanged by (intros e' H'; rewrite (dN_fun _ _ _ H' H); lia).
      rewrite seed_unchanged; [reflexivity|].
      intros e' H'. pose proof H' as H''. apply d_old_In in H''. destruct H'' as (c & Ho & Hlt).
      rewrite (Hinf c f e' Ho Hlt Hb). lia.
    - apply seed_const; [lia | left; exact H | intros e' H'; apply (dN_fun _ _ _ H' H)].
  Qed.

  Lemma tg0_old : forall f e, In (f, e) dO -> (forall e', ~ In (f, e') dN) -> get_tag tg0 f = e.
  Proof.
    intros f e H Hn. unfold tg0. rewrite seed_tags_fold, fold_left_app.
    rewrite seed_unchanged by (intros e' H'; exfalso; apply (Hn e' H')).
    destruct (dO_cap f e H) as (_ & Hc & _).
    destruct (N.eq_dec e INF) as [-> | Hne].
    - apply seed_unchanged. intros e' H'. rewrite (dO_fun _ _ _ H' H). lia.
    - apply seed_const; [lia | left; exact H | intros e' H'; apply (dO_fun _ _ _ H' H)].
  Qed.

  Lemma tg0_ge_old : forall f e, In (f, e) dO -> e <= get_tag tg0 f.
  Proof.
    intros f e H. destruct (in_fst_dec dN f) as [(e' & H') | Hn].
    - rewrite (tg0_new f e' H'). apply d_new_In in H'. destruct H' as [_ [Hnone | (eo & Ho & Hlt)]].
      + exfalso. apply (old_max_None _ _ Hnone e H).
      + destruct (old_max_Some _ _ _ Ho) as [_ Hmax]. specialize (Hmax e H). lia.
    - rewrite (tg0_old f e H Hn). lia.
  Qed.

  Lemma incr_LInv : LInv P base' F0 tg0 (map fst dN).
  Proof.
    split; [|split; [|split]].
    - intros f Hf. apply in_map_iff in Hf. destruct Hf as ([g e] & <- & H). apply F0_In. right. exists e. exact H.
    - intros f Hf. apply F0_In in Hf.
      destruct (in_fst_dec dN f) as [(e' & H') | Hn].
      + rewrite (tg0_new f e' H'). apply d_new_In in H'. destruct H' as [Hb _].
        split; [apply (Hpos' f e' Hb) | eapply Der_base; [exact Hb | lia]].
      + destruct Hf as [(e & H) | (e & H)]; [|exfalso; apply (Hn e H)].
        rewrite (tg0_old f e H Hn). destruct (dO_cap f e H) as (Hl & _ & Hd). split; [lia | exact Hd].
    - intros f e Hb.
      destruct (in_fst_dec dN f) as [(e' & H') | Hn].
      + split; [apply F0_In; right; exists e'; exact H'|].
        rewrite (tg0_new f e' H'). pose proof H' as H''. apply d_new_In in H''. destruct H'' as [Hb' _].
        rewrite (Hfun f e e' Hb Hb'). lia.
      + destruct (old_max dO f) as [eo|] eqn:Eo.
        * destruct (old_max_Some _ _ _ Eo) as [Hin Hmax].
          split; [apply F0_In; left; exists eo; exact Hin|].
          rewrite (tg0_old f eo Hin Hn).
          destruct (N.lt_ge_cases eo e) as [Hlt | Hge]; [|exact Hge].
          exfalso. apply (Hn e). apply d_new_In. split; [exact Hb|]. right. exists eo. auto.
        * exfalso. apply (Hn e). apply d_new_In. split; [exact Hb|]. left. exact Eo.
    - intros gs f (r & sigma & c0 & Hr & Egs & Hc0 & Ef & HgsF).
      destruct (some_in_dec gs (map fst dN)) as [Hsome | Hnone]; [left; exact Hsome | right].
      assert (forall g, In g gs -> exists e, In (g, e) dO /\ get_tag tg0 g = e) as Hg.
      { intros g Hgin. pose proof (HgsF g Hgin) as HF. apply F0_In in HF.
        assert (forall e', ~ In (g, e') dN) as Hn.
        { intros e' H'. apply (Hnone g Hgin). apply in_map_iff. exists (g, e'). auto. }
        destruct HF as [(e & H) | (e & H)]; [|exfalso; apply (Hn e H)].
        exists e. split; [exact H | apply tg0_old; assumption]. }
      set (t := min_tags tg0 gs).
      assert (now < t) as Ht.
      { assert (now + 1 <= t) as H1; [|lia]. apply min_tags_spec. split; [lia|].
        intros g Hgin. destruct (Hg g Hgin) as (e & He & ->). destruct (dO_cap g e He) as (Hl & _). lia. }
      destruct (Hold_closed r sigma c0 t Hr Hc0) as (c & e & Hin & Hle); [|exact Ht|].
      { intros p Hp. assert (In (subst_pat sigma p) gs) as Hgin by (rewrite Egs; apply in_map; exact Hp).
        destruct (Hg _ Hgin) as (e & He & Etag). apply d_old_In in He. destruct He as (c & He & _).
        exists c, e. split; [exact He|]. rewrite <- Etag. apply min_tags_le. exact Hgin. }
      rewrite <- Ef in Hin.
      assert (In (f, e) dO) as HdO by (apply d_old_In; exists c; split; [exact Hin | lia]).
      split; [apply F0_In; left; exists e; exact HdO|].
      pose proof (tg0_ge_old f e HdO). fold t. lia.
  Qed.

  Lemma is_E_alive : forall f e, is_E P base' f e -> now < e.
  Proof.
    intros f e [Hd Hmax].
    assert (Der P base' (now + 1) f) as H.
    { eapply Der_raise; [|exact Hd]. intros g e' Hin. destruct (Halive g e' Hin). lia. }
    specialize (Hmax _ H). lia.
  Qed.

  Theorem incr_core_E : forall fuel rt st',
    incr_core fuel P rt base' old now = Some st' -> E_state P base' rt now st'.
  Proof.
    intros fuel rt st' H. unfold incr_core in H. fold dO dN F0 tg0 in H.
    destruct (loop fuel P F0 tg0 (map fst dN)) as [[F tg]|] eqn:El; [|discriminate]. injection H as <-.
    pose proof (loop_inv P base' Hwf fuel _ _ _ _ _ incr_LInv El) as HF.
    split.
    - intros c f e Hin. unfold collect in Hin. apply in_flat_map in Hin. destruct Hin as (g & HgF & Hin).
      destruct (rt (tpred g)) as [c'|] eqn:Er; [|destruct Hin]. destruct Hin as [Hin | []].
      injection Hin as <- <- <-. split; [exact Er|].
      assert (is_E P base' g (get_tag tg g)) as HE
          by (apply (final_is_E P base' Hwf Hpos' Hcap' F tg HF); auto).
      split; [apply (is_E_alive _ _ HE) | exact HE].
    - intros t f c Hd Ht Hr.
      destruct (final_complete P base' Hwf Hcap' F tg HF t f Hd) as [HfF _]; [lia|].
      exists (get_tag tg f). unfold collect. apply in_flat_map. exists f. split; [exact HfF|].
      rewrite Hr. left. reflexivity.
  Qed.
End Incr.

(* classical reading of E_state (the direction that needs no choice of a maximum) *)
Lemma E_state_iff : forall P base rt now st,
  E_state P base rt now st ->
  forall c f e, In (c, f, e) st <-> (rt (tpred f) = Some c /\ now < e /\ is_E P base f e).
Proof.
  intros P base rt now st [H1 H2] c f e. split; [apply H1|].
  intros (Hr & Hlt & HE). destruct HE as [Hd Hmax].
  destruct (H2 e f c Hd Hlt Hr) as (e' & Hin).
  destruct (H1 c f e' Hin) as (_ & _ & HE'). rewrite (is_E_unique _ _ _ _ _ (conj Hd Hmax) HE'). exact Hin.
Qed.

(* ---- C12_step at the level of alive facts ------------------------------------------------------------ *)
Lemma routed_concl : forall rt P r c sigma,
  routed_rules rt P = true -> In r P -> In c (concl r) -> exists k, rt (tpred (subst_pat sigma c)) = Some k.
Proof.
  intros rt P r c sigma H Hr Hc. unfold routed_rules in H. rewrite forallb_forall in H. specialize (H r Hr).
  unfold routed_rule in H. rewrite forallb_forall in H. specialize (H c Hc).
  destruct c as [[ts tp] to]. cbn [fst snd] in H. unfold subst_pat, tpred. cbn [fst snd].
  destruct tp as [x|q]; [discriminate|]. cbn [subst]. destruct (rt q) as [k|]; [exists k; reflexivity | discriminate].
Qed.

(* what the incremental step needs to know about the carried-over state, derived from the hypotheses
   of C12_step *)
Definition old_ok (P : list rule) (base' : list (triple * N)) (old : state) (now' : N) : Prop :=
  (forall c f e, In (c, f, e) old -> now' < e -> Der P base' e f) /\
  (forall c f e c' e', In (c, f, e) old -> In (c', f, e') old -> now' < e -> now' < e' -> e = e') /\
  (forall r sigma c0 t,
     In r P -> In c0 (concl r) ->
     (forall p, In p (prem r) -> exists c e, In (c, subst_pat sigma p, e) old /\ t <= e) ->
     now' < t -> exists c e, In (c, subst_pat sigma c0, e) old /\ t <= e) /\
  (forall c f e, In (c, f, e) old -> now' < e -> In (f, INF) base' -> e = INF).

Lemma step_old_ok : forall P rt base base' old now now',
  wf_rules P = true -> routed_rules rt P = true ->
  now <= now' ->
  (forall f e, In (f, e) base -> e <= INF) ->
  base_consistent base base' now' -> static_stable base base' ->
  E_state P base rt now old ->
  old_ok P base' old now'.
Proof.
  intros P rt base base' old now now' Hwf Hrt Hle Hcap Hcons Hstat [HE1 HE2].
  split; [|split; [|split]].
  - intros c f e Hin Hlt. destruct (HE1 c f e Hin) as (_ & _ & [Hd _]).
    eapply Der_transfer; eauto.
  - intros c f e c' e' Hin Hin' _ _. destruct (HE1 c f e Hin) as (_ & _ & E1). destruct (HE1 c' f e' Hin') as (_ & _ & E2).
    eapply is_E_unique; eauto.
  - intros r sigma c0 t Hr Hc0 Hprem Ht.
    assert (Der P base t (subst_pat sigma c0)) as Hd.
    { apply Der_rule with (r := r); [exact Hr | | exact Hc0]. apply Forall_forall. intros g Hg.
      apply in_map_iff in Hg. destruct Hg as (p & <- & Hp). destruct (Hprem p Hp) as (c & e & Hin & Hte).
      destruct (HE1 c _ e Hin) as (_ & _ & [Hd _]). eapply Der_anti; eauto. }
    destruct (routed_concl rt P r c0 sigma Hrt Hr Hc0) as (k & Hk).
    destruct (HE2 t _ k Hd) as (e & Hin); [lia | exact Hk|].
    exists k, e. split; [exact Hin|]. destruct (HE1 k _ e Hin) as (_ & _ & [_ Hmax]). apply Hmax. exact Hd.
  - intros c f e Hin Hlt Hs. destruct (HE1 c f e Hin) as (_ & _ & [Hd Hmax]).
    assert (e <= INF) by (eapply Der_le_INF; eauto).
    assert (INF <= e); [|lia]. apply Hmax. eapply Der_base; [apply Hstat; exact Hs | lia].
Qed.

Lemma empty_old_ok : forall P base' now', wf_rules P = true -> old_ok P base' [] now'.
Proof.
  intros P base' now' Hwf. split; [|split; [|split]].
  - intros c f e [].
  - intros c f e c' e' [].
  - intros r sigma c0 t Hr Hc0 Hprem Ht. exfalso.
    pose proof (wf_rule_nonempty r (wf_rules_In _ _ Hwf Hr)) as Hne.
    destruct (prem r) as [|p ps]; [contradiction Hne; reflexivity|].
    destruct (Hprem p (or_introl eq_refl)) as (c & e & [] & _).
  - intros c f e [].
Qed.

Theorem step_base : forall fuel P rt rt' base base' old now now' st',
  wf_rules P = true -> routed_rules rt P = true ->
  now <= now' -> now' < INF ->
  (forall f e, In (f, e) base -> e <= INF) ->
  alive_base base' now' -> functional_base base' ->
  base_consistent base base' now' -> static_stable base base' ->
  E_state P base rt now old ->
  incr_core fuel P rt' base' old now' = Some st' ->
  E_state P base' rt' now' st'.
Proof.
  intros fuel P rt rt' base base' old now now' st' Hwf Hrt Hle Hnow Hcap Halive Hfun Hcons Hstat HE H.
  destruct (step_old_ok P rt base base' old now now' Hwf Hrt Hle Hcap Hcons Hstat HE) as (O1 & O2 & O3 & O4).
  eapply incr_core_E; eassumption.
Qed.

(* the first evaluation (no carried-over state): from-scratch with expiries *)
Theorem first_base : forall fuel P rt' base' now' st',
  wf_rules P = true -> now' < INF -> alive_base base' now' -> functional_base base' ->
  incr_core fuel P rt' base' [] now' = Some st' ->
  E_state P base' rt' now' st'.
Proof.
  intros fuel P rt' base' now' st' Hwf Hnow Halive Hfun H.
  destruct (empty_old_ok P base' now' Hwf) as (O1 & O2 & O3 & O4).
  eapply incr_core_E; eassumption.
Qed.
