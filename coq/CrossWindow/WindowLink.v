(* The link between the window operator (property C09) and the quantifier of C12.
   C09 proves (`C09_content_exact`, coq/Rsp09/Spec.v `content_exact`) that every reported window
   content is precisely the set of stream items with a timestamp in one aligned interval
   [c - width, c), each item once, each with its latest timestamp in the interval.  `content_exact`
   below is that definition, word for word, over C12's window entries (key = the triple, N = the
   arrival time).  Theorem: two contents that are exact for closes c <= c' of one stream (the later
   one over an extension of the stream) satisfy the window clauses of `window_consistent` -
   "each content lists a triple once" and "alive entries stay listed, with an arrival time that is
   not earlier" - at every evaluation time now' with c' <= now' + 1.  The remaining clauses of
   `window_consistent` (static graphs keep their triples, same output IRIs) concern the static data. *)
Require Import List NArith Bool Lia.
Import ListNotations.
Require Import KV.CrossWindow.Model KV.CrossWindow.Spec KV.CrossWindow.SdsProofs.
Open Scope N_scope.

(* timestamp t lies in [c - w, c)   (c - w may be negative: written without subtraction) *)
Definition in_interval (w c t : N) : Prop := c <= t + w /\ t < c.

Definition content_exact (w c : N) (evs : list wtriple) (cont : list wtriple) : Prop :=
  NoDup (map wkey cont) /\
  forall (i : key) (u : N), In (i, u) cont <->
    (In (i, u) evs /\ in_interval w c u /\
     forall u', In (i, u') evs -> in_interval w c u' -> u' <= u).

(* a key with an occurrence in the interval has a latest occurrence in the interval *)
Lemma latest_exists : forall (w c : N) (evs : list wtriple) (i : key) (u : N),
  In (i, u) evs -> in_interval w c u ->
  exists m, In (i, m) evs /\ in_interval w c m /\ u <= m /\
            forall u', In (i, u') evs -> in_interval w c u' -> u' <= m.
Proof.
  intros w c evs i. induction evs as [|[j v] evs IH]; intros u Hin Hiv; [destruct Hin|].
  destruct (existsb (fun e : wtriple => key_eqb (fst e) i && (c <=? snd e + w) && (snd e <? c)) evs) eqn:Ex.
  - (* some occurrence in the tail: take the tail's latest, compare with the head *)
    apply existsb_exists in Ex. destruct Ex as ([j' v'] & Hin' & Hc). cbn [fst snd] in Hc.
    rewrite !andb_true_iff in Hc. destruct Hc as [[Hk Hlo] Hhi].
    apply key_eqb_eq in Hk. subst j'. apply N.leb_le in Hlo. apply N.ltb_lt in Hhi.
    destruct (IH v' Hin' (conj Hlo Hhi)) as (m & Hm & Hmi & _ & Hmax).
    destruct (key_eqb j i && (c <=? v + w) && (v <? c) && (m <? v)) eqn:Eh.
    + rewrite !andb_true_iff in Eh. destruct Eh as [[[Hk Hlo'] Hhi'] Hlt].
      apply key_eqb_eq in Hk. subst j. apply N.leb_le in Hlo'. apply N.ltb_lt in Hhi'. apply N.ltb_lt in Hlt.
      exists v. split; [left; reflexivity|]. split; [split; assumption|]. split.
      * destruct Hin as [E | Hin]; [injection E as <-; lia|]. specialize (Hmax u Hin Hiv). lia.
      * intros u' [E | Hu'] Hiv'; [injection E as <-; lia|]. specialize (Hmax u' Hu' Hiv'). lia.
    + exists m. split; [right; exact Hm|]. split; [exact Hmi|]. split.
      * destruct Hin as [E | Hin]; [|apply Hmax; assumption].
        injection E as -> ->. destruct Hiv as [Hlo' Hhi'].
        assert (key_eqb i i = true) as K by (apply key_eqb_eq; reflexivity).
        rewrite K in Eh. apply N.leb_le in Hlo'. apply N.ltb_lt in Hhi'. rewrite Hlo', Hhi' in Eh. cbn [andb] in Eh.
        apply N.ltb_ge in Eh. exact Eh.
      * intros u' [E | Hu'] Hiv'; [|apply Hmax; assumption].
        injection E as -> ->. destruct Hiv' as [Hlo' Hhi'].
        assert (key_eqb i i = true) as K by (apply key_eqb_eq; reflexivity).
        rewrite K in Eh. apply N.leb_le in Hlo'. apply N.ltb_lt in Hhi'. rewrite Hlo', Hhi' in Eh. cbn [andb] in Eh.
        apply N.ltb_ge in Eh. exact Eh.
  - (* no occurrence in the tail: the head is the only one *)
    assert (forall u', In (i, u') evs -> in_interval w c u' -> False) as Hnone.
    { intros u' Hu' [Hlo Hhi].
      assert (existsb (fun e : wtriple => key_eqb (fst e) i && (c <=? snd e + w) && (snd e <? c)) evs = true) as Hex; [|congruence].
      apply existsb_exists. exists (i, u'). split; [exact Hu'|]. cbn [fst snd].
      rewrite !andb_true_iff. split; [split|]; [apply key_eqb_eq; reflexivity | apply N.leb_le; exact Hlo | apply N.ltb_lt; exact Hhi]. }
    destruct Hin as [E | Hin]; [|exfalso; eapply Hnone; eassumption].
    injection E as -> ->. exists u. split; [left; reflexivity|]. split; [exact Hiv|]. split; [lia|].
    intros u' [E | Hu'] Hiv'; [injection E as <-; lia | exfalso; eapply Hnone; eassumption].
Qed.

Lemma nodupb_NoDup : forall l : list key, NoDup l -> nodupb key_eqb l = true.
Proof.
  induction l as [|x r IH]; intros H; [reflexivity|]. cbn [nodupb]. inversion H as [|? ? Hn Hr]; subst.
  rewrite (IH Hr), andb_true_r. apply negb_true_iff. destruct (existsb (key_eqb x) r) eqn:E; [|reflexivity].
  apply existsb_exists in E. destruct E as (y & Hy & Hk). apply key_eqb_eq in Hk. subst y. contradiction.
Qed.

Theorem exact_contents_window_consistent : forall (iri : str) (w c c' now' : N) (evs more cont cont' : list wtriple),
  content_exact w c evs cont ->
  content_exact w c' (evs ++ more) cont' ->
  c <= c' -> c' <= now' + 1 ->
  stays_listed now' (iri, w, cont) (iri, w, cont') = true /\ listed_once (iri, w, cont') = true.
Proof.
  intros iri w c c' now' evs more cont cont' [_ Hc] [Hnd' Hc'] Hcc Hn. split.
  - unfold stays_listed. cbn [fst snd]. rewrite !andb_true_iff. split; [split|].
    + apply str_eqb_eq. reflexivity.
    + apply N.eqb_refl.
    + apply forallb_forall. intros [i u] Hwt. cbn [snd].
      destruct (sat_add u w <=? now') eqn:E; [reflexivity|].
      apply N.leb_gt in E. unfold sat_add in E.
      apply Hc in Hwt. destruct Hwt as (Hin & [Hlo Hhi] & _).
      assert (in_interval w c' u) as Hiv' by (unfold in_interval; lia).
      destruct (latest_exists w c' (evs ++ more) i u) as (m & Hm & Hmi & Hum & Hmax);
        [apply in_or_app; left; exact Hin | exact Hiv' |].
      apply existsb_exists. exists (i, m). split.
      * apply Hc'. split; [exact Hm|]. split; [exact Hmi | exact Hmax].
      * cbn [wkey fst snd]. rewrite andb_true_iff. split; [apply key_eqb_eq; reflexivity | apply N.leb_le; exact Hum].
  - unfold listed_once. cbn [snd]. apply nodupb_NoDup. exact Hnd'.
Qed.

(* the bound c' <= now' + 1 is needed: evaluated two ticks before the later window closes, an alive
   entry of the earlier content is missing from the later one *)
Example evaluation_too_early_refuted :
  let wt : wtriple := ([97], [112], [98], 0) in
  stays_listed 1 ([119], 3, [wt]) ([119], 3, []) = false.
Proof. vm_compute. reflexivity. Qed.

(* non-vacuity: a concrete stream and two exact contents *)
Example exact_contents_exist :
  let a : wtriple := ([97], [112], [98], 1) in
  let a' : wtriple := ([97], [112], [98], 3) in
  content_exact 3 3 [a] [a] /\ content_exact 3 4 ([a] ++ [a']) [a'].
Proof.
  cbv zeta. split; (split; [constructor; [intros []|constructor]|]); intros i u; split.
  - intros [E | []]. injection E as <- <-. split; [left; reflexivity|]. split; [unfold in_interval; lia|].
    intros u' [E | []] _. injection E as <-. lia.
  - intros ([E | []] & _ & _). left. exact E.
  - intros [E | []]. injection E as <- <-. split; [right; left; reflexivity|]. split; [unfold in_interval; lia|].
    intros u' [E | [E | []]] _; injection E as <-; lia.
  - intros ([E | [E | []]] & [Hlo Hhi] & Hmax).
    + injection E as <- <-. specialize (Hmax 3 (or_intror (or_introl eq_refl))). unfold in_interval in Hmax. lia.
    + left. exact E.
Qed.
