(* The provenance round and the driver loop: soundness (every tag is the value of a derivation that
   is fully supported that long) and completeness (at termination the tagged facts are closed under
   the rules) - the semiring fixpoint theorem at the expiry instance, for any start that satisfies
   the loop invariant. *)
Require Import List NArith Bool Lia.
Import ListNotations.
Require Import KV.CrossWindow.Model KV.CrossWindow.Spec KV.CrossWindow.BasicProofs KV.CrossWindow.JoinProofs.
Open Scope N_scope.

(* ---- induction principle for Der (nested through Forall) ------------------------------------ *)
Lemma Der_ind' : forall (P : list rule) (base : list (triple * N)) (t : N) (Q : triple -> Prop),
  (forall f e, In (f, e) base -> t <= e -> Q f) ->
  (forall r sigma c, In r P ->
      Forall (Der P base t) (map (subst_pat sigma) (prem r)) ->
      Forall Q (map (subst_pat sigma) (prem r)) ->
      In c (concl r) -> Q (subst_pat sigma c)) ->
  forall f, Der P base t f -> Q f.
Proof.
  intros P base t Q Hb Hr. fix IH 2. intros f d. destruct d as [f e Hin Hle | r sigma c Hin Hall Hc].
  - exact (Hb f e Hin Hle).
  - apply (Hr r sigma c Hin Hall); [|exact Hc].
    revert Hall. generalize (map (subst_pat sigma) (prem r)). intros l Hall.
    induction Hall as [|x l Hx Hl IHl].
    + constructor.
    + constructor.
      * apply IH. exact Hx.
      * exact IHl.
Qed.

Lemma Der_anti : forall P base t t' f, t' <= t -> Der P base t f -> Der P base t' f.
Proof.
  intros P base t t' f Hle H. induction H as [f e Hin He | r sigma c Hr _ IH Hc] using Der_ind'.
  - eapply Der_base; [exact Hin | lia].
  - apply Der_rule with (r := r); assumption.
Qed.

Lemma Forall_In : forall (A : Type) (Q : A -> Prop) l, Forall Q l <-> forall x, In x l -> Q x.
Proof. intros. apply Forall_forall. Qed.

(* ---- decidable case splits ------------------------------------------------------------------ *)
Lemma some_in_dec : forall (gs D : list triple),
  (exists g, In g gs /\ In g D) \/ (forall g, In g gs -> ~ In g D).
Proof.
  intros gs D. induction gs as [|g gs IH].
  - right. intros g [].
  - destruct (memt g D) eqn:E.
    + left. exists g. split; [left; reflexivity | apply memt_In; exact E].
    + destruct IH as [(h & Hh & Hd) | IH].
      * left. exists h. split; [right; exact Hh | exact Hd].
      * right. intros h [<- | Hh]; [apply memt_false; exact E | apply IH; exact Hh].
Qed.

Lemma all_in_dec : forall (gs F : list triple),
  (forall g, In g gs -> In g F) \/ (exists g, In g gs /\ ~ In g F).
Proof.
  intros gs F. induction gs as [|g gs IH].
  - left. intros g [].
  - destruct (memt g F) eqn:E.
    + destruct IH as [IH | (h & Hh & Hn)].
      * left. intros h [<- | Hh]; [apply memt_In; exact E | apply IH; exact Hh].
      * right. exists h. split; [right; exact Hh | exact Hn].
    + right. exists g. split; [left; reflexivity | apply memt_false; exact E].
Qed.

Lemma changed_dec : forall (tg tg' : tagstore) (gs : list triple),
  (exists g, In g gs /\ get_tag tg g <> get_tag tg' g) \/ (forall g, In g gs -> get_tag tg g = get_tag tg' g).
Proof.
  intros tg tg' gs. induction gs as [|g gs IH].
  - right. intros g [].
  - destruct (N.eq_dec (get_tag tg g) (get_tag tg' g)) as [E | E].
    + destruct IH as [(h & Hh & Hn) | IH].
      * left. exists h. split; [right; exact Hh | exact Hn].
      * right. intros h [<- | Hh]; [exact E | apply IH; exact Hh].
    + left. exists g. split; [left; reflexivity | exact E].
Qed.

(* ---- fold with a prefix invariant ----------------------------------------------------------- *)
Lemma fold_left_prefix_inv : forall (A B : Type) (f : A -> B -> A) (Inv : list B -> A -> Prop) (l : list B) (a0 : A),
  Inv [] a0 ->
  (forall pre x a, Inv pre a -> In x l -> Inv (pre ++ [x]) (f a x)) ->
  Inv l (fold_left f l a0).
Proof.
  intros A B f Inv l a0 H0 Hstep.
  assert (forall suf pre a, Inv pre a -> (forall x, In x suf -> In x l) -> Inv (pre ++ suf) (fold_left f suf a)) as G.
  { induction suf as [|x suf IH]; intros pre a Hi Hsub; cbn [fold_left].
    - rewrite app_nil_r. exact Hi.
    - replace (pre ++ x :: suf) with ((pre ++ [x]) ++ suf) by (rewrite <- app_assoc; reflexivity).
      apply IH.
      + apply Hstep; [exact Hi | apply Hsub; left; reflexivity].
      + intros y Hy. apply Hsub. right. exact Hy. }
  apply (G l [] a0 H0). intros x Hx. exact Hx.
Qed.

Section Round.
  Variable P : list rule.
  Variable base : list (triple * N).
  Hypothesis Hwf : wf_rules P = true.

  (* facts known before the round *)
  Variable F : list triple.

  Definition st_tags (st : rstate) : tagstore := fst (fst st).
  Definition st_new (st : rstate) : list triple := snd (fst st).
  Definition st_imp (st : rstate) : list triple := snd st.

  Definition present (st : rstate) (f : triple) : Prop := In f F \/ In f (st_new st).

  (* soundness of the tags, new facts really new, improved facts known *)
  Definition Good (st : rstate) : Prop :=
    (forall f, present st f -> 0 < get_tag (st_tags st) f /\ Der P base (get_tag (st_tags st) f) f) /\
    (forall f, In f (st_new st) -> ~ In f F) /\
    (forall f, In f (st_imp st) -> In f F).

  (* how a round state evolves: present facts stay and their tags only grow; a known fact whose tag
     changed is recorded as improved *)
  Definition evolves (st st' : rstate) : Prop :=
    (forall f, present st f -> present st' f /\ get_tag (st_tags st) f <= get_tag (st_tags st') f) /\
    (forall g, In g F -> get_tag (st_tags st) g <> get_tag (st_tags st') g -> In g (st_imp st')) /\
    (forall g, In g (st_imp st) -> In g (st_imp st')).

  Lemma evolves_refl : forall st, evolves st st.
  Proof.
    intros st. split; [|split].
    - intros f Hf. split; [exact Hf | lia].
    - intros g _ H. contradiction H. reflexivity.
    - intros g H. exact H.
  Qed.

  Lemma evolves_trans : forall a b c, evolves a b -> evolves b c -> evolves a c.
  Proof.
    intros a b c (A1 & A2 & A3) (B1 & B2 & B3). split; [|split].
    - intros f Hf. destruct (A1 f Hf) as [Hb Hl]. destruct (B1 f Hb) as [Hc Hl']. split; [exact Hc | lia].
    - intros g Hg Hne.
      destruct (N.eq_dec (get_tag (st_tags a) g) (get_tag (st_tags b) g)) as [E | E].
      + apply B2; [exact Hg | congruence].
      + apply B3. apply A2; [exact Hg | exact E].
    - intros g Hg. apply B3, A3, Hg.
  Qed.

  (* the obligation attached to a ground rule instance: premises gs (all known), conclusion f *)
  Definition ok (st : rstate) (gs : list triple) (f : triple) : Prop :=
    (exists g, In g gs /\ In g (st_imp st)) \/
    (present st f /\ min_tags (st_tags st) gs <= get_tag (st_tags st) f).

  Lemma ok_evolves : forall st st' gs f,
    (forall g, In g gs -> In g F) -> evolves st st' -> ok st gs f -> ok st' gs f.
  Proof.
    intros st st' gs f Hgs (E1 & E2 & E3) [(g & Hg & Hi) | [Hp Hle]].
    - left. exists g. split; [exact Hg | apply E3; exact Hi].
    - destruct (changed_dec (st_tags st) (st_tags st') gs) as [(g & Hg & Hne) | Hsame].
      + left. exists g. split; [exact Hg|]. apply E2; [apply Hgs; exact Hg | exact Hne].
      + right. destruct (E1 f Hp) as [Hp' Hl]. split; [exact Hp'|].
        rewrite <- (min_tags_ext _ _ gs Hsame). lia.
  Qed.

  (* ---- one conclusion ---------------------------------------------------------------------- *)
  Lemma step_concl_cases : forall t st f,
    let st' := step_concl F t st f in
    (* new fact *)
    (~ In f F /\ ~ In f (st_new st) /\
     st' = (set_tag f t (st_tags st), st_new st ++ [f], st_imp st)) \/
    (* nothing changes *)
    ((In f F \/ In f (st_new st)) /\ N.max (get_tag (st_tags st) f) t = get_tag (st_tags st) f /\ st' = st) \/
    (* tag improved *)
    ((In f F \/ In f (st_new st)) /\ get_tag (st_tags st) f < t /\
     ((In f F /\ st' = (set_tag f t (st_tags st), st_new st, st_imp st ++ [f])) \/
      (~ In f F /\ st' = (set_tag f t (st_tags st), st_new st, st_imp st)))).
  Proof.
    intros t [[tg new] imp] f. cbn zeta. unfold step_concl, st_tags, st_new, st_imp. cbn [fst snd].
    assert (forall (known : Prop) (HK : known \/ ~ known),
              (In f F \/ In f new) -> (known <-> In f F) ->
              let st1 := (if N.max (get_tag tg f) t =? get_tag tg f then (tg, new, imp)
                          else (set_tag f (N.max (get_tag tg f) t) tg, new, imp)) in
              forall st', 
              ((N.max (get_tag tg f) t =? get_tag tg f) = true -> st' = (tg, new, imp)) ->
              ((N.max (get_tag tg f) t =? get_tag tg f) = false ->
                 (In f F -> st' = (set_tag f (N.max (get_tag tg f) t) tg, new, imp ++ [f])) /\
                 (~ In f F -> st' = (set_tag f (N.max (get_tag tg f) t) tg, new, imp))) ->
              ((In f F \/ In f new) /\ N.max (get_tag tg f) t = get_tag tg f /\ st' = (tg, new, imp)) \/
              ((In f F \/ In f new) /\ get_tag tg f < t /\
               ((In f F /\ st' = (set_tag f t tg, new, imp ++ [f])) \/
                (~ In f F /\ st' = (set_tag f t tg, new, imp))))) as Else.
    { intros known HK Hp _ _ st' H1 H2.
      destruct (N.max (get_tag tg f) t =? get_tag tg f) eqn:Em.
      - left. apply N.eqb_eq in Em. split; [exact Hp|]. split; [exact Em | apply H1; reflexivity].
      - right. apply N.eqb_neq in Em. assert (get_tag tg f < t) as Hlt by lia.
        split; [exact Hp|]. split; [exact Hlt|].
        replace (N.max (get_tag tg f) t) with t in H2 by lia.
        destruct (H2 eq_refl) as [Ha Hb].
        destruct (memt f F) eqn:EF.
        + apply memt_In in EF. left. split; [exact EF | apply Ha; exact EF].
        + apply memt_false in EF. right. split; [exact EF | apply Hb; exact EF]. }
    destruct (memt f F) eqn:EF; destruct (memt f new) eqn:EN; cbn [negb andb].
    - apply memt_In in EF. apply memt_In in EN. right.
      apply (Else True (or_introl Logic.I) (or_introl EF)); [tauto | |].
      + intros E. rewrite E. reflexivity.
      + intros E. rewrite E. split; [reflexivity | tauto].
    - apply memt_In in EF. apply memt_false in EN. right.
      apply (Else True (or_introl Logic.I) (or_introl EF)); [tauto | |].
      + intros E. rewrite E. reflexivity.
      + intros E. rewrite E. split; [reflexivity | tauto].
    - apply memt_false in EF. apply memt_In in EN. right.
      apply (Else False (or_intror (fun x => x)) (or_intror EN)); [tauto | |].
      + intros E. rewrite E. reflexivity.
      + intros E. rewrite E. split; [tauto | reflexivity].
    - apply memt_false in EF. apply memt_false in EN. left. auto.
  Qed.

  Lemma step_concl_evolves : forall t st f,
    (forall g, In g (st_new st) -> ~ In g F) ->
    evolves st (step_concl F t st f).
  Proof.
    intros t st f Hdis.
    destruct (step_concl_cases t st f) as [(HnF & HnN & ->) | [(Hp & Hm & ->) | (Hp & Hlt & [(HF & ->) | (HnF & ->)])]].
    - unfold evolves, present, st_tags, st_new, st_imp. cbn [fst snd]. split; [|split].
      + intros g Hg. split; [rewrite in_app_iff; tauto|].
        rewrite get_set_other; [lia|]. intros ->. tauto.
      + intros g Hg Hne. exfalso. apply Hne. rewrite get_set_other; [reflexivity|]. intros ->. contradiction.
      + intros g Hg. exact Hg.
    - apply evolves_refl.
    - unfold evolves, present, st_tags, st_new, st_imp. cbn [fst snd]. split; [|split].
      + intros g Hg. split; [exact Hg|].
        destruct (triple_dec f g) as [<- | Hne]; [rewrite get_set_same; unfold st_tags in Hlt; lia | rewrite get_set_other by exact Hne; lia].
      + intros g Hg Hne. rewrite in_app_iff.
        destruct (triple_dec f g) as [<- | Hfg]; [right; left; reflexivity|].
        exfalso. apply Hne. rewrite get_set_other by exact Hfg. reflexivity.
      + intros g Hg. rewrite in_app_iff. left. exact Hg.
    - unfold evolves, present, st_tags, st_new, st_imp. cbn [fst snd]. split; [|split].
      + intros g Hg. split; [exact Hg|].
        destruct (triple_dec f g) as [<- | Hne]; [rewrite get_set_same; unfold st_tags in Hlt; lia | rewrite get_set_other by exact Hne; lia].
      + intros g Hg Hne. exfalso. apply Hne. rewrite get_set_other; [reflexivity|]. intros ->. contradiction.
      + intros g Hg. exact Hg.
  Qed.

  Lemma step_concl_hit : forall t st f,
    let st' := step_concl F t st f in present st' f /\ t <= get_tag (st_tags st') f.
  Proof.
    intros t st f.
    destruct (step_concl_cases t st f) as [(HnF & HnN & E) | [(Hp & Hm & E) | (Hp & Hlt & [(HF & E) | (HnF & E)])]];
      cbn zeta; rewrite E; unfold present, st_tags, st_new, st_imp; cbn [fst snd].
    - split; [right; rewrite in_app_iff; right; left; reflexivity | rewrite get_set_same; lia].
    - split; [exact Hp | unfold st_tags in Hm; lia].
    - split; [exact Hp | rewrite get_set_same; lia].
    - split; [exact Hp | rewrite get_set_same; lia].
  Qed.

  Lemma step_concl_good : forall t st f,
    0 < t -> Der P base t f -> Good st -> Good (step_concl F t st f).
  Proof.
    intros t st f Ht Hd (G1 & G2 & G3).
    destruct (step_concl_cases t st f) as [(HnF & HnN & E) | [(Hp & Hm & E) | (Hp & Hlt & [(HF & E) | (HnF & E)])]];
      cbn zeta in E; rewrite E; clear E.
    - unfold Good, present, st_tags, st_new, st_imp in *. cbn [fst snd]. split; [|split].
      + intros g Hg. destruct (triple_dec f g) as [<- | Hne].
        * rewrite get_set_same. auto.
        * rewrite get_set_other by exact Hne. apply G1. rewrite in_app_iff in Hg.
          destruct Hg as [Hg | [Hg | [Hg | []]]]; [left; exact Hg | right; exact Hg | congruence].
      + intros g Hg. rewrite in_app_iff in Hg. destruct Hg as [Hg | [<- | []]]; [apply G2; exact Hg | exact HnF].
      + exact G3.
    - split; [exact G1 | split; [exact G2 | exact G3]].
    - unfold Good, present, st_tags, st_new, st_imp in *. cbn [fst snd]. split; [|split].
      + intros g Hg. destruct (triple_dec f g) as [<- | Hne].
        * rewrite get_set_same. auto.
        * rewrite get_set_other by exact Hne. apply G1. exact Hg.
      + exact G2.
      + intros g Hg. rewrite in_app_iff in Hg. destruct Hg as [Hg | [<- | []]]; [apply G3; exact Hg | exact HF].
    - unfold Good, present, st_tags, st_new, st_imp in *. cbn [fst snd]. split; [|split].
      + intros g Hg. destruct (triple_dec f g) as [<- | Hne].
        * rewrite get_set_same. auto.
        * rewrite get_set_other by exact Hne. apply G1. exact Hg.
      + exact G2.
      + exact G3.
  Qed.

  (* ---- all conclusions of one binding -------------------------------------------------------- *)
  Lemma fold_concl : forall t fs st,
    0 < t -> (forall f, In f fs -> Der P base t f) -> Good st ->
    let st' := fold_left (step_concl F t) fs st in
    Good st' /\ evolves st st' /\ (forall f, In f fs -> present st' f /\ t <= get_tag (st_tags st') f).
  Proof.
    intros t fs. induction fs as [|f fs IH]; intros st Ht Hd Hg; cbn [fold_left]; cbn zeta.
    - split; [exact Hg|]. split; [apply evolves_refl | intros f []].
    - assert (Good (step_concl F t st f)) as Hg1
          by (apply step_concl_good; [exact Ht | apply Hd; left; reflexivity | exact Hg]).
      assert (evolves st (step_concl F t st f)) as He1 by (apply step_concl_evolves; apply Hg).
      destruct (IH (step_concl F t st f) Ht (fun g Hg' => Hd g (or_intror Hg')) Hg1) as (Hg2 & He2 & Hh2).
      split; [exact Hg2|]. split; [eapply evolves_trans; eauto|].
      intros g [<- | Hg']; [|apply Hh2; exact Hg'].
      destruct (step_concl_hit t st f) as [Hp Hl]. cbn zeta in Hp, Hl.
      destruct He2 as (E1 & _ & _). destruct (E1 f Hp) as [Hp' Hl']. split; [exact Hp' | lia].
  Qed.

  (* ---- one job ------------------------------------------------------------------------------- *)
  Lemma step_job_inv : forall st gs fs r sigma,
    Good st -> In r P ->
    gs = map (subst_pat sigma) (prem r) -> fs = map (subst_pat sigma) (concl r) ->
    (forall g, In g gs -> In g F) ->
    let st' := step_job F st (gs, fs) in
    Good st' /\ evolves st st' /\ (forall f, In f fs -> ok st' gs f).
  Proof.
    intros st gs fs r sigma Hg Hr Egs Efs HgsF. cbn zeta. unfold step_job. cbn [fst snd].
    fold (st_tags st). set (t := min_tags (st_tags st) gs).
    assert (0 < t) as Ht.
    { assert (1 <= t) as H1; [|lia]. apply min_tags_spec. split; [unfold INF; lia|].
      intros g Hgin. destruct Hg as (G1 & _ & _). destruct (G1 g (or_introl (HgsF g Hgin))) as [Hpos _]. lia. }
    assert (t =? 0 = false) as -> by (apply N.eqb_neq; lia).
    assert (forall f, In f fs -> Der P base t f) as Hd.
    { intros f Hf. rewrite Efs in Hf. apply in_map_iff in Hf. destruct Hf as (c & <- & Hc).
      apply Der_rule with (r := r); [exact Hr | | exact Hc]. apply Forall_forall. intros g Hgin. rewrite <- Egs in Hgin.
      destruct Hg as (G1 & _ & _). destruct (G1 g (or_introl (HgsF g Hgin))) as [_ Hder].
      eapply Der_anti; [|exact Hder]. apply min_tags_le. exact Hgin. }
    destruct (fold_concl t fs st Ht Hd Hg) as (Hg' & He & Hh). cbn zeta in Hg', He, Hh.
    split; [exact Hg'|]. split; [exact He|].
    intros f Hf. destruct (Hh f Hf) as [Hp Hl].
    destruct (changed_dec (st_tags st) (st_tags (fold_left (step_concl F t) fs st)) gs) as [(g & Hgin & Hne) | Hsame].
    - left. exists g. split; [exact Hgin|]. destruct He as (_ & E2 & _). apply E2; [apply HgsF; exact Hgin | exact Hne].
    - right. split; [exact Hp|]. rewrite <- (min_tags_ext _ _ gs Hsame). exact Hl.
  Qed.

  (* ---- the whole round ----------------------------------------------------------------------- *)
  Variable D : list triple.
  Hypothesis HD : incl D F.

  Definition instance (F' : list triple) (gs : list triple) (f : triple) : Prop :=
    exists r sigma c, In r P /\ gs = map (subst_pat sigma) (prem r) /\ In c (concl r) /\
                      f = subst_pat sigma c /\ (forall g, In g gs -> In g F').

  Lemma round_inv : forall tg,
    let st0 : rstate := (tg, [], []) in
    Good st0 ->
    (forall gs f, instance F gs f -> (exists g, In g gs /\ In g D) \/ ok st0 gs f) ->
    let st' := round P F tg D in
    Good st' /\ evolves st0 st' /\ (forall gs f, instance F gs f -> ok st' gs f).
  Proof.
    intros tg st0 Hg0 Hc0. cbn zeta. unfold round. fold st0.
    pose (Inv := fun (done : list job) (st : rstate) =>
                   Good st /\ evolves st0 st /\
                   (forall gs fs f, In (gs, fs) done -> In f fs -> (forall g, In g gs -> In g F) /\ ok st gs f)).
    assert (Inv (jobs P F D) (fold_left (step_job F) (jobs P F D) st0)) as (Hg & He & Hdone).
    { apply fold_left_prefix_inv.
      - split; [exact Hg0|]. split; [apply evolves_refl|]. intros gs fs f [].
      - intros pre [gs fs] st (Hg & He & Hdone) Hj.
        destruct (jobs_sound P F D gs fs Hwf HD Hj) as (r & sigma & Hr & Egs & Efs & HgsF).
        destruct (step_job_inv st gs fs r sigma Hg Hr Egs Efs HgsF) as (Hg' & He' & Hnew). cbn zeta in Hg', He', Hnew.
        split; [exact Hg'|]. split; [eapply evolves_trans; eauto|].
        intros gs1 fs1 f1 Hin Hf1. rewrite in_app_iff in Hin. destruct Hin as [Hin | [Hin | []]].
        + destruct (Hdone gs1 fs1 f1 Hin Hf1) as [HF1 Hok]. split; [exact HF1|].
          eapply ok_evolves; eauto.
        + injection Hin as <- <-. split; [exact HgsF | apply Hnew; exact Hf1]. }
    split; [exact Hg|]. split; [exact He|].
    intros gs f (r & sigma & c & Hr & Egs & Hc & Ef & HgsF).
    destruct (some_in_dec gs D) as [(g & Hgin & HgD) | Hnone].
    - assert (In (map (subst_pat sigma) (prem r), map (subst_pat sigma) (concl r)) (jobs P F D)) as Hj.
      { apply jobs_complete; [exact Hwf | exact HD | exact Hr | |].
        - intros p Hp. apply HgsF. rewrite Egs. apply in_map. exact Hp.
        - rewrite Egs in Hgin. apply in_map_iff in Hgin. destruct Hgin as (p & <- & Hp). exists p. auto. }
      rewrite <- Egs in Hj. apply (Hdone gs _ f Hj). rewrite Ef. apply in_map. exact Hc.
    - destruct (Hc0 gs f) as [(g & Hgin & HgD) | Hok].
      + exists r, sigma, c. auto.
      + exfalso. apply (Hnone g Hgin HgD).
      + eapply ok_evolves; eauto.
  Qed.
End Round.

(* ---- the driver loop -------------------------------------------------------------------------- *)
Section Loop.
  Variable P : list rule.
  Variable base : list (triple * N).
  Hypothesis Hwf : wf_rules P = true.

  (* loop invariant: D is the delta of the coming round *)
  Definition LInv (F : list triple) (tg : tagstore) (D : list triple) : Prop :=
    incl D F /\
    (forall f, In f F -> 0 < get_tag tg f /\ Der P base (get_tag tg f) f) /\
    (forall f e, In (f, e) base -> In f F /\ e <= get_tag tg f) /\
    (forall gs f, instance P F gs f ->
                  (exists g, In g gs /\ In g D) \/ (In f F /\ min_tags tg gs <= get_tag tg f)).

  (* what the loop returns *)
  Definition Final (F : list triple) (tg : tagstore) : Prop :=
    (forall f, In f F -> 0 < get_tag tg f /\ Der P base (get_tag tg f) f) /\
    (forall f e, In (f, e) base -> In f F /\ e <= get_tag tg f) /\
    (forall gs f, instance P F gs f -> In f F /\ min_tags tg gs <= get_tag tg f).

  (* one round re-establishes the loop invariant for the extended fact list and the next delta *)
  Lemma round_LInv : forall F tg D,
    LInv F tg D ->
    let r := round P F tg D in
    LInv (F ++ snd (fst r)) (fst (fst r)) (snd (fst r) ++ snd r) /\
    Good P base F r /\ evolves F (tg, [], []) r.
  Proof.
    intros F tg D (HD & Hs & Hb & Hc). cbn zeta.
    assert (Good P base F (tg, [], [])) as Hg0.
    { split; [|split].
      - intros f [Hf | []]. apply Hs. exact Hf.
      - intros f [].
      - intros f []. }
    destruct (round_inv P base Hwf F D HD tg Hg0) as (Hg & He & Hok).
    { intros gs f Hi. destruct (Hc gs f Hi) as [H | [HfF Hle]]; [left; exact H|].
      right. right. split; [left; exact HfF | exact Hle]. }
    cbn zeta in Hg, He, Hok.
    split; [|split; [exact Hg | exact He]].
    set (r := round P F tg D) in *.
    destruct r as [[tg1 new] imp] eqn:Er. cbn [fst snd].
    destruct Hg as (G1 & G2 & G3). destruct He as (E1 & E2 & E3).
    unfold present, st_tags, st_new, st_imp in *. cbn [fst snd] in *.
    split; [|split; [|split]].
    - intros f Hf. rewrite in_app_iff in *. destruct Hf as [Hf | Hf]; [right; exact Hf | left; apply G3; exact Hf].
    - intros f Hf. apply G1. rewrite in_app_iff in Hf. exact Hf.
    - intros f e Hin. destruct (Hb f e Hin) as [HfF Hle]. split; [rewrite in_app_iff; left; exact HfF|].
      destruct (E1 f (or_introl HfF)) as [_ Hm]. lia.
    - intros gs f (r0 & sigma & c & Hr & Egs & Hcc & Ef & HgsF).
      destruct (all_in_dec gs F) as [Hall | (g & Hgin & HgnF)].
      + destruct (Hok gs f) as [(g & Hgin & Hgi) | [Hp Hle]].
        * exists r0, sigma, c. auto.
        * left. exists g. split; [exact Hgin | rewrite in_app_iff; right; exact Hgi].
        * right. split; [rewrite in_app_iff; exact Hp | exact Hle].
      + left. exists g. split; [exact Hgin|]. specialize (HgsF g Hgin). rewrite in_app_iff in *.
        destruct HgsF as [HgF | HgN]; [contradiction | left; exact HgN].
  Qed.

  Lemma loop_inv : forall fuel F tg D F' tg',
    LInv F tg D -> loop fuel P F tg D = Some (F', tg') -> Final F' tg'.
  Proof.
    induction fuel as [|k IH]; intros F tg D F' tg' HLI Hl; cbn [loop] in Hl; [discriminate|].
    destruct (round_LInv F tg D HLI) as (HL & _ & _). cbn zeta in HL.
    set (r := round P F tg D) in *.
    destruct r as [[tg1 new] imp] eqn:Er. cbn [fst snd] in Hl, HL.
    destruct new as [|n new].
    - destruct imp as [|i imp].
      + injection Hl as <- <-. destruct HL as (_ & Hs' & Hb' & Hc'). split; [exact Hs'|]. split; [exact Hb'|].
        intros gs f Hi. destruct (Hc' gs f Hi) as [(g & _ & []) | H]. exact H.
      + apply (IH _ _ _ _ _ HL Hl).
    - apply (IH _ _ _ _ _ HL Hl).
  Qed.

  (* base facts have a positive expiry (alive facts: expiry > now >= 0) *)
  Hypothesis Hpos : forall f e, In (f, e) base -> 0 < e.

  Lemma Der_pos : forall t f, Der P base t f -> Der P base 1 f.
  Proof.
    intros t f H. induction H as [f e Hin He | r sigma c Hr _ IH Hc] using Der_ind'.
    - eapply Der_base; [exact Hin|]. specialize (Hpos f e Hin). lia.
    - apply Der_rule with (r := r); assumption.
  Qed.

  (* expiries are u64 values *)
  Hypothesis Hcap : forall f e, In (f, e) base -> e <= INF.

  Lemma Der_le_INF : forall t f, Der P base t f -> t <= INF.
  Proof.
    intros t f H. induction H as [f e Hin He | r sigma c Hr _ IH Hc] using Der_ind'.
    - specialize (Hcap f e Hin). lia.
    - pose proof (wf_rule_nonempty r (wf_rules_In _ _ Hwf Hr)) as Hne.
      destruct (prem r) as [|p ps]; [contradiction Hne; reflexivity|].
      cbn [map] in IH. inversion IH; assumption.
  Qed.

  Lemma final_complete : forall F tg,
    Final F tg -> forall t f, Der P base t f -> 0 < t -> In f F /\ t <= get_tag tg f.
  Proof.
    intros F tg (Hs & Hb & Hc) t f H Ht.
    induction H as [f e Hin He | r sigma c Hr Hall IH Hcc] using Der_ind'.
    - destruct (Hb f e Hin) as [HfF Hle]. split; [exact HfF | lia].
    - rewrite Forall_forall in IH.
      destruct (Hc (map (subst_pat sigma) (prem r)) (subst_pat sigma c)) as [HfF Hle].
      + exists r, sigma, c. split; [exact Hr|]. split; [reflexivity|]. split; [exact Hcc|]. split; [reflexivity|].
        intros g Hg. apply IH. exact Hg.
      + split; [exact HfF|]. eapply N.le_trans; [|exact Hle].
        apply min_tags_spec. split.
        * eapply Der_le_INF. apply Der_rule with (r := r); eassumption.
        * intros g Hg. apply IH. exact Hg.
  Qed.

  (* the semiring fixpoint theorem at the expiry instance, for the state the loop returns *)
  Theorem final_is_E : forall F tg,
    Final F tg ->
    forall f e, (In f F /\ get_tag tg f = e) <-> is_E P base f e.
  Proof.
    intros F tg HF. pose proof (final_complete F tg HF) as Hcomp. destruct HF as (Hs & Hb & Hc).
    intros f e. split.
    - intros [HfF <-]. destruct (Hs f HfF) as [Hp Hd]. split; [exact Hd|].
      intros t Ht. destruct (N.eq_dec t 0) as [-> | Hne]; [lia|]. apply Hcomp; [exact Ht | lia].
    - intros [Hd Hmax].
      assert (0 < e) as He. { apply Der_pos in Hd. specialize (Hmax 1 Hd). lia. }
      destruct (Hcomp e f Hd He) as [HfF Hle]. split; [exact HfF|].
      destruct (Hs f HfF) as [_ Hd']. specialize (Hmax _ Hd'). lia.
  Qed.
End Loop.
