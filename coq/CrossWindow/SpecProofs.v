(* The executable oracle of Spec.v (plain iteration of the annotated consequence operator) computes
   E: whenever spec_E returns a map, the map sends f to e exactly when is_E f e. *)
Require Import List NArith Bool Lia PeanoNat.
Import ListNotations.
Require Import KV.CrossWindow.Model KV.CrossWindow.Spec KV.CrossWindow.BasicProofs KV.CrossWindow.JoinProofs KV.CrossWindow.RoundProofs.
Open Scope N_scope.

(* ---- association lists ---------------------------------------------------------------------------------- *)
Lemma alookup_In : forall M f e, alookup M f = Some e -> In (f, e) M.
Proof.
  induction M as [|[g e0] M IH]; intros f e H; cbn [alookup] in H; [discriminate|].
  destruct (triple_eqb f g) eqn:E.
  - apply triple_eqb_eq in E. subst. injection H as ->. left. reflexivity.
  - right. apply IH. exact H.
Qed.

Lemma alookup_keys : forall M f, alookup M f <> None <-> In f (map fst M).
Proof.
  induction M as [|[g e0] M IH]; intros f; cbn [alookup map In fst]; [tauto|].
  destruct (triple_eqb f g) eqn:E.
  - apply triple_eqb_eq in E. subst. split; [intros _; left; reflexivity | intros _; discriminate].
  - apply triple_eqb_neq in E. rewrite IH. split; [intros H; right; exact H | intros [H | H]; [congruence | exact H]].
Qed.

Lemma alookup_ajoin_same : forall M f t,
  alookup (ajoin f t M) f = Some (match alookup M f with Some e => N.max t e | None => t end).
Proof.
  induction M as [|[g e0] M IH]; intros f t; cbn [ajoin alookup].
  - rewrite triple_eqb_refl. reflexivity.
  - destruct (triple_eqb f g) eqn:E; cbn [alookup]; rewrite E; [reflexivity | apply IH].
Qed.

Lemma alookup_ajoin_other : forall M f g t, f <> g -> alookup (ajoin f t M) g = alookup M g.
Proof.
  induction M as [|[h e0] M IH]; intros f g t Hne; cbn [ajoin alookup].
  - assert (triple_eqb g f = false) as -> by (apply triple_eqb_neq; congruence). reflexivity.
  - destruct (triple_eqb f h) eqn:E; cbn [alookup].
    + apply triple_eqb_eq in E. subst h. assert (triple_eqb g f = false) as -> by (apply triple_eqb_neq; congruence). reflexivity.
    + rewrite IH by exact Hne. reflexivity.
Qed.

(* value at least t *)
Definition atleast (M : list (triple * N)) (f : triple) (t : N) : Prop :=
  exists e, alookup M f = Some e /\ t <= e.

Lemma atleast_ajoin : forall M f t g u, atleast M g u -> atleast (ajoin f t M) g u.
Proof.
  intros M f t g u (e & He & Hle). destruct (triple_dec f g) as [-> | Hne].
  - unfold atleast. rewrite alookup_ajoin_same, He. eexists. split; [reflexivity | lia].
  - unfold atleast. rewrite alookup_ajoin_other by exact Hne. exists e. auto.
Qed.

Lemma atleast_ajoin_hit : forall M f t, atleast (ajoin f t M) f t.
Proof.
  intros M f t. unfold atleast. rewrite alookup_ajoin_same. eexists. split; [reflexivity|].
  destruct (alookup M f); lia.
Qed.

Definition jstep (acc : list (triple * N)) (x : N * triple) : list (triple * N) := ajoin (snd x) (fst x) acc.

Lemma jfold_mono : forall L acc g u, atleast acc g u -> atleast (fold_left jstep L acc) g u.
Proof.
  induction L as [|x L IH]; intros acc g u H; cbn [fold_left]; [exact H|]. apply IH. apply atleast_ajoin. exact H.
Qed.

Lemma jfold_hit : forall L acc t f, In (t, f) L -> atleast (fold_left jstep L acc) f t.
Proof.
  induction L as [|x L IH]; intros acc t f H; [destruct H|]. cbn [fold_left]. destruct H as [-> | H].
  - apply jfold_mono. apply atleast_ajoin_hit.
  - apply IH. exact H.
Qed.

(* ---- all_solutions = the join with no skipped premise ------------------------------------------------------- *)
Lemma join_others_none : forall ps i j all bs,
  (forall k, (k < length ps)%nat -> (j + k)%nat <> i) ->
  join_others i j ps all bs = fold_left (fun bs p => extend p all bs) ps bs.
Proof.
  induction ps as [|p ps IH]; intros i j all bs H; cbn [join_others fold_left]; [reflexivity|].
  assert (Nat.eqb i j = false) as ->.
  { apply Nat.eqb_neq. specialize (H 0%nat). cbn [length] in H. lia. }
  apply IH. intros k Hk. specialize (H (S k)). cbn [length] in H. lia.
Qed.

Lemma all_solutions_join : forall ps F, all_solutions ps F = join_others (length ps) 0 ps F [[]].
Proof. intros ps F. unfold all_solutions. symmetry. apply join_others_none. intros k Hk. lia. Qed.

Lemma all_solutions_sound : forall ps F b,
  In b (all_solutions ps F) ->
  (forall p x, In p ps -> In x (pat_vars p) -> bound b x) /\
  (forall sigma, agrees b sigma -> forall p, In p ps -> In (subst_pat sigma p) F).
Proof.
  intros ps F b H. rewrite all_solutions_join in H. apply join_others_sound in H.
  destruct H as (b0 & _ & _ & Cov). split.
  - intros p x Hp Hx. apply In_nth_error in Hp. destruct Hp as (k & Hk).
    assert (k < length ps)%nat by (apply nth_error_Some; congruence).
    apply (Cov k p Hk); [cbn; lia | exact Hx].
  - intros sigma Ha p Hp. apply In_nth_error in Hp. destruct Hp as (k & Hk).
    assert (k < length ps)%nat by (apply nth_error_Some; congruence).
    apply (Cov k p Hk); [cbn; lia | exact Ha].
Qed.

Lemma all_solutions_complete : forall ps F sigma,
  (forall p, In p ps -> In (subst_pat sigma p) F) ->
  exists b, In b (all_solutions ps F) /\ agrees b sigma.
Proof.
  intros ps F sigma H. rewrite all_solutions_join.
  apply (join_others_complete ps (length ps) 0 F [[]] [] sigma); [left; reflexivity | apply agrees_nil|].
  intros k p Hk _. apply H. eapply nth_error_In. exact Hk.
Qed.

(* ---- spec_min ------------------------------------------------------------------------------------------------ *)
Lemma spec_min_fold : forall M gs a t,
  (forall g, In g gs -> alookup M g <> None) ->
  (t <= fold_left (fun acc g => match alookup M g with Some e => N.min acc e | None => 0 end) gs a <->
   (t <= a /\ forall g, In g gs -> atleast M g t)).
Proof.
  intros M gs. induction gs as [|g gs IH]; intros a t Hp; cbn [fold_left].
  - split; [intros H; split; [exact H | intros g []] | tauto].
  - destruct (alookup M g) as [e|] eqn:Eg; [|exfalso; apply (Hp g (or_introl eq_refl)); exact Eg].
    rewrite IH by (intros h Hh; apply Hp; right; exact Hh). split.
    + intros [H1 H2]. split; [lia|]. intros h [<- | Hh]; [exists e; split; [exact Eg | lia] | apply H2; exact Hh].
    + intros [H1 H2]. split; [|intros h Hh; apply H2; right; exact Hh].
      destruct (H2 g (or_introl eq_refl)) as (e' & He' & Hle). rewrite Eg in He'. injection He' as <-. lia.
Qed.

Lemma spec_min_spec : forall M gs t,
  (forall g, In g gs -> alookup M g <> None) ->
  (t <= spec_min M gs <-> (t <= INF /\ forall g, In g gs -> atleast M g t)).
Proof. intros. unfold spec_min. apply spec_min_fold. assumption. Qed.

(* ---- the iteration --------------------------------------------------------------------------------------------- *)
Section SpecE.
  Variable P : list rule.
  Variable base : list (triple * N).
  Hypothesis Hwf : wf_rules P = true.
  Hypothesis Hpos : forall f e, In (f, e) base -> 0 < e.
  Hypothesis Hcap : forall f e, In (f, e) base -> e <= INF.

  (* every entry is the value of a derivation; every base fact is present at least with its expiry *)
  Definition SInv (M : list (triple * N)) : Prop :=
    (forall f e, alookup M f = Some e -> 0 < e /\ Der P base e f) /\
    (forall f e, In (f, e) base -> atleast M f e).

  Lemma jobs_spec_sound : forall M t f,
    (forall g e, alookup M g = Some e -> 0 < e /\ Der P base e g) ->
    In (t, f) (spec_jobs P M) -> 0 < t /\ Der P base t f.
  Proof.
    intros M t f HS H. unfold spec_jobs in H. apply in_flat_map in H. destruct H as (r & Hr & H).
    destruct (prem r) as [|p0 ps] eqn:Ep; [destruct H|]. rewrite <- Ep in H.
    apply in_flat_map in H. destruct H as (b & Hb & H). apply in_map_iff in H. destruct H as (f' & E & Hf).
    injection E as <- <-.
    destruct (all_solutions_sound _ _ _ Hb) as (Hbound & Hall).
    pose proof (agrees_sigma_of b) as Ha.
    rewrite (inst_list_agrees b (sigma_of b) (prem r) Ha Hbound) in *.
    assert (forall g, In g (map (subst_pat (sigma_of b)) (prem r)) -> alookup M g <> None) as Hpres.
    { intros g Hg. apply in_map_iff in Hg. destruct Hg as (p & <- & Hp). apply alookup_keys. apply (Hall _ Ha p Hp). }
    set (gs := map (subst_pat (sigma_of b)) (prem r)) in *.
    assert (forall g, In g gs -> atleast M g (spec_min M gs)) as Hmin.
    { apply (proj1 (spec_min_spec M gs (spec_min M gs) Hpres) (N.le_refl _)). }
    assert (0 < spec_min M gs) as Hpos'.
    { assert (1 <= spec_min M gs); [|lia]. apply spec_min_spec; [exact Hpres|]. split; [unfold INF; lia|].
      intros g Hg. destruct (Hmin g Hg) as (e & He & _). exists e. split; [exact He|]. destruct (HS g e He). lia. }
    split; [exact Hpos'|].
    assert (inst_list b (concl r) = map (subst_pat (sigma_of b)) (concl r)) as Ec.
    { apply inst_list_agrees; [exact Ha|]. intros c x Hc Hx.
      destruct (wf_rule_safe r c x (wf_rules_In _ _ Hwf Hr) Hc Hx) as (p & Hp & Hxp). apply (Hbound p x Hp Hxp). }
    rewrite Ec in Hf. apply in_map_iff in Hf. destruct Hf as (c & <- & Hc).
    apply Der_rule with (r := r); [exact Hr | | exact Hc]. apply Forall_forall. intros g Hg. fold gs in Hg.
    destruct (Hmin g Hg) as (e & He & Hle). destruct (HS g e He) as [_ Hd]. eapply Der_anti; eauto.
  Qed.

  Lemma jobs_spec_complete : forall M r sigma c,
    In r P -> In c (concl r) ->
    (forall p, In p (prem r) -> alookup M (subst_pat sigma p) <> None) ->
    In (spec_min M (map (subst_pat sigma) (prem r)), subst_pat sigma c) (spec_jobs P M).
  Proof.
    intros M r sigma c Hr Hc Hp. unfold spec_jobs. apply in_flat_map. exists r. split; [exact Hr|].
    pose proof (wf_rule_nonempty r (wf_rules_In _ _ Hwf Hr)) as Hne.
    destruct (prem r) as [|p0 ps] eqn:Ep; [contradiction Hne; reflexivity|]. rewrite <- Ep in *.
    destruct (all_solutions_complete (prem r) (map fst M) sigma) as (b & Hb & Ha).
    { intros p Hpp. apply alookup_keys. apply Hp. exact Hpp. }
    destruct (all_solutions_sound _ _ _ Hb) as (Hbound & _).
    apply in_flat_map. exists b. split; [exact Hb|].
    rewrite (inst_list_agrees b sigma (prem r) Ha Hbound).
    assert (inst_list b (concl r) = map (subst_pat sigma) (concl r)) as ->.
    { apply inst_list_agrees; [exact Ha|]. intros c' x Hc' Hx.
      destruct (wf_rule_safe r c' x (wf_rules_In _ _ Hwf Hr) Hc' Hx) as (p & Hpp & Hxp). apply (Hbound p x Hpp Hxp). }
    apply in_map_iff. exists (subst_pat sigma c). split; [reflexivity | apply in_map; exact Hc].
  Qed.

  Lemma jfold_sound : forall L acc,
    (forall t f, In (t, f) L -> 0 < t /\ Der P base t f) ->
    (forall f e, alookup acc f = Some e -> 0 < e /\ Der P base e f) ->
    forall f e, alookup (fold_left jstep L acc) f = Some e -> 0 < e /\ Der P base e f.
  Proof.
    induction L as [|[t g] L IH]; intros acc HL Hacc; cbn [fold_left]; [exact Hacc|].
    apply IH; [intros t' f' H'; apply HL; right; exact H'|].
    intros f e H. unfold jstep in H. cbn [fst snd] in H. destruct (triple_dec g f) as [-> | Hne].
    - rewrite alookup_ajoin_same in H. injection H as <-. destruct (HL t f (or_introl eq_refl)) as [Ht Hd].
      destruct (alookup acc f) as [e0|] eqn:E0; [|auto]. destruct (Hacc f e0 E0) as [H0 Hd0].
      destruct (N.max_spec t e0) as [[_ ->] | [_ ->]]; auto.
    - rewrite alookup_ajoin_other in H by exact Hne. apply Hacc. exact H.
  Qed.

  Lemma spec_round_SInv : forall M, SInv M -> SInv (spec_round P M).
  Proof.
    intros M [HS HB]. split.
    - unfold spec_round. fold jstep. apply jfold_sound; [|exact HS].
      intros t f H. apply (jobs_spec_sound M t f HS H).
    - intros f e Hin. unfold spec_round. fold jstep. apply jfold_mono. apply HB. exact Hin.
  Qed.

  Lemma init_SInv : SInv (fold_left (fun acc x => ajoin (fst x) (snd x) acc) base []).
  Proof.
    assert (forall l acc,
              (forall x, In x l -> In x base) ->
              (forall f e, alookup acc f = Some e -> In (f, e) base) ->
              forall f e, alookup (fold_left (fun acc x => ajoin (fst x) (snd x) acc) l acc) f = Some e -> In (f, e) base) as A.
    { induction l as [|[g e0] l IH]; intros acc Hl Hacc; cbn [fold_left]; [exact Hacc|].
      apply IH; [intros x Hx; apply Hl; right; exact Hx|]. cbn [fst snd].
      intros f e H. destruct (triple_dec g f) as [-> | Hne].
      - rewrite alookup_ajoin_same in H. injection H as <-. destruct (alookup acc f) as [e1|] eqn:E1.
        + destruct (N.max_spec e0 e1) as [[_ ->] | [_ ->]]; [apply Hacc; exact E1 | apply Hl; left; reflexivity].
        + apply Hl. left. reflexivity.
      - rewrite alookup_ajoin_other in H by exact Hne. apply Hacc. exact H. }
    assert (forall l acc f e, In (f, e) l -> atleast (fold_left (fun acc x => ajoin (fst x) (snd x) acc) l acc) f e) as B.
    { induction l as [|[g e0] l IH]; intros acc f e H; [destruct H|]. cbn [fold_left fst snd]. destruct H as [E | H].
      - injection E as -> ->.
        assert (forall l acc g u, atleast acc g u -> atleast (fold_left (fun acc x => ajoin (fst x) (snd x) acc) l acc) g u) as Mono.
        { induction l0 as [|y l0 IHl]; intros acc0 g u H0; cbn [fold_left]; [exact H0 | apply IHl; apply atleast_ajoin; exact H0]. }
        apply Mono. apply atleast_ajoin_hit.
      - apply IH. exact H. }
    split.
    - intros f e H. apply A in H; [|intros x Hx; exact Hx | intros g e' H'; discriminate].
      split; [apply (Hpos f e H) | eapply Der_base; [exact H | lia]].
    - intros f e Hin. apply B. exact Hin.
  Qed.

  Lemma same_map_eq : forall M,
    same_map M (spec_round P M) = true -> forall f, alookup (spec_round P M) f = alookup M f.
  Proof.
    intros M H f. unfold same_map in H. apply andb_true_iff in H. destruct H as [_ H]. rewrite forallb_forall in H.
    destruct (alookup (spec_round P M) f) as [e|] eqn:E.
    - specialize (H (f, e) (alookup_In _ _ _ E)). cbn [fst snd] in H.
      destruct (alookup M f) as [e'|]; [|discriminate]. apply N.eqb_eq in H. subst. reflexivity.
    - destruct (alookup M f) as [e'|] eqn:E'; [|reflexivity]. exfalso.
      assert (atleast (spec_round P M) f e') as (e2 & He2 & _).
      { unfold spec_round. fold jstep. apply jfold_mono. exists e'. split; [exact E' | lia]. }
      congruence.
  Qed.

  Lemma spec_iter_correct : forall fuel M M',
    SInv M -> spec_iter fuel P M = Some M' ->
    SInv M' /\ (forall f, alookup (spec_round P M') f = alookup M' f).
  Proof.
    induction fuel as [|k IH]; intros M M' HI H; cbn [spec_iter] in H; [discriminate|].
    destruct (same_map M (spec_round P M)) eqn:E.
    - injection H as <-. split; [exact HI | apply same_map_eq; exact E].
    - apply (IH _ _ (spec_round_SInv M HI) H).
  Qed.

  Theorem spec_E_correct : forall fuel M,
    spec_E fuel P base = Some M -> forall f e, alookup M f = Some e <-> is_E P base f e.
  Proof.
    intros fuel M H. unfold spec_E in H.
    destruct (spec_iter_correct fuel _ M init_SInv H) as ([HS HB] & Hfix).
    assert (forall t f, Der P base t f -> 0 < t -> atleast M f t) as Hcomp.
    { intros t f Hd Ht. induction Hd as [f e Hin He | r sigma c Hr Hall IH Hc] using Der_ind'.
      - destruct (HB f e Hin) as (e' & He' & Hle). exists e'. split; [exact He' | lia].
      - rewrite Forall_forall in IH.
        assert (forall p, In p (prem r) -> alookup M (subst_pat sigma p) <> None) as Hp.
        { intros p Hpp. destruct (IH (subst_pat sigma p) (in_map _ _ _ Hpp)) as (e & He & _). congruence. }
        pose proof (jobs_spec_complete M r sigma c Hr Hc Hp) as Hj.
        assert (atleast (spec_round P M) (subst_pat sigma c) (spec_min M (map (subst_pat sigma) (prem r)))) as (e & He & Hle).
        { unfold spec_round. fold jstep. apply jfold_hit. exact Hj. }
        rewrite Hfix in He. exists e. split; [exact He|]. eapply N.le_trans; [|exact Hle].
        apply spec_min_spec.
        + intros g Hg. apply in_map_iff in Hg. destruct Hg as (p & <- & Hpp). apply Hp. exact Hpp.
        + split; [eapply Der_le_INF; [exact Hwf | exact Hcap | apply Der_rule with (r := r); eassumption]|].
          intros g Hg. apply IH. exact Hg. }
    intros f e. split.
    - intros He. destruct (HS f e He) as [Hp Hd]. split; [exact Hd|].
      intros t Ht. destruct (N.eq_dec t 0) as [-> | Hne]; [lia|].
      destruct (Hcomp t f Ht) as (e' & He' & Hle); [lia|]. congruence.
    - intros [Hd Hmax].
      assert (0 < e) as He. { pose proof (Der_pos P base Hpos e f Hd) as H1. specialize (Hmax 1 H1). lia. }
      destruct (Hcomp e f Hd He) as (e' & He' & Hle). destruct (HS f e' He') as [_ Hd']. specialize (Hmax _ Hd').
      assert (e' = e) by lia. subst. exact He'.
  Qed.
End SpecE.
