(* C03 - SPARQL Update applies exactly the standard effect, atomically.
   This file contains only the property theorems; each is closed by `exact <lemma>` and followed
   by Print Assumptions.  The lemmas live in SetProofs.v, InstProofs.v, Proofs.v, BgpProofs.v.

   Reading guide.  `exec_update` / `exec_request` / `run` are the model of the update executor
   (Model.v); `spec_update` / `spec_trace` are SPARQL Update semantics on a quad set + catalog
   (Spec.v); `den s` is the dataset (quads, catalog) of a model state.  Every statement is for
   every WHERE evaluator `eval_where` (a parameter).  `wf s` holds for every state reachable
   from the empty store (C03_history) - it says that the quad list has no repetition, that the
   graph of every stored quad is catalogued and that every stored term is known to the dictionary.
   Terms include RDF-star quoted triples `Qt s p o`; the legality filters of quoted triples
   (is_legal_quoted_triple) are part of model and Spec.  No known class: the finding
   C03-template-keyword-a (the keyword `a` in predicate position of a template was stored as the
   word `a`) was repaired in /repo by 67601f1; `exec_update_gen kwa` is the executor with the reading
   `kwa` of that keyword, the code is `exec_update = exec_update_gen rdf_type`. *)
Require Import KV.Update.Spec KV.Update.Model KV.Update.Bgp KV.Update.SetProofs KV.Update.InstProofs
  KV.Update.Proofs KV.Update.BgpProofs KV.Update.Run KV.Update.RunProofs.
Require Import Permutation.

(* One executed operation has exactly the standard effect: the WHERE clause is evaluated once on the
   pre-operation dataset, DELETE and INSERT templates are instantiated from that one solution
   sequence, the new dataset is (D \ Del) U Ins, the reported counts are the numbers of quads that
   left and entered the dataset, and the template blank nodes are given by an assignment that is
   injective in (solution, label) and avoids every term of the dataset. *)
Theorem C03_step :
  forall (wh : Type) (eval_where : wh -> dataset -> list solution) (where_terms : wh -> list term)
         (u : update wh) (s s' : state) (i d : N) (tbl : list blmap),
    wf s ->
    exec_update wh eval_where where_terms u s = (s', Done i d, tbl) ->
    exists bn, fresh_bn bn (den s) /\
               den s' = fst (spec_update eval_where u bn (den s)) /\
               (i, d) = snd (spec_update eval_where u bn (den s)).
Proof. exact step_spec. Qed.
Print Assumptions C03_step.

(* What the two counts of the Spec count: deleted = |D n Del|, inserted = the number of distinct
   quads of Ins that are not in D \ Del - "the number of quads that actually changed". *)
Theorem C03_counts :
  forall (D : dataset) (Del Ins : list quad),
    exists New, NoDup New /\ (forall q, In q New <-> In q Ins /\ ~ In q (qdiff (dq D) Del)) /\
      snd (spec_apply D Del Ins) =
      (N.of_nat (length New), N.of_nat (length (filter (fun q => qmem q Del) (dq D)))).
Proof. exact spec_apply_counts. Qed.
Print Assumptions C03_counts.

(* Regression for the repaired finding C03-template-keyword-a.  The executor with any reading `kwa`
   of the keyword `a` in predicate position computes the Spec with that reading ... *)
Theorem C03_step_any_reading :
  forall (wh : Type) (eval_where : wh -> dataset -> list solution) (where_terms : wh -> list term)
         (kwa : term) (u : update wh) (s s' : state) (i d : N) (tbl : list blmap),
    wf s ->
    exec_update_gen wh eval_where where_terms kwa u s = (s', Done i d, tbl) ->
    exists bn, fresh_bn bn (den s) /\
               den s' = fst (spec_update_gen eval_where kwa u bn (den s)) /\
               (i, d) = snd (spec_update_gen eval_where kwa u bn (den s)).
Proof. exact step_any_reading. Qed.
Print Assumptions C03_step_any_reading.

(* ... and the pre-repair reading (the word `a`) contradicts the Spec on INSERT DATA { <i1> a <i2> } and
   on INSERT DATA { <i1> <i5> << <i2> a <i3> >> }, while the repaired executor agrees with it on both. *)
Theorem C03_kw_a_refuted_before_fix :
  let u1 : update gwhere := InsertData [TQ (TConst (Iri 1)) TKwA (TConst (Iri 2)) GDefault] in
  let u2 : update gwhere := InsertData [TQ (TConst (Iri 1)) (TConst (Iri 5)) (TQuoted (TConst (Iri 2)) TKwA (TConst (Iri 3))) GDefault] in
  let s := St [] [] [] 1 [] in
  wf s /\
  (forall bn, den (fst (fst (exec_update_gen gwhere eval_gwhere gwhere_terms a_word u1 s))) <> fst (spec_update eval_gwhere u1 bn (den s))) /\
  (forall bn, den (fst (fst (exec_update_gen gwhere eval_gwhere gwhere_terms a_word u2 s))) <> fst (spec_update eval_gwhere u2 bn (den s))) /\
  (forall bn, den (fst (fst (exec_update gwhere eval_gwhere gwhere_terms u1 s))) = fst (spec_update eval_gwhere u1 bn (den s))) /\
  (forall bn, den (fst (fst (exec_update gwhere eval_gwhere gwhere_terms u2 s))) = fst (spec_update eval_gwhere u2 bn (den s))).
Proof. exact kw_a_refuted_before_fix. Qed.
Print Assumptions C03_kw_a_refuted_before_fix.

(* Atomicity: a rejected request - malformed text, a query, an operation tree the parser or the
   executor refuses - leaves quads and catalog exactly as they were; only the dictionary, the
   blank-node counter and the declared prefixes may grow. *)
Theorem C03_atomic :
  forall (wh : Type) (eval_where : wh -> dataset -> list solution) (where_terms : wh -> list term)
         (r : request wh) (s : state) (c : N),
    snd (exec_request wh eval_where where_terms r s) = Rejected c ->
    let s' := fst (exec_request wh eval_where where_terms r s) in
    den s' = den s /\ incl (dict s) (dict s') /\ next s <= next s' /\ incl (pfx s) (pfx s').
Proof. exact atomic_request. Qed.
Print Assumptions C03_atomic.

(* The executor itself (reached without the parser): an error is raised during template
   instantiation, before any mutation. *)
Theorem C03_atomic_executor :
  forall (wh : Type) (eval_where : wh -> dataset -> list solution) (where_terms : wh -> list term)
         (u : update wh) (s s' : state) (c : N) (tbl : list blmap),
    exec_update wh eval_where where_terms u s = (s', Rejected c, tbl) ->
    quads s' = quads s /\ cat s' = cat s /\ pfx s' = pfx s /\ incl (dict s) (dict s') /\ next s <= next s'.
Proof. exact atomic_executor. Qed.
Print Assumptions C03_atomic_executor.

(* A request that parses to an operation tree is executed if and only if the tree is well formed
   (no variable in a DATA block, no blank node in a DELETE template or DELETE WHERE block, graph
   names are IRIs or variables); so rejection never hides an executable update and acceptance never
   lets a malformed one through. *)
Theorem C03_accepts :
  forall (wh : Type) (eval_where : wh -> dataset -> list solution) (where_terms : wh -> list term)
         (decl : list N) (u : update wh) (s : state),
    (well_formed u = true -> exists i d, snd (exec_request wh eval_where where_terms (RText decl u) s) = Done i d) /\
    (well_formed u = false -> exists c, snd (exec_request wh eval_where where_terms (RText decl u) s) = Rejected c).
Proof. exact accepts_iff. Qed.
Print Assumptions C03_accepts.

(* Histories: for every finite sequence of requests - the six forms, rejected and malformed requests
   interleaved, through the parser or directly to the executor - starting from any well-formed
   state, the stored dataset after the sequence is the one obtained by applying the Spec step by
   step (spec_trace), with the reported counts equal to the Spec's at every step; rejected requests
   are exactly identity steps, and well-formed text requests are never rejected. *)
Theorem C03_history :
  forall (wh : Type) (eval_where : wh -> dataset -> list solution) (where_terms : wh -> list term),
    (forall w D sol v t a, In sol (eval_where w D) -> lookup v sol = Some t -> In a (atoms t) ->
       term_in_dataset a D \/ exists c, In c (where_terms w) /\ In a (atoms c)) ->
    forall (reqs : list (request wh)) (s : state),
      wf s ->
      let res := run wh eval_where where_terms reqs s in
      spec_trace eval_where (den s) (combine reqs (snd res)) (den (fst res)) /\
      wf (fst res) /\ length (snd res) = length reqs.
Proof. exact history_spec. Qed.
Print Assumptions C03_history.

(* Fresh blank nodes: every blank node the executor allocates for a template label is `Bn k l` for
   that label, with a counter value not used before the operation, is not in the dictionary (hence,
   for a well-formed state, not a term of the dataset), and two entries are equal only if they
   belong to the same solution and the same label. *)
Theorem C03_fresh_bnodes :
  forall (wh : Type) (eval_where : wh -> dataset -> list solution) (where_terms : wh -> list term)
         (u : update wh) (s s' : state) (o : outcome) (tbl : list blmap),
    exec_update wh eval_where where_terms u s = (s', o, tbl) ->
    (forall i bl l t, nth_error tbl i = Some bl -> lookup l bl = Some t ->
       exists k, t = Bn k l /\ next s <= k < next s' /\ ~ In t (dict s)) /\
    (forall i i' bl bl' l l' t, nth_error tbl i = Some bl -> nth_error tbl i' = Some bl' ->
       lookup l bl = Some t -> lookup l' bl' = Some t -> i = i' /\ l = l').
Proof. exact fresh_bnodes. Qed.
Print Assumptions C03_fresh_bnodes.

(* The allocator loop terminates: the fuel of the model (size of the dictionary + 1) is never exhausted. *)
Theorem C03_allocator_total : forall (l : N) (st : istate), allocate_blank_node l st <> None.
Proof. exact allocate_total. Qed.
Print Assumptions C03_allocator_total.

(* The order in which the BTreeSets hand out deletions and insertions is irrelevant: same counts,
   same quads, same catalog. *)
Theorem C03_set_order :
  forall (D : dataset) (dels dels' inss inss' : list quad),
    NoDup (dq D) -> graphs_in_cat D -> Permutation dels dels' -> Permutation inss inss' ->
    let r := apply_mutations dels inss D in
    let r' := apply_mutations dels' inss' D in
    snd r = snd r' /\ Permutation (dq (fst r)) (dq (fst r')) /\ (forall g, In g (dc (fst r)) <-> In g (dc (fst r'))).
Proof. exact apply_mutations_perm. Qed.
Print Assumptions C03_set_order.

(* Every initial state of the correspondence check (Run.mk_state: quads added one by one, empty
   graphs created, extra dictionary entries) is well formed, so C03_history covers every history
   the check runs. *)
Theorem C03_initial_states_wf :
  forall (init : list quad) (graphs seed : list term), wf (mk_state init graphs seed).
Proof. exact mk_state_wf. Qed.
Print Assumptions C03_initial_states_wf.

(* ---- non-vacuity ---- *)
(* the hypothesis of C03_history is met by the executable evaluator, and the empty store is well formed *)
Example C03_history_hypothesis_met :
  forall w D sol v t a, In sol (eval_gwhere w D) -> lookup v sol = Some t -> In a (atoms t) ->
    term_in_dataset a D \/ exists c, In c (gwhere_terms w) /\ In a (atoms c).
Proof. exact eval_gwhere_closed. Qed.

Example C03_wf_empty : wf (St [] [] [] 1 []).
Proof.
  split; [constructor|]. split.
  - intros q g [].
  - intros t [u0 [[[]|[q [[] _]]] _]].
Qed.

(* a concrete history: INSERT DATA with a blank node; a self-referential DELETE/INSERT whose template
   blank node is allocated once per solution; a rejected DELETE with a blank node; DELETE WHERE *)
Example C03_example :
  let p := TConst (Iri 5) in
  let reqs : list (request gwhere) :=
    [ RText [] (InsertData [TQ (TConst (Iri 1)) p (TConst (Iri 2)) GDefault; TQ (TBnode 1) p (TConst (Plain 1)) (GConst (Iri 8));
                            TQ (TQuoted (TConst (Plain 1)) p (TConst (Iri 2))) p (TConst (Iri 3)) GDefault]);   (* dropped: literal subject inside << >> *)
      RText [] (DeleteInsertWhere [TQ (TVar 1) p (TVar 2) GDefault] [TQ (TVar 2) p (TVar 1) GDefault; TQ (TBnode 1) p (TVar 1) GDefault]
                  [[(SDefault, [(PVar 1, PConst (Iri 5), PVar 2)])]]);
      RText [] (DeleteWhere [TQ (TBnode 1) p (TVar 2) GDefault] [[(SDefault, [(PVar 1, PConst (Iri 5), PVar 2)])]]);
      RGarbage;
      RText [] (DeleteWhereShort [TQ (TVar 1) p (TVar 2) (GVar 3)] (short_where [TQ (TVar 1) p (TVar 2) (GVar 3)])) ] in
  let res := run gwhere eval_gwhere gwhere_terms reqs (St [] [] [] 1 []) in
  snd res = [Done 2 0; Done 2 1; Rejected 10; Rejected 10; Done 0 1] /\
  quads (fst res) = [(Iri 2, Iri 5, Iri 1, None); (Bn 2 1, Iri 5, Iri 1, None)] /\
  cat (fst res) = [Iri 8].
Proof. vm_compute. auto. Qed.

(* RDF-star: a blank node shared between a quoted triple and the object of the same template quad *)
Example C03_example_quoted :
  let p := TConst (Iri 5) in
  let res := run gwhere eval_gwhere gwhere_terms
               [RText [] (InsertData [TQ (TQuoted (TConst (Iri 1)) p (TBnode 1)) p (TBnode 1) GDefault]);
                RText [] (DeleteWhereShort [TQ (TQuoted (TVar 1) p (TVar 2)) p (TVar 2) GDefault]
                                           (short_where [TQ (TQuoted (TVar 1) p (TVar 2)) p (TVar 2) GDefault]))]
               (St [] [] [] 1 []) in
  snd res = [Done 1 0; Done 0 1] /\ quads (fst res) = [].
Proof. vm_compute. auto. Qed.

(* The WHERE result is a sequence: identical solutions (here from overlapping UNION branches and from
   repeated VALUES rows) are instantiated one by one, each with its own fresh blank node. *)
Example C03_example_duplicate_solutions :
  let c n := TConst (Iri n) in
  let res := run gwhere eval_gwhere gwhere_terms
               [RText [] (InsertData [TQ (c 1) (c 5) (c 2) GDefault; TQ (c 1) (c 6) (c 2) GDefault]);
                RText [] (InsertWhere [TQ (TBnode 1) (c 7) (TVar 1) GDefault]
                            [[(SDefault, [(PConst (Iri 1), PConst (Iri 5), PVar 1)])];
                             [(SDefault, [(PConst (Iri 1), PConst (Iri 6), PVar 1)])]]);
                RText [] (InsertWhere [TQ (TBnode 1) (c 8) (TVar 1) GDefault]
                            [[(SValues 1 [Iri 2; Iri 2; Iri 3], [])]])]
               (St [] [] [] 1 []) in
  snd res = [Done 2 0; Done 2 0; Done 3 0] /\
  quads (fst res) = [(Iri 1, Iri 5, Iri 2, None); (Iri 1, Iri 6, Iri 2, None);
                     (Bn 1 1, Iri 7, Iri 2, None); (Bn 2 1, Iri 7, Iri 2, None);
                     (Bn 3 1, Iri 8, Iri 2, None); (Bn 4 1, Iri 8, Iri 2, None); (Bn 5 1, Iri 8, Iri 3, None)].
Proof. vm_compute. auto. Qed.
