(* Lemmas on duplicate-free lists used as sets, and: apply_mutations = spec_apply. *)
Require Import KV.Update.Spec KV.Update.Model.
Require Import Lia Permutation.

Lemma term_eqb_spec : forall a b, reflect (a = b) (term_eqb a b).
Proof.
  induction a as [x|x|k l|s IHs p IHp o IHo]; intros [y|y|k' l'|s' p' o']; simpl; try (constructor; congruence).
  - destruct (N.eqb_spec x y); constructor; congruence.
  - destruct (N.eqb_spec x y); constructor; congruence.
  - destruct (N.eqb_spec k k'), (N.eqb_spec l l'); simpl; constructor; congruence.
  - destruct (IHs s'), (IHp p'), (IHo o'); simpl; constructor; congruence.
Qed.

Lemma ograph_eqb_spec : forall a b, reflect (a = b) (ograph_eqb a b).
Proof.
  intros [x|] [y|]; simpl; try (constructor; congruence).
  destruct (term_eqb_spec x y); constructor; congruence.
Qed.

Lemma quad_eqb_spec : forall a b, reflect (a = b) (quad_eqb a b).
Proof.
  intros [[[s p] o] g] [[[s' p'] o'] g']; unfold quad_eqb, qs, qp, qo, qg; simpl.
  destruct (term_eqb_spec s s'), (term_eqb_spec p p'), (term_eqb_spec o o'), (ograph_eqb_spec g g');
    simpl; constructor; congruence.
Qed.

Lemma NoDup_snoc : forall {A} (l : list A) x, NoDup l -> ~ In x l -> NoDup (l ++ [x]).
Proof.
  induction l as [|a l IH]; simpl; intros x HN HI.
  - constructor; auto.
  - inversion HN; subst. constructor.
    + rewrite in_app_iff; simpl. intros [H|[H|[]]]; auto.
    + apply IH; auto.
Qed.

Section Generic.
  Context {A : Type} (eqb : A -> A -> bool) (eqb_spec : forall a b, reflect (a = b) (eqb a b)).

  Lemma mem_In : forall x l, mem eqb x l = true <-> In x l.
  Proof.
    intros x l; unfold mem; rewrite existsb_exists; split.
    - intros [y [Hy He]]; destruct (eqb_spec x y); congruence.
    - intros H; exists x; split; auto; destruct (eqb_spec x x); congruence.
  Qed.

  Lemma mem_false : forall x l, mem eqb x l = false <-> ~ In x l.
  Proof. intros; rewrite <- mem_In; destruct (mem eqb x l); split; congruence. Qed.

  Lemma In_add_end : forall l x y, In y (add_end eqb l x) <-> In y l \/ y = x.
  Proof.
    intros l x y; unfold add_end; destruct (mem eqb x l) eqn:E.
    - apply mem_In in E; split; [auto | intros [H| ->]; auto].
    - rewrite in_app_iff; simpl; split; [intros [H|[H|[]]]; auto | intros [H|H]; auto].
  Qed.

  Lemma NoDup_add_end : forall l x, NoDup l -> NoDup (add_end eqb l x).
  Proof.
    intros l x H; unfold add_end; destruct (mem eqb x l) eqn:E; auto.
    apply mem_false in E. apply NoDup_snoc; auto.
  Qed.

  Lemma In_union : forall xs l y, In y (union eqb l xs) <-> In y l \/ In y xs.
  Proof.
    unfold union; induction xs as [|x xs IH]; intros l y; simpl.
    - tauto.
    - rewrite IH, In_add_end; intuition congruence.
  Qed.

  Lemma NoDup_union : forall xs l, NoDup l -> NoDup (union eqb l xs).
  Proof.
    unfold union; induction xs as [|x xs IH]; intros l H; simpl; auto.
    apply IH, NoDup_add_end; auto.
  Qed.

  Lemma union_app : forall l xs ys, union eqb l (xs ++ ys) = union eqb (union eqb l xs) ys.
  Proof. intros; unfold union; apply fold_left_app. Qed.

  Lemma union_incl_id : forall xs l, (forall x, In x xs -> In x l) -> union eqb l xs = l.
  Proof.
    unfold union; induction xs as [|x xs IH]; intros l H; simpl; auto.
    assert (E : add_end eqb l x = l).
    { unfold add_end; destruct (mem eqb x l) eqn:E; auto. apply mem_false in E; exfalso; apply E, H; simpl; auto. }
    rewrite E; apply IH; intros; apply H; simpl; auto.
  Qed.

  Lemma length_add_end : forall l x,
    length (add_end eqb l x) = if mem eqb x l then length l else S (length l).
  Proof. intros; unfold add_end; destruct (mem eqb x l); auto; rewrite app_length; simpl; lia. Qed.

  Lemma length_union_ge : forall xs l, (length l <= length (union eqb l xs))%nat.
  Proof.
    unfold union; induction xs as [|x xs IH]; intros l; simpl; auto.
    specialize (IH (add_end eqb l x)); rewrite length_add_end in IH.
    destruct (mem eqb x l); lia.
  Qed.

  (* the elements a fold of add_end appends to A *)
  Fixpoint news (A0 L : list A) : list A :=
    match L with
    | [] => []
    | x :: r => if mem eqb x A0 then news A0 r else x :: news (A0 ++ [x]) r
    end.

  Lemma union_news : forall L A0, union eqb A0 L = A0 ++ news A0 L.
  Proof.
    unfold union; induction L as [|x r IH]; intros A0; simpl.
    - rewrite app_nil_r; auto.
    - destruct (mem eqb x A0) eqn:E.
      + assert (H : add_end eqb A0 x = A0) by (unfold add_end; rewrite E; auto). rewrite H. apply IH.
      + assert (H : add_end eqb A0 x = A0 ++ [x]) by (unfold add_end; rewrite E; auto).
        rewrite H, IH, <- app_assoc; auto.
  Qed.

  Lemma mem_union_nil : forall L y, mem eqb y (union eqb [] L) = mem eqb y L.
  Proof.
    intros L y; destruct (mem eqb y L) eqn:E.
    - apply mem_In; apply In_union; right; apply mem_In; auto.
    - apply mem_false; intros H; apply In_union in H; destruct H as [[]|H]; apply mem_In in H; congruence.
  Qed.

  Lemma diff_dedup : forall (Q L : list A), diff eqb Q (union eqb [] L) = diff eqb Q L.
  Proof. intros; unfold diff; apply filter_ext; intros y; rewrite mem_union_nil; auto. Qed.

End Generic.

(* folding a deduplicated list = folding the list: later occurrences are no-ops *)
Section FlatUnion.
  Context {A B : Type} (eqb : A -> A -> bool) (eqb_spec : forall a b, reflect (a = b) (eqb a b)).
  Context (eqbB : B -> B -> bool) (eqbB_spec : forall a b, reflect (a = b) (eqbB a b)).
  Variable f : A -> list B.

  Lemma union_flat_news : forall L A0 C,
    (forall x, In x A0 -> forall y, In y (f x) -> In y C) ->
    union eqbB C (flat_map f (news eqb A0 L)) = union eqbB C (flat_map f L).
  Proof.
    induction L as [|x r IH]; intros A0 C H; simpl; auto.
    destruct (mem eqb x A0) eqn:E.
    - apply (mem_In eqb eqb_spec) in E. rewrite IH by auto.
      rewrite (union_app eqbB). rewrite (union_incl_id eqbB eqbB_spec (f x) C); auto. intros; eapply H; eauto.
    - simpl. rewrite !(union_app eqbB). apply IH.
      intros x' Hx' y Hy. apply in_app_iff in Hx'. apply (In_union eqbB eqbB_spec).
      destruct Hx' as [Hx'|[<-|[]]]; [left; eapply H; eauto | right; auto].
  Qed.

  Lemma union_flat_dedup : forall L C,
    union eqbB C (flat_map f (union eqb [] L)) = union eqbB C (flat_map f L).
  Proof.
    intros; rewrite (union_news eqb); simpl. apply union_flat_news. intros x [].
  Qed.
End FlatUnion.


Lemma flat_map_single : forall {A} (l : list A), flat_map (fun x => [x]) l = l.
Proof. induction l; simpl; congruence. Qed.

Lemma qunion_dedup : forall Q L, qunion Q (union quad_eqb [] L) = qunion Q L.
Proof.
  intros Q L.
  pose proof (union_flat_dedup quad_eqb quad_eqb_spec quad_eqb quad_eqb_spec (fun x => [x]) L Q) as H.
  rewrite !flat_map_single in H. exact H.
Qed.

Definition graph_of (q : quad) : list term := match qg q with Some g => [g] | None => [] end.
Lemma graph_names_flat : forall l, graph_names l = flat_map graph_of l.
Proof. reflexivity. Qed.

Lemma tunion_graph_names_dedup : forall C L,
  tunion C (graph_names (union quad_eqb [] L)) = tunion C (graph_names L).
Proof.
  intros; rewrite !graph_names_flat.
  apply (union_flat_dedup quad_eqb quad_eqb_spec term_eqb term_eqb_spec).
Qed.

(* ---- what the two counts of spec_apply count ---- *)
Section News.
  Context {A : Type} (eqb : A -> A -> bool) (eqb_spec : forall a b, reflect (a = b) (eqb a b)).

  Lemma news_spec : forall L A0,
    NoDup (news eqb A0 L) /\ (forall x, In x (news eqb A0 L) <-> In x L /\ ~ In x A0).
  Proof.
    induction L as [|a L IH]; intros A0; simpl.
    - split; [constructor | intros x; tauto].
    - destruct (mem eqb a A0) eqn:E.
      + apply (mem_In eqb eqb_spec) in E. destruct (IH A0) as [N1 M1]. split; auto.
        intros x. rewrite M1. split; [tauto|]. intros [[<-|H] H2]; tauto.
      + apply (mem_false eqb eqb_spec) in E. destruct (IH (A0 ++ [a])) as [N1 M1]. split.
        * constructor; auto. rewrite M1, in_app_iff. simpl. tauto.
        * intros x. simpl. rewrite M1, in_app_iff. simpl. split.
          -- intros [<-|[H1 H2]]; [tauto|]. split; [tauto|]. intros H3; apply H2; auto.
          -- intros [[<-|H1] H2]; [tauto|]. destruct (eqb_spec a x) as [->|Hne]; [tauto|].
             right. split; auto. intros [H3|[H3|[]]]; auto.
  Qed.
End News.

Lemma length_filter_partition : forall {A} (f : A -> bool) l,
  length l = (length (filter f l) + length (filter (fun x => negb (f x)) l))%nat.
Proof. induction l as [|a l IH]; simpl; auto. destruct (f a); simpl; lia. Qed.

(* deleted = |D n Del| ; inserted = number of distinct quads of Ins that are not in D \ Del *)
Theorem spec_apply_counts : forall D Del Ins,
  exists New, NoDup New /\ (forall q, In q New <-> In q Ins /\ ~ In q (qdiff (dq D) Del)) /\
    snd (spec_apply D Del Ins) =
    (N.of_nat (length New), N.of_nat (length (filter (fun q => qmem q Del) (dq D)))).
Proof.
  intros D Del Ins. exists (news quad_eqb (qdiff (dq D) Del) Ins).
  destruct (news_spec quad_eqb quad_eqb_spec Ins (qdiff (dq D) Del)) as [N1 M1].
  split; [exact N1|]. split; [exact M1|].
  unfold spec_apply; simpl. f_equal.
  - unfold qunion. rewrite (union_news quad_eqb), app_length. lia.
  - rewrite (length_filter_partition (fun q => qmem q Del) (dq D)). unfold qdiff, diff, qmem. lia.
Qed.

(* ---- apply_mutations ---- *)
Definition graphs_in_cat (D : dataset) : Prop := forall q g, In q (dq D) -> qg q = Some g -> In g (dc D).

Lemma length_filter_le : forall {A} (f : A -> bool) l, (length (filter f l) <= length l)%nat.
Proof. induction l; simpl; auto; destruct (f a); simpl; lia. Qed.

Lemma NoDup_filter : forall {A} (f : A -> bool) l, NoDup l -> NoDup (filter f l).
Proof.
  induction l as [|a l IH]; simpl; intros H; auto. inversion H; subst.
  destruct (f a); auto. constructor; auto. rewrite filter_In; tauto.
Qed.

Lemma filter_absent : forall (Q : list quad) q, ~ In q Q -> filter (fun x => negb (quad_eqb x q)) Q = Q.
Proof.
  induction Q as [|a Q IH]; simpl; intros q H; auto.
  destruct (quad_eqb_spec a q) as [->|]; simpl; [exfalso; auto | f_equal; apply IH; auto].
Qed.

Lemma filter_remove_one : forall (Q : list quad) q, NoDup Q -> In q Q ->
  S (length (filter (fun x => negb (quad_eqb x q)) Q)) = length Q.
Proof.
  induction Q as [|a Q IH]; simpl; intros q HN HI; [tauto|].
  inversion HN as [|? ? Hna HNQ]; subst. destruct (quad_eqb_spec a q) as [->|Hne]; simpl.
  - rewrite (filter_absent Q q Hna); auto.
  - f_equal. apply IH; auto. destruct HI as [HI|HI]; [congruence | auto].
Qed.

Lemma qdiff_cons : forall Q q r, qdiff Q (q :: r) = qdiff (filter (fun x => negb (quad_eqb x q)) Q) r.
Proof.
  induction Q as [|a Q IH]; intros q r; simpl; auto.
  unfold qdiff, diff in *; simpl. destruct (quad_eqb a q); simpl.
  - apply IH.
  - destruct (mem quad_eqb a r); simpl; [apply IH | f_equal; apply IH].
Qed.

Lemma qdiff_nil : forall Q, qdiff Q [] = Q.
Proof. induction Q as [|a Q IH]; simpl; auto. unfold qdiff, diff in *; simpl. f_equal; auto. Qed.

Lemma register_present : forall g c, In g c -> register_graph (Some g) c = c.
Proof.
  intros; simpl; unfold add_end.
  destruct (mem term_eqb g c) eqn:E; auto. apply (mem_false term_eqb term_eqb_spec) in E; tauto.
Qed.

Lemma del_fold : forall dels D n, NoDup (dq D) -> graphs_in_cat D ->
  fold_left del_step dels (D, n) =
  (DS (qdiff (dq D) dels) (dc D), n + N.of_nat (length (dq D)) - N.of_nat (length (qdiff (dq D) dels))).
Proof.
  induction dels as [|q r IH]; intros [Q C] n HN HG; simpl.
  - rewrite qdiff_nil. f_equal. lia.
  - unfold del_step at 2; unfold delete_quad; simpl.
    destruct (qmem q Q) eqn:E; simpl.
    + apply (mem_In quad_eqb quad_eqb_spec) in E.
      assert (HC : register_graph (qg q) C = C).
      { destruct (qg q) eqn:Eg; auto. apply register_present. eapply (HG q); eauto. }
      rewrite HC. rewrite IH; simpl.
      * rewrite qdiff_cons. f_equal.
        pose proof (filter_remove_one Q q HN E) as HL.
        pose proof (length_filter_le (fun y => negb (mem quad_eqb y r)) (filter (fun x => negb (quad_eqb x q)) Q)) as HL2.
        unfold qdiff, diff. lia.
      * apply NoDup_filter; auto.
      * intros x g Hx Hg; apply filter_In in Hx; destruct Hx; eapply HG; eauto.
    + apply (mem_false quad_eqb quad_eqb_spec) in E.
      rewrite IH; auto. simpl. rewrite qdiff_cons, (filter_absent Q q E). auto.
Qed.

Lemma ins_fold : forall inss D n,
  fold_left ins_step inss (D, n) =
  (DS (qunion (dq D) inss) (tunion (dc D) (graph_names inss)),
   n + N.of_nat (length (qunion (dq D) inss)) - N.of_nat (length (dq D))).
Proof.
  induction inss as [|q r IH]; intros [Q C] n.
  - cbn [fold_left dq dc]. unfold qunion, tunion, union, graph_names; simpl. f_equal. lia.
  - cbn [fold_left].
    assert (Hstep : ins_step (DS Q C, n) q =
                    (DS (add_end quad_eqb Q q) (register_graph (qg q) C), n + (if mem quad_eqb q Q then 0 else 1))).
    { unfold ins_step, insert_quad, add_end, qmem; simpl. destruct (mem quad_eqb q Q); simpl; f_equal; lia. }
    rewrite Hstep, IH. cbn [dq dc].
    assert (HC : tunion C (graph_names (q :: r)) = tunion (register_graph (qg q) C) (graph_names r)).
    { unfold tunion, union, graph_names; simpl. rewrite fold_left_app. destruct (qg q); simpl; auto. }
    assert (HQ : qunion Q (q :: r) = qunion (add_end quad_eqb Q q) r) by reflexivity.
    rewrite HC, HQ. f_equal.
    pose proof (length_union_ge quad_eqb r (add_end quad_eqb Q q)) as HL.
    unfold qunion. rewrite !(length_add_end quad_eqb) in *.
    destruct (mem quad_eqb q Q); lia.
Qed.

Theorem apply_mutations_spec : forall D Del Ins, NoDup (dq D) -> graphs_in_cat D ->
  apply_mutations (union quad_eqb [] Del) (union quad_eqb [] Ins) D = spec_apply D Del Ins.
Proof.
  intros D Del Ins HN HG. unfold apply_mutations, spec_apply.
  rewrite del_fold by auto. simpl.
  rewrite ins_fold. simpl.
  rewrite !(diff_dedup quad_eqb quad_eqb_spec).
  fold (qdiff (dq D) Del). rewrite qunion_dedup, tunion_graph_names_dedup.
  f_equal.
Qed.
