(* Executable model of the update executor of kolibrie/src/execute_query.rs
   (execute_update_request, execute_update_operation, execute_modify, instantiate_templates,
   instantiate_quad, instantiate_graph, instantiate_term, allocate_blank_node, apply_mutations),
   of the boolean results of DatasetIndex::insert_quad / delete_quad (shared/src/dataset_index.rs)
   on the abstract quad set + catalog (the index layer is property C04), and of the syntactic
   checks of parser.rs: sparql_update_core.  No proofs in this file.

   Abstractions: dictionary identifiers are replaced by the lexical terms they denote (the
   dictionary is injective: C15), so the dictionary is the set of known lexical terms; quoted
   triples are structural terms `Qt s p o` (the quoted-triple store is an injective encoding of
   them) whose dictionary entries are their atoms; every identifier
   of the dataset is decodable; BTreeSet<Quad> is a duplicate-free list in first-insertion order
   (Proofs.v: the result does not depend on the order); the process-global blank-node counter is
   the component `next` of the state. *)
Require Export KV.Update.Spec.

Record state := St {
  quads : list quad;      (* dataset_index: the quads of all graphs *)
  cat   : list term;      (* dataset_index.named_graphs *)
  dict  : list term;      (* dictionary: the known lexical terms *)
  next  : N;              (* NEXT_UPDATE_BLANK *)
  pfx   : list N          (* database.prefixes (declared prefix names) *)
}.
Definition den (s : state) : dataset := DS (quads s) (cat s).

(* ---- shared/src/dataset_index.rs on the abstract dataset ---- *)
Definition register_graph (g : option term) (c : list term) : list term :=
  match g with Some t => add_end term_eqb c t | None => c end.

Definition insert_quad (D : dataset) (q : quad) : dataset * bool :=
  let c := register_graph (qg q) (dc D) in            (* named_graphs.insert happens before the containment test *)
  if qmem q (dq D) then (DS (dq D) c, false)
  else (DS (dq D ++ [q]) c, true).

Definition delete_quad (D : dataset) (q : quad) : dataset * bool :=
  if negb (qmem q (dq D)) then (D, false)
  else (DS (filter (fun x => negb (quad_eqb x q)) (dq D)) (register_graph (qg q) (dc D)), true).

(* apply_mutations: deletions applied and counted, then insertions applied and counted *)
Definition del_step (acc : dataset * N) (q : quad) : dataset * N :=
  let r := delete_quad (fst acc) q in (fst r, if snd r then snd acc + 1 else snd acc).
Definition ins_step (acc : dataset * N) (q : quad) : dataset * N :=
  let r := insert_quad (fst acc) q in (fst r, if snd r then snd acc + 1 else snd acc).
Definition apply_mutations (dels inss : list quad) (D : dataset) : dataset * (N * N) :=
  let r1 := fold_left del_step dels (D, 0) in
  let r2 := fold_left ins_step inss (fst r1, 0) in
  (fst r2, (snd r2, snd r1)).

(* ---- dictionary and blank-node supply ---- *)
Record istate := IS { i_dict : list term; i_next : N }.
(* dictionary.encode of every lexical value the term is made of (quoted triples live in the quoted-triple store) *)
Definition encode (t : term) (st : istate) : istate := IS (union term_eqb (i_dict st) (atoms t)) (i_next st).

(* allocate_blank_node: loop { n = NEXT.fetch_add(1); if dictionary contains the name { continue } return encode } *)
Fixpoint alloc_loop (fuel : nat) (l : N) (n : N) (d : list term) : option (term * N) :=
  match fuel with
  | O => None
  | S f => if tmem (Bn n l) d then alloc_loop f l (n + 1) d else Some (Bn n l, n + 1)
  end.
Definition allocate_blank_node (l : N) (st : istate) : option (term * istate) :=
  match alloc_loop (S (length (i_dict st))) l (i_next st) (i_dict st) with
  | None => None
  | Some (b, n') => Some (b, IS (i_dict st ++ [b]) n')
  end.

(* ---- template instantiation ---- *)
Inductive ires (A : Type) := IErr (e : N) | IOut (a : A).
Arguments IErr {A}.
Arguments IOut {A}.
Definition blmap := list (N * term).      (* blank_nodes: HashMap<label, id> of one solution *)

Definition e_bnode_in_delete : N := 1.    (* "blank nodes are not allowed in DELETE templates" *)
Definition e_graph_name : N := 2.         (* "a GRAPH name must be an IRI or variable" *)
Definition e_fuel : N := 3.               (* allocator out of fuel - never happens (Proofs.v) *)
Definition e_parse : N := 10.             (* the request does not parse *)
Definition e_not_update : N := 11.        (* "expected a SPARQL Update operation" *)

(* instantiate_term.  `pred` says that the term stands in predicate position (of the template quad or
   of a quoted triple): there template_predicate_lexeme turns the keyword `a` into rdf:type.  `kwa` is
   that meaning of `a`; the code is the instance kwa = rdf_type (exec_update below), the instance
   kwa = a_word is the executor before the repair 67601f1 (kept for the regression lemma). *)
Fixpoint m_term (kwa : term) (pred insert : bool) (sol : solution) (t : tterm) (bl : blmap) (st : istate)
  : istate * blmap * ires (option term) :=
  match t with
  | TVar v => (st, bl, IOut (lookup v sol))
  | TBnode l =>
      if negb insert then (st, bl, IErr e_bnode_in_delete)
      else match lookup l bl with
           | Some b => (st, bl, IOut (Some b))
           | None => match allocate_blank_node l st with
                     | Some (b, st') => (st', (l, b) :: bl, IOut (Some b))
                     | None => (st, bl, IErr e_fuel)
                     end
           end
  | TConst c => (encode c st, bl, IOut (Some c))
  | TKwA => let c := if pred then kwa else a_word in      (* elsewhere compile_term("a") is the word itself *)
            (encode c st, bl, IOut (Some c))
  | TQuoted s p o =>                                     (* components left to right; the first unbound one ends it *)
    match m_term kwa false insert sol s bl st with
    | (st1, bl1, IErr e) => (st1, bl1, IErr e)
    | (st1, bl1, IOut None) => (st1, bl1, IOut None)
    | (st1, bl1, IOut (Some s')) =>
      match m_term kwa true insert sol p bl1 st1 with
      | (st2, bl2, IErr e) => (st2, bl2, IErr e)
      | (st2, bl2, IOut None) => (st2, bl2, IOut None)
      | (st2, bl2, IOut (Some p')) =>
        match m_term kwa false insert sol o bl2 st2 with
        | (st3, bl3, IErr e) => (st3, bl3, IErr e)
        | (st3, bl3, IOut None) => (st3, bl3, IOut None)
        | (st3, bl3, IOut (Some o')) => (st3, bl3, IOut (Some (Qt s' p' o')))
        end
      end
    end
  end.

(* instantiate_quad: subject, predicate, object, graph in this order; the legality filters apply to
   variable positions and to quoted-triple values; an unbound variable or an illegal value drops the quad (Ok(None)) *)
Definition m_quad (kwa : term) (insert : bool) (D : dataset) (sol : solution) (q : tquad) (bl : blmap) (st : istate)
  : istate * blmap * ires (option quad) :=
  match m_term kwa false insert sol (tq_s q) bl st with
  | (st1, bl1, IErr e) => (st1, bl1, IErr e)
  | (st1, bl1, IOut None) => (st1, bl1, IOut None)
  | (st1, bl1, IOut (Some s)) =>
    if (is_tvar (tq_s q) || is_qt s) && negb (legal_subject D s) then (st1, bl1, IOut None) else
    match m_term kwa true insert sol (tq_p q) bl1 st1 with
    | (st2, bl2, IErr e) => (st2, bl2, IErr e)
    | (st2, bl2, IOut None) => (st2, bl2, IOut None)
    | (st2, bl2, IOut (Some p)) =>
      if is_tvar (tq_p q) && negb (legal_predicate D p) then (st2, bl2, IOut None) else
      match m_term kwa false insert sol (tq_o q) bl2 st2 with
      | (st3, bl3, IErr e) => (st3, bl3, IErr e)
      | (st3, bl3, IOut None) => (st3, bl3, IOut None)
      | (st3, bl3, IOut (Some o)) =>
        if is_qt o && negb (legal_object D o) then (st3, bl3, IOut None) else
        match tq_g q with
        | GDefault => (st3, bl3, IOut (Some (s, p, o, None)))
        | GConst g => (encode g st3, bl3, IOut (Some (s, p, o, Some g)))
        | GVar v => match lookup v sol with
                    | None => (st3, bl3, IOut None)
                    | Some g => if legal_graph D g then (st3, bl3, IOut (Some (s, p, o, Some g)))
                                else (st3, bl3, IOut None)
                    end
        | GInvalid => (st3, bl3, IErr e_graph_name)
        end
      end
    end
  end.

(* instantiate_templates: per solution a fresh blank-node map; results collected in a BTreeSet *)
Fixpoint m_solution (kwa : term) (insert : bool) (D : dataset) (sol : solution) (tqs : list tquad) (bl : blmap) (st : istate)
  (acc : list quad) : istate * blmap * ires (list quad) :=
  match tqs with
  | [] => (st, bl, IOut acc)
  | q :: r =>
    match m_quad kwa insert D sol q bl st with
    | (st1, bl1, IErr e) => (st1, bl1, IErr e)
    | (st1, bl1, IOut None) => m_solution kwa insert D sol r bl1 st1 acc
    | (st1, bl1, IOut (Some x)) => m_solution kwa insert D sol r bl1 st1 (add_end quad_eqb acc x)
    end
  end.

(* the second component is ghost output: the final blank-node map of every solution, in order *)
Fixpoint m_templates (kwa : term) (insert : bool) (D : dataset) (sols : list solution) (tqs : list tquad) (st : istate)
  (acc : list quad) : istate * list blmap * ires (list quad) :=
  match sols with
  | [] => (st, [], IOut acc)
  | sol :: r =>
    match m_solution kwa insert D sol tqs [] st acc with
    | (st1, bl1, IErr e) => (st1, [bl1], IErr e)
    | (st1, bl1, IOut acc1) =>
      match m_templates kwa insert D r tqs st1 acc1 with
      | (st2, tbl, res) => (st2, bl1 :: tbl, res)
      end
    end
  end.

Section Exec.
  Variable wh : Type.
  Variable eval_where : wh -> dataset -> list solution.
  Variable where_terms : wh -> list term.      (* the constants of a WHERE clause (encoded when it is lowered) *)

  Definition u_where (u : update wh) : option wh :=
    match u with
    | InsertData _ | DeleteData _ => None
    | InsertWhere _ w | DeleteWhere _ w | DeleteInsertWhere _ _ w | DeleteWhereShort _ w => Some w
    end.

  Definition compile_where (ow : option wh) (st : istate) : istate :=
    match ow with
    | None => st
    | Some w => fold_left (fun s t => encode t s) (where_terms w) st
    end.

  Definition with_istate (s : state) (st : istate) : state := St (quads s) (cat s) (i_dict st) (i_next st) (pfx s).

  (* execute_update_operation / execute_modify: one WHERE evaluation, both template sets instantiated
     from the same solution sequence and the same pre-operation dataset, then apply_mutations *)
  Definition exec_update_gen (kwa : term) (u : update wh) (s : state) : state * outcome * list blmap :=
    let D := den s in
    let st1 := compile_where (u_where u) (IS (dict s) (next s)) in
    let sols := u_sols eval_where u D in
    match m_templates kwa false D sols (u_del u) st1 [] with
    | (st2, _, IErr e) => (with_istate s st2, Rejected e, [])
    | (st2, _, IOut dels) =>
      match m_templates kwa true D sols (u_ins u) st2 [] with
      | (st3, tbl, IErr e) => (with_istate s st3, Rejected e, tbl)
      | (st3, tbl, IOut inss) =>
        let r := apply_mutations dels inss D in
        (St (dq (fst r)) (dc (fst r)) (i_dict st3) (i_next st3) (pfx s), Done (fst (snd r)) (snd (snd r)), tbl)
      end
    end.

  (* the executor: the keyword `a` in predicate position of a template is rdf:type *)
  Definition exec_update := exec_update_gen rdf_type.

  (* parser.rs: sparql_update_core's checks on the quad blocks; sparql_graph_name accepts only a
     variable, an IRI or a prefixed name *)
  Definition first_variable (l : list tquad) : bool := existsb tq_has_var l.
  Definition first_blank_node (l : list tquad) : bool := existsb tq_has_bnode l.
  Definition graphs_parse (l : list tquad) : bool := forallb tq_graph_ok l.
  Definition parser_accepts (u : update wh) : bool :=
    match u with
    | InsertData i => graphs_parse i && negb (first_variable i)
    | DeleteData d => graphs_parse d && negb (first_variable d || first_blank_node d)
    | InsertWhere i _ => graphs_parse i
    | DeleteWhere d _ => graphs_parse d && negb (first_blank_node d)
    | DeleteInsertWhere d i _ => graphs_parse d && negb (first_blank_node d) && graphs_parse i
    | DeleteWhereShort d _ => graphs_parse d && negb (first_blank_node d)
    end.

  Definition add_prefixes (decl : list N) (s : state) : state :=
    St (quads s) (cat s) (dict s) (next s) (union N.eqb (pfx s) decl).

  (* execute_update_request: parse (a parse error returns before anything is touched), then
     prepare_extensions (the declared prefixes are recorded), then dispatch *)
  Definition exec_request (r : request wh) (s : state) : state * outcome :=
    match r with
    | RGarbage => (s, Rejected e_parse)
    | RQuery decl => (add_prefixes decl s, Rejected e_not_update)
    | RText decl u =>
        if parser_accepts u then fst (exec_update u (add_prefixes decl s)) else (s, Rejected e_parse)
    | RTree u => fst (exec_update u s)
    end.

  Fixpoint run (reqs : list (request wh)) (s : state) : state * list outcome :=
    match reqs with
    | [] => (s, [])
    | r :: rest =>
      let x := exec_request r s in
      let y := run rest (fst x) in
      (fst y, snd x :: snd y)
    end.
End Exec.
