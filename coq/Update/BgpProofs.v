(* The executable WHERE evaluator of Bgp.v satisfies the hypothesis of the history theorem:
   it binds variables only to terms of the dataset. *)
Require Import KV.Update.Spec KV.Update.Model KV.Update.Bgp KV.Update.SetProofs.

(* a dictionary entry of the dataset, or of one of the constants W of the WHERE clause *)
Definition known_atom (D : dataset) (W : list term) (a : term) : Prop :=
  term_in_dataset a D \/ exists c, In c W /\ In a (atoms c).
Definition sol_closed (D : dataset) (W : list term) (sol : solution) : Prop :=
  forall v t a, lookup v sol = Some t -> In a (atoms t) -> known_atom D W a.
Definition sub_of (D : dataset) (W : list term) (t : term) : Prop := forall a, In a (atoms t) -> known_atom D W a.

Lemma match_pt_closed : forall D W pt t sol sol',
  sol_closed D W sol -> sub_of D W t -> match_pt pt t sol = Some sol' -> sol_closed D W sol'.
Proof.
  intros D W; induction pt as [v|c|pa IHa pb IHb pc IHc]; intros t sol sol' Hc Ht H; simpl in H.
  - destruct (lookup v sol) as [t'|] eqn:E.
    + destruct (term_eqb t' t); inversion H; subst; auto.
    + inversion H; subst. intros v0 t0 a Hl Ha. simpl in Hl. destruct (N.eqb v0 v); [inversion Hl; subst; auto | eauto].
  - destruct (term_eqb c t); inversion H; subst; auto.
  - destruct t as [x|x|k l|s p o]; try discriminate.
    assert (Hs : sub_of D W s) by (intros a Ha; apply Ht; simpl; apply in_app_iff; auto).
    assert (Hp : sub_of D W p) by (intros a Ha; apply Ht; simpl; apply in_app_iff; right; apply in_app_iff; auto).
    assert (Ho : sub_of D W o) by (intros a Ha; apply Ht; simpl; apply in_app_iff; right; apply in_app_iff; auto).
    destruct (match_pt pa s sol) as [s1|] eqn:E1; [|discriminate].
    destruct (match_pt pb p s1) as [s2|] eqn:E2; [|discriminate].
    eapply IHc; [| |exact H]; auto. eapply IHb; [| |exact E2]; auto. eapply IHa; [| |exact E1]; auto.
Qed.

Lemma match_tp_closed : forall D W tp q sol sol',
  sol_closed D W sol -> In q (dq D) -> match_tp tp q sol = Some sol' -> sol_closed D W sol'.
Proof.
  intros D W tp q sol sol' Hc Hq H. unfold match_tp in H.
  destruct (match_pt (fst (fst tp)) (qs q) sol) as [s1|] eqn:E1; [|discriminate].
  destruct (match_pt (snd (fst tp)) (qp q) s1) as [s2|] eqn:E2; [|discriminate].
  assert (T : forall t, (qs q = t \/ qp q = t \/ qo q = t \/ qg q = Some t) -> sub_of D W t)
    by (intros t Ht a Ha; left; exists t; split; [right; exists q; auto | exact Ha]).
  eapply match_pt_closed; [| |exact H]; [|apply T; auto].
  eapply match_pt_closed; [| |exact E2]; [|apply T; auto].
  eapply match_pt_closed; [| |exact E1]; [auto|apply T; auto].
Qed.

Lemma filter_map_In : forall {A B} (f : A -> option B) l y, In y (filter_map f l) -> exists x, In x l /\ f x = Some y.
Proof.
  induction l as [|a l IH]; simpl; intros y H; [tauto|].
  destruct (f a) as [b|] eqn:E.
  - destruct H as [<-|H]; [exists a; auto|]. destruct (IH _ H) as [x [Hx Hf]]; exists x; auto.
  - destruct (IH _ H) as [x [Hx Hf]]; exists x; auto.
Qed.

Lemma eval_tps_closed : forall D W tps cands sols,
  (forall q, In q cands -> In q (dq D)) -> Forall (sol_closed D W) sols -> Forall (sol_closed D W) (eval_tps tps cands sols).
Proof.
  intros D W tps cands; induction tps as [|tp r IH]; intros sols Hc Hs; simpl; auto.
  apply IH; auto. apply Forall_forall. intros s Hs'. apply in_flat_map in Hs'. destruct Hs' as [sol [Hsol Hin]].
  apply filter_map_In in Hin. destruct Hin as [q [Hq Hm]].
  eapply match_tp_closed; eauto. eapply Forall_forall in Hs; eauto.
Qed.

Lemma in_graph_sub : forall g D q, In q (in_graph g D) -> In q (dq D).
Proof. intros g D q H. unfold in_graph in H. apply filter_In in H. tauto. Qed.

Lemma named_graph_term : forall D W g, In g (named_graphs D) -> sub_of D W g.
Proof.
  intros D W g H a Ha. left. exists g. split; [|exact Ha]. unfold named_graphs, tunion in H. apply (In_union term_eqb term_eqb_spec) in H.
  destruct H as [H|H]; [left; auto|]. unfold graph_names in H. apply in_flat_map in H. destruct H as [q [Hq Hg]].
  destruct (qg q) as [g'|] eqn:E; simpl in Hg; [|tauto]. destruct Hg as [<-|[]]. right; exists q; auto.
Qed.

Lemma eval_block_closed : forall D W sols b, incl (block_terms b) W ->
  Forall (sol_closed D W) sols -> Forall (sol_closed D W) (eval_block D sols b).
Proof.
  intros D W sols [sc tps] HW Hs. unfold eval_block; cbn [fst snd]. destruct sc as [|g|v|v rows].
  - apply eval_tps_closed; auto. apply in_graph_sub.
  - destruct (tmem g (named_graphs D)); [|constructor]. apply eval_tps_closed; auto. apply in_graph_sub.
  - apply Forall_forall. intros s Hin. apply in_flat_map in Hin. destruct Hin as [sol [Hsol Hin]].
    apply in_flat_map in Hin. destruct Hin as [g [Hg Hin]].
    destruct (match_pt (PVar v) g sol) as [sol'|] eqn:E; [|simpl in Hin; contradiction].
    assert (Hc : sol_closed D W sol') by (eapply match_pt_closed; [| |exact E]; [eapply Forall_forall in Hs; eauto | apply named_graph_term; auto]).
    assert (X : Forall (sol_closed D W) (eval_tps tps (in_graph (Some g) D) [sol'])) by (apply eval_tps_closed; [apply in_graph_sub | constructor; auto]).
    eapply Forall_forall in X; eauto.
  - apply Forall_forall. intros s Hin. apply in_flat_map in Hin. destruct Hin as [sol [Hsol Hin]].
    apply filter_map_In in Hin. destruct Hin as [t [Ht Hm]].
    eapply match_pt_closed; [| |exact Hm]; [eapply Forall_forall in Hs; eauto|].
    intros a Ha. right. exists t. split; [|exact Ha]. apply HW. unfold block_terms; cbn [fst]. apply in_app_iff; left; exact Ht.
Qed.

Theorem eval_gwhere_closed : forall w D sol v t a,
  In sol (eval_gwhere w D) -> lookup v sol = Some t -> In a (atoms t) ->
  term_in_dataset a D \/ exists c, In c (gwhere_terms w) /\ In a (atoms c).
Proof.
  intros w D sol v t a Hin Hl Hat. unfold eval_gwhere in Hin. apply in_flat_map in Hin. destruct Hin as [bs [Hbs Hin]].
  set (W := gwhere_terms w).
  assert (HW : forall b, In b bs -> incl (block_terms b) W).
  { intros b Hb x Hx. unfold W, gwhere_terms. apply in_flat_map. exists bs. split; auto. apply in_flat_map. exists b. auto. }
  assert (G : forall bs0 sols, (forall b, In b bs0 -> incl (block_terms b) W) ->
                              Forall (sol_closed D W) sols -> Forall (sol_closed D W) (fold_left (eval_block D) bs0 sols)).
  { induction bs0 as [|b r IH]; intros sols Hb Hs; simpl; auto. apply IH; [intros b0 H0; apply Hb; simpl; auto|].
    apply eval_block_closed; auto. apply Hb; simpl; auto. }
  assert (X : Forall (sol_closed D W) (eval_join D bs)).
  { apply G; auto. constructor; [|constructor]. intros v0 t0 a0 H0; discriminate. }
  eapply Forall_forall in X; eauto. exact (X v t a Hl Hat).
Qed.

(* ---- regression: the executor before the repair 67601f1 (`a` read as the word `a`) violated the
   property on INSERT DATA { <i1> a <i2> }, and silently dropped INSERT DATA { <i1> <i5> << <i2> a <i3> >> };
   the repaired executor computes the Spec on both ---- *)
Require Import KV.Update.InstProofs KV.Update.Proofs.
Lemma kw_a_refuted_before_fix :
  let u1 : update gwhere := InsertData [TQ (TConst (Iri 1)) TKwA (TConst (Iri 2)) GDefault] in
  let u2 : update gwhere := InsertData [TQ (TConst (Iri 1)) (TConst (Iri 5)) (TQuoted (TConst (Iri 2)) TKwA (TConst (Iri 3))) GDefault] in
  let s := St [] [] [] 1 [] in
  wf s /\
  (forall bn, den (fst (fst (exec_update_gen gwhere eval_gwhere gwhere_terms a_word u1 s))) <> fst (spec_update eval_gwhere u1 bn (den s))) /\
  (forall bn, den (fst (fst (exec_update_gen gwhere eval_gwhere gwhere_terms a_word u2 s))) <> fst (spec_update eval_gwhere u2 bn (den s))) /\
  (forall bn, den (fst (fst (exec_update gwhere eval_gwhere gwhere_terms u1 s))) = fst (spec_update eval_gwhere u1 bn (den s))) /\
  (forall bn, den (fst (fst (exec_update gwhere eval_gwhere gwhere_terms u2 s))) = fst (spec_update eval_gwhere u2 bn (den s))).
Proof.
  cbv zeta. split; [|split; [|split; [|split]]].
  - split; [constructor|]. split.
    + intros q g [].
    + intros t [u0 [[[]|[q [[] _]]] _]].
  - intros bn. vm_compute. discriminate.
  - intros bn. vm_compute. discriminate.
  - intros bn. vm_compute. reflexivity.
  - intros bn. vm_compute. reflexivity.
Qed.
