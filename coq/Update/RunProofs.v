(* The initial states the correspondence check starts from (Run.mk_state) are well formed. *)
Require Import KV.Update.Spec KV.Update.Model KV.Update.Bgp KV.Update.Run KV.Update.SetProofs KV.Update.Proofs.

Lemma load_fold : forall init D0,
  fold_left (fun d q => fst (insert_quad d q)) init D0 =
  DS (qunion (dq D0) init) (tunion (dc D0) (graph_names init)).
Proof.
  induction init as [|q r IH]; intros [Q C].
  - reflexivity.
  - cbn [fold_left].
    assert (Hstep : fst (insert_quad (DS Q C) q) = DS (add_end quad_eqb Q q) (register_graph (qg q) C)).
    { unfold insert_quad, add_end, qmem; simpl. destruct (mem quad_eqb q Q); reflexivity. }
    rewrite Hstep, IH. cbn [dq dc].
    assert (HC : tunion C (graph_names (q :: r)) = tunion (register_graph (qg q) C) (graph_names r)).
    { unfold tunion, union, graph_names; simpl. rewrite fold_left_app. destruct (qg q); simpl; auto. }
    rewrite HC. reflexivity.
Qed.

Lemma quad_terms_spec : forall q u,
  (qs q = u \/ qp q = u \/ qo q = u \/ qg q = Some u) -> In u (quad_terms q).
Proof.
  intros q u H. unfold quad_terms. apply in_app_iff.
  destruct H as [<-|[<-|[<-|H]]]; simpl; auto. right. rewrite H; simpl; auto.
Qed.

Theorem mk_state_wf : forall init graphs seed, wf (mk_state init graphs seed).
Proof.
  intros init graphs seed. unfold mk_state. rewrite load_fold. simpl.
  split; [|split].
  - simpl. apply (NoDup_union quad_eqb quad_eqb_spec). constructor.
  - intros q g Hq Hg. simpl in *. apply (In_union term_eqb term_eqb_spec). left.
    apply (In_union term_eqb term_eqb_spec). right.
    apply (In_union quad_eqb quad_eqb_spec) in Hq. destruct Hq as [[]|Hq].
    unfold graph_names. apply in_flat_map. exists q. split; auto. rewrite Hg; simpl; auto.
  - intros t [u [Hu Ht]]. simpl in *. apply (In_union term_eqb term_eqb_spec). right.
    apply in_flat_map. exists u. split; [|exact Ht].
    destruct Hu as [Hu|[q [Hq Hu]]].
    + apply (In_union term_eqb term_eqb_spec) in Hu. destruct Hu as [Hu|Hu].
      * apply (In_union term_eqb term_eqb_spec) in Hu. destruct Hu as [[]|Hu].
        unfold graph_names in Hu. apply in_flat_map in Hu. destruct Hu as [q [Hq Hg]].
        destruct (qg q) as [g|] eqn:Eg; simpl in Hg; [|tauto]. destruct Hg as [<-|[]].
        apply in_app_iff. left. apply in_flat_map. exists q. split; auto. apply quad_terms_spec; auto.
      * apply in_app_iff. right. apply in_app_iff. left. exact Hu.
    + apply (In_union quad_eqb quad_eqb_spec) in Hq. destruct Hq as [[]|Hq].
      apply in_app_iff. left. apply in_flat_map. exists q. split; auto. apply quad_terms_spec; auto.
Qed.
