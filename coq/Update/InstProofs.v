(* Template instantiation of the model = the Spec's instantiation under the blank-node assignment
   read off the model's per-solution blank-node maps; the allocated blank nodes are fresh. *)
Require Import KV.Update.Spec KV.Update.Model KV.Update.SetProofs.
Require Import Lia.

Definition extends (bl bl' : blmap) : Prop := forall l t, lookup l bl = Some t -> lookup l bl' = Some t.
Definition agrees (bnf : N -> term) (bl : blmap) : Prop := forall l t, lookup l bl = Some t -> bnf l = t.
Definition sol_in (sol : solution) (d : list term) : Prop := forall v x, lookup v sol = Some x -> incl (atoms x) d.
Definition quad_in (q : quad) (d : list term) : Prop :=
  incl (atoms (qs q)) d /\ incl (atoms (qp q)) d /\ incl (atoms (qo q)) d /\ (forall g, qg q = Some g -> incl (atoms g) d).
(* every entry of a blank-node map is `Bn k l` for its own label l, allocated in [lo, hi), not in d0 *)
Definition bl_ok (d0 : list term) (lo hi : N) (bl : blmap) : Prop :=
  forall l t, lookup l bl = Some t -> exists k, t = Bn k l /\ lo <= k < hi /\ ~ In t d0.

Definition bl_in (bl : blmap) (d : list term) : Prop := forall l t, lookup l bl = Some t -> In t d.

Definition pre (d0 : list term) (lo : N) (bl : blmap) (st : istate) : Prop :=
  incl d0 (i_dict st) /\ lo <= i_next st /\ bl_ok d0 lo (i_next st) bl /\ bl_in bl (i_dict st).
Definition post (d0 : list term) (lo : N) (bl : blmap) (st : istate) (bl' : blmap) (st' : istate) : Prop :=
  incl (i_dict st) (i_dict st') /\ i_next st <= i_next st' /\ bl_ok d0 lo (i_next st') bl' /\ extends bl bl' /\
  bl_in bl' (i_dict st').

Lemma extends_refl : forall bl, extends bl bl.
Proof. intros bl l t H; exact H. Qed.
Lemma extends_trans : forall a b c, extends a b -> extends b c -> extends a c.
Proof. intros a b c H1 H2 l t H; auto. Qed.
Lemma agrees_extends : forall bnf a b, extends a b -> agrees bnf b -> agrees bnf a.
Proof. intros bnf a b H1 H2 l t H; auto. Qed.
Lemma bl_ok_mono : forall d0 lo hi hi' bl, bl_ok d0 lo hi bl -> hi <= hi' -> bl_ok d0 lo hi' bl.
Proof. intros d0 lo hi hi' bl H Hle l t Hl. destruct (H l t Hl) as [k [E [R F]]]. exists k; repeat split; auto; lia. Qed.

Lemma pre_post : forall d0 lo bl st bl' st', pre d0 lo bl st -> post d0 lo bl st bl' st' -> pre d0 lo bl' st'.
Proof.
  intros d0 lo bl st bl' st' [P1 [P2 [P3 P4]]] [Q1 [Q2 [Q3 [Q4 Q5]]]]. repeat split; auto.
  - intros x Hx; auto.
  - lia.
Qed.
Lemma post_refl : forall d0 lo bl st, pre d0 lo bl st -> post d0 lo bl st bl st.
Proof. intros d0 lo bl st [P1 [P2 [P3 P4]]]. repeat split; auto using incl_refl, extends_refl; lia. Qed.
Lemma post_trans : forall d0 lo bl st bl1 st1 bl2 st2,
  post d0 lo bl st bl1 st1 -> post d0 lo bl1 st1 bl2 st2 -> post d0 lo bl st bl2 st2.
Proof.
  intros d0 lo bl st bl1 st1 bl2 st2 [A1 [A2 [A3 [A4 A5]]]] [B1 [B2 [B3 [B4 B5]]]]. repeat split; auto.
  - eapply incl_tran; eauto.
  - lia.
  - eapply extends_trans; eauto.
Qed.

Lemma In_add_end_t : forall l x y, In y (add_end term_eqb l x) <-> In y l \/ y = x.
Proof. apply (In_add_end term_eqb term_eqb_spec). Qed.

Lemma In_union_t : forall xs l y, In y (union term_eqb l xs) <-> In y l \/ In y xs.
Proof. apply (In_union term_eqb term_eqb_spec). Qed.

Lemma encode_post : forall d0 lo bl st c, pre d0 lo bl st -> post d0 lo bl st bl (encode c st) /\ incl (atoms c) (i_dict (encode c st)).
Proof.
  intros d0 lo bl st c [P1 [P2 [P3 P4]]]. unfold encode; simpl. split.
  - repeat split; simpl; auto using extends_refl; try lia.
    + intros x Hx; apply In_union_t; auto.
    + intros l t Hl; apply In_union_t; left; eapply P4; eauto.
  - intros x Hx; apply In_union_t; auto.
Qed.

(* ---- the allocator ---- *)
Lemma alloc_loop_some : forall fuel l n d b n',
  alloc_loop fuel l n d = Some (b, n') -> exists k, b = Bn k l /\ n <= k /\ n' = k + 1 /\ ~ In b d.
Proof.
  induction fuel as [|f IH]; simpl; intros l n d b n' H; [discriminate|].
  destruct (tmem (Bn n l) d) eqn:E.
  - destruct (IH _ _ _ _ _ H) as [k [E1 [E2 [E3 E4]]]]. exists k; repeat split; auto; lia.
  - inversion H; subst. exists n; repeat split; auto; try lia.
    apply (mem_false term_eqb term_eqb_spec); exact E.
Qed.

Lemma alloc_loop_none : forall fuel l n d,
  alloc_loop fuel l n d = None -> forall j, (j < fuel)%nat -> In (Bn (n + N.of_nat j) l) d.
Proof.
  induction fuel as [|f IH]; simpl; intros l n d H j Hj; [lia|].
  destruct (tmem (Bn n l) d) eqn:E; [|discriminate].
  destruct j as [|j].
  - replace (n + N.of_nat 0) with n by lia. apply (mem_In term_eqb term_eqb_spec); exact E.
  - replace (n + N.of_nat (S j)) with (n + 1 + N.of_nat j) by lia. apply IH; auto; lia.
Qed.

(* the loop terminates within |dictionary| + 1 iterations *)
Lemma alloc_loop_total : forall l n d, alloc_loop (S (length d)) l n d <> None.
Proof.
  intros l n d H.
  pose proof (alloc_loop_none _ _ _ _ H) as Hin.
  set (names := map (fun j => Bn (n + N.of_nat j) l) (seq 0 (S (length d)))).
  assert (Hnd : NoDup names).
  { unfold names. apply FinFun.Injective_map_NoDup; [|apply seq_NoDup].
    intros a b E. inversion E. lia. }
  assert (Hincl : incl names d).
  { unfold names; intros x Hx. apply in_map_iff in Hx. destruct Hx as [j [<- Hj]].
    apply in_seq in Hj. apply Hin; lia. }
  pose proof (NoDup_incl_length Hnd Hincl) as HL.
  unfold names in HL. rewrite map_length, seq_length in HL. lia.
Qed.

Lemma allocate_some : forall l st b st',
  allocate_blank_node l st = Some (b, st') ->
  exists k, b = Bn k l /\ i_next st <= k /\ i_next st' = k + 1 /\ ~ In b (i_dict st) /\ i_dict st' = i_dict st ++ [b].
Proof.
  intros l st b st' H; unfold allocate_blank_node in H.
  destruct (alloc_loop (S (length (i_dict st))) l (i_next st) (i_dict st)) as [[b0 n0]|] eqn:E; [|discriminate].
  inversion H; subst; simpl. destruct (alloc_loop_some _ _ _ _ _ _ E) as [k [E1 [E2 [E3 E4]]]].
  exists k; repeat split; auto.
Qed.

Lemma allocate_total : forall l st, allocate_blank_node l st <> None.
Proof.
  intros l st H; unfold allocate_blank_node in H.
  destruct (alloc_loop (S (length (i_dict st))) l (i_next st) (i_dict st)) as [[b0 n0]|] eqn:E; [discriminate|].
  exact (alloc_loop_total _ _ _ E).
Qed.

(* ---- one template term ---- *)
Lemma lookup_cons_eq : forall {B} l (b : B) bl, lookup l ((l, b) :: bl) = Some b.
Proof. intros; simpl; rewrite N.eqb_refl; auto. Qed.

Lemma post_incl : forall d0 lo bl st bl' st', post d0 lo bl st bl' st' -> incl (i_dict st) (i_dict st').
Proof. intros d0 lo bl st bl' st' [A _]; exact A. Qed.
Lemma post_ext : forall d0 lo bl st bl' st', post d0 lo bl st bl' st' -> extends bl bl'.
Proof. intros d0 lo bl st bl' st' [_ [_ [_ [A _]]]]; exact A. Qed.
Lemma sol_in_incl : forall sol d d', sol_in sol d -> incl d d' -> sol_in sol d'.
Proof. intros sol d d' H Hi v x Hv a Ha; apply Hi; eapply H; eauto. Qed.

Lemma m_term_ok : forall kwa t pred insert sol bl st st' bl' r d0 lo,
  m_term kwa pred insert sol t bl st = (st', bl', r) -> pre d0 lo bl st ->
  post d0 lo bl st bl' st' /\
  forall ot, r = IOut ot ->
    (forall bnf, agrees bnf bl' -> s_term_gen kwa pred sol bnf t = ot) /\
    (sol_in sol (i_dict st) -> forall x, ot = Some x -> incl (atoms x) (i_dict st')).
Proof.
  intros kwa; induction t as [v|c|l| |ts IHs tp IHp to IHo]; intros pred insert sol bl st st' bl' r d0 lo H Hpre; simpl in H.
  - inversion H; subst. split; [apply post_refl; auto|].
    intros ot Ho; inversion Ho; subst. split; auto. intros Hs x Hx; eapply Hs; eauto.
  - inversion H; subst. destruct (encode_post d0 lo bl' st c Hpre) as [Hp Hc]. split; auto.
    intros ot Ho; inversion Ho; subst. split; auto. intros _ x Hx; inversion Hx; subst; auto.
  - destruct insert; simpl in H.
    + destruct (lookup l bl) as [b|] eqn:El.
      * inversion H; subst. split; [apply post_refl; auto|].
        intros ot Ho; inversion Ho; subst. split.
        -- intros bnf Ha; simpl. f_equal. apply Ha; auto.
        -- intros _ x Hx; inversion Hx; subst. destruct Hpre as [P1 [P2 [P3 P4]]].
           destruct (P3 _ _ El) as [k [Ek _]]. rewrite Ek. simpl. intros a [<-|[]]. rewrite <- Ek. eapply P4; eauto.
      * destruct (allocate_blank_node l st) as [[b st1]|] eqn:Ea.
        -- inversion H; subst.
           destruct (allocate_some _ _ _ _ Ea) as [k [Ek [Rk [Nk [Fk Dk]]]]].
           destruct Hpre as [P1 [P2 [P3 P4]]].
           assert (Hpost : post d0 lo bl st ((l, b) :: bl) st').
           { repeat split.
             - rewrite Dk; intros x Hx; apply in_app_iff; auto.
             - lia.
             - intros l0 t Hl. simpl in Hl. destruct (N.eqb_spec l0 l) as [->|Hne].
               + inversion Hl; subst t. exists k. split; [exact Ek|]. split; [lia|].
                 intros Hin; apply Fk, P1; exact Hin.
               + destruct (P3 _ _ Hl) as [k0 [E0 [R0 F0]]]. exists k0. split; [exact E0|]. split; [lia|exact F0].
             - intros l0 t Hl. simpl. destruct (N.eqb_spec l0 l) as [->|Hne]; auto. congruence.
             - intros l0 t Hl. simpl in Hl. rewrite Dk. apply in_app_iff.
               destruct (N.eqb_spec l0 l) as [->|Hne].
               + inversion Hl; subst; right; simpl; auto.
               + left; eapply P4; eauto. }
           split; auto. intros ot Ho; inversion Ho; subst. split.
           ++ intros bnf Ha; simpl. f_equal. apply Ha. apply lookup_cons_eq.
           ++ intros _ x Hx; inversion Hx; subst. simpl. intros a [<-|[]]. rewrite Dk; apply in_app_iff; right; simpl; auto.
        -- inversion H; subst. split; [apply post_refl; auto | intros ot Ho; discriminate].
    + inversion H; subst. split; [apply post_refl; auto | intros ot Ho; discriminate].
  - inversion H; subst. destruct (encode_post d0 lo bl' st (if pred then kwa else a_word) Hpre) as [Hp Hc]. split; auto.
    intros ot Ho; inversion Ho; subst. split.
    + intros bnf _. reflexivity.
    + intros _ x Hx; inversion Hx; subst; auto.
  - (* quoted triple *)
    destruct (m_term kwa false insert sol ts bl st) as [[st1 bl1] r1] eqn:E1.
    destruct (IHs _ _ _ _ _ _ _ _ d0 lo E1 Hpre) as [Po1 R1].
    pose proof (pre_post _ _ _ _ _ _ Hpre Po1) as Pre1.
    destruct r1 as [e|[s1|]].
    { inversion H; subst. split; auto. intros ot Ho; discriminate. }
    2:{ inversion H; subst. split; auto. intros ot Ho; inversion Ho; subst.
        destruct (R1 _ eq_refl) as [A1 _]. split; [|intros _ x Hx; discriminate].
        intros bnf Ha. simpl. rewrite (A1 bnf Ha). reflexivity. }
    destruct (R1 _ eq_refl) as [A1 I1].
    destruct (m_term kwa true insert sol tp bl1 st1) as [[st2 bl2] r2] eqn:E2.
    destruct (IHp _ _ _ _ _ _ _ _ d0 lo E2 Pre1) as [Po2 R2].
    pose proof (pre_post _ _ _ _ _ _ Pre1 Po2) as Pre2.
    pose proof (post_trans _ _ _ _ _ _ _ _ Po1 Po2) as Po12.
    destruct r2 as [e|[p1|]].
    { inversion H; subst. split; auto. intros ot Ho; discriminate. }
    2:{ inversion H; subst. split; auto. intros ot Ho; inversion Ho; subst.
        destruct (R2 _ eq_refl) as [A2 _]. split; [|intros _ x Hx; discriminate].
        intros bnf Ha. simpl.
        rewrite (A1 bnf (agrees_extends _ _ _ (post_ext _ _ _ _ _ _ Po2) Ha)), (A2 bnf Ha). reflexivity. }
    destruct (R2 _ eq_refl) as [A2 I2].
    destruct (m_term kwa false insert sol to bl2 st2) as [[st3 bl3] r3] eqn:E3.
    destruct (IHo _ _ _ _ _ _ _ _ d0 lo E3 Pre2) as [Po3 R3].
    pose proof (post_trans _ _ _ _ _ _ _ _ Po12 Po3) as Po123.
    destruct r3 as [e|[o1|]].
    { inversion H; subst. split; auto. intros ot Ho; discriminate. }
    2:{ inversion H; subst. split; auto. intros ot Ho; inversion Ho; subst.
        destruct (R3 _ eq_refl) as [A3 _]. split; [|intros _ x Hx; discriminate].
        intros bnf Ha. simpl.
        assert (Ha2 : agrees bnf bl2) by (eapply agrees_extends; [exact (post_ext _ _ _ _ _ _ Po3)|exact Ha]).
        assert (Ha1 : agrees bnf bl1) by (eapply agrees_extends; [exact (post_ext _ _ _ _ _ _ Po2)|exact Ha2]).
        rewrite (A1 bnf Ha1), (A2 bnf Ha2), (A3 bnf Ha). reflexivity. }
    destruct (R3 _ eq_refl) as [A3 I3].
    inversion H; subst. split; auto. intros ot Ho; inversion Ho; subst. split.
    + intros bnf Ha. simpl.
      assert (Ha2 : agrees bnf bl2) by (eapply agrees_extends; [exact (post_ext _ _ _ _ _ _ Po3)|exact Ha]).
      assert (Ha1 : agrees bnf bl1) by (eapply agrees_extends; [exact (post_ext _ _ _ _ _ _ Po2)|exact Ha2]).
      rewrite (A1 bnf Ha1), (A2 bnf Ha2), (A3 bnf Ha). reflexivity.
    + intros Hs x Hx; inversion Hx; subst. simpl.
      pose proof (sol_in_incl _ _ _ Hs (post_incl _ _ _ _ _ _ Po1)) as Hs1.
      pose proof (sol_in_incl _ _ _ Hs1 (post_incl _ _ _ _ _ _ Po2)) as Hs2.
      intros a Ha. apply in_app_iff in Ha. destruct Ha as [Ha|Ha]; [|apply in_app_iff in Ha; destruct Ha as [Ha|Ha]].
      * apply (post_incl _ _ _ _ _ _ Po3), (post_incl _ _ _ _ _ _ Po2). eapply I1; eauto.
      * apply (post_incl _ _ _ _ _ _ Po3). eapply I2; eauto.
      * eapply I3; eauto.
Qed.






(* ---- one template quad ---- *)
Lemma m_quad_ok : forall kwa insert D sol q bl st st' bl' r d0 lo,
  m_quad kwa insert D sol q bl st = (st', bl', r) -> pre d0 lo bl st ->
  post d0 lo bl st bl' st' /\
  forall oq, r = IOut oq ->
    (forall bnf, agrees bnf bl' -> s_quad_gen kwa D sol bnf q = oq) /\
    (sol_in sol (i_dict st) -> forall x, oq = Some x -> quad_in x (i_dict st')).
Proof.
  intros kwa insert D sol q bl st st' bl' r d0 lo H Hpre. unfold m_quad in H.
  destruct (m_term kwa false insert sol (tq_s q) bl st) as [[st1 bl1] r1] eqn:E1.
  destruct (m_term_ok _ _ _ _ _ _ _ _ _ _ d0 lo E1 Hpre) as [Po1 R1].
  pose proof (pre_post _ _ _ _ _ _ Hpre Po1) as Pre1.
  destruct r1 as [e|[s|]].
  { inversion H; subst. split; auto. intros oq Ho; discriminate. }
  2:{ inversion H; subst. split; auto. intros oq Ho; inversion Ho; subst.
      destruct (R1 _ eq_refl) as [A1 _]. split; [|intros _ x Hx; discriminate].
      intros bnf Ha. unfold s_quad_gen. rewrite (A1 bnf Ha). reflexivity. }
  destruct (R1 _ eq_refl) as [A1 I1].
  destruct ((is_tvar (tq_s q) || is_qt s) && negb (legal_subject D s)) eqn:L1.
  { inversion H; subst. split; auto. intros oq Ho; inversion Ho; subst.
    split; [|intros _ x Hx; discriminate].
    intros bnf Ha. unfold s_quad_gen. rewrite (A1 bnf Ha), L1. reflexivity. }
  destruct (m_term kwa true insert sol (tq_p q) bl1 st1) as [[st2 bl2] r2] eqn:E2.
  destruct (m_term_ok _ _ _ _ _ _ _ _ _ _ d0 lo E2 Pre1) as [Po2 R2].
  pose proof (pre_post _ _ _ _ _ _ Pre1 Po2) as Pre2.
  pose proof (post_trans _ _ _ _ _ _ _ _ Po1 Po2) as Po12.
  destruct r2 as [e|[p|]].
  { inversion H; subst. split; auto. intros oq Ho; discriminate. }
  2:{ inversion H; subst. split; auto. intros oq Ho; inversion Ho; subst.
      destruct (R2 _ eq_refl) as [A2 _]. split; [|intros _ x Hx; discriminate].
      intros bnf Ha. unfold s_quad_gen.
      rewrite (A1 bnf (agrees_extends _ _ _ (post_ext _ _ _ _ _ _ Po2) Ha)), L1.
      rewrite (A2 bnf Ha). reflexivity. }
  destruct (R2 _ eq_refl) as [A2 I2].
  destruct (is_tvar (tq_p q) && negb (legal_predicate D p)) eqn:L2.
  { inversion H; subst. split; auto. intros oq Ho; inversion Ho; subst.
    split; [|intros _ x Hx; discriminate].
    intros bnf Ha. unfold s_quad_gen.
    rewrite (A1 bnf (agrees_extends _ _ _ (post_ext _ _ _ _ _ _ Po2) Ha)), L1.
    rewrite (A2 bnf Ha), L2. reflexivity. }
  destruct (m_term kwa false insert sol (tq_o q) bl2 st2) as [[st3 bl3] r3] eqn:E3.
  destruct (m_term_ok _ _ _ _ _ _ _ _ _ _ d0 lo E3 Pre2) as [Po3 R3].
  pose proof (pre_post _ _ _ _ _ _ Pre2 Po3) as Pre3.
  pose proof (post_trans _ _ _ _ _ _ _ _ Po12 Po3) as Po123.
  destruct r3 as [e|[o|]].
  { inversion H; subst. split; auto. intros oq Ho; discriminate. }
  2:{ inversion H; subst. split; auto. intros oq Ho; inversion Ho; subst.
      destruct (R3 _ eq_refl) as [A3 _]. split; [|intros _ x Hx; discriminate].
      intros bnf Ha. unfold s_quad_gen.
      assert (Ha2 : agrees bnf bl2) by (eapply agrees_extends; [exact (post_ext _ _ _ _ _ _ Po3)|exact Ha]).
      assert (Ha1 : agrees bnf bl1) by (eapply agrees_extends; [exact (post_ext _ _ _ _ _ _ Po2)|exact Ha2]).
      rewrite (A1 bnf Ha1), L1, (A2 bnf Ha2), L2, (A3 bnf Ha). reflexivity. }
  destruct (R3 _ eq_refl) as [A3 I3].
  assert (Hspec : forall bl4 bnf, extends bl3 bl4 -> agrees bnf bl4 ->
                  s_term_gen kwa false sol bnf (tq_s q) = Some s /\ s_term_gen kwa true sol bnf (tq_p q) = Some p /\
                  s_term_gen kwa false sol bnf (tq_o q) = Some o).
  { intros bl4 bnf Hx Ha.
    assert (Ha3 : agrees bnf bl3) by (eapply agrees_extends; eauto).
    assert (Ha2 : agrees bnf bl2) by (eapply agrees_extends; [exact (post_ext _ _ _ _ _ _ Po3)|exact Ha3]).
    assert (Ha1 : agrees bnf bl1) by (eapply agrees_extends; [exact (post_ext _ _ _ _ _ _ Po2)|exact Ha2]).
    auto. }
  assert (Hin : sol_in sol (i_dict st) -> incl (atoms s) (i_dict st3) /\ incl (atoms p) (i_dict st3) /\ incl (atoms o) (i_dict st3)).
  { intros Hs.
    pose proof (sol_in_incl _ _ _ Hs (post_incl _ _ _ _ _ _ Po1)) as Hs1.
    pose proof (sol_in_incl _ _ _ Hs1 (post_incl _ _ _ _ _ _ Po2)) as Hs2.
    split; [|split].
    - intros a Ha. apply (post_incl _ _ _ _ _ _ Po3), (post_incl _ _ _ _ _ _ Po2). eapply I1; eauto.
    - intros a Ha. apply (post_incl _ _ _ _ _ _ Po3). eapply I2; eauto.
    - eapply I3; eauto. }
  destruct (is_qt o && negb (legal_object D o)) eqn:L3.
  { inversion H; subst. split; auto. intros oq Ho; inversion Ho; subst.
    split; [|intros _ x Hx; discriminate].
    intros bnf Ha. destruct (Hspec bl' bnf (extends_refl _) Ha) as [X1 [X2 X3]].
    unfold s_quad_gen. rewrite X1, L1, X2, L2, X3, L3. reflexivity. }
  destruct (tq_g q) as [|v|g|] eqn:Eg.
  - inversion H; subst. split; auto. intros oq Ho; inversion Ho; subst. split.
    + intros bnf Ha. destruct (Hspec bl' bnf (extends_refl _) Ha) as [X1 [X2 X3]].
      unfold s_quad_gen. rewrite X1, L1, X2, L2, X3, L3, Eg. reflexivity.
    + intros Hs x Hx; inversion Hx; subst. destruct (Hin Hs) as [Y1 [Y2 Y3]].
      unfold quad_in; simpl. repeat split; auto. intros g Hg; discriminate.
  - destruct (lookup v sol) as [g|] eqn:Ev.
    + destruct (legal_graph D g) eqn:Lg.
      * inversion H; subst. split; auto. intros oq Ho; inversion Ho; subst. split.
        -- intros bnf Ha. destruct (Hspec bl' bnf (extends_refl _) Ha) as [X1 [X2 X3]].
           unfold s_quad_gen. rewrite X1, L1, X2, L2, X3, L3, Eg, Ev, Lg. reflexivity.
        -- intros Hs x Hx; inversion Hx; subst. destruct (Hin Hs) as [Y1 [Y2 Y3]].
           unfold quad_in; simpl. repeat split; auto. intros g0 Hg; inversion Hg; subst.
           intros a Ha. apply (post_incl _ _ _ _ _ _ Po123). eapply Hs; eauto.
      * inversion H; subst. split; auto. intros oq Ho; inversion Ho; subst. split; [|intros _ x Hx; discriminate].
        intros bnf Ha. destruct (Hspec bl' bnf (extends_refl _) Ha) as [X1 [X2 X3]].
        unfold s_quad_gen. rewrite X1, L1, X2, L2, X3, L3, Eg, Ev, Lg. reflexivity.
    + inversion H; subst. split; auto. intros oq Ho; inversion Ho; subst. split; [|intros _ x Hx; discriminate].
      intros bnf Ha. destruct (Hspec bl' bnf (extends_refl _) Ha) as [X1 [X2 X3]].
      unfold s_quad_gen. rewrite X1, L1, X2, L2, X3, L3, Eg, Ev. reflexivity.
  - inversion H; subst. destruct (encode_post d0 lo bl' st3 g Pre3) as [Pe Hg].
    split; [eapply post_trans; eauto|]. intros oq Ho; inversion Ho; subst. split.
    + intros bnf Ha. destruct (Hspec bl' bnf (extends_refl _) Ha) as [X1 [X2 X3]].
      unfold s_quad_gen. rewrite X1, L1, X2, L2, X3, L3, Eg. reflexivity.
    + intros Hs x Hx; inversion Hx; subst. destruct (Hin Hs) as [Y1 [Y2 Y3]].
      pose proof (post_incl _ _ _ _ _ _ Pe) as Hi.
      unfold quad_in; simpl. repeat split; try (eapply incl_tran; eauto; fail). intros g0 Hg0; inversion Hg0; subst; auto.
  - inversion H; subst. split; auto. intros oq Ho; discriminate.
Qed.

(* ---- all templates of one solution ---- *)
Definition acc_in (acc : list quad) (d : list term) : Prop := forall x, In x acc -> quad_in x d.

Lemma quad_in_incl : forall q d d', quad_in q d -> incl d d' -> quad_in q d'.
Proof.
  intros q d d' [A [B [C E]]] Hi. repeat split; try (eapply incl_tran; eauto; fail).
  intros g Hg. eapply incl_tran; eauto.
Qed.

Lemma m_solution_ok : forall kwa insert D sol tqs bl st acc st' bl' r d0 lo,
  m_solution kwa insert D sol tqs bl st acc = (st', bl', r) -> pre d0 lo bl st ->
  post d0 lo bl st bl' st' /\
  forall acc', r = IOut acc' ->
    (forall bnf, agrees bnf bl' ->
       acc' = fold_left (add_end quad_eqb) (filter_map (s_quad_gen kwa D sol bnf) tqs) acc) /\
    (sol_in sol (i_dict st) -> acc_in acc (i_dict st) -> acc_in acc' (i_dict st')).
Proof.
  intros kwa insert D sol tqs; induction tqs as [|q rest IH]; intros bl st acc st' bl' r d0 lo H Hpre; simpl in H.
  - inversion H; subst. split; [apply post_refl; auto|].
    intros acc' Ho; inversion Ho; subst. split; auto.
  - destruct (m_quad kwa insert D sol q bl st) as [[st1 bl1] r1] eqn:E1.
    destruct (m_quad_ok _ _ _ _ _ _ _ _ _ _ d0 lo E1 Hpre) as [Po1 R1].
    pose proof (pre_post _ _ _ _ _ _ Hpre Po1) as Pre1.
    destruct r1 as [e|[x|]].
    + inversion H; subst. split; auto. intros acc' Ho; discriminate.
    + destruct (IH _ _ _ _ _ _ d0 lo H Pre1) as [Po2 R2].
      split; [eapply post_trans; eauto|].
      intros acc' Ho. destruct (R2 _ Ho) as [A2 I2]. destruct (R1 _ eq_refl) as [A1 I1]. split.
      * intros bnf Ha. simpl.
        rewrite (A1 bnf (agrees_extends _ _ _ (post_ext _ _ _ _ _ _ Po2) Ha)). simpl. apply A2; auto.
      * intros Hs Hacc. apply I2.
        -- eapply sol_in_incl; eauto. eapply post_incl; eauto.
        -- intros y Hy. apply (In_add_end quad_eqb quad_eqb_spec) in Hy. destruct Hy as [Hy| ->].
           ++ eapply quad_in_incl; [apply Hacc; auto | eapply post_incl; eauto].
           ++ eapply I1; eauto.
    + destruct (IH _ _ _ _ _ _ d0 lo H Pre1) as [Po2 R2].
      split; [eapply post_trans; eauto|].
      intros acc' Ho. destruct (R2 _ Ho) as [A2 I2]. destruct (R1 _ eq_refl) as [A1 I1]. split.
      * intros bnf Ha. simpl.
        rewrite (A1 bnf (agrees_extends _ _ _ (post_ext _ _ _ _ _ _ Po2) Ha)). apply A2; auto.
      * intros Hs Hacc. apply I2.
        -- eapply sol_in_incl; eauto. eapply post_incl; eauto.
        -- intros y Hy. eapply quad_in_incl; [apply Hacc; auto | eapply post_incl; eauto].
Qed.

(* ---- all solutions ---- *)
(* the maps of successive solutions use disjoint, increasing counter ranges *)
Fixpoint ranges_ok (d0 : list term) (lo : N) (tbl : list blmap) (hi : N) : Prop :=
  match tbl with
  | [] => lo <= hi
  | bl :: r => exists mid, lo <= mid /\ bl_ok d0 lo mid bl /\ ranges_ok d0 mid r hi
  end.
Definition tbl_agrees (bn : nat -> N -> term) (tbl : list blmap) : Prop :=
  forall i bl, nth_error tbl i = Some bl -> agrees (bn i) bl.

Lemma m_templates_ok : forall kwa insert D tqs sols st acc st' tbl r d0,
  m_templates kwa insert D sols tqs st acc = (st', tbl, r) -> incl d0 (i_dict st) ->
  incl (i_dict st) (i_dict st') /\ i_next st <= i_next st' /\ ranges_ok d0 (i_next st) tbl (i_next st') /\
  forall acc', r = IOut acc' ->
    length tbl = length sols /\
    (forall bn, tbl_agrees bn tbl -> acc' = fold_left (add_end quad_eqb) (s_all_gen kwa D sols bn tqs) acc) /\
    ((forall sol, In sol sols -> sol_in sol (i_dict st)) -> acc_in acc (i_dict st) -> acc_in acc' (i_dict st')).
Proof.
  intros kwa insert D tqs sols; induction sols as [|sol rest IH]; intros st acc st' tbl r d0 H Hd; simpl in H.
  - inversion H; subst. split; [apply incl_refl|]. split; [lia|]. split; [simpl; lia|].
    intros acc' Ho; inversion Ho; subst. split; [reflexivity|]. split; [intros; reflexivity | intros; assumption].
  - destruct (m_solution kwa insert D sol tqs [] st acc) as [[st1 bl1] r1] eqn:E1.
    assert (Hpre : pre d0 (i_next st) [] st).
    { repeat split; auto; try lia; intros l t Hl; discriminate. }
    destruct (m_solution_ok _ _ _ _ _ _ _ _ _ _ _ d0 (i_next st) E1 Hpre) as [[P1 [P2 [P3 [P4 P5]]]] R1].
    destruct r1 as [e|acc1].
    + inversion H; subst. split; [auto|]. split; [auto|]. split.
      * simpl. exists (i_next st'). split; [auto|]. split; [auto|lia].
      * intros acc' Ho; discriminate.
    + destruct (m_templates kwa insert D rest tqs st1 acc1) as [[st2 tbl2] r2] eqn:E2.
      inversion H; subst.
      assert (Hd1 : incl d0 (i_dict st1)) by (eapply incl_tran; eauto).
      destruct (IH _ _ _ _ _ d0 E2 Hd1) as [Q1 [Q2 [Q3 R2]]].
      split; [eapply incl_tran; eauto|]. split; [lia|]. split.
      * simpl. exists (i_next st1). split; [auto|]. split; [auto|exact Q3].
      * intros acc' Ho. destruct (R2 _ Ho) as [L2 [A2 I2]]. destruct (R1 _ eq_refl) as [A1 I1]. split; [|split].
        -- simpl; lia.
        -- intros bn Ha. simpl. rewrite fold_left_app.
           rewrite <- (A1 (bn O)) by (apply (Ha O); reflexivity).
           apply A2. intros i bl Hi. apply (Ha (S i)); exact Hi.
        -- intros Hs Hacc. apply I2.
           ++ intros s0 Hs0. eapply sol_in_incl; [apply Hs; simpl; auto | auto].
           ++ apply I1; auto. apply Hs; simpl; auto.
Qed.

(* ---- the blank-node assignment read off the table, made total by fresh defaults ---- *)
Definition bn_of (tbl : list blmap) (dflt : nat -> N -> term) : nat -> N -> term :=
  fun i l => match nth_error tbl i with
             | Some bl => match lookup l bl with Some t => t | None => dflt i l end
             | None => dflt i l
             end.

Lemma bn_of_agrees : forall tbl dflt, tbl_agrees (bn_of tbl dflt) tbl.
Proof. intros tbl dflt i bl Hi l t Hl. unfold bn_of. rewrite Hi, Hl. reflexivity. Qed.

Definition bn_max (d : list term) : N :=
  fold_right (fun t m => match t with Bn k _ => N.max k m | _ => m end) 0 d.
Lemma bn_max_ge : forall d k l, In (Bn k l) d -> k <= bn_max d.
Proof.
  induction d as [|t d IH]; simpl; intros k l H; [tauto|].
  destruct H as [->|H].
  - lia.
  - specialize (IH _ _ H). destruct t; lia.
Qed.

Definition dflt_bn (M : N) : nat -> N -> term := fun i l => Bn (M + 1 + N.of_nat i) l.

Lemma ranges_entry : forall d0 tbl lo hi i bl l t,
  ranges_ok d0 lo tbl hi -> nth_error tbl i = Some bl -> lookup l bl = Some t ->
  exists k, t = Bn k l /\ lo <= k < hi /\ ~ In t d0.
Proof.
  intros d0 tbl; induction tbl as [|b r IH]; intros lo hi i bl l t HR Hn Hl.
  - destruct i; discriminate.
  - simpl in HR. destruct HR as [mid [H1 [H2 H3]]].
    assert (Hmid : mid <= hi).
    { clear - H3. revert mid H3. induction r as [|b' r' IHr]; simpl; intros mid H; auto.
      destruct H as [m' [A [_ B]]]. specialize (IHr _ B). lia. }
    destruct i as [|i]; simpl in Hn.
    + inversion Hn; subst. destruct (H2 _ _ Hl) as [k [E [R F]]]. exists k; repeat split; auto; lia.
    + destruct (IH _ _ _ _ _ _ H3 Hn Hl) as [k [E [R F]]]. exists k; repeat split; auto; lia.
Qed.

Lemma ranges_index : forall d0 tbl lo hi i i' bl bl' l l' k,
  ranges_ok d0 lo tbl hi -> nth_error tbl i = Some bl -> nth_error tbl i' = Some bl' ->
  lookup l bl = Some (Bn k l) -> lookup l' bl' = Some (Bn k l') -> i = i'.
Proof.
  intros d0 tbl; induction tbl as [|b r IH]; intros lo hi i i' bl bl' l l' k HR Hn Hn' Hl Hl'.
  - destruct i; discriminate.
  - simpl in HR. destruct HR as [mid [H1 [H2 H3]]].
    destruct i as [|i], i' as [|i']; simpl in Hn, Hn'; auto.
    + inversion Hn; subst. destruct (H2 _ _ Hl) as [k1 [E1 [R1 _]]]. inversion E1; subst k1.
      destruct (ranges_entry _ _ _ _ _ _ _ _ H3 Hn' Hl') as [k2 [E2 [R2 _]]]. inversion E2; subst k2. lia.
    + inversion Hn'; subst. destruct (H2 _ _ Hl') as [k1 [E1 [R1 _]]]. inversion E1; subst k1.
      destruct (ranges_entry _ _ _ _ _ _ _ _ H3 Hn Hl) as [k2 [E2 [R2 _]]]. inversion E2; subst k2. lia.
    + f_equal. eapply IH; eauto.
Qed.

Theorem bn_of_fresh : forall d0 tbl lo hi M D,
  ranges_ok d0 lo tbl hi -> hi <= M -> bn_max d0 <= M ->
  (forall t, term_in_dataset t D -> In t d0) ->
  fresh_bn (bn_of tbl (dflt_bn M)) D.
Proof.
  intros d0 tbl lo hi M D HR HM Hmax Hcov.
  assert (Hcase : forall i l, (exists bl, nth_error tbl i = Some bl /\ lookup l bl = Some (bn_of tbl (dflt_bn M) i l)) \/
                              bn_of tbl (dflt_bn M) i l = dflt_bn M i l).
  { intros i l. unfold bn_of. destruct (nth_error tbl i) as [bl|] eqn:En; auto.
    destruct (lookup l bl) as [t|] eqn:El; auto. left; exists bl; auto. }
  split.
  - intros i l. destruct (Hcase i l) as [[bl [En El]]|Ed].
    + destruct (ranges_entry _ _ _ _ _ _ _ _ HR En El) as [k [E [R F]]].
      split; [rewrite E; reflexivity|]. intros Hin; apply F, Hcov; exact Hin.
    + rewrite Ed. unfold dflt_bn. split; auto.
      intros Hin. apply Hcov in Hin. apply bn_max_ge in Hin. lia.
  - intros i l i' l' Heq.
    destruct (Hcase i l) as [[bl [En El]]|Ed], (Hcase i' l') as [[bl' [En' El']]|Ed'].
    + destruct (ranges_entry _ _ _ _ _ _ _ _ HR En El) as [k [E [R F]]].
      destruct (ranges_entry _ _ _ _ _ _ _ _ HR En' El') as [k' [E' [R' F']]].
      rewrite E in *. rewrite E' in *. inversion Heq; subst.
      split; auto. eapply ranges_index; eauto.
    + destruct (ranges_entry _ _ _ _ _ _ _ _ HR En El) as [k [E [R F]]].
      rewrite Ed', E in Heq. unfold dflt_bn in Heq. inversion Heq. lia.
    + destruct (ranges_entry _ _ _ _ _ _ _ _ HR En' El') as [k [E [R F]]].
      rewrite Ed, E in Heq. unfold dflt_bn in Heq. inversion Heq. lia.
    + rewrite Ed, Ed' in Heq. unfold dflt_bn in Heq. inversion Heq. split; auto. lia.
Qed.
