(* C03 - the mathematical object the property talks about.

   A dataset is a duplicate-free list of quads (used as a set) plus the catalog of named graphs.
   Terms are the lexical values Kolibrie's dictionary holds.  The dictionary is untyped: it stores
   `<http://e/x>` as `http://e/x` and the literal "x" as `x`, so the Spec distinguishes only what
   the store can distinguish:
     Iri n    a lexical value with an IRI scheme (`scheme:rest`)            - "absolute IRI"
     Plain n  any other lexical value (literal values, numbers, relative IRIs, the bare word `a`)
     Bn k l   a blank node: k = 0 is `_:u<l>` as loaded, k > 0 is `_:kolibrie-update-<k>-u<l>`
     Qt s p o a quoted triple `<< s p o >>` (RDF-star), nested to any depth
   "Illegal position" (a quad dropped from a template) is the store's own classification of a
   bound value, evaluated on the pre-operation dataset (legal_subject / legal_predicate /
   legal_object / legal_graph below; a quoted triple is legal when its three components are).

   SPARQL Update semantics for one operation (spec_update):
     the WHERE clause is evaluated once on the pre-operation dataset (eval_where is a parameter:
     the statements hold for every evaluator); DELETE then INSERT templates are instantiated per
     solution, a quad with an unbound variable or an illegal bound position is dropped; template
     blank nodes are given by `bn i l` (solution index, label), required to be fresh and injective
     by `fresh_bn`; new dataset = (D \ Del) U Ins; deleted = |D| - |D \ Del|,
     inserted = |(D \ Del) U Ins| - |D \ Del|.  An operation that is not well formed, or any
     malformed request, leaves the dataset unchanged. *)
Require Export List NArith Bool.
Export ListNotations.
Open Scope N_scope.

(* ---------- terms and quads ---------- *)
Inductive term := Iri (n : N) | Plain (n : N) | Bn (k l : N) | Qt (s p o : term).

Fixpoint term_eqb (a b : term) : bool :=
  match a, b with
  | Iri x, Iri y => N.eqb x y
  | Plain x, Plain y => N.eqb x y
  | Bn k l, Bn k' l' => N.eqb k k' && N.eqb l l'
  | Qt s p o, Qt s' p' o' => term_eqb s s' && term_eqb p p' && term_eqb o o'
  | _, _ => false
  end.

(* the dictionary entries a term is made of *)
Fixpoint atoms (t : term) : list term :=
  match t with
  | Qt s p o => atoms s ++ atoms p ++ atoms o
  | _ => [t]
  end.

Definition rdf_type : term := Iri 0.      (* http://www.w3.org/1999/02/22-rdf-syntax-ns#type *)
Definition a_word : term := Plain 0.      (* the lexical value `a` *)

Definition is_bn (t : term) : bool := match t with Bn _ _ => true | _ => false end.
Definition is_abs (t : term) : bool := match t with Iri _ => true | _ => false end.
Definition is_qt (t : term) : bool := match t with Qt _ _ _ => true | _ => false end.

Definition quad := (term * term * term * option term)%type.   (* subject predicate object graph; None = default graph *)
Definition qs (q : quad) : term := fst (fst (fst q)).
Definition qp (q : quad) : term := snd (fst (fst q)).
Definition qo (q : quad) : term := snd (fst q).
Definition qg (q : quad) : option term := snd q.

Definition ograph_eqb (a b : option term) : bool :=
  match a, b with
  | None, None => true
  | Some x, Some y => term_eqb x y
  | _, _ => false
  end.
Definition quad_eqb (a b : quad) : bool :=
  term_eqb (qs a) (qs b) && term_eqb (qp a) (qp b) && term_eqb (qo a) (qo b) && ograph_eqb (qg a) (qg b).

(* ---------- duplicate-free lists used as sets ---------- *)
Section ListSet.
  Context {A : Type} (eqb : A -> A -> bool).
  Definition mem (x : A) (l : list A) : bool := existsb (eqb x) l.
  Definition add_end (l : list A) (x : A) : list A := if mem x l then l else l ++ [x].
  Definition union (l xs : list A) : list A := fold_left add_end xs l.       (* l U xs, new elements appended in order *)
  Definition diff (l xs : list A) : list A := filter (fun y => negb (mem y xs)) l.   (* l \ xs *)
End ListSet.

Definition qmem := mem quad_eqb.
Definition tmem := mem term_eqb.
Definition qunion := union quad_eqb.
Definition qdiff := diff quad_eqb.
Definition tunion := union term_eqb.

Record dataset := DS { dq : list quad; dc : list term }.

Definition graph_names (l : list quad) : list term :=
  flat_map (fun q => match qg q with Some g => [g] | None => [] end) l.

(* ---------- the store's classification of bound values ---------- *)
Definition graph_exists (D : dataset) (g : term) : bool :=
  tmem g (dc D) || existsb (fun q => ograph_eqb (qg q) (Some g)) (dq D).
Definition base_subject (D : dataset) (t : term) : bool :=
  is_bn t || is_abs t || graph_exists D t || existsb (fun q => term_eqb (qs q) t) (dq D).
Definition legal_predicate (D : dataset) (t : term) : bool :=
  negb (is_qt t) && negb (is_bn t) && (is_abs t || graph_exists D t || existsb (fun q => term_eqb (qp q) t) (dq D)).
(* a quoted triple is legal when its subject, predicate and object are (is_legal_quoted_triple) *)
Fixpoint legal_so (D : dataset) (subj : bool) (t : term) : bool :=
  match t with
  | Qt s p o => legal_so D true s && legal_predicate D p && legal_so D false o
  | _ => if subj then base_subject D t else true
  end.
Definition legal_subject (D : dataset) (t : term) : bool := legal_so D true t.
Definition legal_object (D : dataset) (t : term) : bool := legal_so D false t.
Definition legal_graph (D : dataset) (t : term) : bool :=
  negb (is_qt t) && negb (is_bn t) && (is_abs t || graph_exists D t).

(* ---------- templates ---------- *)
Inductive tterm :=
| TVar (v : N) | TConst (t : term) | TBnode (l : N)
| TKwA                                   (* the keyword `a` *)
| TQuoted (s p o : tterm).               (* << s p o >> *)
Inductive tgraph := GDefault | GVar (v : N) | GConst (t : term) | GInvalid.     (* GInvalid: a lexeme that is no IRI / variable *)
Record tquad := TQ { tq_s : tterm; tq_p : tterm; tq_o : tterm; tq_g : tgraph }.

Definition solution := list (N * term).
Fixpoint lookup {B} (v : N) (sol : list (N * B)) : option B :=
  match sol with
  | [] => None
  | (x, t) :: r => if N.eqb v x then Some t else lookup v r
  end.

Definition is_tvar (t : tterm) : bool := match t with TVar _ => true | _ => false end.
Fixpoint has_tbnode (t : tterm) : bool :=
  match t with TBnode _ => true | TQuoted s p o => has_tbnode s || has_tbnode p || has_tbnode o | _ => false end.
Fixpoint has_tvar (t : tterm) : bool :=
  match t with TVar _ => true | TQuoted s p o => has_tvar s || has_tvar p || has_tvar o | _ => false end.

(* instantiation of one template term; `kwa` is the meaning of the keyword `a` in predicate position
   (pred = true: the term stands in predicate position of a template quad or of a quoted triple) *)
Fixpoint s_term_gen (kwa : term) (pred : bool) (sol : solution) (bnf : N -> term) (t : tterm) : option term :=
  match t with
  | TVar v => lookup v sol
  | TConst c => Some c
  | TBnode l => Some (bnf l)
  | TKwA => Some (if pred then kwa else a_word)
  | TQuoted s p o =>
    match s_term_gen kwa false sol bnf s with
    | None => None
    | Some s' =>
      match s_term_gen kwa true sol bnf p with
      | None => None
      | Some p' =>
        match s_term_gen kwa false sol bnf o with
        | None => None
        | Some o' => Some (Qt s' p' o')
        end
      end
    end
  end.

Definition s_quad_gen (kwa : term) (D : dataset) (sol : solution) (bnf : N -> term) (q : tquad) : option quad :=
  match s_term_gen kwa false sol bnf (tq_s q) with
  | None => None
  | Some s =>
    if (is_tvar (tq_s q) || is_qt s) && negb (legal_subject D s) then None else
    match s_term_gen kwa true sol bnf (tq_p q) with
    | None => None
    | Some p =>
      if is_tvar (tq_p q) && negb (legal_predicate D p) then None else
      match s_term_gen kwa false sol bnf (tq_o q) with
      | None => None
      | Some o =>
        if is_qt o && negb (legal_object D o) then None else
        match tq_g q with
        | GDefault => Some (s, p, o, None)
        | GConst g => Some (s, p, o, Some g)
        | GVar v => match lookup v sol with
                    | None => None
                    | Some g => if legal_graph D g then Some (s, p, o, Some g) else None
                    end
        | GInvalid => None
        end
      end
    end
  end.

(* SPARQL: the keyword `a` is rdf:type *)
Definition s_quad := s_quad_gen rdf_type.

Fixpoint filter_map {A B} (f : A -> option B) (l : list A) : list B :=
  match l with
  | [] => []
  | x :: r => match f x with Some y => y :: filter_map f r | None => filter_map f r end
  end.

(* all quads of a template list, solution by solution; solution number i uses blank nodes bn i *)
Fixpoint s_all_gen (kwa : term) (D : dataset) (sols : list solution) (bn : nat -> N -> term) (tqs : list tquad) : list quad :=
  match sols with
  | [] => []
  | sol :: r => filter_map (s_quad_gen kwa D sol (bn O)) tqs ++ s_all_gen kwa D r (fun i => bn (S i)) tqs
  end.
Definition s_all := s_all_gen rdf_type.

(* (D \ Del) U Ins with the two counts *)
Definition spec_apply (D : dataset) (Del Ins : list quad) : dataset * (N * N) :=
  let Q1 := qdiff (dq D) Del in
  let Q2 := qunion Q1 Ins in
  (DS Q2 (tunion (dc D) (graph_names Ins)),
   (N.of_nat (length Q2) - N.of_nat (length Q1), N.of_nat (length (dq D)) - N.of_nat (length Q1))).

(* ---------- the six forms ---------- *)
Section Update.
  Variable wh : Type.                                   (* WHERE clauses *)
  Variable eval_where : wh -> dataset -> list solution. (* evaluated once, on the pre-operation dataset *)

  Inductive update :=
  | InsertData (ins : list tquad)
  | DeleteData (del : list tquad)
  | InsertWhere (ins : list tquad) (w : wh)
  | DeleteWhere (del : list tquad) (w : wh)
  | DeleteInsertWhere (del ins : list tquad) (w : wh)
  | DeleteWhereShort (del : list tquad) (w : wh).        (* DELETE WHERE { quads }: w is the pattern read off the quads *)

  Definition u_del (u : update) : list tquad :=
    match u with
    | DeleteData d | DeleteWhere d _ | DeleteInsertWhere d _ _ | DeleteWhereShort d _ => d
    | _ => []
    end.
  Definition u_ins (u : update) : list tquad :=
    match u with
    | InsertData i | InsertWhere i _ | DeleteInsertWhere _ i _ => i
    | _ => []
    end.
  Definition u_sols (u : update) (D : dataset) : list solution :=
    match u with
    | InsertData _ | DeleteData _ => [[]]               (* DATA forms: the one empty solution *)
    | InsertWhere _ w | DeleteWhere _ w | DeleteInsertWhere _ _ w | DeleteWhereShort _ w => eval_where w D
    end.

  Definition no_bn : nat -> N -> term := fun _ _ => a_word.   (* DELETE templates contain no blank nodes *)

  Definition spec_update_gen (kwa : term) (u : update) (bn : nat -> N -> term) (D : dataset) : dataset * (N * N) :=
    let sols := u_sols u D in
    spec_apply D (s_all_gen kwa D sols no_bn (u_del u)) (s_all_gen kwa D sols bn (u_ins u)).
  Definition spec_update := spec_update_gen rdf_type.

  (* which operation trees are well formed (anything else is rejected) *)
  Definition tq_has_var (q : tquad) : bool :=
    has_tvar (tq_s q) || has_tvar (tq_p q) || has_tvar (tq_o q) || match tq_g q with GVar _ => true | _ => false end.
  Definition tq_has_bnode (q : tquad) : bool := has_tbnode (tq_s q) || has_tbnode (tq_p q) || has_tbnode (tq_o q).
  Definition tq_graph_ok (q : tquad) : bool := match tq_g q with GInvalid => false | _ => true end.

  Definition well_formed (u : update) : bool :=
    forallb tq_graph_ok (u_del u) && forallb tq_graph_ok (u_ins u) &&
    forallb (fun q => negb (tq_has_bnode q)) (u_del u) &&
    match u with
    | InsertData i => forallb (fun q => negb (tq_has_var q)) i
    | DeleteData d => forallb (fun q => negb (tq_has_var q)) d
    | _ => true
    end.

  (* blank nodes are fresh per solution: injective in (solution, label), blank, and not a term of the dataset *)
  (* t is a dictionary entry some term of the dataset is made of *)
  Definition top_term (u : term) (D : dataset) : Prop :=
    In u (dc D) \/ exists q, In q (dq D) /\ (qs q = u \/ qp q = u \/ qo q = u \/ qg q = Some u).
  Definition term_in_dataset (t : term) (D : dataset) : Prop := exists u, top_term u D /\ In t (atoms u).
  Definition fresh_bn (bn : nat -> N -> term) (D : dataset) : Prop :=
    (forall i l, is_bn (bn i l) = true /\ ~ term_in_dataset (bn i l) D) /\
    (forall i l i' l', bn i l = bn i' l' -> i = i' /\ l = l').

  (* a history: requests with their outcomes *)
  Inductive request :=
  | RGarbage                                  (* does not parse: trailing input, unknown keyword, ... *)
  | RQuery (decl : list N)                    (* parses, but is no update *)
  | RText (decl : list N) (u : update)        (* parses to an operation tree, declaring prefixes decl *)
  | RTree (u : update).                       (* an operation tree handed to the executor directly *)

  Inductive outcome := Done (inserted deleted : N) | Rejected (code : N).

  Inductive spec_trace : dataset -> list (request * outcome) -> dataset -> Prop :=
  | st_nil : forall D, spec_trace D [] D
  | st_rejected : forall D r c tr D',
      (forall decl u, r = RText decl u -> well_formed u = false) ->      (* a well-formed request is never rejected *)
      spec_trace D tr D' -> spec_trace D ((r, Rejected c) :: tr) D'
  | st_done : forall D r u bn i d tr D',
      (r = RTree u \/ exists decl, r = RText decl u /\ well_formed u = true) ->
      fresh_bn bn D ->
      (i, d) = snd (spec_update u bn D) ->
      spec_trace (fst (spec_update u bn D)) tr D' ->
      spec_trace D ((r, Done i d) :: tr) D'.
End Update.

Arguments InsertData {wh}.
Arguments DeleteData {wh}.
Arguments InsertWhere {wh}.
Arguments DeleteWhere {wh}.
Arguments DeleteInsertWhere {wh}.
Arguments DeleteWhereShort {wh}.
Arguments RGarbage {wh}.
Arguments RQuery {wh}.
Arguments RText {wh}.
Arguments RTree {wh}.
Arguments u_del {wh}.
Arguments u_ins {wh}.
Arguments u_sols {wh}.
Arguments well_formed {wh}.
Arguments spec_update_gen {wh}.
Arguments spec_update {wh}.
Arguments spec_trace {wh}.
