(* A small executable WHERE evaluator - basic graph patterns in a graph scope (default graph,
   GRAPH <iri>, GRAPH ?g), single-variable VALUES blocks, joins of such blocks and a top-level UNION;
   the result is a SEQUENCE of solutions (UNION concatenates, VALUES repeats: duplicates are kept,
   and every copy of a solution gets its own template blank nodes) - used to instantiate the
   parameter eval_where when the model and the Spec are run by the correspondence check.
   The property theorems do not depend on it (they hold for every evaluator). *)
Require Export KV.Update.Model.

Inductive pterm := PVar (v : N) | PConst (t : term) | PQuoted (s p o : pterm).   (* << s p o >> with variables *)
Definition tpat := (pterm * pterm * pterm)%type.
Inductive scope := SDefault | SConst (g : term) | SVar (v : N)
  | SValues (v : N) (rows : list term).     (* VALUES ?v { rows }: one solution per row, repeated rows repeat it *)
Definition block := (scope * list tpat)%type.
Definition gwhere := list (list block).      (* UNION of joins of blocks; [[]] is the empty group *)

Fixpoint match_pt (pt : pterm) (t : term) (sol : solution) : option solution :=
  match pt with
  | PConst c => if term_eqb c t then Some sol else None
  | PVar v => match lookup v sol with
              | Some t' => if term_eqb t' t then Some sol else None
              | None => Some ((v, t) :: sol)
              end
  | PQuoted a b c =>
      match t with
      | Qt s p o => match match_pt a s sol with
                    | None => None
                    | Some s1 => match match_pt b p s1 with
                                 | None => None
                                 | Some s2 => match_pt c o s2
                                 end
                    end
      | _ => None
      end
  end.

Definition match_tp (tp : tpat) (q : quad) (sol : solution) : option solution :=
  match match_pt (fst (fst tp)) (qs q) sol with
  | None => None
  | Some s1 => match match_pt (snd (fst tp)) (qp q) s1 with
               | None => None
               | Some s2 => match_pt (snd tp) (qo q) s2
               end
  end.

Definition eval_tps (tps : list tpat) (cands : list quad) (sols : list solution) : list solution :=
  fold_left (fun ss tp => flat_map (fun sol => filter_map (fun q => match_tp tp q sol) cands) ss) tps sols.

Definition in_graph (g : option term) (D : dataset) : list quad := filter (fun q => ograph_eqb (qg q) g) (dq D).
Definition named_graphs (D : dataset) : list term := tunion (dc D) (graph_names (dq D)).

Definition eval_block (D : dataset) (sols : list solution) (b : block) : list solution :=
  match fst b with
  | SDefault => eval_tps (snd b) (in_graph None D) sols
  | SConst g => if tmem g (named_graphs D) then eval_tps (snd b) (in_graph (Some g) D) sols else []   (* GRAPH <g> over a graph that does not exist has no solution *)
  | SVar v =>
      flat_map (fun sol =>
        flat_map (fun g => match match_pt (PVar v) g sol with
                           | None => []
                           | Some sol' => eval_tps (snd b) (in_graph (Some g) D) [sol']
                           end) (named_graphs D)) sols
  | SValues v rows =>
      flat_map (fun sol => filter_map (fun t => match_pt (PVar v) t sol) rows) sols
  end.

Definition eval_join (D : dataset) (bs : list block) : list solution := fold_left (eval_block D) bs [[]].
Definition eval_gwhere (w : gwhere) (D : dataset) : list solution := flat_map (eval_join D) w.

Fixpoint pt_terms (p : pterm) : list term :=
  match p with
  | PConst c => [c]
  | PVar _ => []
  | PQuoted a b c => pt_terms a ++ pt_terms b ++ pt_terms c
  end.
Definition block_terms (b : block) : list term :=
  match fst b with SConst g => [g] | SValues _ rows => rows | _ => [] end ++
  flat_map (fun tp => pt_terms (fst (fst tp)) ++ pt_terms (snd (fst tp)) ++ pt_terms (snd tp)) (snd b).
Definition gwhere_terms (w : gwhere) : list term := flat_map (flat_map block_terms) w.

(* parser.rs: sparql_quads_to_group - the pattern of `DELETE WHERE { quads }`; in a pattern the
   keyword `a` is rdf:type (compile_triple) and a blank-node label is a constant *)
Fixpoint pt_of_tterm (pred : bool) (t : tterm) : pterm :=
  match t with
  | TVar v => PVar v
  | TConst c => PConst c
  | TBnode l => PConst (Bn 0 l)
  | TKwA => PConst (if pred then rdf_type else a_word)
  | TQuoted s p o => PQuoted (pt_of_tterm false s) (pt_of_tterm true p) (pt_of_tterm false o)
  end.
Definition short_where (qs : list tquad) : gwhere :=
  [map (fun q => (match tq_g q with GDefault | GInvalid => SDefault | GVar v => SVar v | GConst g => SConst g end,
                  [(pt_of_tterm false (tq_s q), pt_of_tterm true (tq_p q), pt_of_tterm false (tq_o q))])) qs].
