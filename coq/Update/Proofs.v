(* The property lemmas of C03: step refinement, atomicity, histories, fresh blank nodes, acceptance. *)
Require Import KV.Update.Spec KV.Update.Model KV.Update.SetProofs KV.Update.InstProofs.
Require Import Lia Permutation.

(* ---- DELETE templates never allocate ---- *)
Lemma m_term_false_bl : forall kwa sol t pred bl st st' bl' r, m_term kwa pred false sol t bl st = (st', bl', r) -> bl' = bl.
Proof.
  intros kwa sol; induction t as [v|c|l| |ts IHs tp IHp to IHo]; intros pred bl st st' bl' r H; simpl in H; try (inversion H; auto; fail).
  destruct (m_term kwa false false sol ts bl st) as [[st1 bl1] r1] eqn:E1. apply IHs in E1; subst bl1.
  destruct r1 as [e|[s1|]]; try (inversion H; auto; fail).
  destruct (m_term kwa true false sol tp bl st1) as [[st2 bl2] r2] eqn:E2. apply IHp in E2; subst bl2.
  destruct r2 as [e|[p1|]]; try (inversion H; auto; fail).
  destruct (m_term kwa false false sol to bl st2) as [[st3 bl3] r3] eqn:E3. apply IHo in E3; subst bl3.
  destruct r3 as [e|[o1|]]; inversion H; auto.
Qed.

Lemma m_quad_false_bl : forall kwa D sol q bl st st' bl' r, m_quad kwa false D sol q bl st = (st', bl', r) -> bl' = bl.
Proof.
  intros kwa D sol q bl st st' bl' r H. unfold m_quad in H.
  destruct (m_term kwa false false sol (tq_s q) bl st) as [[st1 bl1] r1] eqn:E1. apply m_term_false_bl in E1; subst bl1.
  destruct r1 as [e|[s|]]; try (inversion H; auto; fail).
  destruct ((is_tvar (tq_s q) || is_qt s) && negb (legal_subject D s)); try (inversion H; auto; fail).
  destruct (m_term kwa true false sol (tq_p q) bl st1) as [[st2 bl2] r2] eqn:E2. apply m_term_false_bl in E2; subst bl2.
  destruct r2 as [e|[p|]]; try (inversion H; auto; fail).
  destruct (is_tvar (tq_p q) && negb (legal_predicate D p)); try (inversion H; auto; fail).
  destruct (m_term kwa false false sol (tq_o q) bl st2) as [[st3 bl3] r3] eqn:E3. apply m_term_false_bl in E3; subst bl3.
  destruct r3 as [e|[o|]]; try (inversion H; auto; fail).
  destruct (is_qt o && negb (legal_object D o)); try (inversion H; auto; fail).
  destruct (tq_g q); try (inversion H; auto; fail).
  destruct (lookup v sol); try (inversion H; auto; fail).
  destruct (legal_graph D t); inversion H; auto.
Qed.

Lemma m_solution_false_bl : forall kwa D sol tqs bl st acc st' bl' r,
  m_solution kwa false D sol tqs bl st acc = (st', bl', r) -> bl' = bl.
Proof.
  intros kwa D sol tqs; induction tqs as [|q rest IH]; intros bl st acc st' bl' r H; simpl in H.
  - inversion H; auto.
  - destruct (m_quad kwa false D sol q bl st) as [[st1 bl1] r1] eqn:E1. apply m_quad_false_bl in E1; subst bl1.
    destruct r1 as [e|[x|]]; [inversion H; auto | eapply IH; eauto | eapply IH; eauto].
Qed.

Lemma m_templates_false_tbl : forall kwa D tqs sols st acc st' tbl r,
  m_templates kwa false D sols tqs st acc = (st', tbl, r) -> forall bn, tbl_agrees bn tbl.
Proof.
  intros kwa D tqs sols; induction sols as [|sol rest IH]; intros st acc st' tbl r H bn; simpl in H.
  - inversion H; subst. intros i bl Hi; destruct i; discriminate.
  - destruct (m_solution kwa false D sol tqs [] st acc) as [[st1 bl1] r1] eqn:E1. apply m_solution_false_bl in E1; subst bl1.
    destruct r1 as [e|acc1].
    + inversion H; subst. intros i bl Hi. destruct i as [|[|i]]; simpl in Hi; try discriminate.
      inversion Hi; subst. intros l t Hl; discriminate.
    + destruct (m_templates kwa false D rest tqs st1 acc1) as [[st2 tbl2] r2] eqn:E2. inversion H; subst.
      intros i bl Hi. destruct i as [|i]; simpl in Hi.
      * inversion Hi; subst. intros l t Hl; discriminate.
      * eapply (IH _ _ _ _ _ E2 (fun j => bn (S j))); eauto.
Qed.

(* ---- no error on well-formed templates ---- *)
Lemma m_term_noerr : forall kwa insert sol t pred bl st st' bl' r,
  (insert = true \/ has_tbnode t = false) -> m_term kwa pred insert sol t bl st = (st', bl', r) -> exists ot, r = IOut ot.
Proof.
  intros kwa insert sol; induction t as [v|c|l| |ts IHs tp IHp to IHo]; intros pred bl st st' bl' r Hc H; simpl in H;
    try (inversion H; eauto; fail).
  - destruct Hc as [->|Hc]; [|simpl in Hc; discriminate]. simpl in H.
    destruct (lookup l bl); [inversion H; eauto|].
    destruct (allocate_blank_node l st) as [[b st1]|] eqn:Ea; [inversion H; eauto|].
    exfalso; eapply allocate_total; eauto.
  - assert (Hs : insert = true \/ has_tbnode ts = false).
    { destruct Hc; auto. right. simpl in H0. destruct (has_tbnode ts); auto. }
    assert (Hp : insert = true \/ has_tbnode tp = false).
    { destruct Hc; auto. right. simpl in H0. destruct (has_tbnode tp); auto. rewrite orb_true_r in H0. discriminate. }
    assert (Ho : insert = true \/ has_tbnode to = false).
    { destruct Hc; auto. right. simpl in H0. destruct (has_tbnode to); auto. rewrite orb_true_r in H0. discriminate. }
    destruct (m_term kwa false insert sol ts bl st) as [[st1 bl1] r1] eqn:E1.
    destruct (IHs _ _ _ _ _ _ Hs E1) as [o1 ->]. destruct o1 as [s1|]; [|inversion H; eauto].
    destruct (m_term kwa true insert sol tp bl1 st1) as [[st2 bl2] r2] eqn:E2.
    destruct (IHp _ _ _ _ _ _ Hp E2) as [o2 ->]. destruct o2 as [p1|]; [|inversion H; eauto].
    destruct (m_term kwa false insert sol to bl2 st2) as [[st3 bl3] r3] eqn:E3.
    destruct (IHo _ _ _ _ _ _ Ho E3) as [o3 ->]. destruct o3 as [o1|]; inversion H; eauto.
Qed.

Lemma m_quad_noerr : forall kwa insert D sol q bl st st' bl' r,
  (insert = true \/ tq_has_bnode q = false) -> tq_graph_ok q = true ->
  m_quad kwa insert D sol q bl st = (st', bl', r) -> exists oq, r = IOut oq.
Proof.
  intros kwa insert D sol q bl st st' bl' r Hc Hg H. unfold m_quad in H.
  assert (Hs : insert = true \/ has_tbnode (tq_s q) = false).
  { destruct Hc; auto. right. unfold tq_has_bnode in H0. destruct (has_tbnode (tq_s q)); auto. }
  assert (Hp : insert = true \/ has_tbnode (tq_p q) = false).
  { destruct Hc; auto. right. unfold tq_has_bnode in H0. destruct (has_tbnode (tq_p q)); auto. rewrite orb_true_r in H0. discriminate. }
  assert (Ho : insert = true \/ has_tbnode (tq_o q) = false).
  { destruct Hc; auto. right. unfold tq_has_bnode in H0. destruct (has_tbnode (tq_o q)); auto. rewrite orb_true_r in H0. discriminate. }
  destruct (m_term kwa false insert sol (tq_s q) bl st) as [[st1 bl1] r1] eqn:E1.
  destruct (m_term_noerr _ _ _ _ _ _ _ _ _ _ Hs E1) as [o1 ->].
  destruct o1 as [s|]; [|inversion H; eauto].
  destruct ((is_tvar (tq_s q) || is_qt s) && negb (legal_subject D s)); [inversion H; eauto|].
  destruct (m_term kwa true insert sol (tq_p q) bl1 st1) as [[st2 bl2] r2] eqn:E2.
  destruct (m_term_noerr _ _ _ _ _ _ _ _ _ _ Hp E2) as [o2 ->].
  destruct o2 as [p|]; [|inversion H; eauto].
  destruct (is_tvar (tq_p q) && negb (legal_predicate D p)); [inversion H; eauto|].
  destruct (m_term kwa false insert sol (tq_o q) bl2 st2) as [[st3 bl3] r3] eqn:E3.
  destruct (m_term_noerr _ _ _ _ _ _ _ _ _ _ Ho E3) as [o3 ->].
  destruct o3 as [o|]; [|inversion H; eauto].
  destruct (is_qt o && negb (legal_object D o)); [inversion H; eauto|].
  unfold tq_graph_ok in Hg. destruct (tq_g q); try discriminate; try (inversion H; eauto; fail).
  destruct (lookup v sol); [|inversion H; eauto]. destruct (legal_graph D t); inversion H; eauto.
Qed.

Lemma m_solution_noerr : forall kwa insert D sol tqs bl st acc st' bl' r,
  (insert = true \/ forallb (fun q => negb (tq_has_bnode q)) tqs = true) -> forallb tq_graph_ok tqs = true ->
  m_solution kwa insert D sol tqs bl st acc = (st', bl', r) -> exists acc', r = IOut acc'.
Proof.
  intros kwa insert D sol tqs; induction tqs as [|q rest IH]; intros bl st acc st' bl' r Hc Hg H; simpl in H.
  - inversion H; eauto.
  - simpl in Hg. apply andb_true_iff in Hg. destruct Hg as [Hg1 Hg2].
    assert (Hq : insert = true \/ tq_has_bnode q = false).
    { destruct Hc as [Hc|Hc]; auto. simpl in Hc. apply andb_true_iff in Hc. destruct Hc as [Hc _]. right. destruct (tq_has_bnode q); auto. }
    assert (Hr : insert = true \/ forallb (fun q => negb (tq_has_bnode q)) rest = true).
    { destruct Hc as [Hc|Hc]; auto. simpl in Hc. apply andb_true_iff in Hc. destruct Hc as [_ Hc]. auto. }
    destruct (m_quad kwa insert D sol q bl st) as [[st1 bl1] r1] eqn:E1.
    destruct (m_quad_noerr _ _ _ _ _ _ _ _ _ _ Hq Hg1 E1) as [oq ->].
    destruct oq; eapply IH; eauto.
Qed.

Lemma m_templates_noerr : forall kwa insert D tqs sols st acc st' tbl r,
  (insert = true \/ forallb (fun q => negb (tq_has_bnode q)) tqs = true) -> forallb tq_graph_ok tqs = true ->
  m_templates kwa insert D sols tqs st acc = (st', tbl, r) -> exists acc', r = IOut acc'.
Proof.
  intros kwa insert D tqs sols; induction sols as [|sol rest IH]; intros st acc st' tbl r Hc Hg H; simpl in H.
  - inversion H; eauto.
  - destruct (m_solution kwa insert D sol tqs [] st acc) as [[st1 bl1] r1] eqn:E1.
    destruct (m_solution_noerr _ _ _ _ _ _ _ _ _ _ _ Hc Hg E1) as [acc1 ->].
    destruct (m_templates kwa insert D rest tqs st1 acc1) as [[st2 tbl2] r2] eqn:E2.
    inversion H; subst. eapply IH; eauto.
Qed.

Section Main.
  Variable wh : Type.
  Variable eval_where : wh -> dataset -> list solution.
  Variable where_terms : wh -> list term.

  Notation exec_update := (exec_update wh eval_where where_terms).
  Notation exec_update_gen := (exec_update_gen wh eval_where where_terms).
  Notation exec_request := (exec_request wh eval_where where_terms).
  Notation run := (run wh eval_where where_terms).

  (* well-formed states: what every state built through the API satisfies *)
  Definition wf (s : state) : Prop :=
    NoDup (quads s) /\ graphs_in_cat (den s) /\ (forall t, term_in_dataset t (den s) -> In t (dict s)).

  Lemma compile_where_mono : forall ow st,
    incl (i_dict st) (i_dict (compile_where wh where_terms ow st)) /\
    i_next (compile_where wh where_terms ow st) = i_next st /\
    (forall w c, ow = Some w -> In c (where_terms w) -> incl (atoms c) (i_dict (compile_where wh where_terms ow st))).
  Proof.
    intros [w|] st; simpl.
    2:{ repeat split; auto using incl_refl. intros w c H; discriminate. }
    assert (G : forall l st0, incl (i_dict st0) (i_dict (fold_left (fun s t => encode t s) l st0)) /\
                             i_next (fold_left (fun s t => encode t s) l st0) = i_next st0 /\
                             (forall c, In c l -> incl (atoms c) (i_dict (fold_left (fun s t => encode t s) l st0)))).
    { induction l as [|t l IH]; intros st0; simpl.
      - repeat split; auto using incl_refl. intros c [].
      - destruct (IH (encode t st0)) as [A [B C]]. split; [|split].
        + intros x Hx. apply A. unfold encode; simpl. apply In_union_t; auto.
        + rewrite B. reflexivity.
        + intros c [<-|Hc]; auto. intros x Hx. apply A. unfold encode; simpl. apply In_union_t; auto. }
    destruct (G (where_terms w) st) as [A [B C]]. repeat split; auto. intros w0 c H; inversion H; subst; auto.
  Qed.

  (* ---- one accepted operation: the model computes the Spec (with `a` read as the word `a`) ---- *)
  (* the solutions of this operation bind only terms of the dataset or constants of its WHERE clause *)
  Definition closed_for (u : update wh) (s : state) : Prop :=
    forall sol v t a, In sol (u_sols eval_where u (den s)) -> lookup v sol = Some t -> In a (atoms t) ->
      term_in_dataset a (den s) \/ exists w c, u_where wh u = Some w /\ In c (where_terms w) /\ In a (atoms c).

  Lemma sols_in_dict : forall u s st,
    wf s -> closed_for u s ->
    incl (i_dict (compile_where wh where_terms (u_where wh u) (IS (dict s) (next s)))) (i_dict st) ->
    forall sol, In sol (u_sols eval_where u (den s)) -> sol_in sol (i_dict st).
  Proof.
    intros u s st [_ [_ Hcov]] Hcl Hi sol Hs v x Hv a Ha.
    destruct (compile_where_mono (u_where wh u) (IS (dict s) (next s))) as [A [_ C]]. simpl in A.
    destruct (Hcl _ _ _ _ Hs Hv Ha) as [Ht|[w [c [Hw [Hc Hac]]]]].
    - apply Hi, A, Hcov; auto.
    - apply Hi. eapply C; eauto.
  Qed.

  (* the blank-node assignment of an executed operation: the model's per-solution maps, completed by unused names *)
  Definition model_bn (s s' : state) (tbl : list blmap) : nat -> N -> term :=
    bn_of tbl (dflt_bn (N.max (next s') (bn_max (dict s)))).

  Opaque apply_mutations.
  Theorem exec_update_done : forall kwa u s s' i d tbl,
    exec_update_gen kwa u s = (s', Done i d, tbl) -> wf s ->
    let bn := model_bn s s' tbl in
    fresh_bn bn (den s) /\
    den s' = fst (spec_update_gen eval_where kwa u bn (den s)) /\
    (i, d) = snd (spec_update_gen eval_where kwa u bn (den s)) /\
    incl (dict s) (dict s') /\ next s <= next s' /\ pfx s' = pfx s /\ (closed_for u s -> wf s').
  Proof.
    intros kwa u s s' i d tbl H Hwf. unfold Model.exec_update_gen in H.
    set (D := den s) in *. set (sols := u_sols eval_where u D) in *.
    set (st1 := compile_where wh where_terms (u_where wh u) (IS (dict s) (next s))) in *.
    destruct (compile_where_mono (u_where wh u) (IS (dict s) (next s))) as [C1 [C2 _]]. fold st1 in C1, C2. simpl in C1, C2.
    destruct (m_templates kwa false D sols (u_del u) st1 []) as [[st2 tbl1] r1] eqn:E1.
    destruct (m_templates_ok _ _ _ _ _ _ _ _ _ _ (dict s) E1 C1) as [A1 [A2 [A3 R1]]].
    destruct r1 as [e|dels]; [inversion H|].
    destruct (R1 _ eq_refl) as [L1 [S1 I1]].
    destruct (m_templates kwa true D sols (u_ins u) st2 []) as [[st3 tbl2] r2] eqn:E2.
    assert (C3 : incl (dict s) (i_dict st2)) by (eapply incl_tran; eauto).
    destruct (m_templates_ok _ _ _ _ _ _ _ _ _ _ (dict s) E2 C3) as [B1 [B2 [B3 R2]]].
    destruct r2 as [e|inss]; [inversion H|].
    destruct (R2 _ eq_refl) as [L2 [S2 I2]].
    inversion H; subst s' i d tbl2; clear H. unfold model_bn. cbn [next dict quads cat pfx den]. cbv zeta.
    destruct Hwf as [HN [HG Hcov]].
    set (bn := bn_of tbl (dflt_bn (N.max (i_next st3) (bn_max (dict s))))).
    assert (Hdel : dels = union quad_eqb [] (s_all_gen kwa D sols no_bn (u_del u))).
    { apply S1. eapply m_templates_false_tbl; eauto. }
    assert (Hins : inss = union quad_eqb [] (s_all_gen kwa D sols bn (u_ins u))).
    { apply S2. apply bn_of_agrees. }
    assert (Happ : apply_mutations dels inss D = spec_apply D (s_all_gen kwa D sols no_bn (u_del u)) (s_all_gen kwa D sols bn (u_ins u))).
    { rewrite Hdel, Hins. apply apply_mutations_spec; auto. }
    split; [|split; [|split; [|split; [|split; [|split]]]]].
    - eapply bn_of_fresh; eauto; lia.
    - unfold spec_update_gen. fold D sols. rewrite <- Happ. unfold den. cbn [quads cat].
      destruct (apply_mutations dels inss D) as [[q0 c0] [a0 b0]]. reflexivity.
    - unfold spec_update_gen. fold D sols. rewrite <- Happ.
      destruct (apply_mutations dels inss D) as [[q0 c0] [a0 b0]]. reflexivity.
    - eapply incl_tran; eauto.
    - lia.
    - reflexivity.
    - (* wf of the new state *)
      intros Hcl.
      assert (Hsolin : forall sol, In sol sols -> sol_in sol (i_dict st2)).
      { apply (sols_in_dict u s st2); [repeat split; auto | exact Hcl | exact A1]. }
      assert (Hacc : acc_in inss (i_dict st3)) by (apply I2; [exact Hsolin | intros x []]).
      rewrite Happ. unfold spec_apply; simpl.
      set (Del := s_all_gen kwa D sols no_bn (u_del u)) in *. set (Ins := s_all_gen kwa D sols bn (u_ins u)) in *.
      assert (HinsIn : forall q, In q Ins -> quad_in q (i_dict st3)).
      { intros q Hq. apply Hacc. rewrite Hins. apply (In_union quad_eqb quad_eqb_spec). auto. }
      assert (Hold : incl (dict s) (i_dict st3)) by (eapply incl_tran; eauto).
      split; [|split].
      + simpl. apply (NoDup_union quad_eqb quad_eqb_spec). apply NoDup_filter. exact HN.
      + intros q g Hq Hg. simpl in *. apply (In_union term_eqb term_eqb_spec).
        apply (In_union quad_eqb quad_eqb_spec) in Hq. destruct Hq as [Hq|Hq].
        * left. apply filter_In in Hq. destruct Hq as [Hq _]. eapply HG; eauto.
        * right. unfold graph_names. apply in_flat_map. exists q. split; auto. rewrite Hg; simpl; auto.
      + intros t [u0 [Hu Ht]]. simpl. destruct Hu as [Hu|[q [Hq Hu]]]; simpl in *.
        * apply (In_union term_eqb term_eqb_spec) in Hu. destruct Hu as [Hu|Hu].
          -- apply Hold, Hcov. exists u0. split; [left; exact Hu | exact Ht].
          -- unfold graph_names in Hu. apply in_flat_map in Hu. destruct Hu as [q [Hq Hg]].
             destruct (qg q) as [g|] eqn:Eg; simpl in Hg; [|tauto]. destruct Hg as [<-|[]].
             destruct (HinsIn q Hq) as [_ [_ [_ X]]]. eapply X; eauto.
        * apply (In_union quad_eqb quad_eqb_spec) in Hq. destruct Hq as [Hq|Hq].
          -- apply filter_In in Hq. destruct Hq as [Hq _]. apply Hold, Hcov. exists u0. split; [right; exists q; auto | exact Ht].
          -- destruct (HinsIn q Hq) as [X1 [X2 [X3 X4]]]. destruct Hu as [<-|[<-|[<-|Hu]]]; auto. eapply X4; eauto.
  Qed.

  Transparent apply_mutations.

  (* from here on: the evaluator binds variables only to terms of the dataset or constants of the WHERE clause *)
  Hypothesis eval_closed : forall w D sol v t a,
    In sol (eval_where w D) -> lookup v sol = Some t -> In a (atoms t) ->
    term_in_dataset a D \/ exists c, In c (where_terms w) /\ In a (atoms c).

  Lemma closed_for_all : forall u s, closed_for u s.
  Proof.
    intros u s sol v t a Hs Hv Ha.
    destruct u; simpl in Hs;
      try (destruct Hs as [<-|[]]; discriminate);
      (destruct (eval_closed _ _ _ _ _ _ Hs Hv Ha) as [Ht|[c [Hc Hac]]];
       [left; auto | right; eexists; exists c; split; [reflexivity|split; [exact Hc|exact Hac]]]).
  Qed.

  (* ---- a rejected operation: dataset, catalog and prefixes untouched; dictionary and counter only grow ---- *)
  Theorem exec_update_rejected : forall kwa u s s' c tbl,
    exec_update_gen kwa u s = (s', Rejected c, tbl) ->
    quads s' = quads s /\ cat s' = cat s /\ pfx s' = pfx s /\ incl (dict s) (dict s') /\ next s <= next s'.
  Proof.
    intros kwa u s s' c tbl H. unfold Model.exec_update_gen in H.
    set (D := den s) in *. set (sols := u_sols eval_where u D) in *.
    set (st1 := compile_where wh where_terms (u_where wh u) (IS (dict s) (next s))) in *.
    destruct (compile_where_mono (u_where wh u) (IS (dict s) (next s))) as [C1 [C2 _]]. fold st1 in C1, C2. simpl in C1, C2.
    destruct (m_templates kwa false D sols (u_del u) st1 []) as [[st2 tbl1] r1] eqn:E1.
    destruct (m_templates_ok _ _ _ _ _ _ _ _ _ _ (dict s) E1 C1) as [A1 [A2 _]].
    destruct r1 as [e|dels].
    - inversion H; subst; simpl. repeat split; auto. eapply incl_tran; eauto. lia.
    - destruct (m_templates kwa true D sols (u_ins u) st2 []) as [[st3 tbl2] r2] eqn:E2.
      assert (C3 : incl (dict s) (i_dict st2)) by (eapply incl_tran; eauto).
      destruct (m_templates_ok _ _ _ _ _ _ _ _ _ _ (dict s) E2 C3) as [B1 [B2 _]].
      destruct r2 as [e|inss]; inversion H; subst; simpl. repeat split; auto. eapply incl_tran; eauto. lia.
  Qed.

  Lemma wf_grow : forall s s', wf s -> quads s' = quads s -> cat s' = cat s -> incl (dict s) (dict s') -> wf s'.
  Proof.
    intros s s' [A [B C]] Hq Hc Hd. unfold wf, den in *. rewrite Hq, Hc. repeat split; auto.
  Qed.

  (* ---- acceptance ---- *)
  Lemma negb_existsb : forall {A} (f : A -> bool) l, negb (existsb f l) = forallb (fun x => negb (f x)) l.
  Proof. induction l as [|a l IH]; simpl; auto. rewrite negb_orb, IH; auto. Qed.

  Lemma parser_accepts_wf : forall u, parser_accepts wh u = well_formed u.
  Proof.
    intros u. unfold parser_accepts, well_formed, first_variable, first_blank_node, graphs_parse.
    destruct u; simpl; rewrite ?negb_orb, ?negb_existsb, ?andb_true_r; simpl;
      repeat match goal with |- context [forallb ?f ?l] => generalize (forallb f l); intro end;
      repeat match goal with b : bool |- _ => destruct b end; reflexivity.
  Qed.

  Theorem exec_update_accepts : forall kwa u s,
    parser_accepts wh u = true -> exists s' i d tbl, exec_update_gen kwa u s = (s', Done i d, tbl).
  Proof.
    intros kwa u s H. unfold Model.exec_update_gen.
    set (D := den s). set (sols := u_sols eval_where u D).
    set (st1 := compile_where wh where_terms (u_where wh u) (IS (dict s) (next s))).
    assert (Hd : forallb (fun q => negb (tq_has_bnode q)) (u_del u) = true /\ forallb tq_graph_ok (u_del u) = true /\
                 forallb tq_graph_ok (u_ins u) = true).
    { rewrite parser_accepts_wf in H. unfold well_formed in H.
      repeat (apply andb_true_iff in H; destruct H as [H ?]). auto. }
    destruct Hd as [H1 [H2 H3]].
    destruct (m_templates kwa false D sols (u_del u) st1 []) as [[st2 tbl1] r1] eqn:E1.
    destruct (m_templates_noerr _ _ _ _ _ _ _ _ _ _ (or_intror H1) H2 E1) as [dels ->].
    destruct (m_templates kwa true D sols (u_ins u) st2 []) as [[st3 tbl2] r2] eqn:E2.
    destruct (m_templates_noerr _ _ _ _ _ _ _ _ _ _ (or_introl eq_refl) H3 E2) as [inss ->].
    eauto.
  Qed.

  (* ---- requests and histories ---- *)
  Lemma add_prefixes_den : forall decl s, den (add_prefixes decl s) = den s.
  Proof. reflexivity. Qed.
  Lemma add_prefixes_wf : forall decl s, wf s -> wf (add_prefixes decl s).
  Proof. intros decl s H; exact H. Qed.

  Definition step_ok (D : dataset) (r : request wh) (o : outcome) (D' : dataset) : Prop :=
    match o with
    | Rejected _ => D' = D /\ (forall decl u, r = RText decl u -> well_formed u = false)
    | Done i d => exists u bn, (r = RTree u \/ exists decl, r = RText decl u /\ well_formed u = true) /\
                               fresh_bn bn D /\ D' = fst (spec_update eval_where u bn D) /\ (i, d) = snd (spec_update eval_where u bn D)
    end.

  Theorem exec_request_step : forall r s,
    wf s ->
    step_ok (den s) r (snd (exec_request r s)) (den (fst (exec_request r s))) /\ wf (fst (exec_request r s)).
  Proof.
    intros r s Hwf. destruct r as [|decl|decl u|u]; simpl; unfold Model.exec_update.
    - split; auto. split; auto. intros; discriminate.
    - split; auto. split; auto. intros; discriminate.
    - destruct (parser_accepts wh u) eqn:Ep.
      + destruct (exec_update_accepts rdf_type u (add_prefixes decl s) Ep) as [s' [i [d [tbl E]]]].
        rewrite E; simpl. destruct (exec_update_done _ _ _ _ _ _ _ E (add_prefixes_wf decl s Hwf)) as [F [X1 [X2 [_ [_ [_ W0]]]]]].
        pose proof (W0 (closed_for_all _ _)) as W.
        split; auto. exists u; eexists. split; [right; exists decl; split; [reflexivity | rewrite <- parser_accepts_wf; exact Ep]|].
        split; [exact F|]. split; [exact X1 | exact X2].
      + simpl. split; auto. split; auto. intros decl0 u0 E; inversion E; subst. rewrite <- parser_accepts_wf; exact Ep.
    - destruct (exec_update_gen rdf_type u s) as [[s' o] tbl] eqn:E. simpl. destruct o as [i d|c].
      + destruct (exec_update_done _ _ _ _ _ _ _ E Hwf) as [F [X1 [X2 [_ [_ [_ W0]]]]]].
        pose proof (W0 (closed_for_all _ _)) as W.
        split; auto. exists u; eexists. split; [left; reflexivity|]. split; [exact F|]. split; [exact X1 | exact X2].
      + destruct (exec_update_rejected _ _ _ _ _ _ E) as [Q [C [P [Dd N]]]].
        split; [split|].
        * unfold den; rewrite Q, C; reflexivity.
        * intros; discriminate.
        * eapply wf_grow; eauto.
  Qed.

  Theorem run_history : forall reqs s,
    wf s ->
    spec_trace eval_where (den s) (combine reqs (snd (run reqs s))) (den (fst (run reqs s))) /\
    wf (fst (run reqs s)) /\ length (snd (run reqs s)) = length reqs.
  Proof.
    induction reqs as [|r rest IH]; intros s Hwf; simpl.
    - split; [constructor | auto].
    - destruct (exec_request_step r s Hwf) as [Hstep Hwf1].
      destruct (IH _ Hwf1) as [Htr [Hwf2 Hlen]].
      split; [|split; [exact Hwf2 | simpl; rewrite Hlen; reflexivity]].
      destruct (snd (exec_request r s)) as [i d|c] eqn:Eo; unfold step_ok in Hstep.
      + destruct Hstep as [u [bn [Hr [F [X1 X2]]]]].
        apply (st_done wh eval_where (den s) r u bn i d _ _ Hr F X2). rewrite <- X1. exact Htr.
      + destruct Hstep as [X1 X2]. apply st_rejected; [exact X2|]. rewrite <- X1. exact Htr.
  Qed.

  (* ---- atomicity at request level ---- *)
  Theorem exec_request_rejected : forall r s c,
    snd (exec_request r s) = Rejected c ->
    let s' := fst (exec_request r s) in
    quads s' = quads s /\ cat s' = cat s /\ incl (dict s) (dict s') /\ next s <= next s' /\ incl (pfx s) (pfx s').
  Proof.
    intros r s c H. destruct r as [|decl|decl u|u]; simpl in *; unfold Model.exec_update in *.
    - repeat split; auto using incl_refl; lia.
    - repeat split; auto using incl_refl; try lia. intros x Hx. apply (In_union N.eqb N.eqb_spec); auto.
    - destruct (parser_accepts wh u).
      + destruct (exec_update_gen rdf_type u (add_prefixes decl s)) as [[s' o] tbl] eqn:E. simpl in *. subst o.
        destruct (exec_update_rejected _ _ _ _ _ _ E) as [Q [C [P [Dd N]]]]. simpl in *.
        repeat split; auto. rewrite P. intros x Hx. apply (In_union N.eqb N.eqb_spec); auto.
      + simpl. repeat split; auto using incl_refl; lia.
    - destruct (exec_update_gen rdf_type u s) as [[s' o] tbl] eqn:E. simpl in *. subst o.
      destruct (exec_update_rejected _ _ _ _ _ _ E) as [Q [C [P [Dd N]]]].
      repeat split; auto. rewrite P. apply incl_refl.
  Qed.

  (* ---- fresh blank nodes ---- *)
  Theorem exec_update_fresh : forall kwa u s s' o tbl,
    exec_update_gen kwa u s = (s', o, tbl) ->
    (forall i bl l t, nth_error tbl i = Some bl -> lookup l bl = Some t ->
       exists k, t = Bn k l /\ next s <= k < next s' /\ ~ In t (dict s)) /\
    (forall i i' bl bl' l l' t, nth_error tbl i = Some bl -> nth_error tbl i' = Some bl' ->
       lookup l bl = Some t -> lookup l' bl' = Some t -> i = i' /\ l = l').
  Proof.
    intros kwa u s s' o tbl H. unfold Model.exec_update_gen in H.
    set (D := den s) in *. set (sols := u_sols eval_where u D) in *.
    set (st1 := compile_where wh where_terms (u_where wh u) (IS (dict s) (next s))) in *.
    destruct (compile_where_mono (u_where wh u) (IS (dict s) (next s))) as [C1 [C2 _]]. fold st1 in C1, C2. simpl in C1, C2.
    destruct (m_templates kwa false D sols (u_del u) st1 []) as [[st2 tbl1] r1] eqn:E1.
    destruct (m_templates_ok _ _ _ _ _ _ _ _ _ _ (dict s) E1 C1) as [A1 [A2 _]].
    destruct r1 as [e|dels].
    { inversion H; subst. split; intros; destruct i; discriminate. }
    destruct (m_templates kwa true D sols (u_ins u) st2 []) as [[st3 tbl2] r2] eqn:E2.
    assert (C3 : incl (dict s) (i_dict st2)) by (eapply incl_tran; eauto).
    destruct (m_templates_ok _ _ _ _ _ _ _ _ _ _ (dict s) E2 C3) as [B1 [B2 [B3 _]]].
    assert (Hn : next s' = i_next st3 /\ tbl = tbl2) by (destruct r2; inversion H; subst; simpl; auto).
    destruct Hn as [Hn ->]. rewrite Hn. split.
    - intros i bl l t Hi Hl. destruct (ranges_entry _ _ _ _ _ _ _ _ B3 Hi Hl) as [k [E [R F]]].
      exists k. split; [exact E|]. split; [lia | exact F].
    - intros i i' bl bl' l l' t Hi Hi' Hl Hl'.
      destruct (ranges_entry _ _ _ _ _ _ _ _ B3 Hi Hl) as [k [E [R F]]].
      destruct (ranges_entry _ _ _ _ _ _ _ _ B3 Hi' Hl') as [k' [E' [R' F']]].
      subst t. inversion E'; subst k' l'. split; auto. eapply ranges_index; eauto.
  Qed.
End Main.

(* ---- the order in which a BTreeSet hands out the quads does not matter ---- *)
Lemma mem_perm : forall (l l' : list quad) y, Permutation l l' -> mem quad_eqb y l = mem quad_eqb y l'.
Proof.
  intros l l' y HP. destruct (mem quad_eqb y l') eqn:E.
  - apply (mem_In quad_eqb quad_eqb_spec). apply (mem_In quad_eqb quad_eqb_spec) in E.
    exact (Permutation_in y (Permutation_sym HP) E).
  - apply (mem_false quad_eqb quad_eqb_spec). apply (mem_false quad_eqb quad_eqb_spec) in E.
    intros H; apply E. exact (Permutation_in y HP H).
Qed.

Theorem apply_mutations_perm : forall D dels dels' inss inss',
  NoDup (dq D) -> graphs_in_cat D -> Permutation dels dels' -> Permutation inss inss' ->
  let r := apply_mutations dels inss D in
  let r' := apply_mutations dels' inss' D in
  snd r = snd r' /\ Permutation (dq (fst r)) (dq (fst r')) /\ (forall g, In g (dc (fst r)) <-> In g (dc (fst r'))).
Proof.
  intros D dels dels' inss inss' HN HG HP1 HP2. unfold apply_mutations.
  rewrite !del_fold by auto. simpl. rewrite !ins_fold. simpl.
  assert (E1 : qdiff (dq D) dels = qdiff (dq D) dels').
  { unfold qdiff, diff. apply filter_ext. intros y. rewrite (mem_perm _ _ y HP1). reflexivity. }
  rewrite <- E1. set (Q1 := qdiff (dq D) dels).
  assert (HP : Permutation (qunion Q1 inss) (qunion Q1 inss')).
  { apply NoDup_Permutation.
    - apply (NoDup_union quad_eqb quad_eqb_spec). apply NoDup_filter; auto.
    - apply (NoDup_union quad_eqb quad_eqb_spec). apply NoDup_filter; auto.
    - intros x. unfold qunion. rewrite !(In_union quad_eqb quad_eqb_spec).
      split; intros [H|H]; auto; right;
        [exact (Permutation_in x HP2 H) | exact (Permutation_in x (Permutation_sym HP2) H)]. }
  split; [|split].
  - rewrite (Permutation_length HP). reflexivity.
  - exact HP.
  - intros g. unfold tunion. rewrite !(In_union term_eqb term_eqb_spec).
    assert (X : In g (graph_names inss) <-> In g (graph_names inss')).
    { unfold graph_names. rewrite !in_flat_map. split; intros [q [Hq Hg]]; exists q; split; auto;
        [exact (Permutation_in q HP2 Hq) | exact (Permutation_in q (Permutation_sym HP2) Hq)]. }
    tauto.
Qed.

(* ---- the statements of C03.v ---- *)
Lemma step_spec :
  forall (wh : Type) (eval_where : wh -> dataset -> list solution) (where_terms : wh -> list term)
         (u : update wh) (s s' : state) (i d : N) (tbl : list blmap),
    wf s ->
    exec_update wh eval_where where_terms u s = (s', Done i d, tbl) ->
    exists bn, fresh_bn bn (den s) /\
               den s' = fst (spec_update eval_where u bn (den s)) /\
               (i, d) = snd (spec_update eval_where u bn (den s)).
Proof.
  intros wh ev wt u s s' i d tbl Hwf H.
  destruct (exec_update_done wh ev wt rdf_type u s s' i d tbl H Hwf) as [F [X1 [X2 _]]].
  exists (model_bn s s' tbl). auto.
Qed.

(* the executor with any other reading `kwa` of the keyword `a` in predicate position computes the
   Spec with that reading (kwa = a_word: the executor before the repair) *)
Lemma step_any_reading :
  forall (wh : Type) (eval_where : wh -> dataset -> list solution) (where_terms : wh -> list term)
         (kwa : term) (u : update wh) (s s' : state) (i d : N) (tbl : list blmap),
    wf s ->
    exec_update_gen wh eval_where where_terms kwa u s = (s', Done i d, tbl) ->
    exists bn, fresh_bn bn (den s) /\
               den s' = fst (spec_update_gen eval_where kwa u bn (den s)) /\
               (i, d) = snd (spec_update_gen eval_where kwa u bn (den s)).
Proof.
  intros wh ev wt kwa u s s' i d tbl Hwf H.
  destruct (exec_update_done wh ev wt kwa u s s' i d tbl H Hwf) as [F [X1 [X2 _]]].
  exists (model_bn s s' tbl). auto.
Qed.

Lemma atomic_executor :
  forall (wh : Type) (eval_where : wh -> dataset -> list solution) (where_terms : wh -> list term)
         (u : update wh) (s s' : state) (c : N) (tbl : list blmap),
    exec_update wh eval_where where_terms u s = (s', Rejected c, tbl) ->
    quads s' = quads s /\ cat s' = cat s /\ pfx s' = pfx s /\ incl (dict s) (dict s') /\ next s <= next s'.
Proof. intros wh ev wt. exact (exec_update_rejected wh ev wt rdf_type). Qed.

Lemma fresh_bnodes :
  forall (wh : Type) (eval_where : wh -> dataset -> list solution) (where_terms : wh -> list term)
         (u : update wh) (s s' : state) (o : outcome) (tbl : list blmap),
    exec_update wh eval_where where_terms u s = (s', o, tbl) ->
    (forall i bl l t, nth_error tbl i = Some bl -> lookup l bl = Some t ->
       exists k, t = Bn k l /\ next s <= k < next s' /\ ~ In t (dict s)) /\
    (forall i i' bl bl' l l' t, nth_error tbl i = Some bl -> nth_error tbl i' = Some bl' ->
       lookup l bl = Some t -> lookup l' bl' = Some t -> i = i' /\ l = l').
Proof. intros wh ev wt. exact (exec_update_fresh wh ev wt rdf_type). Qed.

Lemma atomic_request :
  forall (wh : Type) (eval_where : wh -> dataset -> list solution) (where_terms : wh -> list term)
         (r : request wh) (s : state) (c : N),
    snd (exec_request wh eval_where where_terms r s) = Rejected c ->
    let s' := fst (exec_request wh eval_where where_terms r s) in
    den s' = den s /\ incl (dict s) (dict s') /\ next s <= next s' /\ incl (pfx s) (pfx s').
Proof.
  intros wh ev wt r s c H. destruct (exec_request_rejected wh ev wt r s c H) as [Q [C [D [N P]]]].
  cbv zeta. unfold den. rewrite Q, C. auto.
Qed.

Lemma accepts_iff :
  forall (wh : Type) (eval_where : wh -> dataset -> list solution) (where_terms : wh -> list term)
         (decl : list N) (u : update wh) (s : state),
    (well_formed u = true -> exists i d, snd (exec_request wh eval_where where_terms (RText decl u) s) = Done i d) /\
    (well_formed u = false -> exists c, snd (exec_request wh eval_where where_terms (RText decl u) s) = Rejected c).
Proof.
  intros wh ev wt decl u s. simpl. unfold Model.exec_update. rewrite parser_accepts_wf. split; intros H; rewrite H.
  - destruct (exec_update_accepts wh ev wt rdf_type u (add_prefixes decl s)) as [s' [i [d [tbl E]]]].
    + rewrite parser_accepts_wf; exact H.
    + rewrite E. simpl. eauto.
  - simpl. eauto.
Qed.

Lemma history_spec :
  forall (wh : Type) (eval_where : wh -> dataset -> list solution) (where_terms : wh -> list term),
    (forall w D sol v t a, In sol (eval_where w D) -> lookup v sol = Some t -> In a (atoms t) ->
       term_in_dataset a D \/ exists c, In c (where_terms w) /\ In a (atoms c)) ->
    forall (reqs : list (request wh)) (s : state),
      wf s ->
      let res := run wh eval_where where_terms reqs s in
      spec_trace eval_where (den s) (combine reqs (snd res)) (den (fst res)) /\
      wf (fst res) /\ length (snd res) = length reqs.
Proof. intros wh ev wt Hc reqs s Hwf. exact (run_history wh ev wt Hc reqs s Hwf). Qed.
