(* Entry points used by the correspondence check: run the model and the Spec on a history and
   render every step (outcome, counts, all quads, catalog, prefixes). *)
Require Import KV.Update.Model KV.Update.Bgp.

Definition upd := update gwhere.
Definition req := request gwhere.

Definition quad_terms (q : quad) : list term :=
  [qs q; qp q; qo q] ++ match qg q with Some g => [g] | None => [] end.

(* the initial state: quads added with add_quad, empty graphs with create_graph, extra dictionary entries *)
Definition mk_state (init : list quad) (graphs seed : list term) : state :=
  let D := fold_left (fun d q => fst (insert_quad d q)) init (DS [] []) in
  St (dq D) (tunion (dc D) graphs) (tunion [] (flat_map atoms (flat_map quad_terms init ++ graphs ++ seed))) 1 [].

Definition r_outcome (o : outcome) : N * N * N :=
  match o with Done i d => (0, i, d) | Rejected c => (c, 0, 0) end.

Fixpoint model_steps (reqs : list req) (s : state) : list (N * N * N * list quad * list term * list N) :=
  match reqs with
  | [] => []
  | r :: rest =>
    let x := exec_request gwhere eval_gwhere gwhere_terms r s in
    (r_outcome (snd x), quads (fst x), cat (fst x), pfx (fst x)) :: model_steps rest (fst x)
  end.
Definition model_run (init : list quad) (graphs seed : list term) (reqs : list req) :=
  model_steps reqs (mk_state init graphs seed).

(* the Spec, step by step, with a canonical fresh blank-node assignment for step k;
   for RTree requests the flag says whether the executor accepted the tree *)
Definition spec_bn (k : N) : nat -> N -> term := fun i l => Bn (1000000 * (k + 1) + N.of_nat i) l.
Fixpoint spec_steps (k : N) (reqs : list (req * bool)) (D : dataset) : list (bool * N * N * list quad * list term) :=
  match reqs with
  | [] => []
  | (r, flag) :: rest =>
    let acc := match r with
               | RText _ u => if well_formed u then Some u else None
               | RTree u => if flag then Some u else None
               | _ => None
               end in
    match acc with
    | None => (false, 0, 0, dq D, dc D) :: spec_steps (k + 1) rest D
    | Some u =>
      let x := spec_update eval_gwhere u (spec_bn k) D in
      (true, fst (snd x), snd (snd x), dq (fst x), dc (fst x)) :: spec_steps (k + 1) rest (fst x)
    end
  end.
Definition spec_run (init : list quad) (graphs seed : list term) (reqs : list (req * bool)) :=
  spec_steps 0 reqs (den (mk_state init graphs seed)).

(* the operation tree of `DELETE WHERE { quads }` *)
Definition dws (qs : list tquad) : upd := DeleteWhereShort qs (short_where qs).
