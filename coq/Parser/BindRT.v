(* C16 deepening (2): BIND ( fname ( arg, ... ) AS ?v ) as a group-pattern item. *)
Require Import List NArith Bool PeanoNat Lia ZifyBool ZifyN.
Require Import KV.Parser.Utf8 KV.Parser.Unicode KV.Parser.Keywords KV.Parser.Scanners KV.Parser.Grammar.
Require Import KV.Parser.Utf8Proofs KV.Parser.ScannerProofs KV.Parser.GrammarProofs.
Require Import KV.Parser.RoundTrip KV.Parser.RoundTrip2 KV.Parser.RoundTrip3 KV.Parser.Lex KV.Parser.StmtRT KV.Parser.FilterRT KV.Parser.FilterRT2 KV.Parser.SelectRT.
Import ListNotations.
Open Scope N_scope.

(* ---- identifiers (nom take_while1 over alphanumerics, `_`, `-`) ----------------------------------------------------- *)
Definition idc (c : N) : bool := is_alphanumeric c || (c =? 95) || (c =? 45).
Definition id_stop (rest : str) : Prop := match next_char rest with Some (c, _) => idc c = false | None => True end.

Lemma ident_loop_exact : forall cs fuel acc rest, Forall scalar cs -> Forall (fun c => idc c = true) cs -> id_stop rest ->
  (length (encode cs ++ rest) <= fuel)%nat -> ident_loop fuel (encode cs ++ rest) acc = (acc + length (encode cs))%nat.
Proof.
  induction cs as [|c cs IH]; intros fuel acc rest Hs Hc Hst Hl.
  - cbn [encode app length]. rewrite Nat.add_0_r. destruct fuel; [reflexivity|]. cbn [ident_loop].
    unfold id_stop in Hst. destruct (next_char rest) as [[c n]|]; [|reflexivity]. cbv beta iota in Hst. unfold idc in Hst. now rewrite Hst.
  - inversion Hs as [|? ? Hsc Hs']; subst. inversion Hc as [|? ? Hvc Hc']; subst. cbn [encode] in *. rewrite <- app_assoc in *.
    destruct fuel as [|f]; [rewrite app_length, encode_char_len in Hl; pose proof (len_utf8_pos c); lia|].
    cbn [ident_loop]. rewrite next_char_encode by now apply scalar_lt. unfold idc in Hvc. rewrite Hvc.
    rewrite <- encode_char_len, skipn_app, skipn_all, Nat.sub_diag. cbn [skipn app].
    rewrite IH; try assumption.
    + rewrite app_length. lia.
    + rewrite !app_length in *. rewrite encode_char_len in Hl. pose proof (len_utf8_pos c). lia.
Qed.

Lemma identifier_rt : forall cs rest, cs <> [] -> Forall scalar cs -> Forall (fun c => idc c = true) cs -> Valid rest -> id_stop rest ->
  identifier (encode cs ++ rest) = Ok (encode cs, rest).
Proof.
  intros cs rest Hne Hs Hc Hr Hst. unfold identifier. rewrite ident_loop_exact by (try assumption; lia). cbn [Nat.add].
  assert (Hlen : (1 <= length (encode cs))%nat).
  { destruct cs as [|c cs]; [congruence|]. cbn [encode]. rewrite app_length, encode_char_len. pose proof (len_utf8_pos c). lia. }
  destruct (Nat.eqb_spec (length (encode cs)) 0); [lia|]. apply split_at_app; [now apply valid_encode|assumption].
Qed.
Lemma name_stop_id : forall r, name_stop r -> id_stop r.
Proof.
  intros r H. unfold name_stop, id_stop in *. destruct (next_char r) as [[c n]|]; [|exact I]. unfold name_character in H. unfold idc.
  apply orb_false_iff in H. now destruct H.
Qed.

(* ---- arguments: variable | quoted literal (its quotes are dropped) | number ----------------------------------------------- *)
Definition is_bind_kind (t : Term) : bool := match t with TVar _ _ | TLit _ _ | TNum _ _ _ => true | _ => false end.
Definition barg_text (t : Term) : str := match t with TLit _ items => lit_body items | _ => term_text t end.
Definition wf_barg (o : OTok) (following : str) : bool :=
  lay_okb (olay o) && term_okb (oterm o) && is_bind_kind (oterm o) && term_stopb (oterm o) following.
Fixpoint wf_bargs (ms : list OMore) (following : str) : bool :=
  match ms with
  | [] => true
  | m :: t => lay_okb (clay m) && wf_barg (om m) (pr_oms t ++ following) && wf_bargs t following
  end.
Lemma wf_barg_parts : forall o f, wf_barg o f = true ->
  lay_okb (olay o) = true /\ term_okb (oterm o) = true /\ is_bind_kind (oterm o) = true /\ term_stopb (oterm o) f = true.
Proof. intros o f H. unfold wf_barg in H. repeat (apply andb_true_iff in H; destruct H as [H ?]). auto. Qed.
Lemma barg_valid : forall o f, wf_barg o f = true -> Valid (pr_o o).
Proof. intros o f H. destruct (wf_barg_parts _ _ H) as (Hl & Ht & _). apply valid_app; [now apply lay_valid|now apply term_valid]. Qed.
Lemma bargs_valid : forall ms f, wf_bargs ms f = true -> Valid (pr_oms ms).
Proof.
  induction ms as [|m t IH]; intros f H; [apply valid_nil|]. cbn [wf_bargs] in H. repeat (apply andb_true_iff in H; destruct H as [H ?]).
  cbn [pr_oms flat_map]. apply valid_app; [|eapply IH; eassumption]. unfold pr_om.
  apply valid_app; [now apply lay_valid|]. apply (valid_app [44]); [apply valid_ascii; repeat constructor; lia|eapply barg_valid; eassumption].
Qed.

Lemma ends_with_snoc : forall q x, ends_with_byte q (x ++ [q]) = true.
Proof. intros q x. unfold ends_with_byte. rewrite rev_app_distr. cbn. apply N.eqb_refl. Qed.

Theorem bind_argument_ok : forall t w rest, term_okb t = true -> is_bind_kind t = true -> term_stopb t rest = true -> LayoutC w -> Valid rest ->
  bind_argument (w ++ term_text t ++ rest) = Ok (barg_text t, rest).
Proof.
  intros t w rest Hok Hk Hst Hw Hr. pose proof (term_scan_ok t w rest Hok Hst Hw Hr) as Sc.
  destruct (skip_head t w rest Hok Hw Hr) as (b & tl & Esk & Etx & Hf & Vx).
  unfold bind_argument. destruct t as [sigil cs|items|q items|sign ds1 frac|p items|c0 cs|bb]; try discriminate Hk; cbn [head_fact term_scan barg_text] in *.
  - now rewrite Sc.
  - destruct (variable_err_b _ _ _ Vx Esk ltac:(lia) ltac:(lia)) as (? & ? & ? & ->). cbn [orelse]. rewrite Sc.
    cbn [term_okb] in Hok. apply andb_true_iff in Hok. destruct Hok as [Hq Hi]. assert (Hq' : q = 34 \/ q = 39) by lia.
    pose proof (lit_body_valid q items (lit_items_ok q items Hi)) as Vb.
    assert (Vq : Valid [q]) by (apply valid_ascii; repeat constructor; lia).
    cbn [term_text]. change (q :: lit_body items ++ [q]) with ([q] ++ lit_body items ++ [q]).
    assert (Sl : slice ([q] ++ lit_body items ++ [q]) 1 (length ([q] ++ lit_body items ++ [q]) - 1) = Some (lit_body items)).
    { rewrite slice_bnd.
      - rewrite !app_length. cbn [length]. replace (1 + (length (lit_body items) + 1) - 1 - 1)%nat with (length (lit_body items)) by lia.
        cbn [app skipn]. rewrite firstn_app, firstn_all, Nat.sub_diag. cbn [firstn]. now rewrite app_nil_r.
      - apply (valid_app_bnd [q]); [assumption|now apply valid_app].
      - rewrite !app_length. cbn [length]. replace (1 + (length (lit_body items) + 1) - 1)%nat with (length ([q] ++ lit_body items)) by (rewrite app_length; cbn; lia).
        rewrite app_assoc. apply valid_app_bnd; [now apply valid_app|assumption].
      - rewrite !app_length. cbn [length]. lia. }
    assert (Cond : (starts_with [34] ([q] ++ lit_body items ++ [q]) && ends_with_byte 34 ([q] ++ lit_body items ++ [q])
                    || starts_with [39] ([q] ++ lit_body items ++ [q]) && ends_with_byte 39 ([q] ++ lit_body items ++ [q])) = true).
    { assert (SN : forall x : str, starts_with [] x = true) by (intros [|? ?]; reflexivity).
      rewrite app_assoc. destruct Hq'; subst q; rewrite ends_with_snoc; cbn [app starts_with]; rewrite ?N.eqb_refl, ?SN; cbn [andb orb]; rewrite ?orb_true_r; reflexivity. }
    rewrite Cond, Sl. reflexivity.
  - assert (Hb : b <> 63 /\ b <> 36 /\ b <> 39 /\ b <> 34) by (unfold is_ascii_digit in Hf; lia).
    destruct (variable_err_b _ _ _ Vx Esk ltac:(lia) ltac:(lia)) as (? & ? & ? & ->). cbn [orelse].
    destruct (quoted_literal_err _ _ _ Esk ltac:(lia) ltac:(lia)) as (? & ? & ? & ->). exact Sc.
Qed.

Lemma bind_args_loop_rt : forall ms fuel o rest acc,
  wf_barg o (pr_oms ms ++ rest) = true -> wf_bargs ms rest = true -> Valid rest -> no_lead 44 rest -> (length ms < fuel)%nat ->
  bind_args_loop fuel (pr_o o ++ pr_oms ms ++ rest) acc
  = Ok (acc ++ map (fun x => barg_text (oterm x)) (o :: map om ms), skip_ws rest).
Proof.
  induction ms as [|m t IH]; intros fuel o rest acc Ho Hms Hr Hn Hf.
  - destruct fuel as [|f]; [cbn in Hf; lia|]. cbn [bind_args_loop pr_oms flat_map app map] in *.
    destruct (wf_barg_parts _ _ Ho) as (Hl & Ht & Hk & Hs). unfold pr_o. rewrite <- app_assoc.
    rewrite (bind_argument_ok (oterm o) _ rest Ht Hk Hs (lay_ok _ Hl) Hr). cbn [bind].
    unfold no_lead in Hn. rewrite Hn. reflexivity.
  - destruct fuel as [|f]; [cbn in Hf; lia|]. cbn [bind_args_loop].
    cbn [wf_bargs] in Hms. repeat (apply andb_true_iff in Hms; destruct Hms as [Hms ?]).
    assert (Vt : Valid (pr_oms t ++ rest)) by (apply valid_app; [eapply bargs_valid; eassumption|assumption]).
    assert (Vm : Valid (pr_o (om m) ++ pr_oms t ++ rest)) by (apply valid_app; [eapply barg_valid; eassumption|assumption]).
    assert (Vall : Valid (pr_oms (m :: t) ++ rest)).
    { cbn [pr_oms flat_map]. unfold pr_om. rewrite <- !app_assoc. apply valid_app; [now apply lay_valid|].
      apply (valid_app [44]); [apply valid_ascii; repeat constructor; lia|exact Vm]. }
    destruct (wf_barg_parts _ _ Ho) as (Hl & Ht & Hk & Hs). unfold pr_o at 1. rewrite <- app_assoc.
    rewrite (bind_argument_ok (oterm o) _ _ Ht Hk Hs (lay_ok _ Hl) Vall). cbn [bind].
    rewrite (comma_next m t rest Hms Vm).
    rewrite (IH f (om m) rest (acc ++ [barg_text (oterm o)]) H0 H Hr Hn ltac:(cbn in Hf; lia)).
    rewrite <- app_assoc. reflexivity.
Qed.

(* ---- BIND ( fname ( args ) AS ?v ) ------------------------------------------------------------------------------------------------ *)
Record BindC := { bd_kl : L; bd_kw : str; bd_l1 : L; bd_lf : L; bd_fn : list N; bd_l2 : L; bd_a1 : OTok; bd_more : list OMore; bd_l3 : L;
                  bd_las : L; bd_askw : str; bd_v : OTok; bd_l4 : L }.
Definition pr_bind (b : BindC) : str :=
  lay_bytes (bd_kl b) ++ bd_kw b ++ lay_bytes (bd_l1 b) ++ 40 :: lay_bytes (bd_lf b) ++ encode (bd_fn b) ++ lay_bytes (bd_l2 b) ++ 40 ::
  pr_o (bd_a1 b) ++ pr_oms (bd_more b) ++ lay_bytes (bd_l3 b) ++ 41 :: lay_bytes (bd_las b) ++ bd_askw b ++ pr_o (bd_v b) ++ lay_bytes (bd_l4 b) ++ [41].
Definition bind_fname (fn : str) : str := if eq_ignore_ascii_case fn lit_concat then lit_CONCAT else fn.
Definition tr_bind (b : BindC) : group :=
  GBind (bind_fname (encode (bd_fn b))) (map (fun x => barg_text (oterm x)) (bd_a1 b :: map om (bd_more b))) (var_text (bd_v b)).
Definition wf_bind (b : BindC) (following : str) : bool :=
  lay_okb (bd_kl b) && kwcaseb kw_bind (bd_kw b) && lay_okb (bd_l1 b) && lay_okb (bd_lf b)
  && nonempty (bd_fn b) && forallb scalarb (bd_fn b) && forallb idc (bd_fn b) && lay_okb (bd_l2 b)
  && wf_barg (bd_a1 b) (pr_oms (bd_more b) ++ lay_bytes (bd_l3 b) ++ 41 :: lay_bytes (bd_las b) ++ bd_askw b ++ pr_o (bd_v b) ++ lay_bytes (bd_l4 b) ++ 41 :: following)
  && wf_bargs (bd_more b) (lay_bytes (bd_l3 b) ++ 41 :: lay_bytes (bd_las b) ++ bd_askw b ++ pr_o (bd_v b) ++ lay_bytes (bd_l4 b) ++ 41 :: following)
  && lay_okb (bd_l3 b) && wf_kw kw_as (bd_askw b) (bd_las b) (pr_o (bd_v b) ++ lay_bytes (bd_l4 b) ++ 41 :: following)
  && wf_var (bd_v b) (lay_bytes (bd_l4 b) ++ 41 :: following) && lay_okb (bd_l4 b).

Lemma idc_not_layout : forall c x, scalar c -> idc c = true -> ~ starts_layout (encode_char c ++ x).
Proof.
  intros c x Hs Hc. unfold starts_layout. rewrite next_char_encode by now apply scalar_lt. intros [Hw|H35].
  - pose proof (ws_not_name c Hw) as Hn. unfold name_character in Hn. unfold idc in Hc. rewrite Hc in Hn. discriminate.
  - subst c. vm_compute in Hc. discriminate.
Qed.

Lemma bind_parts_valid : forall b f, wf_bind b f = true ->
  Valid (pr_bind b) /\
  Valid (lay_bytes (bd_l1 b) ++ 40 :: lay_bytes (bd_lf b) ++ encode (bd_fn b) ++ lay_bytes (bd_l2 b) ++ 40 ::
         pr_o (bd_a1 b) ++ pr_oms (bd_more b) ++ lay_bytes (bd_l3 b) ++ 41 :: lay_bytes (bd_las b) ++ bd_askw b ++ pr_o (bd_v b) ++ lay_bytes (bd_l4 b) ++ [41]).
Proof.
  intros b f H. unfold wf_bind in H.
  apply andb_true_iff in H. destruct H as [H Hl4]. apply andb_true_iff in H. destruct H as [H Hv]. apply andb_true_iff in H. destruct H as [H Has].
  apply andb_true_iff in H. destruct H as [H Hl3]. apply andb_true_iff in H. destruct H as [H Hmore]. apply andb_true_iff in H. destruct H as [H Ha1].
  repeat (apply andb_true_iff in H; destruct H as [H ?]).
  assert (V2 : Valid (lay_bytes (bd_l1 b) ++ 40 :: lay_bytes (bd_lf b) ++ encode (bd_fn b) ++ lay_bytes (bd_l2 b) ++ 40 ::
         pr_o (bd_a1 b) ++ pr_oms (bd_more b) ++ lay_bytes (bd_l3 b) ++ 41 :: lay_bytes (bd_las b) ++ bd_askw b ++ pr_o (bd_v b) ++ lay_bytes (bd_l4 b) ++ [41])).
  { apply valid_app; [now apply lay_valid|]. apply v1; [lia|]. apply valid_app; [now apply lay_valid|].
    apply valid_app; [apply valid_encode; now apply scalars_F|]. apply valid_app; [now apply lay_valid|]. apply v1; [lia|].
    apply valid_app; [eapply barg_valid; eassumption|]. apply valid_app; [eapply bargs_valid; eassumption|].
    apply valid_app; [now apply lay_valid|]. apply v1; [lia|]. rewrite app_assoc. apply valid_app; [eapply wf_kw_valid; [|eassumption]; kw_a|].
    apply valid_app; [eapply var_valid; eassumption|]. apply valid_app; [now apply lay_valid|apply valid_ascii; repeat constructor; lia]. }
  split; [|exact V2]. unfold pr_bind. apply valid_app; [now apply lay_valid|]. apply valid_app; [eapply (kw_valid kw_bind); [kw_a|eassumption]|exact V2].
Qed.

Theorem bind_rt : forall b rest, wf_bind b rest = true -> Valid rest ->
  bind_clause (pr_bind b ++ rest) =
  Ok ((bind_fname (encode (bd_fn b)), map (fun x => barg_text (oterm x)) (bd_a1 b :: map om (bd_more b)), var_text (bd_v b)), rest).
Proof.
  intros b rest H Hr. unfold wf_bind in H.
  apply andb_true_iff in H. destruct H as [H Hl4]. apply andb_true_iff in H. destruct H as [H Hv]. apply andb_true_iff in H. destruct H as [H Has].
  apply andb_true_iff in H. destruct H as [H Hl3]. apply andb_true_iff in H. destruct H as [H Hmore]. apply andb_true_iff in H. destruct H as [H Ha1].
  apply andb_true_iff in H. destruct H as [H Hl2]. apply andb_true_iff in H. destruct H as [H Hidc]. apply andb_true_iff in H. destruct H as [H Hsc].
  apply andb_true_iff in H. destruct H as [H Hne]. apply andb_true_iff in H. destruct H as [H Hlf]. apply andb_true_iff in H. destruct H as [H Hl1].
  apply andb_true_iff in H. destruct H as [Hkl Hkw].
  set (T7 := lay_bytes (bd_l4 b) ++ 41 :: rest) in *. set (T6 := pr_o (bd_v b) ++ T7) in *.
  set (T5 := lay_bytes (bd_las b) ++ bd_askw b ++ T6) in *. set (T4 := lay_bytes (bd_l3 b) ++ 41 :: T5) in *.
  set (T3 := pr_o (bd_a1 b) ++ pr_oms (bd_more b) ++ T4). set (T2 := lay_bytes (bd_l2 b) ++ 40 :: T3).
  set (T1 := lay_bytes (bd_lf b) ++ encode (bd_fn b) ++ T2). set (T0 := lay_bytes (bd_l1 b) ++ 40 :: T1).
  assert (E0 : pr_bind b ++ rest = lay_bytes (bd_kl b) ++ bd_kw b ++ T0).
  { unfold pr_bind, T0, T1, T2, T3, T4, T5, T6, T7. repeat first [rewrite <- app_assoc | progress cbn [app]]. reflexivity. }
  assert (V7 : Valid T7) by (apply valid_app; [now apply lay_valid|now apply v1]).
  assert (V6 : Valid T6) by (apply valid_app; [eapply var_valid; eassumption|assumption]).
  assert (V5 : Valid T5) by (unfold T5; rewrite app_assoc; apply valid_app; [eapply wf_kw_valid; [|eassumption]; kw_a|assumption]).
  assert (V4 : Valid T4) by (apply valid_app; [now apply lay_valid|now apply v1]).
  assert (V3m : Valid (pr_oms (bd_more b) ++ T4)) by (apply valid_app; [eapply bargs_valid; eassumption|assumption]).
  assert (V3 : Valid T3) by (apply valid_app; [eapply barg_valid; eassumption|assumption]).
  assert (V2 : Valid T2) by (apply valid_app; [now apply lay_valid|now apply v1]).
  assert (VF : Valid (encode (bd_fn b) ++ T2)) by (apply valid_app; [apply valid_encode; now apply scalars_F|assumption]).
  assert (V1 : Valid T1) by (apply valid_app; [now apply lay_valid|assumption]).
  assert (V0 : Valid T0) by (apply valid_app; [now apply lay_valid|now apply v1]).
  assert (Ns0 : name_stop T0) by (apply name_stop_layout; [now apply lay_ok|unfold name_stop; cbn; reflexivity]).
  assert (Ns2 : name_stop T2) by (apply name_stop_layout; [now apply lay_ok|unfold name_stop; cbn; reflexivity]).
  rewrite E0. unfold bind_clause.
  rewrite (kw_rt kw_bind (bd_kw b) (bd_kl b) T0 ltac:(kw_a) eq_refl Hkw Hkl V0 Ns0). cbn [bind].
  unfold T0. rewrite schar_roundtrip by (try assumption; try lia; try reflexivity; now apply lay_ok). cbn [bind].
  assert (Esk : skip_ws T1 = encode (bd_fn b) ++ T2).
  { apply skip_ws_closed; [now apply lay_ok|assumption|]. destruct (bd_fn b) as [|c cs]; [discriminate|]. cbn [encode]. rewrite <- app_assoc.
    cbn [forallb] in Hsc, Hidc. apply andb_true_iff in Hsc, Hidc. destruct Hsc, Hidc. now apply idc_not_layout. }
  rewrite Esk.
  rewrite (identifier_rt (bd_fn b) T2); try assumption.
  2:{ destruct (bd_fn b); [discriminate|congruence]. }
  2:{ now apply scalars_F. }
  2:{ now apply forallb_Forall in Hidc. }
  2:{ now apply name_stop_id. }
  cbn [bind]. unfold T2. rewrite schar_roundtrip by (try assumption; try lia; try reflexivity; now apply lay_ok). cbn [bind].
  unfold T3. rewrite (bind_args_loop_rt (bd_more b) _ (bd_a1 b) T4 [] Ha1 Hmore V4).
  - cbn [bind app]. unfold T4. rewrite lead_skip by (try assumption; try lia; reflexivity).
    pose proof (schar_roundtrip 41 [] T5 ltac:(lia) eq_refl ltac:(lia) (LC_end [] W_nil) V5) as Sc. cbn [app] in Sc. rewrite Sc. cbn [bind].
    unfold T5. rewrite (wf_kw_rt kw_as _ _ _ ltac:(kw_a) eq_refl Has V6). cbn [bind].
    unfold T6. rewrite (var_rt _ _ Hv V7). cbn [bind]. unfold T7.
    rewrite schar_roundtrip by (try assumption; try lia; try reflexivity; now apply lay_ok). reflexivity.
  - unfold no_lead, T4. rewrite lead_skip by (try assumption; try lia; reflexivity). reflexivity.
  - rewrite !app_length. pose proof (oms_length (bd_more b)). cbn [length]. lia.
Qed.
