(* Keyword and literal byte strings used by the grammar model (kept apart so that Coq's `String` library,
   whose `length` would shadow the list one, is imported only here).  Definitions only. *)
Require Import List NArith String Ascii.
Import ListNotations.
Open Scope N_scope.

Fixpoint bs (s : string) : list N :=
  match s with
  | EmptyString => []
  | String a t => N_of_ascii a :: bs t
  end.

Definition kw_true := bs "true".
Definition kw_false := bs "false".
Definition kw_graph := bs "GRAPH".
Definition kw_union := bs "UNION".
Definition kw_istriple := bs "isTRIPLE".
Definition kw_triple := bs "TRIPLE".
Definition kw_subject := bs "SUBJECT".
Definition kw_predicate := bs "PREDICATE".
Definition kw_object := bs "OBJECT".
Definition kw_filter := bs "FILTER".
Definition kw_bind := bs "BIND".
Definition kw_as := bs "AS".
Definition kw_undef := bs "UNDEF".
Definition kw_values := bs "VALUES".
Definition kw_sum := bs "SUM".
Definition kw_min := bs "MIN".
Definition kw_max := bs "MAX".
Definition kw_avg := bs "AVG".
Definition kw_group := bs "GROUP".
Definition kw_by := bs "BY".
Definition kw_order := bs "ORDER".
Definition kw_asc := bs "ASC".
Definition kw_desc := bs "DESC".
Definition kw_limit := bs "LIMIT".
Definition kw_select := bs "SELECT".
Definition kw_distinct := bs "DISTINCT".
Definition kw_from := bs "FROM".
Definition kw_named := bs "NAMED".
Definition kw_where := bs "WHERE".
Definition kw_insert := bs "INSERT".
Definition kw_delete := bs "DELETE".
Definition kw_data := bs "DATA".
Definition kw_prefix := bs "PREFIX".
Definition lit_concat := bs "concat".
Definition lit_CONCAT := bs "CONCAT".
Definition lit_VAR := bs "VAR".
