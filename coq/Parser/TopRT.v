(* C16 deepening: whole requests - SELECT queries up to the end of input, through both entry points. *)
Require Import List NArith Bool PeanoNat Lia ZifyBool ZifyN.
Require Import KV.Parser.Utf8 KV.Parser.Unicode KV.Parser.Keywords KV.Parser.Scanners KV.Parser.Grammar.
Require Import KV.Parser.Utf8Proofs KV.Parser.ScannerProofs KV.Parser.GrammarProofs.
Require Import KV.Parser.RoundTrip KV.Parser.RoundTrip2 KV.Parser.RoundTrip3 KV.Parser.Lex KV.Parser.StmtRT KV.Parser.FilterRT KV.Parser.FilterRT2 KV.Parser.SelectRT KV.Parser.GroupRT KV.Parser.PrologueRT.
Import ListNotations.
Open Scope N_scope.

(* ---- what may follow the request: layout, possibly ending in a comment without end of line --------------------------- *)
Record EndC := { e_lay : L; e_comment : option (list N) }.
Definition pr_end (e : EndC) : str := lay_bytes (e_lay e) ++ match e_comment e with Some body => 35 :: encode body | None => [] end.
Definition wf_end (e : EndC) : bool :=
  lay_okb (e_lay e) && match e_comment e with Some body => forallb (fun c => scalarb c && negb (c =? 10) && negb (c =? 13)) body | None => true end.

Lemma end_layout : forall e, wf_end e = true -> LayoutEnd (pr_end e).
Proof.
  intros [l c] H. unfold wf_end, pr_end in *. cbn [e_lay e_comment] in *. apply andb_true_iff in H. destruct H as [Hl Hc].
  exists (lay_bytes l). split; [now apply lay_ok|]. destruct c as [body|]; [right|left; now rewrite app_nil_r].
  exists (encode body). 
  assert (Hs : Forall scalar body /\ Forall (fun c => c <> 10 /\ c <> 13) body).
  { rewrite forallb_forall in Hc. split; apply Forall_forall; intros c Hin; specialize (Hc c Hin);
      apply andb_true_iff in Hc; destruct Hc as [Hc H13]; apply andb_true_iff in Hc; destruct Hc as [Hsc H10].
    - exact Hsc.
    - apply negb_true_iff in H10, H13. split; intro; subst; discriminate. }
  destruct Hs as [Hs Hn]. split; [now apply encode_no_eol|]. split; [now apply valid_encode|reflexivity].
Qed.
Lemma end_facts : forall e, wf_end e = true -> skip_ws (pr_end e) = [] /\ Valid (pr_end e).
Proof. intros e H. apply layout_end_skip. now apply end_layout. Qed.

Lemma select_core_skip : forall f a x, Valid x -> select_core f a (skip_ws x) = select_core f a x.
Proof. intros [|f] a x Hv; [reflexivity|]. rewrite !select_core_S. now rewrite keyword_skip. Qed.

Lemma finish_rest : forall (A : Type) ob lm x (a : A), Valid x -> skip_ws x = [] -> finish (sel_rest ob lm x) a = Ok a.
Proof.
  intros A ob lm x a Hv E. unfold finish, sel_rest. destruct ob, lm; rewrite ?skip_ws_idem by assumption; now rewrite E.
Qed.

(* the request starts (after layout) with a SELECT keyword *)
Lemma sel_keyword : forall q allow x, wf_sel q allow x = true -> Valid x -> exists m r, keyword kw_select (pr_sel q ++ x) = Ok (m, r).
Proof.
  intros q allow x H Hx. pose proof (proj2 (proj2 (proj2 (proj2 (proj2 group_rt)))) q (sz_sel q) allow x (le_n _) H Hx) as Sq.
  destruct q as [sl skw dist proj froms wh p gb ob lm]. cbn [sz_sel] in Sq. rewrite select_core_S in Sq.
  destruct (keyword kw_select (pr_sel (MkSel sl skw dist proj froms wh p gb ob lm) ++ x)) as [[m r]| | |]; try discriminate. eauto.
Qed.
Lemma sel_head_letter : forall q allow x, wf_sel q allow x = true -> Valid x ->
  exists b t, skip_ws (pr_sel q ++ x) = b :: t /\ ascii_lower b = 115.
Proof.
  intros q allow x H Hx. assert (VQ : Valid (pr_sel q ++ x)) by (apply valid_app; [eapply sel_valid; eexists; eassumption|assumption]).
  destruct q as [sl skw dist proj froms wh p gb ob lm]. cbn [wf_sel pr_sel] in *. cbv zeta in H.
  do 8 (apply andb_true_iff in H; destruct H as [H _]). unfold wf_kw in H. apply andb_true_iff in H. destruct H as [H _]. apply andb_true_iff in H. destruct H as [Hsl Hk].
  destruct (kwcase_first _ _ _ _ Hk eq_refl eq_refl) as (b & t & Etxt & Lb & Hlow). destruct (letter_facts b Lb) as (Hb & Hw & H65).
  rewrite Etxt in *. repeat first [rewrite <- app_assoc | progress cbn [app]]. repeat first [rewrite <- app_assoc in VQ | progress cbn [app] in VQ].
  eexists b, _. split; [|exact Hlow]. apply lead_skip; try assumption; try lia.
  destruct (valid_split_ascii _ _ _ VQ Hb) as (_ & Vb & _). now destruct (valid_ascii_head _ _ Vb Hb) as (_ & _ & ?).
Qed.

(* ---- the prologue ------------------------------------------------------------------------------------------------------------ *)
Definition pr_prologue (ps : list PrefixC) : str := flat_map pr_prefix ps.
Definition tr_prologue (ps : list PrefixC) (m : list (str * str)) : list (str * str) :=
  fold_left (fun m c => map_insert (encode (px_p c)) (iri_body (px_iri c)) m) ps m.
Lemma prologue_valid : forall ps, forallb wf_prefix ps = true -> Valid (pr_prologue ps).
Proof.
  induction ps as [|c t IH]; intros H; [apply valid_nil|]. cbn [forallb pr_prologue flat_map] in *. apply andb_true_iff in H. destruct H.
  apply valid_app; [now apply prefix_valid|now apply IH].
Qed.
Lemma prologue_length : forall ps, forallb wf_prefix ps = true -> (length ps <= length (pr_prologue ps))%nat.
Proof.
  induction ps as [|c t IH]; intros H; [cbn; lia|]. cbn [forallb pr_prologue flat_map length] in *. apply andb_true_iff in H. destruct H as [H1 H2].
  specialize (IH H2). rewrite app_length. fold (pr_prologue t).
  assert (1 <= length (pr_prefix c))%nat by (unfold pr_prefix, px_iri_text; repeat first [rewrite app_length | progress cbn [length]]; lia). lia.
Qed.
Lemma prefixes_loop_rt : forall ps fuel m rest, (length ps < fuel)%nat -> forallb wf_prefix ps = true -> Valid rest -> is_err (keyword kw_prefix rest) ->
  prefixes_loop fuel (pr_prologue ps ++ rest) m = Ok (tr_prologue ps m, rest).
Proof.
  induction ps as [|c t IH]; intros fuel m rest Hf H Hr He; (destruct fuel as [|f]; [cbn in Hf; lia|]); cbn [prefixes_loop].
  - cbn [pr_prologue flat_map app tr_prologue fold_left]. now rewrite (starts_keyword_false _ _ He).
  - cbn [forallb pr_prologue flat_map tr_prologue fold_left] in *. fold (pr_prologue t) in *. apply andb_true_iff in H. destruct H as [Hc Ht]. rewrite <- app_assoc.
    assert (VT : Valid (pr_prologue t ++ rest)) by (apply valid_app; [now apply prologue_valid|assumption]).
    pose proof (prefix_rt c _ Hc VT) as Pr.
    assert (Kp : exists mm r, keyword kw_prefix (pr_prefix c ++ pr_prologue t ++ rest) = Ok (mm, r)).
    { unfold prefix_declaration in Pr. destruct (keyword kw_prefix (pr_prefix c ++ pr_prologue t ++ rest)) as [[mm r]| | |]; try discriminate. eauto. }
    destruct Kp as (mm & r & Kp). rewrite (starts_keyword_true _ _ _ _ Kp). cbn [bind]. rewrite Pr. cbn [bind fst snd].
    apply IH; try assumption. cbn in Hf. lia.
Qed.

Theorem query_roundtrip : forall ps q e fuel, (sz_sel q <= fuel)%nat -> forallb wf_prefix ps = true -> wf_sel q true (pr_end e) = true -> wf_end e = true ->
  parse_sparql_query fuel (pr_prologue ps ++ pr_sel q ++ pr_end e) = Ok (tr_sel q).
Proof.
  intros ps q e fuel Hf Hps H He. destruct (end_facts e He) as [Ee Ve].
  assert (VQ : Valid (pr_sel q ++ pr_end e)) by (apply valid_app; [eapply sel_valid; eexists; eassumption|assumption]).
  pose proof (proj2 (proj2 (proj2 (proj2 (proj2 group_rt)))) q fuel true _ Hf H Ve) as Sq.
  destruct (sel_head_letter q true _ H Ve) as (b & t & Esk & Hlow).
  unfold parse_sparql_query, sparql_prefixes.
  rewrite (prefixes_loop_rt ps _ [] _); try assumption.
  - cbn [bind]. rewrite Sq. cbn [bind]. destruct q. now apply finish_rest.
  - rewrite app_length. pose proof (prologue_length ps Hps). lia.
  - apply (keyword_fail kw_prefix _ _ _ b t eq_refl Esk). rewrite Hlow. cbv. discriminate.
Qed.

Theorem top_select_roundtrip : forall ps q e fuel aliases, (sz_sel q <= fuel)%nat -> forallb wf_prefix ps = true -> wf_sel q true (pr_end e) = true -> wf_end e = true ->
  parse_top fuel aliases (pr_prologue ps ++ pr_sel q ++ pr_end e) = Ok (TSelect (tr_prologue ps []) (tr_sel q)).
Proof.
  intros ps q e fuel aliases Hf Hps H He. destruct (end_facts e He) as [Ee Ve].
  assert (VQ : Valid (pr_sel q ++ pr_end e)) by (apply valid_app; [eapply sel_valid; eexists; eassumption|assumption]).
  pose proof (proj2 (proj2 (proj2 (proj2 (proj2 group_rt)))) q fuel true _ Hf H Ve) as Sq.
  destruct (sel_head_letter q true _ H Ve) as (b & t & Esk & Hlow).
  destruct (sel_keyword q true _ H Ve) as (m & r & Ks).
  unfold parse_top, sparql_prefixes.
  rewrite (prefixes_loop_rt ps _ [] _); try assumption.
  - cbn [bind].
    assert (Ks' : starts_keyword kw_select (skip_ws (pr_sel q ++ pr_end e)) = Ok true).
    { rewrite starts_keyword_skip by assumption. eapply starts_keyword_true; eassumption. }
    rewrite select_core_skip by assumption. rewrite Esk in *. rewrite Ks'. cbn [bind]. rewrite Sq. cbn [bind].
    destruct q. now apply finish_rest.
  - rewrite app_length. pose proof (prologue_length ps Hps). lia.
  - apply (keyword_fail kw_prefix _ _ _ b t eq_refl Esk). rewrite Hlow. cbv. discriminate.
Qed.
