(* C16 deepening (2): VALUES - one variable or a parenthesised list, rows of terms / UNDEF. *)
Require Import List NArith Bool PeanoNat Lia ZifyBool ZifyN.
Require Import KV.Parser.Utf8 KV.Parser.Unicode KV.Parser.Keywords KV.Parser.Scanners KV.Parser.Grammar.
Require Import KV.Parser.Utf8Proofs KV.Parser.ScannerProofs KV.Parser.GrammarProofs.
Require Import KV.Parser.RoundTrip KV.Parser.RoundTrip2 KV.Parser.RoundTrip3 KV.Parser.Lex KV.Parser.StmtRT KV.Parser.FilterRT KV.Parser.FilterRT2 KV.Parser.SelectRT.
Import ListNotations.
Open Scope N_scope.

(* ---- one value ---------------------------------------------------------------------------------------------------------- *)
Definition is_value_kind (t : Term) : bool := match t with TIri _ | TLit _ _ | TNum _ _ _ | TBool _ | TPn _ _ => true | _ => false end.
Definition value_kw_ok (t : Term) (rest : str) : bool :=
  match t with TPn _ _ => kw_free_text [kw_undef; kw_true; kw_false] (term_text t ++ rest) | _ => true end.

Theorem value_term_ok : forall t w rest, term_okb t = true -> is_value_kind t = true -> term_stopb t rest = true -> value_kw_ok t rest = true ->
  LayoutC w -> Valid rest -> sparql_value (w ++ term_text t ++ rest) = Ok (VTerm (term_text t), rest).
Proof.
  intros t w rest Hok Hk Hst Hkw Hw Hr. pose proof (term_scan_ok t w rest Hok Hst Hw Hr) as Sc.
  destruct (skip_head t w rest Hok Hw Hr) as (b & tl & Esk & Etx & Hf & Vx).
  unfold sparql_value.
  assert (Ku : is_err (keyword kw_undef (w ++ term_text t ++ rest))).
  { destruct t as [sigil cs|items|q items|sign ds1 frac|p items|c0 cs|bb]; try discriminate Hk; cbn [head_fact] in Hf.
    - subst b. apply (keyword_fail kw_undef _ _ _ 60 tl eq_refl Esk). cbv. discriminate.
    - apply (keyword_fail_b kw_undef 85 _ _ b tl eq_refl ltac:(lia) eq_refl Esk). unfold is_ascii_alpha, is_ascii_upper, is_ascii_lower. lia.
    - apply (keyword_fail_b kw_undef 85 _ _ b tl eq_refl ltac:(lia) eq_refl Esk). unfold is_ascii_alpha, is_ascii_upper, is_ascii_lower, is_ascii_digit in *. lia.
    - cbn [value_kw_ok kw_free_text forallb] in Hkw. rewrite Etx in Hkw. apply andb_true_iff in Hkw. destruct Hkw as [Hu _]. apply negb_true_iff in Hu.
      exact (keyword_free_err kw_undef _ (b :: tl) ltac:(kw_a) Vx Esk Hu).
    - apply (keyword_fail kw_undef _ _ _ b tl eq_refl Esk). destruct Hf; subst b; cbv; discriminate. }
  destruct Ku as (? & ? & ? & ->). unfold alt. cbn [alt_from].
  destruct t as [sigil cs|items|q items|sign ds1 frac|p items|c0 cs|bb]; try discriminate Hk; cbn [head_fact term_scan] in *.
  - now rewrite Sc.
  - alt_skip (iri_err _ _ _ Esk ltac:(lia)). now rewrite Sc.
  - assert (Hb : b <> 60 /\ b <> 39 /\ b <> 34) by (unfold is_ascii_digit in Hf; lia).
    alt_skip (iri_err _ _ _ Esk ltac:(lia)). alt_skip (quoted_literal_err _ _ _ Esk ltac:(lia) ltac:(lia)). now rewrite Sc.
  - assert (Hb : b <> 60 /\ b <> 39 /\ b <> 34 /\ b <> 43 /\ b <> 45 /\ b <> 46 /\ is_ascii_digit b = false)
      by (unfold is_ascii_alpha, is_ascii_upper, is_ascii_lower, is_ascii_digit in *; lia).
    alt_skip (iri_err _ _ _ Esk ltac:(lia)). alt_skip (quoted_literal_err _ _ _ Esk ltac:(lia) ltac:(lia)).
    alt_skip (numeric_err _ _ _ Esk ltac:(lia) ltac:(lia) ltac:(lia) ltac:(tauto)).
    cbn [value_kw_ok kw_free_text forallb] in Hkw. rewrite Etx, andb_true_r in Hkw. apply andb_true_iff in Hkw. destruct Hkw as [_ Hkw].
    apply andb_true_iff in Hkw. destruct Hkw as [Ht Hfa]. apply negb_true_iff in Ht, Hfa.
    alt_skip (keyword_free_err kw_true _ (b :: tl) ltac:(kw_a) Vx Esk Ht).
    alt_skip (keyword_free_err kw_false _ (b :: tl) ltac:(kw_a) Vx Esk Hfa). now rewrite Sc.
  - assert (Hb : b <> 60 /\ b <> 39 /\ b <> 34 /\ b <> 43 /\ b <> 45 /\ b <> 46 /\ is_ascii_digit b = false)
      by (unfold is_ascii_digit; lia).
    alt_skip (iri_err _ _ _ Esk ltac:(lia)). alt_skip (quoted_literal_err _ _ _ Esk ltac:(lia) ltac:(lia)).
    alt_skip (numeric_err _ _ _ Esk ltac:(lia) ltac:(lia) ltac:(lia) ltac:(tauto)).
    destruct bb; cbn [term_scan] in Sc.
    + now rewrite Sc.
    + assert (b = 102) by (cbn [term_text] in Etx; cbn in Etx; congruence). subst b.
      alt_skip (keyword_fail kw_true _ _ _ 102 tl eq_refl Esk ltac:(cbv; discriminate)). now rewrite Sc.
Qed.

Inductive Val := VU (l : L) (kw : str) | VT (o : OTok).
Definition pr_val (v : Val) : str := match v with VU l kw => lay_bytes l ++ kw | VT o => pr_o o end.
Definition tr_val (v : Val) : value := match v with VU _ _ => VUndef | VT o => VTerm (term_text (oterm o)) end.
Definition wf_val (v : Val) (following : str) : bool :=
  match v with
  | VU l kw => wf_kw kw_undef kw l following
  | VT o => lay_okb (olay o) && term_okb (oterm o) && is_value_kind (oterm o) && term_stopb (oterm o) following && value_kw_ok (oterm o) following
  end.
Lemma val_valid : forall v f, wf_val v f = true -> Valid (pr_val v).
Proof.
  intros [l kw|o] f H; cbn [wf_val pr_val] in *; [eapply wf_kw_valid; [|eassumption]; kw_a|].
  repeat (apply andb_true_iff in H; destruct H as [H ?]). unfold pr_o. apply valid_app; [now apply lay_valid|now apply term_valid].
Qed.
Theorem val_rt : forall v rest, wf_val v rest = true -> Valid rest -> sparql_value (pr_val v ++ rest) = Ok (tr_val v, rest).
Proof.
  intros [l kw|o] rest H Hr; cbn [wf_val pr_val tr_val] in *.
  - unfold sparql_value. rewrite <- app_assoc. now rewrite (wf_kw_rt kw_undef kw l rest ltac:(kw_a) eq_refl H Hr).
  - repeat (apply andb_true_iff in H; destruct H as [H ?]). unfold pr_o. rewrite <- app_assoc. apply value_term_ok; try assumption. now apply lay_ok.
Qed.

Lemma iri_skip : forall x, Valid x -> iri (skip_ws x) = iri x.
Proof. intros x Hv. unfold iri. now rewrite skip_ws_idem. Qed.
Lemma quoted_literal_skip : forall x, Valid x -> quoted_literal (skip_ws x) = quoted_literal x.
Proof. intros x Hv. unfold quoted_literal, quoted_literal_with. now rewrite skip_ws_idem. Qed.
Lemma numeric_literal_skip : forall x, Valid x -> numeric_literal (skip_ws x) = numeric_literal x.
Proof. intros x Hv. unfold numeric_literal. now rewrite skip_ws_idem. Qed.
Lemma prefixed_name_skip : forall x, Valid x -> prefixed_name (skip_ws x) = prefixed_name x.
Proof. intros x Hv. unfold prefixed_name. now rewrite skip_ws_idem. Qed.
Lemma sparql_value_skip : forall x, Valid x -> sparql_value (skip_ws x) = sparql_value x.
Proof.
  intros x Hv. unfold sparql_value, alt. cbn [alt_from].
  rewrite !keyword_skip, iri_skip, quoted_literal_skip, numeric_literal_skip, prefixed_name_skip by assumption. reflexivity.
Qed.

(* ---- lists of values / variables up to a closing parenthesis --------------------------------------------------------------- *)
Definition pr_vals (vs : list Val) : str := flat_map pr_val vs.
Fixpoint wf_vals (vs : list Val) (following : str) : bool :=
  match vs with [] => true | v :: t => wf_val v (pr_vals t ++ following) && nolead 41 (pr_val v ++ pr_vals t ++ following) && wf_vals t following end.
Lemma vals_valid : forall vs f, wf_vals vs f = true -> Valid (pr_vals vs).
Proof.
  induction vs as [|v t IH]; intros f H; [apply valid_nil|]. cbn [wf_vals pr_vals flat_map] in *.
  apply andb_true_iff in H. destruct H as [H H2]. apply andb_true_iff in H. destruct H as [H1 _].
  apply valid_app; [eapply val_valid; eassumption|eapply IH; eassumption].
Qed.
Lemma val_nonempty : forall v f, wf_val v f = true -> (1 <= length (pr_val v))%nat.
Proof.
  intros [l kw|o] f H; cbn [wf_val pr_val] in *.
  - unfold wf_kw in H. apply andb_true_iff in H. destruct H as [H _]. apply andb_true_iff in H. destruct H as [_ H]. apply kwcase_len in H.
    rewrite app_length, H. change (length kw_undef) with 5%nat. lia.
  - repeat (apply andb_true_iff in H; destruct H as [H ?]). destruct (term_head _ H3) as (b & tl & E & _). unfold pr_o. rewrite app_length, E. cbn [length]. lia.
Qed.
Lemma vals_length : forall vs f, wf_vals vs f = true -> (length vs <= length (pr_vals vs))%nat.
Proof.
  induction vs as [|v t IH]; intros f H; [cbn; lia|]. cbn [wf_vals pr_vals flat_map length] in *. fold (pr_vals t) in *.
  apply andb_true_iff in H. destruct H as [H H2]. apply andb_true_iff in H. destruct H as [H1 _].
  rewrite app_length. pose proof (val_nonempty _ _ H1). specialize (IH _ H2). lia.
Qed.

Lemma values_row_loop_rt : forall vs fuel acc r rest, (length vs < fuel)%nat -> wf_vals vs (lay_bytes r ++ 41 :: rest) = true -> lay_okb r = true -> Valid rest ->
  values_row_loop fuel (pr_vals vs ++ lay_bytes r ++ 41 :: rest) acc = Ok (acc ++ map tr_val vs, rest).
Proof.
  induction vs as [|v t IH]; intros fuel acc r rest Hf H Hlr Hr; (destruct fuel as [|f]; [cbn in Hf; lia|]); cbn [values_row_loop].
  - cbn [pr_vals flat_map app map]. rewrite lead_skip by (try assumption; try lia; reflexivity). rewrite strip1_some. now rewrite app_nil_r.
  - cbn [wf_vals pr_vals flat_map map] in *. fold (pr_vals t) in *.
    apply andb_true_iff in H. destruct H as [H Ht]. apply andb_true_iff in H. destruct H as [Hv Hn]. rewrite <- app_assoc.
    assert (VR : Valid (lay_bytes r ++ 41 :: rest)) by (apply valid_app; [now apply lay_valid|now apply v1]).
    assert (VT : Valid (pr_vals t ++ lay_bytes r ++ 41 :: rest)) by (apply valid_app; [eapply vals_valid; eassumption|assumption]).
    assert (VA : Valid (pr_val v ++ pr_vals t ++ lay_bytes r ++ 41 :: rest)) by (apply valid_app; [eapply val_valid; eassumption|assumption]).
    apply nolead_ok in Hn. unfold no_lead in Hn. rewrite Hn. rewrite sparql_value_skip by assumption.
    rewrite (val_rt v _ Hv VT). cbn [bind]. rewrite (IH f _ r rest ltac:(cbn in Hf; lia) Ht Hlr Hr). now rewrite <- app_assoc.
Qed.

Fixpoint wf_pvars (vs : list OTok) (following : str) : bool :=
  match vs with [] => true | v :: t => wf_var v (pr_vars t ++ following) && wf_pvars t following end.
Lemma pvars_eq : forall vs f, wf_pvars vs f = wf_vars vs f.
Proof. induction vs as [|v t IH]; intros f; [reflexivity|]. cbn [wf_pvars wf_vars]. now rewrite IH. Qed.

Lemma var_head_not : forall v f x c, wf_var v f = true -> Valid x -> c <> 63 -> c <> 36 -> strip_prefix [c] (skip_ws (pr_o v ++ x)) = None.
Proof.
  intros v f x c H Hx H63 H36. pose proof (var_valid _ _ H) as Vv. unfold wf_var in H. repeat (apply andb_true_iff in H; destruct H as [H ?]).
  unfold pr_o in *. destruct (oterm v) as [sigil cs| | | | | |]; try discriminate. cbn [term_text term_okb] in *.
  repeat (apply andb_true_iff in H2; destruct H2 as [H2 ?]). assert (Hsig : sigil = 63 \/ sigil = 36) by lia.
  rewrite <- app_assoc. cbn [app]. rewrite lead_skip; try assumption; try lia.
  - apply strip1_none. lia.
  - destruct Hsig; subst; reflexivity.
  - apply valid_app; [apply valid_encode; now apply scalars_F|assumption].
Qed.

Lemma values_vars_loop_rt : forall vs fuel acc r rest, (length vs < fuel)%nat -> wf_vars vs (lay_bytes r ++ 41 :: rest) = true -> lay_okb r = true -> Valid rest ->
  values_vars_loop fuel (pr_vars vs ++ lay_bytes r ++ 41 :: rest) acc = Ok (acc ++ map var_text vs, rest).
Proof.
  induction vs as [|v t IH]; intros fuel acc r rest Hf H Hlr Hr; (destruct fuel as [|f]; [cbn in Hf; lia|]); cbn [values_vars_loop].
  - cbn [pr_vars flat_map app map]. rewrite lead_skip by (try assumption; try lia; reflexivity). rewrite strip1_some. now rewrite app_nil_r.
  - cbn [wf_vars pr_vars flat_map map] in *. fold (pr_vars t) in *. apply andb_true_iff in H. destruct H as [Hv Ht]. rewrite <- app_assoc.
    assert (VR : Valid (lay_bytes r ++ 41 :: rest)) by (apply valid_app; [now apply lay_valid|now apply v1]).
    assert (VT : Valid (pr_vars t ++ lay_bytes r ++ 41 :: rest)) by (apply valid_app; [eapply vars_valid; eassumption|assumption]).
    assert (VA : Valid (pr_o v ++ pr_vars t ++ lay_bytes r ++ 41 :: rest)) by (apply valid_app; [eapply var_valid; eassumption|assumption]).
    rewrite (var_head_not v _ _ 41 Hv VT) by lia. rewrite variable_skip by assumption.
    rewrite (var_rt v _ Hv VT). cbn [bind]. rewrite (IH f _ r rest ltac:(cbn in Hf; lia) Ht Hlr Hr). now rewrite <- app_assoc.
Qed.

(* ---- rows -------------------------------------------------------------------------------------------------------------------- *)
Inductive Row := RBare (v : Val) | RParen (lp : L) (vals : list Val) (rp : L).
Definition pr_row (r : Row) : str :=
  match r with RBare v => pr_val v | RParen lp vals rp => lay_bytes lp ++ 40 :: pr_vals vals ++ lay_bytes rp ++ [41] end.
Definition tr_row (r : Row) : list value := match r with RBare v => [tr_val v] | RParen _ vals _ => map tr_val vals end.
Definition wf_row (n : nat) (r : Row) (following : str) : bool :=
  match r with
  | RBare v => Nat.eqb n 1 && wf_val v following && nolead 125 (pr_val v ++ following)
  | RParen lp vals rp => negb (Nat.eqb n 1) && Nat.eqb (length vals) n && lay_okb lp && lay_okb rp && wf_vals vals (lay_bytes rp ++ 41 :: following)
  end.
Definition pr_rows (rs : list Row) : str := flat_map pr_row rs.
Fixpoint wf_rows (n : nat) (rs : list Row) (following : str) : bool :=
  match rs with [] => true | r :: t => wf_row n r (pr_rows t ++ following) && wf_rows n t following end.

Lemma row_valid : forall n r f, wf_row n r f = true -> Valid (pr_row r).
Proof.
  intros n [v|lp vals rp] f H; cbn [wf_row pr_row] in *.
  - apply andb_true_iff in H. destruct H as [H _]. apply andb_true_iff in H. destruct H as [_ H]. eapply val_valid; eassumption.
  - repeat (apply andb_true_iff in H; destruct H as [H ?]). apply valid_app; [now apply lay_valid|]. apply v1; [lia|].
    apply valid_app; [eapply vals_valid; eassumption|]. apply valid_app; [now apply lay_valid|apply valid_ascii; repeat constructor; lia].
Qed.
Lemma rows_valid : forall n rs f, wf_rows n rs f = true -> Valid (pr_rows rs).
Proof.
  induction rs as [|r t IH]; intros f H; [apply valid_nil|]. cbn [wf_rows pr_rows flat_map] in *. apply andb_true_iff in H. destruct H.
  apply valid_app; [eapply row_valid; eassumption|eapply IH; eassumption].
Qed.
Lemma rows_length : forall n rs f, wf_rows n rs f = true -> (length rs <= length (pr_rows rs))%nat.
Proof.
  induction rs as [|r t IH]; intros f H; [cbn; lia|]. cbn [wf_rows pr_rows flat_map length] in *. fold (pr_rows t) in *.
  apply andb_true_iff in H. destruct H as [H1 H2]. specialize (IH _ H2). rewrite app_length.
  assert (1 <= length (pr_row r))%nat; [|lia]. destruct r as [v|lp vals rp]; cbn [wf_row pr_row] in *.
  - apply andb_true_iff in H1. destruct H1 as [H1 _]. apply andb_true_iff in H1. destruct H1 as [_ H1]. eapply val_nonempty; eassumption.
  - rewrite app_length. cbn [length]. lia.
Qed.

Lemma values_rows_loop_rt : forall n rs fuel acc rb rest, (length rs < fuel)%nat -> wf_rows n rs (lay_bytes rb ++ 125 :: rest) = true -> lay_okb rb = true -> Valid rest ->
  values_rows_loop fuel n (pr_rows rs ++ lay_bytes rb ++ 125 :: rest) acc = Ok (acc ++ map tr_row rs, rest).
Proof.
  induction rs as [|r t IH]; intros fuel acc rb rest Hf H Hlb Hr; (destruct fuel as [|f]; [cbn in Hf; lia|]); cbn [values_rows_loop].
  - cbn [pr_rows flat_map app map]. rewrite lead_skip by (try assumption; try lia; reflexivity). rewrite strip1_some. now rewrite app_nil_r.
  - cbn [wf_rows pr_rows flat_map map] in *. fold (pr_rows t) in *. apply andb_true_iff in H. destruct H as [Hrow Ht]. rewrite <- app_assoc.
    assert (VR : Valid (lay_bytes rb ++ 125 :: rest)) by (apply valid_app; [now apply lay_valid|now apply v1]).
    assert (VT : Valid (pr_rows t ++ lay_bytes rb ++ 125 :: rest)) by (apply valid_app; [eapply rows_valid; eassumption|assumption]).
    assert (VA : Valid (pr_row r ++ pr_rows t ++ lay_bytes rb ++ 125 :: rest)) by (apply valid_app; [eapply row_valid; eassumption|assumption]).
    destruct r as [v|lp vals rp]; cbn [wf_row pr_row tr_row] in *.
    + apply andb_true_iff in Hrow. destruct Hrow as [Hrow Hn]. apply andb_true_iff in Hrow. destruct Hrow as [Hn1 Hv].
      apply nolead_ok in Hn. unfold no_lead in Hn. rewrite Hn. rewrite Hn1. rewrite sparql_value_skip by assumption.
      rewrite (val_rt v _ Hv VT). cbn [bind length]. apply Nat.eqb_eq in Hn1. subst n. cbn [Nat.eqb].
      rewrite (IH f _ rb rest ltac:(cbn in Hf; lia) Ht Hlb Hr). now rewrite <- app_assoc.
    + repeat (apply andb_true_iff in Hrow; destruct Hrow as [Hrow ?]).
      match goal with X : wf_vals _ _ = true |- _ => rename X into Hvals end.
      match goal with X : lay_okb rp = true |- _ => rename X into Hrp end.
      match goal with X : lay_okb lp = true |- _ => rename X into Hlp end.
      match goal with X : Nat.eqb (length vals) n = true |- _ => rename X into Hlen end.
      apply negb_true_iff in Hrow.
      assert (E0 : (lay_bytes lp ++ 40 :: pr_vals vals ++ lay_bytes rp ++ [41]) ++ pr_rows t ++ lay_bytes rb ++ 125 :: rest
                   = lay_bytes lp ++ 40 :: pr_vals vals ++ lay_bytes rp ++ 41 :: pr_rows t ++ lay_bytes rb ++ 125 :: rest).
      { repeat first [rewrite <- app_assoc | progress cbn [app]]. reflexivity. }
      rewrite E0 in *.
      assert (V2 : Valid (pr_vals vals ++ lay_bytes rp ++ 41 :: pr_rows t ++ lay_bytes rb ++ 125 :: rest)).
      { apply valid_app; [eapply vals_valid; eassumption|]. apply valid_app; [now apply lay_valid|now apply v1]. }
      rewrite lead_skip by (try assumption; try lia; reflexivity). rewrite strip1_none by lia. rewrite Hrow.
      pose proof (schar_roundtrip 40 [] _ ltac:(lia) eq_refl ltac:(lia) (LC_end [] W_nil) V2) as Sc. cbn [app] in Sc. rewrite Sc. cbn [bind].
      rewrite (values_row_loop_rt vals _ [] rp _); try assumption.
      * cbn [bind app]. rewrite map_length, Hlen. rewrite (IH f _ rb rest ltac:(cbn in Hf; lia) Ht Hlb Hr). now rewrite <- app_assoc.
      * rewrite app_length. pose proof (vals_length _ _ Hvals). lia.
Qed.

(* ---- VALUES vars { rows } ----------------------------------------------------------------------------------------------------------- *)
Inductive VVars := VSingle (v : OTok) | VList (lp : L) (vs : list OTok) (rp : L).
Record ValuesC := { vl_kl : L; vl_kw : str; vl_vars : VVars; vl_lb : L; vl_rows : list Row; vl_rb : L }.
Definition pr_vvars (vv : VVars) : str :=
  match vv with VSingle v => pr_o v | VList lp vs rp => lay_bytes lp ++ 40 :: pr_vars vs ++ lay_bytes rp ++ [41] end.
Definition vvars_list (vv : VVars) : list OTok := match vv with VSingle v => [v] | VList _ vs _ => vs end.
Definition wf_vvars (vv : VVars) (following : str) : bool :=
  match vv with
  | VSingle v => wf_var v following
  | VList lp vs rp => lay_okb lp && lay_okb rp && nonempty vs && wf_vars vs (lay_bytes rp ++ 41 :: following)
  end.
Definition pr_values (c : ValuesC) : str :=
  lay_bytes (vl_kl c) ++ vl_kw c ++ pr_vvars (vl_vars c) ++ lay_bytes (vl_lb c) ++ 123 :: pr_rows (vl_rows c) ++ lay_bytes (vl_rb c) ++ [125].
Definition tr_values (c : ValuesC) : group := GValues (map var_text (vvars_list (vl_vars c))) (map tr_row (vl_rows c)).
Definition wf_values (c : ValuesC) (following : str) : bool :=
  let x2 := lay_bytes (vl_rb c) ++ 125 :: following in
  let x1 := lay_bytes (vl_lb c) ++ 123 :: pr_rows (vl_rows c) ++ x2 in
  wf_kw kw_values (vl_kw c) (vl_kl c) (pr_vvars (vl_vars c) ++ x1) && wf_vvars (vl_vars c) x1 && lay_okb (vl_lb c) && lay_okb (vl_rb c)
  && wf_rows (length (vvars_list (vl_vars c))) (vl_rows c) x2.

Lemma vvars_valid : forall vv f, wf_vvars vv f = true -> Valid (pr_vvars vv).
Proof.
  intros [v|lp vs rp] f H; cbn [wf_vvars pr_vvars] in *; [eapply var_valid; eassumption|].
  repeat (apply andb_true_iff in H; destruct H as [H ?]). apply valid_app; [now apply lay_valid|]. apply v1; [lia|].
  apply valid_app; [eapply vars_valid; eassumption|]. apply valid_app; [now apply lay_valid|apply valid_ascii; repeat constructor; lia].
Qed.
Lemma values_valid : forall c f, wf_values c f = true -> Valid (pr_values c).
Proof.
  intros c f H. unfold wf_values in H. cbv zeta in H.
  apply andb_true_iff in H. destruct H as [H Hrows]. apply andb_true_iff in H. destruct H as [H Hrb]. apply andb_true_iff in H. destruct H as [H Hlb].
  apply andb_true_iff in H. destruct H as [Hk Hv]. unfold pr_values. rewrite app_assoc.
  apply valid_app; [eapply wf_kw_valid; [|eassumption]; kw_a|]. apply valid_app; [eapply vvars_valid; eassumption|].
  apply valid_app; [now apply lay_valid|]. apply v1; [lia|]. apply valid_app; [eapply rows_valid; eassumption|].
  apply valid_app; [now apply lay_valid|apply valid_ascii; repeat constructor; lia].
Qed.

Lemma var_schar_err : forall v f x c, wf_var v f = true -> Valid x -> c <> 63 -> c <> 36 -> is_err (schar c (pr_o v ++ x)).
Proof.
  intros v f x c H Hx H63 H36. pose proof (var_valid _ _ H) as Vv. unfold wf_var in H. repeat (apply andb_true_iff in H; destruct H as [H ?]).
  unfold pr_o in *. destruct (oterm v) as [sigil cs| | | | | |]; try discriminate. cbn [term_text term_okb] in *.
  repeat (apply andb_true_iff in H2; destruct H2 as [H2 ?]). assert (Hsig : sigil = 63 \/ sigil = 36) by lia.
  rewrite <- app_assoc. cbn [app]. unfold schar. rewrite lead_skip; try assumption; try lia.
  - destruct (N.eqb_spec sigil c); [lia|]. repeat eexists.
  - destruct Hsig; subst; reflexivity.
  - apply valid_app; [apply valid_encode; now apply scalars_F|assumption].
Qed.

Theorem values_rt : forall c rest, wf_values c rest = true -> Valid rest ->
  values_clause (pr_values c ++ rest) = Ok ((map var_text (vvars_list (vl_vars c)), map tr_row (vl_rows c)), rest).
Proof.
  intros c rest H Hr. unfold wf_values in H. cbv zeta in H.
  apply andb_true_iff in H. destruct H as [H Hrows]. apply andb_true_iff in H. destruct H as [H Hrb]. apply andb_true_iff in H. destruct H as [H Hlb].
  apply andb_true_iff in H. destruct H as [Hk Hv].
  set (x2 := lay_bytes (vl_rb c) ++ 125 :: rest) in *. set (x1 := lay_bytes (vl_lb c) ++ 123 :: pr_rows (vl_rows c) ++ x2) in *.
  assert (E0 : pr_values c ++ rest = lay_bytes (vl_kl c) ++ vl_kw c ++ pr_vvars (vl_vars c) ++ x1).
  { unfold pr_values, x1, x2. repeat first [rewrite <- app_assoc | progress cbn [app]]. reflexivity. }
  assert (V2 : Valid x2) by (apply valid_app; [now apply lay_valid|now apply v1]).
  assert (VRows : Valid (pr_rows (vl_rows c) ++ x2)) by (apply valid_app; [eapply rows_valid; eassumption|assumption]).
  assert (V1 : Valid x1) by (apply valid_app; [now apply lay_valid|now apply v1]).
  assert (VV : Valid (pr_vvars (vl_vars c) ++ x1)) by (apply valid_app; [eapply vvars_valid; eassumption|assumption]).
  rewrite E0. unfold values_clause. rewrite (wf_kw_rt kw_values _ _ _ ltac:(kw_a) eq_refl Hk VV). cbn [bind].
  assert (Rows : forall vars : list str, length vars = length (vvars_list (vl_vars c)) -> vars <> [] ->
            match vars with
            | [] => Err kMany1 (length x1) 0
            | _ :: _ => do i3 <- schar 123 x1; do '(rows, i4) <- values_rows_loop (S (length i3)) (length vars) i3 []; Ok (vars, rows, i4)
            end = Ok (vars, map tr_row (vl_rows c), rest)).
  { intros vars Hlen Hne. destruct vars as [|v0 vars']; [congruence|]. unfold x1.
    rewrite schar_roundtrip by (try assumption; try lia; try reflexivity; now apply lay_ok). cbn [bind]. rewrite Hlen.
    unfold x2. rewrite (values_rows_loop_rt _ (vl_rows c) _ [] (vl_rb c) rest); try assumption; [reflexivity|].
    rewrite app_length. pose proof (rows_length _ _ _ Hrows). lia. }
  destruct (vl_vars c) as [v|lp vs rp]; cbn [wf_vvars pr_vvars vvars_list] in *.
  - destruct (var_schar_err v _ x1 40 Hv V1 ltac:(lia) ltac:(lia)) as (? & ? & ? & ->). rewrite (var_rt v x1 Hv V1). cbn [bind map].
    exact (Rows [var_text v] eq_refl ltac:(discriminate)).
  - repeat (apply andb_true_iff in Hv; destruct Hv as [Hv ?]).
    assert (E1 : (lay_bytes lp ++ 40 :: pr_vars vs ++ lay_bytes rp ++ [41]) ++ x1 = lay_bytes lp ++ 40 :: pr_vars vs ++ lay_bytes rp ++ 41 :: x1).
    { repeat first [rewrite <- app_assoc | progress cbn [app]]. reflexivity. }
    rewrite E1 in *.
    assert (V3 : Valid (pr_vars vs ++ lay_bytes rp ++ 41 :: x1)).
    { apply valid_app; [eapply vars_valid; eassumption|]. apply valid_app; [now apply lay_valid|now apply v1]. }
    rewrite schar_roundtrip by (try assumption; try lia; try reflexivity; now apply lay_ok).
    rewrite (values_vars_loop_rt vs _ [] rp x1); try assumption.
    + cbn [bind app]. refine (Rows (map var_text vs) _ _); [now rewrite map_length|]. destruct vs; discriminate.
    + rewrite app_length. match goal with X : wf_vars vs _ = true |- _ => pose proof (vars_length _ _ X) end. lia.
Qed.
