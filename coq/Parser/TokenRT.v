(* C16 deepening (2): further token classes at scanner level - numbers with exponents, literals with a language tag or a
   datatype, long (triple-quoted) strings. *)
Require Import List NArith Bool PeanoNat Lia ZifyBool ZifyN.
Require Import KV.Parser.Utf8 KV.Parser.Unicode KV.Parser.Keywords KV.Parser.Scanners KV.Parser.Grammar.
Require Import KV.Parser.Utf8Proofs KV.Parser.ScannerProofs KV.Parser.GrammarProofs.
Require Import KV.Parser.RoundTrip KV.Parser.RoundTrip2 KV.Parser.RoundTrip3 KV.Parser.Lex KV.Parser.StmtRT KV.Parser.FilterRT KV.Parser.FilterRT2 KV.Parser.SelectRT KV.Parser.BindRT.
Import ListNotations.
Open Scope N_scope.

(* ---- numbers: mantissa [sign] digits [. digits] | [sign] . digits, then an optional exponent ------------------------------ *)
(* the part of sparql_numeric_literal after the mantissa, as a function of the input and the mantissa's end *)
Definition num_tail (input : str) (index2 : nat) : res (str * str) :=
  let n := length input in
  let index3 :=
    if byte_is (fun b => (b =? 101) || (b =? 69)) input index2 then
      let marker := index2 in
      let i1 := S index2 in
      let i2 := if byte_is (fun b => (b =? 43) || (b =? 45)) input i1 then S i1 else i1 in
      let i3 := digits_from n input i2 in
      if Nat.eqb i2 i3 then marker else i3
    else index2 in
  do t <- lift (slice_from input index3);
  match next_char t with
  | Some (c, _) => if is_alphabetic c || (c =? 95) then Err kVerify n 0 else split_at input index3
  | None => split_at input index3
  end.

Lemma numeric_mantissa : forall w m r, LayoutC w -> NumTok m -> Valid r ->
  (match r with b :: _ => is_ascii_digit b = false /\ b <> 46 | [] => True end) ->
  numeric_literal (w ++ m ++ r) = num_tail (m ++ r) (length m).
Proof.
  intros w tok rest Hw Ht Hr Hrh. inversion Ht as [sign ds1 frac Hsign Hd1 Hfrac Hne]; subst.
  assert (Vsign : Valid sign /\ (length sign <= 1)%nat) by (destruct Hsign as [->|[->| ->]]; (split; [apply valid_ascii; repeat constructor; lia|cbn; lia])).
  destruct Vsign as [Vsign Lsign].
  assert (Vfrac : Valid frac) by (destruct Hfrac as [->|(ds2 & -> & _ & Hd2)]; [apply valid_nil|apply valid_ascii; constructor; [lia|now apply RoundTrip.digits_ascii]]).
  assert (Vtok : Valid (sign ++ ds1 ++ frac)) by (repeat apply valid_app; try assumption; apply valid_ascii; now apply RoundTrip.digits_ascii).
  assert (Hhead : exists b t, (sign ++ ds1 ++ frac) ++ rest = b :: t /\ b < 128 /\ is_whitespace b = false /\ b <> 35).
  { destruct Hsign as [->|[->| ->]]; cbn [app]; try (eexists _, _; split; [reflexivity|]; (split; [lia|split; [reflexivity|lia]])).
    destruct ds1 as [|d ds1'].
    - destruct Hne as [?|Hf]; [congruence|]. destruct Hfrac as [->|(ds2 & -> & _)]; [congruence|]. cbn [app].
      eexists _, _. split; [reflexivity|]. (split; [lia|split; [reflexivity|lia]]).
    - inversion Hd1 as [|? ? Hdd _]; subst. cbn [app]. eexists _, _. split; [reflexivity|].
      unfold is_ascii_digit in Hdd. repeat split; try lia.
      assert (48 <= d <= 57) by lia. unfold is_whitespace, in_ranges, whitespace_ranges.
      destruct (N.ltb_spec d 9); [lia|]. destruct (N.leb_spec d 13); [lia|]. destruct (N.ltb_spec d 32); [lia|].
      destruct (N.leb_spec d 32); [lia|]. destruct (N.ltb_spec d 133); [reflexivity|lia]. }
  destruct Hhead as (b & t & Eh & Hb & Hbw & Hb35).
  unfold numeric_literal. rewrite skip_ws_closed; [|assumption|now apply valid_app|rewrite Eh; now apply ascii_head_not_layout].
  set (input := (sign ++ ds1 ++ frac) ++ rest). cbv zeta.
  assert (E0 : (if byte_is (fun b => (b =? 43) || (b =? 45)) input 0 then 1%nat else 0%nat) = length sign).
  { unfold input. change 0%nat with (length (@nil N)). replace ((sign ++ ds1 ++ frac) ++ rest) with ([] ++ (sign ++ ds1 ++ frac) ++ rest) by reflexivity.
    rewrite byte_is_at. destruct Hsign as [->|[->| ->]]; cbn [app length]; try reflexivity.
    destruct ds1 as [|d ds1'].
    - destruct Hne as [?|Hf]; [congruence|]. destruct Hfrac as [->|(ds2 & -> & _)]; [congruence|]. reflexivity.
    - inversion Hd1 as [|? ? Hdd _]; subst. cbn [app]. unfold is_ascii_digit in Hdd.
      destruct (N.eqb_spec d 43); [lia|]. destruct (N.eqb_spec d 45); [lia|]. reflexivity. }
  rewrite E0.
  assert (Hfrac_head : match frac ++ rest with b :: _ => is_ascii_digit b = false | [] => True end).
  { destruct Hfrac as [->|(ds2 & -> & _)]; cbn [app]; [destruct rest; tauto|reflexivity]. }
  assert (E1 : digits_from (length input) input (length sign) = (length sign + length ds1)%nat).
  { unfold input. rewrite <- !app_assoc. apply digits_from_exact; [assumption|assumption|]. rewrite !app_length. lia. }
  rewrite E1.
  replace (length sign + length ds1 - length sign)%nat with (length ds1) by lia.
  set (i1 := (length sign + length ds1)%nat).
  assert (Ein : input = (sign ++ ds1) ++ frac ++ rest) by (unfold input; now rewrite <- !app_assoc).
  assert (Li1 : i1 = length (sign ++ ds1)) by (unfold i1; now rewrite app_length).
  destruct Hfrac as [->|(ds2 & -> & Hne2 & Hd2)].
  - assert (C : byte_is (fun b => b =? 46) input i1 = false).
    { rewrite Ein, Li1, byte_is_at. cbn [app]. destruct rest as [|b0 r0]; [reflexivity|]. destruct Hrh as [_ H46]. now apply N.eqb_neq. }
    rewrite C. cbn [andb]. cbv beta iota.
    destruct Hne as [Hn1|Hn1]; [|congruence].
    replace (Nat.eqb (length ds1) 0) with false by (destruct ds1; [congruence|reflexivity]). cbn [andb].
    unfold num_tail. replace (length (sign ++ ds1 ++ [])) with i1 by (rewrite !app_length; cbn [length]; unfold i1; lia). reflexivity.
  - destruct ds2 as [|d2 ds2']; [congruence|]. inversion Hd2 as [|? ? Hdd2 Hd2']; subst.
    assert (C1 : byte_is (fun b => b =? 46) input i1 = true) by (rewrite Ein, Li1, byte_is_at; reflexivity).
    assert (Ein2 : input = ((sign ++ ds1) ++ [46]) ++ (d2 :: ds2') ++ rest) by (rewrite Ein; repeat first [rewrite <- app_assoc | progress cbn [app]]; reflexivity).
    assert (Li2 : S i1 = length ((sign ++ ds1) ++ [46])) by (rewrite app_length, <- Li1; cbn [length]; lia).
    assert (C2 : byte_is is_ascii_digit input (S i1) = true) by (rewrite Ein2, Li2, byte_is_at; exact Hdd2).
    assert (E2 : digits_from (length input) input (S i1) = (S i1 + length (d2 :: ds2'))%nat).
    { rewrite Ein2 at 2. rewrite Li2. apply digits_from_exact; [assumption| |].
      - destruct rest as [|b0 r0]; [exact I|tauto].
      - rewrite Ein2, !app_length. lia. }
    rewrite C1, C2. cbn [andb]. cbv beta iota zeta. rewrite E2.
    replace (Nat.eqb (S i1 + length (d2 :: ds2') - S i1) 0) with false by (symmetry; apply Nat.eqb_neq; cbn [length]; lia).
    rewrite andb_false_r.
    unfold num_tail. replace (length (sign ++ ds1 ++ 46 :: d2 :: ds2')) with (S i1 + length (d2 :: ds2'))%nat by (rewrite !app_length; cbn [length]; unfold i1; lia). reflexivity.
Qed.

Inductive NumTokE : str -> Prop :=
| numtok_e : forall m e esign eds, NumTok m -> (e = 101 \/ e = 69) -> (esign = [] \/ esign = [43] \/ esign = [45]) -> digits eds -> eds <> [] ->
    NumTokE (m ++ e :: esign ++ eds).

Lemma numtok_valid : forall m, NumTok m -> Valid m.
Proof.
  intros m H. inversion H as [sign ds1 frac Hsign Hd1 Hfrac Hne]; subst.
  repeat apply valid_app.
  - destruct Hsign as [->|[->| ->]]; apply valid_ascii; repeat constructor; lia.
  - apply valid_ascii. now apply RoundTrip.digits_ascii.
  - destruct Hfrac as [->|(ds2 & -> & _ & Hd2)]; [apply valid_nil|apply valid_ascii; constructor; [lia|now apply RoundTrip.digits_ascii]].
Qed.

Theorem numeric_exponent_roundtrip : forall w tok rest, LayoutC w -> NumTokE tok -> Valid rest -> num_stop rest ->
  numeric_literal (w ++ tok ++ rest) = Ok (tok, rest).
Proof.
  intros w tok rest Hw Ht Hr Hst. inversion Ht as [m e esign eds Hm He Hes Hd Hne]; subst.
  pose proof (num_stop_head rest Hr Hst) as Hrh. pose proof (numtok_valid m Hm) as Vm.
  assert (Ves : Valid esign) by (destruct Hes as [->|[->| ->]]; apply valid_ascii; repeat constructor; lia).
  assert (Vds : Valid eds) by (apply valid_ascii; now apply RoundTrip.digits_ascii).
  assert (Ve : Valid (e :: esign ++ eds ++ rest)).
  { apply (valid_app [e]); [apply valid_ascii; repeat constructor; lia|]. apply valid_app; [assumption|now apply valid_app]. }
  set (r := e :: esign ++ eds ++ rest).
  assert (E0 : (m ++ e :: esign ++ eds) ++ rest = m ++ r) by (unfold r; repeat first [rewrite <- app_assoc | progress cbn [app]]; reflexivity).
  rewrite E0. rewrite (numeric_mantissa w m r Hw Hm Ve) by (unfold r; unfold is_ascii_digit; lia).
  set (input := m ++ r). unfold num_tail. fold input. cbv zeta.
  assert (C1 : byte_is (fun b => (b =? 101) || (b =? 69)) input (length m) = true).
  { unfold input, r. rewrite byte_is_at. destruct He as [-> | ->]; reflexivity. }
  rewrite C1.
  assert (Ein1 : input = (m ++ [e]) ++ esign ++ eds ++ rest) by (unfold input, r; rewrite <- app_assoc; reflexivity).
  assert (L1 : S (length m) = length (m ++ [e])) by (rewrite app_length; cbn [length]; lia).
  assert (Hd0 : exists d0 eds', eds = d0 :: eds' /\ is_ascii_digit d0 = true) by (destruct eds as [|d0 eds']; [congruence|]; inversion Hd; eauto).
  destruct Hd0 as (d0 & eds' & Eeds & Hd0).
  assert (C2 : (if byte_is (fun b => (b =? 43) || (b =? 45)) input (S (length m)) then S (S (length m)) else S (length m)) = (S (length m) + length esign)%nat).
  { rewrite Ein1, L1, byte_is_at. rewrite <- L1. destruct Hes as [->|[->| ->]]; cbn [app length].
    - rewrite Eeds. cbn [app]. unfold is_ascii_digit in Hd0. destruct (N.eqb_spec d0 43); [lia|]. destruct (N.eqb_spec d0 45); [lia|]. cbn [orb]. lia.
    - change ((43 =? 43) || (43 =? 45)) with true. cbv iota. lia.
    - change ((45 =? 43) || (45 =? 45)) with true. cbv iota. lia. }
  rewrite C2.
  assert (Ein2 : input = ((m ++ [e]) ++ esign) ++ eds ++ rest) by (rewrite Ein1; now rewrite <- !app_assoc).
  assert (L2 : (S (length m) + length esign)%nat = length ((m ++ [e]) ++ esign)) by (rewrite app_length, <- L1; lia).
  assert (E3 : digits_from (length input) input (S (length m) + length esign) = (S (length m) + length esign + length eds)%nat).
  { rewrite Ein2 at 2. rewrite L2. apply digits_from_exact; [assumption| |].
    - destruct rest as [|b0 r0]; [exact I|tauto].
    - rewrite Ein2, !app_length. lia. }
  rewrite E3.
  replace (Nat.eqb (S (length m) + length esign) (S (length m) + length esign + length eds)) with false
    by (symmetry; apply Nat.eqb_neq; rewrite Eeds; cbn [length]; lia).
  set (tok := m ++ e :: esign ++ eds).
  assert (Lt : (S (length m) + length esign + length eds)%nat = length tok) by (unfold tok; rewrite !app_length; cbn [length]; rewrite app_length; lia).
  assert (Et : input = tok ++ rest) by (unfold input, tok, r; repeat first [rewrite <- app_assoc | progress cbn [app]]; reflexivity).
  assert (Vtok : Valid tok) by (unfold tok; apply valid_app; [assumption|]; apply (valid_app [e]); [apply valid_ascii; repeat constructor; lia|now apply valid_app]).
  rewrite Lt, Et. rewrite slice_from_bnd by (now apply valid_app_bnd). cbn [lift bind]. rewrite skipn_app, skipn_all, Nat.sub_diag. cbn [skipn app].
  assert (Fin : split_at (tok ++ rest) (length tok) = Ok (tok, rest)) by (now apply split_at_app).
  unfold num_stop in Hst. destruct (next_char rest) as [[c k]|]; [|exact Fin].
  destruct Hst as (Ha & H95 & _). rewrite Ha. destruct (N.eqb_spec c 95); [congruence|]. exact Fin.
Qed.

(* ---- literals: the part of sparql_quoted_literal after the closing quote(s) ------------------------------------------------------- *)
Definition lit_tail (input : str) (literal_end : nat) : res (str * str) :=
  do suffix <- lift (slice_from input literal_end);
  let plain := split_at input literal_end in
  match suffix with
  | [] => plain
  | b0 :: suffix1 =>
      if b0 =? 64 then
        let language := suffix1 in
        let primary_end := count_while is_ascii_alpha language in
        if Nat.eqb primary_end O then Err kVerify (length suffix) 0
        else
          do language_end <- lang_loop (S (length language)) language primary_end (length suffix);
          do lt <- lift (slice_from language language_end);
          match next_char lt with
          | Some (c, _) =>
              if is_ascii_alnum c || (c =? 45) || (c =? 95) then Err kVerify (length suffix) 0
              else split_at input (literal_end + (1 + language_end))
          | None => split_at input (literal_end + (1 + language_end))
          end
      else if b0 =? 94 then
        match suffix1 with
        | [] => plain
        | b1 :: datatype0 =>
            if b1 =? 94 then
              let datatype := skip_ws datatype0 in
              do r <- orelse (iri datatype) (fun _ => prefixed_name datatype);
              split_at input (length input - length (snd r))
            else plain
        end
      else plain
  end.

(* a short literal `q body q` (LitTok), followed by anything that does not start with the same quote *)
Lemma short_literal_open : forall w lit r, LayoutC w -> LitTok lit -> Valid r ->
  (match r with b :: _ => b <> nth 0 lit 0 | [] => True end) ->
  quoted_literal (w ++ lit ++ r) = lit_tail (lit ++ r) (length lit).
Proof.
  intros w tok rest Hw Ht Hr Hst. inversion Ht as [q items Hq Hi]; subst. cbn [nth] in Hst.
  assert (Hq128 : q < 128) by lia.
  assert (Vb : Valid (lit_body items)) by (eapply lit_body_valid; eassumption).
  assert (Vtok : Valid (q :: lit_body items ++ [q])).
  { apply (valid_app [q]); [apply valid_ascii; repeat constructor; lia|]. apply valid_app; [assumption|apply valid_ascii; repeat constructor; lia]. }
  unfold quoted_literal, quoted_literal_with. rewrite skip_ws_closed; [|assumption|now apply valid_app|].
  2:{ cbn [app]. apply ascii_head_not_layout; [assumption|destruct Hq as [-> | ->]; reflexivity|lia]. }
  cbn [app]. replace ((q =? 39) || (q =? 34)) with true by (destruct Hq as [-> | ->]; reflexivity).
  rewrite <- app_assoc. cbn [app].
  assert (Htq : starts_with [q; q; q] (q :: lit_body items ++ q :: rest) = false).
  { cbn [starts_with]. rewrite N.eqb_refl. cbn [andb].
    destruct items as [|it items'].
    - cbn [lit_body flat_map app]. rewrite N.eqb_refl. cbn [andb]. destruct rest as [|b r]; [reflexivity|].
      destruct (N.eqb_spec q b); [congruence|reflexivity].
    - inversion Hi as [|? ? Hit _]; subst. cbn [lit_body flat_map]. rewrite <- app_assoc.
      destruct it as [c|e|h|h]; cbn [lit_item_bytes lit_item_ok app] in *.
      + destruct Hit as (Hc & Hcq & H92 & _). destruct (head_not2 c (flat_map lit_item_bytes items' ++ q :: rest) q Hc Hq128 Hcq H92) as (b & t & Eb & Hbq & _).
        rewrite Eb. cbn [starts_with]. destruct (N.eqb_spec q b); [congruence|reflexivity].
      + destruct (N.eqb_spec q 92); [lia|reflexivity].
      + destruct (N.eqb_spec q 92); [lia|reflexivity].
      + destruct (N.eqb_spec q 92); [lia|reflexivity]. }
  rewrite Htq. cbv beta iota zeta. cbn [length].
  pose proof (lit_loop_exact q items (S (length (q :: lit_body items ++ q :: rest))) [q] rest Hq Hi
                ltac:(apply valid_ascii; repeat constructor; lia) Hr ltac:(cbn [length]; lia)) as H.
  cbn [app length] in H. rewrite H. cbn [bind].
  unfold lit_tail. replace (S (length (lit_body items ++ [q]))) with (1 + length (lit_body items) + 1)%nat by (rewrite app_length; cbn [length]; lia).
  replace ((q :: lit_body items ++ [q]) ++ rest) with (q :: lit_body items ++ q :: rest) by (cbn [app]; now rewrite <- app_assoc).
  cbn [length]. reflexivity.
Qed.

(* no suffix: what follows is neither `@` nor `^` *)
Lemma lit_tail_plain : forall lit r, Valid lit -> Valid r -> (match r with b :: _ => b <> 64 /\ b <> 94 | [] => True end) ->
  lit_tail (lit ++ r) (length lit) = Ok (lit, r).
Proof.
  intros lit r Vl Vr H. unfold lit_tail. rewrite slice_from_bnd by (now apply valid_app_bnd). cbn [lift bind].
  rewrite skipn_app, skipn_all, Nat.sub_diag. cbn [skipn app].
  assert (Fin : split_at (lit ++ r) (length lit) = Ok (lit, r)) by (now apply split_at_app).
  destruct r as [|b0 r0]; [exact Fin|]. destruct H as [H64 H94]. destruct (N.eqb_spec b0 64); [congruence|]. destruct (N.eqb_spec b0 94); [congruence|]. exact Fin.
Qed.

(* ---- language tags: `@` alpha+ ( `-` alnum+ )* ---------------------------------------------------------------------------------------- *)
Lemma count_while_exact : forall (p : N -> bool) xs more, Forall (fun b => p b = true) xs ->
  (match more with b :: _ => p b = false | [] => True end) -> count_while p (xs ++ more) = length xs.
Proof.
  induction xs as [|x xs IH]; intros more Hx Hm.
  - cbn [app length]. destruct more as [|b m]; [reflexivity|]. cbn [count_while]. now rewrite Hm.
  - inversion Hx; subst. cbn [app count_while length]. rewrite H1. f_equal. now apply IH.
Qed.

Definition subtags_bytes (subtags : list str) : str := flat_map (fun st => 45 :: st) subtags.
Definition lang_stop (rest : str) : Prop :=
  match next_char rest with Some (c, _) => is_ascii_alnum c = false /\ c <> 45 /\ c <> 95 | None => True end.
Lemma lang_stop_head : forall rest, Valid rest -> lang_stop rest -> match rest with b :: _ => is_ascii_alnum b = false /\ is_ascii_alpha b = false /\ b <> 45 | [] => True end.
Proof.
  intros rest Hv H. destruct rest as [|b r]; [exact I|]. unfold lang_stop in H. destruct (N.lt_ge_cases b 128) as [Hlt|Hge].
  - cbn [next_char] in H. destruct (N.ltb_spec b 128); [|lia]. destruct H as (Ha & H45 & _). repeat split; try assumption.
    unfold is_ascii_alnum, is_ascii_alpha, is_ascii_upper, is_ascii_lower, is_ascii_digit in *. lia.
  - unfold is_ascii_alnum, is_ascii_alpha, is_ascii_upper, is_ascii_lower, is_ascii_digit. repeat split; lia.
Qed.
Lemma alnum_ascii_str : forall st, Forall (fun b => is_ascii_alnum b = true) st -> ascii_str st.
Proof. intros st H. eapply Forall_impl; [|exact H]. intros b Hb. now apply alnum_ascii. Qed.
Lemma subtags_ascii : forall subtags, Forall (fun st => Forall (fun b => is_ascii_alnum b = true) st) subtags -> ascii_str (subtags_bytes subtags).
Proof.
  induction subtags as [|st t IH]; intros H; [constructor|]. inversion H; subst. cbn [subtags_bytes flat_map]. apply Forall_app. split; [|now apply IH].
  constructor; [lia|now apply alnum_ascii_str].
Qed.

Lemma lang_loop_exact : forall subtags fuel pre rest sl,
  Forall (fun st => st <> [] /\ Forall (fun b => is_ascii_alnum b = true) st) subtags -> ascii_str pre -> Valid rest ->
  (match rest with b :: _ => is_ascii_alnum b = false /\ b <> 45 | [] => True end) -> (length subtags < fuel)%nat ->
  lang_loop fuel (pre ++ subtags_bytes subtags ++ rest) (length pre) sl = Ok (length pre + length (subtags_bytes subtags))%nat.
Proof.
  induction subtags as [|st t IH]; intros fuel pre rest sl Hs Hp Hr Hh Hf; (destruct fuel as [|f]; [cbn in Hf; lia|]); cbn [lang_loop].
  - cbn [subtags_bytes flat_map app length]. rewrite byte_is_at. rewrite Nat.add_0_r.
    destruct rest as [|b r]; [reflexivity|]. destruct Hh as [_ H45]. destruct (N.eqb_spec b 45); [congruence|reflexivity].
  - inversion Hs as [|? ? [Hne Hst] Hs']; subst. cbn [subtags_bytes flat_map]. fold (subtags_bytes t). rewrite <- !app_assoc. cbn [app].
    rewrite byte_is_at. change (45 =? 45) with true. cbv iota.
    assert (Ast : ascii_str st) by now apply alnum_ascii_str.
    assert (Vmore : Valid (st ++ subtags_bytes t ++ rest)).
    { apply valid_app; [now apply valid_ascii|]. apply valid_app; [|assumption]. apply valid_ascii. apply subtags_ascii. eapply Forall_impl; [|exact Hs']. intros a [_ Ha]. exact Ha. }
    assert (B : Bnd (pre ++ 45 :: st ++ subtags_bytes t ++ rest) (S (length pre))).
    { replace (pre ++ 45 :: st ++ subtags_bytes t ++ rest) with ((pre ++ [45]) ++ st ++ subtags_bytes t ++ rest) by (rewrite <- app_assoc; reflexivity).
      replace (S (length pre)) with (length (pre ++ [45])) by (rewrite app_length; cbn; lia).
      apply valid_app_bnd; [apply valid_ascii; apply Forall_app; split; [assumption|repeat constructor; lia]|assumption]. }
    rewrite slice_from_bnd by assumption. cbn [lift bind].
    replace (skipn (S (length pre)) (pre ++ 45 :: st ++ subtags_bytes t ++ rest)) with (st ++ subtags_bytes t ++ rest).
    2:{ replace (pre ++ 45 :: st ++ subtags_bytes t ++ rest) with ((pre ++ [45]) ++ st ++ subtags_bytes t ++ rest) by (rewrite <- app_assoc; reflexivity).
        replace (S (length pre)) with (length (pre ++ [45])) by (rewrite app_length; cbn; lia). now rewrite skipn_app, skipn_all, Nat.sub_diag. }
    rewrite count_while_exact; [|assumption|].
    2:{ destruct t as [|st2 t2]; cbn [subtags_bytes flat_map app]; [destruct rest as [|b r]; [exact I|tauto]|reflexivity]. }
    destruct (Nat.eqb_spec (length st) 0) as [E0|_]; [destruct st; [congruence|discriminate]|].
    replace (pre ++ 45 :: st ++ subtags_bytes t ++ rest) with ((pre ++ 45 :: st) ++ subtags_bytes t ++ rest) by (rewrite <- app_assoc; reflexivity).
    replace (S (length pre) + length st)%nat with (length (pre ++ 45 :: st)) by (rewrite app_length; cbn [length]; lia).
    rewrite IH; try assumption.
    + f_equal. rewrite !app_length. cbn [length]. rewrite app_length. lia.
    + apply Forall_app. split; [assumption|]. constructor; [lia|assumption].
    + cbn in Hf. lia.
Qed.

Inductive LangTag : str -> Prop :=
| langtag : forall primary subtags, primary <> [] -> Forall (fun b => is_ascii_alpha b = true) primary ->
    Forall (fun st => st <> [] /\ Forall (fun b => is_ascii_alnum b = true) st) subtags -> LangTag (primary ++ subtags_bytes subtags).

Lemma lit_tail_lang : forall lit lang rest, Valid lit -> LangTag lang -> Valid rest -> lang_stop rest ->
  lit_tail (lit ++ 64 :: lang ++ rest) (length lit) = Ok (lit ++ 64 :: lang, rest).
Proof.
  intros lit lang rest Vl Hl Vr Hst. inversion Hl as [primary subtags Hne Hp Hs]; subst.
  pose proof (lang_stop_head rest Vr Hst) as Hh.
  assert (Ap : ascii_str primary) by (eapply Forall_impl; [|exact Hp]; intros b Hb; unfold is_ascii_alpha, is_ascii_upper, is_ascii_lower in Hb; lia).
  assert (As : ascii_str (subtags_bytes subtags)) by (apply subtags_ascii; eapply Forall_impl; [|exact Hs]; intros a [_ Ha]; exact Ha).
  set (lang := primary ++ subtags_bytes subtags). assert (Al : ascii_str lang) by (apply Forall_app; now split).
  assert (Vlang : Valid (lang ++ rest)) by (apply valid_app; [now apply valid_ascii|assumption]).
  assert (V64 : Valid (64 :: lang ++ rest)) by (apply (valid_app [64]); [apply valid_ascii; repeat constructor; lia|assumption]).
  unfold lit_tail. rewrite slice_from_bnd by (now apply valid_app_bnd). cbn [lift bind]. rewrite skipn_app, skipn_all, Nat.sub_diag. cbn [skipn app].
  change (64 =? 64) with true. cbv beta iota zeta.
  assert (Ecw : count_while is_ascii_alpha (lang ++ rest) = length primary).
  { unfold lang. rewrite <- app_assoc. apply count_while_exact; [assumption|].
    destruct subtags as [|st t]; cbn [subtags_bytes flat_map app]; [destruct rest as [|b r]; [exact I|tauto]|reflexivity]. }
  rewrite Ecw. destruct (Nat.eqb_spec (length primary) 0) as [E0|_]; [destruct primary; [congruence|discriminate]|].
  assert (Ell : lang_loop (S (length (lang ++ rest))) (lang ++ rest) (length primary) (length (64 :: lang ++ rest)) = Ok (length lang)).
  { unfold lang at 2. rewrite <- app_assoc. rewrite (lang_loop_exact subtags); try assumption.
    - unfold lang. now rewrite app_length.
    - destruct rest as [|b r]; [exact I|tauto].
    - unfold lang. rewrite !app_length. assert (length subtags <= length (subtags_bytes subtags))%nat; [|lia].
      clear. induction subtags as [|st t IH]; [cbn; lia|]. cbn [subtags_bytes flat_map length]. rewrite app_length. cbn [length]. fold (subtags_bytes t). lia. }
  rewrite Ell. cbn [bind]. rewrite slice_from_bnd by (apply valid_app_bnd; [now apply valid_ascii|assumption]). cbn [lift bind].
  rewrite skipn_app, skipn_all, Nat.sub_diag. cbn [skipn app].
  assert (Fin : split_at (lit ++ 64 :: lang ++ rest) (length lit + (1 + length lang)) = Ok (lit ++ 64 :: lang, rest)).
  { replace (lit ++ 64 :: lang ++ rest) with ((lit ++ 64 :: lang) ++ rest) by (rewrite <- app_assoc; reflexivity).
    replace (length lit + (1 + length lang))%nat with (length (lit ++ 64 :: lang)) by (rewrite app_length; cbn [length]; lia).
    apply split_at_app; [|assumption]. apply valid_app; [assumption|]. apply (valid_app [64]); [apply valid_ascii; repeat constructor; lia|now apply valid_ascii]. }
  unfold lang_stop in Hst. destruct (next_char rest) as [[c k]|]; [|exact Fin].
  destruct Hst as (Ha & H45 & H95). rewrite Ha. destruct (N.eqb_spec c 45); [congruence|]. destruct (N.eqb_spec c 95); [congruence|]. exact Fin.
Qed.

(* ---- datatypes: `^^` layout (IRI | prefixed name) ---------------------------------------------------------------------------------------- *)
Definition is_dt_kind (t : Term) : bool := match t with TIri _ | TPn _ _ => true | _ => false end.
Lemma lit_tail_datatype : forall lit wd t rest, Valid lit -> lay_okb wd = true -> term_okb t = true -> is_dt_kind t = true -> term_stopb t rest = true -> Valid rest ->
  lit_tail (lit ++ 94 :: 94 :: lay_bytes wd ++ term_text t ++ rest) (length lit) = Ok (lit ++ 94 :: 94 :: lay_bytes wd ++ term_text t, rest).
Proof.
  intros lit wd t rest Vl Hw Hok Hk Hst Vr. pose proof (lay_ok _ Hw) as Lw.
  assert (Vt : Valid (term_text t ++ rest)) by (apply valid_app; [now apply term_valid|assumption]).
  assert (Vw : Valid (lay_bytes wd ++ term_text t ++ rest)) by (apply valid_app; [now apply layoutC_valid|assumption]).
  assert (V2 : Valid (94 :: 94 :: lay_bytes wd ++ term_text t ++ rest)).
  { apply (valid_app [94]); [apply valid_ascii; repeat constructor; lia|]. apply (valid_app [94]); [apply valid_ascii; repeat constructor; lia|assumption]. }
  unfold lit_tail. rewrite slice_from_bnd by (now apply valid_app_bnd). cbn [lift bind]. rewrite skipn_app, skipn_all, Nat.sub_diag. cbn [skipn app].
  change (94 =? 64) with false. change (94 =? 94) with true. cbv beta iota zeta.
  rewrite (term_skip t _ rest Hok Lw Vr).
  assert (Scan : orelse (iri (term_text t ++ rest)) (fun _ => prefixed_name (term_text t ++ rest)) = Ok (term_text t, rest)).
  { pose proof (term_scan_ok t [] rest Hok Hst (LC_end [] W_nil) Vr) as Sc. cbn [app] in Sc.
    destruct (skip_head t [] rest Hok (LC_end [] W_nil) Vr) as (b & tl & Esk & Etx & Hf & Vx). cbn [app] in Esk.
    destruct t; try discriminate Hk; cbn [term_scan head_fact] in *.
    - now rewrite Sc.
    - assert (Hb60 : b <> 60) by (unfold is_ascii_alpha, is_ascii_upper, is_ascii_lower in Hf; lia).
      destruct (iri_err _ _ _ Esk Hb60) as (? & ? & ? & ->). cbn [orelse]. exact Sc. }
  rewrite Scan. cbn [bind snd].
  set (tok := lit ++ 94 :: 94 :: lay_bytes wd ++ term_text t).
  assert (Et : lit ++ 94 :: 94 :: lay_bytes wd ++ term_text t ++ rest = tok ++ rest) by (unfold tok; repeat first [rewrite <- app_assoc | progress cbn [app]]; reflexivity).
  rewrite Et. rewrite app_length. replace (length tok + length rest - length rest)%nat with (length tok) by lia.
  apply split_at_app; [|assumption]. unfold tok. apply valid_app; [assumption|].
  apply (valid_app [94]); [apply valid_ascii; repeat constructor; lia|]. apply (valid_app [94]); [apply valid_ascii; repeat constructor; lia|].
  apply valid_app; [now apply layoutC_valid|now apply term_valid].
Qed.

(* ---- the three suffix forms after a short literal ------------------------------------------------------------------------------------------ *)
Theorem literal_lang_roundtrip : forall w lit lang rest, LayoutC w -> LitTok lit -> LangTag lang -> Valid rest -> lang_stop rest ->
  quoted_literal (w ++ (lit ++ 64 :: lang) ++ rest) = Ok (lit ++ 64 :: lang, rest).
Proof.
  intros w lit lang rest Hw Hl Hg Vr Hst.
  assert (Vlit : Valid lit) by (inversion Hl as [q items Hq Hi]; subst; apply (valid_app [q]); [apply valid_ascii; repeat constructor; lia|];
                                apply valid_app; [eapply lit_body_valid; eassumption|apply valid_ascii; repeat constructor; lia]).
  assert (Al : ascii_str lang).
  { inversion Hg as [primary subtags Hne Hp Hs]; subst. apply Forall_app. split.
    - eapply Forall_impl; [|exact Hp]. intros b Hb. unfold is_ascii_alpha, is_ascii_upper, is_ascii_lower in Hb. lia.
    - apply subtags_ascii. eapply Forall_impl; [|exact Hs]. intros a [_ Ha]. exact Ha. }
  rewrite <- app_assoc. cbn [app]. rewrite short_literal_open; try assumption.
  - now apply lit_tail_lang.
  - apply (valid_app [64]); [apply valid_ascii; repeat constructor; lia|]. apply valid_app; [now apply valid_ascii|assumption].
  - inversion Hl as [q items Hq Hi]; subst. cbn [nth]. lia.
Qed.
Theorem literal_datatype_roundtrip : forall w lit wd t rest, LayoutC w -> LitTok lit -> lay_okb wd = true -> term_okb t = true -> is_dt_kind t = true ->
  term_stopb t rest = true -> Valid rest ->
  quoted_literal (w ++ (lit ++ 94 :: 94 :: lay_bytes wd ++ term_text t) ++ rest) = Ok (lit ++ 94 :: 94 :: lay_bytes wd ++ term_text t, rest).
Proof.
  intros w lit wd t rest Hw Hl Hwd Hok Hk Hst Vr.
  assert (Vlit : Valid lit) by (inversion Hl as [q items Hq Hi]; subst; apply (valid_app [q]); [apply valid_ascii; repeat constructor; lia|];
                                apply valid_app; [eapply lit_body_valid; eassumption|apply valid_ascii; repeat constructor; lia]).
  replace ((lit ++ 94 :: 94 :: lay_bytes wd ++ term_text t) ++ rest) with (lit ++ 94 :: 94 :: lay_bytes wd ++ term_text t ++ rest)
    by (repeat first [rewrite <- app_assoc | progress cbn [app]]; reflexivity).
  rewrite short_literal_open; try assumption.
  - now apply lit_tail_datatype.
  - apply (valid_app [94]); [apply valid_ascii; repeat constructor; lia|]. apply (valid_app [94]); [apply valid_ascii; repeat constructor; lia|].
    apply valid_app; [apply layoutC_valid; now apply lay_ok|]. apply valid_app; [now apply term_valid|assumption].
  - inversion Hl as [q items Hq Hi]; subst. cbn [nth]. lia.
Qed.

(* ---- long strings: qqq body qqq; the body may contain line breaks and the other quote, the delimiter's quote only escaped --------------- *)
Definition long_item_ok (q : N) (it : LitItem) : Prop :=
  match it with
  | LCh c => scalar c /\ c <> q /\ c <> 92
  | LSimple e => simple_escape e = true
  | LU4 h => hex_ok 4 h
  | LU8 h => hex_ok 8 h
  end.
Lemma long_item_valid : forall q it, long_item_ok q it -> Valid (lit_item_bytes it).
Proof.
  intros q [c|e|h|h] H; cbn in *.
  - destruct H as (Hc & _). exists [c]. split; [now constructor|cbn; now rewrite app_nil_r].
  - apply valid_ascii. repeat constructor; try lia. now apply simple_escape_ascii.
  - destruct H as (_ & Hh & _). apply valid_ascii. repeat constructor; try lia. now apply hex_ascii_str.
  - destruct H as (_ & Hh & _). apply valid_ascii. repeat constructor; try lia. now apply hex_ascii_str.
Qed.
Lemma long_body_valid : forall q items, Forall (long_item_ok q) items -> Valid (lit_body items).
Proof. induction 1; [apply valid_nil|]. cbn [lit_body flat_map]. apply valid_app; [eapply long_item_valid; eassumption|assumption]. Qed.

Lemma lit_loop_long : forall q items fuel pre rest, (q = 34 \/ q = 39) -> Forall (long_item_ok q) items -> Valid pre -> Valid rest ->
  Nat.lt (length (lit_body items ++ q :: q :: q :: rest)) fuel ->
  lit_loop fuel (pre ++ lit_body items ++ q :: q :: q :: rest) [q; q; q] true (length pre) = Ok (Some (length pre + length (lit_body items) + 3)%nat).
Proof.
  intros q items. induction items as [|it items IH]; intros fuel pre rest Hq Hi Hp Hr Hf;
    assert (Vqqq : Valid (q :: q :: q :: rest)) by (apply (valid_app [q; q; q]); [apply valid_ascii; repeat constructor; lia|assumption]).
  - cbn [lit_body flat_map app length] in *. destruct fuel as [|f]; [lia|]. cbn [lit_loop].
    assert (Vt : Valid (q :: q :: q :: rest)) by (exact Vqqq).
    destruct (Nat.ltb_spec (length pre) (length (pre ++ q :: q :: q :: rest))) as [_|Hge]; [|rewrite app_length in Hge; cbn in Hge; lia].
    rewrite slice_from_bnd by (now apply valid_app_bnd). cbn [lift bind].
    rewrite skipn_app, skipn_all, Nat.sub_diag. cbn [skipn app starts_with]. rewrite !N.eqb_refl. cbn [andb length].
    f_equal. f_equal. lia.
  - inversion Hi as [|? ? Hit Hi']; subst. cbn [lit_body flat_map] in *. fold (lit_body items) in *. rewrite <- app_assoc in *.
    destruct fuel as [|f]; [lia|]. cbn [lit_loop].
    assert (Vb : Valid (lit_body items ++ q :: q :: q :: rest)).
    { apply valid_app; [eapply long_body_valid; eassumption|]. exact Vqqq. }
    assert (Vt : Valid (lit_item_bytes it ++ lit_body items ++ q :: q :: q :: rest)) by (apply valid_app; [eapply long_item_valid; eassumption|assumption]).
    destruct (Nat.ltb_spec (length pre) (length (pre ++ lit_item_bytes it ++ lit_body items ++ q :: q :: q :: rest))) as [_|Hge].
    2:{ rewrite !app_length in Hge. cbn [length] in Hge. lia. }
    rewrite slice_from_bnd by (now apply valid_app_bnd). cbn [lift bind].
    rewrite skipn_app, skipn_all, Nat.sub_diag. cbn [skipn app].
    assert (Next : forall n, length (lit_item_bytes it) = n -> (1 <= n)%nat ->
              lit_loop f (pre ++ lit_item_bytes it ++ lit_body items ++ q :: q :: q :: rest) [q; q; q] true (length pre + n)
              = Ok (Some (length pre + length (lit_item_bytes it ++ lit_body items) + 3)%nat)).
    { intros n Hn Hn1. specialize (IH f (pre ++ lit_item_bytes it) rest Hq Hi' (valid_app _ _ Hp (long_item_valid _ _ Hit)) Hr).
      rewrite (app_length pre (lit_item_bytes it)), <- !app_assoc in IH. rewrite Hn in IH. rewrite IH; [|rewrite app_length in Hf; lia].
      f_equal. f_equal. rewrite app_length. lia. }
    assert (Hq128 : q < 128) by lia.
    destruct it as [c|e|h|h]; cbn [lit_item_bytes long_item_ok] in *.
    + destruct Hit as (Hc & Hcq & H92).
      destruct (head_not2 c (lit_body items ++ q :: q :: q :: rest) q Hc Hq128 Hcq H92) as (b & t & Eb & Hbq & Hb92). rewrite Eb.
      cbn [starts_with]. destruct (N.eqb_spec q b); [congruence|]. cbn [andb]. rewrite <- Eb.
      rewrite next_char_encode by now apply scalar_lt.
      cbn [negb andb].
      destruct (N.eqb_spec c 92); [congruence|]. apply Next; [apply encode_char_len|apply len_utf8_pos].
    + pose proof (simple_escape_ascii e Hit) as He. cbn [app starts_with].
      destruct (N.eqb_spec q 92); [lia|]. cbn [andb next_char]. change (92 <? 128) with true. cbv beta iota.
      change (92 =? 13) with false. change (92 =? 10) with false. cbn [negb andb orb]. change (92 =? 92) with true. cbv beta iota.
      assert (B1 : Bnd (pre ++ 92 :: e :: lit_body items ++ q :: q :: q :: rest) (length pre + 1)).
      { replace (pre ++ 92 :: e :: lit_body items ++ q :: q :: q :: rest) with ((pre ++ [92]) ++ e :: lit_body items ++ q :: q :: q :: rest) by (rewrite <- app_assoc; reflexivity).
        replace (length pre + 1)%nat with (length (pre ++ [92])) by (rewrite app_length; reflexivity).
        apply valid_app_bnd; [apply valid_app; [assumption|apply valid_ascii; repeat constructor; lia]|].
        apply (valid_app [e]); [apply valid_ascii; repeat constructor; assumption|assumption]. }
      rewrite slice_from_bnd by assumption. cbn [lift bind].
      replace (skipn (length pre + 1) (pre ++ 92 :: e :: lit_body items ++ q :: q :: q :: rest)) with (e :: lit_body items ++ q :: q :: q :: rest).
      2:{ rewrite <- skipn_plus, skipn_app, skipn_all, Nat.sub_diag. reflexivity. }
      cbn [next_char]. destruct (N.ltb_spec e 128); [|lia]. rewrite Hit.
      replace (length pre + 1 + 1)%nat with (length pre + 2)%nat by lia. apply (Next 2%nat); [reflexivity|lia].
    + cbn [app starts_with].
      destruct (N.eqb_spec q 92); [lia|]. cbn [andb next_char]. change (92 <? 128) with true. cbv beta iota.
      change (92 =? 13) with false. change (92 =? 10) with false. cbn [negb andb orb]. change (92 =? 92) with true. cbv beta iota.
      destruct Hit as (Hl & Hh & Hs).
      assert (Vh : Valid (h ++ lit_body items ++ q :: q :: q :: rest)) by (apply valid_app; [apply valid_ascii; now apply hex_ascii_str|assumption]).
      assert (B1 : Bnd (pre ++ 92 :: 117 :: h ++ lit_body items ++ q :: q :: q :: rest) (length pre + 1)).
      { replace (pre ++ 92 :: 117 :: h ++ lit_body items ++ q :: q :: q :: rest) with ((pre ++ [92]) ++ 117 :: h ++ lit_body items ++ q :: q :: q :: rest) by (rewrite <- app_assoc; reflexivity).
        replace (length pre + 1)%nat with (length (pre ++ [92])) by (rewrite app_length; reflexivity).
        apply valid_app_bnd; [apply valid_app; [assumption|apply valid_ascii; repeat constructor; lia]|].
        apply (valid_app [117]); [apply valid_ascii; repeat constructor; lia|assumption]. }
      rewrite slice_from_bnd by assumption. cbn [lift bind].
      replace (skipn (length pre + 1) (pre ++ 92 :: 117 :: h ++ lit_body items ++ q :: q :: q :: rest)) with (117 :: h ++ lit_body items ++ q :: q :: q :: rest).
      2:{ rewrite <- skipn_plus, skipn_app, skipn_all, Nat.sub_diag. reflexivity. }
      cbn [next_char]. change (117 <? 128) with true. cbv beta iota. change (simple_escape 117) with false. cbv beta iota.
      change ((117 =? 117) || (117 =? 85)) with true. cbv beta iota. change (117 =? 117) with true. cbv beta iota.
      rewrite slice_from_bnd by (apply (valid_app_bnd [117]); [apply valid_ascii; repeat constructor; lia|assumption]).
      cbn [lift bind skipn length].
      destruct (Nat.ltb_spec (length (h ++ lit_body items ++ q :: q :: q :: rest)) 4) as [Hlt|_]; [rewrite app_length in Hlt; lia|]. cbn [orb].
      rewrite <- Hl, firstn_app, firstn_all, Nat.sub_diag. cbn [firstn]. rewrite app_nil_r, Hh. cbn [negb].
      rewrite slice_to_bnd by (apply valid_app_bnd; [apply valid_ascii; now apply hex_ascii_str|assumption]).
      cbn [lift bind]. rewrite firstn_app, firstn_all, Nat.sub_diag. cbn [firstn]. rewrite app_nil_r, Hs.
      replace (length pre + 1 + (1 + length h))%nat with (length pre + 6)%nat by lia. apply (Next 6%nat); [cbn [length]; lia|lia].
    + cbn [app starts_with].
      destruct (N.eqb_spec q 92); [lia|]. cbn [andb next_char]. change (92 <? 128) with true. cbv beta iota.
      change (92 =? 13) with false. change (92 =? 10) with false. cbn [negb andb orb]. change (92 =? 92) with true. cbv beta iota.
      destruct Hit as (Hl & Hh & Hs).
      assert (Vh : Valid (h ++ lit_body items ++ q :: q :: q :: rest)) by (apply valid_app; [apply valid_ascii; now apply hex_ascii_str|assumption]).
      assert (B1 : Bnd (pre ++ 92 :: 85 :: h ++ lit_body items ++ q :: q :: q :: rest) (length pre + 1)).
      { replace (pre ++ 92 :: 85 :: h ++ lit_body items ++ q :: q :: q :: rest) with ((pre ++ [92]) ++ 85 :: h ++ lit_body items ++ q :: q :: q :: rest) by (rewrite <- app_assoc; reflexivity).
        replace (length pre + 1)%nat with (length (pre ++ [92])) by (rewrite app_length; reflexivity).
        apply valid_app_bnd; [apply valid_app; [assumption|apply valid_ascii; repeat constructor; lia]|].
        apply (valid_app [85]); [apply valid_ascii; repeat constructor; lia|assumption]. }
      rewrite slice_from_bnd by assumption. cbn [lift bind].
      replace (skipn (length pre + 1) (pre ++ 92 :: 85 :: h ++ lit_body items ++ q :: q :: q :: rest)) with (85 :: h ++ lit_body items ++ q :: q :: q :: rest).
      2:{ rewrite <- skipn_plus, skipn_app, skipn_all, Nat.sub_diag. reflexivity. }
      cbn [next_char]. change (85 <? 128) with true. cbv beta iota. change (simple_escape 85) with false. cbv beta iota.
      change ((85 =? 117) || (85 =? 85)) with true. cbv beta iota. change (85 =? 117) with false. cbv beta iota.
      rewrite slice_from_bnd by (apply (valid_app_bnd [85]); [apply valid_ascii; repeat constructor; lia|assumption]).
      cbn [lift bind skipn length].
      destruct (Nat.ltb_spec (length (h ++ lit_body items ++ q :: q :: q :: rest)) 8) as [Hlt|_]; [rewrite app_length in Hlt; lia|]. cbn [orb].
      rewrite <- Hl, firstn_app, firstn_all, Nat.sub_diag. cbn [firstn]. rewrite app_nil_r, Hh. cbn [negb].
      rewrite slice_to_bnd by (apply valid_app_bnd; [apply valid_ascii; now apply hex_ascii_str|assumption]).
      cbn [lift bind]. rewrite firstn_app, firstn_all, Nat.sub_diag. cbn [firstn]. rewrite app_nil_r, Hs.
      replace (length pre + 1 + (1 + length h))%nat with (length pre + 10)%nat by lia. apply (Next 10%nat); [cbn [length]; lia|lia].
Qed.


Inductive LongTok : str -> Prop :=
| longtok : forall q items, (q = 34 \/ q = 39) -> Forall (long_item_ok q) items -> LongTok (q :: q :: q :: lit_body items ++ [q; q; q]).
Lemma longtok_valid : forall lit, LongTok lit -> Valid lit.
Proof.
  intros lit H. inversion H as [q items Hq Hi]; subst. apply (valid_app [q; q; q]); [apply valid_ascii; repeat constructor; lia|].
  apply valid_app; [eapply long_body_valid; eassumption|apply valid_ascii; repeat constructor; lia].
Qed.
Lemma littok_valid : forall lit, LitTok lit -> Valid lit.
Proof.
  intros lit Hl. inversion Hl as [q items Hq Hi]; subst. apply (valid_app [q]); [apply valid_ascii; repeat constructor; lia|].
  apply valid_app; [eapply lit_body_valid; eassumption|apply valid_ascii; repeat constructor; lia].
Qed.

Lemma long_literal_open : forall w lit r, LayoutC w -> LongTok lit -> Valid r ->
  quoted_literal (w ++ lit ++ r) = lit_tail (lit ++ r) (length lit).
Proof.
  intros w tok rest Hw Ht Hr. pose proof (longtok_valid _ Ht) as Vtok. inversion Ht as [q items Hq Hi]; subst.
  assert (Hq128 : q < 128) by lia.
  unfold quoted_literal, quoted_literal_with. rewrite skip_ws_closed; [|assumption|now apply valid_app|].
  2:{ cbn [app]. apply ascii_head_not_layout; [assumption|destruct Hq as [-> | ->]; reflexivity|lia]. }
  cbn [app]. replace ((q =? 39) || (q =? 34)) with true by (destruct Hq as [-> | ->]; reflexivity).
  rewrite <- app_assoc. cbn [app].
  assert (Htq : starts_with [q; q; q] (q :: q :: q :: lit_body items ++ q :: q :: q :: rest) = true) by (cbn [starts_with]; now rewrite !N.eqb_refl).
  rewrite Htq. cbv beta iota zeta. cbn [length].
  pose proof (lit_loop_long q items (S (length (q :: q :: q :: lit_body items ++ q :: q :: q :: rest))) [q; q; q] rest Hq Hi
                ltac:(apply valid_ascii; repeat constructor; lia) Hr ltac:(cbn [length]; lia)) as H.
  cbn [app length] in H. rewrite H. cbn [bind].
  unfold lit_tail. replace (S (S (S (length (lit_body items ++ [q; q; q]))))) with (3 + length (lit_body items) + 3)%nat by (rewrite app_length; cbn [length]; lia).
  replace ((q :: q :: q :: lit_body items ++ [q; q; q]) ++ rest) with (q :: q :: q :: lit_body items ++ q :: q :: q :: rest) by (cbn [app]; now rewrite <- app_assoc).
  cbn [length]. reflexivity.
Qed.

(* a literal: short or long *)
Definition AnyLit (lit : str) : Prop := LitTok lit \/ LongTok lit.
Lemma anylit_valid : forall lit, AnyLit lit -> Valid lit.
Proof. intros lit [H|H]; [now apply littok_valid|now apply longtok_valid]. Qed.
Lemma literal_open : forall w lit r, LayoutC w -> AnyLit lit -> Valid r -> (match r with b :: _ => b <> 34 /\ b <> 39 | [] => True end) ->
  quoted_literal (w ++ lit ++ r) = lit_tail (lit ++ r) (length lit).
Proof.
  intros w lit r Hw [H|H] Vr Hh; [|now apply long_literal_open]. apply short_literal_open; try assumption.
  inversion H as [q items Hq Hi]; subst. cbn [nth]. destruct r as [|b r']; [exact I|]. destruct Hh. destruct Hq; subst; assumption.
Qed.

Theorem literal_plain_roundtrip : forall w lit rest, LayoutC w -> AnyLit lit -> Valid rest ->
  (match rest with b :: _ => b <> 64 /\ b <> 94 /\ b <> 34 /\ b <> 39 | [] => True end) ->
  quoted_literal (w ++ lit ++ rest) = Ok (lit, rest).
Proof.
  intros w lit rest Hw Hl Vr Hh. rewrite literal_open; try assumption; [|destruct rest; tauto].
  apply lit_tail_plain; [now apply anylit_valid|assumption|destruct rest; tauto].
Qed.
Theorem literal_lang_roundtrip_any : forall w lit lang rest, LayoutC w -> AnyLit lit -> LangTag lang -> Valid rest -> lang_stop rest ->
  quoted_literal (w ++ (lit ++ 64 :: lang) ++ rest) = Ok (lit ++ 64 :: lang, rest).
Proof.
  intros w lit lang rest Hw Hl Hg Vr Hst. pose proof (anylit_valid _ Hl) as Vlit.
  assert (Al : ascii_str lang).
  { inversion Hg as [primary subtags Hne Hp Hs]; subst. apply Forall_app. split.
    - eapply Forall_impl; [|exact Hp]. intros b Hb. unfold is_ascii_alpha, is_ascii_upper, is_ascii_lower in Hb. lia.
    - apply subtags_ascii. eapply Forall_impl; [|exact Hs]. intros a [_ Ha]. exact Ha. }
  rewrite <- app_assoc. cbn [app]. rewrite literal_open; try assumption.
  - now apply lit_tail_lang.
  - apply (valid_app [64]); [apply valid_ascii; repeat constructor; lia|]. apply valid_app; [now apply valid_ascii|assumption].
  - lia.
Qed.
Theorem literal_datatype_roundtrip_any : forall w lit wd t rest, LayoutC w -> AnyLit lit -> lay_okb wd = true -> term_okb t = true -> is_dt_kind t = true ->
  term_stopb t rest = true -> Valid rest ->
  quoted_literal (w ++ (lit ++ 94 :: 94 :: lay_bytes wd ++ term_text t) ++ rest) = Ok (lit ++ 94 :: 94 :: lay_bytes wd ++ term_text t, rest).
Proof.
  intros w lit wd t rest Hw Hl Hwd Hok Hk Hst Vr. pose proof (anylit_valid _ Hl) as Vlit.
  replace ((lit ++ 94 :: 94 :: lay_bytes wd ++ term_text t) ++ rest) with (lit ++ 94 :: 94 :: lay_bytes wd ++ term_text t ++ rest)
    by (repeat first [rewrite <- app_assoc | progress cbn [app]]; reflexivity).
  rewrite literal_open; try assumption.
  - now apply lit_tail_datatype.
  - apply (valid_app [94]); [apply valid_ascii; repeat constructor; lia|]. apply (valid_app [94]); [apply valid_ascii; repeat constructor; lia|].
    apply valid_app; [apply layoutC_valid; now apply lay_ok|]. apply valid_app; [now apply term_valid|assumption].
  - lia.
Qed.


(* ---- quoted triples `<< s p o >>` as terms (one level; inner layout restricted to whitespace) ------------------------------------------- *)
(* The open finding C16-comment-in-quoted-triple is about the ANSWERS of a request changing when a comment is put inside
   << >> (the raw slice, comment included, becomes the term's text).  The printer therefore only emits whitespace
   inside a quoted triple: `lay_wsb`. *)
Definition lay_wsb (l : list LItem) : bool := forallb (fun it => match it with LWs _ => true | LCom _ _ => false end) l.
Record QtC := { qt_l1 : list LItem; qt_s : Term; qt_l2 : list LItem; qt_p : Term; qt_l3 : list LItem; qt_o : Term; qt_l4 : list LItem }.
Definition pr_qt (c : QtC) : str :=
  60 :: 60 :: lay_bytes (qt_l1 c) ++ term_text (qt_s c) ++ lay_bytes (qt_l2 c) ++ term_text (qt_p c) ++ lay_bytes (qt_l3 c) ++ term_text (qt_o c)
  ++ lay_bytes (qt_l4 c) ++ [62; 62].
Definition wf_qt (c : QtC) (following : str) : bool :=
  let x3 := lay_bytes (qt_l4 c) ++ 62 :: 62 :: following in
  let x2 := lay_bytes (qt_l3 c) ++ term_text (qt_o c) ++ x3 in
  let x1 := lay_bytes (qt_l2 c) ++ term_text (qt_p c) ++ x2 in
  lay_okb (qt_l1 c) && lay_wsb (qt_l1 c) && lay_okb (qt_l2 c) && lay_wsb (qt_l2 c) && lay_okb (qt_l3 c) && lay_wsb (qt_l3 c) && lay_okb (qt_l4 c) && lay_wsb (qt_l4 c)
  && term_okb (qt_s c) && is_subject_kind (qt_s c) && term_stopb (qt_s c) x1
  && term_okb (qt_p c) && is_predicate_kind (qt_p c) && term_stopb (qt_p c) x2 && negb (a_hitb (term_text (qt_p c) ++ x2))
  && term_okb (qt_o c) && term_stopb (qt_o c) x3 && object_kw_ok (qt_o c) x3.

Lemma quoted_triple_S : forall f s, quoted_triple (S f) s =
  (let input := skip_ws s in
   do '(_, remaining) <- qt_parts_with (quoted_triple f) input;
   do t <- lift (slice_to input (length input - length remaining));
   Ok (t, remaining)).
Proof. reflexivity. Qed.

Theorem qt_roundtrip : forall c f w rest, wf_qt c rest = true -> LayoutC w -> Valid rest ->
  quoted_triple (S (S f)) (w ++ pr_qt c ++ rest) = Ok (pr_qt c, rest).
Proof.
  intros c f w rest H Hw Hr. unfold wf_qt in H. cbv zeta in H.
  repeat (apply andb_true_iff in H; destruct H as [H ?]).
  repeat match goal with X : negb _ = true |- _ => apply negb_true_iff in X end.
  match goal with X : lay_okb (qt_l2 c) = true |- _ => rename X into L2 end.
  match goal with X : lay_okb (qt_l3 c) = true |- _ => rename X into L3 end. match goal with X : lay_okb (qt_l4 c) = true |- _ => rename X into L4 end.
  match goal with X : term_okb (qt_s c) = true |- _ => rename X into Os end. match goal with X : term_okb (qt_p c) = true |- _ => rename X into Op end.
  match goal with X : term_okb (qt_o c) = true |- _ => rename X into Oo end.
  match goal with X : term_stopb (qt_s c) _ = true |- _ => rename X into Ss end. match goal with X : term_stopb (qt_p c) _ = true |- _ => rename X into Sp end.
  match goal with X : term_stopb (qt_o c) _ = true |- _ => rename X into So end.
  match goal with X : is_subject_kind _ = true |- _ => rename X into Ks end. match goal with X : is_predicate_kind _ = true |- _ => rename X into Kp end.
  match goal with X : a_hitb _ = false |- _ => rename X into Ha end. match goal with X : object_kw_ok _ _ = true |- _ => rename X into Ko end.
  rename H into L1.
  set (R4 := lay_bytes (qt_l4 c) ++ 62 :: 62 :: rest) in *. set (R3 := lay_bytes (qt_l3 c) ++ term_text (qt_o c) ++ R4) in *.
  set (R2 := lay_bytes (qt_l2 c) ++ term_text (qt_p c) ++ R3) in *. set (R1 := lay_bytes (qt_l1 c) ++ term_text (qt_s c) ++ R2).
  assert (V6262 : Valid (62 :: 62 :: rest)) by (apply (valid_app [62; 62]); [apply valid_ascii; repeat constructor; lia|assumption]).
  assert (V4 : Valid R4) by (apply valid_app; [apply layoutC_valid; now apply lay_ok|assumption]).
  assert (V3o : Valid (term_text (qt_o c) ++ R4)) by (apply valid_app; [now apply term_valid|assumption]).
  assert (V3 : Valid R3) by (apply valid_app; [apply layoutC_valid; now apply lay_ok|assumption]).
  assert (V2p : Valid (term_text (qt_p c) ++ R3)) by (apply valid_app; [now apply term_valid|assumption]).
  assert (V2 : Valid R2) by (apply valid_app; [apply layoutC_valid; now apply lay_ok|assumption]).
  assert (V1s : Valid (term_text (qt_s c) ++ R2)) by (apply valid_app; [now apply term_valid|assumption]).
  assert (V1 : Valid R1) by (apply valid_app; [apply layoutC_valid; now apply lay_ok|assumption]).
  assert (EQ : pr_qt c ++ rest = 60 :: 60 :: R1).
  { unfold pr_qt, R1, R2, R3, R4. repeat first [rewrite <- app_assoc | progress cbn [app]]. reflexivity. }
  assert (VQ : Valid (60 :: 60 :: R1)) by (apply (valid_app [60; 60]); [apply valid_ascii; repeat constructor; lia|assumption]).
  assert (NQ : ~ starts_layout (60 :: 60 :: R1)) by (apply ascii_head_not_layout; [lia|reflexivity|lia]).
  assert (Esk : skip_ws (60 :: 60 :: R1) = 60 :: 60 :: R1) by now apply skip_ws_fixed.
  rewrite EQ. rewrite quoted_triple_S. cbv zeta. rewrite (skip_ws_closed w _ Hw VQ NQ).
  unfold qt_parts_with. rewrite Esk. change (strip_prefix [60; 60] (60 :: 60 :: R1)) with (Some R1). cbv iota.
  change (subject_term_with (quoted_triple (S f))) with (subject_term (S f)). change (object_term_with (quoted_triple (S f))) with (object_term (S f)).
  unfold R1. rewrite (subject_ok f (qt_s c) _ R2 Os Ks Ss (lay_ok _ L1) V2). cbn [positioned bind].
  unfold R2. rewrite (predicate_ok (qt_p c) _ R3 Op Kp Sp Ha (lay_ok _ L2) V3). cbn [positioned bind].
  unfold R3. rewrite (object_ok f (qt_o c) _ R4 Oo So Ko (lay_ok _ L3) V4). cbn [positioned bind].
  unfold R4. rewrite (skip_ws_closed _ _ (lay_ok _ L4) V6262 ltac:(apply ascii_head_not_layout; [lia|reflexivity|lia])).
  change (strip_prefix [62; 62] (62 :: 62 :: rest)) with (Some rest). cbv iota. cbn [bind].
  fold R4 R3 R2 R1. rewrite <- EQ.
  assert (Vq : Valid (pr_qt c)).
  { unfold pr_qt. apply (valid_app [60; 60]); [apply valid_ascii; repeat constructor; lia|]. apply valid_app; [apply layoutC_valid; now apply lay_ok|].
    apply valid_app; [now apply term_valid|]. apply valid_app; [apply layoutC_valid; now apply lay_ok|]. apply valid_app; [now apply term_valid|].
    apply valid_app; [apply layoutC_valid; now apply lay_ok|]. apply valid_app; [now apply term_valid|]. apply valid_app; [apply layoutC_valid; now apply lay_ok|].
    apply valid_ascii; repeat constructor; lia. }
  rewrite app_length. replace (length (pr_qt c) + length rest - length rest)%nat with (length (pr_qt c)) by lia.
  rewrite slice_to_bnd by (now apply valid_app_bnd). cbn [lift bind]. rewrite firstn_app, firstn_all, Nat.sub_diag. cbn [firstn]. now rewrite app_nil_r.
Qed.

(* as a term: subject and object position take the quoted triple first *)
Theorem qt_term_roundtrip : forall c f w rest, wf_qt c rest = true -> LayoutC w -> Valid rest ->
  subject_term (S (S f)) (w ++ pr_qt c ++ rest) = Ok (pr_qt c, rest) /\ object_term (S (S f)) (w ++ pr_qt c ++ rest) = Ok (pr_qt c, rest).
Proof.
  intros c f w rest H Hw Hr. pose proof (qt_roundtrip c f w rest H Hw Hr) as Q.
  unfold subject_term, subject_term_with, object_term, object_term_with, alt. cbn [alt_from]. now rewrite Q.
Qed.

(* ---- bare identifiers in subject / object position (the last alternative of both chains) ---------------------------------------------------- *)
(* ASCII identifiers: a letter, then letters, digits, `_`, `-`; followed by an ASCII character that can neither continue the
   identifier nor a prefix label, and is neither `.` nor `:` (e.g. a blank, `;`, `,`, `}`, `)`) *)
Definition bare_char (c : N) : bool := is_ascii_alnum c || (c =? 95) || (c =? 45).
Definition bare_follow (c : N) : bool := (c <? 128) && negb (pn_chars c) && negb (c =? 46) && negb (c =? 58).

Lemma ascii_table : forall (P : N -> bool), forallb P (map N.of_nat (seq 0 128)) = true -> forall c, c < 128 -> P c = true.
Proof.
  intros P H c Hc. rewrite forallb_forall in H. apply H. rewrite <- (N2Nat.id c). apply in_map. apply in_seq. lia.
Qed.
Lemma ascii_alpha_alphabetic : forall c, is_ascii_alpha c = true -> is_alphabetic c = true.
Proof.
  intros c H. assert (Hc : c < 128) by (unfold is_ascii_alpha, is_ascii_upper, is_ascii_lower in H; lia).
  pose proof (ascii_table (fun x => negb (is_ascii_alpha x) || is_alphabetic x) ltac:(vm_compute; reflexivity) c Hc) as T. cbv beta in T. rewrite H in T. exact T.
Qed.
Lemma ascii_digit_numeric : forall c, is_ascii_digit c = true -> is_numeric c = true.
Proof.
  intros c H. assert (Hc : c < 128) by (unfold is_ascii_digit in H; lia).
  pose proof (ascii_table (fun x => negb (is_ascii_digit x) || is_numeric x) ltac:(vm_compute; reflexivity) c Hc) as T. cbv beta in T. rewrite H in T. exact T.
Qed.

Lemma encode_ascii : forall cs, Forall (fun c => c < 128) cs -> encode cs = cs.
Proof. induction 1 as [|c cs Hc _ IH]; [reflexivity|]. cbn [encode]. rewrite encode_char_ascii by assumption. cbn [app]. now rewrite IH. Qed.
Lemma bare_char_facts : forall c, bare_char c = true -> c < 128 /\ pn_chars c = true /\ c <> 46 /\ c <> 58 /\ idc c = true /\ scalar c.
Proof.
  intros c H. unfold bare_char, is_ascii_alnum, is_ascii_alpha, is_ascii_upper, is_ascii_lower, is_ascii_digit in H.
  assert (Hc : c < 128) by lia. split; [assumption|].
  assert (Cases : is_ascii_alpha c = true \/ is_ascii_digit c = true \/ c = 95 \/ c = 45) by (unfold is_ascii_alpha, is_ascii_upper, is_ascii_lower, is_ascii_digit; lia).
  assert (Hs : scalar c) by (unfold scalar, scalarb; lia).
  destruct Cases as [Ha|[Hd|[->| ->]]].
  - destruct (letter_pn_chars c Ha) as (_ & Hp & H46 & H58 & _). repeat split; try assumption. unfold idc. unfold is_alphanumeric.
    assert (Hal : is_alphabetic c = true) by (apply ascii_alpha_alphabetic; assumption). now rewrite Hal.
  - unfold is_ascii_digit in Hd. repeat split; try lia; try assumption.
    + unfold pn_chars. unfold is_ascii_digit. replace ((48 <=? c) && (c <=? 57)) with true by lia. now rewrite !orb_true_r.
    + unfold idc, is_alphanumeric. assert (Hnu : is_numeric c = true) by (apply ascii_digit_numeric; unfold is_ascii_digit; lia). rewrite Hnu. now rewrite orb_true_r.
  - repeat split; try lia; try assumption; reflexivity.
  - repeat split; try lia; try assumption; reflexivity.
Qed.

Lemma pn_prefix_loop_bare : forall cs fuel off prev c0 more, Forall (fun c => bare_char c = true) cs -> c0 < 128 -> pn_chars c0 = false -> c0 <> 46 -> (length cs < fuel)%nat ->
  exists pd, pn_prefix_loop fuel (cs ++ c0 :: more) off prev = (Some (off + length cs)%nat, pd).
Proof.
  induction cs as [|c cs IH]; intros fuel off prev c0 more Hl Hc0 Hp H46 Hf; (destruct fuel as [|f]; [cbn in Hf; lia|]); cbn [app pn_prefix_loop next_char].
  - destruct (N.ltb_spec c0 128); [|lia]. destruct (N.eqb_spec c0 46); [congruence|]. rewrite Hp. rewrite Nat.add_0_r. eauto.
  - inversion Hl as [|? ? Lc Hl']; subst. destruct (bare_char_facts c Lc) as (Hlt & Hpc & Hn46 & _).
    destruct (N.ltb_spec c 128); [|lia]. destruct (N.eqb_spec c 46); [congruence|]. rewrite Hpc. cbn [skipn].
    destruct (IH f (off + 1)%nat false c0 more Hl' Hc0 Hp H46 ltac:(cbn in Hf; lia)) as (pd & E). rewrite E. exists pd. f_equal. f_equal. cbn [length]. lia.
Qed.
Lemma prefixed_name_err_bare : forall b cs c0 rest, letter b -> Forall (fun c => bare_char c = true) cs -> bare_follow c0 = true ->
  Valid ((b :: cs) ++ c0 :: rest) -> is_err (prefixed_name ((b :: cs) ++ c0 :: rest)).
Proof.
  intros b cs c0 rest Lb Hl Hfo Hv. unfold bare_follow in Hfo. repeat (apply andb_true_iff in Hfo; destruct Hfo as [Hfo ?]).
  assert (Hc0 : c0 < 128) by lia. assert (Hp : pn_chars c0 = false) by now apply negb_true_iff. assert (H46 : c0 <> 46) by lia. assert (H58 : c0 <> 58) by lia.
  set (X := (b :: cs) ++ c0 :: rest) in *. destruct (letter_pn_chars b Lb) as (Hpb & _ & _ & Hb58 & Hblt).
  assert (EX : skip_ws X = X) by (apply skip_ws_fixed; [assumption|unfold X; cbn [app]; now apply letter_not_layout]).
  unfold prefixed_name. rewrite EX. destruct (find_byte 58 X) as [colon|] eqn:Ef; [|repeat eexists].
  destruct (find_byte_spec _ _ _ Ef) as [Hnth Hlt].
  assert (Hcol : (length (b :: cs) < colon)%nat).
  { destruct (Nat.lt_ge_cases (length (b :: cs)) colon) as [|Hge]; [assumption|exfalso]. unfold X in Hnth.
    destruct (Nat.eq_dec colon (length (b :: cs))) as [->|Hne].
    - rewrite app_nth2, Nat.sub_diag in Hnth by lia. cbn in Hnth. congruence.
    - rewrite app_nth1 in Hnth by lia. assert (Hin : In (nth colon (b :: cs) 0) (b :: cs)) by (apply nth_In; lia). rewrite Hnth in Hin.
      destruct Hin as [E|Hin]; [congruence|]. rewrite Forall_forall in Hl. destruct (bare_char_facts 58 (Hl _ Hin)) as (_ & _ & _ & ? & _). congruence. }
  destruct (ascii_byte_bnd X colon Hv Hlt ltac:(rewrite Hnth; lia)) as [B _].
  rewrite slice_to_bnd by assumption. cbn [lift bind].
  assert (Vp : Valid (firstn colon X)) by now apply bnd_firstn_valid.
  assert (Ep : firstn colon X = (b :: cs) ++ c0 :: firstn (colon - length (b :: cs) - 1) rest).
  { unfold X. rewrite firstn_app. rewrite (firstn_all2 (b :: cs)) by lia. f_equal.
    destruct (colon - length (b :: cs))%nat as [|k] eqn:Ek; [lia|]. cbn [firstn]. f_equal. f_equal. lia. }
  rewrite Ep in *. set (more := firstn (colon - length (b :: cs) - 1) rest) in *.
  unfold invalid_pn_prefix. cbn [app next_char]. destruct (N.ltb_spec b 128); [|lia]. rewrite Hpb. cbn [negb].
  cbn [app] in Vp. destruct (valid_ascii_head b (cs ++ c0 :: more) Vp Hblt) as (_ & B1 & Vt).
  rewrite slice_from_bnd by assumption. cbn [lift bind skipn].
  destruct (pn_prefix_loop_bare cs (length (cs ++ c0 :: more)) 0 false c0 more Hl Hc0 Hp H46 ltac:(rewrite app_length; cbn [length]; lia)) as (pd & El).
  rewrite El. cbn [Nat.add].
  assert (B2 : Bnd (b :: cs ++ c0 :: more) (1 + length cs)).
  { change (b :: cs ++ c0 :: more) with ((b :: cs) ++ c0 :: more).
    destruct (ascii_byte_bnd ((b :: cs) ++ c0 :: more) (length (b :: cs)) Vp ltac:(rewrite app_length; cbn [length]; lia)
                ltac:(rewrite app_nth2, Nat.sub_diag by lia; cbn; lia)) as [B2 _]. exact B2. }
  rewrite slice_from_bnd by assumption. cbn [lift bind]. repeat eexists.
Qed.

Inductive BareTok : str -> Prop :=
| baretok : forall b cs, letter b -> Forall (fun c => bare_char c = true) cs -> BareTok (b :: cs).
Definition bare_stop (rest : str) : Prop := match rest with c0 :: _ => bare_follow c0 = true | [] => False end.

Lemma bare_scan : forall w tok rest, LayoutC w -> BareTok tok -> Valid rest -> bare_stop rest ->
  skip_ws (w ++ tok ++ rest) = tok ++ rest /\ Valid (tok ++ rest) /\ bare_identifier (w ++ tok ++ rest) = Ok (tok, rest) /\ is_err (prefixed_name (w ++ tok ++ rest)).
Proof.
  intros w tok rest Hw Ht Hr Hst. inversion Ht as [b cs Lb Hcs]; subst. destruct rest as [|c0 r]; [destruct Hst|]. cbn [bare_stop] in Hst.
  assert (Hall : Forall (fun c => bare_char c = true) (b :: cs)).
  { constructor; [|assumption]. unfold bare_char, is_ascii_alnum. unfold letter in Lb. now rewrite Lb. }
  assert (Asc : Forall (fun c => c < 128) (b :: cs)) by (eapply Forall_impl; [|exact Hall]; intros c Hc; now destruct (bare_char_facts c Hc)).
  assert (Vt : Valid (b :: cs)) by now apply valid_ascii.
  assert (Vall : Valid ((b :: cs) ++ c0 :: r)) by now apply valid_app.
  assert (Esk : skip_ws (w ++ (b :: cs) ++ c0 :: r) = (b :: cs) ++ c0 :: r).
  { apply skip_ws_closed; [assumption|assumption|]. cbn [app]. now apply letter_not_layout. }
  split; [assumption|]. split; [assumption|]. split.
  - unfold bare_identifier. rewrite Esk. rewrite <- (encode_ascii (b :: cs) Asc) at 1 2.
    rewrite (identifier_rt (b :: cs) (c0 :: r)); [now rewrite (encode_ascii _ Asc)|discriminate| | |assumption|].
    + eapply Forall_impl; [|exact Hall]. intros c Hc. now destruct (bare_char_facts c Hc) as (_ & _ & _ & _ & _ & ?).
    + eapply Forall_impl; [|exact Hall]. intros c Hc. now destruct (bare_char_facts c Hc) as (_ & _ & _ & _ & ? & _).
    + unfold id_stop, bare_follow in *. repeat (apply andb_true_iff in Hst; destruct Hst as [Hst ?]). cbn [next_char]. destruct (N.ltb_spec c0 128); [|lia].
      match goal with X : negb (pn_chars c0) = true |- _ => apply negb_true_iff in X; rename X into Hp end.
      unfold idc. destruct (is_alphanumeric c0 || (c0 =? 95) || (c0 =? 45)) eqn:Ei; [|reflexivity]. exfalso.
      assert (Hbc : bare_char c0 = true \/ (is_alphanumeric c0 = true /\ is_ascii_alnum c0 = false)).
      { unfold bare_char. destruct (is_ascii_alnum c0) eqn:Ea; [left; reflexivity|]. cbn [orb]. destruct ((c0 =? 95) || (c0 =? 45)) eqn:Eu; [left; reflexivity|right].
        split; [|reflexivity]. apply orb_false_iff in Eu. destruct Eu as [E1 E2]. rewrite E1, E2 in Ei. now rewrite !orb_false_r in Ei. }
      destruct Hbc as [Hbc|[Han Hna]]; [destruct (bare_char_facts c0 Hbc) as (_ & Hpc & _); congruence|].
      (* an ASCII character that is alphanumeric for Unicode is an ASCII letter or digit *)
      pose proof (ascii_table (fun x => negb (is_alphanumeric x) || is_ascii_alnum x) ltac:(vm_compute; reflexivity) c0 ltac:(assumption)) as T. cbv beta in T. rewrite Han, Hna in T. discriminate.
  - pose proof (prefixed_name_err_bare b cs c0 r Lb Hcs Hst Vall) as P. unfold prefixed_name in *. now rewrite Esk, <- (skip_ws_fixed _ Vall ltac:(cbn [app]; now apply letter_not_layout)).
Qed.

Theorem bare_identifier_subject : forall f w tok rest, LayoutC w -> BareTok tok -> Valid rest -> bare_stop rest ->
  subject_term (S f) (w ++ tok ++ rest) = Ok (tok, rest).
Proof.
  intros f w tok rest Hw Ht Hr Hst. destruct (bare_scan w tok rest Hw Ht Hr Hst) as (Esk & Vall & Bok & Perr).
  inversion Ht as [b cs Lb Hcs]; subst. destruct (letter_facts b Lb) as (Hb & _ & H65).
  assert (Vw : Valid (w ++ (b :: cs) ++ rest)) by (apply valid_app; [now apply layoutC_valid|exact Vall]).
  unfold subject_term, subject_term_with, alt. cbn [alt_from].
  alt_skip (quoted_triple_err f _ _ _ Vw Esk ltac:(lia)).
  alt_skip (variable_err_b _ _ _ Vall Esk ltac:(lia) ltac:(lia)).
  alt_skip (iri_err _ _ _ Esk ltac:(lia)).
  alt_skip (blank_node_err _ _ _ Esk ltac:(pose proof (letter_le b Lb); unfold letter, is_ascii_alpha, is_ascii_upper, is_ascii_lower in Lb; lia)).
  destruct Perr as (? & ? & ? & ->). cbn [alt_from]. now rewrite Bok.
Qed.
Theorem bare_identifier_object : forall f w tok rest, LayoutC w -> BareTok tok -> Valid rest -> bare_stop rest ->
  kw_free_text [kw_true; kw_false] (tok ++ rest) = true ->
  object_term (S f) (w ++ tok ++ rest) = Ok (tok, rest).
Proof.
  intros f w tok rest Hw Ht Hr Hst Hkw. destruct (bare_scan w tok rest Hw Ht Hr Hst) as (Esk & Vall & Bok & Perr).
  inversion Ht as [b cs Lb Hcs]; subst. destruct (letter_facts b Lb) as (Hb & _ & H65). pose proof (letter_le b Lb) as H122.
  assert (Vw : Valid (w ++ (b :: cs) ++ rest)) by (apply valid_app; [now apply layoutC_valid|exact Vall]).
  cbn [kw_free_text forallb] in Hkw. rewrite andb_true_r in Hkw. apply andb_true_iff in Hkw. destruct Hkw as [Ht1 Hf1]. apply negb_true_iff in Ht1, Hf1.
  assert (Hl : b <> 95) by (unfold letter, is_ascii_alpha, is_ascii_upper, is_ascii_lower in Lb; lia).
  unfold object_term, object_term_with, alt. cbn [alt_from].
  alt_skip (quoted_triple_err f _ _ _ Vw Esk ltac:(lia)).
  alt_skip (variable_err_b _ _ _ Vall Esk ltac:(lia) ltac:(lia)).
  alt_skip (iri_err _ _ _ Esk ltac:(lia)).
  alt_skip (blank_node_err _ _ _ Esk Hl).
  alt_skip (quoted_literal_err _ _ _ Esk ltac:(lia) ltac:(lia)).
  alt_skip (numeric_err _ _ _ Esk ltac:(lia) ltac:(lia) ltac:(lia) ltac:(unfold is_ascii_digit; lia)).
  alt_skip (keyword_free_err kw_true _ _ ltac:(kw_a) Vall Esk Ht1).
  alt_skip (keyword_free_err kw_false _ _ ltac:(kw_a) Vall Esk Hf1).
  destruct Perr as (? & ? & ? & ->). cbn [alt_from]. now rewrite Bok.
Qed.
