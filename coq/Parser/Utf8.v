(* Strings as UTF-8 byte lists, with the operations the hand-written scanners of
   kolibrie/src/parser.rs use on `&str`:
     - `s.chars().next()`           -> next_char      (std's unchecked `next_code_point`)
     - `c.len_utf8()`               -> len_utf8
     - `s.is_char_boundary(i)`      -> is_char_boundary (std: i = 0, i = len, or byte i is not 0b10xxxxxx)
     - `&s[i..]`, `&s[..i]`         -> slice_from / slice_to, which PANIC (None) at a non-boundary or past the end
   Model file: definitions only. *)
Require Import List NArith Bool PeanoNat.
Import ListNotations.
Open Scope N_scope.

Definition str := list N.          (* bytes, each < 256 *)

(* ---- results -------------------------------------------------------------------------------- *)
(* A parser result.  `Err k elen eend` is nom's `Err::Error(Error { input, code })`: k encodes the ErrorKind,
   elen is the byte length of the error slice `input` and eend the number of bytes between the END of that
   slice and the end of the whole request (0 when the error slice is a suffix, which is what
   `format_parse_error` silently assumes when it computes `input.len() - error.len()`).
   `Panic` is a Rust panic (slice at a non-boundary / out of range, begin > end);
   `Fuel` is the model running out of fuel (excluded by the fuel bounds used in Run.v). *)
Inductive res (A : Type) : Type :=
| Ok (a : A)
| Err (k : N) (elen eend : nat)
| Panic
| Fuel.
Arguments Ok {A} a.
Arguments Err {A} k elen eend.
Arguments Panic {A}.
Arguments Fuel {A}.

Definition bind {A B} (r : res A) (f : A -> res B) : res B :=
  match r with
  | Ok a => f a
  | Err k l e => Err k l e
  | Panic => Panic
  | Fuel => Fuel
  end.
Notation "'do' x <- r ; k" := (bind r (fun x => k)) (at level 200, x name, r at level 100, k at level 200).
Notation "'do' ' p <- r ; k" := (bind r (fun x => let 'p := x in k)) (at level 200, p pattern, r at level 100, k at level 200).

(* `a.or_else(|_| b)` / `if let Ok(..) = a {..} else {b}`: only an ordinary error falls through *)
Definition orelse {A} (r : res A) (k : unit -> res A) : res A :=
  match r with
  | Err _ _ _ => k tt
  | other => other
  end.

(* nom ErrorKind codes used by the unified parser *)
Definition kEof : N := 1.
Definition kChar : N := 2.
Definition kTakeWhile1 : N := 3.
Definition kEscaped : N := 4.
Definition kVerify : N := 5.
Definition kTakeUntil : N := 6.
Definition kTag : N := 7.
Definition kDigit : N := 8.
Definition kMany1 : N := 9.
Definition kAlt : N := 10.

(* ---- UTF-8 ---------------------------------------------------------------------------------- *)
Definition len_utf8 (c : N) : nat :=
  if c <? 128 then 1%nat else if c <? 2048 then 2%nat else if c <? 65536 then 3%nat else 4%nat.

Definition encode_char (c : N) : str :=
  if c <? 128 then [c]
  else if c <? 2048 then [192 + c / 64; 128 + c mod 64]
  else if c <? 65536 then [224 + c / 4096; 128 + (c / 64) mod 64; 128 + c mod 64]
  else [240 + c / 262144; 128 + (c / 4096) mod 64; 128 + (c / 64) mod 64; 128 + c mod 64].

Fixpoint encode (cs : list N) : str :=
  match cs with
  | [] => []
  | c :: t => encode_char c ++ encode t
  end.

(* a Unicode scalar value (what a Rust `char` can hold) *)
Definition scalarb (c : N) : bool := (c <? 55296) || ((57344 <=? c) && (c <? 1114112)).

(* std::str::next_code_point: no validation, the lead byte decides the length *)
Definition next_char (s : str) : option (N * nat) :=
  match s with
  | [] => None
  | b0 :: t =>
      if b0 <? 128 then Some (b0, 1%nat)
      else
        let b1 := nth 0 t 0 in
        if b0 <? 224 then Some ((b0 mod 32) * 64 + b1 mod 64, 2%nat)
        else
          let b2 := nth 1 t 0 in
          if b0 <? 240 then Some ((b0 mod 16) * 4096 + (b1 mod 64) * 64 + b2 mod 64, 3%nat)
          else
            let b3 := nth 2 t 0 in
            Some ((b0 mod 8) * 262144 + (b1 mod 64) * 4096 + (b2 mod 64) * 64 + b3 mod 64, 4%nat)
  end.

Definition is_cont (b : N) : bool := (128 <=? b) && (b <? 192).

Definition is_char_boundary (s : str) (i : nat) : bool :=
  match i with
  | O => true
  | _ => match Nat.compare i (length s) with
         | Eq => true
         | Gt => false
         | Lt => negb (is_cont (nth i s 0))
         end
  end.

(* `&s[i..]` and `&s[..i]`: None is the panic *)
Definition slice_from (s : str) (i : nat) : option str :=
  if is_char_boundary s i then Some (skipn i s) else None.
Definition slice_to (s : str) (i : nat) : option str :=
  if is_char_boundary s i then Some (firstn i s) else None.
(* `&s[a..b]` *)
Definition slice (s : str) (a b : nat) : option str :=
  if Nat.leb a b && is_char_boundary s a && is_char_boundary s b then Some (firstn (b - a) (skipn a s)) else None.

Definition lift {A} (o : option A) : res A := match o with Some a => Ok a | None => Panic end.

(* `Ok((&input[e..], &input[..e]))`, returned as (token, rest) *)
Definition split_at (s : str) (e : nat) : res (str * str) :=
  do r <- lift (slice_from s e);
  do t <- lift (slice_to s e);
  Ok (t, r).

(* ---- byte-level helpers --------------------------------------------------------------------- *)
Fixpoint starts_with (p s : str) : bool :=
  match p, s with
  | [], _ => true
  | a :: p', b :: s' => (a =? b) && starts_with p' s'
  | _ :: _, [] => false
  end.

Definition strip_prefix (p s : str) : option str :=
  if starts_with p s then Some (skipn (length p) s) else None.

(* position of the first byte equal to b (`str::find(char)` for an ASCII char: ASCII bytes never occur
   inside a multi-byte sequence) *)
Fixpoint find_byte (b : N) (s : str) : option nat :=
  match s with
  | [] => None
  | x :: t => if x =? b then Some O else option_map S (find_byte b t)
  end.

Definition is_ascii_digit (b : N) : bool := (48 <=? b) && (b <=? 57).
Definition is_ascii_upper (b : N) : bool := (65 <=? b) && (b <=? 90).
Definition is_ascii_lower (b : N) : bool := (97 <=? b) && (b <=? 122).
Definition is_ascii_alpha (b : N) : bool := is_ascii_upper b || is_ascii_lower b.
Definition is_ascii_alnum (b : N) : bool := is_ascii_alpha b || is_ascii_digit b.
Definition is_ascii_hexdigit (b : N) : bool :=
  is_ascii_digit b || ((65 <=? b) && (b <=? 70)) || ((97 <=? b) && (b <=? 102)).
Definition ascii_lower (b : N) : N := if is_ascii_upper b then b + 32 else b.

Definition hex_digit_val (b : N) : N :=
  if is_ascii_digit b then b - 48 else if (97 <=? b) then b - 87 else b - 55.
Definition hex_val (ds : str) : N := fold_left (fun acc d => acc * 16 + hex_digit_val d) ds 0.
Fixpoint dec_val_aux (ds : str) (acc : N) : N :=
  match ds with [] => acc | d :: t => dec_val_aux t (acc * 10 + (d - 48)) end.
Definition dec_val (ds : str) : N := dec_val_aux ds 0.

(* all code points of a (valid) string, with their encoded lengths *)
Fixpoint chars_of (fuel : nat) (s : str) : list (N * nat) :=
  match fuel with
  | O => []
  | S f => match next_char s with
           | None => []
           | Some (c, n) => (c, n) :: chars_of f (skipn n s)
           end
  end.
