(* Executable Gallina model of the unified recursive SPARQL parser of kolibrie/src/parser.rs
   (sparql_quoted_triple_parts ... sparql_update_core, parse_sparql_query, and the SELECT / INSERT / DELETE
   branches of parse_combined_query_with_options) over the scanners of Scanners.v.
   Same order of alternatives, same look-aheads, same error slices as the code.  Recursion and loops run on
   explicit fuel (`Fuel` result when exhausted; Run.v supplies a bound that is never reached).
   The extension grammars (RETRIEVE, REGISTER, MODEL / NEURAL RELATION, RULE, ML.PREDICT; nom combinators) are
   NOT modelled: `parse_top` answers `TExtension` when the prologue is followed by neither SELECT nor
   INSERT / DELETE.
   Model file: definitions only. *)
Require Import List NArith Bool PeanoNat.
Require Import KV.Parser.Utf8 KV.Parser.Unicode KV.Parser.Scanners KV.Parser.Keywords.
Import ListNotations.
Open Scope N_scope.


(* ---- syntax trees (shared/src/query.rs) ------------------------------------------------------ *)
Inductive arith : Type :=
| AOp (s : str)
| AAdd (l r : arith)
| ASub (l r : arith)
| AMul (l r : arith)
| ADiv (l r : arith).

Inductive filt : Type :=
| FCmp (l op r : str)
| FAnd (a b : filt)
| FOr (a b : filt)
| FNot (a : filt)
| FArith (a : arith)
| FCall (name : str) (args : list str).

Inductive value : Type := VTerm (s : str) | VUndef.

Definition triple := (str * str * str)%type.

Inductive group : Type :=
| GUnit
| GBgp (ts : list triple)
| GJoin (l : list group)
| GUnion (l : list group)
| GGraph (name : str) (p : group)
| GFilter (f : filt)
| GBind (fname : str) (args : list str) (v : str)
| GValues (vars : list str) (rows : list (list value))
| GSub (q : select)
with select : Type :=
| Select (distinct : bool) (vars : list (str * str * option str)) (from from_named : list str)
         (pattern : group) (group_vars : list str) (order : list (str * bool)) (limit : option N).

Definition quad := (option str * triple)%type.

Inductive update : Type :=
| InsertData (q : list quad)
| DeleteData (q : list quad)
| InsertWhere (ins : list quad) (w : group)
| DeleteWhere (del : list quad) (w : group)
| DeleteInsertWhere (del ins : list quad) (w : group)
| DeleteWhereShorthand (del : list quad) (w : group).

Inductive top : Type :=
| TSelect (prefixes : list (str * str)) (q : select)
| TUpdate (prefixes : list (str * str)) (u : update)
| TExtension.

(* a token together with the number of bytes that follow it in the request (its position) *)
Definition ptok := (str * nat)%type.
Definition ptriple := (ptok * ptok * ptok)%type.
Definition pquad := (option ptok * ptriple)%type.
Definition strip_t (t : ptriple) : triple := let '(s, p, o) := t in (fst s, fst p, fst o).
Definition strip_q (q : pquad) : quad := (option_map fst (fst q), strip_t (snd q)).

(* nom `alt`: first success; if every alternative fails, the error of the LAST one *)
Fixpoint alt_from {A} (last : res A) (ps : list (str -> res A)) (s : str) : res A :=
  match ps with
  | [] => last
  | p :: t => match p s with
              | Err k l e => alt_from (Err k l e) t s
              | other => other
              end
  end.
Definition alt {A} (ps : list (str -> res A)) (s : str) : res A := alt_from (Err kAlt (length s) 0) ps s.

Definition positioned (r : res (str * str)) : res (ptok * str) :=
  do '(t, rest) <- r; Ok ((t, length rest), rest).

(* ---- terms ---------------------------------------------------------------------------------- *)

Definition subject_term_with (qt : str -> res (str * str)) : str -> res (str * str) :=
  alt [qt; variable; iri; blank_node; prefixed_name; bare_identifier].

Definition predicate_term (input : str) : res (str * str) :=
  orelse (variable input) (fun _ =>
  orelse (iri input) (fun _ =>
    let w := skip_ws input in
    let fallback := fun _ : unit => prefixed_name input in
    match strip_prefix [97] w with
    | Some remaining =>
        let is_name := match next_char remaining with Some (c, _) => name_character c | None => false end in
        if is_name then fallback tt
        else do a <- lift (slice_to w 1); Ok (a, remaining)
    | None => fallback tt
    end)).

Definition object_term_with (qt : str -> res (str * str)) : str -> res (str * str) :=
  alt [qt; variable; iri; blank_node; quoted_literal; numeric_literal; keyword kw_true; keyword kw_false;
       prefixed_name; bare_identifier].

Definition graph_name : str -> res (str * str) := alt [variable; iri; prefixed_name].

(* sparql_quoted_triple_parts, given the scanner for nested quoted triples *)
Definition qt_parts_with (qt : str -> res (str * str)) (s : str) : res (ptriple * str) :=
  let input := skip_ws s in
  match strip_prefix [60; 60] input with
  | None => Err kTag (length input) 0
  | Some i1 =>
      do '(sub, i2) <- positioned (subject_term_with qt i1);
      do '(pred, i3) <- positioned (predicate_term i2);
      do '(obj, i4) <- positioned (object_term_with qt i3);
      let i5 := skip_ws i4 in
      match strip_prefix [62; 62] i5 with
      | None => Err kTag (length i5) 0
      | Some remaining => Ok ((sub, pred, obj), remaining)
      end
  end.

Fixpoint quoted_triple (fuel : nat) (s : str) : res (str * str) :=
  match fuel with
  | O => Fuel
  | S f =>
      let input := skip_ws s in
      do '(_, remaining) <- qt_parts_with (quoted_triple f) input;
      do t <- lift (slice_to input (length input - length remaining));
      Ok (t, remaining)
  end.

Definition qt_parts (fuel : nat) := qt_parts_with (quoted_triple fuel).
Definition subject_term (fuel : nat) := subject_term_with (quoted_triple fuel).
Definition object_term (fuel : nat) := object_term_with (quoted_triple fuel).

(* ---- sparql_triples_statement --------------------------------------------------------------- *)

Fixpoint objects_loop (fuel tf : nat) (subj pred : ptok) (input : str) (acc : list ptriple) : res (list ptriple * str) :=
  match fuel with
  | O => Fuel
  | S f =>
      do '(obj, after) <- positioned (object_term tf input);
      let acc' := acc ++ [(subj, pred, obj)] in
      match strip_prefix [44] (skip_ws after) with
      | Some after_comma => objects_loop f tf subj pred after_comma acc'
      | None => Ok (acc', after)
      end
  end.

Definition stmt_stops_after_semicolon (a : str) : res bool :=
  match a with
  | [] => Ok true
  | b :: _ =>
      if (b =? 46) || (b =? 125) then Ok true
      else do g <- starts_keyword kw_graph a;
           if g then Ok true else starts_keyword kw_union a
  end.

Fixpoint preds_loop (fuel tf : nat) (subj : ptok) (input : str) (acc : list ptriple) : res (list ptriple * str) :=
  match fuel with
  | O => Fuel
  | S f =>
      do '(pred, after_p) <- positioned (predicate_term input);
      do '(acc', input') <- objects_loop (S (length after_p)) tf subj pred after_p acc;
      match strip_prefix [59] (skip_ws input') with
      | None => Ok (acc', input')
      | Some after_semicolon0 =>
          let after_semicolon := skip_ws after_semicolon0 in
          do stop <- stmt_stops_after_semicolon after_semicolon;
          if stop then Ok (acc', after_semicolon) else preds_loop f tf subj after_semicolon acc'
      end
  end.

Definition triples_statement (tf : nat) (input : str) : res (list ptriple * str) :=
  do '(subj, after_s) <- positioned (subject_term tf input);
  preds_loop (S (length after_s)) tf subj after_s [].

(* ---- FILTER --------------------------------------------------------------------------------- *)
Definition filter_operand_token : str -> res (str * str) :=
  alt [variable; quoted_literal; numeric_literal; iri; keyword kw_true; keyword kw_false; prefixed_name].

Fixpoint f_operand (fuel : nat) (s : str) : res (arith * str) :=
  match fuel with
  | O => Fuel
  | S f =>
      let input := skip_ws s in
      match strip_prefix [40] input with
      | Some after_open =>
          do '(e, after_e) <- f_arith f after_open;
          do remaining <- schar 41 after_e;
          Ok (e, remaining)
      | None =>
          do '(t, rest) <- filter_operand_token input;
          Ok (AOp t, rest)
      end
  end
with f_product_loop (fuel : nat) (e : arith) (input : str) : res (arith * str) :=
  match fuel with
  | O => Fuel
  | S f =>
      match skip_ws input with
      | b :: t =>
          if (b =? 42) || (b =? 47) then
            do '(rhs, remaining) <- f_operand f t;
            f_product_loop f (if b =? 42 then AMul e rhs else ADiv e rhs) remaining
          else Ok (e, input)
      | [] => Ok (e, input)
      end
  end
with f_product (fuel : nat) (s : str) : res (arith * str) :=
  match fuel with
  | O => Fuel
  | S f => do '(e, input) <- f_operand f s; f_product_loop f e input
  end
with f_arith_loop (fuel : nat) (e : arith) (input : str) : res (arith * str) :=
  match fuel with
  | O => Fuel
  | S f =>
      match skip_ws input with
      | b :: t =>
          if (b =? 43) || (b =? 45) then
            do '(rhs, remaining) <- f_product f t;
            f_arith_loop f (if b =? 43 then AAdd e rhs else ASub e rhs) remaining
          else Ok (e, input)
      | [] => Ok (e, input)
      end
  end
with f_arith (fuel : nat) (s : str) : res (arith * str) :=
  match fuel with
  | O => Fuel
  | S f => do '(e, input) <- f_product f s; f_arith_loop f e input
  end.

Definition f_comparison (fuel : nat) (input : str) : res (filt * str) :=
  let left_start := skip_ws input in
  do '(_, after_left) <- f_arith fuel left_start;
  do l <- lift (slice_to left_start (length left_start - length after_left));
  do '(op, after_operator) <- filter_operator after_left;
  let right_start := skip_ws after_operator in
  do '(_, remaining) <- f_arith fuel right_start;
  do r <- lift (slice_to right_start (length right_start - length remaining));
  Ok (FCmp (trim l) op (trim r), remaining).


Fixpoint call_args_loop (fuel tf : nat) (input : str) (acc : list str) : res (list str * str) :=
  match fuel with
  | O => Fuel
  | S f =>
      do '(a, remaining) <- alt [quoted_triple tf; variable; quoted_literal; numeric_literal; iri; prefixed_name] input;
      let input' := skip_ws remaining in
      match strip_prefix [44] input' with
      | Some r => call_args_loop f tf r (acc ++ [a])
      | None => Ok (acc ++ [a], input')
      end
  end.

Definition f_function (tf : nat) (s : str) : res (filt * str) :=
  let input := skip_ws s in
  let after (name : str) (remaining : str) : res (filt * str) :=
    do i1 <- schar 40 remaining;
    do '(args, i2) <- call_args_loop (S (length i1)) tf i1 [];
    do i3 <- schar 41 i2;
    Ok (FCall name args, i3) in
  match keyword kw_istriple input with
  | Ok (_, r) => after kw_istriple r
  | Err _ _ _ =>
  match keyword kw_triple input with
  | Ok (_, r) => after kw_triple r
  | Err _ _ _ =>
  match keyword kw_subject input with
  | Ok (_, r) => after kw_subject r
  | Err _ _ _ =>
  match keyword kw_predicate input with
  | Ok (_, r) => after kw_predicate r
  | Err _ _ _ =>
  match keyword kw_object input with
  | Ok (_, r) => after kw_object r
  | Err _ _ _ => Err kAlt (length input) 0
  | Panic => Panic | Fuel => Fuel end
  | Panic => Panic | Fuel => Fuel end
  | Panic => Panic | Fuel => Fuel end
  | Panic => Panic | Fuel => Fuel end
  | Panic => Panic | Fuel => Fuel end.

Fixpoint f_atom (fuel : nat) (s : str) : res (filt * str) :=
  match fuel with
  | O => Fuel
  | S f =>
      let input := skip_ws s in
      let rest_of_atom := fun _ : unit =>
        orelse (f_function f input) (fun _ =>
        orelse (f_comparison f input) (fun _ =>
          match strip_prefix [40] input with
          | Some after_open =>
              do '(e, after_e) <- f_or f after_open;
              do remaining <- schar 41 after_e;
              Ok (e, remaining)
          | None =>
              do '(a, remaining) <- f_arith f input;
              Ok (FArith a, remaining)
          end)) in
      match strip_prefix [33] input with
      | Some after_not =>
          if starts_with [61] after_not then rest_of_atom tt
          else do '(e, remaining) <- f_atom f after_not; Ok (FNot e, remaining)
      | None => rest_of_atom tt
      end
  end
with f_and_loop (fuel : nat) (e : filt) (input : str) : res (filt * str) :=
  match fuel with
  | O => Fuel
  | S f =>
      match strip_prefix [38; 38] (skip_ws input) with
      | Some remaining => do '(rhs, after_right) <- f_atom f remaining; f_and_loop f (FAnd e rhs) after_right
      | None => Ok (e, input)
      end
  end
with f_and (fuel : nat) (s : str) : res (filt * str) :=
  match fuel with
  | O => Fuel
  | S f => do '(e, input) <- f_atom f s; f_and_loop f e input
  end
with f_or_loop (fuel : nat) (e : filt) (input : str) : res (filt * str) :=
  match fuel with
  | O => Fuel
  | S f =>
      match strip_prefix [124; 124] (skip_ws input) with
      | Some remaining => do '(rhs, after_right) <- f_and f remaining; f_or_loop f (FOr e rhs) after_right
      | None => Ok (e, input)
      end
  end
with f_or (fuel : nat) (s : str) : res (filt * str) :=
  match fuel with
  | O => Fuel
  | S f => do '(e, input) <- f_and f s; f_or_loop f e input
  end.

Definition filter_clause (fuel : nat) (input : str) : res (filt * str) :=
  do '(_, i1) <- keyword kw_filter input;
  do i2 <- schar 40 i1;
  do '(e, i3) <- f_or fuel i2;
  do i4 <- schar 41 i3;
  Ok (e, i4).

(* ---- BIND ----------------------------------------------------------------------------------- *)
Definition ends_with_byte (b : N) (s : str) : bool :=
  match rev s with x :: _ => x =? b | [] => false end.

Definition bind_argument (input : str) : res (str * str) :=
  orelse (variable input) (fun _ =>
    match quoted_literal input with
    | Ok (literal, remaining) =>
        if (starts_with [34] literal && ends_with_byte 34 literal) || (starts_with [39] literal && ends_with_byte 39 literal)
        then do inner <- lift (slice literal 1 (length literal - 1)); Ok (inner, remaining)
        else Ok (literal, remaining)
    | Err _ _ _ => numeric_literal input
    | Panic => Panic
    | Fuel => Fuel
    end).

Fixpoint bind_args_loop (fuel : nat) (input : str) (acc : list str) : res (list str * str) :=
  match fuel with
  | O => Fuel
  | S f =>
      do '(a, remaining) <- bind_argument input;
      let input' := skip_ws remaining in
      match strip_prefix [44] input' with
      | Some r => bind_args_loop f r (acc ++ [a])
      | None => Ok (acc ++ [a], input')
      end
  end.

Definition eq_ignore_ascii_case (a b : str) : bool :=
  Nat.eqb (length a) (length b) && forallb (fun p => ascii_lower (fst p) =? ascii_lower (snd p)) (combine a b).

Definition bind_clause (input : str) : res ((str * list str * str) * str) :=
  do '(_, i1) <- keyword kw_bind input;
  do i2 <- schar 40 i1;
  do '(fname0, i3) <- identifier (skip_ws i2);
  let fname := if eq_ignore_ascii_case fname0 (lit_concat) then lit_CONCAT else fname0 in
  do i4 <- schar 40 i3;
  do '(args, i5) <- bind_args_loop (S (length i4)) i4 [];
  do i6 <- schar 41 i5;
  do '(_, i7) <- keyword kw_as i6;
  do '(v, i8) <- variable i7;
  do i9 <- schar 41 i8;
  Ok ((fname, args, v), i9).

(* ---- VALUES --------------------------------------------------------------------------------- *)

Definition sparql_value (input : str) : res (value * str) :=
  match keyword kw_undef input with
  | Ok (_, r) => Ok (VUndef, r)
  | Err _ _ _ =>
      do '(t, r) <- alt [iri; quoted_literal; numeric_literal; keyword kw_true; keyword kw_false; prefixed_name] input;
      Ok (VTerm t, r)
  | Panic => Panic
  | Fuel => Fuel
  end.

Fixpoint values_vars_loop (fuel : nat) (input : str) (acc : list str) : res (list str * str) :=
  match fuel with
  | O => Fuel
  | S f =>
      let i := skip_ws input in
      match strip_prefix [41] i with
      | Some r => Ok (acc, r)
      | None => do '(v, r) <- variable i; values_vars_loop f r (acc ++ [v])
      end
  end.

Fixpoint values_row_loop (fuel : nat) (input : str) (acc : list value) : res (list value * str) :=
  match fuel with
  | O => Fuel
  | S f =>
      let i := skip_ws input in
      match strip_prefix [41] i with
      | Some r => Ok (acc, r)
      | None => do '(v, r) <- sparql_value i; values_row_loop f r (acc ++ [v])
      end
  end.

Fixpoint values_rows_loop (fuel : nat) (nvars : nat) (input : str) (acc : list (list value)) : res (list (list value) * str) :=
  match fuel with
  | O => Fuel
  | S f =>
      let i := skip_ws input in
      match strip_prefix [125] i with
      | Some r => Ok (acc, r)
      | None =>
          do '(row, i') <-
            (if Nat.eqb nvars 1 then do '(v, r) <- sparql_value i; Ok ([v], r)
             else do r0 <- schar 40 i; values_row_loop (S (length r0)) r0 []);
          if Nat.eqb (length row) nvars then values_rows_loop f nvars i' (acc ++ [row])
          else Err kVerify (length i') 0
      end
  end.

Definition values_clause (input : str) : res ((list str * list (list value)) * str) :=
  do '(_, i1) <- keyword kw_values input;
  do '(vars, i2) <-
    match schar 40 i1 with
    | Ok after_open => values_vars_loop (S (length after_open)) after_open []
    | Err _ _ _ => do '(v, r) <- variable i1; Ok ([v], r)
    | Panic => Panic
    | Fuel => Fuel
    end;
  match vars with
  | [] => Err kMany1 (length i2) 0
  | _ =>
      do i3 <- schar 123 i2;
      do '(rows, i4) <- values_rows_loop (S (length i3)) (length vars) i3 [];
      Ok ((vars, rows), i4)
  end.

(* ---- solution modifiers and projection ------------------------------------------------------ *)

Definition aggregate (s : str) : res ((str * str * option str) * str) :=
  let input0 := skip_ws s in
  let '(input, wrapped) := match strip_prefix [40] input0 with Some r => (r, true) | None => (input0, false) end in
  let after (name : str) (i1 : str) : res ((str * str * option str) * str) :=
    do i2 <- schar 40 i1;
    do '(v, i3) <- variable i2;
    do i4 <- schar 41 i3;
    do '(alias, i5) <-
      match keyword kw_as i4 with
      | Ok (_, r) => do '(a, r') <- variable r; Ok (Some a, r')
      | Err _ _ _ => Ok (None, i4)
      | Panic => Panic
      | Fuel => Fuel
      end;
    if wrapped then do i6 <- schar 41 i5; Ok ((name, v, alias), i6)
    else Ok ((name, v, alias), i5) in
  match keyword kw_sum input with
  | Ok (_, r) => after kw_sum r
  | Err _ _ _ =>
  match keyword kw_min input with
  | Ok (_, r) => after kw_min r
  | Err _ _ _ =>
  match keyword kw_max input with
  | Ok (_, r) => after kw_max r
  | Err _ _ _ =>
  match keyword kw_avg input with
  | Ok (_, r) => after kw_avg r
  | Err _ _ _ => Err kAlt (length input) 0
  | Panic => Panic | Fuel => Fuel end
  | Panic => Panic | Fuel => Fuel end
  | Panic => Panic | Fuel => Fuel end
  | Panic => Panic | Fuel => Fuel end.

Fixpoint projection_loop (fuel : nat) (input : str) (acc : list (str * str * option str)) : res (list (str * str * option str) * str) :=
  match fuel with
  | O => Fuel
  | S f =>
      match variable input with
      | Ok (v, r) => projection_loop f r (acc ++ [(lit_VAR, v, None)])
      | Err _ _ _ =>
          match aggregate input with
          | Ok (a, r) => projection_loop f r (acc ++ [a])
          | Err _ _ _ => Ok (acc, input)
          | Panic => Panic
          | Fuel => Fuel
          end
      | Panic => Panic
      | Fuel => Fuel
      end
  end.

Definition projection_items (s : str) : res (list (str * str * option str) * str) :=
  let input := skip_ws s in
  match strip_prefix [42] input with
  | Some r => Ok ([([42], [42], None)], r)
  | None =>
      do '(vars, r) <- projection_loop (S (length input)) input [];
      match vars with
      | [] => Err kMany1 (length r) 0
      | _ => Ok (vars, r)
      end
  end.


Fixpoint vars_loop (fuel : nat) (input : str) (acc : list str) : res (list str * str) :=
  match fuel with
  | O => Fuel
  | S f => match variable input with
           | Ok (v, r) => vars_loop f r (acc ++ [v])
           | Err _ _ _ => Ok (acc, input)
           | Panic => Panic
           | Fuel => Fuel
           end
  end.

Definition group_by_clause (input : str) : res (list str * str) :=
  do '(_, i1) <- keyword kw_group input;
  do '(_, i2) <- keyword kw_by i1;
  do '(vars, r) <- vars_loop (S (length i2)) i2 [];
  match vars with
  | [] => Err kMany1 (length r) 0
  | _ => Ok (vars, r)
  end.

(* direction: true = Desc *)
Definition order_condition (s : str) : res ((str * bool) * str) :=
  let input := skip_ws s in
  let wrapped (after_direction : str) (desc : bool) :=
    do i1 <- schar 40 after_direction;
    do '(v, i2) <- variable i1;
    do i3 <- schar 41 i2;
    Ok ((v, desc), i3) in
  match keyword kw_asc input with
  | Ok (_, r) => wrapped r false
  | Err _ _ _ =>
      match keyword kw_desc input with
      | Ok (_, r) => wrapped r true
      | Err _ _ _ => do '(v, r) <- variable input; Ok ((v, false), r)
      | Panic => Panic
      | Fuel => Fuel
      end
  | Panic => Panic
  | Fuel => Fuel
  end.

Fixpoint order_loop (fuel : nat) (input : str) (acc : list (str * bool)) : res (list (str * bool) * str) :=
  match fuel with
  | O => Fuel
  | S f =>
      let i := skip_ws input in
      match strip_prefix [44] i with
      | Some r => order_loop f r acc
      | None =>
          let stop :=
            match i with
            | [] => Ok true
            | b :: _ => if b =? 125 then Ok true
                        else do l <- starts_keyword kw_limit i; if l then Ok true else starts_keyword kw_group i
            end in
          do st <- stop;
          if st then Ok (acc, i)
          else do '(c, r) <- order_condition i; order_loop f r (acc ++ [c])
      end
  end.

Definition order_by_clause (input : str) : res (list (str * bool) * str) :=
  do '(_, i1) <- keyword kw_order input;
  do '(_, i2) <- keyword kw_by i1;
  do '(conds, r) <- order_loop (S (S (length i2))) i2 [];
  match conds with
  | [] => Err kMany1 (length r) 0
  | _ => Ok (conds, r)
  end.

Definition usize_max : N := 18446744073709551615.

Definition limit_clause (input : str) : res (N * str) :=
  do '(_, i1) <- keyword kw_limit input;
  let i := skip_ws i1 in
  let digit_count := count_while is_ascii_digit i in
  if Nat.eqb digit_count O then Err kDigit (length i) 0
  else
    do ds <- lift (slice_to i digit_count);
    let v := dec_val ds in
    if v <=? usize_max then
      do r <- lift (slice_from i digit_count); Ok (v, r)
    else Err kDigit (length i) 0.

(* ---- group graph patterns and SELECT (mutually recursive) ----------------------------------- *)

Fixpoint from_loop (fuel : nat) (input : str) (from from_named : list str) : res (list str * list str * str) :=
  match fuel with
  | O => Fuel
  | S f =>
      match keyword kw_from input with
      | Ok (_, after_from) =>
          match keyword kw_named after_from with
          | Ok (_, after_named) =>
              do '(g, r) <- alt [iri; prefixed_name] after_named;
              from_loop f r from (from_named ++ [g])
          | Err _ _ _ =>
              do '(g, r) <- alt [iri; prefixed_name] after_from;
              from_loop f r (from ++ [g]) from_named
          | Panic => Panic
          | Fuel => Fuel
          end
      | Err _ _ _ => Ok (from, from_named, input)
      | Panic => Panic
      | Fuel => Fuel
      end
  end.

Definition opt_clause {A} (kw : str) (p : str -> res (A * str)) (dflt : A) (input : str) : res (A * str) :=
  do b <- starts_keyword kw input;
  if b then p input else Ok (dflt, input).

(* `if let Ok((rest, _)) = sparql_keyword(input, kw) { input = rest }` *)
Definition opt_keyword (kw : str) (input : str) : res (bool * str) :=
  match keyword kw input with
  | Ok (_, r) => Ok (true, r)
  | Err _ _ _ => Ok (false, input)
  | Panic => Panic
  | Fuel => Fuel
  end.

Definition join_of (joined : list group) : group :=
  match joined with
  | [] => GUnit
  | [g] => g
  | _ => GJoin joined
  end.

Fixpoint group_pattern (fuel : nat) (s : str) : res (group * str) :=
  match fuel with
  | O => Fuel
  | S f => do i <- schar 123 s; group_loop f i []
  end
with group_loop (fuel : nat) (input0 : str) (joined : list group) : res (group * str) :=
  match fuel with
  | O => Fuel
  | S f =>
      let input := skip_ws input0 in
      match strip_prefix [125] input with
      | Some remaining => Ok (join_of joined, remaining)
      | None =>
          do isf <- starts_keyword kw_filter input;
          if isf then do '(e, r) <- filter_clause f input; group_loop f r (joined ++ [GFilter e])
          else
          do isb <- starts_keyword kw_bind input;
          if isb then do '(b, r) <- bind_clause input; let '(fn, args, v) := b in group_loop f r (joined ++ [GBind fn args v])
          else
          do isv <- starts_keyword kw_values input;
          if isv then do '(vc, r) <- values_clause input; group_loop f r (joined ++ [GValues (fst vc) (snd vc)])
          else
            let first_is_braced := starts_with [123] (skip_ws input) in
            do '(first, after_first) <- group_primary f input;
            do '(alternatives, after_alts) <- union_loop f first_is_braced after_first [first];
            let item := match alternatives with [g] => g | _ => GUnion alternatives end in
            let i2 := skip_ws after_alts in
            let i3 := match strip_prefix [46] i2 with Some r => r | None => i2 end in
            group_loop f i3 (joined ++ [item])
      end
  end
with union_loop (fuel : nat) (first_is_braced : bool) (input : str) (alternatives : list group) : res (list group * str) :=
  match fuel with
  | O => Fuel
  | S f =>
      match keyword kw_union input with
      | Ok (_, after_union) =>
          if negb first_is_braced || negb (starts_with [123] (skip_ws after_union))
          then Err kVerify (length after_union) 0
          else do '(a, r) <- group_primary f after_union; union_loop f first_is_braced r (alternatives ++ [a])
      | Err _ _ _ => Ok (alternatives, input)
      | Panic => Panic
      | Fuel => Fuel
      end
  end
with group_primary (fuel : nat) (input : str) : res (group * str) :=
  match fuel with
  | O => Fuel
  | S f =>
      match keyword kw_graph input with
      | Ok (_, after_graph) =>
          do '(name, after_name) <- graph_name after_graph;
          do '(p, remaining) <- group_pattern f after_name;
          Ok (GGraph name p, remaining)
      | Err _ _ _ =>
          let w := skip_ws input in
          if starts_with [123] w then
            do w1 <- lift (slice_from w 1);
            do issel <- starts_keyword kw_select (skip_ws w1);
            if issel then
              do i1 <- schar 123 input;
              do '(q, i2) <- select_core f false i1;
              do i3 <- schar 125 i2;
              Ok (GSub q, i3)
            else group_pattern f input
          else
            do '(ts, r) <- triples_statement (S (length input)) input;
            Ok (GBgp (map strip_t ts), r)
      | Panic => Panic
      | Fuel => Fuel
      end
  end
with select_core (fuel : nat) (allow_dataset : bool) (s : str) : res (select * str) :=
  match fuel with
  | O => Fuel
  | S f =>
      do '(_, i1) <- keyword kw_select s;
      do '(distinct, i2) <- opt_keyword kw_distinct i1;
      do '(vars, i3) <- projection_items i2;
      do '(from, from_named, i4) <- (if allow_dataset then from_loop (S (length i3)) i3 [] [] else Ok ([], [], i3));
      do '(_, i5) <- opt_keyword kw_where i4;
      do '(pattern, i6) <- group_pattern f i5;
      do '(group_vars, i7) <- opt_clause kw_group group_by_clause [] i6;
      do '(order, i8) <- opt_clause kw_order order_by_clause [] i7;
      do '(limit, i9) <- opt_clause kw_limit (fun i => do '(n, r) <- limit_clause i; Ok (Some n, r)) None i8;
      Ok (Select distinct vars from from_named pattern group_vars order limit, i9)
  end.

(* ---- quad blocks and updates ---------------------------------------------------------------- *)
Fixpoint graph_block_loop (fuel : nat) (g : ptok) (input : str) (acc : list pquad) : res (list pquad * str) :=
  match fuel with
  | O => Fuel
  | S f =>
      let gi := skip_ws input in
      match strip_prefix [125] gi with
      | Some remaining => Ok (acc, remaining)
      | None =>
          do '(ts, remaining) <- triples_statement (S (length gi)) gi;
          let acc' := acc ++ map (fun t => (Some g, t)) ts in
          let g2 := skip_ws remaining in
          graph_block_loop f g (match strip_prefix [46] g2 with Some r => r | None => g2 end) acc'
      end
  end.

Fixpoint quad_block_loop (fuel : nat) (input0 : str) (acc : list pquad) : res (list pquad * str) :=
  match fuel with
  | O => Fuel
  | S f =>
      let input := skip_ws input0 in
      match strip_prefix [125] input with
      | Some remaining => Ok (acc, remaining)
      | None =>
          do '(acc', i1) <-
            match keyword kw_graph input with
            | Ok (_, after_graph) =>
                do '(g, after_name) <- positioned (graph_name after_graph);
                do gi <- schar 123 after_name;
                graph_block_loop (S (length gi)) g gi acc
            | Err _ _ _ =>
                do '(ts, remaining) <- triples_statement (S (length input)) input;
                Ok (acc ++ map (fun t => (None, t)) ts, remaining)
            | Panic => Panic
            | Fuel => Fuel
            end;
          let i2 := skip_ws i1 in
          quad_block_loop f (match strip_prefix [46] i2 with Some r => r | None => i2 end) acc'
      end
  end.

Definition quad_block (input : str) : res (list pquad * str) :=
  do i <- schar 123 input;
  quad_block_loop (S (length i)) i [].

(* sparql_term_first_variable / _blank_node: Some (length of the offending slice, bytes after it up to the
   end of `term`) *)
Definition or_else_opt {A} (a : option A) (b : unit -> res (option A)) : res (option A) :=
  match a with Some x => Ok (Some x) | None => b tt end.

Fixpoint term_first (is_hit : str -> bool) (fuel : nat) (term : str) : res (option (nat * nat)) :=
  match fuel with
  | O => Fuel
  | S f =>
      if is_hit term then Ok (Some (length term, O))
      else if negb (starts_with [60; 60] term) then Ok None
      else
        match qt_parts (S (length term)) term with
        | Ok ((s, p, o), remaining) =>
            if negb (Nat.eqb (length (skip_ws remaining)) O) then Ok None
            else
              let sub (t : ptok) : res (option (nat * nat)) :=
                do r <- term_first is_hit f (fst t);
                Ok (option_map (fun x => (fst x, (snd x + snd t)%nat)) r) in
              do rs <- sub s;
              or_else_opt rs (fun _ => do rp <- sub p; or_else_opt rp (fun _ => sub o))
        | Err _ _ _ => Ok None
        | Panic => Panic
        | Fuel => Fuel
        end
  end.

Definition is_variable_term (t : str) : bool := starts_with [63] t || starts_with [36] t.
Definition is_blank_term (t : str) : bool := starts_with [95; 58] t.

Definition ptok_first (is_hit : str -> bool) (t : ptok) : res (option (nat * nat)) :=
  do r <- term_first is_hit (S (length (fst t))) (fst t);
  Ok (option_map (fun x => (fst x, (snd x + snd t)%nat)) r).

Fixpoint quads_first (is_hit : str -> bool) (with_graph : bool) (qs : list pquad) : res (option (nat * nat)) :=
  match qs with
  | [] => Ok None
  | (g, (s, p, o)) :: rest =>
      do rg <- match g with Some gt => if with_graph then ptok_first is_hit gt else Ok None | None => Ok None end;
      do r <- or_else_opt rg (fun _ => do rs <- ptok_first is_hit s;
              or_else_opt rs (fun _ => do rp <- ptok_first is_hit p;
              or_else_opt rp (fun _ => ptok_first is_hit o)));
      or_else_opt r (fun _ => quads_first is_hit with_graph rest)
  end.

Definition quads_first_variable := quads_first is_variable_term true.
Definition quads_first_blank_node := quads_first is_blank_term false.

Definition reject_if {A} (hit : option (nat * nat)) (k : unit -> res A) : res A :=
  match hit with
  | Some (l, e) => Err kVerify l e
  | None => k tt
  end.

Definition quads_to_group (qs : list quad) : group :=
  join_of (map (fun q => match fst q with
                         | Some name => GGraph name (GBgp [snd q])
                         | None => GBgp [snd q]
                         end) qs).


Definition update_core (fuel : nat) (allow_data_aliases : bool) (input : str) : res (update * str) :=
  match keyword kw_insert input with
  | Ok (_, after_insert) =>
      match keyword kw_data after_insert with
      | Ok (_, after_data) =>
          do '(quads, remaining) <- quad_block after_data;
          do v <- quads_first_variable quads;
          reject_if v (fun _ => Ok (InsertData (map strip_q quads), remaining))
      | Err _ _ _ =>
          do '(ins, after_template) <- quad_block after_insert;
          match keyword kw_where after_template with
          | Ok (_, after_where) =>
              do '(w, remaining) <- group_pattern fuel after_where;
              Ok (InsertWhere (map strip_q ins) w, remaining)
          | Err _ _ _ =>
              if allow_data_aliases && Nat.eqb (length (skip_ws after_template)) O then
                do v <- quads_first_variable ins;
                reject_if v (fun _ => Ok (InsertData (map strip_q ins), after_template))
              else Err kTag (length after_template) 0
          | Panic => Panic
          | Fuel => Fuel
          end
      | Panic => Panic
      | Fuel => Fuel
      end
  | Err _ _ _ =>
      do '(_, after_delete) <- keyword kw_delete input;
      match keyword kw_data after_delete with
      | Ok (_, after_data) =>
          do '(quads, remaining) <- quad_block after_data;
          do v <- quads_first_variable quads;
          do hit <- or_else_opt v (fun _ => quads_first_blank_node quads);
          reject_if hit (fun _ => Ok (DeleteData (map strip_q quads), remaining))
      | Err _ _ _ =>
          match keyword kw_where after_delete with
          | Ok (_, after_where) =>
              do '(template, remaining) <- quad_block after_where;
              do b <- quads_first_blank_node template;
              reject_if b (fun _ =>
                let qs := map strip_q template in
                Ok (DeleteWhereShorthand qs (quads_to_group qs), remaining))
          | Err _ _ _ =>
              do '(del, remaining) <- quad_block after_delete;
              do b <- quads_first_blank_node del;
              reject_if b (fun _ =>
                if allow_data_aliases && Nat.eqb (length (skip_ws remaining)) O then
                  do v <- quads_first_variable del;
                  reject_if v (fun _ => Ok (DeleteData (map strip_q del), remaining))
                else
                  do '(ins, remaining2) <-
                    match keyword kw_insert remaining with
                    | Ok (_, after_insert) =>
                        do '(q, r) <- quad_block after_insert; Ok (Some q, r)
                    | Err _ _ _ => Ok (None, remaining)
                    | Panic => Panic
                    | Fuel => Fuel
                    end;
                  do '(_, after_where) <- keyword kw_where remaining2;
                  do '(w, remaining3) <- group_pattern fuel after_where;
                  match ins with
                  | Some i => Ok (DeleteInsertWhere (map strip_q del) (map strip_q i) w, remaining3)
                  | None => Ok (DeleteWhere (map strip_q del) w, remaining3)
                  end)
          | Panic => Panic
          | Fuel => Fuel
          end
      | Panic => Panic
      | Fuel => Fuel
      end
  | Panic => Panic
  | Fuel => Fuel
  end.

(* ---- prologue and the top-level entries ----------------------------------------------------- *)

Definition prefix_declaration (input0 : str) : res ((str * str) * str) :=
  do '(_, i1) <- keyword kw_prefix input0;
  let input := skip_ws i1 in
  match find_byte 58 input with
  | None => Err kChar (length input) 0
  | Some colon =>
      do prefix <- lift (slice_to input colon);
      do bad <- invalid_pn_prefix prefix;
      match bad with
      | Some (start, len) => Err kVerify len (length input - colon + (colon - start - len))
      | None =>
          do after <- lift (slice_from input (colon + 1));
          do '(i, remaining) <- iri after;
          do inner <- lift (slice i 1 (length i - 1));
          Ok ((prefix, inner), remaining)
      end
  end.

(* HashMap::insert: a later declaration of the same prefix replaces the earlier one *)
Fixpoint str_eqb (a b : str) : bool :=
  match a, b with
  | [], [] => true
  | x :: a', y :: b' => (x =? y) && str_eqb a' b'
  | _, _ => false
  end.
Fixpoint map_insert (k v : str) (m : list (str * str)) : list (str * str) :=
  match m with
  | [] => [(k, v)]
  | (k', v') :: t => if str_eqb k k' then (k, v) :: t else (k', v') :: map_insert k v t
  end.

Fixpoint prefixes_loop (fuel : nat) (input : str) (m : list (str * str)) : res (list (str * str) * str) :=
  match fuel with
  | O => Fuel
  | S f =>
      do b <- starts_keyword kw_prefix input;
      if b then do '(d, r) <- prefix_declaration input; prefixes_loop f r (map_insert (fst d) (snd d) m)
      else Ok (m, input)
  end.
Definition sparql_prefixes (input : str) : res (list (str * str) * str) := prefixes_loop (S (length input)) input [].

(* the final check of both top-level entries: only whitespace / comments may remain *)
Definition finish {A} (remaining : str) (a : A) : res A :=
  let r := skip_ws remaining in
  match r with
  | [] => Ok a
  | _ => Err kEof (length r) 0
  end.

Definition parse_sparql_query (fuel : nat) (input : str) : res select :=
  do '(_, i1) <- sparql_prefixes input;
  do '(q, remaining) <- select_core fuel true i1;
  finish remaining q.

Definition parse_top (fuel : nat) (allow_data_aliases : bool) (input : str) : res top :=
  do '(prefixes, after_prologue0) <- sparql_prefixes input;
  let after_prologue := skip_ws after_prologue0 in
  match after_prologue with
  | [] => Err kEof 0 0
  | _ =>
      do issel <- starts_keyword kw_select after_prologue;
      if issel then
        do '(q, remaining) <- select_core fuel true after_prologue;
        finish remaining (TSelect prefixes q)
      else
        do isins <- starts_keyword kw_insert after_prologue;
        do isdel <- (if isins then Ok true else starts_keyword kw_delete after_prologue);
        if isdel then
          do '(u, remaining) <- update_core fuel allow_data_aliases after_prologue;
          finish remaining (TUpdate prefixes u)
        else Ok TExtension
  end.

Definition default_fuel (input : str) : nat := (8 * length input + 64)%nat.
