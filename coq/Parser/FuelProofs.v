(* C16 deepening (4): fuel adequacy on ARBITRARY input.  With fuel linear in the length of the input no function of the
   grammar model answers `Fuel`; so `Fuel` can be dropped from the totality statements. *)
Require Import List NArith Bool PeanoNat Lia ZifyBool ZifyN.
Require Import KV.Parser.Utf8 KV.Parser.Unicode KV.Parser.Keywords KV.Parser.Scanners KV.Parser.Grammar KV.Parser.Run.
Require Import KV.Parser.Utf8Proofs KV.Parser.ScannerProofs KV.Parser.GrammarProofs.
Import ListNotations.
Open Scope N_scope.

Definition NF {A} (r : res A) : Prop := r <> Fuel.

Lemma bind_nf : forall {A B} (r : res A) (k : A -> res B), NF r -> (forall a, r = Ok a -> NF (k a)) -> NF (bind r k).
Proof. intros A B [a|? ? ?| |] kk H K; cbn [bind]; unfold NF in *; try discriminate; [now apply K|congruence]. Qed.
Lemma good_nf : forall s r, Good s r -> NF r.
Proof. intros s [[t r]|? ? ?| |] H; unfold NF; try discriminate. destruct H. Qed.
Lemma keyword_nf : forall kw s, ascii_str kw -> kw <> [] -> Valid s -> NF (keyword kw s).
Proof. intros. eapply good_nf. now apply keyword_good. Qed.
Lemma schar_nf : forall c s, NF (schar c s).
Proof. intros c s. unfold NF, schar. destruct (skip_ws s) as [|b t]; [discriminate|]. destruct (b =? c); discriminate. Qed.
Lemma starts_keyword_nf : forall kw s, ascii_str kw -> kw <> [] -> Valid s -> NF (starts_keyword kw s).
Proof. intros kw s Ha Hne Hv. destruct (starts_keyword_total kw s Ha Hne Hv) as (b & ->). discriminate. Qed.
Lemma orelse_nf : forall {A} (r : res A) k, NF r -> NF (k tt) -> NF (orelse r k).
Proof. intros A [a|? ? ?| |] kk H K; cbn [orelse]; unfold NF in *; try discriminate; [assumption|congruence]. Qed.
Lemma lift_nf : forall {A} (o : option A), NF (lift o).
Proof. intros A [a|]; discriminate. Qed.

Lemma alt_from_nf : forall {A} (ps : list (str -> res A)) s last, NF last -> Forall (fun p => NF (p s)) ps -> NF (alt_from last ps s).
Proof.
  induction ps as [|p ps IH]; intros s last Hl Hps; [exact Hl|]. inversion Hps as [|? ? Hp Hps']; subst. cbn [alt_from].
  destruct (p s) as [a|k l e| |] eqn:E; try discriminate; [apply IH; [discriminate|assumption]|exact Hp].
Qed.
Lemma alt_nf : forall {A} (ps : list (str -> res A)) s, Forall (fun p => NF (p s)) ps -> NF (alt ps s).
Proof. intros. apply alt_from_nf; [discriminate|assumption]. Qed.

Ltac nf_scanners :=
  repeat (constructor; [first [eapply good_nf; first [apply variable_good | apply iri_good | apply blank_node_good | apply prefixed_name_good
           | apply bare_identifier_good | apply quoted_literal_good | apply numeric_literal_good | apply filter_operator_good
           | apply keyword_good; [kw_a|kw_n|] ]; assumption]|]).

(* lengths *)
Lemma suf_len : forall a b, Suf a b -> (length b <= length a)%nat.
Proof. exact suf_length. Qed.
Lemma safeT_lt : forall s tok rest, Valid s -> SafeT s (Ok (tok, rest)) -> (length rest < length s)%nat.
Proof.
  intros s tok rest Hv (e & B & He & _ & ->). pose proof (bnd_le _ _ B). pose proof (skip_ws_length s Hv). rewrite skipn_length. lia.
Qed.
Lemma keyword_lt : forall kw s m r, ascii_str kw -> kw <> [] -> Valid s -> keyword kw s = Ok (m, r) -> (length r < length s)%nat /\ Suf s r.
Proof.
  intros kw s m r Ha Hne Hv E. pose proof (good_safeT _ _ (keyword_good kw s Ha Hne Hv)) as G. rewrite E in G. split; [eapply safeT_lt; eassumption|].
  pose proof (safeT_safeP s _ Hv G) as P. exact P.
Qed.
Lemma schar_lt : forall c s r, c < 128 -> Valid s -> schar c s = Ok r -> (length r < length s)%nat /\ Suf s r.
Proof.
  intros c s r Hc Hv E. pose proof (schar_np c s Hc Hv) as P. pose proof (schar_ok c s Hc Hv) as O. rewrite E in *. cbn in P. split; [|exact P].
  destruct O as (b & Es & _). pose proof (skip_ws_length s Hv). rewrite Es in *. cbn [length] in *. lia.
Qed.

(* ---- terms: quoted triples nest at most as deep as the text is long -------------------------------------------------------- *)
Definition QtNF (qt : str -> res (str * str)) (n : nat) : Prop := forall t, Valid t -> (length t < n)%nat -> NF (qt t).

Lemma subject_term_with_nf : forall qt n s, QtNF qt n -> Valid s -> (length s < n)%nat -> NF (subject_term_with qt s).
Proof. intros qt n s Hq Hv Hl. apply alt_nf. constructor; [now apply Hq|]. nf_scanners. constructor. Qed.
Lemma object_term_with_nf : forall qt n s, QtNF qt n -> Valid s -> (length s < n)%nat -> NF (object_term_with qt s).
Proof. intros qt n s Hq Hv Hl. apply alt_nf. constructor; [now apply Hq|]. nf_scanners. constructor. Qed.
Lemma graph_name_nf : forall s, Valid s -> NF (graph_name s).
Proof. intros s Hv. apply alt_nf. nf_scanners. constructor. Qed.
Lemma predicate_term_nf : forall s, Valid s -> NF (predicate_term s).
Proof.
  intros s Hv. unfold predicate_term. apply orelse_nf; [eapply good_nf; now apply variable_good|]. apply orelse_nf; [eapply good_nf; now apply iri_good|].
  assert (P : NF (prefixed_name s)) by (eapply good_nf; now apply prefixed_name_good).
  destruct (strip_prefix [97] (skip_ws s)) as [remaining|]; [|exact P].
  destruct (match next_char remaining with Some (c, _) => name_character c | None => false end); [exact P|]. apply bind_nf; [apply lift_nf|discriminate].
Qed.
Lemma positioned_nf : forall r, NF r -> NF (positioned r).
Proof. intros [[t rest]|? ? ?| |] H; unfold NF, positioned in *; cbn [bind]; try discriminate. congruence. Qed.

Lemma qt_parts_with_nf : forall qt s, QtSafe qt -> Valid s -> QtNF qt (length (skip_ws s)) -> NF (qt_parts_with qt s).
Proof.
  intros qt s Hq Hv Hn. unfold qt_parts_with. pose proof (skip_ws_valid s Hv) as Hi.
  destruct (strip_prefix [60; 60] (skip_ws s)) as [i1|] eqn:E1; [|discriminate].
  pose proof (suf_strip [60; 60] _ _ Hi ltac:(repeat constructor; lia) ltac:(discriminate) E1) as S1.
  assert (L1 : (length i1 < length (skip_ws s))%nat).
  { destruct (strip_prefix_bnd [60; 60] _ _ Hi ltac:(repeat constructor; lia) ltac:(discriminate) E1) as [-> B].
    rewrite skipn_length. pose proof (bnd_le _ _ B). cbn [length] in *. lia. }
  pose proof (suf_valid _ _ S1) as V1.
  apply bind_nf; [apply positioned_nf; eapply subject_term_with_nf; eassumption|]. intros [sub i2] E2.
  pose proof (positioned_safe i1 _ V1 (subject_term_with_safe qt i1 Hq V1)) as P1. rewrite E2 in P1. cbn in P1. pose proof (suf_valid _ _ P1) as V2.
  apply bind_nf; [apply positioned_nf; now apply predicate_term_nf|]. intros [pred i3] E3.
  pose proof (positioned_safe i2 _ V2 (predicate_term_safe i2 V2)) as P2. rewrite E3 in P2. cbn in P2. pose proof (suf_valid _ _ P2) as V3.
  apply bind_nf; [apply positioned_nf; eapply object_term_with_nf; [eassumption|assumption|]|].
  { pose proof (suf_len _ _ P1). pose proof (suf_len _ _ P2). lia. }
  intros [obj i4] E4. destruct (strip_prefix [62; 62] (skip_ws i4)); discriminate.
Qed.

Lemma quoted_triple_nf : forall fuel s, Valid s -> (length s < fuel)%nat -> NF (quoted_triple fuel s).
Proof.
  induction fuel as [|f IH]; intros s Hv Hl; [lia|]. cbn [quoted_triple]. pose proof (skip_ws_valid s Hv) as Hi. pose proof (skip_ws_length s Hv) as Hle.
  apply bind_nf.
  - apply qt_parts_with_nf; [apply quoted_triple_safe|assumption|]. intros t Vt Lt. apply IH; [assumption|].
    pose proof (skip_ws_length (skip_ws s) Hi). lia.
  - intros [parts remaining] E. apply bind_nf; [apply lift_nf|discriminate].
Qed.
Lemma subject_term_nf : forall tf s, Valid s -> (length s < tf)%nat -> NF (subject_term tf s).
Proof. intros tf s Hv Hl. eapply subject_term_with_nf; [|eassumption|apply Nat.lt_succ_diag_r]. intros t Vt Lt. apply quoted_triple_nf; [assumption|lia]. Qed.
Lemma object_term_nf : forall tf s, Valid s -> (length s < tf)%nat -> NF (object_term tf s).
Proof. intros tf s Hv Hl. eapply object_term_with_nf; [|eassumption|apply Nat.lt_succ_diag_r]. intros t Vt Lt. apply quoted_triple_nf; [assumption|lia]. Qed.

(* ---- triples statements ------------------------------------------------------------------------------------------------------ *)
Lemma positioned_lt : forall s r t rest, Valid s -> SafeT s r -> positioned r = Ok (t, rest) -> (length rest < length s)%nat /\ Suf s rest.
Proof.
  intros s r t rest Hv H E. destruct r as [[tok rest0]|? ? ?| |]; cbn in E; try discriminate. injection E as _ <-.
  split; [eapply safeT_lt; eassumption|]. exact (safeT_safeP s _ Hv H).
Qed.
Lemma safeP_ok : forall {A} s (r : res (A * str)) a rest, SafeP s r -> r = Ok (a, rest) -> Suf s rest.
Proof. intros A s r a rest H ->. exact H. Qed.
Lemma strip_len : forall p s r, Valid s -> ascii_str p -> p <> [] -> strip_prefix p (skip_ws s) = Some r -> (length r < length s)%nat /\ Suf s r.
Proof.
  intros p s r Hv Ha Hne E. pose proof (skip_ws_valid s Hv) as Hi. pose proof (skip_ws_length s Hv).
  destruct (strip_prefix_bnd p _ _ Hi Ha Hne E) as [-> B]. pose proof (bnd_le _ _ B). split.
  - rewrite skipn_length. destruct p; [congruence|]. cbn [length] in *. lia.
  - eapply suf_trans; [apply suf_skip_ws; assumption|]. eapply suf_strip; eassumption.
Qed.

Lemma objects_loop_nf : forall fuel tf subj pred input acc, Valid input -> (length input < fuel)%nat -> (length input < tf)%nat ->
  NF (objects_loop fuel tf subj pred input acc).
Proof.
  induction fuel as [|f IH]; intros tf subj pred input acc Hv Hf Ht; [lia|]. cbn [objects_loop].
  apply bind_nf; [apply positioned_nf; now apply object_term_nf|]. intros [obj after] E.
  destruct (positioned_lt _ _ _ _ Hv (object_term_safe tf input Hv) E) as [L S1]. pose proof (suf_valid _ _ S1) as V1.
  destruct (strip_prefix [44] (skip_ws after)) as [ac|] eqn:E2; [|discriminate].
  destruct (strip_len [44] after ac V1 ltac:(kw_a) ltac:(kw_n) E2) as [L2 S2]. apply IH; [eapply suf_valid; eassumption|lia|lia].
Qed.
Lemma stops_nf : forall a, Valid a -> NF (stmt_stops_after_semicolon a).
Proof.
  intros a Hv. unfold stmt_stops_after_semicolon. destruct a as [|b t]; [discriminate|]. destruct ((b =? 46) || (b =? 125)); [discriminate|].
  apply bind_nf; [apply starts_keyword_nf; [kw_a|kw_n|assumption]|]. intros g _. destruct g; [discriminate|]. apply starts_keyword_nf; [kw_a|kw_n|assumption].
Qed.
Lemma preds_loop_nf : forall fuel tf subj input acc, Valid input -> (length input < fuel)%nat -> (length input < tf)%nat ->
  NF (preds_loop fuel tf subj input acc).
Proof.
  induction fuel as [|f IH]; intros tf subj input acc Hv Hf Ht; [lia|]. cbn [preds_loop].
  apply bind_nf; [apply positioned_nf; now apply predicate_term_nf|]. intros [pred after_p] E.
  destruct (positioned_lt _ _ _ _ Hv (predicate_term_safe input Hv) E) as [L S1]. pose proof (suf_valid _ _ S1) as V1.
  apply bind_nf; [apply objects_loop_nf; [assumption|lia|lia]|]. intros [acc' input'] E2.
  pose proof (safeP_ok _ _ _ _ (objects_loop_safe _ tf subj pred after_p after_p acc (suf_refl _ V1)) E2) as S2. pose proof (suf_valid _ _ S2) as V2. pose proof (suf_len _ _ S2).
  destruct (strip_prefix [59] (skip_ws input')) as [a0|] eqn:E3; [|discriminate].
  destruct (strip_len [59] input' a0 V2 ltac:(kw_a) ltac:(kw_n) E3) as [L3 S3]. pose proof (suf_valid _ _ S3) as V3.
  pose proof (skip_ws_valid a0 V3) as V4. pose proof (skip_ws_length a0 V3).
  apply bind_nf; [now apply stops_nf|]. intros stop _. destruct stop; [discriminate|]. apply IH; [assumption|lia|lia].
Qed.
Lemma triples_statement_nf : forall tf s, Valid s -> (length s < tf)%nat -> NF (triples_statement tf s).
Proof.
  intros tf s Hv Ht. unfold triples_statement. apply bind_nf; [apply positioned_nf; now apply subject_term_nf|]. intros [subj after_s] E.
  destruct (positioned_lt _ _ _ _ Hv (subject_term_safe tf s Hv) E) as [L S1]. apply preds_loop_nf; [eapply suf_valid; eassumption|lia|lia].
Qed.
Lemma triples_statement_lt : forall tf s ts r, Valid s -> triples_statement tf s = Ok (ts, r) -> (length r < length s)%nat /\ Suf s r.
Proof.
  intros tf s ts r Hv E. unfold triples_statement in E.
  destruct (positioned (subject_term tf s)) as [[subj after_s]|? ? ?| |] eqn:E1; cbn [bind] in E; try discriminate.
  destruct (positioned_lt _ _ _ _ Hv (subject_term_safe tf s Hv) E1) as [L S1].
  pose proof (safeP_ok _ _ _ _ (preds_loop_safe _ tf subj after_s after_s [] (suf_refl _ (suf_valid _ _ S1))) E) as S2. pose proof (suf_len _ _ S2).
  split; [lia|eapply suf_trans; eassumption].
Qed.

(* ---- FILTER ------------------------------------------------------------------------------------------------------------------------ *)
Definition f_operand_safe fuel := proj1 (arith_safe fuel).
Definition f_product_loop_safe fuel := proj1 (proj2 (arith_safe fuel)).
Definition f_product_safe fuel := proj1 (proj2 (proj2 (arith_safe fuel))).
Definition f_arith_loop_safe fuel := proj1 (proj2 (proj2 (proj2 (arith_safe fuel)))).

Lemma tail_len : forall i b t, Valid i -> skip_ws i = b :: t -> b < 128 -> (length t < length i)%nat /\ Suf i t.
Proof.
  intros i b t Hv E Hb. pose proof (skip_ws_length i Hv) as H. rewrite E in H. cbn [length] in H. split; [lia|].
  apply (suf_cons_ascii i b); [rewrite <- E; now apply suf_skip_ws|assumption].
Qed.

Lemma arith_nf : forall fuel,
  (forall i, Valid i -> (3 * length i + 1 <= fuel)%nat -> NF (f_operand fuel i)) /\
  (forall e i, Valid i -> (3 * length i + 1 <= fuel)%nat -> NF (f_product_loop fuel e i)) /\
  (forall i, Valid i -> (3 * length i + 2 <= fuel)%nat -> NF (f_product fuel i)) /\
  (forall e i, Valid i -> (3 * length i + 2 <= fuel)%nat -> NF (f_arith_loop fuel e i)) /\
  (forall i, Valid i -> (3 * length i + 3 <= fuel)%nat -> NF (f_arith fuel i)).
Proof.
  induction fuel as [|f (IHo & IHpl & IHp & IHal & IHa)]; [repeat split; intros; lia|].
  repeat split.
  - intros i Hv Hf. cbn [f_operand].
    destruct (strip_prefix [40] (skip_ws i)) as [ao|] eqn:E.
    + destruct (strip_len [40] i ao Hv ltac:(kw_a) ltac:(kw_n) E) as [L S1]. pose proof (suf_valid _ _ S1) as V1.
      apply bind_nf; [apply IHa; [assumption|lia]|]. intros [e after_e] _. apply bind_nf; [apply schar_nf|discriminate].
    + apply bind_nf; [|intros [t rest] _; discriminate]. unfold filter_operand_token. apply alt_nf. pose proof (skip_ws_valid i Hv). nf_scanners. constructor.
  - intros e i Hv Hf. cbn [f_product_loop]. destruct (skip_ws i) as [|b t] eqn:E; [discriminate|].
    destruct ((b =? 42) || (b =? 47)) eqn:Eb; [|discriminate].
    destruct (tail_len i b t Hv E ltac:(lia)) as [L S1]. pose proof (suf_valid _ _ S1) as V1.
    apply bind_nf; [apply IHo; [assumption|lia]|]. intros [rhs remaining] E2.
    pose proof (safeP_ok _ _ _ _ (f_operand_safe f t t (suf_refl _ V1)) E2) as S2. pose proof (suf_len _ _ S2). apply IHpl; [eapply suf_valid; eassumption|lia].
  - intros i Hv Hf. cbn [f_product]. apply bind_nf; [apply IHo; [assumption|lia]|]. intros [e input] E2.
    pose proof (safeP_ok _ _ _ _ (f_operand_safe f i i (suf_refl _ Hv)) E2) as S2. pose proof (suf_len _ _ S2). apply IHpl; [eapply suf_valid; eassumption|lia].
  - intros e i Hv Hf. cbn [f_arith_loop]. destruct (skip_ws i) as [|b t] eqn:E; [discriminate|].
    destruct ((b =? 43) || (b =? 45)) eqn:Eb; [|discriminate].
    destruct (tail_len i b t Hv E ltac:(lia)) as [L S1]. pose proof (suf_valid _ _ S1) as V1.
    apply bind_nf; [apply IHp; [assumption|lia]|]. intros [rhs remaining] E2.
    pose proof (safeP_ok _ _ _ _ (f_product_safe f t t (suf_refl _ V1)) E2) as S2. pose proof (suf_len _ _ S2). apply IHal; [eapply suf_valid; eassumption|lia].
  - intros i Hv Hf. cbn [f_arith]. apply bind_nf; [apply IHp; [assumption|lia]|]. intros [e input] E2.
    pose proof (safeP_ok _ _ _ _ (f_product_safe f i i (suf_refl _ Hv)) E2) as S2. pose proof (suf_len _ _ S2). apply IHal; [eapply suf_valid; eassumption|lia].
Qed.
Definition f_arith_nf fuel := proj2 (proj2 (proj2 (proj2 (arith_nf fuel)))).

Lemma f_comparison_nf : forall fuel i, Valid i -> (3 * length i + 3 <= fuel)%nat -> NF (f_comparison fuel i).
Proof.
  intros fuel i Hv Hf. unfold f_comparison. pose proof (skip_ws_valid i Hv) as V0. pose proof (skip_ws_length i Hv) as L0.
  apply bind_nf; [apply f_arith_nf; [assumption|lia]|]. intros [x after_left] E1.
  pose proof (safeP_ok _ _ _ _ (f_arith_safe fuel _ _ (suf_refl _ V0)) E1) as S1. pose proof (suf_len _ _ S1). pose proof (suf_valid _ _ S1) as V1.
  apply bind_nf; [apply lift_nf|]. intros l _.
  apply bind_nf; [eapply good_nf; now apply filter_operator_good|]. intros [op after_op] E2.
  pose proof (safeP_ok _ _ _ _ (filter_operator_safe after_left V1) E2) as S2. pose proof (suf_len _ _ S2). pose proof (suf_valid _ _ S2) as V2.
  pose proof (skip_ws_valid _ V2) as V3. pose proof (skip_ws_length _ V2).
  apply bind_nf; [apply f_arith_nf; [assumption|lia]|]. intros [y remaining] _. apply bind_nf; [apply lift_nf|discriminate].
Qed.

Lemma call_arg_nf : forall tf s, Valid s -> (length s < tf)%nat -> NF (alt [quoted_triple tf; variable; quoted_literal; numeric_literal; iri; prefixed_name] s).
Proof. intros tf s Hv Hl. apply alt_nf. constructor; [now apply quoted_triple_nf|]. nf_scanners. constructor. Qed.
Lemma call_args_loop_nf : forall fuel tf i acc, Valid i -> (length i < fuel)%nat -> (length i < tf)%nat -> NF (call_args_loop fuel tf i acc).
Proof.
  induction fuel as [|f IH]; intros tf i acc Hv Hf Ht; [lia|]. cbn [call_args_loop].
  apply bind_nf; [now apply call_arg_nf|]. intros [a remaining] E.
  assert (ST : SafeT i (alt [quoted_triple tf; variable; quoted_literal; numeric_literal; iri; prefixed_name] i)).
  { apply alt_safe; [assumption|]. constructor; [apply quoted_triple_safe|]. safe_scanners. constructor. }
  rewrite E in ST. pose proof (safeT_lt _ _ _ Hv ST) as L. pose proof (safeT_safeP i _ Hv ST) as S1. cbn in S1. pose proof (suf_valid _ _ S1) as V1.
  destruct (strip_prefix [44] (skip_ws remaining)) as [r|] eqn:E2; [|discriminate].
  destruct (strip_len [44] remaining r V1 ltac:(kw_a) ltac:(kw_n) E2) as [L2 S2]. apply IH; [eapply suf_valid; eassumption|lia|lia].
Qed.

Lemma kw_case_nf : forall {B} kw i (X : str -> res B) (Y : res B),
  ascii_str kw -> kw <> [] -> Valid i -> (forall r, Suf i r -> (length r < length i)%nat -> NF (X r)) -> NF Y ->
  NF (match keyword kw i with Ok (_, r) => X r | Err _ _ _ => Y | Panic => Panic | Fuel => Fuel end).
Proof.
  intros B kw i X Y Ha Hn Hv HX HY. pose proof (keyword_nf kw i Ha Hn Hv) as K.
  destruct (keyword kw i) as [[m r]|? ? ?| |] eqn:E; try discriminate; [|assumption|congruence].
  destruct (keyword_lt kw i m r Ha Hn Hv E). now apply HX.
Qed.

Lemma f_function_nf : forall tf i, Valid i -> (length i < tf)%nat -> NF (f_function tf i).
Proof.
  intros tf i Hv Ht. unfold f_function. pose proof (skip_ws_valid i Hv) as V0. pose proof (skip_ws_length i Hv) as L0.
  assert (After : forall name remaining, Suf (skip_ws i) remaining ->
            NF (do i1 <- schar 40 remaining;
                do '(args, i2) <- call_args_loop (S (length i1)) tf i1 [];
                do i3 <- schar 41 i2; Ok (FCall name args, i3))).
  { intros name remaining Hr. pose proof (suf_len _ _ Hr). pose proof (suf_valid _ _ Hr) as Vr.
    apply bind_nf; [apply schar_nf|]. intros i1 E1. destruct (schar_lt 40 remaining i1 ltac:(lia) Vr E1) as [L1 S1].
    apply bind_nf; [apply call_args_loop_nf; [eapply suf_valid; eassumption|lia|lia]|]. intros [args i2] _. apply bind_nf; [apply schar_nf|discriminate]. }
  repeat (apply kw_case_nf; [kw_a|kw_n|assumption|intros; apply After; assumption|]). discriminate.
Qed.

Definition f_atom_safe fuel := proj1 (filter_safe fuel).
Definition f_and_safe fuel := proj1 (proj2 (proj2 (filter_safe fuel))).
Definition f_or_safe fuel := proj2 (proj2 (proj2 (proj2 (filter_safe fuel)))).

Lemma filter_nf : forall fuel,
  (forall i, Valid i -> (3 * length i + 4 <= fuel)%nat -> NF (f_atom fuel i)) /\
  (forall e i, Valid i -> (3 * length i + 4 <= fuel)%nat -> NF (f_and_loop fuel e i)) /\
  (forall i, Valid i -> (3 * length i + 5 <= fuel)%nat -> NF (f_and fuel i)) /\
  (forall e i, Valid i -> (3 * length i + 5 <= fuel)%nat -> NF (f_or_loop fuel e i)) /\
  (forall i, Valid i -> (3 * length i + 6 <= fuel)%nat -> NF (f_or fuel i)).
Proof.
  induction fuel as [|f (IHa & IHal & IHn & IHol & IHo)]; [repeat split; intros; lia|].
  repeat split.
  - intros i Hv Hf. cbn [f_atom]. pose proof (skip_ws_valid i Hv) as V0. pose proof (skip_ws_length i Hv) as L0.
    assert (Rest : NF (orelse (f_function f (skip_ws i)) (fun _ =>
                     orelse (f_comparison f (skip_ws i)) (fun _ =>
                       match strip_prefix [40] (skip_ws i) with
                       | Some after_open => do '(e, after_e) <- f_or f after_open; do remaining <- schar 41 after_e; Ok (e, remaining)
                       | None => do '(a, remaining) <- f_arith f (skip_ws i); Ok (FArith a, remaining)
                       end)))).
    { apply orelse_nf; [apply f_function_nf; [assumption|lia]|]. apply orelse_nf; [apply f_comparison_nf; [assumption|lia]|].
      destruct (strip_prefix [40] (skip_ws i)) as [ao|] eqn:E.
      - destruct (strip_len [40] i ao Hv ltac:(kw_a) ltac:(kw_n) E) as [L S1]. pose proof (suf_valid _ _ S1) as V1.
        apply bind_nf; [apply IHo; [assumption|lia]|]. intros [e after_e] _. apply bind_nf; [apply schar_nf|discriminate].
      - apply bind_nf; [apply f_arith_nf; [assumption|lia]|]. intros [a remaining] _. discriminate. }
    destruct (strip_prefix [33] (skip_ws i)) as [an|] eqn:En; [|exact Rest].
    destruct (starts_with [61] an); [exact Rest|].
    destruct (strip_len [33] i an Hv ltac:(kw_a) ltac:(kw_n) En) as [L S1]. pose proof (suf_valid _ _ S1) as V1.
    apply bind_nf; [apply IHa; [assumption|lia]|]. intros [e remaining] _. discriminate.
  - intros e i Hv Hf. cbn [f_and_loop]. destruct (strip_prefix [38; 38] (skip_ws i)) as [remaining|] eqn:E; [|discriminate].
    destruct (strip_len [38; 38] i remaining Hv ltac:(kw_a) ltac:(kw_n) E) as [L S1]. pose proof (suf_valid _ _ S1) as V1.
    apply bind_nf; [apply IHa; [assumption|lia]|]. intros [rhs after_right] E2.
    pose proof (safeP_ok _ _ _ _ (f_atom_safe f _ _ (suf_refl _ V1)) E2) as S2. pose proof (suf_len _ _ S2). apply IHal; [eapply suf_valid; eassumption|lia].
  - intros i Hv Hf. cbn [f_and]. apply bind_nf; [apply IHa; [assumption|lia]|]. intros [e input] E2.
    pose proof (safeP_ok _ _ _ _ (f_atom_safe f _ _ (suf_refl _ Hv)) E2) as S2. pose proof (suf_len _ _ S2). apply IHal; [eapply suf_valid; eassumption|lia].
  - intros e i Hv Hf. cbn [f_or_loop]. destruct (strip_prefix [124; 124] (skip_ws i)) as [remaining|] eqn:E; [|discriminate].
    destruct (strip_len [124; 124] i remaining Hv ltac:(kw_a) ltac:(kw_n) E) as [L S1]. pose proof (suf_valid _ _ S1) as V1.
    apply bind_nf; [apply IHn; [assumption|lia]|]. intros [rhs after_right] E2.
    pose proof (safeP_ok _ _ _ _ (f_and_safe f _ _ (suf_refl _ V1)) E2) as S2. pose proof (suf_len _ _ S2). apply IHol; [eapply suf_valid; eassumption|lia].
  - intros i Hv Hf. cbn [f_or]. apply bind_nf; [apply IHn; [assumption|lia]|]. intros [e input] E2.
    pose proof (safeP_ok _ _ _ _ (f_and_safe f _ _ (suf_refl _ Hv)) E2) as S2. pose proof (suf_len _ _ S2). apply IHol; [eapply suf_valid; eassumption|lia].
Qed.

Lemma filter_clause_nf : forall fuel i, Valid i -> (3 * length i + 3 <= fuel)%nat -> NF (filter_clause fuel i).
Proof.
  intros fuel i Hv Hf. unfold filter_clause. apply bind_nf; [apply keyword_nf; [kw_a|kw_n|assumption]|]. intros [m i1] E1.
  destruct (keyword_lt kw_filter i m i1 ltac:(kw_a) ltac:(kw_n) Hv E1) as [L1 S1]. pose proof (suf_valid _ _ S1) as V1.
  apply bind_nf; [apply schar_nf|]. intros i2 E2. destruct (schar_lt 40 i1 i2 ltac:(lia) V1 E2) as [L2 S2].
  apply bind_nf; [apply (proj2 (proj2 (proj2 (proj2 (filter_nf fuel))))); [eapply suf_valid; eassumption|lia]|]. intros [e i3] _.
  apply bind_nf; [apply schar_nf|discriminate].
Qed.
Lemma filter_clause_lt : forall fuel i e r, Valid i -> filter_clause fuel i = Ok (e, r) -> (length r < length i)%nat /\ Suf i r.
Proof.
  intros fuel i e r Hv E. pose proof (safeP_ok _ _ _ _ (filter_clause_safe fuel i i (suf_refl _ Hv)) E) as S. split; [|assumption].
  unfold filter_clause in E. destruct (keyword kw_filter i) as [[m i1]|? ? ?| |] eqn:E1; cbn [bind] in E; try discriminate.
  destruct (keyword_lt kw_filter i m i1 ltac:(kw_a) ltac:(kw_n) Hv E1) as [L1 S1]. pose proof (suf_valid _ _ S1) as V1.
  destruct (schar 40 i1) as [i2|? ? ?| |] eqn:E2; cbn [bind] in E; try discriminate. destruct (schar_lt 40 i1 i2 ltac:(lia) V1 E2) as [L2 S2].
  destruct (f_or fuel i2) as [[x i3]|? ? ?| |] eqn:E3; cbn [bind] in E; try discriminate.
  pose proof (safeP_ok _ _ _ _ (f_or_safe fuel i2 i2 (suf_refl _ (suf_valid _ _ S2))) E3) as S3. pose proof (suf_len _ _ S3).
  destruct (schar 41 i3) as [i4|? ? ?| |] eqn:E4; cbn [bind] in E; try discriminate. injection E as _ <-.
  destruct (schar_lt 41 i3 i4 ltac:(lia) (suf_valid _ _ S3) E4). lia.
Qed.

(* ---- BIND and VALUES --------------------------------------------------------------------------------------------------------------- *)
Definition LtP {A} (s : str) (r : res (A * str)) : Prop := match r with Ok a => (length (snd a) < length s)%nat | _ => True end.
Lemma good_ltp : forall s r, Valid s -> Good s r -> LtP s r.
Proof. intros s [[t r]|? ? ?| |] Hv H; cbn; auto. eapply safeT_lt; [eassumption|]. apply good_safeT. exact H. Qed.
Lemma split_at_nf : forall s e, NF (split_at s e).
Proof. intros s e. unfold split_at. apply bind_nf; [apply lift_nf|]. intros a _. apply bind_nf; [apply lift_nf|discriminate]. Qed.
Lemma identifier_nf : forall s, NF (identifier s).
Proof. intros s. unfold identifier. destruct (Nat.eqb _ 0); [discriminate|apply split_at_nf]. Qed.

Lemma bind_argument_nf : forall s, Valid s -> NF (bind_argument s).
Proof.
  intros s Hv. unfold bind_argument. apply orelse_nf; [eapply good_nf; now apply variable_good|].
  pose proof (good_nf _ _ (quoted_literal_good s Hv)) as Q. destruct (quoted_literal s) as [[literal remaining]|? ? ?| |]; try discriminate; [|eapply good_nf; now apply numeric_literal_good|congruence].
  destruct (_ || _); [|discriminate]. apply bind_nf; [apply lift_nf|discriminate].
Qed.
Lemma bind_argument_lt : forall s, Valid s -> LtP s (bind_argument s).
Proof.
  intros s Hv. unfold bind_argument. pose proof (good_ltp _ _ Hv (variable_good s Hv)) as V.
  destruct (variable s) as [[t r]|? ? ?| |]; cbn [orelse]; try exact I; [exact V|].
  pose proof (good_ltp _ _ Hv (quoted_literal_good s Hv)) as Q. destruct (quoted_literal s) as [[literal remaining]|? ? ?| |]; try exact I.
  - destruct (_ || _); [|exact Q]. destruct (lift _); cbn [bind]; try exact I. exact Q.
  - apply good_ltp; [assumption|now apply numeric_literal_good].
Qed.
Lemma bind_args_loop_nf : forall fuel i acc, Valid i -> (length i < fuel)%nat -> NF (bind_args_loop fuel i acc).
Proof.
  induction fuel as [|f IH]; intros i acc Hv Hf; [lia|]. cbn [bind_args_loop].
  apply bind_nf; [now apply bind_argument_nf|]. intros [a remaining] E.
  pose proof (bind_argument_lt i Hv) as L. rewrite E in L. cbn [LtP snd] in L.
  pose proof (safeP_ok _ _ _ _ (bind_argument_safe i Hv) E) as S1. pose proof (suf_valid _ _ S1) as V1.
  destruct (strip_prefix [44] (skip_ws remaining)) as [r|] eqn:E2; [|discriminate].
  destruct (strip_len [44] remaining r V1 ltac:(kw_a) ltac:(kw_n) E2) as [L2 S2]. apply IH; [eapply suf_valid; eassumption|lia].
Qed.
Lemma bind_clause_nf : forall i, Valid i -> NF (bind_clause i).
Proof.
  intros i Hv. unfold bind_clause. apply bind_nf; [apply keyword_nf; [kw_a|kw_n|assumption]|]. intros [m i1] E1.
  destruct (keyword_lt kw_bind i m i1 ltac:(kw_a) ltac:(kw_n) Hv E1) as [L1 S1]. pose proof (suf_valid _ _ S1) as V1.
  apply bind_nf; [apply schar_nf|]. intros i2 E2. destruct (schar_lt 40 i1 i2 ltac:(lia) V1 E2) as [L2 S2]. pose proof (suf_valid _ _ S2) as V2.
  apply bind_nf; [apply identifier_nf|]. intros [fname0 i3] E3.
  pose proof (safeP_ok _ _ _ _ (identifier_safeP _ (skip_ws_valid _ V2)) E3) as S3. pose proof (suf_valid _ _ S3) as V3.
  apply bind_nf; [apply schar_nf|]. intros i4 E4. destruct (schar_lt 40 i3 i4 ltac:(lia) V3 E4) as [L4 S4]. pose proof (suf_valid _ _ S4) as V4.
  apply bind_nf; [apply bind_args_loop_nf; [assumption|lia]|]. intros [args i5] E5.
  pose proof (safeP_ok _ _ _ _ (bind_args_loop_safe _ i4 i4 [] (suf_refl _ V4)) E5) as S5. pose proof (suf_valid _ _ S5) as V5.
  apply bind_nf; [apply schar_nf|]. intros i6 E6. destruct (schar_lt 41 i5 i6 ltac:(lia) V5 E6) as [L6 S6]. pose proof (suf_valid _ _ S6) as V6.
  apply bind_nf; [apply keyword_nf; [kw_a|kw_n|assumption]|]. intros [m7 i7] E7.
  destruct (keyword_lt kw_as i6 m7 i7 ltac:(kw_a) ltac:(kw_n) V6 E7) as [L7 S7]. pose proof (suf_valid _ _ S7) as V7.
  apply bind_nf; [eapply good_nf; now apply variable_good|]. intros [v i8] _. apply bind_nf; [apply schar_nf|discriminate].
Qed.
Lemma sparql_value_nf : forall s, Valid s -> NF (sparql_value s).
Proof.
  intros s Hv. unfold sparql_value. apply kw_case_nf; [kw_a|kw_n|assumption|discriminate|].
  apply bind_nf; [|intros [t r] _; discriminate]. apply alt_nf. nf_scanners. constructor.
Qed.
Lemma sparql_value_lt : forall s, Valid s -> LtP s (sparql_value s).
Proof.
  intros s Hv. unfold sparql_value. destruct (keyword kw_undef s) as [[m r]|? ? ?| |] eqn:E; try exact I.
  - cbn. now destruct (keyword_lt kw_undef s m r ltac:(kw_a) ltac:(kw_n) Hv E).
  - assert (ST : SafeT s (alt [iri; quoted_literal; numeric_literal; keyword kw_true; keyword kw_false; prefixed_name] s)).
    { apply alt_safe; [assumption|]. safe_scanners. constructor. }
    destruct (alt _ s) as [[t r]|? ? ?| |]; cbn [bind]; try exact I. cbn. eapply safeT_lt; eassumption.
Qed.
Lemma values_vars_loop_nf : forall fuel i acc, Valid i -> (length i < fuel)%nat -> NF (values_vars_loop fuel i acc).
Proof.
  induction fuel as [|f IH]; intros i acc Hv Hf; [lia|]. cbn [values_vars_loop]. pose proof (skip_ws_valid i Hv) as V0. pose proof (skip_ws_length i Hv).
  destruct (strip_prefix [41] (skip_ws i)); [discriminate|].
  apply bind_nf; [eapply good_nf; now apply variable_good|]. intros [v r] E.
  pose proof (good_ltp _ _ V0 (variable_good _ V0)) as L. rewrite E in L. cbn [LtP snd] in L.
  pose proof (safeP_ok _ _ _ _ (variable_safeP _ V0) E) as S1. apply IH; [eapply suf_valid; eassumption|lia].
Qed.
Lemma values_row_loop_nf : forall fuel i acc, Valid i -> (length i < fuel)%nat -> NF (values_row_loop fuel i acc).
Proof.
  induction fuel as [|f IH]; intros i acc Hv Hf; [lia|]. cbn [values_row_loop]. pose proof (skip_ws_valid i Hv) as V0. pose proof (skip_ws_length i Hv).
  destruct (strip_prefix [41] (skip_ws i)); [discriminate|].
  apply bind_nf; [now apply sparql_value_nf|]. intros [v r] E.
  pose proof (sparql_value_lt _ V0) as L. rewrite E in L. cbn [LtP snd] in L.
  pose proof (safeP_ok _ _ _ _ (sparql_value_safe _ V0) E) as S1. apply IH; [eapply suf_valid; eassumption|lia].
Qed.
Lemma values_rows_loop_nf : forall fuel n i acc, Valid i -> (length i < fuel)%nat -> NF (values_rows_loop fuel n i acc).
Proof.
  induction fuel as [|f IH]; intros n i acc Hv Hf; [lia|]. cbn [values_rows_loop]. pose proof (skip_ws_valid i Hv) as V0. pose proof (skip_ws_length i Hv).
  destruct (strip_prefix [125] (skip_ws i)); [discriminate|].
  assert (Row : forall row i', (if Nat.eqb n 1 then do '(v, r) <- sparql_value (skip_ws i); Ok ([v], r)
                                 else do r0 <- schar 40 (skip_ws i); values_row_loop (S (length r0)) r0 []) = Ok (row, i') ->
                (length i' < length i)%nat /\ Valid i').
  { intros row i' E. destruct (Nat.eqb n 1).
    - destruct (sparql_value (skip_ws i)) as [[v r]|? ? ?| |] eqn:E1; cbn [bind] in E; try discriminate. injection E as _ <-.
      pose proof (sparql_value_lt _ V0) as L. rewrite E1 in L. cbn [LtP snd] in L. split; [lia|].
      exact (suf_valid _ _ (safeP_ok _ _ _ _ (sparql_value_safe _ V0) E1)).
    - destruct (schar 40 (skip_ws i)) as [r0|? ? ?| |] eqn:E1; cbn [bind] in E; try discriminate.
      destruct (schar_lt 40 _ r0 ltac:(lia) V0 E1) as [L1 S1].
      pose proof (safeP_ok _ _ _ _ (values_row_loop_safe _ r0 r0 [] (suf_refl _ (suf_valid _ _ S1))) E) as S2. pose proof (suf_len _ _ S2).
      split; [lia|eapply suf_valid; eassumption]. }
  apply bind_nf.
  - destruct (Nat.eqb n 1).
    + apply bind_nf; [now apply sparql_value_nf|]. intros [v r] _. discriminate.
    + apply bind_nf; [apply schar_nf|]. intros r0 E1. destruct (schar_lt 40 _ r0 ltac:(lia) V0 E1) as [L1 S1].
      apply values_row_loop_nf; [eapply suf_valid; eassumption|lia].
  - intros [row i'] E. destruct (Row row i' E) as [L V']. destruct (Nat.eqb (length row) n); [|discriminate]. apply IH; [assumption|lia].
Qed.
Lemma values_clause_nf : forall i, Valid i -> NF (values_clause i).
Proof.
  intros i Hv. unfold values_clause. apply bind_nf; [apply keyword_nf; [kw_a|kw_n|assumption]|]. intros [m i1] E1.
  destruct (keyword_lt kw_values i m i1 ltac:(kw_a) ltac:(kw_n) Hv E1) as [L1 S1]. pose proof (suf_valid _ _ S1) as V1.
  apply bind_nf.
  - pose proof (schar_nf 40 i1) as N. destruct (schar 40 i1) as [ao|? ? ?| |] eqn:E2; try discriminate; [| |congruence].
    + destruct (schar_lt 40 i1 ao ltac:(lia) V1 E2) as [L2 S2]. apply values_vars_loop_nf; [eapply suf_valid; eassumption|lia].
    + apply bind_nf; [eapply good_nf; now apply variable_good|]. intros [v r] _. discriminate.
  - intros [vars i2] E2. destruct vars; [discriminate|].
    assert (S2 : Suf i1 i2).
    { destruct (schar 40 i1) as [ao|? ? ?| |] eqn:E3; try discriminate.
      - destruct (schar_lt 40 i1 ao ltac:(lia) V1 E3) as [_ S3]. eapply suf_trans; [exact S3|].
        exact (safeP_ok _ _ _ _ (values_vars_loop_safe _ ao ao [] (suf_refl _ (suf_valid _ _ S3))) E2).
      - destruct (variable i1) as [[v r]|? ? ?| |] eqn:E4; cbn [bind] in E2; try discriminate. injection E2 as _ Er. subst i2.
        exact (safeP_ok _ _ _ _ (variable_safeP _ V1) E4). }
    pose proof (suf_valid _ _ S2) as V2.
    apply bind_nf; [apply schar_nf|]. intros i3 E3. destruct (schar_lt 123 i2 i3 ltac:(lia) V2 E3) as [L3 S3].
    apply bind_nf; [apply values_rows_loop_nf; [eapply suf_valid; eassumption|lia]|]. intros [rows i4] _. discriminate.
Qed.

(* ---- the clauses of SELECT ------------------------------------------------------------------------------------------------------------ *)
Lemma kw_case_lt : forall {B} kw s i (X : str -> res (B * str)) (Y : res (B * str)),
  ascii_str kw -> kw <> [] -> Valid i -> (length i <= length s)%nat -> (forall r, Suf i r -> (length r < length i)%nat -> SafeP r (X r)) -> LtP s Y ->
  LtP s (match keyword kw i with Ok (_, r) => X r | Err _ _ _ => Y | Panic => Panic | Fuel => Fuel end).
Proof.
  intros B kw s i X Y Ha Hn Hv Hl HX HY. destruct (keyword kw i) as [[m r]|? ? ?| |] eqn:E; try exact I; [|assumption].
  destruct (keyword_lt kw i m r Ha Hn Hv E) as [L S1]. specialize (HX r S1 L). destruct (X r) as [[a r2]|? ? ?| |]; try exact I. cbn in *. pose proof (suf_len _ _ HX). lia.
Qed.

Lemma aggregate_nf : forall i, Valid i -> NF (aggregate i).
Proof.
  intros i Hv. unfold aggregate. pose proof (skip_ws_valid i Hv) as V0.
  assert (Hin : exists input wrapped, (match strip_prefix [40] (skip_ws i) with Some r => (r, true) | None => (skip_ws i, false) end) = (input, wrapped) /\ Valid input).
  { destruct (strip_prefix [40] (skip_ws i)) as [r|] eqn:E; eexists _, _; (split; [reflexivity|]); [|assumption].
    destruct (strip_len [40] i r Hv ltac:(kw_a) ltac:(kw_n) E) as [_ S1]. eapply suf_valid; eassumption. }
  destruct Hin as (input & wrapped & -> & Vi).
  assert (After : forall (name : str) i1, Valid i1 ->
     NF (do i2 <- schar 40 i1; do '(v, i3) <- variable i2; do i4 <- schar 41 i3;
         do '(alias, i5) <- match keyword kw_as i4 with
                            | Ok (_, r) => do '(a, r') <- variable r; Ok (Some a, r')
                            | Err _ _ _ => Ok (None, i4) | Panic => Panic | Fuel => Fuel end;
         if wrapped then do i6 <- schar 41 i5; Ok ((name, v, alias), i6) else Ok ((name, v, alias), i5))).
  { intros name i1 V1. apply bind_nf; [apply schar_nf|]. intros i2 E2. destruct (schar_lt 40 i1 i2 ltac:(lia) V1 E2) as [_ S2]. pose proof (suf_valid _ _ S2) as V2.
    apply bind_nf; [eapply good_nf; now apply variable_good|]. intros [v i3] E3. pose proof (suf_valid _ _ (safeP_ok _ _ _ _ (variable_safeP _ V2) E3)) as V3.
    apply bind_nf; [apply schar_nf|]. intros i4 E4. destruct (schar_lt 41 i3 i4 ltac:(lia) V3 E4) as [_ S4]. pose proof (suf_valid _ _ S4) as V4.
    apply bind_nf.
    - apply kw_case_nf; [kw_a|kw_n|assumption| |discriminate]. intros r Sr _. apply bind_nf; [eapply good_nf; apply variable_good; eapply suf_valid; eassumption|]. intros [a r'] _. discriminate.
    - intros [alias i5] _. destruct wrapped; [|discriminate]. apply bind_nf; [apply schar_nf|discriminate]. }
  repeat (apply kw_case_nf; [kw_a|kw_n|assumption|intros r Sr _; apply After; eapply suf_valid; eassumption|]). discriminate.
Qed.
Lemma aggregate_lt : forall i, Valid i -> LtP i (aggregate i).
Proof.
  intros i Hv. unfold aggregate. pose proof (skip_ws_valid i Hv) as V0. pose proof (skip_ws_length i Hv) as L0.
  assert (Hin : exists input wrapped, (match strip_prefix [40] (skip_ws i) with Some r => (r, true) | None => (skip_ws i, false) end) = (input, wrapped) /\ Valid input /\ (length input <= length i)%nat).
  { destruct (strip_prefix [40] (skip_ws i)) as [r|] eqn:E; eexists _, _; (split; [reflexivity|]); [|split; assumption].
    destruct (strip_len [40] i r Hv ltac:(kw_a) ltac:(kw_n) E) as [L1 S1]. split; [eapply suf_valid; eassumption|lia]. }
  destruct Hin as (input & wrapped & -> & Vi & Li).
  assert (After0 : forall (name : str) s i1, Suf s i1 ->
     SafeP s (do i2 <- schar 40 i1; do '(v, i3) <- variable i2; do i4 <- schar 41 i3;
              do '(alias, i5) <- match keyword kw_as i4 with
                                 | Ok (_, r) => do '(a, r') <- variable r; Ok (Some a, r')
                                 | Err _ _ _ => Ok (None, i4) | Panic => Panic | Fuel => Fuel end;
              if wrapped then do i6 <- schar 41 i5; Ok ((name, v, alias), i6) else Ok ((name, v, alias), i5))).
  { intros name s i1 H1. sc. sp variable_safeP. sc.
    eapply bind_safe with (P := fun a => Suf s (snd a)).
    - to_safeP. apply kw_case; [kw_a|kw_n|assumption| |apply ret_safe; assumption].
      intros r Hr. sp variable_safeP. apply ret_safe. assumption.
    - intros [alias i5] S5. cbn [snd] in S5. destruct wrapped; [|apply ret_safe; assumption]. sc. apply ret_safe. assumption. }
  repeat (apply kw_case_lt; [kw_a|kw_n|assumption|assumption|intros r Sr _; apply After0; apply suf_refl; eapply suf_valid; eassumption|]). exact I.
Qed.

Lemma projection_loop_nf : forall fuel i acc, Valid i -> (length i < fuel)%nat -> NF (projection_loop fuel i acc).
Proof.
  induction fuel as [|f IH]; intros i acc Hv Hf; [lia|]. cbn [projection_loop].
  pose proof (good_nf _ _ (variable_good i Hv)) as NV. pose proof (good_ltp _ _ Hv (variable_good i Hv)) as LV. pose proof (variable_safeP i Hv) as SV.
  destruct (variable i) as [[v r]|? ? ?| |]; cbn [LtP SafeP snd] in *; try discriminate; [apply IH; [eapply suf_valid; eassumption|lia]| |congruence].
  pose proof (aggregate_nf i Hv) as NA. pose proof (aggregate_lt i Hv) as LA. pose proof (aggregate_safe i i (suf_refl _ Hv)) as SA.
  destruct (aggregate i) as [[a r]|? ? ?| |]; cbn [LtP SafeP snd] in *; try discriminate; [apply IH; [eapply suf_valid; eassumption|lia]|congruence].
Qed.
Lemma projection_items_nf : forall i, Valid i -> NF (projection_items i).
Proof.
  intros i Hv. unfold projection_items. destruct (strip_prefix [42] (skip_ws i)); [discriminate|].
  apply bind_nf; [apply projection_loop_nf; [now apply skip_ws_valid|lia]|]. intros [vars r] _. destruct vars; discriminate.
Qed.
Lemma vars_loop_nf : forall fuel i acc, Valid i -> (length i < fuel)%nat -> NF (vars_loop fuel i acc).
Proof.
  induction fuel as [|f IH]; intros i acc Hv Hf; [lia|]. cbn [vars_loop].
  pose proof (good_nf _ _ (variable_good i Hv)) as NV. pose proof (good_ltp _ _ Hv (variable_good i Hv)) as LV. pose proof (variable_safeP i Hv) as SV.
  destruct (variable i) as [[v r]|? ? ?| |]; cbn [LtP SafeP snd] in *; try discriminate; [apply IH; [eapply suf_valid; eassumption|lia]|congruence].
Qed.
Lemma group_by_clause_nf : forall i, Valid i -> NF (group_by_clause i).
Proof.
  intros i Hv. unfold group_by_clause. apply bind_nf; [apply keyword_nf; [kw_a|kw_n|assumption]|]. intros [m i1] E1.
  destruct (keyword_lt kw_group i m i1 ltac:(kw_a) ltac:(kw_n) Hv E1) as [_ S1]. pose proof (suf_valid _ _ S1) as V1.
  apply bind_nf; [apply keyword_nf; [kw_a|kw_n|assumption]|]. intros [m2 i2] E2.
  destruct (keyword_lt kw_by i1 m2 i2 ltac:(kw_a) ltac:(kw_n) V1 E2) as [_ S2].
  apply bind_nf; [apply vars_loop_nf; [eapply suf_valid; eassumption|lia]|]. intros [vars r] _. destruct vars; discriminate.
Qed.
Lemma order_condition_nf : forall i, Valid i -> NF (order_condition i).
Proof.
  intros i Hv. unfold order_condition. pose proof (skip_ws_valid i Hv) as V0.
  assert (W : forall r (d : bool), Valid r -> NF (do i1 <- schar 40 r; do '(v, i2) <- variable i1; do i3 <- schar 41 i2; Ok ((v, d), i3))).
  { intros r d Vr. apply bind_nf; [apply schar_nf|]. intros i1 E1. destruct (schar_lt 40 r i1 ltac:(lia) Vr E1) as [_ S1].
    apply bind_nf; [eapply good_nf; apply variable_good; eapply suf_valid; eassumption|]. intros [v i2] _. apply bind_nf; [apply schar_nf|discriminate]. }
  apply kw_case_nf; [kw_a|kw_n|assumption|intros r Sr _; apply W; eapply suf_valid; eassumption|].
  apply kw_case_nf; [kw_a|kw_n|assumption|intros r Sr _; apply W; eapply suf_valid; eassumption|].
  apply bind_nf; [eapply good_nf; now apply variable_good|]. intros [v r] _. discriminate.
Qed.
Lemma order_condition_wrapped_safe : forall s r (d : bool), Suf s r ->
  SafeP s (do i1 <- schar 40 r; do '(v, i2) <- variable i1; do i3 <- schar 41 i2; Ok ((v, d), i3)).
Proof. intros s r d Hr. sc. sp variable_safeP. sc. apply ret_safe. assumption. Qed.
Lemma order_condition_lt : forall i, Valid i -> LtP i (order_condition i).
Proof.
  intros i Hv. unfold order_condition. pose proof (skip_ws_valid i Hv) as V0. pose proof (skip_ws_length i Hv) as L0.
  assert (W : forall r (d : bool), Valid r -> SafeP r (do i1 <- schar 40 r; do '(v, i2) <- variable i1; do i3 <- schar 41 i2; Ok ((v, d), i3))).
  { intros r d Vr. apply (order_condition_wrapped_safe r r d). now apply suf_refl. }
  apply kw_case_lt; [kw_a|kw_n|assumption|assumption|intros r Sr _; apply W; eapply suf_valid; eassumption|].
  apply kw_case_lt; [kw_a|kw_n|assumption|assumption|intros r Sr _; apply W; eapply suf_valid; eassumption|].
  pose proof (good_ltp _ _ V0 (variable_good _ V0)) as LV. destruct (variable (skip_ws i)) as [[v r]|? ? ?| |]; cbn [bind LtP snd] in *; try exact I. lia.
Qed.
Lemma order_loop_nf : forall fuel i acc, Valid i -> (length i < fuel)%nat -> NF (order_loop fuel i acc).
Proof.
  induction fuel as [|f IH]; intros i acc Hv Hf; [lia|]. cbn [order_loop]. pose proof (skip_ws_valid i Hv) as V0. pose proof (skip_ws_length i Hv) as L0.
  destruct (strip_prefix [44] (skip_ws i)) as [r|] eqn:E.
  - destruct (strip_len [44] i r Hv ltac:(kw_a) ltac:(kw_n) E) as [L1 S1]. apply IH; [eapply suf_valid; eassumption|lia].
  - apply bind_nf.
    + destruct (skip_ws i) as [|b t] eqn:Ei; [discriminate|]. destruct (b =? 125); [discriminate|].
      apply bind_nf; [apply starts_keyword_nf; [kw_a|kw_n|assumption]|]. intros l _. destruct l; [discriminate|]. apply starts_keyword_nf; [kw_a|kw_n|assumption].
    + intros st _. destruct st; [discriminate|]. apply bind_nf; [now apply order_condition_nf|]. intros [c r] E2.
      pose proof (order_condition_lt _ V0) as L. rewrite E2 in L. cbn [LtP snd] in L.
      pose proof (safeP_ok _ _ _ _ (order_condition_safe _ _ (suf_refl _ V0)) E2) as S2. apply IH; [eapply suf_valid; eassumption|lia].
Qed.
Lemma order_by_clause_nf : forall i, Valid i -> NF (order_by_clause i).
Proof.
  intros i Hv. unfold order_by_clause. apply bind_nf; [apply keyword_nf; [kw_a|kw_n|assumption]|]. intros [m i1] E1.
  destruct (keyword_lt kw_order i m i1 ltac:(kw_a) ltac:(kw_n) Hv E1) as [_ S1]. pose proof (suf_valid _ _ S1) as V1.
  apply bind_nf; [apply keyword_nf; [kw_a|kw_n|assumption]|]. intros [m2 i2] E2.
  destruct (keyword_lt kw_by i1 m2 i2 ltac:(kw_a) ltac:(kw_n) V1 E2) as [_ S2].
  apply bind_nf; [apply order_loop_nf; [eapply suf_valid; eassumption|lia]|]. intros [conds r] _. destruct conds; discriminate.
Qed.
Lemma limit_clause_nf : forall i, Valid i -> NF (limit_clause i).
Proof.
  intros i Hv. unfold limit_clause. apply bind_nf; [apply keyword_nf; [kw_a|kw_n|assumption]|]. intros [m i1] _.
  destruct (Nat.eqb _ 0); [discriminate|]. apply bind_nf; [apply lift_nf|]. intros ds _. destruct (_ <=? usize_max); [|discriminate].
  apply bind_nf; [apply lift_nf|discriminate].
Qed.
Lemma from_loop_nf : forall fuel i fr frn, Valid i -> (length i < fuel)%nat -> NF (from_loop fuel i fr frn).
Proof.
  induction fuel as [|f IH]; intros i fr frn Hv Hf; [lia|]. cbn [from_loop].
  pose proof (keyword_nf kw_from i ltac:(kw_a) ltac:(kw_n) Hv) as K. destruct (keyword kw_from i) as [[m af]|? ? ?| |] eqn:E; try discriminate; [|congruence].
  destruct (keyword_lt kw_from i m af ltac:(kw_a) ltac:(kw_n) Hv E) as [L1 S1]. pose proof (suf_valid _ _ S1) as V1.
  assert (Target : forall x, Valid x -> NF (alt [iri; prefixed_name] x)) by (intros x Vx; apply alt_nf; nf_scanners; constructor).
  assert (TL : forall x g r, Valid x -> alt [iri; prefixed_name] x = Ok (g, r) -> (length r < length x)%nat /\ Valid r).
  { intros x g r Vx Ex. assert (ST : SafeT x (alt [iri; prefixed_name] x)) by (apply alt_safe; [assumption|]; safe_scanners; constructor).
    rewrite Ex in ST. split; [eapply safeT_lt; eassumption|]. exact (suf_valid _ _ (safeT_safeP x _ Vx ST)). }
  pose proof (keyword_nf kw_named af ltac:(kw_a) ltac:(kw_n) V1) as K2. destruct (keyword kw_named af) as [[m2 an]|? ? ?| |] eqn:E2; try discriminate; [| |congruence].
  - destruct (keyword_lt kw_named af m2 an ltac:(kw_a) ltac:(kw_n) V1 E2) as [L2 S2]. pose proof (suf_valid _ _ S2) as V2.
    apply bind_nf; [now apply Target|]. intros [g r] Eg. destruct (TL _ _ _ V2 Eg). apply IH; [assumption|lia].
  - apply bind_nf; [now apply Target|]. intros [g r] Eg. destruct (TL _ _ _ V1 Eg). apply IH; [assumption|lia].
Qed.
Lemma opt_clause_nf : forall {A} kw (p : str -> res (A * str)) dflt i, ascii_str kw -> kw <> [] -> Valid i -> NF (p i) -> NF (opt_clause kw p dflt i).
Proof.
  intros A kw p dflt i Ha Hn Hv Hp. unfold opt_clause. apply bind_nf; [now apply starts_keyword_nf|]. intros b _. destruct b; [assumption|discriminate].
Qed.
Lemma opt_keyword_nf : forall kw i, ascii_str kw -> kw <> [] -> Valid i -> NF (opt_keyword kw i).
Proof. intros kw i Ha Hn Hv. unfold opt_keyword. pose proof (keyword_nf kw i Ha Hn Hv) as K. destruct (keyword kw i) as [[m r]|? ? ?| |]; try discriminate. congruence. Qed.

(* ---- group graph patterns and SELECT ---------------------------------------------------------------------------------------------------- *)
Ltac step E x Ex := match type of E with bind ?A _ = _ => destruct A as [x|? ? ?| |] eqn:Ex; cbn [bind] in E; try discriminate end.

Lemma bind_clause_lt : forall i, Valid i -> LtP i (bind_clause i).
Proof.
  intros i Hv. destruct (bind_clause i) as [[a r]|? ? ?| |] eqn:E; try exact I. cbn [LtP snd]. unfold bind_clause in E.
  step E x1 E1. destruct x1 as [m i1]. destruct (keyword_lt kw_bind i m i1 ltac:(kw_a) ltac:(kw_n) Hv E1) as [L1 S1]. pose proof (suf_valid _ _ S1) as V1.
  step E i2 E2. destruct (schar_lt 40 i1 i2 ltac:(lia) V1 E2) as [_ S2]. pose proof (suf_valid _ _ S2) as V2.
  step E x3 E3. destruct x3 as [fname0 i3]. pose proof (safeP_ok _ _ _ _ (identifier_safeP _ (skip_ws_valid _ V2)) E3) as S3.
  pose proof (suf_trans _ _ _ (suf_skip_ws _ V2) S3) as S3'. pose proof (suf_valid _ _ S3) as V3.
  step E i4 E4. destruct (schar_lt 40 i3 i4 ltac:(lia) V3 E4) as [_ S4]. pose proof (suf_valid _ _ S4) as V4.
  step E x5 E5. destruct x5 as [args i5]. pose proof (safeP_ok _ _ _ _ (bind_args_loop_safe _ i4 i4 [] (suf_refl _ V4)) E5) as S5. pose proof (suf_valid _ _ S5) as V5.
  step E i6 E6. destruct (schar_lt 41 i5 i6 ltac:(lia) V5 E6) as [_ S6]. pose proof (suf_valid _ _ S6) as V6.
  step E x7 E7. destruct x7 as [m7 i7]. destruct (keyword_lt kw_as i6 m7 i7 ltac:(kw_a) ltac:(kw_n) V6 E7) as [_ S7]. pose proof (suf_valid _ _ S7) as V7.
  step E x8 E8. destruct x8 as [v i8]. pose proof (safeP_ok _ _ _ _ (variable_safeP _ V7) E8) as S8. pose proof (suf_valid _ _ S8) as V8.
  step E i9 E9. destruct (schar_lt 41 i8 i9 ltac:(lia) V8 E9) as [_ S9]. injection E as _ <-.
  pose proof (suf_len _ _ (suf_trans _ _ _ S2 (suf_trans _ _ _ S3' (suf_trans _ _ _ S4 (suf_trans _ _ _ S5 (suf_trans _ _ _ S6 (suf_trans _ _ _ S7 (suf_trans _ _ _ S8 S9)))))))). lia.
Qed.
Lemma values_clause_lt : forall i, Valid i -> LtP i (values_clause i).
Proof.
  intros i Hv. destruct (values_clause i) as [[a r]|? ? ?| |] eqn:E; try exact I. cbn [LtP snd]. unfold values_clause in E.
  step E x1 E1. destruct x1 as [m i1]. destruct (keyword_lt kw_values i m i1 ltac:(kw_a) ltac:(kw_n) Hv E1) as [L1 S1]. pose proof (suf_valid _ _ S1) as V1.
  pose proof (values_clause_safe i1 i1 (suf_refl _ V1)) as _.
  step E x2 E2. destruct x2 as [vars i2].
  assert (S2 : Suf i1 i2).
  { destruct (schar 40 i1) as [ao|? ? ?| |] eqn:E3; try discriminate.
    - destruct (schar_lt 40 i1 ao ltac:(lia) V1 E3) as [_ S3]. eapply suf_trans; [exact S3|].
      exact (safeP_ok _ _ _ _ (values_vars_loop_safe _ ao ao [] (suf_refl _ (suf_valid _ _ S3))) E2).
    - destruct (variable i1) as [[v r0]|? ? ?| |] eqn:E4; cbn [bind] in E2; try discriminate. injection E2 as _ Er. subst i2.
      exact (safeP_ok _ _ _ _ (variable_safeP _ V1) E4). }
  pose proof (suf_valid _ _ S2) as V2. destruct vars; [discriminate|].
  step E i3 E3. destruct (schar_lt 123 i2 i3 ltac:(lia) V2 E3) as [_ S3]. pose proof (suf_valid _ _ S3) as V3.
  step E x4 E4. destruct x4 as [rows i4]. pose proof (safeP_ok _ _ _ _ (values_rows_loop_safe _ _ i3 i3 [] (suf_refl _ V3)) E4) as S4. injection E as _ <-.
  pose proof (suf_len _ _ (suf_trans _ _ _ S2 (suf_trans _ _ _ S3 S4))). lia.
Qed.

Definition group_loop_safe fuel := proj1 (proj2 (group_safe fuel)).
Definition union_loop_safe fuel := proj1 (proj2 (proj2 (group_safe fuel))).
Definition group_primary_safe fuel := proj1 (proj2 (proj2 (proj2 (group_safe fuel)))).

Lemma group_pattern_lt : forall fuel i, Valid i -> LtP i (group_pattern fuel i).
Proof.
  intros [|f] i Hv; [exact I|]. cbn [group_pattern]. destruct (schar 123 i) as [i1|? ? ?| |] eqn:E1; cbn [bind]; try exact I.
  destruct (schar_lt 123 i i1 ltac:(lia) Hv E1) as [L1 S1]. pose proof (group_loop_safe f i1 i1 [] (suf_refl _ (suf_valid _ _ S1))) as P.
  destruct (group_loop f i1 []) as [[g r]|? ? ?| |]; try exact I. cbn in *. pose proof (suf_len _ _ P). lia.
Qed.
Lemma group_primary_lt : forall fuel i, Valid i -> LtP i (group_primary fuel i).
Proof.
  intros [|f] i Hv; [exact I|]. cbn [group_primary]. pose proof (skip_ws_valid i Hv) as V0.
  destruct (keyword kw_graph i) as [[m ag]|? ? ?| |] eqn:E1; try exact I.
  - destruct (keyword_lt kw_graph i m ag ltac:(kw_a) ltac:(kw_n) Hv E1) as [L1 S1]. pose proof (suf_valid _ _ S1) as V1.
    pose proof (safeT_safeP _ _ V1 (graph_name_safe ag V1)) as P2. destruct (graph_name ag) as [[name an]|? ? ?| |]; cbn [bind]; try exact I. cbn in P2.
    pose proof (group_pattern_safe f an an (suf_refl _ (suf_valid _ _ P2))) as P3. destruct (group_pattern f an) as [[p r]|? ? ?| |]; cbn [bind]; try exact I.
    cbn in *. pose proof (suf_len _ _ P2). pose proof (suf_len _ _ P3). lia.
  - destruct (starts_with [123] (skip_ws i)).
    + destruct (lift (slice_from (skip_ws i) 1)) as [w1|? ? ?| |]; cbn [bind]; try exact I.
      destruct (starts_keyword kw_select (skip_ws w1)) as [issel|? ? ?| |]; cbn [bind]; try exact I. destruct issel.
      * destruct (schar 123 i) as [i1|? ? ?| |] eqn:E2; cbn [bind]; try exact I. destruct (schar_lt 123 i i1 ltac:(lia) Hv E2) as [L2 S2]. pose proof (suf_valid _ _ S2) as V2.
        pose proof (select_core_safe f false i1 i1 (suf_refl _ V2)) as P3. destruct (select_core f false i1) as [[q i2]|? ? ?| |]; cbn [bind]; try exact I. cbn in P3.
        destruct (schar 125 i2) as [i3|? ? ?| |] eqn:E4; cbn [bind]; try exact I. destruct (schar_lt 125 i2 i3 ltac:(lia) (suf_valid _ _ P3) E4) as [L4 S4].
        cbn. pose proof (suf_len _ _ P3). lia.
      * now apply group_pattern_lt.
    + destruct (triples_statement (S (length i)) i) as [[ts r]|? ? ?| |] eqn:E2; cbn [bind]; try exact I. cbn. now destruct (triples_statement_lt _ _ _ _ Hv E2).
Qed.

Lemma group_nf : forall fuel,
  (forall i, Valid i -> (3 * length i + 4 <= fuel)%nat -> NF (group_pattern fuel i)) /\
  (forall i joined, Valid i -> (3 * length i + 6 <= fuel)%nat -> NF (group_loop fuel i joined)) /\
  (forall fb i alts, Valid i -> (3 * length i + 5 <= fuel)%nat -> NF (union_loop fuel fb i alts)) /\
  (forall i, Valid i -> (3 * length i + 5 <= fuel)%nat -> NF (group_primary fuel i)) /\
  (forall ad i, Valid i -> (3 * length i + 5 <= fuel)%nat -> NF (select_core fuel ad i)).
Proof.
  induction fuel as [|f (IHg & IHl & IHu & IHp & IHs)]; [repeat split; intros; lia|].
  repeat split.
  - intros i Hv Hf. cbn [group_pattern]. apply bind_nf; [apply schar_nf|]. intros i1 E1. destruct (schar_lt 123 i i1 ltac:(lia) Hv E1) as [L1 S1].
    apply IHl; [eapply suf_valid; eassumption|lia].
  - intros i joined Hv Hf. cbn [group_loop]. pose proof (skip_ws_valid i Hv) as V0. pose proof (skip_ws_length i Hv) as L0.
    destruct (strip_prefix [125] (skip_ws i)); [discriminate|].
    apply bind_nf; [apply starts_keyword_nf; [kw_a|kw_n|assumption]|]. intros isf _. destruct isf.
    { apply bind_nf; [apply filter_clause_nf; [assumption|lia]|]. intros [e r] E. destruct (filter_clause_lt _ _ _ _ V0 E) as [L S1]. apply IHl; [eapply suf_valid; eassumption|lia]. }
    apply bind_nf; [apply starts_keyword_nf; [kw_a|kw_n|assumption]|]. intros isb _. destruct isb.
    { apply bind_nf; [now apply bind_clause_nf|]. intros [[[fn args] v] r] E. pose proof (bind_clause_lt _ V0) as L. rewrite E in L. cbn [LtP snd] in L.
      pose proof (safeP_ok _ _ _ _ (bind_clause_safe _ _ (suf_refl _ V0)) E) as S1. apply IHl; [eapply suf_valid; eassumption|lia]. }
    apply bind_nf; [apply starts_keyword_nf; [kw_a|kw_n|assumption]|]. intros isv _. destruct isv.
    { apply bind_nf; [now apply values_clause_nf|]. intros [vc r] E. pose proof (values_clause_lt _ V0) as L. rewrite E in L. cbn [LtP snd] in L.
      pose proof (safeP_ok _ _ _ _ (values_clause_safe _ _ (suf_refl _ V0)) E) as S1. apply IHl; [eapply suf_valid; eassumption|lia]. }
    apply bind_nf; [apply IHp; [assumption|lia]|]. intros [first af] E1.
    pose proof (group_primary_lt f _ V0) as L1. rewrite E1 in L1. cbn [LtP snd] in L1.
    pose proof (safeP_ok _ _ _ _ (group_primary_safe f _ _ (suf_refl _ V0)) E1) as S1. pose proof (suf_valid _ _ S1) as V1.
    apply bind_nf; [apply IHu; [assumption|lia]|]. intros [alts aa] E2.
    pose proof (safeP_ok _ _ _ _ (union_loop_safe f af _ af [first] (suf_refl _ V1)) E2) as S2. pose proof (suf_valid _ _ S2) as V2. pose proof (suf_len _ _ S2).
    pose proof (skip_ws_valid _ V2) as V3. pose proof (skip_ws_length _ V2).
    destruct (strip_prefix [46] (skip_ws aa)) as [r|] eqn:E3.
    + destruct (strip_len [46] aa r V2 ltac:(kw_a) ltac:(kw_n) E3) as [L3 S3]. apply IHl; [eapply suf_valid; eassumption|lia].
    + apply IHl; [assumption|lia].
  - intros fb i alts Hv Hf. cbn [union_loop].
    pose proof (keyword_nf kw_union i ltac:(kw_a) ltac:(kw_n) Hv) as K. destruct (keyword kw_union i) as [[m au]|? ? ?| |] eqn:E; try discriminate; [|congruence].
    destruct (keyword_lt kw_union i m au ltac:(kw_a) ltac:(kw_n) Hv E) as [L1 S1]. pose proof (suf_valid _ _ S1) as V1.
    destruct (negb fb || _); [discriminate|].
    apply bind_nf; [apply IHp; [assumption|lia]|]. intros [a r] E2.
    pose proof (safeP_ok _ _ _ _ (group_primary_safe f _ _ (suf_refl _ V1)) E2) as S2. pose proof (suf_len _ _ S2). apply IHu; [eapply suf_valid; eassumption|lia].
  - intros i Hv Hf. cbn [group_primary]. pose proof (skip_ws_valid i Hv) as V0. pose proof (skip_ws_length i Hv) as L0.
    pose proof (keyword_nf kw_graph i ltac:(kw_a) ltac:(kw_n) Hv) as K. destruct (keyword kw_graph i) as [[m ag]|? ? ?| |] eqn:E; try discriminate; [| |congruence].
    + destruct (keyword_lt kw_graph i m ag ltac:(kw_a) ltac:(kw_n) Hv E) as [L1 S1]. pose proof (suf_valid _ _ S1) as V1.
      apply bind_nf; [now apply graph_name_nf|]. intros [name an] E2.
      pose proof (safeT_safeP _ _ V1 (graph_name_safe ag V1)) as P2. rewrite E2 in P2. cbn in P2. pose proof (suf_len _ _ P2).
      apply bind_nf; [apply IHg; [eapply suf_valid; eassumption|lia]|]. intros [p r] _. discriminate.
    + destruct (starts_with [123] (skip_ws i)) eqn:Esw.
      * apply bind_nf; [apply lift_nf|]. intros w1 Ew.
        assert (Vw : Valid w1).
        { destruct (skip_ws i) as [|b t] eqn:Es; [discriminate|]. cbn [starts_with] in Esw. apply andb_true_iff in Esw. destruct Esw as [Eb _]. apply N.eqb_eq in Eb. subst b.
          destruct (valid_ascii_head 123 t V0 ltac:(lia)) as (_ & B1 & Vt). rewrite slice_from_bnd in Ew by assumption. cbn [lift skipn] in Ew. now injection Ew as <-. }
        apply bind_nf; [apply starts_keyword_nf; [kw_a|kw_n|now apply skip_ws_valid]|]. intros issel _. destruct issel.
        -- apply bind_nf; [apply schar_nf|]. intros i1 E1. destruct (schar_lt 123 i i1 ltac:(lia) Hv E1) as [L1 S1].
           apply bind_nf; [apply IHs; [eapply suf_valid; eassumption|lia]|]. intros [q i2] _. apply bind_nf; [apply schar_nf|discriminate].
        -- apply IHg; [assumption|lia].
      * apply bind_nf; [apply triples_statement_nf; [assumption|lia]|]. intros [ts r] _. discriminate.
  - intros ad i Hv Hf. cbn [select_core].
    apply bind_nf; [apply keyword_nf; [kw_a|kw_n|assumption]|]. intros [m i1] E1.
    destruct (keyword_lt kw_select i m i1 ltac:(kw_a) ltac:(kw_n) Hv E1) as [L1 S1]. pose proof (suf_valid _ _ S1) as V1.
    apply bind_nf; [apply opt_keyword_nf; [kw_a|kw_n|assumption]|]. intros [d i2] E2.
    pose proof (opt_keyword_np kw_distinct i1 i1 ltac:(kw_a) ltac:(kw_n) (suf_refl _ V1)) as P2. rewrite E2 in P2. cbn in P2. pose proof (suf_valid _ _ P2) as V2.
    apply bind_nf; [now apply projection_items_nf|]. intros [vars i3] E3.
    pose proof (safeP_ok _ _ _ _ (projection_items_safe i2 i2 (suf_refl _ V2)) E3) as S3. pose proof (suf_valid _ _ S3) as V3.
    apply bind_nf; [destruct ad; [apply from_loop_nf; [assumption|lia]|discriminate]|]. intros [[fr frn] i4] E4.
    assert (S4 : Suf i3 i4).
    { destruct ad; [|injection E4 as _ _ <-; now apply suf_refl]. pose proof (from_loop_safe (S (length i3)) i3 i3 [] [] (suf_refl _ V3)) as P. rewrite E4 in P. exact P. }
    pose proof (suf_valid _ _ S4) as V4.
    apply bind_nf; [apply opt_keyword_nf; [kw_a|kw_n|assumption]|]. intros [w i5] E5.
    pose proof (opt_keyword_np kw_where i4 i4 ltac:(kw_a) ltac:(kw_n) (suf_refl _ V4)) as P5. rewrite E5 in P5. cbn in P5. pose proof (suf_valid _ _ P5) as V5.
    pose proof (suf_len _ _ P2). pose proof (suf_len _ _ S3). pose proof (suf_len _ _ S4). pose proof (suf_len _ _ P5).
    apply bind_nf; [apply IHg; [assumption|lia]|]. intros [pattern i6] E6.
    pose proof (safeP_ok _ _ _ _ (group_pattern_safe f i5 i5 (suf_refl _ V5)) E6) as S6. pose proof (suf_valid _ _ S6) as V6.
    apply bind_nf; [apply opt_clause_nf; [kw_a|kw_n|assumption|now apply group_by_clause_nf]|]. intros [gv i7] E7.
    pose proof (opt_clause_safe kw_group group_by_clause [] i6 i6 ltac:(kw_a) ltac:(kw_n) (suf_refl _ V6) (fun j Hj => group_by_clause_safe i6 j Hj)) as P7. rewrite E7 in P7. cbn in P7. pose proof (suf_valid _ _ P7) as V7.
    apply bind_nf; [apply opt_clause_nf; [kw_a|kw_n|assumption|now apply order_by_clause_nf]|]. intros [ord i8] E8.
    pose proof (opt_clause_safe kw_order order_by_clause [] i7 i7 ltac:(kw_a) ltac:(kw_n) (suf_refl _ V7) (fun j Hj => order_by_clause_safe i7 j Hj)) as P8. rewrite E8 in P8. cbn in P8. pose proof (suf_valid _ _ P8) as V8.
    apply bind_nf; [apply opt_clause_nf; [kw_a|kw_n|assumption|]|intros [lim i9] _; discriminate].
    apply bind_nf; [now apply limit_clause_nf|]. intros [n r] _. discriminate.
Qed.
Definition group_pattern_nf fuel := proj1 (group_nf fuel).
Definition select_core_nf fuel := proj2 (proj2 (proj2 (proj2 (group_nf fuel)))).

(* ---- quad blocks, the DATA-block checks, updates ------------------------------------------------------------------------------------------- *)
Lemma dot_rest : forall x, Valid x ->
  let y := match strip_prefix [46] (skip_ws x) with Some r => r | None => skip_ws x end in Valid y /\ (length y <= length x)%nat.
Proof.
  intros x Hv. cbv zeta. destruct (strip_prefix [46] (skip_ws x)) as [r|] eqn:E.
  - destruct (strip_len [46] x r Hv ltac:(kw_a) ltac:(kw_n) E) as [L S1]. split; [eapply suf_valid; eassumption|lia].
  - split; [now apply skip_ws_valid|now apply skip_ws_length].
Qed.
Lemma graph_block_loop_nf : forall fuel g i acc, Valid i -> (length i < fuel)%nat -> NF (graph_block_loop fuel g i acc).
Proof.
  induction fuel as [|f IH]; intros g i acc Hv Hf; [lia|]. cbn [graph_block_loop]. pose proof (skip_ws_valid i Hv) as V0. pose proof (skip_ws_length i Hv) as L0.
  destruct (strip_prefix [125] (skip_ws i)); [discriminate|].
  apply bind_nf; [apply triples_statement_nf; [assumption|lia]|]. intros [ts remaining] E.
  destruct (triples_statement_lt _ _ _ _ V0 E) as [L1 S1]. destruct (dot_rest remaining (suf_valid _ _ S1)) as [Vy Ly]. apply IH; [assumption|lia].
Qed.
Lemma quad_block_loop_nf : forall fuel i acc, Valid i -> (length i < fuel)%nat -> NF (quad_block_loop fuel i acc).
Proof.
  induction fuel as [|f IH]; intros i acc Hv Hf; [lia|]. cbn [quad_block_loop]. pose proof (skip_ws_valid i Hv) as V0. pose proof (skip_ws_length i Hv) as L0.
  destruct (strip_prefix [125] (skip_ws i)); [discriminate|].
  assert (Step : forall acc' i1,
     match keyword kw_graph (skip_ws i) with
     | Ok (_, after_graph) => do '(g, after_name) <- positioned (graph_name after_graph); do gi <- schar 123 after_name; graph_block_loop (S (length gi)) g gi acc
     | Err _ _ _ => do '(ts, remaining) <- triples_statement (S (length (skip_ws i))) (skip_ws i); Ok (acc ++ map (fun t => (None, t)) ts, remaining)
     | Panic => Panic | Fuel => Fuel end = Ok (acc', i1) -> Valid i1 /\ (length i1 < length i)%nat).
  { intros acc' i1 E. destruct (keyword kw_graph (skip_ws i)) as [[m ag]|? ? ?| |] eqn:Ek; try discriminate.
    - destruct (keyword_lt kw_graph _ m ag ltac:(kw_a) ltac:(kw_n) V0 Ek) as [L1 S1]. pose proof (suf_valid _ _ S1) as V1.
      step E x2 E2. destruct x2 as [g an]. destruct (positioned_lt _ _ _ _ V1 (graph_name_safe ag V1) E2) as [L2 S2]. pose proof (suf_valid _ _ S2) as V2.
      step E gi E3. destruct (schar_lt 123 an gi ltac:(lia) V2 E3) as [L3 S3]. pose proof (suf_valid _ _ S3) as V3.
      pose proof (safeP_ok _ _ _ _ (graph_block_loop_safe _ g gi gi acc (suf_refl _ V3)) E) as S4. pose proof (suf_len _ _ S4). split; [eapply suf_valid; eassumption|lia].
    - step E x2 E2. destruct x2 as [ts remaining]. injection E as _ <-. destruct (triples_statement_lt _ _ _ _ V0 E2) as [L1 S1]. split; [eapply suf_valid; eassumption|lia]. }
  apply bind_nf.
  - apply kw_case_nf; [kw_a|kw_n|assumption| |].
    + intros ag S1 L1. pose proof (suf_valid _ _ S1) as V1. apply bind_nf; [apply positioned_nf; now apply graph_name_nf|]. intros [g an] E2.
      destruct (positioned_lt _ _ _ _ V1 (graph_name_safe ag V1) E2) as [L2 S2]. apply bind_nf; [apply schar_nf|]. intros gi E3.
      destruct (schar_lt 123 an gi ltac:(lia) (suf_valid _ _ S2) E3) as [L3 S3]. apply graph_block_loop_nf; [eapply suf_valid; eassumption|lia].
    + apply bind_nf; [apply triples_statement_nf; [assumption|lia]|]. intros [ts remaining] _. discriminate.
  - intros [acc' i1] E. destruct (Step acc' i1 E) as [V1 L1]. destruct (dot_rest i1 V1) as [Vy Ly]. apply IH; [assumption|lia].
Qed.
Lemma quad_block_nf : forall i, Valid i -> NF (quad_block i).
Proof.
  intros i Hv. unfold quad_block. apply bind_nf; [apply schar_nf|]. intros i1 E. destruct (schar_lt 123 i i1 ltac:(lia) Hv E) as [L S1].
  apply quad_block_loop_nf; [eapply suf_valid; eassumption|lia].
Qed.

Lemma safeT_tok_len : forall s tok rest, Valid s -> SafeT s (Ok (tok, rest)) -> (length tok <= length s)%nat.
Proof. intros s tok rest Hv (e & B & He & -> & _). pose proof (skip_ws_length s Hv). rewrite firstn_length. lia. Qed.
Lemma qt_parts_tok_len : forall fuel term s p o rem, Valid term -> qt_parts fuel term = Ok ((s, p, o), rem) ->
  (length (fst s) < length term)%nat /\ (length (fst p) < length term)%nat /\ (length (fst o) < length term)%nat.
Proof.
  intros fuel term s p o rem Hv E. unfold qt_parts, qt_parts_with in E. pose proof (skip_ws_valid term Hv) as Hi. pose proof (skip_ws_length term Hv) as L0.
  destruct (strip_prefix [60; 60] (skip_ws term)) as [i1|] eqn:E1; [|discriminate].
  destruct (strip_len [60; 60] term i1 Hv ltac:(kw_a) ltac:(kw_n) E1) as [L1 S1]. pose proof (suf_valid _ _ S1) as V1.
  assert (Pos : forall i (r : res (str * str)) t rest, Valid i -> SafeT i r -> positioned r = Ok (t, rest) -> (length (fst t) <= length i)%nat /\ Valid rest /\ (length rest <= length i)%nat).
  { intros i r t rest Vi H Ep. destruct r as [[tok rest0]|? ? ?| |]; cbn in Ep; try discriminate. injection Ep as <- <-. cbn [fst].
    split; [eapply safeT_tok_len; eassumption|]. pose proof (safeT_safeP i _ Vi H) as P. cbn in P. split; [eapply suf_valid; eassumption|now apply suf_len]. }
  step E x2 E2. destruct x2 as [sub i2]. destruct (Pos _ _ _ _ V1 (subject_term_with_safe _ i1 (quoted_triple_safe fuel) V1) E2) as (Ls & V2 & L2).
  step E x3 E3. destruct x3 as [pred i3]. destruct (Pos _ _ _ _ V2 (predicate_term_safe i2 V2) E3) as (Lp & V3 & L3).
  step E x4 E4. destruct x4 as [obj i4]. destruct (Pos _ _ _ _ V3 (object_term_with_safe _ i3 (quoted_triple_safe fuel) V3) E4) as (Lo & V4 & L4).
  destruct (strip_prefix [62; 62] (skip_ws i4)); [|discriminate]. injection E as <- <- <- _. repeat split; lia.
Qed.
Lemma term_first_nf : forall is_hit fuel term, Valid term -> (length term < fuel)%nat -> NF (term_first is_hit fuel term).
Proof.
  intros is_hit. induction fuel as [|f IH]; intros term Hv Hf; [lia|]. cbn [term_first].
  destruct (is_hit term); [discriminate|]. destruct (negb (starts_with [60; 60] term)); [discriminate|].
  assert (NQ : NF (qt_parts (S (length term)) term)).
  { unfold qt_parts. apply qt_parts_with_nf; [apply quoted_triple_safe|assumption|]. intros t Vt Lt. apply quoted_triple_nf; [assumption|].
    pose proof (skip_ws_length term Hv). lia. }
  pose proof (qt_parts_np (S (length term)) term Hv) as Q.
  destruct (qt_parts (S (length term)) term) as [[[[s p] o] remaining]|? ? ?| |] eqn:E; try discriminate; [|congruence].
  cbn in Q. destruct Q as (Vs & Vp & Vo). destruct (qt_parts_tok_len _ _ _ _ _ _ Hv E) as (Ls & Lp & Lo).
  destruct (negb (Nat.eqb (length (skip_ws remaining)) 0)); [discriminate|].
  assert (Sub : forall t : ptok, ptok_valid t -> (length (fst t) < length term)%nat ->
            NF (do r <- term_first is_hit f (fst t); Ok (option_map (fun x => (fst x, (snd x + snd t)%nat)) r))).
  { intros t Vt Lt. apply bind_nf; [apply IH; [exact Vt|lia]|]. discriminate. }
  apply bind_nf; [now apply Sub|]. intros rs _. destruct rs; cbn [or_else_opt]; [discriminate|].
  apply bind_nf; [now apply Sub|]. intros rp _. destruct rp; cbn [or_else_opt]; [discriminate|]. now apply Sub.
Qed.
Lemma ptok_first_nf : forall is_hit t, ptok_valid t -> NF (ptok_first is_hit t).
Proof. intros is_hit t Vt. unfold ptok_first. apply bind_nf; [apply term_first_nf; [exact Vt|lia]|]. discriminate. Qed.
Lemma quads_first_nf : forall is_hit wg qs, Forall pquad_valid qs -> NF (quads_first is_hit wg qs).
Proof.
  intros is_hit wg. induction qs as [|[g [[s p] o]] rest IH]; intros Hq; [discriminate|].
  inversion Hq as [|? ? Hq1 Hrest]; subst. unfold pquad_valid, ptriple_valid in Hq1. cbn [fst snd] in Hq1. destruct Hq1 as [Hg (Hs & Hp & Ho)]. cbn [quads_first].
  apply bind_nf; [destruct g as [gt|]; [destruct wg; [now apply ptok_first_nf|discriminate]|discriminate]|]. intros rg _.
  apply bind_nf.
  - destruct rg; cbn [or_else_opt]; [discriminate|]. apply bind_nf; [now apply ptok_first_nf|]. intros rs _. destruct rs; cbn [or_else_opt]; [discriminate|].
    apply bind_nf; [now apply ptok_first_nf|]. intros rp _. destruct rp; cbn [or_else_opt]; [discriminate|]. now apply ptok_first_nf.
  - intros r _. destruct r; cbn [or_else_opt]; [discriminate|]. now apply IH.
Qed.
Lemma reject_if_nf : forall {A} hit (k : unit -> res A), NF (k tt) -> NF (reject_if hit k).
Proof. intros A [[l e]|] k H; cbn [reject_if]; [discriminate|assumption]. Qed.

Lemma update_core_nf : forall fuel alias i, Valid i -> (3 * length i + 4 <= fuel)%nat -> NF (update_core fuel alias i).
Proof.
  intros fuel alias i Hv Hf. unfold update_core.
  assert (QB : forall x, Valid x -> forall (B : Type) (k : list pquad * str -> res B),
             (forall quads remaining, Forall pquad_valid quads -> Suf x remaining -> NF (k (quads, remaining))) -> NF (bind (quad_block x) k)).
  { intros x Vx B k Hk. apply bind_nf; [now apply quad_block_nf|]. intros [quads remaining] E.
    pose proof (quad_block_np x x (suf_refl _ Vx)) as P. rewrite E in P. destruct P as [Vq Sr]. now apply Hk. }
  assert (GP : forall x, Valid x -> (length x <= length i)%nat -> forall (k : group * str -> res (update * str)), (forall a, NF (k a)) -> NF (bind (group_pattern fuel x) k)).
  { intros x Vx Lx k Hk. apply bind_nf; [apply group_pattern_nf; [assumption|lia]|]. intros a _. apply Hk. }
  apply kw_case_nf; [kw_a|kw_n|assumption| |].
  - intros ai Si Li. pose proof (suf_valid _ _ Si) as Vi. apply kw_case_nf; [kw_a|kw_n|assumption| |].
    + intros ad Sd Ld. apply QB; [eapply suf_valid; eassumption|]. intros quads remaining Vq Sr.
      apply bind_nf; [now apply quads_first_nf|]. intros v _. apply reject_if_nf. discriminate.
    + apply QB; [assumption|]. intros ins at_ Vq Sr. pose proof (suf_valid _ _ Sr) as Vt. pose proof (suf_len _ _ Sr).
      apply kw_case_nf; [kw_a|kw_n|assumption| |].
      * intros aw Sw Lw. apply GP; [eapply suf_valid; eassumption|lia|]. intros [w r]. discriminate.
      * destruct (alias && _); [|discriminate]. apply bind_nf; [now apply quads_first_nf|]. intros v _. apply reject_if_nf. discriminate.
  - apply bind_nf; [apply keyword_nf; [kw_a|kw_n|assumption]|]. intros [m ad] Ed.
    destruct (keyword_lt kw_delete i m ad ltac:(kw_a) ltac:(kw_n) Hv Ed) as [Ld Sd]. pose proof (suf_valid _ _ Sd) as Vd.
    apply kw_case_nf; [kw_a|kw_n|assumption| |].
    + intros adt Sdt Ldt. apply QB; [eapply suf_valid; eassumption|]. intros quads remaining Vq Sr.
      apply bind_nf; [now apply quads_first_nf|]. intros v _.
      apply bind_nf; [destruct v; cbn [or_else_opt]; [discriminate|now apply quads_first_nf]|]. intros hit _. apply reject_if_nf. discriminate.
    + apply kw_case_nf; [kw_a|kw_n|assumption| |].
      * intros aw Sw Lw. apply QB; [eapply suf_valid; eassumption|]. intros template remaining Vq Sr.
        apply bind_nf; [now apply quads_first_nf|]. intros b _. apply reject_if_nf. discriminate.
      * apply QB; [assumption|]. intros del remaining Vq Sr. pose proof (suf_valid _ _ Sr) as Vr. pose proof (suf_len _ _ Sr).
        apply bind_nf; [now apply quads_first_nf|]. intros b _. apply reject_if_nf.
        destruct (alias && _).
        -- apply bind_nf; [now apply quads_first_nf|]. intros v _. apply reject_if_nf. discriminate.
        -- apply bind_nf.
           ++ apply kw_case_nf; [kw_a|kw_n|assumption| |discriminate]. intros ai Si Li. apply QB; [eapply suf_valid; eassumption|]. intros q r _ _. discriminate.
           ++ intros [ins remaining2] E2.
              assert (S2 : Suf remaining remaining2).
              { destruct (keyword kw_insert remaining) as [[mi ai]|? ? ?| |] eqn:Ei; try discriminate.
                - destruct (keyword_lt kw_insert remaining mi ai ltac:(kw_a) ltac:(kw_n) Vr Ei) as [_ Si]. step E2 x3 E3. destruct x3 as [q r]. injection E2 as _ <-.
                  pose proof (quad_block_np ai ai (suf_refl _ (suf_valid _ _ Si))) as P. rewrite E3 in P. destruct P as [_ P]. eapply suf_trans; eassumption.
                - injection E2 as _ <-. now apply suf_refl. }
              pose proof (suf_valid _ _ S2) as V2. pose proof (suf_len _ _ S2).
              apply bind_nf; [apply keyword_nf; [kw_a|kw_n|assumption]|]. intros [mw aw] Ew.
              destruct (keyword_lt kw_where remaining2 mw aw ltac:(kw_a) ltac:(kw_n) V2 Ew) as [Lw Sw].
              apply GP; [eapply suf_valid; eassumption|lia|]. intros [w r3]. destruct ins; discriminate.
Qed.

(* ---- prologue and the top-level entries ------------------------------------------------------------------------------------------------------ *)
Lemma prefix_declaration_nf : forall i, Valid i -> NF (prefix_declaration i).
Proof.
  intros i Hv. unfold prefix_declaration. apply bind_nf; [apply keyword_nf; [kw_a|kw_n|assumption]|]. intros [m i1] E1.
  destruct (keyword_lt kw_prefix i m i1 ltac:(kw_a) ltac:(kw_n) Hv E1) as [L1 S1]. pose proof (suf_valid _ _ S1) as V1. pose proof (skip_ws_valid _ V1) as Vw.
  destruct (find_byte 58 (skip_ws i1)) as [colon|] eqn:Ef; [|discriminate].
  destruct (find_byte_spec _ _ _ Ef) as [Hnth Hlt].
  destruct (ascii_byte_bnd (skip_ws i1) colon Vw Hlt) as [Bc Bc1]; [rewrite Hnth; lia|].
  rewrite slice_to_bnd by assumption. cbn [lift bind].
  pose proof (invalid_pn_prefix_ok _ (bnd_firstn_valid _ _ Bc)) as Hp.
  destruct (invalid_pn_prefix (firstn colon (skip_ws i1))) as [[[st ln]|]|? ? ?| |]; cbn in Hp; try contradiction; cbn [bind]; [discriminate|].
  apply bind_nf; [apply lift_nf|]. intros after Ea.
  assert (Va : Valid after).
  { replace (colon + 1)%nat with (Datatypes.S colon) in Ea by lia. rewrite slice_from_bnd in Ea by assumption. unfold lift in Ea. assert (Ea' : after = skipn (Datatypes.S colon) (skip_ws i1)) by congruence. rewrite Ea'. now apply bnd_skipn_valid. }
  apply bind_nf; [eapply good_nf; now apply iri_good|]. intros [tok remaining] _. apply bind_nf; [apply lift_nf|discriminate].
Qed.
Lemma prefix_declaration_lt : forall i, Valid i -> LtP i (prefix_declaration i).
Proof.
  intros i Hv. destruct (prefix_declaration i) as [[a r]|? ? ?| |] eqn:E; try exact I. cbn [LtP snd]. unfold prefix_declaration in E.
  step E x1 E1. destruct x1 as [m i1]. destruct (keyword_lt kw_prefix i m i1 ltac:(kw_a) ltac:(kw_n) Hv E1) as [L1 S1]. pose proof (suf_valid _ _ S1) as V1.
  pose proof (skip_ws_valid _ V1) as Vw. pose proof (skip_ws_length _ V1) as Lw.
  destruct (find_byte 58 (skip_ws i1)) as [colon|] eqn:Ef; [|discriminate].
  destruct (find_byte_spec _ _ _ Ef) as [Hnth Hlt].
  destruct (ascii_byte_bnd (skip_ws i1) colon Vw Hlt) as [Bc Bc1]; [rewrite Hnth; lia|].
  rewrite slice_to_bnd in E by assumption. cbn [lift bind] in E.
  step E bad Eb. destruct bad as [[st ln]|]; [discriminate|].
  replace (colon + 1)%nat with (Datatypes.S colon) in E by lia. rewrite slice_from_bnd in E by assumption. cbn [lift bind] in E.
  step E x2 E2. destruct x2 as [tok remaining]. step E inner E3. injection E as _ <-.
  pose proof (safeP_ok _ _ _ _ (iri_safeP _ (bnd_skipn_valid _ _ Bc1)) E2) as S2. pose proof (suf_len _ _ S2) as L2. rewrite skipn_length in L2. lia.
Qed.
Lemma prefixes_loop_nf : forall fuel i m, Valid i -> (length i < fuel)%nat -> NF (prefixes_loop fuel i m).
Proof.
  induction fuel as [|f IH]; intros i m Hv Hf; [lia|]. cbn [prefixes_loop].
  apply bind_nf; [apply starts_keyword_nf; [kw_a|kw_n|assumption]|]. intros b _. destruct b; [|discriminate].
  apply bind_nf; [now apply prefix_declaration_nf|]. intros [d r] E. pose proof (prefix_declaration_lt i Hv) as L. rewrite E in L. cbn [LtP snd] in L.
  pose proof (safeP_ok _ _ _ _ (prefix_declaration_safe i i (suf_refl _ Hv)) E) as S1. apply IH; [eapply suf_valid; eassumption|lia].
Qed.
Lemma finish_nf : forall {A} remaining (a : A), NF (finish remaining a).
Proof. intros A remaining a. unfold finish. destruct (skip_ws remaining); discriminate. Qed.

Theorem parse_sparql_query_no_fuel : forall fuel s, Valid s -> (3 * length s + 5 <= fuel)%nat -> parse_sparql_query fuel s <> Fuel.
Proof.
  intros fuel s Hv Hf. unfold parse_sparql_query. apply bind_nf; [apply prefixes_loop_nf; [assumption|lia]|]. intros [m i1] E1.
  pose proof (safeP_ok _ _ _ _ (sparql_prefixes_safe s Hv) E1) as S1. pose proof (suf_len _ _ S1).
  apply bind_nf; [apply select_core_nf; [eapply suf_valid; eassumption|lia]|]. intros [q remaining] _. apply finish_nf.
Qed.
Theorem parse_top_no_fuel : forall fuel alias s, Valid s -> (3 * length s + 5 <= fuel)%nat -> parse_top fuel alias s <> Fuel.
Proof.
  intros fuel alias s Hv Hf. unfold parse_top. apply bind_nf; [apply prefixes_loop_nf; [assumption|lia]|]. intros [m i1] E1.
  pose proof (safeP_ok _ _ _ _ (sparql_prefixes_safe s Hv) E1) as S1. pose proof (suf_len _ _ S1). pose proof (suf_valid _ _ S1) as V1.
  pose proof (skip_ws_valid _ V1) as Vw. pose proof (skip_ws_length _ V1) as Lw.
  destruct (skip_ws i1) as [|b0 t0] eqn:Ei; [discriminate|]. rewrite <- Ei in *.
  apply bind_nf; [apply starts_keyword_nf; [kw_a|kw_n|assumption]|]. intros issel _. destruct issel.
  - apply bind_nf; [apply select_core_nf; [assumption|lia]|]. intros [q remaining] _. apply finish_nf.
  - apply bind_nf; [apply starts_keyword_nf; [kw_a|kw_n|assumption]|]. intros isins _.
    apply bind_nf; [destruct isins; [discriminate|apply starts_keyword_nf; [kw_a|kw_n|assumption]]|]. intros isdel _. destruct isdel; [|discriminate].
    apply bind_nf; [apply update_core_nf; [assumption|lia]|]. intros [u remaining] _. apply finish_nf.
Qed.

(* TOTALITY without fuel: with the fuel of Run.v both entries answer a tree or an ordinary error on EVERY valid input *)
Theorem parse_top_total : forall alias s, Valid s ->
  (exists t, parse_top (default_fuel s) alias s = Ok t) \/ (exists k l e, parse_top (default_fuel s) alias s = Err k l e).
Proof.
  intros alias s Hv. pose proof (parse_top_no_panic (default_fuel s) alias s Hv) as NP.
  pose proof (parse_top_no_fuel (default_fuel s) alias s Hv ltac:(unfold default_fuel; lia)) as NFu.
  destruct (parse_top (default_fuel s) alias s) as [t|k l e| |]; [left; eauto|right; eauto|congruence|congruence].
Qed.
Theorem parse_sparql_query_total : forall s, Valid s ->
  (exists q, parse_sparql_query (default_fuel s) s = Ok q) \/ (exists k l e, parse_sparql_query (default_fuel s) s = Err k l e).
Proof.
  intros s Hv. pose proof (parse_sparql_query_no_panic (default_fuel s) s Hv) as NP.
  pose proof (parse_sparql_query_no_fuel (default_fuel s) s Hv ltac:(unfold default_fuel; lia)) as NFu.
  destruct (parse_sparql_query (default_fuel s) s) as [t|k l e| |]; [left; eauto|right; eauto|congruence|congruence].
Qed.
