(* Term-level round trips: scanning the printed form of a well-formed token, preceded by any closed layout
   (whitespace and newline-terminated comments) and followed by a rest that cannot extend the token, returns
   exactly the token and the rest.  The token classes are specified independently of the scanners (Spec). *)
Require Import List NArith Bool PeanoNat Lia ZifyBool ZifyN.
Require Import KV.Parser.Utf8 KV.Parser.Unicode KV.Parser.Keywords KV.Parser.Scanners KV.Parser.Grammar.
Require Import KV.Parser.Utf8Proofs KV.Parser.ScannerProofs KV.Parser.GrammarProofs.
Import ListNotations.
Open Scope N_scope.

(* ---- closed layout: every comment is terminated inside the layout ------------------------------ *)
Inductive LayoutC : str -> Prop :=
| LC_end : forall ws, WsOnly ws -> LayoutC ws
| LC_comment : forall ws body e w, WsOnly ws -> no_eol body -> Valid body -> (e = 10 \/ e = 13) -> LayoutC w ->
    LayoutC (ws ++ 35 :: body ++ e :: w).

Lemma layoutC_valid : forall w, LayoutC w -> Valid w.
Proof.
  induction 1; [now apply wsonly_valid|].
  apply valid_app; [now apply wsonly_valid|]. apply (valid_app [35]); [apply valid_ascii; repeat constructor; lia|].
  apply valid_app; [assumption|]. apply (valid_app [e]); [apply valid_ascii; repeat constructor; lia|assumption].
Qed.

Lemma eol_ws : forall e, e = 10 \/ e = 13 -> scalar e /\ is_whitespace e = true /\ encode_char e = [e].
Proof. intros e [-> | ->]; repeat split; reflexivity. Qed.

Lemma lc_cons_ws : forall e w, LayoutC w -> (e = 10 \/ e = 13) -> LayoutC (e :: w).
Proof.
  intros e w H He. destruct (eol_ws e He) as (Sc & Ws & Enc). inversion H; subst.
  - apply LC_end. change (e :: w) with ([e] ++ w). rewrite <- Enc. now constructor.
  - change (e :: ws ++ 35 :: body ++ e0 :: w0) with ((e :: ws) ++ 35 :: body ++ e0 :: w0). apply LC_comment; try assumption.
    change (e :: ws) with ([e] ++ ws). rewrite <- Enc. now constructor.
Qed.

Definition no_ws_head (x : str) : Prop := forall c n, next_char x = Some (c, n) -> is_whitespace c = false.

Lemma trim_exact : forall ws, WsOnly ws -> forall fuel x, no_ws_head x -> (length (ws ++ x) <= fuel)%nat ->
  trim_start_ws fuel (ws ++ x) = x.
Proof.
  induction 1 as [|c w Hc Hw Hws IH]; intros fuel x Hx Hl.
  - cbn [app]. destruct fuel; [reflexivity|]. cbn [trim_start_ws]. destruct (next_char x) as [[c n]|] eqn:E; [|reflexivity].
    now rewrite (Hx c n E).
  - rewrite <- app_assoc. destruct fuel as [|f].
    + rewrite !app_length, encode_char_len in Hl. pose proof (len_utf8_pos c). lia.
    + cbn [trim_start_ws]. rewrite next_char_encode by now apply scalar_lt. rewrite Hw.
      rewrite <- encode_char_len, skipn_app, skipn_all, Nat.sub_diag. cbn [skipn app]. apply IH; [assumption|].
      rewrite !app_length in *. rewrite encode_char_len in Hl. pose proof (len_utf8_pos c). lia.
Qed.

Lemma to_eol_body : forall body e r, no_eol body -> (e = 10 \/ e = 13) -> to_eol (body ++ e :: r) = e :: r.
Proof.
  induction body as [|b body IH]; intros e r Hb He.
  - cbn. destruct He as [-> | ->]; reflexivity.
  - inversion Hb as [|? ? [H1 H2] Hb']; subst. cbn [app to_eol].
    destruct (N.eqb_spec b 13); [lia|]. destruct (N.eqb_spec b 10); [lia|]. cbn [orb]. now apply IH.
Qed.

Lemma not_layout_head : forall t, Valid t -> ~ starts_layout t -> no_ws_head t /\ (forall c, t <> 35 :: c).
Proof.
  intros t Hv Hn. split.
  - intros c n E. unfold starts_layout in Hn. rewrite E in Hn. destruct (is_whitespace c); [exfalso; apply Hn; now left|reflexivity].
  - intros c E. apply Hn. unfold starts_layout. rewrite E. cbn. now right.
Qed.

Lemma skip_ws_aux_closed : forall fuel w t, LayoutC w -> Valid t -> ~ starts_layout t -> (length (w ++ t) < fuel)%nat ->
  skip_ws_aux fuel (w ++ t) = t.
Proof.
  induction fuel as [|f IH]; intros w t Hw Hv Hn Hl; [lia|].
  destruct (not_layout_head t Hv Hn) as [Hnw H35]. destruct Hw as [ws Hws|ws body e w' Hws Hb Hvb He Hw'].
  - cbn [skip_ws_aux]. rewrite (trim_exact ws Hws _ t Hnw (le_n _)).
    destruct t as [|b c]; [reflexivity|]. destruct (N.eqb_spec b 35) as [->|]; [exfalso; eapply H35; reflexivity|reflexivity].
  - cbn [skip_ws_aux]. rewrite <- app_assoc. cbn [app]. rewrite <- app_assoc. cbn [app].
    rewrite (trim_exact ws Hws _ (35 :: body ++ e :: w' ++ t)).
    + rewrite N.eqb_refl. rewrite to_eol_body by assumption. change (e :: w' ++ t) with ((e :: w') ++ t).
      apply IH; [now apply lc_cons_ws|assumption|assumption|].
      repeat (rewrite app_length in Hl || cbn [length] in Hl). rewrite app_length. cbn [length]. lia.
    + intros c n E. cbn in E. inversion E. reflexivity.
    + repeat (rewrite app_length in Hl || cbn [length] in Hl). repeat (rewrite app_length || cbn [length]). lia.
Qed.

Theorem skip_ws_closed : forall w t, LayoutC w -> Valid t -> ~ starts_layout t -> skip_ws (w ++ t) = t.
Proof. intros. unfold skip_ws. apply skip_ws_aux_closed; try assumption. lia. Qed.

(* a token whose first byte is ASCII, not whitespace and not `#` does not start with layout *)
Lemma ascii_head_not_layout : forall b t, b < 128 -> is_whitespace b = false -> b <> 35 -> ~ starts_layout (b :: t).
Proof.
  intros b t Hb Hw H35. unfold starts_layout. cbn [next_char]. destruct (N.ltb_spec b 128); [|lia].
  intros [Hx|Hx]; congruence.
Qed.

(* ---- variables --------------------------------------------------------------------------------- *)
Definition var_char (c : N) : bool := is_alphanumeric c || (c =? 95).

Inductive VarTok : str -> Prop :=
| vartok : forall sigil cs, (sigil = 63 \/ sigil = 36) -> cs <> [] -> Forall scalar cs -> Forall (fun c => var_char c = true) cs ->
    VarTok (sigil :: encode cs).

(* the rest must not continue the name *)
Definition var_stop (rest : str) : Prop :=
  match next_char rest with Some (c, _) => var_char c = false | None => True end.

Lemma var_loop_exact : forall cs fuel e rest, Forall scalar cs -> Forall (fun c => var_char c = true) cs -> var_stop rest ->
  (length (encode cs ++ rest) <= fuel)%nat -> var_loop fuel (encode cs ++ rest) e = (e + length (encode cs))%nat.
Proof.
  induction cs as [|c cs IH]; intros fuel e rest Hs Hc Hst Hl.
  - cbn [encode app length]. rewrite Nat.add_0_r. destruct fuel; [reflexivity|]. cbn [var_loop].
    unfold var_stop in Hst. destruct (next_char rest) as [[c n]|]; [|reflexivity]. cbv beta iota in Hst. unfold var_char in Hst. now rewrite Hst.
  - inversion Hs as [|? ? Hsc Hs']; subst. inversion Hc as [|? ? Hvc Hc']; subst. cbn [encode] in *. rewrite <- app_assoc in *.
    destruct fuel as [|f]; [rewrite app_length, encode_char_len in Hl; pose proof (len_utf8_pos c); lia|].
    cbn [var_loop]. rewrite next_char_encode by now apply scalar_lt. unfold var_char in Hvc. rewrite Hvc.
    rewrite <- encode_char_len, skipn_app, skipn_all, Nat.sub_diag. cbn [skipn app].
    rewrite IH; try assumption.
    + rewrite app_length. lia.
    + rewrite !app_length in *. rewrite encode_char_len in Hl. pose proof (len_utf8_pos c). lia.
Qed.

Lemma valid_encode : forall cs, Forall scalar cs -> Valid (encode cs).
Proof. intros cs H. exists cs. auto. Qed.

Lemma split_at_app : forall a b, Valid a -> Valid b -> split_at (a ++ b) (length a) = Ok (a, b).
Proof.
  intros a b Ha Hb. rewrite split_at_bnd by now apply valid_app_bnd.
  rewrite firstn_app, firstn_all, Nat.sub_diag, skipn_app, skipn_all, Nat.sub_diag. cbn [firstn skipn]. now rewrite app_nil_r.
Qed.

Lemma split_at_app' : forall a b s, s = a ++ b -> Valid a -> Valid b -> split_at s (length a) = Ok (a, b).
Proof. intros a b s ->. apply split_at_app. Qed.

Theorem variable_roundtrip : forall w tok rest, LayoutC w -> VarTok tok -> Valid rest -> var_stop rest ->
  variable (w ++ tok ++ rest) = Ok (tok, rest).
Proof.
  intros w tok rest Hw Ht Hr Hst. inversion Ht as [sigil cs Hsig Hne Hs Hc]; subst.
  assert (Hsa : sigil < 128) by lia.
  assert (Vt : Valid (sigil :: encode cs)) by (apply (valid_app [sigil]); [apply valid_ascii; repeat constructor; assumption|now apply valid_encode]).
  unfold variable. rewrite skip_ws_closed; [|assumption|now apply valid_app|].
  2:{ cbn [app]. apply ascii_head_not_layout; [assumption| |lia]. destruct Hsig as [-> | ->]; reflexivity. }
  cbn [app next_char]. destruct (N.ltb_spec sigil 128); [|lia].
  replace ((sigil =? 63) || (sigil =? 36)) with true by (destruct Hsig as [-> | ->]; reflexivity).
  rewrite slice_from_bnd.
  2:{ change (sigil :: encode cs ++ rest) with ([sigil] ++ (encode cs ++ rest)).
      apply (valid_app_bnd [sigil]); [apply valid_ascii; repeat constructor; assumption|apply valid_app; [now apply valid_encode|assumption]]. }
  cbn [lift bind skipn]. rewrite var_loop_exact by (try assumption; lia).
  assert (Hlen : (1 <= length (encode cs))%nat).
  { destruct cs as [|c cs]; [congruence|]. cbn [encode]. rewrite app_length, encode_char_len. pose proof (len_utf8_pos c). lia. }
  destruct (Nat.eqb_spec (1 + length (encode cs)) 1); [lia|].
  change (sigil :: encode cs ++ rest) with ((sigil :: encode cs) ++ rest).
  replace (1 + length (encode cs))%nat with (length (sigil :: encode cs)) by reflexivity.
  now apply split_at_app.
Qed.

(* ---- IRIs -------------------------------------------------------------------------------------- *)
Inductive IriItem : Type := IC (c : N) | IE4 (h : str) | IE8 (h : str).

Definition hex_ok (n : nat) (h : str) : Prop :=
  length h = n /\ forallb is_ascii_hexdigit h = true /\ scalarb (hex_val h) = true.

Definition item_ok (it : IriItem) : Prop :=
  match it with
  | IC c => scalar c /\ iri_forbidden c = false /\ c <> 62 /\ c <> 92
  | IE4 h => hex_ok 4 h
  | IE8 h => hex_ok 8 h
  end.
Definition item_bytes (it : IriItem) : str :=
  match it with
  | IC c => encode_char c
  | IE4 h => 92 :: 117 :: h
  | IE8 h => 92 :: 85 :: h
  end.
Definition iri_body (items : list IriItem) : str := flat_map item_bytes items.

Inductive IriTok : str -> Prop :=
| iritok : forall items, Forall item_ok items -> IriTok (60 :: iri_body items ++ [62]).

Lemma hex_ascii_str : forall h, forallb is_ascii_hexdigit h = true -> ascii_str h.
Proof. intros h H. apply Forall_forall. intros b Hb. rewrite forallb_forall in H. apply hexdigit_ascii. now apply H. Qed.

Lemma item_valid : forall it, item_ok it -> Valid (item_bytes it).
Proof.
  intros [c|h|h] H; cbn in *.
  - destruct H as (Hc & _). exists [c]. split; [now constructor|cbn; now rewrite app_nil_r].
  - destruct H as (_ & Hh & _). apply valid_ascii. repeat constructor; try lia. now apply hex_ascii_str.
  - destruct H as (_ & Hh & _). apply valid_ascii. repeat constructor; try lia. now apply hex_ascii_str.
Qed.

Lemma iri_body_valid : forall items, Forall item_ok items -> Valid (iri_body items).
Proof.
  induction 1; [apply valid_nil|]. cbn [iri_body flat_map]. apply valid_app; [now apply item_valid|assumption].
Qed.

Lemma slice_bnd : forall s a b, Bnd s a -> Bnd s b -> (a <= b)%nat -> slice s a b = Some (firstn (b - a) (skipn a s)).
Proof.
  intros s a b Ba Bb Hab. unfold slice. rewrite (bnd_is_char_boundary _ _ Ba), (bnd_is_char_boundary _ _ Bb).
  replace (Nat.leb a b) with true by (symmetry; now apply Nat.leb_le). reflexivity.
Qed.

Lemma uel_escape : forall (u : N) (d : nat) h r, (u = 117 /\ d = 4%nat) \/ (u = 85 /\ d = 8%nat) -> hex_ok d h -> Valid r ->
  unicode_escape_len (92 :: u :: h ++ r) = Ok (Some (2 + d)%nat).
Proof.
  intros u d h r Hu (Hl & Hh & Hs) Hr. unfold unicode_escape_len. cbn [nth_error].
  assert (Hd : (if u =? 117 then Some 4%nat else if u =? 85 then Some 8%nat else None) = Some d) by (destruct Hu as [[-> ->]|[-> ->]]; reflexivity).
  rewrite Hd. assert (Hu128 : u < 128) by lia.
  assert (Vp : Valid (92 :: u :: h)) by (apply valid_ascii; repeat constructor; try lia; now apply hex_ascii_str).
  assert (Hlen : Nat.le (2 + d)%nat (length (92 :: u :: h ++ r))) by (cbn [length]; rewrite app_length; lia).
  destruct (Nat.leb_spec (2 + d)%nat (length (92 :: u :: h ++ r))); [|lia].
  cbn [skipn]. rewrite <- Hl, firstn_app, firstn_all, Nat.sub_diag. cbn [firstn]. rewrite app_nil_r, Hh.
  assert (B2 : Bnd (92 :: u :: h ++ r) 2).
  { change (92 :: u :: h ++ r) with ([92; u] ++ (h ++ r)). apply (valid_app_bnd [92; u]); [apply valid_ascii; repeat constructor; lia|].
    apply valid_app; [apply valid_ascii; now apply hex_ascii_str|assumption]. }
  assert (Be : Bnd (92 :: u :: h ++ r) (2 + length h)).
  { change (92 :: u :: h ++ r) with ((92 :: u :: h) ++ r). replace (2 + length h)%nat with (length (92 :: u :: h)) by reflexivity.
    now apply valid_app_bnd. }
  rewrite (slice_bnd _ _ _ B2 Be) by lia. cbn [lift bind skipn].
  replace (2 + length h - 2)%nat with (length h) by lia. rewrite firstn_app, firstn_all, Nat.sub_diag. cbn [firstn]. rewrite app_nil_r, Hs.
  reflexivity.
Qed.

Lemma head_not : forall c r, scalar c -> c <> 62 -> c <> 92 -> exists b t, encode_char c ++ r = b :: t /\ b <> 62 /\ b <> 92.
Proof.
  intros c r Hc H1 H2. destruct (N.lt_ge_cases c 128) as [Hlt|Hge].
  - rewrite encode_char_ascii by assumption. exists c, r. auto.
  - destruct (encode_char c) as [|b t] eqn:E.
    + pose proof (encode_char_len c). rewrite E in H. pose proof (len_utf8_pos c). cbn in H. lia.
    + exists b, (t ++ r). split; [reflexivity|]. pose proof (encode_char_bytes_high c b Hge (scalar_lt _ Hc)) as Hb.
      rewrite E in Hb. specialize (Hb (or_introl eq_refl)). lia.
Qed.

Lemma iri_loop_exact : forall items fuel pre rest, Forall item_ok items -> Valid pre -> Valid rest -> (1 <= length pre)%nat ->
  Nat.lt (length (iri_body items ++ 62 :: rest)) fuel ->
  iri_loop fuel (pre ++ iri_body items ++ 62 :: rest) (length pre) = Ok (pre ++ iri_body items ++ [62], rest).
Proof.
  induction items as [|it items IH]; intros fuel pre rest Hi Hp Hr H1 Hf.
  - cbn [iri_body flat_map app] in *. destruct fuel as [|f]; [lia|]. cbn [iri_loop].
    assert (Vt : Valid (62 :: rest)) by (apply (valid_app [62]); [apply valid_ascii; repeat constructor; lia|assumption]).
    destruct (Nat.ltb_spec (length pre) (length (pre ++ 62 :: rest))) as [_|Hge]; [|rewrite app_length in Hge; cbn in Hge; lia].
    rewrite slice_from_bnd by (now apply valid_app_bnd). cbn [lift bind].
    rewrite skipn_app, skipn_all, Nat.sub_diag. cbn [skipn app]. rewrite N.eqb_refl.
    replace (pre ++ 62 :: rest) with ((pre ++ [62]) ++ rest) by (rewrite <- app_assoc; reflexivity).
    replace (S (length pre)) with (length (pre ++ [62])) by (rewrite app_length; cbn; lia).
    apply split_at_app; [|assumption]. apply valid_app; [assumption|apply valid_ascii; repeat constructor; lia].
  - inversion Hi as [|? ? Hit Hi']; subst. cbn [iri_body flat_map] in *. fold (iri_body items) in *. rewrite <- app_assoc in *.
    destruct fuel as [|f]; [lia|]. cbn [iri_loop].
    assert (Vb : Valid (iri_body items ++ 62 :: rest)).
    { apply valid_app; [now apply iri_body_valid|]. apply (valid_app [62]); [apply valid_ascii; repeat constructor; lia|assumption]. }
    assert (Vt : Valid (item_bytes it ++ iri_body items ++ 62 :: rest)) by (apply valid_app; [now apply item_valid|assumption]).
    destruct (Nat.ltb_spec (length pre) (length (pre ++ item_bytes it ++ iri_body items ++ 62 :: rest))) as [_|Hge].
    2:{ rewrite !app_length in Hge. cbn [length] in Hge. lia. }
    rewrite slice_from_bnd by (now apply valid_app_bnd). cbn [lift bind].
    rewrite skipn_app, skipn_all, Nat.sub_diag. cbn [skipn app].
    assert (Next : forall n, length (item_bytes it) = n -> (1 <= n)%nat ->
              iri_loop f (pre ++ item_bytes it ++ iri_body items ++ 62 :: rest) (length pre + n)
              = Ok (pre ++ item_bytes it ++ iri_body items ++ [62], rest)).
    { intros n Hn Hn1. specialize (IH f (pre ++ item_bytes it) rest Hi' (valid_app _ _ Hp (item_valid _ Hit)) Hr).
      rewrite app_length, <- !app_assoc in IH. rewrite Hn in IH. apply IH; [lia|].
      rewrite app_length in Hf. lia. }
    repeat rewrite <- app_assoc.
    destruct it as [c|h|h]; cbn [item_bytes item_ok] in *.
    + destruct Hit as (Hc & Hforb & H62 & H92).
      destruct (head_not c (iri_body items ++ 62 :: rest) Hc H62 H92) as (b & t & Eb & Hb62 & Hb92). rewrite Eb.
      destruct (N.eqb_spec b 62); [congruence|]. destruct (N.eqb_spec b 92); [congruence|]. rewrite <- Eb.
      rewrite next_char_encode by now apply scalar_lt. rewrite Hforb. apply Next; [apply encode_char_len|apply len_utf8_pos].
    + cbn [app]. change (92 =? 62) with false. change (92 =? 92) with true. cbv beta iota.
      rewrite (uel_escape 117 4 h _ (or_introl (conj eq_refl eq_refl)) Hit Vb). cbn [bind].
      destruct Hit as (Hl & _). apply (Next 6%nat); [cbn [length]; lia|lia].
    + cbn [app]. change (92 =? 62) with false. change (92 =? 92) with true. cbv beta iota.
      rewrite (uel_escape 85 8 h _ (or_intror (conj eq_refl eq_refl)) Hit Vb). cbn [bind].
      destruct Hit as (Hl & _). apply (Next 10%nat); [cbn [length]; lia|lia].
Qed.

Theorem iri_roundtrip : forall w tok rest, LayoutC w -> IriTok tok -> Valid rest -> iri (w ++ tok ++ rest) = Ok (tok, rest).
Proof.
  intros w tok rest Hw Ht Hr. inversion Ht as [items Hi]; subst.
  assert (Vb : Valid (iri_body items)) by now apply iri_body_valid.
  assert (Vt : Valid ((60 :: iri_body items ++ [62]) ++ rest)).
  { apply valid_app; [|assumption]. apply (valid_app [60]); [apply valid_ascii; repeat constructor; lia|].
    apply valid_app; [assumption|apply valid_ascii; repeat constructor; lia]. }
  unfold iri. rewrite skip_ws_closed; [|assumption|assumption|apply ascii_head_not_layout; [lia|reflexivity|lia]].
  cbn [app]. change (60 =? 60) with true. cbv beta iota.
  rewrite <- app_assoc. cbn [app].
  pose proof (iri_loop_exact items (S (length (60 :: iri_body items ++ 62 :: rest))) [60] rest Hi
                ltac:(apply valid_ascii; repeat constructor; lia) Hr ltac:(cbn; lia) ltac:(cbn [length]; lia)) as H.
  cbn [app] in H. change (length [60]) with 1%nat in H. rewrite H. reflexivity.
Qed.

(* ---- quoted literals (single-quoted form "..." / '...' with escapes, no suffix) ------------------- *)
Inductive LitItem : Type := LCh (c : N) | LSimple (e : N) | LU4 (h : str) | LU8 (h : str).

Definition lit_item_ok (q : N) (it : LitItem) : Prop :=
  match it with
  | LCh c => scalar c /\ c <> q /\ c <> 92 /\ c <> 10 /\ c <> 13
  | LSimple e => simple_escape e = true
  | LU4 h => hex_ok 4 h
  | LU8 h => hex_ok 8 h
  end.
Definition lit_item_bytes (it : LitItem) : str :=
  match it with
  | LCh c => encode_char c
  | LSimple e => [92; e]
  | LU4 h => 92 :: 117 :: h
  | LU8 h => 92 :: 85 :: h
  end.
Definition lit_body (items : list LitItem) : str := flat_map lit_item_bytes items.

Inductive LitTok : str -> Prop :=
| littok : forall q items, (q = 34 \/ q = 39) -> Forall (lit_item_ok q) items -> LitTok (q :: lit_body items ++ [q]).

(* what follows must not be read as a language tag / datatype, nor turn `""` into a long-string opener *)
Definition lit_stop (q : N) (rest : str) : Prop :=
  match rest with [] => True | b :: _ => b <> 64 /\ b <> 94 /\ b <> q end.

Lemma simple_escape_ascii : forall e, simple_escape e = true -> e < 128.
Proof. intros e. unfold simple_escape. lia. Qed.

Lemma lit_item_valid : forall q it, lit_item_ok q it -> Valid (lit_item_bytes it).
Proof.
  intros q [c|e|h|h] H; cbn in *.
  - destruct H as (Hc & _). exists [c]. split; [now constructor|cbn; now rewrite app_nil_r].
  - apply valid_ascii. repeat constructor; try lia. now apply simple_escape_ascii.
  - destruct H as (_ & Hh & _). apply valid_ascii. repeat constructor; try lia. now apply hex_ascii_str.
  - destruct H as (_ & Hh & _). apply valid_ascii. repeat constructor; try lia. now apply hex_ascii_str.
Qed.

Lemma lit_body_valid : forall q items, Forall (lit_item_ok q) items -> Valid (lit_body items).
Proof. induction 1; [apply valid_nil|]. cbn [lit_body flat_map]. apply valid_app; [eapply lit_item_valid; eassumption|assumption]. Qed.

Lemma head_not2 : forall c r q, scalar c -> q < 128 -> c <> q -> c <> 92 -> exists b t, encode_char c ++ r = b :: t /\ b <> q /\ b <> 92.
Proof.
  intros c r q Hc Hq H1 H2. destruct (N.lt_ge_cases c 128) as [Hlt|Hge].
  - rewrite encode_char_ascii by assumption. exists c, r. auto.
  - destruct (encode_char c) as [|b t] eqn:E.
    + pose proof (encode_char_len c) as H. rewrite E in H. pose proof (len_utf8_pos c). cbn in H. lia.
    + exists b, (t ++ r). split; [reflexivity|]. pose proof (encode_char_bytes_high c b Hge (scalar_lt _ Hc)) as Hb.
      rewrite E in Hb. specialize (Hb (or_introl eq_refl)). lia.
Qed.

Lemma lit_loop_exact : forall q items fuel pre rest, (q = 34 \/ q = 39) -> Forall (lit_item_ok q) items -> Valid pre -> Valid rest ->
  Nat.lt (length (lit_body items ++ q :: rest)) fuel ->
  lit_loop fuel (pre ++ lit_body items ++ q :: rest) [q] false (length pre) = Ok (Some (length pre + length (lit_body items) + 1)%nat).
Proof.
  intros q items. induction items as [|it items IH]; intros fuel pre rest Hq Hi Hp Hr Hf.
  - cbn [lit_body flat_map app length] in *. destruct fuel as [|f]; [lia|]. cbn [lit_loop].
    assert (Vt : Valid (q :: rest)) by (apply (valid_app [q]); [apply valid_ascii; repeat constructor; lia|assumption]).
    destruct (Nat.ltb_spec (length pre) (length (pre ++ q :: rest))) as [_|Hge]; [|rewrite app_length in Hge; cbn in Hge; lia].
    rewrite slice_from_bnd by (now apply valid_app_bnd). cbn [lift bind].
    rewrite skipn_app, skipn_all, Nat.sub_diag. cbn [skipn app starts_with]. rewrite N.eqb_refl. cbn [andb length].
    f_equal. f_equal. lia.
  - inversion Hi as [|? ? Hit Hi']; subst. cbn [lit_body flat_map] in *. fold (lit_body items) in *. rewrite <- app_assoc in *.
    destruct fuel as [|f]; [lia|]. cbn [lit_loop].
    assert (Vb : Valid (lit_body items ++ q :: rest)).
    { apply valid_app; [eapply lit_body_valid; eassumption|]. apply (valid_app [q]); [apply valid_ascii; repeat constructor; lia|assumption]. }
    assert (Vt : Valid (lit_item_bytes it ++ lit_body items ++ q :: rest)) by (apply valid_app; [eapply lit_item_valid; eassumption|assumption]).
    destruct (Nat.ltb_spec (length pre) (length (pre ++ lit_item_bytes it ++ lit_body items ++ q :: rest))) as [_|Hge].
    2:{ rewrite !app_length in Hge. cbn [length] in Hge. lia. }
    rewrite slice_from_bnd by (now apply valid_app_bnd). cbn [lift bind].
    rewrite skipn_app, skipn_all, Nat.sub_diag. cbn [skipn app].
    assert (Next : forall n, length (lit_item_bytes it) = n -> (1 <= n)%nat ->
              lit_loop f (pre ++ lit_item_bytes it ++ lit_body items ++ q :: rest) [q] false (length pre + n)
              = Ok (Some (length pre + length (lit_item_bytes it ++ lit_body items) + 1)%nat)).
    { intros n Hn Hn1. specialize (IH f (pre ++ lit_item_bytes it) rest Hq Hi' (valid_app _ _ Hp (lit_item_valid _ _ Hit)) Hr).
      rewrite (app_length pre (lit_item_bytes it)), <- !app_assoc in IH. rewrite Hn in IH. rewrite IH; [|rewrite app_length in Hf; lia].
      f_equal. f_equal. rewrite app_length. lia. }
    assert (Hq128 : q < 128) by lia.
    destruct it as [c|e|h|h]; cbn [lit_item_bytes lit_item_ok] in *.
    + destruct Hit as (Hc & Hcq & H92 & H10 & H13).
      destruct (head_not2 c (lit_body items ++ q :: rest) q Hc Hq128 Hcq H92) as (b & t & Eb & Hbq & Hb92). rewrite Eb.
      cbn [starts_with]. destruct (N.eqb_spec q b); [congruence|]. cbn [andb]. rewrite <- Eb.
      rewrite next_char_encode by now apply scalar_lt.
      destruct (N.eqb_spec c 13); [congruence|]. destruct (N.eqb_spec c 10); [congruence|]. cbn [negb andb orb].
      destruct (N.eqb_spec c 92); [congruence|]. apply Next; [apply encode_char_len|apply len_utf8_pos].
    + pose proof (simple_escape_ascii e Hit) as He. cbn [app starts_with].
      destruct (N.eqb_spec q 92); [lia|]. cbn [andb next_char]. change (92 <? 128) with true. cbv beta iota.
      change (92 =? 13) with false. change (92 =? 10) with false. cbn [negb andb orb]. change (92 =? 92) with true. cbv beta iota.
      assert (B1 : Bnd (pre ++ 92 :: e :: lit_body items ++ q :: rest) (length pre + 1)).
      { replace (pre ++ 92 :: e :: lit_body items ++ q :: rest) with ((pre ++ [92]) ++ e :: lit_body items ++ q :: rest) by (rewrite <- app_assoc; reflexivity).
        replace (length pre + 1)%nat with (length (pre ++ [92])) by (rewrite app_length; reflexivity).
        apply valid_app_bnd; [apply valid_app; [assumption|apply valid_ascii; repeat constructor; lia]|].
        apply (valid_app [e]); [apply valid_ascii; repeat constructor; assumption|assumption]. }
      rewrite slice_from_bnd by assumption. cbn [lift bind].
      replace (skipn (length pre + 1) (pre ++ 92 :: e :: lit_body items ++ q :: rest)) with (e :: lit_body items ++ q :: rest).
      2:{ rewrite <- skipn_plus, skipn_app, skipn_all, Nat.sub_diag. reflexivity. }
      cbn [next_char]. destruct (N.ltb_spec e 128); [|lia]. rewrite Hit.
      replace (length pre + 1 + 1)%nat with (length pre + 2)%nat by lia. apply (Next 2%nat); [reflexivity|lia].
    + cbn [app starts_with].
      destruct (N.eqb_spec q 92); [lia|]. cbn [andb next_char]. change (92 <? 128) with true. cbv beta iota.
      change (92 =? 13) with false. change (92 =? 10) with false. cbn [negb andb orb]. change (92 =? 92) with true. cbv beta iota.
      destruct Hit as (Hl & Hh & Hs).
      assert (Vh : Valid (h ++ lit_body items ++ q :: rest)) by (apply valid_app; [apply valid_ascii; now apply hex_ascii_str|assumption]).
      assert (B1 : Bnd (pre ++ 92 :: 117 :: h ++ lit_body items ++ q :: rest) (length pre + 1)).
      { replace (pre ++ 92 :: 117 :: h ++ lit_body items ++ q :: rest) with ((pre ++ [92]) ++ 117 :: h ++ lit_body items ++ q :: rest) by (rewrite <- app_assoc; reflexivity).
        replace (length pre + 1)%nat with (length (pre ++ [92])) by (rewrite app_length; reflexivity).
        apply valid_app_bnd; [apply valid_app; [assumption|apply valid_ascii; repeat constructor; lia]|].
        apply (valid_app [117]); [apply valid_ascii; repeat constructor; lia|assumption]. }
      rewrite slice_from_bnd by assumption. cbn [lift bind].
      replace (skipn (length pre + 1) (pre ++ 92 :: 117 :: h ++ lit_body items ++ q :: rest)) with (117 :: h ++ lit_body items ++ q :: rest).
      2:{ rewrite <- skipn_plus, skipn_app, skipn_all, Nat.sub_diag. reflexivity. }
      cbn [next_char]. change (117 <? 128) with true. cbv beta iota. change (simple_escape 117) with false. cbv beta iota.
      change ((117 =? 117) || (117 =? 85)) with true. cbv beta iota. change (117 =? 117) with true. cbv beta iota.
      rewrite slice_from_bnd by (apply (valid_app_bnd [117]); [apply valid_ascii; repeat constructor; lia|assumption]).
      cbn [lift bind skipn length].
      destruct (Nat.ltb_spec (length (h ++ lit_body items ++ q :: rest)) 4) as [Hlt|_]; [rewrite app_length in Hlt; lia|]. cbn [orb].
      rewrite <- Hl, firstn_app, firstn_all, Nat.sub_diag. cbn [firstn]. rewrite app_nil_r, Hh. cbn [negb].
      rewrite slice_to_bnd by (apply valid_app_bnd; [apply valid_ascii; now apply hex_ascii_str|assumption]).
      cbn [lift bind]. rewrite firstn_app, firstn_all, Nat.sub_diag. cbn [firstn]. rewrite app_nil_r, Hs.
      replace (length pre + 1 + (1 + length h))%nat with (length pre + 6)%nat by lia. apply (Next 6%nat); [cbn [length]; lia|lia].
    + cbn [app starts_with].
      destruct (N.eqb_spec q 92); [lia|]. cbn [andb next_char]. change (92 <? 128) with true. cbv beta iota.
      change (92 =? 13) with false. change (92 =? 10) with false. cbn [negb andb orb]. change (92 =? 92) with true. cbv beta iota.
      destruct Hit as (Hl & Hh & Hs).
      assert (Vh : Valid (h ++ lit_body items ++ q :: rest)) by (apply valid_app; [apply valid_ascii; now apply hex_ascii_str|assumption]).
      assert (B1 : Bnd (pre ++ 92 :: 85 :: h ++ lit_body items ++ q :: rest) (length pre + 1)).
      { replace (pre ++ 92 :: 85 :: h ++ lit_body items ++ q :: rest) with ((pre ++ [92]) ++ 85 :: h ++ lit_body items ++ q :: rest) by (rewrite <- app_assoc; reflexivity).
        replace (length pre + 1)%nat with (length (pre ++ [92])) by (rewrite app_length; reflexivity).
        apply valid_app_bnd; [apply valid_app; [assumption|apply valid_ascii; repeat constructor; lia]|].
        apply (valid_app [85]); [apply valid_ascii; repeat constructor; lia|assumption]. }
      rewrite slice_from_bnd by assumption. cbn [lift bind].
      replace (skipn (length pre + 1) (pre ++ 92 :: 85 :: h ++ lit_body items ++ q :: rest)) with (85 :: h ++ lit_body items ++ q :: rest).
      2:{ rewrite <- skipn_plus, skipn_app, skipn_all, Nat.sub_diag. reflexivity. }
      cbn [next_char]. change (85 <? 128) with true. cbv beta iota. change (simple_escape 85) with false. cbv beta iota.
      change ((85 =? 117) || (85 =? 85)) with true. cbv beta iota. change (85 =? 117) with false. cbv beta iota.
      rewrite slice_from_bnd by (apply (valid_app_bnd [85]); [apply valid_ascii; repeat constructor; lia|assumption]).
      cbn [lift bind skipn length].
      destruct (Nat.ltb_spec (length (h ++ lit_body items ++ q :: rest)) 8) as [Hlt|_]; [rewrite app_length in Hlt; lia|]. cbn [orb].
      rewrite <- Hl, firstn_app, firstn_all, Nat.sub_diag. cbn [firstn]. rewrite app_nil_r, Hh. cbn [negb].
      rewrite slice_to_bnd by (apply valid_app_bnd; [apply valid_ascii; now apply hex_ascii_str|assumption]).
      cbn [lift bind]. rewrite firstn_app, firstn_all, Nat.sub_diag. cbn [firstn]. rewrite app_nil_r, Hs.
      replace (length pre + 1 + (1 + length h))%nat with (length pre + 10)%nat by lia. apply (Next 10%nat); [cbn [length]; lia|lia].
Qed.

Theorem quoted_literal_roundtrip : forall w tok rest, LayoutC w -> LitTok tok -> Valid rest ->
  (forall q, nth 0 tok 0 = q -> lit_stop q rest) -> quoted_literal (w ++ tok ++ rest) = Ok (tok, rest).
Proof.
  intros w tok rest Hw Ht Hr Hst. inversion Ht as [q items Hq Hi]; subst. specialize (Hst q eq_refl).
  assert (Hq128 : q < 128) by lia.
  assert (Vb : Valid (lit_body items)) by (eapply lit_body_valid; eassumption).
  assert (Vtok : Valid (q :: lit_body items ++ [q])).
  { apply (valid_app [q]); [apply valid_ascii; repeat constructor; lia|]. apply valid_app; [assumption|apply valid_ascii; repeat constructor; lia]. }
  unfold quoted_literal, quoted_literal_with. rewrite skip_ws_closed; [|assumption|now apply valid_app|].
  2:{ cbn [app]. apply ascii_head_not_layout; [assumption|destruct Hq as [-> | ->]; reflexivity|lia]. }
  cbn [app]. replace ((q =? 39) || (q =? 34)) with true by (destruct Hq as [-> | ->]; reflexivity).
  rewrite <- app_assoc. cbn [app].
  (* not a long string: the third byte is not the quote *)
  assert (Htq : starts_with [q; q; q] (q :: lit_body items ++ q :: rest) = false).
  { cbn [starts_with]. rewrite N.eqb_refl. cbn [andb].
    destruct items as [|it items'].
    - cbn [lit_body flat_map app]. rewrite N.eqb_refl. cbn [andb]. destruct rest as [|b r]; [reflexivity|].
      cbn in Hst. destruct (N.eqb_spec q b); [lia|reflexivity].
    - inversion Hi as [|? ? Hit _]; subst. cbn [lit_body flat_map]. rewrite <- app_assoc.
      destruct it as [c|e|h|h]; cbn [lit_item_bytes lit_item_ok app] in *.
      + destruct Hit as (Hc & Hcq & H92 & _). destruct (head_not2 c (flat_map lit_item_bytes items' ++ q :: rest) q Hc Hq128 Hcq H92) as (b & t & Eb & Hbq & _).
        rewrite Eb. cbn [starts_with]. destruct (N.eqb_spec q b); [congruence|reflexivity].
      + destruct (N.eqb_spec q 92); [lia|reflexivity].
      + destruct (N.eqb_spec q 92); [lia|reflexivity].
      + destruct (N.eqb_spec q 92); [lia|reflexivity]. }
  rewrite Htq. cbv beta iota zeta. cbn [length].
  pose proof (lit_loop_exact q items (S (length (q :: lit_body items ++ q :: rest))) [q] rest Hq Hi
                ltac:(apply valid_ascii; repeat constructor; lia) Hr ltac:(cbn [length]; lia)) as H.
  cbn [app length] in H. rewrite H. cbn [bind].
  set (le := (1 + length (lit_body items) + 1)%nat).
  assert (Esplit : q :: lit_body items ++ q :: rest = (q :: lit_body items ++ [q]) ++ rest) by (cbn [app]; rewrite <- app_assoc; reflexivity).
  assert (Ele : le = length (q :: lit_body items ++ [q])) by (unfold le; cbn [length]; rewrite app_length; cbn [length]; lia).
  rewrite Esplit, Ele. rewrite slice_from_bnd by (now apply valid_app_bnd). cbn [lift bind].
  rewrite skipn_app, skipn_all, Nat.sub_diag. cbn [skipn app].
  assert (Fin : split_at ((q :: lit_body items ++ [q]) ++ rest) (length (q :: lit_body items ++ [q])) = Ok (q :: lit_body items ++ [q], rest))
    by (now apply split_at_app).
  destruct rest as [|b0 r]; [exact Fin|].
  cbn in Hst. destruct Hst as (H64 & H94 & _).
  destruct (N.eqb_spec b0 64); [congruence|]. destruct (N.eqb_spec b0 94); [congruence|]. exact Fin.
Qed.

(* ---- numeric literals: [sign] digits [. digits]  |  [sign] . digits   (exponent forms: correspondence only) --- *)
Definition digits (ds : str) : Prop := Forall (fun b => is_ascii_digit b = true) ds.

Inductive NumTok : str -> Prop :=
| numtok : forall sign ds1 frac,
    (sign = [] \/ sign = [43] \/ sign = [45]) -> digits ds1 ->
    (frac = [] \/ exists ds2, frac = 46 :: ds2 /\ ds2 <> [] /\ digits ds2) ->
    (ds1 <> [] \/ frac <> []) ->
    NumTok (sign ++ ds1 ++ frac).

(* what follows must not extend the number or glue a name to it *)
Definition num_stop (rest : str) : Prop :=
  match next_char rest with
  | None => True
  | Some (c, _) => is_alphabetic c = false /\ c <> 95 /\ is_ascii_digit c = false /\ c <> 46
  end.

Lemma byte_is_at : forall (p : N -> bool) pre r, byte_is p (pre ++ r) (length pre) = match r with b :: _ => p b | [] => false end.
Proof.
  intros p pre r. unfold byte_is. destruct r as [|b r'].
  - rewrite app_nil_r. destruct (nth_error pre (length pre)) eqn:E; [|reflexivity].
    apply nth_error_Some in E0 || (assert (length pre < length pre)%nat by (apply nth_error_Some; congruence); lia).
  - rewrite nth_error_app2, Nat.sub_diag by lia. reflexivity.
Qed.

Lemma digits_from_exact : forall ds fuel pre r, digits ds -> (match r with b :: _ => is_ascii_digit b = false | [] => True end) ->
  (length ds <= fuel)%nat -> digits_from fuel (pre ++ ds ++ r) (length pre) = (length pre + length ds)%nat.
Proof.
  induction ds as [|d ds IH]; intros fuel pre r Hd Hr Hf.
  - cbn [app length]. rewrite Nat.add_0_r. destruct fuel; [reflexivity|]. cbn [digits_from]. rewrite byte_is_at.
    destruct r as [|b r']; [reflexivity|now rewrite Hr].
  - inversion Hd as [|? ? Hd1 Hd']; subst. cbn [length] in Hf. destruct fuel as [|f]; [lia|]. cbn [digits_from]. cbn [app]. rewrite byte_is_at, Hd1.
    replace (pre ++ d :: ds ++ r) with ((pre ++ [d]) ++ ds ++ r) by (rewrite <- app_assoc; reflexivity).
    replace (S (length pre)) with (length (pre ++ [d])) by (rewrite app_length; cbn; lia).
    rewrite IH; [rewrite app_length; cbn [length]; lia|assumption|assumption|lia].
Qed.

Lemma digits_ascii : forall ds, digits ds -> ascii_str ds.
Proof. intros ds H. apply Forall_forall. intros b Hb. unfold digits in H. rewrite Forall_forall in H. apply digit_ascii. now apply H. Qed.

Lemma num_stop_head : forall rest, Valid rest -> num_stop rest ->
  match rest with b :: _ => is_ascii_digit b = false /\ b <> 46 | [] => True end.
Proof.
  intros rest Hv H. destruct rest as [|b r]; [exact I|]. unfold num_stop in H.
  destruct (N.lt_ge_cases b 128) as [Hlt|Hge].
  - cbn [next_char] in H. destruct (N.ltb_spec b 128); [|lia]. tauto.
  - split; [unfold is_ascii_digit; lia|lia].
Qed.

Theorem numeric_literal_roundtrip : forall w tok rest, LayoutC w -> NumTok tok -> Valid rest -> num_stop rest ->
  numeric_literal (w ++ tok ++ rest) = Ok (tok, rest).
Proof.
  intros w tok rest Hw Ht Hr Hst. inversion Ht as [sign ds1 frac Hsign Hd1 Hfrac Hne]; subst.
  pose proof (num_stop_head rest Hr Hst) as Hrh.
  assert (Vsign : Valid sign /\ (length sign <= 1)%nat) by (destruct Hsign as [->|[->| ->]]; (split; [apply valid_ascii; repeat constructor; lia|cbn; lia])).
  destruct Vsign as [Vsign Lsign].
  assert (Vfrac : Valid frac) by (destruct Hfrac as [->|(ds2 & -> & _ & Hd2)]; [apply valid_nil|apply valid_ascii; constructor; [lia|now apply digits_ascii]]).
  assert (Vtok : Valid (sign ++ ds1 ++ frac)) by (repeat apply valid_app; try assumption; apply valid_ascii; now apply digits_ascii).
  (* the token starts with a sign, a digit or a dot: not layout *)
  assert (Hhead : exists b t, (sign ++ ds1 ++ frac) ++ rest = b :: t /\ b < 128 /\ is_whitespace b = false /\ b <> 35).
  { destruct Hsign as [->|[->| ->]]; cbn [app]; try (eexists _, _; split; [reflexivity|]; (split; [lia|split; [reflexivity|lia]])).
    destruct ds1 as [|d ds1'].
    - destruct Hne as [?|Hf]; [congruence|]. destruct Hfrac as [->|(ds2 & -> & _)]; [congruence|]. cbn [app].
      eexists _, _. split; [reflexivity|]. (split; [lia|split; [reflexivity|lia]]).
    - inversion Hd1 as [|? ? Hdd _]; subst. cbn [app]. eexists _, _. split; [reflexivity|].
      unfold is_ascii_digit in Hdd. repeat split; try lia.
      assert (48 <= d <= 57) by lia. unfold is_whitespace, in_ranges, whitespace_ranges.
      destruct (N.ltb_spec d 9); [lia|]. destruct (N.leb_spec d 13); [lia|]. destruct (N.ltb_spec d 32); [lia|].
      destruct (N.leb_spec d 32); [lia|]. destruct (N.ltb_spec d 133); [reflexivity|lia]. }
  destruct Hhead as (b & t & Eh & Hb & Hbw & Hb35).
  unfold numeric_literal. rewrite skip_ws_closed; [|assumption|now apply valid_app|rewrite Eh; now apply ascii_head_not_layout].
  set (input := (sign ++ ds1 ++ frac) ++ rest). cbv zeta.
  (* index0 *)
  assert (E0 : (if byte_is (fun b => (b =? 43) || (b =? 45)) input 0 then 1%nat else 0%nat) = length sign).
  { unfold input. change 0%nat with (length (@nil N)). replace ((sign ++ ds1 ++ frac) ++ rest) with ([] ++ (sign ++ ds1 ++ frac) ++ rest) by reflexivity.
    rewrite byte_is_at. destruct Hsign as [->|[->| ->]]; cbn [app length]; try reflexivity.
    destruct ds1 as [|d ds1'].
    - destruct Hne as [?|Hf]; [congruence|]. destruct Hfrac as [->|(ds2 & -> & _)]; [congruence|]. reflexivity.
    - inversion Hd1 as [|? ? Hdd _]; subst. cbn [app]. unfold is_ascii_digit in Hdd.
      destruct (N.eqb_spec d 43); [lia|]. destruct (N.eqb_spec d 45); [lia|]. reflexivity. }
  rewrite E0.
  (* index1 *)
  assert (Hfrac_head : match frac ++ rest with b :: _ => is_ascii_digit b = false | [] => True end).
  { destruct Hfrac as [->|(ds2 & -> & _)]; cbn [app]; [destruct rest; tauto|reflexivity]. }
  assert (E1 : digits_from (length input) input (length sign) = (length sign + length ds1)%nat).
  { unfold input. rewrite <- !app_assoc. apply digits_from_exact; [assumption|assumption|].
    rewrite !app_length. lia. }
  rewrite E1.
  replace (length sign + length ds1 - length sign)%nat with (length ds1) by lia.
  set (pre1 := sign ++ ds1). assert (Lpre1 : length pre1 = (length sign + length ds1)%nat) by (unfold pre1; now rewrite app_length).
  rewrite <- Lpre1.
  assert (Ein : input = pre1 ++ frac ++ rest) by (unfold input, pre1; now rewrite <- !app_assoc).
  rewrite Ein.
  destruct Hfrac as [->|(ds2 & -> & Hne2 & Hd2)].
  - (* no fraction *)
    cbn [app]. rewrite byte_is_at.
    assert (Ed : (match rest with b :: _ => b =? 46 | [] => false end) = false).
    { destruct rest as [|b0 r0]; [reflexivity|]. destruct Hrh as [_ H46]. now apply N.eqb_neq. }
    rewrite Ed. cbn [andb]. cbv beta iota.
    destruct Hne as [Hn1|Hn1]; [|congruence].
    replace (Nat.eqb (length ds1) 0) with false by (destruct ds1; [congruence|reflexivity]). cbn [andb].
    rewrite byte_is_at.
    assert (Ee : (match rest with b :: _ => (b =? 101) || (b =? 69) | [] => false end) = false).
    { destruct rest as [|b0 r0]; [reflexivity|]. unfold num_stop in Hst. destruct (N.lt_ge_cases b0 128).
      - cbn [next_char] in Hst. destruct (N.ltb_spec b0 128); [|lia]. destruct Hst as (Ha & _).
        destruct (N.eqb_spec b0 101) as [->|]; [discriminate Ha|]. destruct (N.eqb_spec b0 69) as [->|]; [discriminate Ha|]. reflexivity.
      - destruct (N.eqb_spec b0 101); [lia|]. destruct (N.eqb_spec b0 69); [lia|]. reflexivity. }
    rewrite Ee. rewrite slice_from_bnd by (apply valid_app_bnd; [unfold pre1; apply valid_app; [assumption|apply valid_ascii; now apply digits_ascii]|assumption]).
    cbn [lift bind]. rewrite skipn_app, skipn_all, Nat.sub_diag. cbn [skipn app].
    assert (Fin : split_at (pre1 ++ rest) (length pre1) = Ok (pre1, rest)) by (apply split_at_app; [unfold pre1; apply valid_app; [assumption|apply valid_ascii; now apply digits_ascii]|assumption]).
    rewrite app_nil_r. unfold num_stop in Hst. destruct (next_char rest) as [[c k]|]; [|exact Fin].
    destruct Hst as (Ha & H95 & _). rewrite Ha. destruct (N.eqb_spec c 95); [congruence|]. exact Fin.
  - (* fraction *)
    cbn [app]. rewrite byte_is_at. change (46 =? 46) with true. cbn [andb].
    replace (pre1 ++ 46 :: ds2 ++ rest) with ((pre1 ++ [46]) ++ ds2 ++ rest) by (rewrite <- app_assoc; reflexivity).
    replace (S (length pre1)) with (length (pre1 ++ [46])) by (rewrite app_length; cbn; lia).
    rewrite byte_is_at.
    destruct ds2 as [|d2 ds2']; [congruence|]. inversion Hd2 as [|? ? Hdd2 Hd2']; subst. cbn [app]. rewrite Hdd2. cbv beta iota.
    assert (E2 : digits_from (length ((pre1 ++ [46]) ++ d2 :: ds2' ++ rest)) ((pre1 ++ [46]) ++ d2 :: ds2' ++ rest) (length (pre1 ++ [46]))
                 = Nat.add (length (pre1 ++ [46])) (length (d2 :: ds2'))).
    { change (d2 :: ds2' ++ rest) with ((d2 :: ds2') ++ rest). apply digits_from_exact; [assumption| |].
      - destruct rest as [|b0 r0]; [exact I|tauto].
      - rewrite !app_length. cbn [length]. lia. }
    rewrite E2.
    replace (Nat.eqb (Nat.sub (Nat.add (length (pre1 ++ [46])) (length (d2 :: ds2'))) (length (pre1 ++ [46]))) 0) with false
      by (symmetry; apply Nat.eqb_neq; cbn [length]; lia).
    rewrite andb_false_r.
    set (pre2 := (pre1 ++ [46]) ++ d2 :: ds2').
    assert (Lpre2 : length pre2 = Nat.add (length (pre1 ++ [46])) (length (d2 :: ds2'))) by (unfold pre2; now rewrite app_length).
    rewrite <- Lpre2. replace ((pre1 ++ [46]) ++ d2 :: ds2' ++ rest) with (pre2 ++ rest) by (unfold pre2; rewrite <- !app_assoc; reflexivity).
    rewrite byte_is_at.
    assert (Ee : (match rest with b :: _ => (b =? 101) || (b =? 69) | [] => false end) = false).
    { destruct rest as [|b0 r0]; [reflexivity|]. unfold num_stop in Hst. destruct (N.lt_ge_cases b0 128).
      - cbn [next_char] in Hst. destruct (N.ltb_spec b0 128); [|lia]. destruct Hst as (Ha & _).
        destruct (N.eqb_spec b0 101) as [->|]; [discriminate Ha|]. destruct (N.eqb_spec b0 69) as [->|]; [discriminate Ha|]. reflexivity.
      - destruct (N.eqb_spec b0 101); [lia|]. destruct (N.eqb_spec b0 69); [lia|]. reflexivity. }
    rewrite Ee.
    assert (Vpre2 : Valid pre2).
    { unfold pre2, pre1. apply valid_app; [apply valid_app; [apply valid_app; [assumption|apply valid_ascii; now apply digits_ascii]|apply valid_ascii; repeat constructor; lia]|].
      apply valid_ascii. now apply digits_ascii. }
    rewrite slice_from_bnd by (now apply valid_app_bnd). cbn [lift bind]. rewrite skipn_app, skipn_all, Nat.sub_diag. cbn [skipn app].
    assert (Fin : split_at (pre2 ++ rest) (length pre2) = Ok (pre2, rest)) by (now apply split_at_app).
    assert (Etok : sign ++ ds1 ++ 46 :: d2 :: ds2' = pre2) by (unfold pre2, pre1; rewrite <- !app_assoc; reflexivity).
    rewrite Etok. unfold num_stop in Hst. destruct (next_char rest) as [[c k]|]; [|exact Fin].
    destruct Hst as (Ha & H95 & _). rewrite Ha. destruct (N.eqb_spec c 95); [congruence|]. exact Fin.
Qed.

(* ---- term level: the object-term alternative chain picks the right scanner ------------------------ *)
Definition is_err {A} (r : res A) : Prop := exists k l e, r = Err k l e.

Lemma variable_err : forall s b t, skip_ws s = b :: t -> b < 128 -> b <> 63 -> b <> 36 -> is_err (variable s).
Proof.
  intros s b t E Hb H1 H2. unfold variable. rewrite E. cbn [next_char]. destruct (N.ltb_spec b 128); [|lia].
  destruct (N.eqb_spec b 63); [congruence|]. destruct (N.eqb_spec b 36); [congruence|]. cbn [orb]. repeat eexists.
Qed.

Lemma iri_err : forall s b t, skip_ws s = b :: t -> b <> 60 -> is_err (iri s).
Proof. intros s b t E H. unfold iri. rewrite E. destruct (N.eqb_spec b 60); [congruence|]. repeat eexists. Qed.

Lemma blank_node_err : forall s b t, skip_ws s = b :: t -> b <> 95 -> is_err (blank_node s).
Proof.
  intros s b t E H. unfold blank_node. rewrite E. unfold strip_prefix. cbn [starts_with].
  destruct (N.eqb_spec 95 b); [congruence|]. cbn [andb]. repeat eexists.
Qed.

Lemma quoted_literal_err : forall s b t, skip_ws s = b :: t -> b <> 39 -> b <> 34 -> is_err (quoted_literal s).
Proof.
  intros s b t E H1 H2. unfold quoted_literal, quoted_literal_with. rewrite E.
  destruct (N.eqb_spec b 39); [congruence|]. destruct (N.eqb_spec b 34); [congruence|]. cbn [orb]. repeat eexists.
Qed.

Lemma quoted_triple_err : forall f s b t, Valid s -> skip_ws s = b :: t -> b <> 60 -> is_err (quoted_triple (S f) s).
Proof.
  intros f s b t Hv E H. cbn [quoted_triple]. unfold qt_parts_with.
  destruct (skip_ws_spec s Hv) as (_ & _ & _ & Vs & Hn). rewrite (skip_ws_fixed _ Vs Hn). rewrite E.
  unfold strip_prefix. cbn [starts_with]. destruct (N.eqb_spec 60 b); [congruence|]. cbn [andb bind]. repeat eexists.
Qed.

Lemma quoted_triple_err2 : forall f s t, Valid s -> skip_ws s = 60 :: t -> (match t with b :: _ => b <> 60 | [] => True end) ->
  is_err (quoted_triple (S f) s).
Proof.
  intros f s t Hv E H. cbn [quoted_triple]. unfold qt_parts_with.
  destruct (skip_ws_spec s Hv) as (_ & _ & _ & Vs & Hn). rewrite (skip_ws_fixed _ Vs Hn). rewrite E.
  unfold strip_prefix. cbn [starts_with]. change (60 =? 60) with true. cbn [andb].
  destruct t as [|b t']; [cbn; repeat eexists|]. destruct (N.eqb_spec 60 b); [congruence|]. cbn [andb bind]. repeat eexists.
Qed.

Ltac alt_skip L := let H := fresh in pose proof L as H; destruct H as (? & ? & ? & ->); cbn [alt_from].

Theorem object_term_variable : forall f w tok rest, LayoutC w -> VarTok tok -> Valid rest -> var_stop rest ->
  object_term (S f) (w ++ tok ++ rest) = Ok (tok, rest).
Proof.
  intros f w tok rest Hw Ht Hr Hst. pose proof (variable_roundtrip w tok rest Hw Ht Hr Hst) as V.
  inversion Ht as [sigil cs Hsig Hne Hs Hc]; subst.
  assert (Vt : Valid (sigil :: encode cs)) by (apply (valid_app [sigil]); [apply valid_ascii; repeat constructor; lia|now apply valid_encode]).
  assert (Vall : Valid (w ++ (sigil :: encode cs) ++ rest)) by (apply valid_app; [now apply layoutC_valid|now apply valid_app]).
  assert (Esk : skip_ws (w ++ (sigil :: encode cs) ++ rest) = (sigil :: encode cs) ++ rest).
  { apply skip_ws_closed; [assumption|now apply valid_app|]. cbn [app]. apply ascii_head_not_layout; [lia|destruct Hsig as [-> | ->]; reflexivity|lia]. }
  unfold object_term, object_term_with, alt. cbn [alt_from].
  alt_skip (quoted_triple_err f _ _ _ Vall Esk ltac:(lia)). rewrite V. reflexivity.
Qed.

Theorem object_term_iri : forall f w tok rest, LayoutC w -> IriTok tok -> Valid rest ->
  object_term (S f) (w ++ tok ++ rest) = Ok (tok, rest).
Proof.
  intros f w tok rest Hw Ht Hr. pose proof (iri_roundtrip w tok rest Hw Ht Hr) as V.
  inversion Ht as [items Hi]; subst.
  assert (Vt : Valid (60 :: iri_body items ++ [62])).
  { apply (valid_app [60]); [apply valid_ascii; repeat constructor; lia|]. apply valid_app; [now apply iri_body_valid|apply valid_ascii; repeat constructor; lia]. }
  assert (Vall : Valid (w ++ (60 :: iri_body items ++ [62]) ++ rest)) by (apply valid_app; [now apply layoutC_valid|now apply valid_app]).
  assert (Esk : skip_ws (w ++ (60 :: iri_body items ++ [62]) ++ rest) = (60 :: iri_body items ++ [62]) ++ rest).
  { apply skip_ws_closed; [assumption|now apply valid_app|]. cbn [app]. apply ascii_head_not_layout; [lia|reflexivity|lia]. }
  unfold object_term, object_term_with, alt. cbn [alt_from].
  assert (Hsecond : match (iri_body items ++ [62]) ++ rest with b :: _ => b <> 60 | [] => True end).
  { destruct items as [|it items']; [cbn; lia|]. inversion Hi as [|? ? Hit _]; subst. cbn [iri_body flat_map]. rewrite <- !app_assoc.
    destruct it as [c|h|h]; cbn [item_bytes item_ok app] in *; try lia.
    destruct Hit as (Hc & Hforb & _). destruct (N.lt_ge_cases c 128) as [Hlt|Hge].
    - rewrite encode_char_ascii by assumption. cbn [app]. intro E. subst c. discriminate Hforb.
    - destruct (encode_char c) as [|b t] eqn:E.
      + pose proof (encode_char_len c) as H. rewrite E in H. pose proof (len_utf8_pos c). cbn in H. lia.
      + cbn [app]. pose proof (encode_char_bytes_high c b Hge (scalar_lt _ Hc)) as Hb. rewrite E in Hb. specialize (Hb (or_introl eq_refl)). lia. }
  alt_skip (quoted_triple_err2 f _ _ Vall Esk Hsecond).
  alt_skip (variable_err _ _ _ Esk ltac:(lia) ltac:(lia) ltac:(lia)). rewrite V. reflexivity.
Qed.

Theorem object_term_literal : forall f w tok rest, LayoutC w -> LitTok tok -> Valid rest ->
  (forall q, nth 0 tok 0 = q -> lit_stop q rest) -> object_term (S f) (w ++ tok ++ rest) = Ok (tok, rest).
Proof.
  intros f w tok rest Hw Ht Hr Hst. pose proof (quoted_literal_roundtrip w tok rest Hw Ht Hr Hst) as V.
  inversion Ht as [q items Hq Hi]; subst.
  assert (Vt : Valid (q :: lit_body items ++ [q])).
  { apply (valid_app [q]); [apply valid_ascii; repeat constructor; lia|]. apply valid_app; [eapply lit_body_valid; eassumption|apply valid_ascii; repeat constructor; lia]. }
  assert (Vall : Valid (w ++ (q :: lit_body items ++ [q]) ++ rest)) by (apply valid_app; [now apply layoutC_valid|now apply valid_app]).
  assert (Esk : skip_ws (w ++ (q :: lit_body items ++ [q]) ++ rest) = (q :: lit_body items ++ [q]) ++ rest).
  { apply skip_ws_closed; [assumption|now apply valid_app|]. cbn [app]. apply ascii_head_not_layout; [lia|destruct Hq as [-> | ->]; reflexivity|lia]. }
  unfold object_term, object_term_with, alt. cbn [alt_from].
  alt_skip (quoted_triple_err f _ _ _ Vall Esk ltac:(lia)).
  alt_skip (variable_err _ _ _ Esk ltac:(lia) ltac:(lia) ltac:(lia)).
  alt_skip (iri_err _ _ _ Esk ltac:(lia)).
  alt_skip (blank_node_err _ _ _ Esk ltac:(lia)). rewrite V. reflexivity.
Qed.
