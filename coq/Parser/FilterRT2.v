(* C16 deepening: round trip of the FILTER expression grammar - atoms, `&&` chains, `||` chains. *)
Require Import List NArith Bool PeanoNat Lia ZifyBool ZifyN.
Require Import KV.Parser.Utf8 KV.Parser.Unicode KV.Parser.Keywords KV.Parser.Scanners KV.Parser.Grammar.
Require Import KV.Parser.Utf8Proofs KV.Parser.ScannerProofs KV.Parser.GrammarProofs.
Require Import KV.Parser.RoundTrip KV.Parser.RoundTrip2 KV.Parser.RoundTrip3 KV.Parser.Lex KV.Parser.StmtRT KV.Parser.FilterRT.
Import ListNotations.
Open Scope N_scope.

Lemma letter_not_ws : forall b, letter b -> is_whitespace b = false.
Proof.
  intros b Hb. unfold letter, is_ascii_alpha, is_ascii_upper, is_ascii_lower in Hb.
  assert (65 <= b <= 122) by lia. unfold is_whitespace, in_ranges, whitespace_ranges.
  destruct (N.ltb_spec b 9); [lia|]. destruct (N.leb_spec b 13); [lia|]. destruct (N.ltb_spec b 32); [lia|].
  destruct (N.leb_spec b 32); [lia|]. destruct (N.ltb_spec b 133); [reflexivity|lia].
Qed.
Lemma letter_facts : forall b, letter b -> b < 128 /\ is_whitespace b = false /\ 65 <= b.
Proof. intros b Hb. split; [|split; [now apply letter_not_ws|]]; unfold letter, is_ascii_alpha, is_ascii_upper, is_ascii_lower in Hb; lia. Qed.

Lemma letter_le : forall b, letter b -> b <= 122.
Proof. intros b Lb. unfold letter, is_ascii_alpha, is_ascii_upper, is_ascii_lower in Lb. lia. Qed.

Lemma atom_head_ne : forall a f rest c, wf_atom a f = true -> c < 128 -> is_whitespace c = false -> c <> 35 ->
  (c = 61 \/ c = 38 \/ c = 124 \/ c = 41) -> starts_with [c] (pr_atom a ++ rest) = false.
Proof.
  intros a f rest c H Hc Hw H35 Hcase. destruct (atom_body_facts a f rest H) as (Hl & b & t & Eb & H61 & H38 & H124 & H41 & _).
  rewrite atom_split, <- app_assoc. apply layout_head_ne; try assumption; [now apply lay_ok|].
  rewrite Eb. cbn [app starts_with]. destruct (N.eqb_spec c b); [|reflexivity]. subst b. lia.
Qed.

Lemma after_atom_sub : forall rest, after_atom rest -> lead_out [42; 47; 43; 45] rest /\ lead_out [33; 61; 62; 60] rest.
Proof. intros rest H. split; intros b t E Hin; apply (H b t E); cbn in *; tauto. Qed.

(* ---- the arithmetic reading of a parenthesised boolean expression ------------------------------------------------- *)
Lemma prefixed_name_err_head : forall s b t, Valid (b :: t) -> skip_ws s = b :: t -> b < 128 -> pn_chars_base b = false -> b <> 58 ->
  is_err (prefixed_name s).
Proof.
  intros s b t Hv E Hb Hp H58. unfold prefixed_name. rewrite E.
  destruct (find_byte 58 (b :: t)) as [colon|] eqn:Ef; [|repeat eexists].
  destruct (find_byte_spec _ _ _ Ef) as [Hnth Hlt].
  destruct colon as [|c]; [cbn in Hnth; congruence|].
  destruct (ascii_byte_bnd (b :: t) (S c) Hv Hlt ltac:(rewrite Hnth; lia)) as [B _].
  rewrite slice_to_bnd by assumption. cbn [lift bind firstn]. unfold invalid_pn_prefix. cbn [next_char].
  destruct (N.ltb_spec b 128); [|lia]. rewrite Hp. cbn [negb bind]. repeat eexists.
Qed.

Lemma operand_bang_err : forall x t, skip_ws x = 33 :: t -> Valid (33 :: t) -> is_err (filter_operand_token x).
Proof.
  intros x t E Hv. unfold filter_operand_token, alt. cbn [alt_from].
  alt_skip (variable_err_b _ _ _ Hv E ltac:(lia) ltac:(lia)).
  alt_skip (quoted_literal_err _ _ _ E ltac:(lia) ltac:(lia)).
  alt_skip (numeric_err _ _ _ E ltac:(lia) ltac:(lia) ltac:(lia) ltac:(reflexivity)).
  alt_skip (iri_err _ _ _ E ltac:(lia)).
  alt_skip (keyword_fail kw_true _ _ x 33 t eq_refl E ltac:(cbv; discriminate)).
  alt_skip (keyword_fail kw_false _ _ x 33 t eq_refl E ltac:(cbv; discriminate)).
  destruct (prefixed_name_err_head x 33 t Hv E ltac:(lia) ltac:(reflexivity) ltac:(lia)) as (? & ? & ? & ->). repeat eexists.
Qed.

(* a function call is not an operand either: `name (` is no variable, literal, number, IRI, boolean - and no prefixed name,
   because the character after the name (`(`, `#` or an ASCII whitespace character) cannot occur in a prefix label *)
Lemma letter_pn_chars : forall b, letter b -> pn_chars_base b = true /\ pn_chars b = true /\ b <> 46 /\ b <> 58 /\ b < 128.
Proof.
  intros b Lb. destruct (letter_facts b Lb) as (Hb & _ & H65). pose proof (letter_le b Lb). unfold letter in Lb.
  unfold pn_chars, pn_chars_u, pn_chars_base. rewrite Lb. cbn [orb]. rewrite orb_true_r. cbn [orb]. repeat split; try reflexivity; lia.
Qed.
Lemma pn_prefix_loop_letters : forall cs fuel off prev c0 more, Forall letter cs -> c0 < 128 -> pn_chars c0 = false -> c0 <> 46 -> (length cs < fuel)%nat ->
  exists pd, pn_prefix_loop fuel (cs ++ c0 :: more) off prev = (Some (off + length cs)%nat, pd).
Proof.
  induction cs as [|c cs IH]; intros fuel off prev c0 more Hl Hc0 Hp H46 Hf; (destruct fuel as [|f]; [cbn in Hf; lia|]); cbn [app pn_prefix_loop next_char].
  - destruct (N.ltb_spec c0 128); [|lia]. destruct (N.eqb_spec c0 46); [congruence|]. rewrite Hp. rewrite Nat.add_0_r. eauto.
  - inversion Hl as [|? ? Lc Hl']; subst. destruct (letter_pn_chars c Lc) as (_ & Hpc & Hn46 & _ & Hlt).
    destruct (N.ltb_spec c 128); [|lia]. destruct (N.eqb_spec c 46); [congruence|]. rewrite Hpc. cbn [skipn].
    destruct (IH f (off + 1)%nat false c0 more Hl' Hc0 Hp H46 ltac:(cbn in Hf; lia)) as (pd & E). rewrite E. exists pd. f_equal. f_equal. cbn [length]. lia.
Qed.
Lemma prefixed_name_err_run : forall b cs c0 rest, Forall letter (b :: cs) -> c0 < 128 -> pn_chars c0 = false -> c0 <> 46 -> c0 <> 58 ->
  Valid ((b :: cs) ++ c0 :: rest) -> is_err (prefixed_name ((b :: cs) ++ c0 :: rest)).
Proof.
  intros b cs c0 rest Hl Hc0 Hp H46 H58 Hv. set (X := (b :: cs) ++ c0 :: rest) in *.
  inversion Hl as [|? ? Lb Hl']; subst. destruct (letter_pn_chars b Lb) as (Hpb & _ & _ & _ & Hblt).
  assert (EX : skip_ws X = X) by (apply skip_ws_fixed; [assumption|unfold X; cbn [app]; now apply letter_not_layout]).
  unfold prefixed_name. rewrite EX. destruct (find_byte 58 X) as [colon|] eqn:Ef; [|repeat eexists].
  destruct (find_byte_spec _ _ _ Ef) as [Hnth Hlt].
  assert (Hcol : (length (b :: cs) < colon)%nat).
  { destruct (Nat.lt_ge_cases (length (b :: cs)) colon) as [|Hge]; [assumption|exfalso]. unfold X in Hnth.
    destruct (Nat.eq_dec colon (length (b :: cs))) as [->|Hne].
    - rewrite app_nth2, Nat.sub_diag in Hnth by lia. cbn in Hnth. congruence.
    - rewrite app_nth1 in Hnth by lia. assert (Hin : In (nth colon (b :: cs) 0) (b :: cs)) by (apply nth_In; lia).
      rewrite Forall_forall in Hl. specialize (Hl _ Hin). rewrite Hnth in Hl. destruct (letter_pn_chars 58 Hl) as (_ & _ & _ & ? & _). congruence. }
  destruct (ascii_byte_bnd X colon Hv Hlt ltac:(rewrite Hnth; lia)) as [B _].
  rewrite slice_to_bnd by assumption. cbn [lift bind].
  assert (Vp : Valid (firstn colon X)) by now apply bnd_firstn_valid.
  assert (Ep : firstn colon X = (b :: cs) ++ c0 :: firstn (colon - length (b :: cs) - 1) rest).
  { unfold X. rewrite firstn_app. rewrite (firstn_all2 (b :: cs)) by lia. f_equal.
    destruct (colon - length (b :: cs))%nat as [|k] eqn:Ek; [lia|]. cbn [firstn]. f_equal. f_equal. lia. }
  rewrite Ep in *. set (more := firstn (colon - length (b :: cs) - 1) rest) in *.
  unfold invalid_pn_prefix. cbn [app next_char]. destruct (N.ltb_spec b 128); [|lia]. rewrite Hpb. cbn [negb].
  cbn [app] in Vp. destruct (valid_ascii_head b (cs ++ c0 :: more) Vp Hblt) as (_ & B1 & Vt).
  rewrite slice_from_bnd by assumption. cbn [lift bind skipn].
  destruct (pn_prefix_loop_letters cs (length (cs ++ c0 :: more)) 0 false c0 more Hl' Hc0 Hp H46 ltac:(rewrite app_length; cbn [length]; lia)) as (pd & El).
  rewrite El. cbn [Nat.add].
  assert (B2 : Bnd (b :: cs ++ c0 :: more) (1 + length cs)).
  { change (b :: cs ++ c0 :: more) with ((b :: cs) ++ c0 :: more).
    destruct (ascii_byte_bnd ((b :: cs) ++ c0 :: more) (length (b :: cs)) Vp ltac:(rewrite app_length; cbn [length]; lia)
                ltac:(rewrite app_nth2, Nat.sub_diag by lia; cbn; lia)) as [B2 _]. exact B2. }
  rewrite slice_from_bnd by assumption. cbn [lift bind]. repeat eexists.
Qed.

Lemma ascii_ws_cases : forall b, b < 128 -> is_whitespace b = true -> 9 <= b <= 13 \/ b = 32.
Proof.
  intros b Hb H. destruct (in_ranges_spec _ _ H) as (lo & hi & Hr & Hbd). unfold whitespace_ranges in Hr. cbn [In] in Hr.
  repeat (destruct Hr as [Hr|Hr]; [injection Hr as <- <-; lia|]). destruct Hr.
Qed.
Lemma lay_head_cases : forall l b m, lay_okb l = true -> lay_bytes l = b :: m -> b < 128 -> (9 <= b <= 13 \/ b = 32) \/ b = 35.
Proof.
  intros [|it l'] b m H E Hb; [discriminate|]. cbn [lay_okb forallb lay_bytes flat_map] in *. apply andb_true_iff in H. destruct H as [Hit _].
  destruct it as [c|body e]; cbn [litem_okb litem_bytes] in *.
  - apply andb_true_iff in Hit. destruct Hit as [Hs Hw]. destruct (encode_char_ascii_head c _ b m E Hb) as [-> _]. left. now apply ascii_ws_cases.
  - cbn [app] in E. injection E as <- _. now right.
Qed.

Lemma operand_call_err : forall fn kwtxt lp x, kwcaseb (fname_kw fn) kwtxt = true -> lay_okb lp = true -> lay_ascii_head lp = true ->
  Valid (kwtxt ++ lay_bytes lp ++ 40 :: x) -> is_err (filter_operand_token (kwtxt ++ lay_bytes lp ++ 40 :: x)).
Proof.
  intros fn kwtxt lp x Hk Hlp Hah Hv. set (X := kwtxt ++ lay_bytes lp ++ 40 :: x) in *.
  assert (Hk' := Hk). apply kwcase_b in Hk'.
  destruct (kwcase_head _ _ Hk' ltac:(destruct fn; discriminate)) as (k & kw' & b & t & Ekw & Etxt & Hkb).
  assert (Lall : Forall letter kwtxt).
  { assert (Lkw : Forall letter (fname_kw fn)) by (destruct fn; repeat constructor).
    clear - Hk' Lkw. induction Hk' as [|k0 b0 kw0 t0 Hb0 _ IH]; [constructor|]. inversion Lkw; subst. constructor; [|now apply IH].
    unfold letter, is_ascii_alpha, is_ascii_upper, is_ascii_lower, ascii_lower, is_ascii_upper in *.
    destruct ((65 <=? b0) && (b0 <=? 90)) eqn:E1; destruct ((65 <=? k0) && (k0 <=? 90)) eqn:E2; lia. }
  assert (Lb : letter b) by (rewrite Etxt in Lall; now inversion Lall).
  destruct (letter_facts b Lb) as (Hb & Hw & H65). pose proof (letter_le b Lb) as H122.
  assert (EX : skip_ws X = b :: t ++ lay_bytes lp ++ 40 :: x).
  { unfold X. rewrite Etxt. cbn [app]. apply skip_ws_fixed; [unfold X in Hv; now rewrite Etxt in Hv|now apply letter_not_layout]. }
  assert (VX : Valid (b :: t ++ lay_bytes lp ++ 40 :: x)) by (unfold X in Hv; now rewrite Etxt in Hv).
  (* the character after the name *)
  assert (Next : exists c0 more, lay_bytes lp ++ 40 :: x = c0 :: more /\ c0 < 128 /\ pn_chars c0 = false /\ c0 <> 46 /\ c0 <> 58).
  { unfold lay_ascii_head in Hah. destruct (lay_bytes lp) as [|c0 m] eqn:El.
    - exists 40, x. repeat split; try lia; reflexivity.
    - exists c0, (m ++ 40 :: x). assert (Hc0 : c0 < 128) by lia. split; [reflexivity|]. split; [assumption|].
      destruct (lay_head_cases lp c0 m Hlp El Hc0) as [[Hr|Hr]|Hr].
      + assert (Hc : c0 = 9 \/ c0 = 10 \/ c0 = 11 \/ c0 = 12 \/ c0 = 13) by lia. destruct Hc as [->|[->|[->|[->| ->]]]]; repeat split; try lia; reflexivity.
      + subst c0. repeat split; try lia; reflexivity.
      + subst c0. repeat split; try lia; reflexivity. }
  destruct Next as (c0 & more & En & Hc0 & Hpc & H46 & H58).
  assert (Kt : is_err (keyword kw_true X)).
  { destruct fn; cbn [fname_kw] in Ekw; injection Ekw as <- <-;
      try (apply (keyword_fail kw_true _ _ X b _ eq_refl EX); rewrite Hkb; cbv; discriminate).
    (* TRIPLE: t, r match; the third letter is i, not u *)
    apply (keyword_free_err kw_true X _ ltac:(kw_a) VX EX).
    rewrite Etxt in Hk'. inversion Hk' as [|? ? ? ? _ Hk2]; subst. inversion Hk2 as [|? b2 ? t2 _ Hk3]; subst. inversion Hk3 as [|? b3 ? t3 Hb3 _]; subst.
    assert (E3 : (ascii_lower b3 =? ascii_lower 117) = false) by (apply N.eqb_neq; rewrite Hb3; cbv; discriminate).
    unfold kw_hitb. change kw_true with [116; 114; 117; 101]. cbn [app prefix_nocase]. rewrite E3. now rewrite ?andb_false_r, ?andb_false_l. }
  assert (Kf : is_err (keyword kw_false X)).
  { apply (keyword_fail kw_false _ _ X b _ eq_refl EX). rewrite Hkb. destruct fn; cbn [fname_kw] in Ekw; injection Ekw as <- _; cbv; discriminate. }
  unfold filter_operand_token, alt. cbn [alt_from].
  alt_skip (variable_err_b _ _ _ VX EX ltac:(lia) ltac:(lia)).
  alt_skip (quoted_literal_err _ _ _ EX ltac:(lia) ltac:(lia)).
  alt_skip (numeric_err _ _ _ EX ltac:(lia) ltac:(lia) ltac:(lia) ltac:(unfold is_ascii_digit; lia)).
  alt_skip (iri_err _ _ _ EX ltac:(lia)).
  destruct Kt as (? & ? & ? & ->). cbn [alt_from]. destruct Kf as (? & ? & ? & ->). cbn [alt_from].
  assert (Pn : is_err (prefixed_name X)).
  { unfold X. rewrite En, Etxt. rewrite Etxt in Lall. apply prefixed_name_err_run; try assumption. unfold X in Hv. now rewrite En, Etxt in Hv. }
  destruct Pn as (? & ? & ? & ->). repeat eexists.
Qed.

Definition OPS : list N := [33; 61; 62; 60; 38; 124].
Definition arith_try (pure : bool) (r : res (arith * str)) (F : str) : Prop :=
  if pure then exists t, r = Ok (t, F)
  else is_err r \/ exists t F', r = Ok (t, F') /\ lead_in OPS F'.
Definition arith_paren (pure : bool) (r : res (arith * str)) (F : str) : Prop :=
  if pure then exists t, r = Ok (t, F) else is_err r.

Lemma lead_in_byte : forall l b x bs, lay_okb l = true -> b < 128 -> is_whitespace b = false -> b <> 35 -> Valid x -> In b bs ->
  lead_in bs (lay_bytes l ++ b :: x).
Proof. intros l b x bs Hl Hb Hw H35 Hx Hin. exists b, x. split; [now apply lead_skip|assumption]. Qed.

Lemma paren_arith : forall l e r g F, lay_okb l = true -> lay_okb r = true -> Valid (pr_or e) -> Valid F -> after_atom F ->
  arith_try (pure_or e) (f_arith g (pr_or e ++ lay_bytes r ++ 41 :: F)) (lay_bytes r ++ 41 :: F) ->
  arith_paren (pure_or e) (f_arith (S (S (S g))) (lay_bytes l ++ 40 :: pr_or e ++ lay_bytes r ++ 41 :: F)) F.
Proof.
  intros l e r g F Hl Hr Ve HF Ha Try. destruct (after_atom_sub _ Ha) as [Ha1 _].
  assert (V41 : Valid (41 :: F)) by (apply (valid_app [41]); [apply valid_ascii; repeat constructor; lia|assumption]).
  assert (VR : Valid (lay_bytes r ++ 41 :: F)) by (apply valid_app; [now apply lay_valid|assumption]).
  assert (VE : Valid (pr_or e ++ lay_bytes r ++ 41 :: F)) by now apply valid_app.
  cbn [f_arith f_product f_operand]. rewrite lead_skip by (try assumption; try lia; reflexivity). rewrite strip1_some.
  unfold arith_try, arith_paren in *. destruct (pure_or e).
  - destruct Try as (t & ->). cbn [bind]. unfold schar. rewrite lead_skip by (try assumption; try lia; reflexivity). rewrite N.eqb_refl. cbn [bind].
    rewrite product_loop_stop by (intros b t0 E Hin; apply (Ha1 b t0 E); cbn in *; tauto). cbn [bind].
    rewrite arith_loop_stop by (intros b t0 E Hin; apply (Ha1 b t0 E); cbn in *; tauto). eauto.
  - destruct Try as [(k & l0 & e0 & ->)|(t & F' & -> & (b & t0 & E & Hin))]; [cbn [bind]; repeat eexists|].
    cbn [bind]. unfold schar. rewrite E. destruct (N.eqb_spec b 41) as [->|_]; [cbn in Hin; lia|]. cbn [bind]. repeat eexists.
Qed.

Lemma sz_atom_ge2 : forall a, (2 <= sz_atom a)%nat.
Proof. destruct a; cbn [sz_atom]; lia. Qed.

Lemma bool_arith :
  (forall a g F, (sz_atom a <= S g)%nat -> wf_atom a F = true -> hd_atom a = true -> Valid F -> after_atom F ->
     arith_try (pure_atom a) (f_arith g (pr_atom a ++ F)) F) /\
  (forall x g F, (sz_and x <= S g)%nat -> wf_and x F = true -> hd_and x = true -> Valid F -> after_atom F ->
     arith_try (pure_and x) (f_arith g (pr_and x ++ F)) F) /\
  (forall o g F, (sz_or o <= S g)%nat -> wf_or o F = true -> hd_or o = true -> Valid F -> after_atom F ->
     arith_try (pure_or o) (f_arith g (pr_or o ++ F)) F).
Proof.
  apply bool_mutind.
  - (* ! atom: no operand starts with `!` *)
    intros l a _ g F Hf H _ HF Ha. cbn [sz_atom wf_atom pr_atom pure_atom] in *. pose proof (sz_atom_ge2 a).
    destruct g as [|[|[|g3]]]; try lia. apply andb_true_iff in H. destruct H as [Hl Hw].
    assert (Va : Valid (33 :: pr_atom a ++ F)).
    { apply (valid_app [33]); [apply valid_ascii; repeat constructor; lia|]. apply valid_app; [eapply (proj1 atom_valid_mut); eassumption|assumption]. }
    left. rewrite <- app_assoc. cbn [app f_arith f_product f_operand].
    assert (Esk : skip_ws (lay_bytes l ++ 33 :: pr_atom a ++ F) = 33 :: pr_atom a ++ F).
    { apply lead_skip; try assumption; try lia; try reflexivity. now destruct (valid_ascii_head _ _ Va ltac:(lia)) as (_ & _ & ?). }
    rewrite Esk. rewrite strip1_none by lia.
    assert (Eid : skip_ws (33 :: pr_atom a ++ F) = 33 :: pr_atom a ++ F) by (apply skip_ws_fixed; [assumption|apply ascii_head_not_layout; [lia|reflexivity|lia]]).
    destruct (operand_bang_err _ _ Eid Va) as (? & ? & ? & ->). cbn [bind]. repeat eexists.
  - (* function call: no operand starts with a function name followed by `(` *)
    intros kl fn kwtxt lp a1 amore rp g F Hf H Hh HF Ha. cbn [sz_atom wf_atom pr_atom pure_atom hd_atom] in *.
    destruct g as [|[|[|g3]]]; try lia.
    pose proof (proj1 atom_valid_mut (AtCall kl fn kwtxt lp a1 amore rp) F H) as Vall. cbn [pr_atom] in Vall.
    repeat (apply andb_true_iff in H; destruct H as [H ?]).
    match goal with X : kwcaseb _ _ = true |- _ => rename X into Hk end.
    match goal with X : lay_okb lp = true |- _ => rename X into Hlp end.
    set (Y := pr_o a1 ++ pr_oms amore ++ lay_bytes rp ++ 41 :: F).
    assert (E0 : (lay_bytes kl ++ kwtxt ++ lay_bytes lp ++ 40 :: pr_o a1 ++ pr_oms amore ++ lay_bytes rp ++ [41]) ++ F = lay_bytes kl ++ kwtxt ++ lay_bytes lp ++ 40 :: Y).
    { unfold Y. repeat first [rewrite <- app_assoc | progress cbn [app]]. reflexivity. }
    assert (VX : Valid (kwtxt ++ lay_bytes lp ++ 40 :: Y)).
    { assert (V : Valid ((lay_bytes kl ++ kwtxt ++ lay_bytes lp ++ 40 :: pr_o a1 ++ pr_oms amore ++ lay_bytes rp ++ [41]) ++ F)) by now apply valid_app.
      rewrite E0 in V. assert (Hk' := Hk). apply kwcase_b in Hk'.
      destruct (kwcase_head _ _ Hk' ltac:(destruct fn; discriminate)) as (k & kw' & b & t & Ekw & Etxt & Hkb).
      assert (Lb : letter b) by (rewrite Etxt in Hk'; eapply fname_letter; eassumption). destruct (letter_facts b Lb) as (Hb & _ & _).
      rewrite Etxt in *. cbn [app] in *. now destruct (valid_split_ascii _ _ _ V Hb) as (_ & ? & _). }
    left. rewrite E0. cbn [f_arith f_product f_operand].
    assert (Esk : skip_ws (lay_bytes kl ++ kwtxt ++ lay_bytes lp ++ 40 :: Y) = kwtxt ++ lay_bytes lp ++ 40 :: Y).
    { apply skip_ws_closed; [now apply lay_ok|assumption|]. assert (Hk' := Hk). apply kwcase_b in Hk'.
      destruct (kwcase_head _ _ Hk' ltac:(destruct fn; discriminate)) as (k & kw' & b & t & Ekw & Etxt & Hkb).
      assert (Lb : letter b) by (rewrite Etxt in Hk'; eapply fname_letter; eassumption). rewrite Etxt. cbn [app]. now apply letter_not_layout. }
    rewrite Esk.
    assert (E40 : strip_prefix [40] (kwtxt ++ lay_bytes lp ++ 40 :: Y) = None).
    { assert (Hk' := Hk). apply kwcase_b in Hk'. destruct (kwcase_head _ _ Hk' ltac:(destruct fn; discriminate)) as (k & kw' & b & t & Ekw & Etxt & Hkb).
      assert (Lb : letter b) by (rewrite Etxt in Hk'; eapply fname_letter; eassumption). destruct (letter_facts b Lb) as (_ & _ & H65).
      rewrite Etxt. cbn [app]. apply strip1_none. lia. }
    rewrite E40. destruct (operand_call_err fn kwtxt lp Y Hk Hlp Hh VX) as (? & ? & ? & ->). cbn [bind]. repeat eexists.
  - (* comparison: the left side is read, then an operator follows *)
    intros s1 ol op s2 g F Hf H _ HF Ha. cbn [sz_atom wf_atom pr_atom pure_atom] in *.
    repeat (apply andb_true_iff in H; destruct H as [H ?]).
    match goal with X : cmp_opb op = true |- _ => rename X into Hop end.
    match goal with X : lay_okb ol = true |- _ => rename X into Hol end.
    match goal with X : wf_sum s2 F = true |- _ => rename X into Hw2 end.
    set (R1 := lay_bytes ol ++ op ++ pr_sum s2 ++ F) in *.
    assert (V2 : Valid (pr_sum s2 ++ F)) by (apply valid_app; [eapply (proj1 (proj2 arith_valid)); eassumption|assumption]).
    assert (VR1 : Valid R1) by (unfold R1; apply valid_app; [now apply lay_valid|apply valid_app; [now apply cmp_valid|assumption]]).
    assert (E0 : (pr_sum s1 ++ lay_bytes ol ++ op ++ pr_sum s2) ++ F = pr_sum s1 ++ R1) by (unfold R1; now rewrite <- !app_assoc).
    rewrite E0. right. exists (tr_sum s1), R1. split.
    + apply sum_roundtrip; [lia|assumption|assumption|]. unfold R1. now apply cmp_lead_out.
    + unfold R1, cmp_opb in *. assert (V1 : forall c, c < 128 -> Valid (c :: pr_sum s2 ++ F)) by (intros c Hc; apply (valid_app [c]); [apply valid_ascii; repeat constructor; assumption|assumption]).
      assert (V61 : Valid (61 :: pr_sum s2 ++ F)) by (apply V1; lia).
      assert (V161 : forall c, c < 128 -> Valid (c :: 61 :: pr_sum s2 ++ F)) by (intros c Hc; apply (valid_app [c]); [apply valid_ascii; repeat constructor; assumption|assumption]).
      repeat (apply orb_true_iff in Hop; destruct Hop as [Hop|Hop]); apply str_eqb_eq in Hop; subst op; cbn [app];
        (apply lead_in_byte; [assumption|lia|reflexivity|lia| |unfold OPS; cbn; tauto]); first [assumption | apply V1; lia].
  - (* bare arithmetic *)
    intros s g F Hf H _ HF Ha. cbn [sz_atom wf_atom pr_atom pure_atom] in *. destruct (after_atom_sub _ Ha) as [Ha1 _].
    repeat (apply andb_true_iff in H; destruct H as [H ?]). exists (tr_sum s). apply sum_roundtrip; [lia|assumption|assumption|assumption].
  - (* nested parentheses *)
    intros l e IH r g F Hf H Hh HF Ha. cbn [sz_atom wf_atom pr_atom pure_atom hd_atom] in *.
    repeat (apply andb_true_iff in H; destruct H as [H ?]).
    match goal with X : wf_or e _ = true |- _ => rename X into He end.
    match goal with X : lay_okb r = true |- _ => rename X into Hr end.
    destruct g as [|[|[|g3]]]; try lia.
    assert (V41 : Valid (41 :: F)) by (apply (valid_app [41]); [apply valid_ascii; repeat constructor; lia|assumption]).
    assert (VR : Valid (lay_bytes r ++ 41 :: F)) by (apply valid_app; [now apply lay_valid|assumption]).
    assert (AR : after_atom (lay_bytes r ++ 41 :: F)) by (apply lead_out_byte; try assumption; try lia; try reflexivity; cbn; lia).
    pose proof (IH g3 _ ltac:(lia) He Hh VR AR) as Try.
    assert (E0 : (lay_bytes l ++ 40 :: pr_or e ++ lay_bytes r ++ [41]) ++ F = lay_bytes l ++ 40 :: pr_or e ++ lay_bytes r ++ 41 :: F).
    { repeat first [rewrite <- app_assoc | progress cbn [app]]. reflexivity. }
    rewrite E0. pose proof (paren_arith l e r g3 F H Hr (proj2 (proj2 atom_valid_mut) e _ He) HF Ha Try) as P.
    unfold arith_paren, arith_try in *. destruct (pure_or e); [exact P|now left].
  - (* single atom *)
    intros a IH g F Hf H Hh HF Ha. cbn [sz_and wf_and pr_and pure_and hd_and] in *. apply IH; try assumption. lia.
  - (* x && a: never a pure arithmetic expression *)
    intros x IHx l a _ g F Hf H Hh HF Ha. cbn [sz_and wf_and pr_and pure_and hd_and] in *.
    repeat (apply andb_true_iff in H; destruct H as [H ?]).
    match goal with X : wf_and x _ = true |- _ => rename X into Hwx end.
    match goal with X : wf_atom a _ = true |- _ => rename X into Hwa end.
    assert (VA : Valid (pr_atom a ++ F)) by (apply valid_app; [eapply (proj1 atom_valid_mut); eassumption|assumption]).
    assert (V38 : Valid (38 :: pr_atom a ++ F)) by (apply (valid_app [38]); [apply valid_ascii; repeat constructor; lia|assumption]).
    assert (V3838 : Valid (38 :: 38 :: pr_atom a ++ F)) by (apply (valid_app [38]); [apply valid_ascii; repeat constructor; lia|assumption]).
    assert (VR : Valid (lay_bytes l ++ 38 :: 38 :: pr_atom a ++ F)) by (apply valid_app; [now apply lay_valid|assumption]).
    rewrite <- !app_assoc. cbn [app].
    pose proof (IHx g _ ltac:(lia) Hwx Hh VR ltac:(apply lead_out_byte; try assumption; try lia; try reflexivity; cbn; lia)) as Try.
    unfold arith_try in *. destruct (pure_and x); [|exact Try]. destruct Try as (t & ->). right. eexists _, _. split; [reflexivity|].
    apply lead_in_byte; try assumption; try lia; try reflexivity. unfold OPS. cbn. tauto.
  - (* single conjunction *)
    intros x IH g F Hf H Hh HF Ha. cbn [sz_or wf_or pr_or pure_or hd_or] in *. apply IH; try assumption. lia.
  - (* o || x *)
    intros o IHo l x _ g F Hf H Hh HF Ha. cbn [sz_or wf_or pr_or pure_or hd_or] in *.
    repeat (apply andb_true_iff in H; destruct H as [H ?]).
    match goal with X : wf_or o _ = true |- _ => rename X into Hwo end.
    match goal with X : wf_and x _ = true |- _ => rename X into Hwx end.
    assert (VA : Valid (pr_and x ++ F)) by (apply valid_app; [eapply (proj1 (proj2 atom_valid_mut)); eassumption|assumption]).
    assert (V1 : Valid (124 :: pr_and x ++ F)) by (apply (valid_app [124]); [apply valid_ascii; repeat constructor; lia|assumption]).
    assert (V2 : Valid (124 :: 124 :: pr_and x ++ F)) by (apply (valid_app [124]); [apply valid_ascii; repeat constructor; lia|assumption]).
    assert (VR : Valid (lay_bytes l ++ 124 :: 124 :: pr_and x ++ F)) by (apply valid_app; [now apply lay_valid|assumption]).
    rewrite <- !app_assoc. cbn [app].
    pose proof (IHo g _ ltac:(lia) Hwo Hh VR ltac:(apply lead_out_byte; try assumption; try lia; try reflexivity; cbn; lia)) as Try.
    unfold arith_try in *. destruct (pure_or o); [|exact Try]. destruct Try as (t & ->). right. eexists _, _. split; [reflexivity|].
    apply lead_in_byte; try assumption; try lia; try reflexivity. unfold OPS. cbn. tauto.
Qed.

Lemma bool_rt :
  (forall a fuel rest, (sz_atom a <= fuel)%nat -> wf_atom a rest = true -> Valid rest -> after_atom rest ->
     f_atom fuel (pr_atom a ++ rest) = Ok (tr_atom a, rest)) /\
  (forall x fuel rest, (sz_and x <= fuel)%nat -> wf_and x rest = true -> Valid rest -> after_atom rest ->
     f_and fuel (pr_and x ++ rest) = f_and_loop (fuel - c_and x) (tr_and x) rest) /\
  (forall o fuel rest, (sz_or o <= fuel)%nat -> wf_or o rest = true -> Valid rest -> after_atom rest -> no_op2 38 rest ->
     f_or fuel (pr_or o ++ rest) = f_or_loop (fuel - c_or o) (tr_or o) rest).
Proof.
  apply bool_mutind.
  - (* ! atom *)
    intros l a IH fuel rest Hf H Hr Ha. cbn [wf_atom pr_atom tr_atom sz_atom] in *. destruct fuel as [|f]; [lia|].
    apply andb_true_iff in H. destruct H as [Hl Hw].
    assert (Va : Valid (pr_atom a ++ rest)) by (apply valid_app; [eapply (proj1 atom_valid_mut); eassumption|assumption]).
    rewrite <- app_assoc. cbn [app]. cbn [f_atom]. rewrite lead_skip by (try assumption; try lia; reflexivity).
    rewrite strip1_some. rewrite (atom_head_ne a rest rest 61 Hw) by (try lia; try reflexivity; auto).
    rewrite (IH f rest ltac:(lia) Hw Hr Ha). reflexivity.
  - (* function call *)
    intros kl fn kwtxt lp a1 amore rp fuel rest Hf H Hr Ha. cbn [wf_atom pr_atom tr_atom sz_atom] in *.
    destruct fuel as [|[|tf]]; [lia|lia|].
    pose proof (atom_body_facts (AtCall kl fn kwtxt lp a1 amore rp) rest rest H) as (_ & b & t & Eb & _ & _ & _ & _ & Hn & H33).
    pose proof (proj1 atom_valid_mut (AtCall kl fn kwtxt lp a1 amore rp) rest H) as Vall. cbn [pr_atom] in Vall.
    repeat (apply andb_true_iff in H; destruct H as [H ?]).
    set (X := kwtxt ++ lay_bytes lp ++ 40 :: pr_o a1 ++ pr_oms amore ++ lay_bytes rp ++ 41 :: rest).
    assert (E0 : (lay_bytes kl ++ kwtxt ++ lay_bytes lp ++ 40 :: pr_o a1 ++ pr_oms amore ++ lay_bytes rp ++ [41]) ++ rest = lay_bytes kl ++ X).
    { unfold X. repeat first [rewrite <- app_assoc | progress cbn [app]]. reflexivity. }
    assert (EX : atom_body (AtCall kl fn kwtxt lp a1 amore rp) ++ rest = X).
    { unfold X. cbn [atom_body]. repeat first [rewrite <- app_assoc | progress cbn [app]]. reflexivity. }
    assert (VX : Valid X).
    { unfold X. apply valid_app; [apply valid_ascii; apply (kwcase_ascii (fname_kw fn)); [destruct fn; kw_a|now apply kwcase_b]|].
      apply valid_app; [now apply lay_valid|]. apply (valid_app [40]); [apply valid_ascii; repeat constructor; lia|].
      apply valid_app; [eapply arg_valid; eassumption|]. apply valid_app; [eapply args_valid; eassumption|].
      apply valid_app; [now apply lay_valid|]. apply (valid_app [41]); [apply valid_ascii; repeat constructor; lia|assumption]. }
    rewrite EX in Hn. rewrite E0. cbn [f_atom].
    rewrite (skip_ws_closed _ X (lay_ok _ H) VX Hn).
    assert (E33 : strip_prefix [33] X = None) by (rewrite <- EX, Eb; cbn [app]; now apply strip1_none).
    rewrite E33. unfold X. rewrite (f_function_call tf fn kwtxt lp a1 amore rp rest) by assumption. reflexivity.
  - (* comparison *)
    intros s1 ol op s2 fuel rest Hf H Hr Ha. cbn [wf_atom pr_atom tr_atom sz_atom] in *. destruct fuel as [|f]; [lia|].
    destruct (after_atom_sub _ Ha) as [Ha1 Ha2].
    repeat (apply andb_true_iff in H; destruct H as [H ?]).
    match goal with X : cmp_opb op = true |- _ => rename X into Hop end.
    match goal with X : lay_okb ol = true |- _ => rename X into Hol end.
    match goal with X : wf_sum s2 rest = true |- _ => rename X into Hw2 end.
    match goal with X : str_eqb (trim (sum_body s1)) _ = true |- _ => apply str_eqb_eq in X; rename X into Ht1 end.
    match goal with X : str_eqb (trim (sum_body s2)) _ = true |- _ => apply str_eqb_eq in X; rename X into Ht2 end.
    match goal with X : kw_free_text _ _ = true |- _ => rename X into Hkw end.
    set (R1 := lay_bytes ol ++ op ++ pr_sum s2 ++ rest) in *.
    assert (E0 : (pr_sum s1 ++ lay_bytes ol ++ op ++ pr_sum s2) ++ rest = pr_sum s1 ++ R1) by (unfold R1; now rewrite <- !app_assoc).
    rewrite E0.
    assert (V2 : Valid (pr_sum s2 ++ rest)) by (apply valid_app; [eapply (proj1 (proj2 arith_valid)); eassumption|assumption]).
    assert (VR1 : Valid R1) by (unfold R1; apply valid_app; [now apply lay_valid|apply valid_app; [now apply cmp_valid|assumption]]).
    destruct (sum_body_facts s1 _ R1 H) as (b & t & Eb & H33 & _ & _ & _ & _ & _ & Hn).
    destruct (sum_body_facts s2 _ rest Hw2) as (b2 & t2 & Eb2 & _ & H61 & _ & _ & _ & _ & Hn2).
    pose proof (sum_body_valid _ _ H) as VB1. pose proof (sum_body_valid _ _ Hw2) as VB2.
    assert (VI : Valid (sum_body s1 ++ R1)) by now apply valid_app.
    assert (VI2 : Valid (sum_body s2 ++ rest)) by now apply valid_app.
    assert (Ein : skip_ws (pr_sum s1 ++ R1) = sum_body s1 ++ R1).
    { rewrite sum_split, <- app_assoc. apply skip_ws_closed; [apply lay_ok; exact (proj1 (proj1 (proj2 wf_first) _ _ H))|assumption|assumption]. }
    assert (Ein2 : skip_ws (pr_sum s2 ++ rest) = sum_body s2 ++ rest).
    { rewrite sum_split, <- app_assoc. apply skip_ws_closed; [apply lay_ok; exact (proj1 (proj1 (proj2 wf_first) _ _ Hw2))|assumption|assumption]. }
    assert (Eid : skip_ws (sum_body s1 ++ R1) = sum_body s1 ++ R1) by now apply skip_ws_fixed.
    assert (Ar1 : f_arith f (sum_body s1 ++ R1) = Ok (tr_sum s1, R1)).
    { rewrite <- Ein, f_arith_skip by (apply valid_app; [eapply (proj1 (proj2 arith_valid)); eassumption|assumption]).
      apply sum_roundtrip; [lia|assumption|assumption|]. unfold R1. now apply cmp_lead_out. }
    assert (Ar2 : f_arith f (sum_body s2 ++ rest) = Ok (tr_sum s2, rest)).
    { rewrite <- Ein2, f_arith_skip by assumption. apply sum_roundtrip; [lia|assumption|assumption|assumption]. }
    assert (Fop : filter_operator R1 = Ok (op, pr_sum s2 ++ rest)).
    { unfold R1. apply filter_operator_ok; try assumption. apply starts61. rewrite sum_split, <- app_assoc.
      apply layout_head_ne; [apply lay_ok; exact (proj1 (proj1 (proj2 wf_first) _ _ Hw2))|lia|reflexivity|lia|].
      rewrite Eb2. cbn [app starts_with]. destruct (N.eqb_spec 61 b2); [congruence|reflexivity]. }
    assert (E33 : strip_prefix [33] (sum_body s1 ++ R1) = None) by (rewrite Eb; cbn [app]; now apply strip1_none).
    cbn [f_atom]. rewrite Ein, E33.
    destruct (f_function_err f (sum_body s1 ++ R1) VI Eid Hkw) as (k1 & l1 & e1 & Ef). rewrite Ef. cbn [orelse].
    assert (Cmp : f_comparison f (sum_body s1 ++ R1) = Ok (FCmp (sum_body s1) op (sum_body s2), rest)).
    { unfold f_comparison. rewrite Eid, Ar1. cbn [bind]. rewrite slice_prefix by assumption. cbn [bind]. rewrite Fop. cbn [bind].
      rewrite Ein2, Ar2. cbn [bind]. rewrite slice_prefix by assumption. cbn [bind]. now rewrite Ht1, Ht2. }
    rewrite Cmp. reflexivity.
  - (* bare arithmetic *)
    intros s fuel rest Hf H Hr Ha. cbn [wf_atom pr_atom tr_atom sz_atom] in *. destruct fuel as [|f]; [lia|].
    destruct (after_atom_sub _ Ha) as [Ha1 Ha2].
    repeat (apply andb_true_iff in H; destruct H as [H ?]).
    match goal with X : negb _ = true |- _ => apply negb_true_iff in X; rename X into Hnp end.
    match goal with X : kw_free_text _ _ = true |- _ => rename X into Hkw end.
    destruct (sum_body_facts s _ rest H) as (b & t & Eb & H33 & _ & _ & _ & _ & H40 & Hn). specialize (H40 Hnp).
    pose proof (sum_body_valid _ _ H) as VB.
    assert (VI : Valid (sum_body s ++ rest)) by now apply valid_app.
    assert (VP : Valid (pr_sum s ++ rest)) by (apply valid_app; [eapply (proj1 (proj2 arith_valid)); eassumption|assumption]).
    assert (Ein : skip_ws (pr_sum s ++ rest) = sum_body s ++ rest).
    { rewrite sum_split, <- app_assoc. apply skip_ws_closed; [apply lay_ok; exact (proj1 (proj1 (proj2 wf_first) _ _ H))|assumption|assumption]. }
    assert (Eid : skip_ws (sum_body s ++ rest) = sum_body s ++ rest) by now apply skip_ws_fixed.
    assert (Ar : f_arith f (sum_body s ++ rest) = Ok (tr_sum s, rest)).
    { rewrite <- Ein, f_arith_skip by assumption. apply sum_roundtrip; [lia|assumption|assumption|assumption]. }
    assert (E33 : strip_prefix [33] (sum_body s ++ rest) = None) by (rewrite Eb; cbn [app]; now apply strip1_none).
    assert (E40 : strip_prefix [40] (sum_body s ++ rest) = None) by (rewrite Eb; cbn [app]; now apply strip1_none).
    cbn [f_atom]. rewrite Ein, E33, E40.
    destruct (f_function_err f (sum_body s ++ rest) VI Eid Hkw) as (k1 & l1 & e1 & Ef). rewrite Ef. cbn [orelse].
    assert (Cmp : is_err (f_comparison f (sum_body s ++ rest))).
    { unfold f_comparison. rewrite Eid, Ar. cbn [bind]. rewrite slice_prefix by assumption. cbn [bind].
      destruct (filter_operator_err rest Ha2) as (k2 & l2 & e2 & Eo). rewrite Eo. cbn [bind]. repeat eexists. }
    destruct Cmp as (k3 & l3 & e3 & Ec). rewrite Ec. cbn [orelse]. rewrite Ar. reflexivity.
  - (* parenthesised boolean expression: the arithmetic readings fail, then `(` f_or `)` *)
    intros l e IH r fuel rest Hf H Hr Ha. cbn [wf_atom pr_atom tr_atom sz_atom] in *. destruct fuel as [|f]; [lia|].
    destruct (after_atom_sub _ Ha) as [Ha1 Ha2].
    repeat (apply andb_true_iff in H; destruct H as [H ?]).
    match goal with X : wf_or e _ = true |- _ => rename X into He end.
    match goal with X : hd_or e = true |- _ => rename X into Hh end.
    match goal with X : lay_okb r = true |- _ => rename X into Hrp end.
    pose proof (proj2 (proj2 atom_valid_mut) e _ He) as Ve.
    assert (V41 : Valid (41 :: rest)) by (apply (valid_app [41]); [apply valid_ascii; repeat constructor; lia|assumption]).
    assert (VR : Valid (lay_bytes r ++ 41 :: rest)) by (apply valid_app; [now apply lay_valid|assumption]).
    assert (AR : after_atom (lay_bytes r ++ 41 :: rest)) by (apply lead_out_byte; try assumption; try lia; try reflexivity; cbn; lia).
    assert (VE : Valid (pr_or e ++ lay_bytes r ++ 41 :: rest)) by now apply valid_app.
    set (X := 40 :: pr_or e ++ lay_bytes r ++ 41 :: rest).
    assert (VX : Valid X) by (apply (valid_app [40]); [apply valid_ascii; repeat constructor; lia|assumption]).
    assert (E0 : (lay_bytes l ++ 40 :: pr_or e ++ lay_bytes r ++ [41]) ++ rest = lay_bytes l ++ X).
    { unfold X. repeat first [rewrite <- app_assoc | progress cbn [app]]. reflexivity. }
    assert (Eid : skip_ws X = X) by (apply skip_ws_fixed; [assumption|apply ascii_head_not_layout; [lia|reflexivity|lia]]).
    assert (Hkw : kw_free_text fn_kws X = true) by reflexivity.
    assert (Cmp : is_err (f_comparison f X)).
    { unfold f_comparison. rewrite Eid. destruct f as [|[|[|g3]]]; try lia.
      pose proof (proj2 (proj2 bool_arith) e g3 _ ltac:(lia) He Hh VR AR) as Try.
      pose proof (paren_arith [] e r g3 rest eq_refl Hrp Ve Hr Ha Try) as P. cbn [lay_bytes flat_map app] in P. fold X in P.
      unfold arith_paren in P. destruct (pure_or e).
      - destruct P as (t & ->). cbn [bind].
        assert (EX : X = (40 :: pr_or e ++ lay_bytes r ++ [41]) ++ rest) by (unfold X; repeat first [rewrite <- app_assoc | progress cbn [app]]; reflexivity).
        rewrite EX at 1 2. rewrite slice_prefix; [|apply (valid_app [40]); [apply valid_ascii; repeat constructor; lia|apply valid_app; [assumption|apply valid_app; [now apply lay_valid|apply valid_ascii; repeat constructor; lia]]]|assumption].
        cbn [bind]. destruct (filter_operator_err rest Ha2) as (k2 & l2 & e2 & ->). cbn [bind]. repeat eexists.
      - destruct P as (k2 & l2 & e2 & ->). cbn [bind]. repeat eexists. }
    assert (Esk : skip_ws (lay_bytes l ++ X) = X) by (unfold X; apply lead_skip; try assumption; try lia; reflexivity).
    cbn [f_atom]. rewrite E0, Esk.
    assert (E33 : strip_prefix [33] X = None) by (apply strip1_none; lia). rewrite E33.
    destruct (f_function_err f X VX Eid Hkw) as (k1 & l1 & e1 & ->). cbn [orelse].
    destruct Cmp as (k3 & l3 & e3 & ->). cbn [orelse]. unfold X at 1. rewrite strip1_some.
    rewrite (IH f _ ltac:(lia) He VR AR) by (apply no_op2_byte; try assumption; try lia; reflexivity).
    pose proof (c_or_sz e). destruct (f - c_or e)%nat as [|g] eqn:Eg; [lia|].
    rewrite or_loop_stop by (apply no_op2_byte; try assumption; try lia; reflexivity). cbn [bind].
    unfold schar. rewrite lead_skip by (try assumption; try lia; reflexivity). rewrite N.eqb_refl. reflexivity.
  - (* single atom *)
    intros a IH fuel rest Hf H Hr Ha. cbn [wf_and pr_and tr_and sz_and c_and] in *. destruct fuel as [|f]; [lia|].
    cbn [f_and]. rewrite (IH f rest ltac:(lia) H Hr Ha). cbn [bind]. replace (S f - 1)%nat with f by lia. reflexivity.
  - (* x && a *)
    intros x IHx l a IHa fuel rest Hf H Hr Ha. cbn [wf_and pr_and tr_and sz_and c_and] in *.
    repeat (apply andb_true_iff in H; destruct H as [H ?]).
    match goal with X : wf_and x _ = true |- _ => rename X into Hwx end.
    match goal with X : wf_atom a _ = true |- _ => rename X into Hwa end.
    assert (VA : Valid (pr_atom a ++ rest)) by (apply valid_app; [eapply (proj1 atom_valid_mut); eassumption|assumption]).
    assert (V38 : Valid (38 :: pr_atom a ++ rest)) by (apply (valid_app [38]); [apply valid_ascii; repeat constructor; lia|assumption]).
    assert (VR : Valid (lay_bytes l ++ 38 :: 38 :: pr_atom a ++ rest)).
    { apply valid_app; [now apply lay_valid|]. apply (valid_app [38]); [apply valid_ascii; repeat constructor; lia|assumption]. }
    rewrite <- !app_assoc. cbn [app].
    rewrite (IHx fuel _ ltac:(lia) Hwx VR) by (apply lead_out_byte; try assumption; try lia; try reflexivity; cbn; lia).
    pose proof (c_and_sz x). destruct (fuel - c_and x)%nat as [|g] eqn:Eg; [lia|].
    cbn [f_and_loop]. rewrite op2_skip by (try assumption; try lia; reflexivity).
    rewrite (IHa g rest ltac:(lia) Hwa Hr Ha). cbn [bind]. replace (fuel - S (c_and x))%nat with g by lia. reflexivity.
  - (* single conjunction *)
    intros x IH fuel rest Hf H Hr Ha Hno. cbn [wf_or pr_or tr_or sz_or c_or] in *. destruct fuel as [|f]; [lia|].
    cbn [f_or]. rewrite (IH f rest ltac:(lia) H Hr Ha). pose proof (c_and_sz x).
    destruct (f - c_and x)%nat as [|g] eqn:Eg; [lia|]. rewrite and_loop_stop by assumption. cbn [bind].
    replace (S f - 1)%nat with f by lia. reflexivity.
  - (* o || x *)
    intros o IHo l x IHx fuel rest Hf H Hr Ha Hno. cbn [wf_or pr_or tr_or sz_or c_or] in *.
    repeat (apply andb_true_iff in H; destruct H as [H ?]).
    match goal with X : wf_or o _ = true |- _ => rename X into Hwo end.
    match goal with X : wf_and x _ = true |- _ => rename X into Hwx end.
    assert (VA : Valid (pr_and x ++ rest)) by (apply valid_app; [eapply (proj1 (proj2 atom_valid_mut)); eassumption|assumption]).
    assert (V1 : Valid (124 :: pr_and x ++ rest)) by (apply (valid_app [124]); [apply valid_ascii; repeat constructor; lia|assumption]).
    assert (VR : Valid (lay_bytes l ++ 124 :: 124 :: pr_and x ++ rest)).
    { apply valid_app; [now apply lay_valid|]. apply (valid_app [124]); [apply valid_ascii; repeat constructor; lia|assumption]. }
    rewrite <- !app_assoc. cbn [app].
    rewrite (IHo fuel _ ltac:(lia) Hwo VR)
      by first [apply lead_out_byte; try assumption; try lia; try reflexivity; cbn; lia
               |apply no_op2_byte; try assumption; try lia; reflexivity].
    pose proof (c_or_sz o). pose proof (c_and_sz x). destruct (fuel - c_or o)%nat as [|g] eqn:Eg; [lia|].
    cbn [f_or_loop]. rewrite op2_skip by (try assumption; try lia; reflexivity).
    rewrite (IHx g rest ltac:(lia) Hwx Hr Ha).
    destruct (g - c_and x)%nat as [|g2] eqn:Eg2; [lia|]. rewrite and_loop_stop by assumption. cbn [bind].
    replace (fuel - S (c_or o))%nat with g by lia. reflexivity.
Qed.

Theorem or_roundtrip : forall o fuel rest, (sz_or o <= fuel)%nat -> wf_or o rest = true -> Valid rest -> after_atom rest ->
  no_op2 38 rest -> no_op2 124 rest -> f_or fuel (pr_or o ++ rest) = Ok (tr_or o, rest).
Proof.
  intros o fuel rest Hf H Hr Ha H38 H124. rewrite (proj2 (proj2 bool_rt) o fuel rest) by assumption.
  pose proof (c_or_sz o). destruct (fuel - c_or o)%nat as [|g] eqn:Eg; [lia|]. now apply or_loop_stop.
Qed.

(* ---- keywords in any letter case -------------------------------------------------------------------------- *)
Definition kw_alpha (kw : str) : bool := match kw with k :: _ => is_ascii_alpha k | [] => false end.
Lemma kw_rt : forall kw txt l rest, ascii_str kw -> kw_alpha kw = true -> kwcaseb kw txt = true -> lay_okb l = true -> Valid rest ->
  name_stop rest -> keyword kw (lay_bytes l ++ txt ++ rest) = Ok (txt, rest).
Proof.
  intros kw txt l rest Ha Hal Hk Hl Hr Hst. apply kwcase_b in Hk.
  apply keyword_roundtrip; try assumption; [|now apply lay_ok].
  destruct Hk as [|k b kw' t Hkb Hrest]; [discriminate|]. exists b, t. split; [reflexivity|].
  cbn [kw_alpha] in Hal. unfold letter, is_ascii_alpha, is_ascii_upper, is_ascii_lower, ascii_lower, is_ascii_upper in *.
  destruct ((65 <=? b) && (b <=? 90)) eqn:E1; destruct ((65 <=? k) && (k <=? 90)) eqn:E2; lia.
Qed.
Lemma kw_valid : forall kw txt, ascii_str kw -> kwcaseb kw txt = true -> Valid txt.
Proof. intros kw txt Ha Hk. apply valid_ascii. apply (kwcase_ascii kw); [assumption|now apply kwcase_b]. Qed.
Lemma stop_byte : forall P b x, b < 128 -> P b = true -> stopb P (b :: x) = true.
Proof. intros P b x Hb HP. unfold stopb. cbn [next_char]. destruct (N.ltb_spec b 128); [assumption|lia]. Qed.

(* ---- FILTER ( expr ) -------------------------------------------------------------------------------------- *)
Record FilterC := { fl_kl : L; fl_kw : str; fl_lp : L; fl_e : OrC; fl_rp : L }.
Definition pr_filter (f : FilterC) : str :=
  lay_bytes (fl_kl f) ++ fl_kw f ++ lay_bytes (fl_lp f) ++ 40 :: pr_or (fl_e f) ++ lay_bytes (fl_rp f) ++ [41].
Definition wf_filter (f : FilterC) (following : str) : bool :=
  lay_okb (fl_kl f) && kwcaseb kw_filter (fl_kw f) && lay_okb (fl_lp f) && lay_okb (fl_rp f)
  && wf_or (fl_e f) (lay_bytes (fl_rp f) ++ 41 :: following).

Theorem filter_roundtrip : forall f fuel rest, (sz_or (fl_e f) <= fuel)%nat -> wf_filter f rest = true -> Valid rest ->
  filter_clause fuel (pr_filter f ++ rest) = Ok (tr_or (fl_e f), rest).
Proof.
  intros [kl kw lp e rp] fuel rest Hf H Hr. unfold wf_filter, pr_filter in *. cbn [fl_kl fl_kw fl_lp fl_e fl_rp] in *.
  repeat (apply andb_true_iff in H; destruct H as [H ?]).
  match goal with X : wf_or e _ = true |- _ => rename X into He end.
  match goal with X : kwcaseb _ _ = true |- _ => rename X into Hk end.
  match goal with X : lay_okb lp = true |- _ => rename X into Hlp end.
  match goal with X : lay_okb rp = true |- _ => rename X into Hrp end.
  assert (V41 : Valid (41 :: rest)) by (apply (valid_app [41]); [apply valid_ascii; repeat constructor; lia|assumption]).
  assert (VR : Valid (lay_bytes rp ++ 41 :: rest)) by (apply valid_app; [now apply lay_valid|assumption]).
  assert (VE : Valid (pr_or e ++ lay_bytes rp ++ 41 :: rest)) by (apply valid_app; [eapply (proj2 (proj2 atom_valid_mut)); eassumption|assumption]).
  assert (V40 : Valid (40 :: pr_or e ++ lay_bytes rp ++ 41 :: rest)) by (apply (valid_app [40]); [apply valid_ascii; repeat constructor; lia|assumption]).
  assert (VL : Valid (lay_bytes lp ++ 40 :: pr_or e ++ lay_bytes rp ++ 41 :: rest)) by (apply valid_app; [now apply lay_valid|assumption]).
  repeat first [rewrite <- app_assoc | progress cbn [app]].
  unfold filter_clause.
  rewrite (kw_rt kw_filter kw kl _ ltac:(kw_a) eq_refl Hk H VL).
  2:{ apply name_stop_layout; [now apply lay_ok|]. unfold name_stop. cbn. reflexivity. }
  cbn [bind]. rewrite schar_roundtrip by (try assumption; try lia; try reflexivity; now apply lay_ok). cbn [bind].
  rewrite (or_roundtrip e fuel _ Hf He VR).
  - cbn [bind]. rewrite schar_roundtrip by (try assumption; try lia; try reflexivity; now apply lay_ok). reflexivity.
  - apply lead_out_byte; try assumption; try lia; try reflexivity. cbn; lia.
  - apply no_op2_byte; try assumption; try lia; reflexivity.
  - apply no_op2_byte; try assumption; try lia; reflexivity.
Qed.
